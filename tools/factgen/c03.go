package main

import (
	"go/ast"
	"sort"
	"strings"
)

// C03 — request routing. Facts the model in lean/Fabio/Model/C03.lean silently depends on, stated as
// canonical guarded events (c03canon.go) so that renaming locals/parameters/receivers, hoisting or inlining a
// sub-expression, extracting or inlining an unexported helper, guard clauses vs nested ifs, if/else vs
// switch, and named constants vs literals do not change them.
func init() {
	register("C03", func(x *X) error {
		x.UseNormalizedAST()

		// the translated function (xlate.go): lessSpecificHost regenerated from the source on every run and
		// proved equal to the byte-level model in Props/C03Xlate.lean. (normalizeHostNoLower and isHostPattern
		// are refused by the translator: calls of strings.HasSuffix / strings.ContainsAny are outside its subset.)
		xlateEmit(x, "route/table.go", []xlSpec{
			{"", "lessSpecificHost", "XLessSpecificHost", []string{"auto"}, []string{"p0:Bytes:[]", "p1:Bytes:[]", "l0:Int:0"}, "Bool"},
		})

		// roles instead of names: the three matcher functions are "the values of route.Matcher", the per-host
		// scan is "the method LookupHost returns a call of"
		alias := map[string]string{}
		matcherFns := map[string]string{} // key -> function name
		if e := x.valueSpec("route", "Matcher"); e != nil {
			if cl, ok := e.(*ast.CompositeLit); ok {
				for _, el := range cl.Elts {
					if p, ok := el.(*ast.KeyValueExpr); ok {
						k, _ := x.strLit(p.Key)
						if id, ok := p.Value.(*ast.Ident); ok {
							matcherFns[k] = id.Name
							alias[id.Name] = "matcher:" + k
						} else {
							x.fail("route.Matcher[%q] is not a function name: %s", k, x.src(p.Value))
						}
					}
				}
			} else {
				x.fail("route.Matcher is not a composite literal")
			}
		}
		scanFn := ""
		if fd := x.funcDecl("route", "Table", "LookupHost"); fd != nil && fd.Body != nil {
			ast.Inspect(fd.Body, func(n ast.Node) bool {
				if r, ok := n.(*ast.ReturnStmt); ok && len(r.Results) == 1 {
					if call, ok := r.Results[0].(*ast.CallExpr); ok {
						scanFn = c03Callee(call.Fun)
					}
				}
				return true
			})
		}
		if scanFn == "" {
			x.fail("route: LookupHost does not return a call")
		} else {
			alias[scanFn] = "scanHost"
		}
		// anchors: unexported functions the facts talk about (the first five are also named by the hook file
		// route/verif_c03.go, so renaming them breaks the harness build anyway)
		anchors := []string{"normalizeHostNoLower", "matchingHosts", "matchingHostNoGlob", "sortHostsReverseHostPort", "globMatch", scanFn}
		cn := func() *canon { return newCanon(x, "route", anchors, alias) }

		// 1. the matcher table: key = what the function returns
		var mt []string
		for k, fn := range matcherFns {
			if fd := x.funcDecl("route", "", fn); fd != nil {
				mt = append(mt, k+" => "+strings.Join(c03Pick(cn().describe(fd), c03Kinds("return", "assign", "store")), " ; "))
			}
		}
		sort.Strings(mt)
		x.defStrList("matcherTable", mt)
		// globMatch: g.Match(s) under a recover that turns a panic of the library into "no match"
		if fd := x.funcDecl("route", "", "globMatch"); fd != nil {
			x.defStrList("globMatchEvents", c03Pick(cn().describe(fd), c03Kinds("return", "freturn", "assign", "call:recover")))
		}
		// 2. the order of a host's routes
		if fd := x.funcDecl("route", "Routes", "Less"); fd != nil {
			x.defStrList("lessEvents", c03Pick(cn().describe(fd), c03Kinds("return", "assign", "store")))
		}
		// 3. default ports: which suffix is stripped under which value of the TLS flag (2nd parameter), in either
		// of the equivalent forms `if c && HasSuffix(h, s) { return h[:len(h)-len(s)] }` / `TrimSuffix(h, s)`
		if fd := x.funcDecl("route", "", "normalizeHostNoLower"); fd != nil {
			var rules, other []string
			for _, e := range cn().describe(fd) {
				if e.Kind != "return" {
					continue
				}
				pol := "any"
				hasT, hasF := false, false
				for _, g := range e.Guards {
					if g == "p1" {
						hasT = true
					}
					if g == "!p1" {
						hasF = true
					}
				}
				switch {
				case hasT && !hasF:
					pol = "tls"
				case hasF && !hasT:
					pol = "plain"
				}
				if lit, ok := c03CutBoth(e.Text, "strings.TrimSuffix(p0, ", ")"); ok {
					rules = append(rules, pol+" strip "+lit)
					continue
				}
				if lit, ok := c03CutBoth(e.Text, "p0[:len(p0) - len(", ")]"); ok {
					guarded := false
					for _, g := range e.Guards {
						if g == "strings.HasSuffix(p0, "+lit+")" {
							guarded = true
						}
					}
					if guarded {
						rules = append(rules, pol+" strip "+lit)
						continue
					}
				}
				other = append(other, e.Text)
			}
			sort.Strings(rules)
			x.defStrList("defaultPortRules", rules)
			x.defStrList("defaultPortOtherReturns", c03Dedup(other))
		}
		if fd := x.funcDecl("route", "", "normalizeHost"); fd != nil {
			x.defStrList("normalizeHostEvents", c03Pick(cn().describe(fd), c03Kinds("return", "assign", "store")))
		}
		// 4. host selection
		for _, m := range []string{"matchingHosts", "matchingHostNoGlob"} {
			if fd := x.funcDecl("route", "Table", m); fd != nil {
				evs := cn().describe(fd)
				x.defStrList(m+"Events", c03Pick(evs, c03Kinds("range", "assign", "return", "call:MustCompile", "call:Get")))
			}
		}
		// 5. the host order
		if fd := x.funcDecl("route", "", "sortHostsReverseHostPort"); fd != nil {
			x.defStrList("sortHostsEvents", c03Pick(cn().describe(fd),
				c03Kinds("store", "return", "freturn", "call:Slice", "call:SliceStable", "call:Sort", "call:Stable", "call:Strings")))
		}
		// 6. Lookup: host selection by the glob switch, the "" fallback appended after it, the scan of every host
		if fd := x.funcDecl("route", "Table", "Lookup"); fd != nil {
			x.defStrList("lookupEvents", c03Pick(cn().describe(fd),
				c03Kinds("call:matchingHosts", "call:matchingHostNoGlob", "call:append", "range", "call:scanHost", "return")))
		}
		if scanFn != "" {
			if fd := x.funcDecl("route", "Table", scanFn); fd != nil {
				x.defStrList("scanHostEvents", c03Pick(cn().describe(fd), c03Kinds("assign", "range", "return")))
			}
		}
		if fd := x.funcDecl("route", "Table", "LookupHost"); fd != nil {
			x.defStrList("lookupHostEvents", c03Pick(cn().describe(fd), c03Kinds("return", "assign", "store")))
		}
		// 7. the callers hand Lookup the configured picker, matcher, cache and the glob switch
		var callers []string
		for _, dir := range []string{".", "proxy"} {
			for _, f := range x.files(dir) {
				for _, d := range f.Decls {
					fd, ok := d.(*ast.FuncDecl)
					if !ok || fd.Body == nil {
						continue
					}
					has := false
					ast.Inspect(fd.Body, func(n ast.Node) bool {
						if c, ok := n.(*ast.CallExpr); ok && c03Callee(c.Fun) == "Lookup" && len(c.Args) == 6 {
							has = true
						}
						return !has
					})
					if !has {
						continue
					}
					c := newCanon(x, dir, nil, nil)
					for _, e := range c.describe(fd) {
						if e.Kind == "call" && e.Callee == "Lookup" {
							if i := strings.Index(e.Text, ".Lookup("); i >= 0 {
								args := c03SplitArgs(strings.TrimSuffix(e.Text[i+len(".Lookup("):], ")"))
								if len(args) == 6 {
									callers = append(callers, strings.Join(args[2:], ", "))
								}
							}
						}
					}
				}
			}
		}
		sort.Strings(callers)
		x.defStrList("lookupCallers", callers)
		return nil
	})
}

func c03CutBoth(s, pre, suf string) (string, bool) {
	if strings.HasPrefix(s, pre) && strings.HasSuffix(s, suf) && len(s) >= len(pre)+len(suf) {
		return s[len(pre) : len(s)-len(suf)], true
	}
	return "", false
}

func c03Dedup(xs []string) []string {
	out := []string{}
	seen := map[string]bool{}
	for _, s := range xs {
		if !seen[s] {
			seen[s] = true
			out = append(out, s)
		}
	}
	return out
}

// c03SplitArgs splits a rendered argument list at top-level commas.
func c03SplitArgs(s string) []string {
	var out []string
	depth, start := 0, 0
	inStr := false
	for i := 0; i < len(s); i++ {
		ch := s[i]
		switch {
		case inStr:
			if ch == '\\' {
				i++
			} else if ch == '"' {
				inStr = false
			}
		case ch == '"':
			inStr = true
		case ch == '(' || ch == '[' || ch == '{':
			depth++
		case ch == ')' || ch == ']' || ch == '}':
			depth--
		case ch == ',' && depth == 0:
			out = append(out, strings.TrimSpace(s[start:i]))
			start = i + 1
		}
	}
	if strings.TrimSpace(s[start:]) != "" {
		out = append(out, strings.TrimSpace(s[start:]))
	}
	return out
}
