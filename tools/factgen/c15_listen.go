package main

import (
	"go/ast"
	"sort"
)

// C15, listener protocols: the names parseListen accepts (config/load.go) and the names main.startServers has a
// case for (main.go).  Both are read from the un-normalised source as the case literals of a tagged switch:
//   accepted — the switch nested in the `case "proto":` clause of a switch over the listener's keys;
//   handled  — every switch in package main whose tag is a selector `<x>.Proto`.
// The obligation (C15Facts.listen_protos_handled) is the inclusion accepted ⊆ handled: wiring in main.go that no
// harness executes.  That the accepted names are compared with the value that is *stored* is established by the
// stream c15.listen on every run (it looks at Listen.Proto of the returned Config).
func c15EmitListenFacts(x0 *X) {
	x := newX(x0.repo, x0.prop) // un-normalised view
	defer func() { x0.errs = append(x0.errs, x.errs...) }()
	caseLits := func(sw *ast.SwitchStmt) (lits []string, hasDefault, defaultExits bool) {
		for _, st := range sw.Body.List {
			cc, ok := st.(*ast.CaseClause)
			if !ok {
				continue
			}
			if cc.List == nil {
				hasDefault = true
				ast.Inspect(cc, func(n ast.Node) bool {
					switch v := n.(type) {
					case *ast.ReturnStmt:
						defaultExits = true
					case *ast.CallExpr:
						if f := x.src(v.Fun); f == "exit.Fatal" || f == "exit.Fatalf" || f == "log.Fatal" || f == "log.Fatalf" || f == "panic" {
							defaultExits = true
						}
					}
					return true
				})
				continue
			}
			for _, e := range cc.List {
				if s, ok := x.strLit(e); ok {
					lits = append(lits, s)
				} else {
					x.fail("listener protocol switch at %s: case %s is not a string literal", x.fset.Position(e.Pos()), x.src(e))
				}
			}
		}
		sort.Strings(lits)
		return
	}
	// accepted
	var accepted []string
	found := 0
	rejects := false
	for _, f := range x.files("config") {
		ast.Inspect(f, func(n ast.Node) bool {
			cc, ok := n.(*ast.CaseClause)
			if !ok {
				return true
			}
			isProto := false
			for _, e := range cc.List {
				if s, ok := x.strLit(e); ok && s == "proto" {
					isProto = true
				}
			}
			if !isProto {
				return true
			}
			for _, st := range cc.Body {
				ast.Inspect(st, func(m ast.Node) bool {
					if sw, ok := m.(*ast.SwitchStmt); ok && sw.Tag != nil {
						lits, hasDefault, exits := caseLits(sw)
						accepted = append(accepted, lits...)
						rejects = hasDefault && exits
						found++
						return false
					}
					return true
				})
			}
			return false
		})
	}
	if found != 1 {
		x.fail("config: expected exactly one protocol switch under `case \"proto\":`, found %d", found)
	}
	sort.Strings(accepted)
	x0.defStrList("listenProtosAccepted", accepted)
	x0.defBool("listenProtoOthersRejected", rejects)
	// handled
	var handled []string
	nsw := 0
	fatal := true
	for _, f := range x.files(".") {
		ast.Inspect(f, func(n ast.Node) bool {
			sw, ok := n.(*ast.SwitchStmt)
			if !ok || sw.Tag == nil {
				return true
			}
			sel, ok := sw.Tag.(*ast.SelectorExpr)
			if !ok || sel.Sel.Name != "Proto" {
				return true
			}
			lits, hasDefault, exits := caseLits(sw)
			if nsw == 0 {
				handled = lits
			} else { // several switches over the protocol: a name is handled only if every one of them has it
				keep := handled[:0]
				for _, h := range handled {
					for _, l := range lits {
						if h == l {
							keep = append(keep, h)
						}
					}
				}
				handled = keep
			}
			fatal = fatal && hasDefault && exits
			nsw++
			return true
		})
	}
	if nsw == 0 {
		x.fail("package main: no switch over a listener's .Proto found")
	}
	// main hands the process's own arguments and environment to config.Load (and nothing else calls it)
	loads, loadsOK := 0, 0
	for _, f := range x.files(".") {
		ast.Inspect(f, func(n ast.Node) bool {
			if c, ok := n.(*ast.CallExpr); ok && x.src(c.Fun) == "config.Load" {
				loads++
				if len(c.Args) == 2 && x.src(c.Args[0]) == "os.Args" && x.src(c.Args[1]) == "os.Environ()" {
					loadsOK++
				}
			}
			return true
		})
	}
	x0.defBool("mainLoadsArgsAndEnviron", loads >= 1 && loads == loadsOK)
	x0.defStrList("listenProtosHandled", handled)
	x0.defNat("listenProtoSwitches", uint64(nsw))
	x0.defBool("listenProtoDefaultFatal", fatal)
}
