package main

import (
	"go/ast"
	"go/token"
	"sort"
	"strings"
)

// C08 facts: the header-name literals addHeaders/scheme/addResponseHeaders use, the literals of the
// Forwarded / Strict-Transport-Security values, the tlsver table, how the "websocket" upgrade is recognised at
// the three sites that must agree, and the order of request-id, addHeaders and the Host override in
// HTTPProxy.ServeHTTP.
func init() {
	register("C08", func(x *X) error {
		hdrNames := func(fd *ast.FuncDecl) []string {
			set := map[string]bool{}
			ast.Inspect(fd.Body, func(n ast.Node) bool {
				switch v := n.(type) {
				case *ast.CallExpr:
					sel, ok := v.Fun.(*ast.SelectorExpr)
					if !ok || len(v.Args) == 0 {
						return true
					}
					recv := x.src(sel.X)
					if !strings.HasSuffix(recv, ".Header") && !strings.HasSuffix(recv, ".Header()") {
						return true
					}
					switch sel.Sel.Name {
					case "Get", "Set", "Del", "Add", "Values":
						if s, ok := x.strLit(v.Args[0]); ok {
							set[s] = true
						}
					}
				case *ast.IndexExpr:
					if strings.HasSuffix(x.src(v.X), ".Header") {
						if s, ok := x.strLit(v.Index); ok {
							set[s] = true
						} else {
							x.fail("%s: header map indexed with a non-literal: %s", fd.Name.Name, x.src(v))
						}
					}
				}
				return true
			})
			var out []string
			for s := range set {
				out = append(out, s)
			}
			sort.Strings(out)
			return out
		}
		literals := func(fd *ast.FuncDecl, keep func(string) bool) []string {
			var out []string
			ast.Inspect(fd.Body, func(n ast.Node) bool {
				if bl, ok := n.(*ast.BasicLit); ok && bl.Kind == token.STRING {
					if s, ok := x.strLit(bl); ok && keep(s) {
						out = append(out, s)
					}
				}
				return true
			})
			return out
		}
		// how a function recognises the websocket upgrade: every comparison against a literal that is
		// "websocket" in some casing
		wsCompare := func(fd *ast.FuncDecl) []string {
			var out []string
			isWS := func(e ast.Expr) (string, bool) {
				s, ok := x.strLit(e)
				return s, ok && strings.EqualFold(s, "websocket")
			}
			isToLower := func(e ast.Expr) bool {
				c, ok := e.(*ast.CallExpr)
				return ok && x.src(c.Fun) == "strings.ToLower"
			}
			ast.Inspect(fd.Body, func(n ast.Node) bool {
				switch v := n.(type) {
				case *ast.BinaryExpr:
					if v.Op != token.EQL && v.Op != token.NEQ {
						return true
					}
					for _, p := range [][2]ast.Expr{{v.X, v.Y}, {v.Y, v.X}} {
						if s, ok := isWS(p[1]); ok {
							if isToLower(p[0]) {
								out = append(out, "fold:"+s)
							} else {
								out = append(out, "exact:"+s)
							}
						}
					}
				case *ast.CallExpr:
					if x.src(v.Fun) == "strings.EqualFold" && len(v.Args) == 2 {
						for _, a := range v.Args {
							if s, ok := isWS(a); ok {
								out = append(out, "fold:"+strings.ToLower(s))
							}
						}
					}
				}
				return true
			})
			return out
		}

		add := x.funcDecl("proxy", "", "addHeaders")
		sch := x.funcDecl("proxy", "", "scheme")
		rsp := x.funcDecl("proxy", "", "addResponseHeaders")
		srv := x.funcDecl("proxy", "HTTPProxy", "ServeHTTP")
		if add == nil || sch == nil || rsp == nil || srv == nil {
			return nil
		}
		x.defStrList("addHeadersNames", hdrNames(add))
		x.defStrList("schemeNames", hdrNames(sch))
		x.defStrList("responseNames", hdrNames(rsp))
		x.defStrList("forwardedPieces", literals(add, func(s string) bool {
			return strings.HasPrefix(s, "; ") || strings.HasSuffix(s, "=")
		}))
		x.defStrList("stsPieces", literals(rsp, func(s string) bool { return s != "Strict-Transport-Security" }))
		x.defStrList("schemeLiterals", literals(sch, func(s string) bool { return s != "" && !strings.Contains(s, "-") && s != "Forwarded" && s != "Upgrade" }))

		// literals the configured client-IP header name is compared with
		var excl []string
		ast.Inspect(add.Body, func(n ast.Node) bool {
			if b, ok := n.(*ast.BinaryExpr); ok && b.Op == token.NEQ && x.src(b.X) == "cfg.ClientIPHeader" {
				if s, ok := x.strLit(b.Y); ok && s != "" {
					excl = append(excl, s)
				}
			}
			return true
		})
		x.defStrList("clientIPExcluded", excl)

		// tlsver table
		if e := x.valueSpec("proxy", "tlsver"); e != nil {
			if cl, ok := e.(*ast.CompositeLit); ok {
				var ks, vs []string
				for _, el := range cl.Elts {
					if kv, ok := el.(*ast.KeyValueExpr); ok {
						v, _ := x.strLit(kv.Value)
						ks = append(ks, x.src(kv.Key))
						vs = append(vs, v)
					}
				}
				x.defStrList("tlsverKeys", ks)
				x.defStrList("tlsverValues", vs)
			} else {
				x.fail("proxy.tlsver is not a composite literal")
			}
		}

		// protectManagedHeaders (D12d): the fixed list, the configured names it adds, how a Connection token is
		// turned into a header name, and that addHeaders calls it last
		if prot := x.funcDecl("proxy", "", "protectManagedHeaders"); prot != nil {
			if e := x.valueSpec("proxy", "managedHeaders"); e != nil {
				if cl, ok := e.(*ast.CompositeLit); ok {
					var vs []string
					for _, el := range cl.Elts {
						v, ok := x.strLit(el)
						if !ok {
							x.fail("managedHeaders: non-literal element %s", x.src(el))
						}
						vs = append(vs, v)
					}
					x.defStrList("managedHeaders", vs)
				} else {
					x.fail("proxy.managedHeaders is not a composite literal")
				}
			}
			var cfgNames, tokKeys []string
			ast.Inspect(prot.Body, func(n ast.Node) bool {
				switch v := n.(type) {
				case *ast.CompositeLit:
					for _, el := range v.Elts {
						if strings.HasPrefix(x.src(el), "cfg.") {
							cfgNames = append(cfgNames, x.src(el))
						}
					}
				case *ast.UnaryExpr:
					if v.Op == token.NOT {
						if ix, ok := v.X.(*ast.IndexExpr); ok && x.src(ix.X) == "managed" {
							tokKeys = append(tokKeys, x.src(ix.Index))
						}
					}
				}
				return true
			})
			x.defStrList("protectConfigNames", cfgNames)
			x.defStrList("protectTokenKey", tokKeys)
			x.defStrList("protectHeaderNames", hdrNames(prot))
			last := false
			if n := len(add.Body.List); n >= 2 {
				if es, ok := add.Body.List[n-2].(*ast.ExprStmt); ok && x.src(es.X) == "protectManagedHeaders(r, cfg)" {
					_, isRet := add.Body.List[n-1].(*ast.ReturnStmt)
					last = isRet
				}
			}
			x.defBool("protectIsLastStatement", last)
		}

		x.defStrList("wsCompareAddHeaders", wsCompare(add))
		x.defStrList("wsCompareScheme", wsCompare(sch))
		x.defStrList("wsCompareServeHTTP", wsCompare(srv))

		// order inside ServeHTTP (source positions; the body is straight-line code with early returns)
		var addPos []token.Pos
		for _, c := range x.calls(srv.Body, "addHeaders") {
			addPos = append(addPos, c.Pos())
		}
		var hostAssign, reqID []token.Pos
		ast.Inspect(srv.Body, func(n ast.Node) bool {
			switch v := n.(type) {
			case *ast.AssignStmt:
				for _, l := range v.Lhs {
					if x.src(l) == "r.Host" {
						hostAssign = append(hostAssign, v.Pos())
					}
				}
			case *ast.CallExpr:
				if x.src(v.Fun) == "r.Header.Set" && len(v.Args) == 2 && x.src(v.Args[0]) == "p.Config.RequestID" {
					reqID = append(reqID, v.Pos())
				}
			}
			return true
		})
		x.defNat("addHeadersCalls", uint64(len(addPos)))
		x.defNat("hostAssignments", uint64(len(hostAssign)))
		x.defNat("requestIDSets", uint64(len(reqID)))
		before := func(ps []token.Pos) uint64 {
			n := uint64(0)
			for _, p := range ps {
				for _, a := range addPos {
					if p < a {
						n++
						break
					}
				}
			}
			return n
		}
		x.defNat("hostAssignmentsBeforeAddHeaders", before(hostAssign))
		x.defNat("requestIDSetsBeforeAddHeaders", before(reqID))
		// addHeaders must be handed the request itself and the route's strip path
		if len(addPos) == 1 {
			c := x.calls(srv.Body, "addHeaders")[0]
			var args []string
			for _, a := range c.Args {
				args = append(args, x.src(a))
			}
			x.defStrList("addHeadersArgs", args)
		} else {
			x.defStrList("addHeadersArgs", nil)
		}
		return nil
	})
}
