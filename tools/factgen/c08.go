package main

import (
	"regexp"
	"go/ast"
	"go/token"
	"sort"
	"strings"
)

// C08 facts. Everything is extracted from the NORMALISED AST (package constants inlined, literal
// concatenations folded, switch -> if-chains) and by walking functions with their unexported same-package
// callees inlined, so that the facts describe what the code does (which header names it reads and writes, in
// which order it writes them, which literals it compares with, in which order ServeHTTP sets the request id,
// calls addHeaders and overrides Host), not how it is spelled. Variables are identified by role (receiver,
// i-th parameter, selected field name), never by their names.
//
// Names that ARE fixed: addHeaders, addResponseHeaders, scheme, localPort (referenced by the hook
// /repo/proxy/verif_c08.go — renaming one of them breaks the harness build before any fact is looked at) and
// HTTPProxy.ServeHTTP (exported API).
func init() {
	register("C08", func(x *X) error {
		x.UseNormalizedAST()
		const dir = "proxy"

		// ---- helpers -------------------------------------------------------------------------------------
		// isHeaderExpr: an expression denoting a header map: `<any>.Header`, `<any>.Header()`, or a local that was
		// assigned from one (aliases collected per walk).
		type walkCtx struct{ alias map[string]bool }
		isHeaderExpr := func(c *walkCtx, e ast.Expr) bool {
			switch v := e.(type) {
			case *ast.SelectorExpr:
				return v.Sel.Name == "Header"
			case *ast.CallExpr:
				if s, ok := v.Fun.(*ast.SelectorExpr); ok && len(v.Args) == 0 {
					return s.Sel.Name == "Header"
				}
			case *ast.Ident:
				return c.alias[v.Name]
			}
			return false
		}
		// key renders a header-name argument by meaning: literal value, or the selected field name.
		key := func(e ast.Expr) string {
			if s, ok := x.strLit(e); ok {
				return s
			}
			if s, ok := e.(*ast.SelectorExpr); ok {
				return "field:" + s.Sel.Name
			}
			return "?"
		}
		// walk visits fd with callees inlined and keeps the header aliases up to date.
		walk := func(fd *ast.FuncDecl, visit func(c *walkCtx, n ast.Node)) {
			c := &walkCtx{alias: map[string]bool{}}
			x.WalkInlined(dir, fd, func(n ast.Node) bool {
				if as, ok := n.(*ast.AssignStmt); ok && len(as.Lhs) == len(as.Rhs) {
					for i, l := range as.Lhs {
						if id, ok := l.(*ast.Ident); ok && isHeaderExpr(c, as.Rhs[i]) {
							c.alias[id.Name] = true
						}
					}
				}
				visit(c, n)
				return true
			})
		}
		// names: every literal header name the function (with callees) reads or writes; writes: ordered list of
		// header mutations, consecutive duplicates collapsed.
		headerUse := func(fd *ast.FuncDecl) (names []string, writes []string) {
			set := map[string]bool{}
			push := func(ev string) {
				if len(writes) == 0 || writes[len(writes)-1] != ev {
					writes = append(writes, ev)
				}
			}
			note := func(e ast.Expr) {
				if s, ok := x.strLit(e); ok {
					set[s] = true
				}
			}
			walk(fd, func(c *walkCtx, n ast.Node) {
				switch v := n.(type) {
				case *ast.CallExpr:
					if id, ok := v.Fun.(*ast.Ident); ok && id.Name == "delete" && len(v.Args) == 2 && isHeaderExpr(c, v.Args[0]) {
						note(v.Args[1])
						push("del:" + key(v.Args[1]))
						return
					}
					sel, ok := v.Fun.(*ast.SelectorExpr)
					if !ok || len(v.Args) == 0 || !isHeaderExpr(c, sel.X) {
						return
					}
					switch sel.Sel.Name {
					case "Get", "Values":
						note(v.Args[0])
					case "Set":
						note(v.Args[0])
						push("set:" + key(v.Args[0]))
					case "Add":
						note(v.Args[0])
						push("add:" + key(v.Args[0]))
					case "Del":
						note(v.Args[0])
						push("del:" + key(v.Args[0]))
					}
				case *ast.IndexExpr:
					if isHeaderExpr(c, v.X) {
						note(v.Index)
					}
				case *ast.AssignStmt:
					for _, l := range v.Lhs {
						if ix, ok := l.(*ast.IndexExpr); ok && isHeaderExpr(c, ix.X) {
							push("assign:" + key(ix.Index))
						}
					}
				}
			})
			for s := range set {
				names = append(names, s)
			}
			sort.Strings(names)
			return
		}
		literals := func(fd *ast.FuncDecl, keep func(string) bool) []string {
			var out []string
			walk(fd, func(c *walkCtx, n ast.Node) {
				if bl, ok := n.(*ast.BasicLit); ok && bl.Kind == token.STRING {
					if s, ok := x.strLit(bl); ok && keep(s) {
						out = append(out, s)
					}
				}
			})
			return out
		}
		// how a function (with callees) recognises the websocket upgrade: the set of comparison kinds against a
		// literal that is "websocket" in some casing
		wsCompare := func(fd *ast.FuncDecl) []string {
			set := map[string]bool{}
			isWS := func(e ast.Expr) (string, bool) {
				s, ok := x.strLit(e)
				return s, ok && strings.EqualFold(s, "websocket")
			}
			isToLower := func(e ast.Expr) bool {
				c, ok := e.(*ast.CallExpr)
				return ok && x.src(c.Fun) == "strings.ToLower"
			}
			walk(fd, func(c *walkCtx, n ast.Node) {
				switch v := n.(type) {
				case *ast.BinaryExpr:
					if v.Op != token.EQL && v.Op != token.NEQ {
						return
					}
					for _, p := range [][2]ast.Expr{{v.X, v.Y}, {v.Y, v.X}} {
						if s, ok := isWS(p[1]); ok {
							if isToLower(p[0]) {
								set["fold:"+s] = true
							} else {
								set["exact:"+s] = true
							}
						}
					}
				case *ast.CallExpr:
					if x.src(v.Fun) == "strings.EqualFold" && len(v.Args) == 2 {
						for _, a := range v.Args {
							if s, ok := isWS(a); ok {
								set["fold:"+strings.ToLower(s)] = true
							}
						}
					}
				}
			})
			var out []string
			for s := range set {
				out = append(out, s)
			}
			sort.Strings(out)
			return out
		}

		add := x.funcDecl(dir, "", "addHeaders")
		sch := x.funcDecl(dir, "", "scheme")
		rsp := x.funcDecl(dir, "", "addResponseHeaders")
		srv := x.funcDecl(dir, "HTTPProxy", "ServeHTTP")
		if add == nil || sch == nil || rsp == nil || srv == nil {
			return nil
		}

		// ---- header names and the order of header writes ---------------------------------------------------
		an, aw := headerUse(add)
		sn, sw := headerUse(sch)
		rn, rw := headerUse(rsp)
		x.defStrList("addHeadersNames", an)
		x.defStrList("addHeadersWrites", aw)
		x.defStrList("schemeNames", sn)
		x.defStrList("schemeWrites", sw)
		x.defStrList("responseNames", rn)
		x.defStrList("responseWrites", rw)

		// ---- literals of the Forwarded / HSTS values and of scheme ----------------------------------------
		x.defStrList("forwardedPieces", literals(add, func(s string) bool {
			return strings.HasPrefix(s, "; ") || s == "for="
		}))
		isName := func(s string) bool {
			for _, n := range rn {
				if s == n {
					return true
				}
			}
			return false
		}
		x.defStrList("stsPieces", literals(rsp, func(s string) bool { return !isName(s) }))
		schemeNameSet := map[string]bool{}
		for _, n := range sn {
			schemeNameSet[n] = true
		}
		x.defStrList("schemeLiterals", literals(sch, func(s string) bool { return s != "" && !schemeNameSet[s] }))

		// ---- literals the configured client-IP header name is compared with (either operand order) ---------
		var excl []string
		walk(add, func(c *walkCtx, n ast.Node) {
			b, ok := n.(*ast.BinaryExpr)
			if !ok || b.Op != token.NEQ {
				return
			}
			for _, p := range [][2]ast.Expr{{b.X, b.Y}, {b.Y, b.X}} {
				if s, ok := p[0].(*ast.SelectorExpr); ok && s.Sel.Name == "ClientIPHeader" {
					if lit, ok := x.strLit(p[1]); ok && lit != "" {
						excl = append(excl, lit)
					}
				}
			}
		})
		sort.Strings(excl)
		x.defStrList("clientIPExcluded", excl)

		// ---- the TLS version table: the package-level map indexed with `<…>.TLS.Version` ------------------
		tableName := ""
		walk(add, func(c *walkCtx, n ast.Node) {
			if ix, ok := n.(*ast.IndexExpr); ok {
				if s, ok := ix.Index.(*ast.SelectorExpr); ok && s.Sel.Name == "Version" {
					if id, ok := ix.X.(*ast.Ident); ok {
						tableName = id.Name
					}
				}
			}
		})
		if tableName == "" {
			x.fail("addHeaders: no table indexed with the TLS version found")
		} else if e := x.valueSpec(dir, tableName); e != nil {
			if cl, ok := e.(*ast.CompositeLit); ok {
				var ks, vs []string
				for _, el := range cl.Elts {
					if kv, ok := el.(*ast.KeyValueExpr); ok {
						v, _ := x.strLit(kv.Value)
						ks = append(ks, x.src(kv.Key))
						vs = append(vs, v)
					}
				}
				x.defStrList("tlsverKeys", ks)
				x.defStrList("tlsverValues", vs)
			} else {
				x.fail("proxy.%s is not a composite literal", tableName)
			}
		}

		// ---- protection of the managed names in the Connection header (D12d) ------------------------------
		// the fixed list: the package-level []string ranged over; the configured names: the fields selected in the
		// []string literal ranged over; the token key: the callee chain applied to a token before the lookup
		var managedList, cfgFields, tokKeys []string
		var chain func(e ast.Expr) string
		chain = func(e ast.Expr) string {
			if c, ok := e.(*ast.CallExpr); ok && len(c.Args) == 1 {
				return x.src(c.Fun) + "(" + chain(c.Args[0]) + ")"
			}
			return "_"
		}
		walk(add, func(c *walkCtx, n ast.Node) {
			switch v := n.(type) {
			case *ast.RangeStmt:
				switch r := v.X.(type) {
				case *ast.Ident:
					if e := x.pkgVarInit(dir, r.Name); e != nil {
						if cl, ok := e.(*ast.CompositeLit); ok {
							for _, el := range cl.Elts {
								if s, ok := x.strLit(el); ok {
									managedList = append(managedList, s)
								} else {
									x.fail("managed header list: non-constant element %s", x.src(el))
								}
							}
						}
					}
				case *ast.CompositeLit:
					for _, el := range r.Elts {
						if s, ok := el.(*ast.SelectorExpr); ok {
							cfgFields = append(cfgFields, s.Sel.Name)
						}
					}
				}
			case *ast.UnaryExpr:
				if v.Op == token.NOT {
					if ix, ok := v.X.(*ast.IndexExpr); ok {
						if k := chain(ix.Index); k != "_" {
							tokKeys = append(tokKeys, k)
						}
					}
				}
			}
		})
		sort.Strings(managedList)
		x.defStrList("managedHeaders", managedList)
		x.defStrList("protectConfigFields", cfgFields)
		x.defStrList("protectTokenKey", tokKeys)

		x.defStrList("wsCompareAddHeaders", wsCompare(add))
		x.defStrList("wsCompareScheme", wsCompare(sch))
		x.defStrList("wsCompareServeHTTP", wsCompare(srv))

		// ---- order inside ServeHTTP (event order with callees inlined) -------------------------------------
		recv, params, _ := x.LocalNames(srv)
		var events []string // "reqid" | "addHeaders" | "host"
		var addArgs []string
		role := func(e ast.Expr) string {
			switch v := e.(type) {
			case *ast.Ident:
				for i, p := range params {
					if v.Name == p {
						return "param" + string(rune('0'+i))
					}
				}
				if v.Name == recv {
					return "recv"
				}
				return "local"
			case *ast.SelectorExpr:
				if id, ok := v.X.(*ast.Ident); ok {
					r := "local"
					if id.Name == recv {
						r = "recv"
					}
					for i, p := range params {
						if id.Name == p {
							r = "param" + string(rune('0'+i))
						}
					}
					return r + "." + v.Sel.Name
				}
			}
			return "?"
		}
		walk(srv, func(c *walkCtx, n ast.Node) {
			switch v := n.(type) {
			case *ast.AssignStmt:
				for _, l := range v.Lhs {
					// `<variable>.Host = …`: the request's Host (in ServeHTTP or in a helper it calls, whatever the
					// variable is called; `x.URL.Host = …` has a selector, not a variable, on the left)
					if s, ok := l.(*ast.SelectorExpr); ok && s.Sel.Name == "Host" {
						if _, ok := s.X.(*ast.Ident); ok {
							events = append(events, "host")
						}
					}
				}
			case *ast.CallExpr:
				if id, ok := v.Fun.(*ast.Ident); ok && id.Name == "addHeaders" {
					events = append(events, "addHeaders")
					if addArgs == nil {
						for _, a := range v.Args {
							addArgs = append(addArgs, role(a))
						}
					}
					return
				}
				if s, ok := v.Fun.(*ast.SelectorExpr); ok && s.Sel.Name == "Set" && len(v.Args) == 2 && isHeaderExpr(c, s.X) {
					if a, ok := v.Args[0].(*ast.SelectorExpr); ok && a.Sel.Name == "RequestID" {
						events = append(events, "reqid")
					}
				}
			}
		})
		count := func(ev string, beforeAdd bool) uint64 {
			n := uint64(0)
			seenAdd := false
			for _, e := range events {
				if e == "addHeaders" {
					seenAdd = true
				}
				if e == ev && (!beforeAdd || !seenAdd) {
					n++
				}
			}
			return n
		}
		x.defNat("addHeadersCalls", count("addHeaders", false))
		x.defNat("hostAssignments", count("host", false))
		x.defNat("requestIDSets", count("reqid", false))
		x.defNat("hostAssignmentsBeforeAddHeaders", count("host", true))
		x.defNat("requestIDSetsBeforeAddHeaders", count("reqid", true))
		x.defStrList("addHeadersArgs", addArgs)

		// ---- how each site reads the request before comparing with "websocket" (operand shape) ---------------
		wsOperand := func(fd *ast.FuncDecl) []string {
			set := map[string]bool{}
			var shape func(c *walkCtx, e ast.Expr) string
			shape = func(c *walkCtx, e ast.Expr) string {
				switch v := e.(type) {
				case *ast.CallExpr:
					if sel, ok := v.Fun.(*ast.SelectorExpr); ok && isHeaderExpr(c, sel.X) && len(v.Args) == 1 {
						return "hdr." + sel.Sel.Name + "(" + key(v.Args[0]) + ")"
					}
					if len(v.Args) == 1 {
						return x.src(v.Fun) + "(" + shape(c, v.Args[0]) + ")"
					}
				case *ast.Ident:
					return "var"
				}
				return "?"
			}
			locals := map[string]ast.Expr{}
			resolve := func(c *walkCtx, e ast.Expr) string {
				if id, ok := e.(*ast.Ident); ok {
					if d, ok := locals[id.Name]; ok {
						return shape(c, d)
					}
				}
				return shape(c, e)
			}
			walk(fd, func(c *walkCtx, n ast.Node) {
				switch v := n.(type) {
				case *ast.AssignStmt:
					if len(v.Lhs) == len(v.Rhs) {
						for i, l := range v.Lhs {
							if id, ok := l.(*ast.Ident); ok {
								locals[id.Name] = v.Rhs[i]
							}
						}
					}
				case *ast.CallExpr:
					if x.src(v.Fun) == "strings.EqualFold" && len(v.Args) == 2 {
						for i, a := range v.Args {
							if s, ok := x.strLit(a); ok && strings.EqualFold(s, "websocket") {
								set[resolve(c, v.Args[1-i])] = true
							}
						}
					}
				case *ast.BinaryExpr:
					if v.Op == token.EQL || v.Op == token.NEQ {
						for _, p := range [][2]ast.Expr{{v.X, v.Y}, {v.Y, v.X}} {
							if s, ok := x.strLit(p[1]); ok && strings.EqualFold(s, "websocket") {
								set[resolve(c, p[0])] = true
							}
						}
					}
				}
			})
			var out []string
			for k := range set {
				out = append(out, k)
			}
			sort.Strings(out)
			return out
		}
		x.defStrList("wsOperandAddHeaders", wsOperand(add))
		x.defStrList("wsOperandScheme", wsOperand(sch))
		x.defStrList("wsOperandServeHTTP", wsOperand(srv))

		// =====================================================================================================
		// OBLIGATIONS: what no stream can establish by running the code
		// =====================================================================================================

		// ---- (1) shared tables: package-level variables the header code reads, and every write to them ----------
		pkgVars := map[string]bool{}
		for _, f := range x.files(dir) {
			for _, d := range f.Decls {
				if gd, ok := d.(*ast.GenDecl); ok && gd.Tok == token.VAR {
					for _, sp := range gd.Specs {
						if vs, ok := sp.(*ast.ValueSpec); ok {
							for _, n := range vs.Names {
								pkgVars[n.Name] = true
							}
						}
					}
				}
			}
		}
		readSet := map[string]bool{}
		var goStmts, deferStmts uint64
		for _, fd := range []*ast.FuncDecl{add, rsp} {
			_, params, locals := x.LocalNames(fd)
			shadow := map[string]bool{}
			for _, n := range append(params, locals...) {
				shadow[n] = true
			}
			walk(fd, func(c *walkCtx, n ast.Node) {
				switch v := n.(type) {
				case *ast.Ident:
					if pkgVars[v.Name] && !shadow[v.Name] {
						readSet[v.Name] = true
					}
				case *ast.GoStmt:
					goStmts++
				case *ast.DeferStmt:
					deferStmts++
				}
			})
		}
		var reads []string
		for n := range readSet {
			reads = append(reads, n)
		}
		sort.Strings(reads)
		var rootIdent func(e ast.Expr) string
		rootIdent = func(e ast.Expr) string {
			switch v := e.(type) {
			case *ast.Ident:
				return v.Name
			case *ast.IndexExpr:
				return rootIdent(v.X)
			case *ast.SelectorExpr:
				return rootIdent(v.X)
			case *ast.StarExpr:
				return rootIdent(v.X)
			case *ast.ParenExpr:
				return rootIdent(v.X)
			case *ast.SliceExpr:
				return rootIdent(v.X)
			}
			return ""
		}
		var tableWrites []string
		for _, f := range x.files(dir) {
			for _, d := range f.Decls {
				fd, ok := d.(*ast.FuncDecl)
				if !ok || fd.Body == nil {
					continue
				}
				_, params, locals := x.LocalNames(fd)
				shadow := map[string]bool{}
				for _, n := range append(params, locals...) {
					shadow[n] = true
				}
				hit := func(e ast.Expr) (string, bool) {
					r := rootIdent(e)
					return r, r != "" && readSet[r] && !shadow[r]
				}
				ast.Inspect(fd.Body, func(n ast.Node) bool {
					switch v := n.(type) {
					case *ast.AssignStmt:
						for _, l := range v.Lhs {
							if r, ok := hit(l); ok {
								tableWrites = append(tableWrites, fd.Name.Name+":assign:"+r)
							}
						}
					case *ast.IncDecStmt:
						if r, ok := hit(v.X); ok {
							tableWrites = append(tableWrites, fd.Name.Name+":incdec:"+r)
						}
					case *ast.UnaryExpr:
						if v.Op == token.AND {
							if r, ok := hit(v.X); ok {
								tableWrites = append(tableWrites, fd.Name.Name+":addr:"+r)
							}
						}
					case *ast.CallExpr:
						// delete(table, k), copy(table, …), clear(table): builtins that mutate their first argument
						if id, ok := v.Fun.(*ast.Ident); ok && (id.Name == "delete" || id.Name == "copy" || id.Name == "clear") && len(v.Args) > 0 {
							if r, ok := hit(v.Args[0]); ok {
								tableWrites = append(tableWrites, fd.Name.Name+":"+id.Name+":"+r)
							}
						}
					}
					return true
				})
			}
		}
		sort.Strings(tableWrites)
		x.defStrList("sharedTablesRead", reads)
		x.defStrList("sharedTableWrites", tableWrites)
		x.defNat("headerCodeGoStmts", goStmts)
		x.defNat("headerCodeDeferStmts", deferStmts)

		// ---- (2) forwarders: the unexported constructors of forwarding handlers, who calls them, and where -----
		// a forwarder constructor is an unexported package-level function of package proxy whose result is http.Handler
		ctors := map[string]bool{}
		for _, f := range x.files(dir) {
			for _, d := range f.Decls {
				fd, ok := d.(*ast.FuncDecl)
				if !ok || fd.Recv != nil || ast.IsExported(fd.Name.Name) || fd.Type.Results == nil || len(fd.Type.Results.List) != 1 {
					continue
				}
				if x.src(fd.Type.Results.List[0].Type) == "http.Handler" {
					ctors[fd.Name.Name] = true
				}
			}
		}
		var ctorNames, ctorCallers []string
		for n := range ctors {
			ctorNames = append(ctorNames, n)
		}
		sort.Strings(ctorNames)
		callerSet := map[string]bool{}
		for _, f := range x.files(dir) {
			for _, d := range f.Decls {
				fd, ok := d.(*ast.FuncDecl)
				if !ok || fd.Body == nil {
					continue
				}
				who := fd.Name.Name
				if fd.Recv != nil && len(fd.Recv.List) == 1 {
					t := fd.Recv.List[0].Type
					if st, ok := t.(*ast.StarExpr); ok {
						t = st.X
					}
					who = x.src(t) + "." + who
				}
				ast.Inspect(fd.Body, func(n ast.Node) bool {
					if id, ok := n.(*ast.Ident); ok && ctors[id.Name] {
						callerSet[who] = true // called or taken as a value
					}
					return true
				})
			}
		}
		for n := range callerSet {
			ctorCallers = append(ctorCallers, n)
		}
		sort.Strings(ctorCallers)
		x.defStrList("forwarderConstructors", ctorNames)
		x.defStrList("forwarderConstructorUsers", ctorCallers)
		// inside ServeHTTP: addHeaders' error exit returns; constructors and the forwarding call come after addHeaders
		var srvEvents []string // addHeaders | ctor | serve | return-in-error-branch
		errBranchReturns := false
		walk(srv, func(c *walkCtx, n ast.Node) {
			switch v := n.(type) {
			case *ast.IfStmt:
				// if err := addHeaders(…); err != nil { …; return }
				if as, ok := v.Init.(*ast.AssignStmt); ok && len(as.Rhs) == 1 {
					if call, ok := as.Rhs[0].(*ast.CallExpr); ok {
						if id, ok := call.Fun.(*ast.Ident); ok && id.Name == "addHeaders" && len(v.Body.List) > 0 {
							if _, ok := v.Body.List[len(v.Body.List)-1].(*ast.ReturnStmt); ok {
								errBranchReturns = true
							}
						}
					}
				}
			case *ast.CallExpr:
				switch f := v.Fun.(type) {
				case *ast.Ident:
					if f.Name == "addHeaders" {
						srvEvents = append(srvEvents, "addHeaders")
					} else if ctors[f.Name] {
						srvEvents = append(srvEvents, "ctor")
					}
				case *ast.SelectorExpr:
					if f.Sel.Name == "ServeHTTP" {
						srvEvents = append(srvEvents, "serve")
					}
				}
			}
		})
		var beforeAdd, ctorCount, serveCount uint64
		seenAdd := false
		for _, e := range srvEvents {
			switch e {
			case "addHeaders":
				seenAdd = true
			case "ctor":
				ctorCount++
				if !seenAdd {
					beforeAdd++
				}
			case "serve":
				serveCount++
				if !seenAdd {
					beforeAdd++
				}
			}
		}
		x.defNat("forwardingStepsBeforeAddHeaders", beforeAdd)
		x.defNat("forwarderConstructionsInServeHTTP", ctorCount)
		x.defNat("forwardCallsInServeHTTP", serveCount)
		x.defBool("addHeadersErrorBranchReturns", errBranchReturns)

		// ---- (3) main.go: the HTTP listeners serve an HTTPProxy built with the loaded proxy configuration -------
		var litConfig []string
		builders := map[string]bool{}
		for _, f := range x.files(".") {
			for _, d := range f.Decls {
				fd, ok := d.(*ast.FuncDecl)
				if !ok || fd.Body == nil {
					continue
				}
				_, params, _ := x.LocalNames(fd)
				ast.Inspect(fd.Body, func(n ast.Node) bool {
					cl, ok := n.(*ast.CompositeLit)
					if !ok || cl.Type == nil || x.src(cl.Type) != "proxy.HTTPProxy" {
						return true
					}
					builders[fd.Name.Name] = true
					val := "absent"
					for _, el := range cl.Elts {
						if kv, ok := el.(*ast.KeyValueExpr); ok && x.src(kv.Key) == "Config" {
							val = x.src(kv.Value)
							if se, ok := kv.Value.(*ast.SelectorExpr); ok {
								if id, ok := se.X.(*ast.Ident); ok {
									for i, p := range params {
										if p == id.Name {
											val = "param" + string(rune('0'+i)) + "." + se.Sel.Name
										}
									}
								}
							}
						}
					}
					litConfig = append(litConfig, val)
					return true
				})
			}
		}
		x.defStrList("httpProxyLiteralConfig", litConfig)
		// every handler handed to proxy.ListenAndServeHTTP* is a local assigned from a builder called with the
		// enclosing function's configuration parameter
		var listenHandlers []string
		starters := map[string]bool{}
		for _, f := range x.files(".") {
			for _, d := range f.Decls {
				fd, ok := d.(*ast.FuncDecl)
				if !ok || fd.Body == nil {
					continue
				}
				assigned := map[string]string{}
				_, fparams, _ := x.LocalNames(fd)
				isParam := func(e ast.Expr) bool {
					id, ok := e.(*ast.Ident)
					if !ok {
						return false
					}
					for _, p := range fparams {
						if p == id.Name {
							return true
						}
					}
					return false
				}
				ast.Inspect(fd.Body, func(n ast.Node) bool {
					switch v := n.(type) {
					case *ast.AssignStmt:
						if len(v.Lhs) == len(v.Rhs) {
							for i, l := range v.Lhs {
								if id, ok := l.(*ast.Ident); ok {
									if call, ok := v.Rhs[i].(*ast.CallExpr); ok {
										if fn, ok := call.Fun.(*ast.Ident); ok && builders[fn.Name] && len(call.Args) > 0 {
											if isParam(call.Args[0]) {
												assigned[id.Name] = "built(param)"
											} else {
												assigned[id.Name] = "built(" + x.src(call.Args[0]) + ")"
											}
										}
									}
								}
							}
						}
					case *ast.CallExpr:
						if strings.HasPrefix(x.src(v.Fun), "proxy.ListenAndServeHTTP") && len(v.Args) >= 2 {
							h := "?"
							if id, ok := v.Args[1].(*ast.Ident); ok {
								if a, ok := assigned[id.Name]; ok {
									h = a
								}
							}
							listenHandlers = append(listenHandlers, h)
							starters[fd.Name.Name] = true
						}
					}
					return true
				})
			}
		}
		x.defStrList("httpListenerHandlers", listenHandlers)
		// … and that function is called with the value config.Load returned
		var starterArgs []string
		for _, f := range x.files(".") {
			for _, d := range f.Decls {
				fd, ok := d.(*ast.FuncDecl)
				if !ok || fd.Body == nil {
					continue
				}
				from := map[string]string{}
				ast.Inspect(fd.Body, func(n ast.Node) bool {
					switch v := n.(type) {
					case *ast.AssignStmt:
						if len(v.Rhs) == 1 && len(v.Lhs) >= 1 {
							if call, ok := v.Rhs[0].(*ast.CallExpr); ok {
								if id, ok := v.Lhs[0].(*ast.Ident); ok {
									from[id.Name] = x.src(call.Fun)
								}
							}
						}
					case *ast.CallExpr:
						if fn, ok := v.Fun.(*ast.Ident); ok && starters[fn.Name] && len(v.Args) > 0 {
							a := "?"
							if id, ok := v.Args[0].(*ast.Ident); ok {
								if src, ok := from[id.Name]; ok {
									a = src
								}
							}
							starterArgs = append(starterArgs, a)
						}
					}
					return true
				})
			}
		}
		x.defStrList("httpListenersStartedWith", starterArgs)
		// … and nothing in package main adjusts the header configuration of a proxy after it was loaded / built:
		// no assignment to <proxy>.Config, <proxy>.Config.<field> or to a header field of <cfg>.Proxy
		var cfgWrites []string
		hdrField := regexp.MustCompile(`\.Proxy\.(ClientIPHeader|TLSHeader|TLSHeaderValue|RequestID|STSHeader|LocalIP)(\.|$)`)
		cfgSel := regexp.MustCompile(`\.Config(\.|$)`)
		for _, f := range x.files(".") {
			for _, d := range f.Decls {
				fd, ok := d.(*ast.FuncDecl)
				if !ok || fd.Body == nil {
					continue
				}
				ast.Inspect(fd.Body, func(n ast.Node) bool {
					var lhs []ast.Expr
					switch v := n.(type) {
					case *ast.AssignStmt:
						lhs = v.Lhs
					case *ast.IncDecStmt:
						lhs = []ast.Expr{v.X}
					}
					for _, l := range lhs {
						t := x.src(l)
						if cfgSel.MatchString(t) || hdrField.MatchString(t) {
							cfgWrites = append(cfgWrites, fd.Name.Name+": "+t)
						}
					}
					return true
				})
			}
		}
		x.defStrList("headerConfigWritesInMain", cfgWrites)

		// ---- (4) config/load.go: the options bound to the configuration fields the header code reads ------------
		// fields read: every `<x>.<Field>` / `<x>.STSHeader.<Field>` selector in addHeaders/addResponseHeaders/ServeHTTP
		// whose <x> is the configuration parameter (addHeaders, addResponseHeaders) or `<recv>.Config` (ServeHTTP)
		fieldSet := map[string]bool{}
		cfgFieldsOf := func(fd *ast.FuncDecl, isCfg func(e ast.Expr) bool) {
			x.WalkInlined(dir, fd, func(n ast.Node) bool {
				se, ok := n.(*ast.SelectorExpr)
				if !ok {
					return true
				}
				if isCfg(se.X) {
					fieldSet[se.Sel.Name] = true
				} else if in, ok := se.X.(*ast.SelectorExpr); ok && isCfg(in.X) {
					delete(fieldSet, in.Sel.Name)
					fieldSet[in.Sel.Name+"."+se.Sel.Name] = true
				}
				return true
			})
		}
		cfgParam := func(fd *ast.FuncDecl) string {
			if fd.Type.Params != nil {
				for _, p := range fd.Type.Params.List {
					if x.src(p.Type) == "config.Proxy" && len(p.Names) == 1 {
						return p.Names[0].Name
					}
				}
			}
			return ""
		}
		for _, fd := range []*ast.FuncDecl{add, rsp} {
			name := cfgParam(fd)
			cfgFieldsOf(fd, func(e ast.Expr) bool { id, ok := e.(*ast.Ident); return ok && name != "" && id.Name == name })
		}
		var headerFields []string
		for n := range fieldSet {
			if n != "STSHeader" {
				headerFields = append(headerFields, n)
			}
		}
		// ServeHTTP itself reads RequestID (through <recv>.Config)
		x.WalkInlined(dir, srv, func(n ast.Node) bool {
			if se, ok := n.(*ast.SelectorExpr); ok && se.Sel.Name == "RequestID" {
				if in, ok := se.X.(*ast.SelectorExpr); ok && in.Sel.Name == "Config" {
					fieldSet["RequestID"] = true
				}
			}
			return true
		})
		headerFields = headerFields[:0]
		for n := range fieldSet {
			if n != "STSHeader" {
				headerFields = append(headerFields, n)
			}
		}
		sort.Strings(headerFields)
		x.defStrList("headerConfigFields", headerFields)
		// bindings: f.<Kind>Var(&cfg.Proxy.<Field…>, "<option>", <default>, …) in config/load.go
		var bindings []string
		if ld := x.funcDecl("config", "", "load"); ld != nil {
			ast.Inspect(ld.Body, func(n ast.Node) bool {
				call, ok := n.(*ast.CallExpr)
				if !ok || len(call.Args) < 3 {
					return true
				}
				sel, ok := call.Fun.(*ast.SelectorExpr)
				if !ok || !strings.HasSuffix(sel.Sel.Name, "Var") {
					return true
				}
				un, ok := call.Args[0].(*ast.UnaryExpr)
				if !ok || un.Op != token.AND {
					return true
				}
				path := x.src(un.X)
				const pfx = "cfg.Proxy."
				if !strings.HasPrefix(path, pfx) {
					return true
				}
				field := path[len(pfx):]
				opt, _ := x.strLit(call.Args[1])
				def := x.src(call.Args[2])
				if fieldSet[field] {
					dflt := "other"
					if def == "defaultConfig.Proxy."+field {
						dflt = "default"
					}
					bindings = append(bindings, opt+" -> "+field+" : "+strings.TrimSuffix(sel.Sel.Name, "Var")+" : "+dflt)
				}
				return true
			})
		}
		sort.Strings(bindings)
		x.defStrList("headerOptionBindings", bindings)
		// defaults: which of those fields the defaultConfig literal sets at all
		var defaultsSet []string
		if e := x.valueSpec("config", "defaultConfig"); e != nil {
			ast.Inspect(e, func(n ast.Node) bool {
				kv, ok := n.(*ast.KeyValueExpr)
				if !ok || x.src(kv.Key) != "Proxy" {
					return true
				}
				if cl, ok := kv.Value.(*ast.CompositeLit); ok {
					for _, el := range cl.Elts {
						if fkv, ok := el.(*ast.KeyValueExpr); ok {
							k := x.src(fkv.Key)
							if fieldSet[k] || k == "STSHeader" {
								defaultsSet = append(defaultsSet, k)
							}
						}
					}
				}
				return false
			})
		}
		sort.Strings(defaultsSet)
		x.defStrList("headerDefaultsSet", defaultsSet)
		return nil
	})
}

// pkgVarInit is valueSpec without recording an error when the name is not a package-level variable.
func (x *X) pkgVarInit(dir, name string) ast.Expr {
	for _, f := range x.files(dir) {
		for _, d := range f.Decls {
			gd, ok := d.(*ast.GenDecl)
			if !ok {
				continue
			}
			for _, s := range gd.Specs {
				vs, ok := s.(*ast.ValueSpec)
				if !ok {
					continue
				}
				for i, n := range vs.Names {
					if n.Name == name && i < len(vs.Values) {
						return vs.Values[i]
					}
				}
			}
		}
	}
	return nil
}
