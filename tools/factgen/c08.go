package main

import (
	"go/ast"
	"go/token"
	"sort"
	"strings"
)

// C08 facts. Everything is extracted from the NORMALISED AST (package constants inlined, literal
// concatenations folded, switch -> if-chains) and by walking functions with their unexported same-package
// callees inlined, so that the facts describe what the code does (which header names it reads and writes, in
// which order it writes them, which literals it compares with, in which order ServeHTTP sets the request id,
// calls addHeaders and overrides Host), not how it is spelled. Variables are identified by role (receiver,
// i-th parameter, selected field name), never by their names.
//
// Names that ARE fixed: addHeaders, addResponseHeaders, scheme, localPort (referenced by the hook
// /repo/proxy/verif_c08.go — renaming one of them breaks the harness build before any fact is looked at) and
// HTTPProxy.ServeHTTP (exported API).
func init() {
	register("C08", func(x *X) error {
		x.UseNormalizedAST()
		const dir = "proxy"

		// ---- helpers -------------------------------------------------------------------------------------
		// isHeaderExpr: an expression denoting a header map: `<any>.Header`, `<any>.Header()`, or a local that was
		// assigned from one (aliases collected per walk).
		type walkCtx struct{ alias map[string]bool }
		isHeaderExpr := func(c *walkCtx, e ast.Expr) bool {
			switch v := e.(type) {
			case *ast.SelectorExpr:
				return v.Sel.Name == "Header"
			case *ast.CallExpr:
				if s, ok := v.Fun.(*ast.SelectorExpr); ok && len(v.Args) == 0 {
					return s.Sel.Name == "Header"
				}
			case *ast.Ident:
				return c.alias[v.Name]
			}
			return false
		}
		// key renders a header-name argument by meaning: literal value, or the selected field name.
		key := func(e ast.Expr) string {
			if s, ok := x.strLit(e); ok {
				return s
			}
			if s, ok := e.(*ast.SelectorExpr); ok {
				return "field:" + s.Sel.Name
			}
			return "?"
		}
		// walk visits fd with callees inlined and keeps the header aliases up to date.
		walk := func(fd *ast.FuncDecl, visit func(c *walkCtx, n ast.Node)) {
			c := &walkCtx{alias: map[string]bool{}}
			x.WalkInlined(dir, fd, func(n ast.Node) bool {
				if as, ok := n.(*ast.AssignStmt); ok && len(as.Lhs) == len(as.Rhs) {
					for i, l := range as.Lhs {
						if id, ok := l.(*ast.Ident); ok && isHeaderExpr(c, as.Rhs[i]) {
							c.alias[id.Name] = true
						}
					}
				}
				visit(c, n)
				return true
			})
		}
		// names: every literal header name the function (with callees) reads or writes; writes: ordered list of
		// header mutations, consecutive duplicates collapsed.
		headerUse := func(fd *ast.FuncDecl) (names []string, writes []string) {
			set := map[string]bool{}
			push := func(ev string) {
				if len(writes) == 0 || writes[len(writes)-1] != ev {
					writes = append(writes, ev)
				}
			}
			note := func(e ast.Expr) {
				if s, ok := x.strLit(e); ok {
					set[s] = true
				}
			}
			walk(fd, func(c *walkCtx, n ast.Node) {
				switch v := n.(type) {
				case *ast.CallExpr:
					if id, ok := v.Fun.(*ast.Ident); ok && id.Name == "delete" && len(v.Args) == 2 && isHeaderExpr(c, v.Args[0]) {
						note(v.Args[1])
						push("del:" + key(v.Args[1]))
						return
					}
					sel, ok := v.Fun.(*ast.SelectorExpr)
					if !ok || len(v.Args) == 0 || !isHeaderExpr(c, sel.X) {
						return
					}
					switch sel.Sel.Name {
					case "Get", "Values":
						note(v.Args[0])
					case "Set":
						note(v.Args[0])
						push("set:" + key(v.Args[0]))
					case "Add":
						note(v.Args[0])
						push("add:" + key(v.Args[0]))
					case "Del":
						note(v.Args[0])
						push("del:" + key(v.Args[0]))
					}
				case *ast.IndexExpr:
					if isHeaderExpr(c, v.X) {
						note(v.Index)
					}
				case *ast.AssignStmt:
					for _, l := range v.Lhs {
						if ix, ok := l.(*ast.IndexExpr); ok && isHeaderExpr(c, ix.X) {
							push("assign:" + key(ix.Index))
						}
					}
				}
			})
			for s := range set {
				names = append(names, s)
			}
			sort.Strings(names)
			return
		}
		literals := func(fd *ast.FuncDecl, keep func(string) bool) []string {
			var out []string
			walk(fd, func(c *walkCtx, n ast.Node) {
				if bl, ok := n.(*ast.BasicLit); ok && bl.Kind == token.STRING {
					if s, ok := x.strLit(bl); ok && keep(s) {
						out = append(out, s)
					}
				}
			})
			return out
		}
		// how a function (with callees) recognises the websocket upgrade: the set of comparison kinds against a
		// literal that is "websocket" in some casing
		wsCompare := func(fd *ast.FuncDecl) []string {
			set := map[string]bool{}
			isWS := func(e ast.Expr) (string, bool) {
				s, ok := x.strLit(e)
				return s, ok && strings.EqualFold(s, "websocket")
			}
			isToLower := func(e ast.Expr) bool {
				c, ok := e.(*ast.CallExpr)
				return ok && x.src(c.Fun) == "strings.ToLower"
			}
			walk(fd, func(c *walkCtx, n ast.Node) {
				switch v := n.(type) {
				case *ast.BinaryExpr:
					if v.Op != token.EQL && v.Op != token.NEQ {
						return
					}
					for _, p := range [][2]ast.Expr{{v.X, v.Y}, {v.Y, v.X}} {
						if s, ok := isWS(p[1]); ok {
							if isToLower(p[0]) {
								set["fold:"+s] = true
							} else {
								set["exact:"+s] = true
							}
						}
					}
				case *ast.CallExpr:
					if x.src(v.Fun) == "strings.EqualFold" && len(v.Args) == 2 {
						for _, a := range v.Args {
							if s, ok := isWS(a); ok {
								set["fold:"+strings.ToLower(s)] = true
							}
						}
					}
				}
			})
			var out []string
			for s := range set {
				out = append(out, s)
			}
			sort.Strings(out)
			return out
		}

		add := x.funcDecl(dir, "", "addHeaders")
		sch := x.funcDecl(dir, "", "scheme")
		rsp := x.funcDecl(dir, "", "addResponseHeaders")
		srv := x.funcDecl(dir, "HTTPProxy", "ServeHTTP")
		if add == nil || sch == nil || rsp == nil || srv == nil {
			return nil
		}

		// ---- header names and the order of header writes ---------------------------------------------------
		an, aw := headerUse(add)
		sn, sw := headerUse(sch)
		rn, rw := headerUse(rsp)
		x.defStrList("addHeadersNames", an)
		x.defStrList("addHeadersWrites", aw)
		x.defStrList("schemeNames", sn)
		x.defStrList("schemeWrites", sw)
		x.defStrList("responseNames", rn)
		x.defStrList("responseWrites", rw)

		// ---- literals of the Forwarded / HSTS values and of scheme ----------------------------------------
		x.defStrList("forwardedPieces", literals(add, func(s string) bool {
			return strings.HasPrefix(s, "; ") || s == "for="
		}))
		isName := func(s string) bool {
			for _, n := range rn {
				if s == n {
					return true
				}
			}
			return false
		}
		x.defStrList("stsPieces", literals(rsp, func(s string) bool { return !isName(s) }))
		schemeNameSet := map[string]bool{}
		for _, n := range sn {
			schemeNameSet[n] = true
		}
		x.defStrList("schemeLiterals", literals(sch, func(s string) bool { return s != "" && !schemeNameSet[s] }))

		// ---- literals the configured client-IP header name is compared with (either operand order) ---------
		var excl []string
		walk(add, func(c *walkCtx, n ast.Node) {
			b, ok := n.(*ast.BinaryExpr)
			if !ok || b.Op != token.NEQ {
				return
			}
			for _, p := range [][2]ast.Expr{{b.X, b.Y}, {b.Y, b.X}} {
				if s, ok := p[0].(*ast.SelectorExpr); ok && s.Sel.Name == "ClientIPHeader" {
					if lit, ok := x.strLit(p[1]); ok && lit != "" {
						excl = append(excl, lit)
					}
				}
			}
		})
		sort.Strings(excl)
		x.defStrList("clientIPExcluded", excl)

		// ---- the TLS version table: the package-level map indexed with `<…>.TLS.Version` ------------------
		tableName := ""
		walk(add, func(c *walkCtx, n ast.Node) {
			if ix, ok := n.(*ast.IndexExpr); ok {
				if s, ok := ix.Index.(*ast.SelectorExpr); ok && s.Sel.Name == "Version" {
					if id, ok := ix.X.(*ast.Ident); ok {
						tableName = id.Name
					}
				}
			}
		})
		if tableName == "" {
			x.fail("addHeaders: no table indexed with the TLS version found")
		} else if e := x.valueSpec(dir, tableName); e != nil {
			if cl, ok := e.(*ast.CompositeLit); ok {
				var ks, vs []string
				for _, el := range cl.Elts {
					if kv, ok := el.(*ast.KeyValueExpr); ok {
						v, _ := x.strLit(kv.Value)
						ks = append(ks, x.src(kv.Key))
						vs = append(vs, v)
					}
				}
				x.defStrList("tlsverKeys", ks)
				x.defStrList("tlsverValues", vs)
			} else {
				x.fail("proxy.%s is not a composite literal", tableName)
			}
		}

		// ---- protection of the managed names in the Connection header (D12d) ------------------------------
		// the fixed list: the package-level []string ranged over; the configured names: the fields selected in the
		// []string literal ranged over; the token key: the callee chain applied to a token before the lookup
		var managedList, cfgFields, tokKeys []string
		var chain func(e ast.Expr) string
		chain = func(e ast.Expr) string {
			if c, ok := e.(*ast.CallExpr); ok && len(c.Args) == 1 {
				return x.src(c.Fun) + "(" + chain(c.Args[0]) + ")"
			}
			return "_"
		}
		walk(add, func(c *walkCtx, n ast.Node) {
			switch v := n.(type) {
			case *ast.RangeStmt:
				switch r := v.X.(type) {
				case *ast.Ident:
					if e := x.pkgVarInit(dir, r.Name); e != nil {
						if cl, ok := e.(*ast.CompositeLit); ok {
							for _, el := range cl.Elts {
								if s, ok := x.strLit(el); ok {
									managedList = append(managedList, s)
								} else {
									x.fail("managed header list: non-constant element %s", x.src(el))
								}
							}
						}
					}
				case *ast.CompositeLit:
					for _, el := range r.Elts {
						if s, ok := el.(*ast.SelectorExpr); ok {
							cfgFields = append(cfgFields, s.Sel.Name)
						}
					}
				}
			case *ast.UnaryExpr:
				if v.Op == token.NOT {
					if ix, ok := v.X.(*ast.IndexExpr); ok {
						if k := chain(ix.Index); k != "_" {
							tokKeys = append(tokKeys, k)
						}
					}
				}
			}
		})
		sort.Strings(managedList)
		x.defStrList("managedHeaders", managedList)
		x.defStrList("protectConfigFields", cfgFields)
		x.defStrList("protectTokenKey", tokKeys)

		x.defStrList("wsCompareAddHeaders", wsCompare(add))
		x.defStrList("wsCompareScheme", wsCompare(sch))
		x.defStrList("wsCompareServeHTTP", wsCompare(srv))

		// ---- order inside ServeHTTP (event order with callees inlined) -------------------------------------
		recv, params, _ := x.LocalNames(srv)
		var events []string // "reqid" | "addHeaders" | "host"
		var addArgs []string
		role := func(e ast.Expr) string {
			switch v := e.(type) {
			case *ast.Ident:
				for i, p := range params {
					if v.Name == p {
						return "param" + string(rune('0'+i))
					}
				}
				if v.Name == recv {
					return "recv"
				}
				return "local"
			case *ast.SelectorExpr:
				if id, ok := v.X.(*ast.Ident); ok {
					r := "local"
					if id.Name == recv {
						r = "recv"
					}
					for i, p := range params {
						if id.Name == p {
							r = "param" + string(rune('0'+i))
						}
					}
					return r + "." + v.Sel.Name
				}
			}
			return "?"
		}
		walk(srv, func(c *walkCtx, n ast.Node) {
			switch v := n.(type) {
			case *ast.AssignStmt:
				for _, l := range v.Lhs {
					// `<variable>.Host = …`: the request's Host (in ServeHTTP or in a helper it calls, whatever the
					// variable is called; `x.URL.Host = …` has a selector, not a variable, on the left)
					if s, ok := l.(*ast.SelectorExpr); ok && s.Sel.Name == "Host" {
						if _, ok := s.X.(*ast.Ident); ok {
							events = append(events, "host")
						}
					}
				}
			case *ast.CallExpr:
				if id, ok := v.Fun.(*ast.Ident); ok && id.Name == "addHeaders" {
					events = append(events, "addHeaders")
					if addArgs == nil {
						for _, a := range v.Args {
							addArgs = append(addArgs, role(a))
						}
					}
					return
				}
				if s, ok := v.Fun.(*ast.SelectorExpr); ok && s.Sel.Name == "Set" && len(v.Args) == 2 && isHeaderExpr(c, s.X) {
					if a, ok := v.Args[0].(*ast.SelectorExpr); ok && a.Sel.Name == "RequestID" {
						events = append(events, "reqid")
					}
				}
			}
		})
		count := func(ev string, beforeAdd bool) uint64 {
			n := uint64(0)
			seenAdd := false
			for _, e := range events {
				if e == "addHeaders" {
					seenAdd = true
				}
				if e == ev && (!beforeAdd || !seenAdd) {
					n++
				}
			}
			return n
		}
		x.defNat("addHeadersCalls", count("addHeaders", false))
		x.defNat("hostAssignments", count("host", false))
		x.defNat("requestIDSets", count("reqid", false))
		x.defNat("hostAssignmentsBeforeAddHeaders", count("host", true))
		x.defNat("requestIDSetsBeforeAddHeaders", count("reqid", true))
		x.defStrList("addHeadersArgs", addArgs)
		return nil
	})
}

// pkgVarInit is valueSpec without recording an error when the name is not a package-level variable.
func (x *X) pkgVarInit(dir, name string) ast.Expr {
	for _, f := range x.files(dir) {
		for _, d := range f.Decls {
			gd, ok := d.(*ast.GenDecl)
			if !ok {
				continue
			}
			for _, s := range gd.Specs {
				vs, ok := s.(*ast.ValueSpec)
				if !ok {
					continue
				}
				for i, n := range vs.Names {
					if n.Name == name && i < len(vs.Values) {
						return vs.Values[i]
					}
				}
			}
		}
	}
	return nil
}
