package main

import (
	"fmt"
	"go/ast"
	"go/token"
	"os"
	"path/filepath"
	"sort"
	"strconv"
	"strings"
)

// C19 facts:
//   - transport.SetConfig: what its single assignment stores where. The left-hand side is resolved with the
//     scope information go/parser records (ident.Obj): a parameter with the same name as the package-level
//     variable shadows it, and then `cfg = cfg` stores the parameter into itself (D23).
//   - transport.NewTransport: which option of the package-level configuration feeds which field of the
//     http.Transport / net.Dialer literal.
//   - who calls transport.NewTransport in the whole repository, and the order of main: SetConfig is an
//     unconditional top-level statement of main, and nothing before it can reach a NewTransport call.
//   - the ErrorHandler of the ReverseProxy literal in package proxy: its decision table from error class to
//     status; the transport and request data flow inside HTTPProxy.ServeHTTP.
//
// Facts are about roles, not spellings: variables are identified by what they are (receiver, i-th parameter, "the
// local assigned from p.Lookup", "the value handed to the reverse proxy as transport"), unexported functions by
// what they do (the function that builds the ReverseProxy, the function that is its ErrorHandler), hoisted
// locals and extracted straight-line helpers are followed to their defining expression (c19Resolve), and the
// AST is normalised first (x.UseNormalizedAST). See design/C19.md, "Behaviour-preserving refactorings".
func init() {
	register("C19", func(x *X) error {
		x.UseNormalizedAST() // named constants inlined, switch -> if chains
		c19SetConfig(x)
		c19NewTransport(x)
		c19Order(x)
		c19ErrorHandler(x)
		c19ServeHTTP(x)
		c19Writer(x)
		c19Load(x)
		return nil
	})
}

const c19Module = "github.com/fabiolb/fabio"

// c19Binding classifies what an identifier inside a function of package `dir` refers to:
// "param" (a parameter of fd), "packageVar" (a package-level var of dir), "local", or "unknown".
func c19Binding(x *X, dir string, fd *ast.FuncDecl, id *ast.Ident) string {
	if id.Obj != nil {
		switch d := id.Obj.Decl.(type) {
		case *ast.Field:
			if fd.Type.Params != nil {
				for _, f := range fd.Type.Params.List {
					if f == d {
						return "param"
					}
				}
			}
			return "local"
		case *ast.ValueSpec:
			if c19IsPackageLevel(x, dir, d) {
				return "packageVar"
			}
			return "local"
		case *ast.AssignStmt:
			return "local"
		}
		return "unknown"
	}
	// not resolved inside the file: a package-level variable declared in another file of the package
	for _, f := range x.files(dir) {
		for _, decl := range f.Decls {
			if gd, ok := decl.(*ast.GenDecl); ok && gd.Tok == token.VAR {
				for _, s := range gd.Specs {
					for _, n := range s.(*ast.ValueSpec).Names {
						if n.Name == id.Name {
							return "packageVar"
						}
					}
				}
			}
		}
	}
	return "unknown"
}

func c19IsPackageLevel(x *X, dir string, vs *ast.ValueSpec) bool {
	for _, f := range x.files(dir) {
		for _, decl := range f.Decls {
			if gd, ok := decl.(*ast.GenDecl); ok {
				for _, s := range gd.Specs {
					if s == ast.Spec(vs) {
						return true
					}
				}
			}
		}
	}
	return false
}

func c19SetConfig(x *X) {
	fd := x.funcDecl("transport", "", "SetConfig")
	if fd == nil || fd.Body == nil {
		return
	}
	nparams := 0
	paramType := ""
	if fd.Type.Params != nil {
		for _, f := range fd.Type.Params.List {
			nparams += len(f.Names)
			paramType = x.src(f.Type)
		}
	}
	x.defNat("setConfigParams", uint64(nparams))
	x.defStr("setConfigParamType", paramType)
	// every statement of the body; the interesting program is a single assignment `ident = ident`
	var stores []string
	lhs, rhs := "none", "none"
	lhsName := ""
	for _, st := range fd.Body.List {
		as, ok := st.(*ast.AssignStmt)
		if !ok {
			if _, isRet := st.(*ast.ReturnStmt); isRet {
				continue
			}
			stores = append(stores, "other:"+x.src(st))
			continue
		}
		if len(as.Lhs) != 1 || len(as.Rhs) != 1 || as.Tok != token.ASSIGN {
			stores = append(stores, "other:"+x.src(st))
			continue
		}
		l, lok := as.Lhs[0].(*ast.Ident)
		r, rok := as.Rhs[0].(*ast.Ident)
		if !lok || !rok {
			stores = append(stores, "other:"+x.src(st))
			continue
		}
		lhs, rhs = c19Binding(x, "transport", fd, l), c19Binding(x, "transport", fd, r)
		lhsName = l.Name
		stores = append(stores, lhs+"<-"+rhs)
	}
	x.defStrList("setConfigStores", stores)
	x.defStr("setConfigLhs", lhs)
	x.defStr("setConfigRhs", rhs)
	x.defStr("setConfigLhsName", lhsName)
}

// ---------------------------------------------------------------------------------------------------------
// shared: following an expression to its defining form, canonical rendering
// ---------------------------------------------------------------------------------------------------------

// c19Reassigned reports whether the variable behind id is assigned again (=, op=, ++/--) anywhere in fd.
func c19Reassigned(fd *ast.FuncDecl, obj *ast.Object) bool {
	found := false
	ast.Inspect(fd.Body, func(n ast.Node) bool {
		switch v := n.(type) {
		case *ast.AssignStmt:
			if v.Tok != token.DEFINE {
				for _, l := range v.Lhs {
					if id, ok := l.(*ast.Ident); ok && id.Obj == obj {
						found = true
					}
				}
			}
		case *ast.IncDecStmt:
			if id, ok := v.X.(*ast.Ident); ok && id.Obj == obj {
				found = true
			}
		}
		return true
	})
	return found
}

// c19StraightLine reports whether fd's body is local definitions followed by one single-result return, and
// returns that result.
func c19StraightLine(fd *ast.FuncDecl) (ast.Expr, bool) {
	if fd == nil || fd.Body == nil || len(fd.Body.List) == 0 {
		return nil, false
	}
	for i, st := range fd.Body.List {
		last := i == len(fd.Body.List)-1
		switch v := st.(type) {
		case *ast.AssignStmt:
			if v.Tok != token.DEFINE || last {
				return nil, false
			}
		case *ast.DeclStmt:
			if last {
				return nil, false
			}
		case *ast.ReturnStmt:
			if !last || len(v.Results) != 1 {
				return nil, false
			}
			return v.Results[0], true
		default:
			return nil, false
		}
	}
	return nil, false
}

// c19Resolve follows e, inside function fd of package dir, to its defining expression: through parentheses,
// through a local that is defined once and never reassigned (hoisted sub-expression), and through a call to an
// unexported function of the same package whose body is straight-line (extracted helper). It returns the
// expression and the function in whose scope it is written.
func c19Resolve(x *X, dir string, fd *ast.FuncDecl, e ast.Expr, depth int) (ast.Expr, *ast.FuncDecl) {
	if depth > 6 || e == nil {
		return e, fd
	}
	switch v := e.(type) {
	case *ast.ParenExpr:
		return c19Resolve(x, dir, fd, v.X, depth+1)
	case *ast.Ident:
		if v.Obj == nil || v.Obj.Kind != ast.Var {
			return e, fd
		}
		switch d := v.Obj.Decl.(type) {
		case *ast.AssignStmt:
			if d.Tok == token.DEFINE && len(d.Lhs) == len(d.Rhs) && !c19Reassigned(fd, v.Obj) {
				for i, l := range d.Lhs {
					if id, ok := l.(*ast.Ident); ok && id.Obj == v.Obj {
						return c19Resolve(x, dir, fd, d.Rhs[i], depth+1)
					}
				}
			}
		case *ast.ValueSpec:
			if len(d.Names) == len(d.Values) && !c19IsPackageLevel(x, dir, d) && !c19Reassigned(fd, v.Obj) {
				for i, n := range d.Names {
					if n.Obj == v.Obj {
						return c19Resolve(x, dir, fd, d.Values[i], depth+1)
					}
				}
			}
		}
	case *ast.CallExpr:
		if id, ok := v.Fun.(*ast.Ident); ok && !ast.IsExported(id.Name) && (id.Obj == nil || id.Obj.Kind == ast.Fun) {
			if callee := x.anyFuncDecl(dir, id.Name); callee != nil && callee.Recv == nil && callee != fd {
				if ret, ok := c19StraightLine(callee); ok {
					return c19Resolve(x, dir, callee, ret, depth+1)
				}
			}
		}
	}
	return e, fd
}

func c19StripAddr(e ast.Expr) ast.Expr {
	for {
		switch v := e.(type) {
		case *ast.ParenExpr:
			e = v.X
		case *ast.UnaryExpr:
			if v.Op != token.AND {
				return e
			}
			e = v.X
		default:
			return e
		}
	}
}

// c19Canon renders an expression with variable spellings removed: a variable is "_" and a selection from a
// variable keeps the selected field names only (`t.Host` → `.Host`); package-qualified names, literals, nil,
// true and false stay; the elements of a composite literal are sorted by key.
func c19Canon(x *X, e ast.Expr) string {
	switch v := e.(type) {
	case nil:
		return ""
	case *ast.ParenExpr:
		return c19Canon(x, v.X)
	case *ast.BasicLit:
		return v.Value
	case *ast.Ident:
		if v.Obj != nil && v.Obj.Kind == ast.Var {
			return "_"
		}
		return v.Name
	case *ast.SelectorExpr:
		if id, ok := v.X.(*ast.Ident); ok {
			if id.Obj != nil && id.Obj.Kind == ast.Var {
				return "." + v.Sel.Name
			}
			return id.Name + "." + v.Sel.Name
		}
		return c19Canon(x, v.X) + "." + v.Sel.Name
	case *ast.UnaryExpr:
		return v.Op.String() + c19Canon(x, v.X)
	case *ast.BinaryExpr:
		return c19Canon(x, v.X) + " " + v.Op.String() + " " + c19Canon(x, v.Y)
	case *ast.CompositeLit:
		var els []string
		for _, el := range v.Elts {
			if kv, ok := el.(*ast.KeyValueExpr); ok {
				els = append(els, x.src(kv.Key)+": "+c19Canon(x, kv.Value))
			} else {
				els = append(els, c19Canon(x, el))
			}
		}
		sort.Strings(els)
		return x.src(v.Type) + "{" + strings.Join(els, ", ") + "}"
	case *ast.CallExpr:
		var as []string
		for _, a := range v.Args {
			as = append(as, c19Canon(x, a))
		}
		return c19Canon(x, v.Fun) + "(" + strings.Join(as, ", ") + ")"
	}
	return x.src(e)
}

func c19PairList(name string, rows [][2]string) string {
	var b strings.Builder
	fmt.Fprintf(&b, "def %s : List (String × String) := [", name)
	for i, r := range rows {
		if i > 0 {
			b.WriteString(", ")
		}
		fmt.Fprintf(&b, "(%s, %s)", leanStr(r[0]), leanStr(r[1]))
	}
	b.WriteString("]")
	return b.String()
}

// ---------------------------------------------------------------------------------------------------------
// NewTransport
// ---------------------------------------------------------------------------------------------------------

// c19CfgField matches `<root>.Proxy.<Field>` and returns root ident and Field.
func c19CfgField(e ast.Expr) (*ast.Ident, string, bool) {
	s1, ok := e.(*ast.SelectorExpr)
	if !ok {
		return nil, "", false
	}
	s2, ok := s1.X.(*ast.SelectorExpr)
	if !ok || s2.Sel.Name != "Proxy" {
		return nil, "", false
	}
	root, ok := s2.X.(*ast.Ident)
	if !ok {
		return nil, "", false
	}
	return root, s1.Sel.Name, true
}

func c19NewTransport(x *X) {
	fd := x.funcDecl("transport", "", "NewTransport")
	if fd == nil || fd.Body == nil {
		return
	}
	// shape: local definitions, stores into fields of the value that is returned, one return
	var ret ast.Expr
	type fieldStore struct {
		obj *ast.Object
		key string
		val ast.Expr
	}
	var stores []fieldStore
	shape := "straight-line"
	for i, st := range fd.Body.List {
		switch v := st.(type) {
		case *ast.AssignStmt:
			if v.Tok == token.DEFINE {
				continue
			}
			ok := v.Tok == token.ASSIGN && len(v.Lhs) == 1 && len(v.Rhs) == 1
			if ok {
				sel, isSel := v.Lhs[0].(*ast.SelectorExpr)
				id, isID := (ast.Expr)(nil), false
				if isSel {
					var idn *ast.Ident
					idn, isID = sel.X.(*ast.Ident)
					if isID && idn.Obj != nil {
						stores = append(stores, fieldStore{idn.Obj, sel.Sel.Name, v.Rhs[0]})
						continue
					}
				}
				_ = id
			}
			shape = "other: " + x.src(st)
		case *ast.DeclStmt:
		case *ast.ReturnStmt:
			if i != len(fd.Body.List)-1 || len(v.Results) != 1 {
				shape = "other: early or multi-value return"
			} else {
				ret = v.Results[0]
			}
		default:
			shape = "other: " + x.src(st)
		}
	}
	x.defStr("newTransportShape", shape)
	if ret == nil {
		x.fail("transport.NewTransport: no final single-value return")
		return
	}
	var retObj *ast.Object
	if id, ok := ret.(*ast.Ident); ok {
		retObj = id.Obj
	}
	re, rfd := c19Resolve(x, "transport", fd, ret, 0)
	lit, ok := c19StripAddr(re).(*ast.CompositeLit)
	if !ok || x.src(lit.Type) != "http.Transport" {
		x.fail("transport.NewTransport does not return an http.Transport literal (possibly through a local or a straight-line helper): %s", x.src(re))
		return
	}
	fields := map[string]string{}
	cellName := ""
	var leaf func(key string, scope *ast.FuncDecl, val ast.Expr)
	var walk func(prefix string, scope *ast.FuncDecl, cl *ast.CompositeLit)
	// `<root>.Proxy.<Field>`, also through an alias of the Proxy part: `p := &cfg.Proxy` (or `p := cfg.Proxy`,
	// a copy made in the same straight-line function) and then `p.<Field>`
	cfgField := func(scope *ast.FuncDecl, e ast.Expr) (*ast.Ident, string, *ast.FuncDecl, bool) {
		if root, f, ok := c19CfgField(e); ok {
			return root, f, scope, true
		}
		if sel, ok := e.(*ast.SelectorExpr); ok {
			if _, isID := c19StripParen(sel.X).(*ast.Ident); isID {
				inner, ifd := c19Resolve(x, "transport", scope, sel.X, 0)
				if ps, ok := c19StripAddr(inner).(*ast.SelectorExpr); ok && ps.Sel.Name == "Proxy" {
					if root, ok := ps.X.(*ast.Ident); ok {
						return root, sel.Sel.Name, ifd, true
					}
				}
			}
		}
		return nil, "", nil, false
	}
	consumed := map[int]bool{}
	leaf = func(key string, scope *ast.FuncDecl, val ast.Expr) {
		v, vfd := c19Resolve(x, "transport", scope, val, 0)
		if root, f, rfd, ok := cfgField(vfd, v); ok {
			vfd = rfd
			b := c19Binding(x, "transport", vfd, root)
			if b != "packageVar" {
				x.fail("NewTransport: %s reads %s which is %s, not the package-level configuration", key, x.src(v), b)
			}
			if cellName == "" {
				cellName = root.Name
			} else if cellName != root.Name {
				x.fail("NewTransport reads two different configuration variables: %s and %s", cellName, root.Name)
			}
			fields[key] = "Proxy." + f
			return
		}
		// method value of a literal: (&net.Dialer{…}).Dial, possibly through a local or a helper
		if sel, ok := v.(*ast.SelectorExpr); ok {
			inner, ifd := c19Resolve(x, "transport", vfd, sel.X, 0)
			if dl, ok := c19StripAddr(inner).(*ast.CompositeLit); ok {
				prefix := key + "=" + x.src(dl.Type) + "." + sel.Sel.Name + ":"
				walk(prefix, ifd, dl)
				// the receiver is a local of NewTransport that is filled field by field: those stores belong to it
				if id, ok := c19StripParen(sel.X).(*ast.Ident); ok && id.Obj != nil && vfd == fd {
					for i, st := range stores {
						if st.obj == id.Obj {
							consumed[i] = true
							leaf(prefix+st.key, fd, st.val)
						}
					}
				}
				return
			}
		}
		if id, ok := v.(*ast.Ident); ok && vfd == fd && c19Binding(x, "transport", fd, id) == "param" {
			fields[key] = "$param"
			return
		}
		fields[key] = "expr:" + c19Canon(x, v)
	}
	walk = func(prefix string, scope *ast.FuncDecl, cl *ast.CompositeLit) {
		for _, el := range cl.Elts {
			p, ok := el.(*ast.KeyValueExpr)
			if !ok {
				x.fail("NewTransport: positional element %s", x.src(el))
				continue
			}
			leaf(prefix+x.src(p.Key), scope, p.Value)
		}
	}
	walk("", rfd, lit)
	for _, s := range stores {
		if retObj != nil && s.obj == retObj {
			leaf(s.key, fd, s.val)
		}
	}
	for i, s := range stores {
		if (retObj == nil || s.obj != retObj) && !consumed[i] {
			x.fail("NewTransport: store into a field of something that is neither the returned transport nor a value it references: .%s", s.key)
		}
	}
	var keys []string
	for k := range fields {
		keys = append(keys, k)
	}
	sort.Strings(keys)
	var rows [][2]string
	for _, k := range keys {
		rows = append(rows, [2]string{k, fields[k]})
	}
	x.defRaw(c19PairList("transportFields", rows))
	x.defStr("cellVarName", cellName)
	// the cell's initial value: a zero config.Config (&config.Config{} or new(config.Config))
	zero := false
	if e := x.valueSpec("transport", cellName); e != nil {
		switch v := e.(type) {
		case *ast.UnaryExpr:
			if cl, ok := v.X.(*ast.CompositeLit); ok && v.Op == token.AND && len(cl.Elts) == 0 && x.src(cl.Type) == "config.Config" {
				zero = true
			}
		case *ast.CallExpr:
			if x.src(v.Fun) == "new" && len(v.Args) == 1 && x.src(v.Args[0]) == "config.Config" {
				zero = true
			}
		}
	}
	x.defBool("cellInitIsZeroConfig", zero)
}

// ---------------------------------------------------------------------------------------------------------
// call sites and the order of main
// ---------------------------------------------------------------------------------------------------------

// c19RepoDirs lists the package directories of the repository (no vendor, no hidden, no testdata).
func c19RepoDirs(x *X) []string {
	var dirs []string
	filepath.Walk(x.repo, func(p string, info os.FileInfo, err error) error {
		if err != nil || !info.IsDir() {
			return nil
		}
		n := info.Name()
		if p != x.repo && (strings.HasPrefix(n, ".") || strings.HasPrefix(n, "_") || n == "vendor" || n == "testdata" || n == "node_modules") {
			return filepath.SkipDir
		}
		ents, _ := os.ReadDir(p)
		for _, e := range ents {
			if !e.IsDir() && strings.HasSuffix(e.Name(), ".go") && !strings.HasSuffix(e.Name(), "_test.go") {
				rel, _ := filepath.Rel(x.repo, p)
				dirs = append(dirs, rel)
				break
			}
		}
		return nil
	})
	sort.Strings(dirs)
	return dirs
}

// c19ImportName returns the local name under which file f imports path ("" if it does not).
func c19ImportName(f *ast.File, path string) string {
	for _, im := range f.Imports {
		p, _ := strconv.Unquote(im.Path.Value)
		if p != path {
			continue
		}
		if im.Name != nil {
			return im.Name.Name
		}
		return path[strings.LastIndex(path, "/")+1:]
	}
	return ""
}

func c19FuncName(fd *ast.FuncDecl) string {
	if fd.Recv != nil && len(fd.Recv.List) == 1 {
		t := fd.Recv.List[0].Type
		if st, ok := t.(*ast.StarExpr); ok {
			t = st.X
		}
		if id, ok := t.(*ast.Ident); ok {
			return id.Name + "." + fd.Name.Name
		}
	}
	return fd.Name.Name
}

// c19Dest says where the result of call c (inside fd) ends up: the key of the composite-literal element or the
// field of the assignment it is the value of, directly or through a local that is defined from it.
func c19Dest(fd *ast.FuncDecl, c *ast.CallExpr) string {
	dest := "?"
	var local *ast.Object
	ast.Inspect(fd.Body, func(n ast.Node) bool {
		switch v := n.(type) {
		case *ast.KeyValueExpr:
			if v.Value == ast.Expr(c) {
				if k, ok := v.Key.(*ast.Ident); ok {
					dest = k.Name
				}
			}
		case *ast.AssignStmt:
			for i, r := range v.Rhs {
				if r != ast.Expr(c) || i >= len(v.Lhs) {
					continue
				}
				switch l := v.Lhs[i].(type) {
				case *ast.SelectorExpr:
					dest = l.Sel.Name
				case *ast.Ident:
					local = l.Obj
				}
			}
		}
		return true
	})
	if local != nil {
		ast.Inspect(fd.Body, func(n ast.Node) bool {
			switch v := n.(type) {
			case *ast.KeyValueExpr:
				if id, ok := v.Value.(*ast.Ident); ok && id.Obj == local {
					if k, ok := v.Key.(*ast.Ident); ok {
						dest = k.Name
					}
				}
			case *ast.AssignStmt:
				for i, r := range v.Rhs {
					if id, ok := r.(*ast.Ident); ok && id.Obj == local && i < len(v.Lhs) {
						if l, ok := v.Lhs[i].(*ast.SelectorExpr); ok {
							dest = l.Sel.Name
						}
					}
				}
			}
			return true
		})
	}
	return dest
}

func c19Order(x *X) {
	dirs := c19RepoDirs(x)
	// 1. every call of transport.NewTransport / transport.SetConfig in the repository: per package, with the
	//    field the result is stored in and the (canonical) TLS argument
	var newSites, setCallers []string
	type argRow struct{ pkg, dest, arg string }
	var argRows []argRow
	imports := map[string][]string{} // dir -> internal package dirs it imports
	for _, dir := range dirs {
		pkgLabel := dir
		if dir == "." {
			pkgLabel = "main"
		}
		seenImp := map[string]bool{}
		for _, f := range x.files(dir) {
			for _, im := range f.Imports {
				p, _ := strconv.Unquote(im.Path.Value)
				if strings.HasPrefix(p, c19Module+"/") {
					d := strings.TrimPrefix(p, c19Module+"/")
					if !seenImp[d] {
						seenImp[d] = true
						imports[dir] = append(imports[dir], d)
					}
				}
			}
			tn := c19ImportName(f, c19Module+"/transport")
			if tn == "" && dir != "transport" {
				continue
			}
			callee := func(c *ast.CallExpr) string {
				if sel, ok := c.Fun.(*ast.SelectorExpr); ok && tn != "" {
					if id, ok := sel.X.(*ast.Ident); ok && id.Name == tn && id.Obj == nil {
						return sel.Sel.Name
					}
				} else if id, ok := c.Fun.(*ast.Ident); ok && dir == "transport" {
					return id.Name
				}
				return ""
			}
			for _, d := range f.Decls {
				fd, isFn := d.(*ast.FuncDecl)
				ast.Inspect(d, func(n ast.Node) bool {
					c, ok := n.(*ast.CallExpr)
					if !ok {
						return true
					}
					switch callee(c) {
					case "NewTransport":
						newSites = append(newSites, pkgLabel)
						if isFn && fd.Body != nil && len(c.Args) == 1 {
							a, _ := c19Resolve(x, dir, fd, c.Args[0], 0)
							argRows = append(argRows, argRow{pkgLabel, c19Dest(fd, c), c19Canon(x, a)})
						} else {
							argRows = append(argRows, argRow{pkgLabel, "<package-level initialiser>", ""})
						}
					case "SetConfig":
						where := "<package-level initialiser>"
						if isFn {
							where = c19FuncName(fd)
						}
						setCallers = append(setCallers, pkgLabel+"."+where)
					}
					return true
				})
			}
		}
	}
	sort.Strings(newSites)
	sort.Strings(setCallers)
	x.defStrList("newTransportCallSitePackages", newSites)
	x.defStrList("setConfigCallers", setCallers)
	sort.Slice(argRows, func(i, j int) bool {
		if argRows[i].pkg != argRows[j].pkg {
			return argRows[i].pkg < argRows[j].pkg
		}
		return argRows[i].dest < argRows[j].dest
	})
	var ab strings.Builder
	ab.WriteString("def newTransportArgs : List (String × String × String) := [")
	for i, r := range argRows {
		if i > 0 {
			ab.WriteString(", ")
		}
		fmt.Fprintf(&ab, "(%s, %s, %s)", leanStr(r.pkg), leanStr(r.dest), leanStr(r.arg))
	}
	ab.WriteString("]")
	x.defRaw(ab.String())

	// 2. internal packages from which fabio/transport is reachable through imports (reflexive, transitive)
	reach := map[string]bool{"transport": true}
	for changed := true; changed; {
		changed = false
		for d, ims := range imports {
			if reach[d] {
				continue
			}
			for _, i := range ims {
				if reach[i] {
					reach[d] = true
					changed = true
					break
				}
			}
		}
	}

	// 3. main: the statement that calls SetConfig (directly, or through one unexported helper of package main
	//    that calls it unconditionally with one of its parameters), and what runs before it
	fd := x.funcDecl(".", "", "main")
	if fd == nil || fd.Body == nil {
		return
	}
	fileOf := func(fn *ast.FuncDecl) *ast.File {
		for _, f := range x.files(".") {
			for _, d := range f.Decls {
				if d == ast.Decl(fn) {
					return f
				}
			}
		}
		return nil
	}
	mainFuncs := map[string]*ast.FuncDecl{}
	for _, f := range x.files(".") {
		for _, d := range f.Decls {
			if v, ok := d.(*ast.FuncDecl); ok && v.Recv == nil {
				mainFuncs[v.Name.Name] = v
			}
		}
	}
	isSetIn := func(file *ast.File) func(c *ast.CallExpr) bool {
		tn := c19ImportName(file, c19Module+"/transport")
		return func(c *ast.CallExpr) bool {
			sel, ok := c.Fun.(*ast.SelectorExpr)
			if !ok || sel.Sel.Name != "SetConfig" {
				return false
			}
			id, ok := sel.X.(*ast.Ident)
			return ok && tn != "" && id.Name == tn && id.Obj == nil
		}
	}
	contains := func(st ast.Node, pred func(c *ast.CallExpr) bool) bool {
		found := false
		ast.Inspect(st, func(n ast.Node) bool {
			if c, ok := n.(*ast.CallExpr); ok && pred(c) {
				found = true
			}
			return true
		})
		return found
	}
	// topLevelSet finds the unique top-level `transport.SetConfig(arg)` statement of fn
	topLevelSet := func(fn *ast.FuncDecl) (idx int, kind string, arg ast.Expr) {
		isSet := isSetIn(fileOf(fn))
		idx, kind = -1, "absent"
		for i, st := range fn.Body.List {
			if !contains(st, isSet) {
				continue
			}
			if idx >= 0 {
				return idx, "more-than-once", nil
			}
			idx, kind = i, "nested"
			if es, ok := st.(*ast.ExprStmt); ok {
				if c, ok := es.X.(*ast.CallExpr); ok && isSet(c) && len(c.Args) == 1 {
					kind, arg = "top-level-unconditional", c.Args[0]
				}
			}
		}
		return
	}
	idx, kind, argE := topLevelSet(fd)
	var pre []ast.Stmt // everything that runs before SetConfig
	arg := ""
	if kind == "top-level-unconditional" {
		pre = append(pre, fd.Body.List[:idx]...)
		arg = x.src(argE)
	} else if kind == "absent" {
		// one level of "extract helper": main calls f(…, cfg, …) at top level and f calls SetConfig(param) at top level
		for i, st := range fd.Body.List {
			es, ok := st.(*ast.ExprStmt)
			if !ok {
				continue
			}
			c, ok := es.X.(*ast.CallExpr)
			if !ok {
				continue
			}
			id, ok := c.Fun.(*ast.Ident)
			if !ok {
				continue
			}
			h := mainFuncs[id.Name]
			if h == nil || h.Body == nil || h == fd {
				continue
			}
			hi, hk, ha := topLevelSet(h)
			if hk == "absent" {
				continue
			}
			idx, kind = i, "helper-"+hk
			if hk != "top-level-unconditional" {
				break
			}
			// which parameter of the helper is handed on?
			pi := -1
			if aid, ok := ha.(*ast.Ident); ok && h.Type.Params != nil {
				k := 0
				for _, f := range h.Type.Params.List {
					for _, n := range f.Names {
						if n.Obj == aid.Obj {
							pi = k
						}
						k++
					}
				}
			}
			if pi < 0 || pi >= len(c.Args) {
				kind = "helper-argument-not-a-parameter"
				break
			}
			kind = "top-level-unconditional"
			arg = x.src(c.Args[pi])
			pre = append(pre, fd.Body.List[:i]...)
			pre = append(pre, h.Body.List[:hi]...)
			break
		}
	}
	x.defStr("mainSetConfigStmt", kind)
	x.defNat("mainSetConfigIndex", uint64(max(idx, 0)))
	x.defStr("mainSetConfigArg", arg)

	// the configuration handed to SetConfig is what config.Load returned
	loadVar := ""
	var callsBefore, pkgsBefore, localsBefore []string
	seenPkg := map[string]bool{}
	seenLocal := map[string]bool{}
	mainFile := fileOf(fd)
	for _, st := range pre {
		if as, ok := st.(*ast.AssignStmt); ok && len(as.Rhs) == 1 && len(as.Lhs) >= 1 {
			if c, ok := as.Rhs[0].(*ast.CallExpr); ok && x.src(c.Fun) == "config.Load" {
				loadVar = x.src(as.Lhs[0])
			}
		}
		ast.Inspect(st, func(n ast.Node) bool {
			switch v := n.(type) {
			case *ast.CallExpr:
				callsBefore = append(callsBefore, x.src(v.Fun))
			case *ast.SelectorExpr:
				if id, ok := v.X.(*ast.Ident); ok && id.Obj == nil {
					ip := ""
					for _, f := range x.files(".") {
						for _, im := range f.Imports {
							p, _ := strconv.Unquote(im.Path.Value)
							nm := p[strings.LastIndex(p, "/")+1:]
							if im.Name != nil {
								nm = im.Name.Name
							}
							if nm == id.Name && strings.HasPrefix(p, c19Module+"/") {
								ip = p
							}
						}
					}
					if ip != "" {
						d := strings.TrimPrefix(ip, c19Module+"/")
						if !seenPkg[d] {
							seenPkg[d] = true
							pkgsBefore = append(pkgsBefore, d)
						}
					}
				}
			case *ast.Ident:
				if _, ok := mainFuncs[v.Name]; ok && v.Obj != nil && !seenLocal[v.Name] {
					if _, isFn := v.Obj.Decl.(*ast.FuncDecl); isFn {
						seenLocal[v.Name] = true
						localsBefore = append(localsBefore, v.Name)
					}
				}
			}
			return true
		})
	}
	_ = mainFile
	x.defStr("mainLoadVar", loadVar)
	x.defStrList("mainCallsBeforeSetConfig", callsBefore)
	sort.Strings(pkgsBefore)
	x.defStrList("mainPkgsBeforeSetConfig", pkgsBefore)
	var reaching []string
	for _, p := range pkgsBefore {
		if reach[p] {
			reaching = append(reaching, p)
		}
	}
	// internal packages used before SetConfig from which fabio/transport is reachable: must be empty
	x.defStrList("mainPkgsBeforeSetConfigReachingTransport", reaching)
	// functions of package main referenced before SetConfig (none today); they could reach the builders
	sort.Strings(localsBefore)
	x.defStrList("mainLocalFuncsBeforeSetConfig", localsBefore)
	// package main: no init() may run before main and reach transport
	var inits []string
	for _, f := range x.files(".") {
		for _, d := range f.Decls {
			if v, ok := d.(*ast.FuncDecl); ok && v.Recv == nil && v.Name.Name == "init" {
				inits = append(inits, x.fset.Position(v.Pos()).Filename[len(x.repo)+1:])
			}
		}
	}
	sort.Strings(inits)
	x.defStrList("mainInitFuncs", inits)
	// the packages that import fabio/transport directly
	var direct []string
	for d, ims := range imports {
		for _, i := range ims {
			if i == "transport" {
				if d == "." {
					d = "main"
				}
				direct = append(direct, d)
			}
		}
	}
	sort.Strings(direct)
	x.defStrList("transportImporters", direct)
}

// ---------------------------------------------------------------------------------------------------------
// the reverse proxy: its constructor, its error handler
// ---------------------------------------------------------------------------------------------------------

var c19HTTPStatus = map[string]uint64{
	"http.StatusInternalServerError": 500,
	"http.StatusBadGateway":          502,
	"http.StatusServiceUnavailable":  503,
	"http.StatusGatewayTimeout":      504,
	"http.StatusOK":                  200,
	"http.StatusRequestTimeout":      408,
}

// c19ReverseProxy finds, in package proxy, the function that builds the httputil.ReverseProxy literal, the
// index of its parameter that becomes the literal's Transport (-1 if it is not a parameter), and the function
// that is its ErrorHandler (a declared function or a function literal).
func c19ReverseProxy(x *X) (ctor *ast.FuncDecl, trParam int, handler *ast.FuncType, handlerBody *ast.BlockStmt, note string) {
	trParam = -1
	n := 0
	for _, f := range x.files("proxy") {
		for _, d := range f.Decls {
			fd, ok := d.(*ast.FuncDecl)
			if !ok || fd.Body == nil {
				continue
			}
			ast.Inspect(fd.Body, func(m ast.Node) bool {
				cl, ok := m.(*ast.CompositeLit)
				if !ok || cl.Type == nil || x.src(cl.Type) != "httputil.ReverseProxy" {
					return true
				}
				n++
				ctor = fd
				for _, el := range cl.Elts {
					kv, ok := el.(*ast.KeyValueExpr)
					if !ok {
						continue
					}
					switch x.src(kv.Key) {
					case "Transport":
						v, vfd := c19Resolve(x, "proxy", fd, kv.Value, 0)
						if id, ok := v.(*ast.Ident); ok && vfd == fd && fd.Type.Params != nil {
							k := 0
							for _, p := range fd.Type.Params.List {
								for _, nm := range p.Names {
									if nm.Obj == id.Obj {
										trParam = k
									}
									k++
								}
							}
						}
					case "ErrorHandler":
						switch v := kv.Value.(type) {
						case *ast.FuncLit:
							handler, handlerBody = v.Type, v.Body
						case *ast.Ident:
							if h := x.anyFuncDecl("proxy", v.Name); h != nil {
								handler, handlerBody = h.Type, h.Body
							}
						}
					}
				}
				return true
			})
		}
	}
	if n != 1 {
		note = fmt.Sprintf("%d httputil.ReverseProxy literals in package proxy", n)
	}
	return
}

func c19ErrorHandler(x *X) {
	ctor, trParam, ht, hb, note := c19ReverseProxy(x)
	if note != "" {
		x.fail("%s", note)
	}
	x.defBool("reverseProxyTransportIsParam", ctor != nil && trParam >= 0)
	x.defBool("reverseProxyHasErrorHandler", hb != nil)
	if hb == nil || ht.Params == nil {
		x.fail("the ReverseProxy's ErrorHandler is not a function of package proxy")
		return
	}
	var pnames []*ast.Ident
	for _, f := range ht.Params.List {
		pnames = append(pnames, f.Names...)
	}
	if len(pnames) != 3 {
		x.fail("ErrorHandler: unexpected signature")
		return
	}
	wObj := pnames[0].Obj
	errObjs := map[*ast.Object]bool{pnames[2].Obj: true}
	isErr := func(e ast.Expr) bool {
		id, ok := c19StripParen(e).(*ast.Ident)
		return ok && id.Obj != nil && errObjs[id.Obj]
	}
	// A classification helper: an unexported function of the package called with the error as its only argument
	// (`statusCode := proxyErrorStatus(err)`, `w.WriteHeader(proxyErrorStatus(err))`). Its parameter is the error
	// too, and its `return <status>` statements are rows of the table just as assignments to the status variable are.
	classifier := func(e ast.Expr) *ast.FuncDecl {
		c, ok := c19StripParen(e).(*ast.CallExpr)
		if !ok || len(c.Args) != 1 || !isErr(c.Args[0]) {
			return nil
		}
		id, ok := c.Fun.(*ast.Ident)
		if !ok || ast.IsExported(id.Name) {
			return nil
		}
		callee := x.anyFuncDecl("proxy", id.Name)
		if callee == nil || callee.Recv != nil || callee.Body == nil || callee.Type.Params == nil {
			return nil
		}
		var ps []*ast.Ident
		for _, f := range callee.Type.Params.List {
			ps = append(ps, f.Names...)
		}
		if len(ps) != 1 || ps[0].Obj == nil {
			return nil
		}
		errObjs[ps[0].Obj] = true
		return callee
	}
	var helper *ast.FuncDecl
	ast.Inspect(hb, func(n ast.Node) bool {
		if c, ok := n.(*ast.CallExpr); ok && helper == nil {
			helper = classifier(c)
		}
		return true
	})
	// results of `v, ok := err.(net.Error)` anywhere in the handler (and in the classification helper)
	assertVal, assertOK := map[*ast.Object]bool{}, map[*ast.Object]bool{}
	bodies := []ast.Node{hb}
	if helper != nil {
		bodies = append(bodies, helper.Body)
	}
	for _, body := range bodies {
	ast.Inspect(body, func(n ast.Node) bool {
		if as, ok := n.(*ast.AssignStmt); ok && len(as.Lhs) == 2 && len(as.Rhs) == 1 {
			if ta, ok := as.Rhs[0].(*ast.TypeAssertExpr); ok && ta.Type != nil && isErr(ta.X) && x.src(ta.Type) == "net.Error" {
				if a, ok := as.Lhs[0].(*ast.Ident); ok && a.Obj != nil {
					assertVal[a.Obj] = true
				}
				if b, ok := as.Lhs[1].(*ast.Ident); ok && b.Obj != nil {
					assertOK[b.Obj] = true
				}
			}
		}
		return true
	})
	}
	status := func(e ast.Expr) (uint64, bool) {
		e = c19StripParen(e)
		s := x.src(e)
		if v, ok := c19HTTPStatus[s]; ok {
			return v, true
		}
		if bl, ok := e.(*ast.BasicLit); ok && bl.Kind == token.INT {
			v, err := strconv.ParseUint(bl.Value, 10, 64)
			return v, err == nil
		}
		return 0, false
	}
	// canonical names of the conditions the handler tests, by meaning
	var condName func(c ast.Expr) string
	condName = func(c ast.Expr) string {
		c = c19StripParen(c)
		switch v := c.(type) {
		case *ast.Ident:
			if v.Obj != nil && assertOK[v.Obj] {
				return "net.Error"
			}
		case *ast.CallExpr:
			if sel, ok := v.Fun.(*ast.SelectorExpr); ok && sel.Sel.Name == "Timeout" && len(v.Args) == 0 {
				if id, ok := c19StripParen(sel.X).(*ast.Ident); ok && id.Obj != nil && assertVal[id.Obj] {
					return "Timeout"
				}
			}
		case *ast.BinaryExpr:
			if v.Op == token.EQL {
				a, b := v.X, v.Y
				if isErr(b) {
					a, b = b, a
				}
				if isErr(a) {
					switch x.src(c19StripParen(b)) {
					case "io.EOF":
						return "io.EOF"
					case "context.Canceled":
						return "context.Canceled"
					}
				}
			}
		}
		return "?" + c19Canon(x, c)
	}
	type row struct {
		path string
		code uint64
	}
	var rows []row
	var statusObj *ast.Object
	var initCode uint64
	written := false
	writtenIsStatus := false
	// The walk returns whether the statements always leave the function (`return`). After an `if` whose one branch
	// always returns, the statements that follow run under the other branch's condition; an `if` that only assigns
	// leaves the path as it is (a later assignment would override an earlier one: such code gets its own rows).
	// inHelper: the body walked is the classification helper's; its `return <status>` are rows, and the return
	// that is reached when every test failed is the default.
	haveDefault := false
	allNegated := func(path string) bool {
		if path == "" {
			return true
		}
		for _, seg := range strings.Split(path[1:], "/") {
			if !strings.HasPrefix(seg, "!") {
				return false
			}
		}
		return true
	}
	var walk func(path string, b []ast.Stmt, inHelper bool) bool
	var walkIf func(path string, s *ast.IfStmt, inHelper bool) (thenT, elseT bool, thenPath, elsePath string)
	walkIf = func(path string, s *ast.IfStmt, inHelper bool) (bool, bool, string, string) {
		cond := c19StripParen(s.Cond)
		pos, neg := "", "!"
		if u, ok := cond.(*ast.UnaryExpr); ok && u.Op == token.NOT {
			cond = u.X
			pos, neg = "!", ""
		}
		n := condName(cond)
		thenPath, elsePath := path+"/"+pos+n, path+"/"+neg+n
		thenT := walk(thenPath, s.Body.List, inHelper)
		elseT := false
		switch e := s.Else.(type) {
		case *ast.BlockStmt:
			elseT = walk(elsePath, e.List, inHelper)
		case *ast.IfStmt:
			elseT = walk(elsePath, []ast.Stmt{e}, inHelper)
		}
		return thenT, elseT, thenPath, elsePath
	}
	walk = func(path string, b []ast.Stmt, inHelper bool) bool {
		for _, st := range b {
			switch s := st.(type) {
			case *ast.BlockStmt:
				if walk(path, s.List, inHelper) {
					return true
				}
			case *ast.DeclStmt:
				if gd, ok := s.Decl.(*ast.GenDecl); ok && path == "" && statusObj == nil {
					for _, sp := range gd.Specs {
						if vs, ok := sp.(*ast.ValueSpec); ok && len(vs.Names) == 1 && len(vs.Values) == 1 {
							if v, ok := status(vs.Values[0]); ok {
								statusObj, initCode = vs.Names[0].Obj, v
								haveDefault = true
							}
						}
					}
				}
			case *ast.AssignStmt:
				if len(s.Lhs) == 1 && len(s.Rhs) == 1 {
					id, ok := s.Lhs[0].(*ast.Ident)
					if !ok {
						continue
					}
					if s.Tok == token.DEFINE && path == "" && statusObj == nil && !inHelper && helper != nil && classifier(s.Rhs[0]) == helper {
						// statusCode := helper(err): the helper's returns are the table
						statusObj = id.Obj
						walk("", helper.Body.List, true)
					} else if s.Tok == token.DEFINE && path == "" && statusObj == nil {
						if v, ok := status(s.Rhs[0]); ok {
							statusObj, initCode = id.Obj, v
							haveDefault = true
						}
					} else if s.Tok == token.ASSIGN && statusObj != nil && id.Obj == statusObj {
						if v, ok := status(s.Rhs[0]); ok {
							rows = append(rows, row{path, v})
						} else {
							x.fail("ErrorHandler: status expression %s not understood", x.src(s.Rhs[0]))
						}
					}
				}
			case *ast.ReturnStmt:
				if inHelper && len(s.Results) == 1 {
					if v, ok := status(s.Results[0]); ok {
						if allNegated(path) && !haveDefault {
							initCode, haveDefault = v, true
						} else {
							rows = append(rows, row{path, v})
						}
					} else if id, ok := c19StripParen(s.Results[0]).(*ast.Ident); !ok || statusObj == nil || id.Obj != statusObj {
						x.fail("ErrorHandler: returned status %s not understood", x.src(s.Results[0]))
					}
				}
				return true
			case *ast.IfStmt:
				if path == "" && written && !inHelper {
					continue // after WriteHeader: logging only
				}
				thenT, elseT, thenPath, elsePath := walkIf(path, s, inHelper)
				switch {
				case thenT && elseT:
					return true
				case thenT && s.Else == nil:
					path = elsePath
				case elseT && !thenT:
					path = thenPath
				}
			case *ast.ExprStmt:
				if c, ok := s.X.(*ast.CallExpr); ok && len(c.Args) == 1 && path == "" && !inHelper {
					if sel, ok := c.Fun.(*ast.SelectorExpr); ok && sel.Sel.Name == "WriteHeader" {
						if id, ok := sel.X.(*ast.Ident); ok && id.Obj == wObj {
							written = true
							if a, ok := c19StripParen(c.Args[0]).(*ast.Ident); ok && statusObj != nil && a.Obj == statusObj {
								writtenIsStatus = true
							} else if helper != nil && statusObj == nil && classifier(c.Args[0]) == helper {
								// w.WriteHeader(helper(err))
								walk("", helper.Body.List, true)
								writtenIsStatus = true
							}
						}
					}
				}
			}
		}
		return false
	}
	walk("", hb.List, false)
	x.defNat("errorHandlerDefault", initCode)
	var b strings.Builder
	b.WriteString("def errorHandlerTable : List (String × Nat) := [")
	for i, r := range rows {
		if i > 0 {
			b.WriteString(", ")
		}
		fmt.Fprintf(&b, "(%s, %d)", leanStr(r.path), r.code)
	}
	b.WriteString("]")
	x.defRaw(b.String())
	x.defBool("errorHandlerWritesStatusVar", written && writtenIsStatus)
}

func c19StripParen(e ast.Expr) ast.Expr {
	for {
		p, ok := e.(*ast.ParenExpr)
		if !ok {
			return e
		}
		e = p.X
	}
}

// ---------------------------------------------------------------------------------------------------------
// HTTPProxy.ServeHTTP: the data flow of the transport and of the request
// ---------------------------------------------------------------------------------------------------------

// c19ServeHTTP:
//   - every construction or copy of an http.Transport (composite literal, .Clone()) in the packages on the
//     request path (proxy, proxy/gzip, route, main): none besides transport.NewTransport's own literal;
//   - the value handed to the reverse-proxy constructor as transport ("tr") is only ever assigned the proxy's
//     Transport / InsecureTransport fields or the target's Transport field, and every reverse-proxy constructor
//     call receives it;
//   - the handler variable (the one whose ServeHTTP is finally called with the request) is only assigned
//     results of: the reverse-proxy constructor, other unexported constructors of the package, gzip.NewGzipHandler;
//   - the request handed to the handler is the request received: no context.With*, no WithContext, no rebinding.
//
// Variables are named by role in the output: recv (receiver), w / req (parameters), target (the local assigned
// from recv.Lookup(…)), tr, h.
// c19IsHeaderExpr: the receiver of a `.Clone()` call is evidently an http.Header — the result of a `.Header()`
// call, a `.Header`/`.Trailer` field, or `http.Header(…)` — and not a transport. (No type information: every other
// receiver still counts as a possible copy of a transport.)
func c19IsHeaderExpr(e ast.Expr) bool {
	switch v := c19StripParen(e).(type) {
	case *ast.CallExpr:
		if sel, ok := v.Fun.(*ast.SelectorExpr); ok {
			if sel.Sel.Name == "Header" && len(v.Args) == 0 {
				return true
			}
			if id, ok := sel.X.(*ast.Ident); ok && id.Name == "http" && sel.Sel.Name == "Header" {
				return true
			}
		}
	case *ast.SelectorExpr:
		return v.Sel.Name == "Header" || v.Sel.Name == "Trailer"
	}
	return false
}

func c19ServeHTTP(x *X) {
	var constructions []string
	for _, dir := range []string{"proxy", "proxy/gzip", "route", "."} {
		label := dir
		if dir == "." {
			label = "main"
		}
		for _, f := range x.files(dir) {
			for _, d := range f.Decls {
				ast.Inspect(d, func(n ast.Node) bool {
					switch v := n.(type) {
					case *ast.CompositeLit:
						if v.Type != nil && x.src(v.Type) == "http.Transport" {
							constructions = append(constructions, label+": http.Transport literal")
						}
					case *ast.CallExpr:
						if sel, ok := v.Fun.(*ast.SelectorExpr); ok && sel.Sel.Name == "Clone" && len(v.Args) == 0 && !c19IsHeaderExpr(sel.X) {
							constructions = append(constructions, label+": .Clone()")
						}
					}
					return true
				})
			}
		}
	}
	sort.Strings(constructions)
	x.defStrList("transportConstructionsOnRequestPath", constructions)

	ctor, trParam, _, _, _ := c19ReverseProxy(x)
	sh := x.funcDecl("proxy", "HTTPProxy", "ServeHTTP")
	if sh == nil || sh.Body == nil || sh.Type.Params == nil || ctor == nil {
		x.fail("proxy.HTTPProxy.ServeHTTP or the reverse-proxy constructor not found")
		return
	}
	recv, params, _ := x.LocalNames(sh)
	if recv == "" || len(params) != 2 {
		x.fail("proxy.HTTPProxy.ServeHTTP: unexpected signature")
		return
	}
	ren := map[string]string{recv: "recv", params[0]: "w", params[1]: "req"}
	reqName := params[1]
	// roles of locals: target, tr, h
	ctorCalls := func(n ast.Node) []*ast.CallExpr {
		var out []*ast.CallExpr
		ast.Inspect(n, func(m ast.Node) bool {
			if c, ok := m.(*ast.CallExpr); ok {
				if id, ok := c.Fun.(*ast.Ident); ok && id.Name == ctor.Name.Name && (id.Obj == nil || id.Obj.Kind == ast.Fun) {
					out = append(out, c)
				}
			}
			return true
		})
		return out
	}
	trName, hName := "", ""
	ast.Inspect(sh.Body, func(n ast.Node) bool {
		switch v := n.(type) {
		case *ast.AssignStmt:
			if len(v.Rhs) == 1 && len(v.Lhs) >= 1 {
				if c, ok := v.Rhs[0].(*ast.CallExpr); ok {
					if sel, ok := c.Fun.(*ast.SelectorExpr); ok && sel.Sel.Name == "Lookup" {
						if id, ok := sel.X.(*ast.Ident); ok && id.Name == recv {
							if l, ok := v.Lhs[0].(*ast.Ident); ok {
								ren[l.Name] = "target"
							}
						}
					}
				}
			}
		case *ast.CallExpr:
			if sel, ok := v.Fun.(*ast.SelectorExpr); ok && sel.Sel.Name == "ServeHTTP" && len(v.Args) == 2 {
				if id, ok := sel.X.(*ast.Ident); ok {
					if a, ok := v.Args[1].(*ast.Ident); ok && a.Name == reqName && id.Name != recv {
						hName = id.Name
					}
				}
			}
		}
		return true
	})
	var handlerArgs []string
	for _, c := range ctorCalls(sh.Body) {
		if trParam >= 0 && trParam < len(c.Args) {
			if id, ok := c.Args[trParam].(*ast.Ident); ok && trName == "" {
				trName = id.Name
			}
		}
	}
	if trName != "" {
		ren[trName] = "tr"
	}
	if hName != "" {
		ren[hName] = "h"
	}
	for _, c := range ctorCalls(sh.Body) {
		if trParam >= 0 && trParam < len(c.Args) {
			handlerArgs = append(handlerArgs, x.RenameLocals(c.Args[trParam], ren))
		} else {
			handlerArgs = append(handlerArgs, "?")
		}
	}
	// unexported constructors of the package are numbered in order of first appearance
	localNo := map[string]int{}
	calleeRole := func(c *ast.CallExpr) string {
		switch f := c.Fun.(type) {
		case *ast.Ident:
			if f.Name == ctor.Name.Name {
				return "reverseProxy"
			}
			if !ast.IsExported(f.Name) && x.anyFuncDecl("proxy", f.Name) != nil {
				if _, ok := localNo[f.Name]; !ok {
					localNo[f.Name] = len(localNo) + 1
				}
				return fmt.Sprintf("local#%d", localNo[f.Name])
			}
			return f.Name
		}
		return x.src(c.Fun)
	}
	var trSources, handlerAssigns, ctxDerivs, rebinds, serveArgs, selection []string
	seenSrc := map[string]bool{}
	ctxFuncs := map[string]bool{"context.WithTimeout": true, "context.WithDeadline": true, "context.WithCancel": true,
		"context.WithTimeoutCause": true, "context.WithDeadlineCause": true, "context.WithCancelCause": true,
		"context.WithoutCancel": true, "context.WithValue": true, "context.Background": true, "context.TODO": true}
	// a selection helper (`tr := p.pick(t)`): its return expressions are the sources, its parameters take the
	// names of the arguments
	sourcesOf := func(rhs ast.Expr) []string {
		if c, ok := rhs.(*ast.CallExpr); ok {
			name := ""
			switch f := c.Fun.(type) {
			case *ast.Ident:
				name = f.Name
			case *ast.SelectorExpr:
				if id, ok := f.X.(*ast.Ident); ok && id.Name == recv {
					name = f.Sel.Name
				}
			}
			if name != "" && !ast.IsExported(name) {
				if callee := x.anyFuncDecl("proxy", name); callee != nil {
					cr, cp, _ := x.LocalNames(callee)
					cren := map[string]string{}
					if cr != "" {
						cren[cr] = "recv"
					}
					for i, p := range cp {
						if i < len(c.Args) {
							cren[p] = x.RenameLocals(c.Args[i], ren)
						}
					}
					var out []string
					ast.Inspect(callee.Body, func(n ast.Node) bool {
						if _, isLit := n.(*ast.FuncLit); isLit {
							return false
						}
						if r, ok := n.(*ast.ReturnStmt); ok && len(r.Results) == 1 {
							out = append(out, x.RenameLocals(r.Results[0], cren))
						}
						return true
					})
					return out
				}
			}
		}
		return []string{x.RenameLocals(rhs, ren)}
	}
	scan := func(fn string, body ast.Node, full bool) {
		ast.Inspect(body, func(n ast.Node) bool {
			switch v := n.(type) {
			case *ast.AssignStmt:
				if !full {
					return true
				}
				for i, l := range v.Lhs {
					id, ok := l.(*ast.Ident)
					if !ok {
						continue
					}
					var rhs ast.Expr
					switch {
					case i < len(v.Rhs):
						rhs = v.Rhs[i]
					case len(v.Rhs) == 1:
						rhs = v.Rhs[0]
					default:
						continue
					}
					switch id.Name {
					case trName:
						for _, s := range sourcesOf(rhs) {
							if !seenSrc[s] {
								seenSrc[s] = true
								trSources = append(trSources, s)
							}
						}
					case hName:
						if c, ok := rhs.(*ast.CallExpr); ok {
							handlerAssigns = append(handlerAssigns, calleeRole(c))
						} else {
							handlerAssigns = append(handlerAssigns, "expr:"+x.RenameLocals(rhs, ren))
						}
					case reqName:
						rebinds = append(rebinds, x.RenameLocals(v, ren))
					}
				}
			case *ast.CallExpr:
				fs := x.src(v.Fun)
				if ctxFuncs[fs] {
					ctxDerivs = append(ctxDerivs, fn+": "+fs)
				}
				if sel, ok := v.Fun.(*ast.SelectorExpr); ok {
					switch sel.Sel.Name {
					case "WithContext":
						ctxDerivs = append(ctxDerivs, fn+": ."+sel.Sel.Name)
					case "SetReadDeadline", "SetWriteDeadline", "SetDeadline":
						// in helpers these act on the raw connections of the websocket tunnel, not on the request
						if fn != "helper" {
							ctxDerivs = append(ctxDerivs, fn+": ."+sel.Sel.Name)
						}
					}
					if full && sel.Sel.Name == "ServeHTTP" && len(v.Args) == 2 {
						if id, ok := sel.X.(*ast.Ident); ok && id.Name == hName {
							serveArgs = append(serveArgs, x.RenameLocals(v.Args[1], ren))
						}
					}
				}
				if fs == "http.TimeoutHandler" || fs == "time.AfterFunc" {
					ctxDerivs = append(ctxDerivs, fn+": "+fs)
				}
			}
			return true
		})
	}
	// ServeHTTP with helpers followed (extract/inline helper), the reverse-proxy constructor, the error handler
	scan("ServeHTTP", sh.Body, true)
	seenHelper := map[*ast.FuncDecl]bool{sh: true}
	x.WalkInlined("proxy", sh, func(n ast.Node) bool {
		if c, ok := n.(*ast.CallExpr); ok {
			name := ""
			switch f := c.Fun.(type) {
			case *ast.Ident:
				name = f.Name
			case *ast.SelectorExpr:
				name = f.Sel.Name
			}
			if name != "" && !ast.IsExported(name) {
				if callee := x.anyFuncDecl("proxy", name); callee != nil && !seenHelper[callee] {
					seenHelper[callee] = true
					scan("helper", callee.Body, false)
				}
			}
		}
		return true
	})
	_, _, _, hb, _ := c19ReverseProxy(x)
	if hb != nil {
		scan("errorHandler", hb, false)
	}
	// the selection statements, for the record (not pinned: every candidate carries the configuration)
	for i, st := range sh.Body.List {
		as, ok := st.(*ast.AssignStmt)
		if !ok || as.Tok != token.DEFINE || len(as.Lhs) != 1 || x.src(as.Lhs[0]) != trName {
			continue
		}
		selection = append(selection, x.RenameLocals(as, ren))
		if i+1 < len(sh.Body.List) {
			if is, ok := sh.Body.List[i+1].(*ast.IfStmt); ok {
				prefix := "if "
				for is != nil {
					selection = append(selection, prefix+x.RenameLocals(is.Cond, ren))
					for _, b := range is.Body.List {
						selection = append(selection, x.RenameLocals(b, ren))
					}
					switch e := is.Else.(type) {
					case *ast.IfStmt:
						is, prefix = e, "else if "
					default:
						is = nil
					}
				}
			}
		}
		break
	}
	sort.Strings(trSources)
	// ctxDerivs may list a site twice (ServeHTTP body and helper scan): make it a set
	sort.Strings(ctxDerivs)
	var ctxSet []string
	for i, s := range ctxDerivs {
		if i == 0 || s != ctxDerivs[i-1] {
			ctxSet = append(ctxSet, s)
		}
	}
	x.defStrList("serveHTTPTransportSources", trSources)
	x.defStrList("serveHTTPHandlerTransportArgs", handlerArgs)
	x.defStrList("serveHTTPHandlerAssignments", handlerAssigns)
	x.defStrList("serveHTTPContextDerivations", ctxSet)
	x.defStrList("serveHTTPRequestRebinds", rebinds)
	x.defStrList("serveHTTPServeArgs", serveArgs)
	x.defStrList("transportSelection", selection)
	targetFound := false
	for _, v := range ren {
		if v == "target" {
			targetFound = true
		}
	}
	x.defBool("serveHTTPRolesFound", trName != "" && hName != "" && targetFound)
}

// c19Writer: what ServeHTTP hands the handler as its http.ResponseWriter, and what that writer's WriteHeader
// does with the calls it gets. Roles: the writer is the first argument of the `<h>.ServeHTTP(_, req)` call; if
// it is a local defined as `&T{f: w}` (T a type of package proxy, w ServeHTTP's first parameter), T's
// WriteHeader is looked at: "every-call-passed-through" when a call `<recv>.f.WriteHeader(<its parameter>)` is
// a top-level statement of the method and nothing before it can leave the method or change the code: the
// statements in front of it (also inside if/switch bodies) contain no return / goto / defer / go / panic / Fatal /
// Exit, no loop, and no store into the parameter. (Calls of helpers in front of it — e.g. putting headers back
// before a final status — are not followed; the streams run the method.)
func c19Writer(x *X) {
	verdict := "not-found"
	defer func() { x.defStr("serveHTTPWriterWriteHeader", verdict) }()
	sh := x.funcDecl("proxy", "HTTPProxy", "ServeHTTP")
	if sh == nil || sh.Body == nil {
		return
	}
	recv, params, _ := x.LocalNames(sh)
	if len(params) != 2 {
		return
	}
	wName, reqName := params[0], params[1]
	var warg ast.Expr
	ast.Inspect(sh.Body, func(n ast.Node) bool {
		if c, ok := n.(*ast.CallExpr); ok {
			if sel, ok := c.Fun.(*ast.SelectorExpr); ok && sel.Sel.Name == "ServeHTTP" && len(c.Args) == 2 {
				if id, ok := sel.X.(*ast.Ident); ok && id.Name != recv {
					if a, ok := c.Args[1].(*ast.Ident); ok && a.Name == reqName {
						warg = c.Args[0]
					}
				}
			}
		}
		return true
	})
	if warg == nil {
		return
	}
	id, ok := warg.(*ast.Ident)
	if !ok {
		verdict = "writer-is-an-expression: " + x.src(warg)
		return
	}
	if id.Name == wName {
		verdict = "every-call-passed-through" // the server's own writer
		return
	}
	// the defining expression of the local
	var def ast.Expr
	ndefs := 0
	ast.Inspect(sh.Body, func(n ast.Node) bool {
		if as, ok := n.(*ast.AssignStmt); ok {
			for i, l := range as.Lhs {
				if li, ok := l.(*ast.Ident); ok && li.Name == id.Name && i < len(as.Rhs) {
					def = as.Rhs[i]
					ndefs++
				}
			}
		}
		return true
	})
	if def == nil || ndefs != 1 {
		verdict = "writer-local-not-defined-once"
		return
	}
	lit, ok := c19StripAddr(def).(*ast.CompositeLit)
	if !ok {
		verdict = "writer-not-a-literal: " + x.src(def)
		return
	}
	tid, ok := lit.Type.(*ast.Ident)
	if !ok {
		verdict = "writer-type-not-local: " + x.src(lit.Type)
		return
	}
	field := ""
	for _, el := range lit.Elts {
		if kv, ok := el.(*ast.KeyValueExpr); ok {
			if v, ok := kv.Value.(*ast.Ident); ok && v.Name == wName {
				field = x.src(kv.Key)
			}
		}
	}
	if field == "" {
		verdict = "writer-does-not-wrap-w"
		return
	}
	var m *ast.FuncDecl
	for _, f := range x.files("proxy") {
		for _, d := range f.Decls {
			fd, ok := d.(*ast.FuncDecl)
			if !ok || fd.Name.Name != "WriteHeader" || fd.Recv == nil || len(fd.Recv.List) != 1 {
				continue
			}
			t := fd.Recv.List[0].Type
			if st, ok := t.(*ast.StarExpr); ok {
				t = st.X
			}
			if ti, ok := t.(*ast.Ident); ok && ti.Name == tid.Name {
				m = fd
			}
		}
	}
	if m == nil || m.Body == nil {
		verdict = "writer-has-no-WriteHeader" // would be promoted from an embedded writer: not the shape of the source
		return
	}
	mrecv, mparams, _ := x.LocalNames(m)
	if mrecv == "" || len(mparams) != 1 {
		verdict = "WriteHeader-unexpected-signature"
		return
	}
	verdict = "no-pass-through-call"
	// what a statement in front of the pass-through call could do to it: leave the method, or change the code
	hazard := func(n ast.Node) string {
		h := ""
		ast.Inspect(n, func(m ast.Node) bool {
			if h != "" {
				return false
			}
			switch v := m.(type) {
			case *ast.FuncLit:
				return false
			case *ast.ReturnStmt:
				h = "return"
			case *ast.BranchStmt:
				if v.Tok == token.GOTO {
					h = "goto"
				}
			case *ast.DeferStmt, *ast.GoStmt:
				h = "defer-or-go"
			case *ast.CallExpr:
				if fn := x.src(v.Fun); fn == "panic" || strings.HasSuffix(fn, ".Fatal") || strings.HasSuffix(fn, ".Fatalf") || strings.HasSuffix(fn, ".Exit") || strings.HasSuffix(fn, ".Goexit") {
					h = fn
				}
			case *ast.AssignStmt:
				for _, l := range v.Lhs {
					if x.src(l) == mparams[0] {
						h = "status-rewritten"
					}
				}
			case *ast.IncDecStmt:
				if x.src(v.X) == mparams[0] {
					h = "status-rewritten"
				}
			case *ast.UnaryExpr:
				if v.Op == token.AND && x.src(v.X) == mparams[0] {
					h = "status-address-taken"
				}
			}
			return true
		})
		return h
	}
	for _, st := range m.Body.List {
		if es, ok := st.(*ast.ExprStmt); ok {
			if c, ok := es.X.(*ast.CallExpr); ok {
				if x.src(c.Fun) == mrecv+"."+field+".WriteHeader" && len(c.Args) == 1 && x.src(c.Args[0]) == mparams[0] {
					verdict = "every-call-passed-through"
					return
				}
			}
		}
		if _, ok := st.(*ast.ForStmt); ok {
			verdict = "loop-before-pass-through"
			return
		}
		if _, ok := st.(*ast.RangeStmt); ok {
			verdict = "loop-before-pass-through"
			return
		}
		if h := hazard(st); h != "" {
			verdict = "before-pass-through: " + h
			return
		}
	}
}

var c19FiveFields = map[string]bool{"DialTimeout": true, "ResponseHeaderTimeout": true, "KeepAliveTimeout": true, "IdleConnTimeout": true, "MaxConn": true}

// c19ConstInt evaluates an integer constant expression made of literals, time.<unit> and * + - ( ).
func c19ConstInt(x *X, e ast.Expr) (int64, bool) {
	switch v := e.(type) {
	case *ast.ParenExpr:
		return c19ConstInt(x, v.X)
	case *ast.BasicLit:
		if v.Kind == token.INT {
			n, err := strconv.ParseInt(strings.ReplaceAll(v.Value, "_", ""), 0, 64)
			return n, err == nil
		}
	case *ast.SelectorExpr:
		if id, ok := v.X.(*ast.Ident); ok && id.Name == "time" {
			switch v.Sel.Name {
			case "Nanosecond":
				return 1, true
			case "Microsecond":
				return 1000, true
			case "Millisecond":
				return 1000000, true
			case "Second":
				return 1000000000, true
			case "Minute":
				return 60000000000, true
			case "Hour":
				return 3600000000000, true
			}
		}
	case *ast.UnaryExpr:
		if n, ok := c19ConstInt(x, v.X); ok {
			switch v.Op {
			case token.SUB:
				return -n, true
			case token.ADD:
				return n, true
			}
		}
	case *ast.BinaryExpr:
		a, ok1 := c19ConstInt(x, v.X)
		b, ok2 := c19ConstInt(x, v.Y)
		if ok1 && ok2 {
			switch v.Op {
			case token.MUL:
				return a * b, true
			case token.ADD:
				return a + b, true
			case token.SUB:
				return a - b, true
			}
		}
	}
	return 0, false
}

// c19Load: what package config does to the five transport options apart from registering them as flags.
//
//	defaultFive           the values of the five fields in `defaultConfig`'s Proxy literal (absent = 0)
//	configWritesToTheFive every statement of package config and package main that stores into
//	                      `<x>.Proxy.<one of the five>` (assignment, op-assignment, ++/--) or takes its address
//	                      anywhere but as the first argument of a flag registration `<f>.<Kind>Var(&…, "<name>", …)`
//	fiveFlagNames         the flag names the five fields are registered under
func c19Load(x *X) {
	defaults := map[string]int64{}
	unevaluated := []string{}
	if e := x.valueSpec("config", "defaultConfig"); e != nil {
		if lit, ok := c19StripAddr(e).(*ast.CompositeLit); ok {
			for _, el := range lit.Elts {
				kv, ok := el.(*ast.KeyValueExpr)
				if !ok || x.src(kv.Key) != "Proxy" {
					continue
				}
				pl, ok := kv.Value.(*ast.CompositeLit)
				if !ok {
					unevaluated = append(unevaluated, "Proxy is not a literal")
					continue
				}
				for _, pel := range pl.Elts {
					pkv, ok := pel.(*ast.KeyValueExpr)
					if !ok {
						unevaluated = append(unevaluated, "positional element")
						continue
					}
					name := x.src(pkv.Key)
					if !c19FiveFields[name] {
						continue
					}
					if n, ok := c19ConstInt(x, pkv.Value); ok {
						defaults[name] = n
					} else {
						unevaluated = append(unevaluated, name+" = "+x.src(pkv.Value))
					}
				}
			}
		} else {
			unevaluated = append(unevaluated, "defaultConfig is not a literal")
		}
	}
	var rows []string
	for _, n := range []string{"DialTimeout", "ResponseHeaderTimeout", "KeepAliveTimeout", "IdleConnTimeout", "MaxConn"} {
		rows = append(rows, fmt.Sprintf("(%s, %d)", leanStr(n), defaults[n]))
	}
	x.defRaw("def defaultFive : List (String × Int) := [" + strings.Join(rows, ", ") + "]")
	x.defStrList("defaultFiveUnevaluated", unevaluated)

	isFive := func(e ast.Expr) (string, bool) {
		e = c19StripParen(e)
		if _, f, ok := c19CfgField(e); ok && c19FiveFields[f] {
			return f, true
		}
		return "", false
	}
	var writes, flagNames []string
	for _, dir := range []string{"config", "."} {
		label := dir
		if dir == "." {
			label = "main"
		}
		for _, f := range x.files(dir) {
			registered := map[ast.Expr]bool{}
			ast.Inspect(f, func(n ast.Node) bool {
				c, ok := n.(*ast.CallExpr)
				if !ok || len(c.Args) < 2 {
					return true
				}
				sel, ok := c.Fun.(*ast.SelectorExpr)
				if !ok || !strings.HasSuffix(sel.Sel.Name, "Var") {
					return true
				}
				u, ok := c.Args[0].(*ast.UnaryExpr)
				if !ok || u.Op != token.AND {
					return true
				}
				if fld, ok := isFive(u.X); ok {
					if name, ok := x.strLit(c.Args[1]); ok {
						registered[u] = true
						flagNames = append(flagNames, name+" -> "+sel.Sel.Name+" Proxy."+fld)
					}
				}
				return true
			})
			ast.Inspect(f, func(n ast.Node) bool {
				switch v := n.(type) {
				case *ast.AssignStmt:
					for _, l := range v.Lhs {
						if fld, ok := isFive(l); ok {
							writes = append(writes, label+": "+fld+" "+v.Tok.String()+" "+strings.Join(func() []string {
								var r []string
								for _, e := range v.Rhs {
									r = append(r, x.src(e))
								}
								return r
							}(), ", "))
						}
					}
				case *ast.IncDecStmt:
					if fld, ok := isFive(v.X); ok {
						writes = append(writes, label+": "+fld+v.Tok.String())
					}
				case *ast.UnaryExpr:
					if v.Op == token.AND && !registered[v] {
						if fld, ok := isFive(v.X); ok {
							writes = append(writes, label+": &"+fld+" taken")
						}
					}
				}
				return true
			})
		}
	}
	sort.Strings(writes)
	sort.Strings(flagNames)
	x.defStrList("configWritesToTheFive", writes)
	x.defStrList("fiveFlagNames", flagNames)
}
