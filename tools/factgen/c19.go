package main

import (
	"fmt"
	"go/ast"
	"go/token"
	"os"
	"path/filepath"
	"sort"
	"strconv"
	"strings"
)

// C19 facts:
//   - transport.SetConfig: what its single assignment stores where. The left-hand side is resolved with the
//     scope information go/parser records (ident.Obj): a parameter with the same name as the package-level
//     variable shadows it, and then `cfg = cfg` stores the parameter into itself (D23).
//   - transport.NewTransport: which option of the package-level configuration feeds which field of the
//     http.Transport / net.Dialer literal.
//   - who calls transport.NewTransport in the whole repository, and the order of main: SetConfig is an
//     unconditional top-level statement of main, and nothing before it can reach a NewTransport call.
//   - proxy.httpProxyErrorHandler: the decision table from error class to status, and that it is the
//     ErrorHandler of the ReverseProxy.
func init() {
	register("C19", func(x *X) error {
		c19SetConfig(x)
		c19NewTransport(x)
		c19Order(x)
		c19ErrorHandler(x)
		c19ServeHTTP(x)
		return nil
	})
}

const c19Module = "github.com/fabiolb/fabio"

// c19Binding classifies what an identifier inside a function of package `dir` refers to:
// "param" (a parameter of fd), "packageVar" (a package-level var of dir), "local", or "unknown".
func c19Binding(x *X, dir string, fd *ast.FuncDecl, id *ast.Ident) string {
	if id.Obj != nil {
		switch d := id.Obj.Decl.(type) {
		case *ast.Field:
			if fd.Type.Params != nil {
				for _, f := range fd.Type.Params.List {
					if f == d {
						return "param"
					}
				}
			}
			return "local"
		case *ast.ValueSpec:
			if c19IsPackageLevel(x, dir, d) {
				return "packageVar"
			}
			return "local"
		case *ast.AssignStmt:
			return "local"
		}
		return "unknown"
	}
	// not resolved inside the file: a package-level variable declared in another file of the package
	for _, f := range x.files(dir) {
		for _, decl := range f.Decls {
			if gd, ok := decl.(*ast.GenDecl); ok && gd.Tok == token.VAR {
				for _, s := range gd.Specs {
					for _, n := range s.(*ast.ValueSpec).Names {
						if n.Name == id.Name {
							return "packageVar"
						}
					}
				}
			}
		}
	}
	return "unknown"
}

func c19IsPackageLevel(x *X, dir string, vs *ast.ValueSpec) bool {
	for _, f := range x.files(dir) {
		for _, decl := range f.Decls {
			if gd, ok := decl.(*ast.GenDecl); ok {
				for _, s := range gd.Specs {
					if s == ast.Spec(vs) {
						return true
					}
				}
			}
		}
	}
	return false
}

func c19SetConfig(x *X) {
	fd := x.funcDecl("transport", "", "SetConfig")
	if fd == nil || fd.Body == nil {
		return
	}
	nparams := 0
	paramType := ""
	if fd.Type.Params != nil {
		for _, f := range fd.Type.Params.List {
			nparams += len(f.Names)
			paramType = x.src(f.Type)
		}
	}
	x.defNat("setConfigParams", uint64(nparams))
	x.defStr("setConfigParamType", paramType)
	// every statement of the body; the interesting program is a single assignment `ident = ident`
	var stores []string
	lhs, rhs := "none", "none"
	lhsName := ""
	for _, st := range fd.Body.List {
		as, ok := st.(*ast.AssignStmt)
		if !ok {
			if _, isRet := st.(*ast.ReturnStmt); isRet {
				continue
			}
			stores = append(stores, "other:"+x.src(st))
			continue
		}
		if len(as.Lhs) != 1 || len(as.Rhs) != 1 || as.Tok != token.ASSIGN {
			stores = append(stores, "other:"+x.src(st))
			continue
		}
		l, lok := as.Lhs[0].(*ast.Ident)
		r, rok := as.Rhs[0].(*ast.Ident)
		if !lok || !rok {
			stores = append(stores, "other:"+x.src(st))
			continue
		}
		lhs, rhs = c19Binding(x, "transport", fd, l), c19Binding(x, "transport", fd, r)
		lhsName = l.Name
		stores = append(stores, lhs+"<-"+rhs)
	}
	x.defStrList("setConfigStores", stores)
	x.defStr("setConfigLhs", lhs)
	x.defStr("setConfigRhs", rhs)
	x.defStr("setConfigLhsName", lhsName)
}

// c19CfgField matches `<root>.Proxy.<Field>` and returns root ident and Field.
func c19CfgField(e ast.Expr) (*ast.Ident, string, bool) {
	s1, ok := e.(*ast.SelectorExpr)
	if !ok {
		return nil, "", false
	}
	s2, ok := s1.X.(*ast.SelectorExpr)
	if !ok || s2.Sel.Name != "Proxy" {
		return nil, "", false
	}
	root, ok := s2.X.(*ast.Ident)
	if !ok {
		return nil, "", false
	}
	return root, s1.Sel.Name, true
}

func c19NewTransport(x *X) {
	fd := x.funcDecl("transport", "", "NewTransport")
	if fd == nil || fd.Body == nil {
		return
	}
	// the composite literal that is returned
	var lit *ast.CompositeLit
	for _, st := range fd.Body.List {
		if rs, ok := st.(*ast.ReturnStmt); ok && len(rs.Results) == 1 {
			e := rs.Results[0]
			if u, ok := e.(*ast.UnaryExpr); ok && u.Op == token.AND {
				e = u.X
			}
			if cl, ok := e.(*ast.CompositeLit); ok && x.src(cl.Type) == "http.Transport" {
				lit = cl
			}
		}
	}
	if lit == nil {
		x.fail("transport.NewTransport no longer returns an &http.Transport{…} literal")
		return
	}
	if len(fd.Body.List) != 1 {
		x.fail("transport.NewTransport has more than the single return statement (fields could be changed after the literal)")
	}
	type kv struct{ k, v string }
	var fields []kv
	cellName := ""
	var walk func(prefix string, cl *ast.CompositeLit)
	walk = func(prefix string, cl *ast.CompositeLit) {
		for _, el := range cl.Elts {
			p, ok := el.(*ast.KeyValueExpr)
			if !ok {
				x.fail("NewTransport: positional element %s", x.src(el))
				continue
			}
			key := prefix + x.src(p.Key)
			if root, f, ok := c19CfgField(p.Value); ok {
				b := c19Binding(x, "transport", fd, root)
				if b != "packageVar" {
					x.fail("NewTransport: %s reads %s which is %s, not the package-level configuration", key, x.src(p.Value), b)
				}
				if cellName == "" {
					cellName = root.Name
				} else if cellName != root.Name {
					x.fail("NewTransport reads two different configuration variables: %s and %s", cellName, root.Name)
				}
				fields = append(fields, kv{key, "Proxy." + f})
				continue
			}
			// (&net.Dialer{…}).Dial
			if sel, ok := p.Value.(*ast.SelectorExpr); ok {
				inner := sel.X
				if pe, ok := inner.(*ast.ParenExpr); ok {
					inner = pe.X
				}
				if u, ok := inner.(*ast.UnaryExpr); ok && u.Op == token.AND {
					inner = u.X
				}
				if dl, ok := inner.(*ast.CompositeLit); ok {
					walk(key+"="+x.src(dl.Type)+"."+sel.Sel.Name+":", dl)
					continue
				}
			}
			if id, ok := p.Value.(*ast.Ident); ok && c19Binding(x, "transport", fd, id) == "param" {
				fields = append(fields, kv{key, "$param"})
				continue
			}
			fields = append(fields, kv{key, "expr:" + x.src(p.Value)})
		}
	}
	walk("", lit)
	sort.Slice(fields, func(i, j int) bool { return fields[i].k < fields[j].k })
	var b strings.Builder
	b.WriteString("def transportFields : List (String × String) := [")
	for i, f := range fields {
		if i > 0 {
			b.WriteString(", ")
		}
		fmt.Fprintf(&b, "(%s, %s)", leanStr(f.k), leanStr(f.v))
	}
	b.WriteString("]")
	x.defRaw(b.String())
	x.defStr("cellVarName", cellName)
	// the cell's initial value: &config.Config{} (every option zero)
	if e := x.valueSpec("transport", cellName); e != nil {
		x.defStr("cellInit", x.src(e))
	}
}

// c19RepoDirs lists the package directories of the repository (no vendor, no hidden, no testdata).
func c19RepoDirs(x *X) []string {
	var dirs []string
	filepath.Walk(x.repo, func(p string, info os.FileInfo, err error) error {
		if err != nil || !info.IsDir() {
			return nil
		}
		n := info.Name()
		if p != x.repo && (strings.HasPrefix(n, ".") || strings.HasPrefix(n, "_") || n == "vendor" || n == "testdata" || n == "node_modules") {
			return filepath.SkipDir
		}
		ents, _ := os.ReadDir(p)
		for _, e := range ents {
			if !e.IsDir() && strings.HasSuffix(e.Name(), ".go") && !strings.HasSuffix(e.Name(), "_test.go") {
				rel, _ := filepath.Rel(x.repo, p)
				dirs = append(dirs, rel)
				break
			}
		}
		return nil
	})
	sort.Strings(dirs)
	return dirs
}

// c19ImportName returns the local name under which file f imports path ("" if it does not).
func c19ImportName(f *ast.File, path string) string {
	for _, im := range f.Imports {
		p, _ := strconv.Unquote(im.Path.Value)
		if p != path {
			continue
		}
		if im.Name != nil {
			return im.Name.Name
		}
		return path[strings.LastIndex(path, "/")+1:]
	}
	return ""
}

func c19FuncName(fd *ast.FuncDecl) string {
	if fd.Recv != nil && len(fd.Recv.List) == 1 {
		t := fd.Recv.List[0].Type
		if st, ok := t.(*ast.StarExpr); ok {
			t = st.X
		}
		if id, ok := t.(*ast.Ident); ok {
			return id.Name + "." + fd.Name.Name
		}
	}
	return fd.Name.Name
}

func c19Order(x *X) {
	dirs := c19RepoDirs(x)
	// 1. every call of transport.NewTransport / transport.SetConfig in the repository, by enclosing function
	var newCallers, setCallers []string
	type argRow struct{ caller, dest, arg string }
	var argRows []argRow
	imports := map[string][]string{} // dir -> internal package dirs it imports
	for _, dir := range dirs {
		pkgLabel := dir
		if dir == "." {
			pkgLabel = "main"
		}
		seenImp := map[string]bool{}
		for _, f := range x.files(dir) {
			for _, im := range f.Imports {
				p, _ := strconv.Unquote(im.Path.Value)
				if strings.HasPrefix(p, c19Module+"/") {
					d := strings.TrimPrefix(p, c19Module+"/")
					if !seenImp[d] {
						seenImp[d] = true
						imports[dir] = append(imports[dir], d)
					}
				}
			}
			tn := c19ImportName(f, c19Module+"/transport")
			if tn == "" && dir != "transport" {
				continue
			}
			isNew := func(e ast.Expr) (*ast.CallExpr, bool) {
				c, ok := e.(*ast.CallExpr)
				if !ok {
					return nil, false
				}
				if sel, ok := c.Fun.(*ast.SelectorExpr); ok && tn != "" {
					if id, ok := sel.X.(*ast.Ident); ok && id.Name == tn && id.Obj == nil && sel.Sel.Name == "NewTransport" {
						return c, true
					}
				}
				return nil, false
			}
			note := func(where string, n ast.Node) {
				ast.Inspect(n, func(n ast.Node) bool {
					switch v := n.(type) {
					case *ast.KeyValueExpr:
						if c, ok := isNew(v.Value); ok && len(c.Args) == 1 {
							argRows = append(argRows, argRow{pkgLabel + "." + where, x.src(v.Key), x.src(c.Args[0])})
						}
					case *ast.AssignStmt:
						for i, r := range v.Rhs {
							if c, ok := isNew(r); ok && len(c.Args) == 1 && i < len(v.Lhs) {
								argRows = append(argRows, argRow{pkgLabel + "." + where, x.src(v.Lhs[i]), x.src(c.Args[0])})
							}
						}
					}
					c, ok := n.(*ast.CallExpr)
					if !ok {
						return true
					}
					name := ""
					if sel, ok := c.Fun.(*ast.SelectorExpr); ok && tn != "" {
						if id, ok := sel.X.(*ast.Ident); ok && id.Name == tn && id.Obj == nil {
							name = sel.Sel.Name
						}
					} else if id, ok := c.Fun.(*ast.Ident); ok && dir == "transport" {
						name = id.Name
					}
					switch name {
					case "NewTransport":
						newCallers = append(newCallers, pkgLabel+"."+where)
					case "SetConfig":
						setCallers = append(setCallers, pkgLabel+"."+where)
					}
					return true
				})
			}
			for _, d := range f.Decls {
				switch v := d.(type) {
				case *ast.FuncDecl:
					if v.Body != nil {
						note(c19FuncName(v), v.Body)
					}
				case *ast.GenDecl:
					note("<package-level initialiser>", v)
				}
			}
		}
	}
	sort.Strings(newCallers)
	sort.Strings(setCallers)
	x.defStrList("newTransportCallers", newCallers)
	x.defStrList("setConfigCallers", setCallers)
	sort.Slice(argRows, func(i, j int) bool {
		if argRows[i].caller != argRows[j].caller {
			return argRows[i].caller < argRows[j].caller
		}
		return argRows[i].dest < argRows[j].dest
	})
	var ab strings.Builder
	ab.WriteString("def newTransportArgs : List (String × String × String) := [")
	for i, r := range argRows {
		if i > 0 {
			ab.WriteString(", ")
		}
		fmt.Fprintf(&ab, "(%s, %s, %s)", leanStr(r.caller), leanStr(r.dest), leanStr(r.arg))
	}
	ab.WriteString("]")
	x.defRaw(ab.String())

	// 2. internal packages from which fabio/transport is reachable through imports (reflexive, transitive)
	reach := map[string]bool{"transport": true}
	for changed := true; changed; {
		changed = false
		for d, ims := range imports {
			if reach[d] {
				continue
			}
			for _, i := range ims {
				if reach[i] {
					reach[d] = true
					changed = true
					break
				}
			}
		}
	}

	// 3. main: the statement that calls SetConfig, what runs before it
	fd := x.funcDecl(".", "", "main")
	if fd == nil || fd.Body == nil {
		return
	}
	var mainFile *ast.File
	for _, f := range x.files(".") {
		for _, d := range f.Decls {
			if d == ast.Decl(fd) {
				mainFile = f
			}
		}
	}
	tn := c19ImportName(mainFile, c19Module+"/transport")
	isSet := func(c *ast.CallExpr) bool {
		sel, ok := c.Fun.(*ast.SelectorExpr)
		if !ok || sel.Sel.Name != "SetConfig" {
			return false
		}
		id, ok := sel.X.(*ast.Ident)
		return ok && tn != "" && id.Name == tn && id.Obj == nil
	}
	idx := -1
	kind := "absent"
	arg := ""
	for i, st := range fd.Body.List {
		found := false
		ast.Inspect(st, func(n ast.Node) bool {
			if c, ok := n.(*ast.CallExpr); ok && isSet(c) {
				found = true
			}
			return true
		})
		if !found {
			continue
		}
		if idx >= 0 {
			kind = "more-than-once"
			break
		}
		idx = i
		kind = "nested:" + x.src(st)
		if es, ok := st.(*ast.ExprStmt); ok {
			if c, ok := es.X.(*ast.CallExpr); ok && isSet(c) && len(c.Args) == 1 {
				kind = "top-level-unconditional"
				arg = x.src(c.Args[0])
			}
		}
	}
	x.defStr("mainSetConfigStmt", kind)
	x.defNat("mainSetConfigIndex", uint64(max(idx, 0)))
	x.defStr("mainSetConfigArg", arg)

	// the configuration handed to SetConfig is what config.Load returned
	loadVar := ""
	mainFuncs := map[string]*ast.FuncDecl{}
	for _, f := range x.files(".") {
		for _, d := range f.Decls {
			if v, ok := d.(*ast.FuncDecl); ok && v.Recv == nil {
				mainFuncs[v.Name.Name] = v
			}
		}
	}
	var callsBefore, pkgsBefore, localsBefore []string
	earlyExit := false // a return / exit before SetConfig is fine (nothing is built on that path either)
	_ = earlyExit
	seenPkg := map[string]bool{}
	seenLocal := map[string]bool{}
	if idx >= 0 {
		for _, st := range fd.Body.List[:idx] {
			if as, ok := st.(*ast.AssignStmt); ok && len(as.Rhs) == 1 && len(as.Lhs) >= 1 {
				if c, ok := as.Rhs[0].(*ast.CallExpr); ok && x.src(c.Fun) == "config.Load" {
					loadVar = x.src(as.Lhs[0])
				}
			}
			ast.Inspect(st, func(n ast.Node) bool {
				switch v := n.(type) {
				case *ast.CallExpr:
					callsBefore = append(callsBefore, x.src(v.Fun))
				case *ast.SelectorExpr:
					if id, ok := v.X.(*ast.Ident); ok && id.Obj == nil {
						ip := ""
						for _, im := range mainFile.Imports {
							p, _ := strconv.Unquote(im.Path.Value)
							nm := p[strings.LastIndex(p, "/")+1:]
							if im.Name != nil {
								nm = im.Name.Name
							}
							if nm == id.Name {
								ip = p
							}
						}
						if strings.HasPrefix(ip, c19Module+"/") {
							d := strings.TrimPrefix(ip, c19Module+"/")
							if !seenPkg[d] {
								seenPkg[d] = true
								pkgsBefore = append(pkgsBefore, d)
							}
						}
					}
				case *ast.Ident:
					if _, ok := mainFuncs[v.Name]; ok && v.Obj != nil && !seenLocal[v.Name] {
						if _, isFn := v.Obj.Decl.(*ast.FuncDecl); isFn {
							seenLocal[v.Name] = true
							localsBefore = append(localsBefore, v.Name)
						}
					}
				}
				return true
			})
		}
	}
	x.defStr("mainLoadVar", loadVar)
	x.defStrList("mainCallsBeforeSetConfig", callsBefore)
	sort.Strings(pkgsBefore)
	x.defStrList("mainPkgsBeforeSetConfig", pkgsBefore)
	var reaching []string
	for _, p := range pkgsBefore {
		if reach[p] {
			reaching = append(reaching, p)
		}
	}
	// internal packages used before SetConfig from which fabio/transport is reachable: must be empty
	x.defStrList("mainPkgsBeforeSetConfigReachingTransport", reaching)
	// functions of package main referenced before SetConfig (none today); they could reach the builders
	sort.Strings(localsBefore)
	x.defStrList("mainLocalFuncsBeforeSetConfig", localsBefore)
	// package main: no init() and no package-level initialiser may reach transport (they run before main)
	var inits []string
	for _, f := range x.files(".") {
		for _, d := range f.Decls {
			if v, ok := d.(*ast.FuncDecl); ok && v.Recv == nil && v.Name.Name == "init" {
				inits = append(inits, x.fset.Position(v.Pos()).Filename[len(x.repo)+1:])
			}
		}
	}
	sort.Strings(inits)
	x.defStrList("mainInitFuncs", inits)
	// the packages that import fabio/transport directly
	var direct []string
	for d, ims := range imports {
		for _, i := range ims {
			if i == "transport" {
				if d == "." {
					d = "main"
				}
				direct = append(direct, d)
			}
		}
	}
	sort.Strings(direct)
	x.defStrList("transportImporters", direct)
}

var c19HTTPStatus = map[string]uint64{
	"http.StatusInternalServerError": 500,
	"http.StatusBadGateway":          502,
	"http.StatusServiceUnavailable":  503,
	"http.StatusGatewayTimeout":      504,
	"http.StatusOK":                  200,
	"http.StatusRequestTimeout":      408,
}

func c19ErrorHandler(x *X) {
	fd := x.funcDecl("proxy", "", "httpProxyErrorHandler")
	if fd == nil || fd.Body == nil {
		return
	}
	if fd.Type.Params == nil || len(fd.Type.Params.List) != 3 {
		x.fail("httpProxyErrorHandler: unexpected signature")
		return
	}
	status := func(e ast.Expr) (uint64, bool) {
		s := x.src(e)
		if v, ok := c19HTTPStatus[s]; ok {
			return v, true
		}
		if bl, ok := e.(*ast.BasicLit); ok && bl.Kind == token.INT {
			v, err := strconv.ParseUint(bl.Value, 10, 64)
			return v, err == nil
		}
		if id, ok := e.(*ast.Ident); ok {
			if ve := x.valueSpec("proxy", id.Name); ve != nil {
				if bl, ok := ve.(*ast.BasicLit); ok && bl.Kind == token.INT {
					v, err := strconv.ParseUint(bl.Value, 10, 64)
					return v, err == nil
				}
			}
		}
		x.fail("httpProxyErrorHandler: status expression %s not understood", s)
		return 0, false
	}
	// canonical names of the conditions the handler tests
	condName := func(s *ast.IfStmt) string {
		c := x.src(s.Cond)
		if s.Init != nil {
			c = x.src(s.Init) + "; " + c
		}
		switch c {
		case "e, ok := err.(net.Error); ok":
			return "net.Error"
		case "e.Timeout()":
			return "Timeout"
		case "err == io.EOF":
			return "io.EOF"
		case "err == context.Canceled":
			return "context.Canceled"
		}
		return "?" + c
	}
	type row struct {
		path string
		code uint64
	}
	var rows []row
	var statusVar string
	var initCode uint64
	written := ""
	var walk func(path string, b []ast.Stmt)
	var walkIf func(path string, s *ast.IfStmt)
	walkIf = func(path string, s *ast.IfStmt) {
		n := condName(s)
		walk(path+"/"+n, s.Body.List)
		switch e := s.Else.(type) {
		case *ast.BlockStmt:
			walk(path+"/!"+n, e.List)
		case *ast.IfStmt:
			walkIf(path+"/!"+n, e)
		}
	}
	walk = func(path string, b []ast.Stmt) {
		for _, st := range b {
			switch s := st.(type) {
			case *ast.AssignStmt:
				if len(s.Lhs) == 1 && len(s.Rhs) == 1 {
					name := x.src(s.Lhs[0])
					if s.Tok == token.DEFINE && path == "" && statusVar == "" {
						if v, ok := status(s.Rhs[0]); ok {
							statusVar, initCode = name, v
						}
					} else if s.Tok == token.ASSIGN && name == statusVar {
						if v, ok := status(s.Rhs[0]); ok {
							rows = append(rows, row{path, v})
						}
					}
				}
			case *ast.IfStmt:
				if path == "" && written != "" {
					continue // after WriteHeader: logging only
				}
				walkIf(path, s)
			case *ast.ExprStmt:
				if c, ok := s.X.(*ast.CallExpr); ok && strings.HasSuffix(x.src(c.Fun), ".WriteHeader") && len(c.Args) == 1 && path == "" {
					written = x.src(c.Args[0])
				}
			}
		}
	}
	walk("", fd.Body.List)
	x.defNat("errorHandlerDefault", initCode)
	var b strings.Builder
	b.WriteString("def errorHandlerTable : List (String × Nat) := [")
	for i, r := range rows {
		if i > 0 {
			b.WriteString(", ")
		}
		fmt.Fprintf(&b, "(%s, %d)", leanStr(r.path), r.code)
	}
	b.WriteString("]")
	x.defRaw(b.String())
	x.defBool("errorHandlerWritesStatusVar", written != "" && written == statusVar)

	// the handler is the ErrorHandler of the ReverseProxy literal in proxy.newHTTPProxy, and the transport
	// handed in is its Transport
	np := x.funcDecl("proxy", "", "newHTTPProxy")
	installed, trField := "", ""
	if np != nil {
		ast.Inspect(np, func(n ast.Node) bool {
			if cl, ok := n.(*ast.CompositeLit); ok && x.src(cl.Type) == "httputil.ReverseProxy" {
				for _, el := range cl.Elts {
					if kv, ok := el.(*ast.KeyValueExpr); ok {
						switch x.src(kv.Key) {
						case "ErrorHandler":
							installed = x.src(kv.Value)
						case "Transport":
							if id, ok := kv.Value.(*ast.Ident); ok && c19Binding(x, "proxy", np, id) == "param" {
								trField = "$param"
							} else {
								trField = x.src(kv.Value)
							}
						}
					}
				}
			}
			return true
		})
	}
	x.defStr("reverseProxyErrorHandler", installed)
	// the transport selection in HTTPProxy.ServeHTTP: `tr := p.Transport` and the if-chain that follows it
	var sel []string
	if sh := x.funcDecl("proxy", "HTTPProxy", "ServeHTTP"); sh != nil && sh.Body != nil {
		for i, st := range sh.Body.List {
			as, ok := st.(*ast.AssignStmt)
			if !ok || as.Tok != token.DEFINE || len(as.Lhs) != 1 || x.src(as.Lhs[0]) != "tr" {
				continue
			}
			sel = append(sel, x.src(as))
			if i+1 < len(sh.Body.List) {
				if is, ok := sh.Body.List[i+1].(*ast.IfStmt); ok {
					prefix := "if "
					for is != nil {
						sel = append(sel, prefix+x.src(is.Cond))
						for _, b := range is.Body.List {
							sel = append(sel, x.src(b))
						}
						switch e := is.Else.(type) {
						case *ast.IfStmt:
							is, prefix = e, "else if "
						case *ast.BlockStmt:
							sel = append(sel, "else")
							for _, b := range e.List {
								sel = append(sel, x.src(b))
							}
							is = nil
						default:
							is = nil
						}
					}
				}
			}
			// any later plain assignment to tr would change the rule
			for _, later := range sh.Body.List[i+2:] {
				ast.Inspect(later, func(n ast.Node) bool {
					if a, ok := n.(*ast.AssignStmt); ok && a.Tok == token.ASSIGN {
						for _, l := range a.Lhs {
							if x.src(l) == "tr" {
								sel = append(sel, "later: "+x.src(a))
							}
						}
					}
					return true
				})
			}
			break
		}
	}
	if len(sel) == 0 {
		x.fail("proxy.HTTPProxy.ServeHTTP: `tr := …` not found")
	}
	x.defStrList("transportSelection", sel)
	x.defStr("reverseProxyTransport", trField)
}

// c19ServeHTTP: the data flow of the transport and of the request inside HTTPProxy.ServeHTTP.
//   - every construction or copy of an http.Transport (composite literal, .Clone()) in the packages on the
//     request path (proxy, proxy/gzip, route, main): none besides transport.NewTransport's own literal;
//   - the selected-transport variable is only ever assigned p.Transport / t.Transport / p.InsecureTransport and
//     is what both reverse-proxy handlers receive;
//   - the handler variable is only assigned the websocket handler, the reverse proxy and the gzip wrapper;
//   - the request handed to the handler is the request received: no context.With*, no WithContext, no rebinding.
func c19ServeHTTP(x *X) {
	var constructions []string
	for _, dir := range []string{"proxy", "proxy/gzip", "route", "."} {
		label := dir
		if dir == "." {
			label = "main"
		}
		for _, f := range x.files(dir) {
			for _, d := range f.Decls {
				where := "<package level>"
				if fd, ok := d.(*ast.FuncDecl); ok {
					where = c19FuncName(fd)
				}
				ast.Inspect(d, func(n ast.Node) bool {
					switch v := n.(type) {
					case *ast.CompositeLit:
						if v.Type != nil && x.src(v.Type) == "http.Transport" {
							constructions = append(constructions, label+"."+where+": http.Transport literal")
						}
					case *ast.CallExpr:
						if sel, ok := v.Fun.(*ast.SelectorExpr); ok && sel.Sel.Name == "Clone" && len(v.Args) == 0 {
							constructions = append(constructions, label+"."+where+": "+x.src(v))
						}
					}
					return true
				})
			}
		}
	}
	sort.Strings(constructions)
	x.defStrList("transportConstructionsOnRequestPath", constructions)

	sh := x.funcDecl("proxy", "HTTPProxy", "ServeHTTP")
	if sh == nil || sh.Body == nil || sh.Type.Params == nil || len(sh.Type.Params.List) != 2 || len(sh.Type.Params.List[1].Names) != 1 {
		x.fail("proxy.HTTPProxy.ServeHTTP: unexpected shape")
		return
	}
	reqName := sh.Type.Params.List[1].Names[0].Name
	var trSources, handlerArgs, handlerAssigns, ctxDerivs, rebinds, serveArgs []string
	seenSrc := map[string]bool{}
	ctxFuncs := map[string]bool{"context.WithTimeout": true, "context.WithDeadline": true, "context.WithCancel": true,
		"context.WithTimeoutCause": true, "context.WithDeadlineCause": true, "context.WithCancelCause": true,
		"context.WithoutCancel": true, "context.WithValue": true, "context.Background": true, "context.TODO": true}
	scan := func(fn string, body ast.Node, full bool) {
		ast.Inspect(body, func(n ast.Node) bool {
			switch v := n.(type) {
			case *ast.AssignStmt:
				if !full {
					return true
				}
				for i, l := range v.Lhs {
					id, ok := l.(*ast.Ident)
					if !ok || i >= len(v.Rhs) && len(v.Rhs) != 1 {
						continue
					}
					rhs := v.Rhs[0]
					if i < len(v.Rhs) {
						rhs = v.Rhs[i]
					}
					switch id.Name {
					case "tr":
						if s := x.src(rhs); !seenSrc[s] {
							seenSrc[s] = true
							trSources = append(trSources, s)
						}
					case "h":
						if c, ok := rhs.(*ast.CallExpr); ok {
							handlerAssigns = append(handlerAssigns, x.src(c.Fun))
						} else {
							handlerAssigns = append(handlerAssigns, "expr:"+x.src(rhs))
						}
					case reqName:
						rebinds = append(rebinds, x.src(v))
					}
				}
			case *ast.CallExpr:
				fs := x.src(v.Fun)
				if ctxFuncs[fs] {
					ctxDerivs = append(ctxDerivs, fn+": "+fs)
				}
				if sel, ok := v.Fun.(*ast.SelectorExpr); ok {
					switch sel.Sel.Name {
					case "WithContext", "SetReadDeadline", "SetWriteDeadline", "SetDeadline":
						ctxDerivs = append(ctxDerivs, fn+": "+fs)
					}
				}
				if fs == "http.TimeoutHandler" || fs == "time.AfterFunc" {
					ctxDerivs = append(ctxDerivs, fn+": "+fs)
				}
				if full && fs == "newHTTPProxy" && len(v.Args) == 3 {
					handlerArgs = append(handlerArgs, x.src(v.Args[1]))
				}
				if full && fs == "h.ServeHTTP" && len(v.Args) == 2 {
					serveArgs = append(serveArgs, x.src(v.Args[1]))
				}
			}
			return true
		})
	}
	scan("ServeHTTP", sh.Body, true)
	if np := x.funcDecl("proxy", "", "newHTTPProxy"); np != nil {
		scan("newHTTPProxy", np.Body, false)
	}
	if eh := x.funcDecl("proxy", "", "httpProxyErrorHandler"); eh != nil {
		scan("httpProxyErrorHandler", eh.Body, false)
	}
	sort.Strings(trSources)
	x.defStrList("serveHTTPTransportSources", trSources)
	x.defStrList("serveHTTPHandlerTransportArgs", handlerArgs)
	x.defStrList("serveHTTPHandlerAssignments", handlerAssigns)
	x.defStrList("serveHTTPContextDerivations", ctxDerivs)
	x.defStrList("serveHTTPRequestRebinds", rebinds)
	x.defStrList("serveHTTPServeArgs", serveArgs)
	x.defStr("serveHTTPRequestParam", reqName)
}
