// factgen reads the current /repo source with go/ast and writes, per property, a Lean module
// Fabio/Generated/<Prop>.lean holding the facts that the property's theorems are stated about (regex
// sources, constants, tables, call orders).  `lake build` then re-checks the `Props/<Prop>Facts.lean`
// obligations against what the code says now.  A construct the extractor no longer finds is an error: the
// tie is broken and the check reports it.
//
//	factgen -repo /repo -prop C20 -out /verif/lean/Fabio/Generated/C20.lean
package main

import (
	"flag"
	"fmt"
	"os"
	"sort"
)

type extractor func(x *X) error

var extractors = map[string]extractor{}

func register(prop string, f extractor) { extractors[prop] = f }

func main() {
	repo := flag.String("repo", "/repo", "repository root")
	prop := flag.String("prop", "", "property id (or 'list')")
	out := flag.String("out", "", "output .lean file")
	flag.Parse()
	if *prop == "list" {
		var ps []string
		for p := range extractors {
			ps = append(ps, p)
		}
		sort.Strings(ps)
		for _, p := range ps {
			fmt.Println(p)
		}
		return
	}
	f := extractors[*prop]
	if f == nil {
		fmt.Fprintf(os.Stderr, "factgen: no extractor for %q\n", *prop)
		os.Exit(2)
	}
	x := newX(*repo, *prop)
	if err := f(x); err != nil {
		fmt.Fprintf(os.Stderr, "factgen: %s: %v\n", *prop, err)
		os.Exit(1)
	}
	failed := len(x.errs) > 0
	for _, e := range x.errs {
		fmt.Fprintf(os.Stderr, "factgen: %s: %s\n", *prop, e)
	}
	src := x.render()
	if *out == "" {
		fmt.Print(src)
		if failed {
			os.Exit(1)
		}
		return
	}
	os.Remove(*out)
	// When a fact could not be extracted the module is still written with everything that was (the tie is reported
	// broken through the exit status): modules that need only the rest - a driver linking translated functions -
	// keep building, so the search for a failing input can still run.
	if err := os.WriteFile(*out, []byte(src), 0o644); err != nil {
		fmt.Fprintln(os.Stderr, err)
		os.Exit(1)
	}
	if failed {
		os.Exit(1)
	}
}
