package main

import (
	"go/ast"
	"go/token"
	"path/filepath"
	"strconv"
	"strings"
)

// C04 facts: what the Lean model of weighTargets / the ring fill / the pickers / lookup / the entrance
// checks silently depends on — as EVENTS with variables named by ROLE, so that behaviour-preserving
// refactorings keep the facts:
//
//   - constants are inlined and switches rewritten to if-chains (x.UseNormalizedAST);
//   - functions are found by role, not by name: weighTargets = the function called by both the function that
//     builds a Target (addTarget, found from the `"route add"` branch of the exported NewTableCustom) and the
//     one that spreads a `route weight` share (setWeight, from the `"route weight"` branch); the pickers
//     through the exported map `Picker`; lookup through the exported `Table.Lookup`; the slot-record type
//     through the argument of sort.Sort;
//   - calls to unexported same-package helpers are followed (parameters replaced by the rendered arguments,
//     `x = helper(..)` + `return e` becomes `x = e`), so extracting or inlining a helper changes nothing;
//   - every local is renamed to the role it plays (`t` = an element of Targets, `n` = the variable assigned
//     from int(float64(C) * t.Weight), `used` = the length of the ring, `ring` = the slice made with it, …);
//   - `for i := range X { v := X[i]; …` is read as `for i, v := range X`, a counting loop `for k := 0; k < Y
//     (or k != Y); k++` as "for k in 0..Y";
//   - an event is `[innermost guarding condition] statement`.
//
// Names that stay pinned because route/verif_c04.go (or the harness) references them, so that a rename breaks
// the harness build anyway: the fields Route.Targets / wTargets / total, Target.FixedWeight / Weight, the
// package variable randIntn, the exported Picker, Table.Lookup, NewTableCustom, RouteDef fields.

type c04walker struct {
	x      *X
	dir    string
	ren    map[string]string
	events []string
	stack  map[string]bool
	global map[string]string // package-level renames (error variables by message)
}

func (w *c04walker) r(n ast.Node) string { return w.x.RenameLocals(n, w.ren) }

func (w *c04walker) emit(guard, s string) {
	if guard != "" {
		s = guard + " " + s
	}
	w.events = append(w.events, s)
}

func c04set(ren map[string]string, e ast.Expr, role string) {
	if id, ok := e.(*ast.Ident); ok && id.Name != "_" {
		if _, done := ren[id.Name]; !done {
			ren[id.Name] = role
		}
	}
}

// c04roles names the locals of one function body by the role they play (see the header). ren may already
// hold the receiver / parameter substitutions.
func (w *c04walker) roles(body ast.Node, ren map[string]string) {
	x := w.x
	rr := func(n ast.Node) string { return x.RenameLocals(n, ren) }
	// pass 1: roles recognisable from one statement (closures are scopes of their own, see stmt)
	ast.Inspect(body, func(n ast.Node) bool {
		switch v := n.(type) {
		case *ast.FuncLit:
			return n == body
		case *ast.CallExpr:
			if x.src(v.Fun) == "sort.Sort" && len(v.Args) == 1 {
				c04set(ren, v.Args[0], "slots")
			}
		case *ast.KeyValueExpr:
			if x.src(v.Key) == "FixedWeight" {
				c04set(ren, v.Value, "fw")
			}
		case *ast.ForStmt:
			if as, ok := v.Init.(*ast.AssignStmt); ok && as.Tok == token.DEFINE && len(as.Lhs) == 1 {
				c04set(ren, as.Lhs[0], "k")
			}
		case *ast.IfStmt:
			if strings.Contains(x.src(v.Cond), "FixedWeight") {
				ast.Inspect(v.Body, func(m ast.Node) bool {
					if inc, ok := m.(*ast.IncDecStmt); ok && inc.Tok == token.INC {
						c04set(ren, inc.X, "nf")
					}
					return true
				})
			}
		case *ast.AssignStmt:
			if len(v.Lhs) == 2 && len(v.Rhs) == 2 && v.Tok == token.DEFINE {
				if b, ok := v.Rhs[1].(*ast.BinaryExpr); ok && b.Op == token.QUO && x.src(v.Rhs[0]) == "0" {
					c04set(ren, v.Lhs[0], "next")
					c04set(ren, v.Lhs[1], "step")
				}
			}
			if len(v.Lhs) != 1 || len(v.Rhs) != 1 {
				return true
			}
			lhs, rhs := v.Lhs[0], v.Rhs[0]
			switch {
			case v.Tok == token.ADD_ASSIGN:
				if se, ok := rhs.(*ast.SelectorExpr); ok && se.Sel.Name == "FixedWeight" {
					c04set(ren, lhs, "sum")
				}
			case v.Tok == token.ASSIGN:
				if c, ok := rhs.(*ast.CallExpr); ok && x.src(c.Fun) == "math.Max" {
					c04set(ren, lhs, "max")
				}
				if se, ok := lhs.(*ast.SelectorExpr); ok && se.Sel.Name == "Weight" {
					if b, ok := rhs.(*ast.BinaryExpr); ok && b.Op == token.QUO {
						if b2, ok := b.X.(*ast.BinaryExpr); ok && b2.Op == token.QUO && strings.HasSuffix(x.src(b2.X), ".FixedWeight") {
							c04set(ren, b2.Y, "unit")
							c04set(ren, b.Y, "norm")
						}
					}
				}
				if ix, ok := rhs.(*ast.IndexExpr); ok && strings.HasSuffix(x.src(ix.X), ".Targets") && x.src(ix.Index) == "0" {
					c04set(ren, lhs, "tgt")
				}
			case v.Tok == token.DEFINE:
				if c, ok := rhs.(*ast.CallExpr); ok {
					fn := x.src(c.Fun)
					switch {
					case fn == "int":
						c04set(ren, lhs, "n")
					case fn == "make" && len(c.Args) == 2 && x.src(c.Args[0]) == "[]*Target":
						c04set(ren, lhs, "ring")
						c04set(ren, c.Args[1], "used")
					case fn == "len" && len(c.Args) == 1:
						if se, ok := c.Args[0].(*ast.SelectorExpr); ok && se.Sel.Name == "Targets" {
							c04set(ren, lhs, "n")
							c04set(ren, se.X, "r")
						}
					}
				}
				if _, ok := rhs.(*ast.FuncLit); ok {
					c04set(ren, lhs, "loop")
				}
				if b, ok := rhs.(*ast.BinaryExpr); ok && b.Op == token.QUO {
					if s := x.src(b.X); s == "1.0" || s == "1" {
						c04set(ren, lhs, "eq")
					}
				}
			}
		}
		return true
	})
	// pass 2: roles that refer to roles of pass 1 or to substituted parameters
	ast.Inspect(body, func(n ast.Node) bool {
		switch v := n.(type) {
		case *ast.FuncLit:
			return n == body
		case *ast.RangeStmt:
			rx := rr(v.X)
			var kRole, vRole string
			switch {
			case strings.HasSuffix(rx, ".Targets"):
				kRole, vRole = "i", "t"
			case rx == "slots":
				kRole, vRole = "j", "s"
			default:
				return true
			}
			if v.Key != nil {
				c04set(ren, v.Key, kRole)
			}
			if v.Value != nil {
				c04set(ren, v.Value, vRole)
			} else if el := c04indexForm(x, v); el != nil {
				c04set(ren, el, vRole)
			}
		case *ast.AssignStmt:
			if v.Tok == token.DEFINE && len(v.Lhs) == 1 && len(v.Rhs) == 1 {
				if c, ok := v.Rhs[0].(*ast.CallExpr); ok && rr(c.Fun) == "loop" {
					c04set(ren, v.Lhs[0], "cnt")
				}
				if b, ok := v.Rhs[0].(*ast.BinaryExpr); ok && b.Op == token.QUO {
					if rr(b.X) == "(1 - sum)" {
						c04set(ren, v.Lhs[0], "dyn")
					}
				}
			}
		}
		return true
	})
	// pass 3: needs cnt
	ast.Inspect(body, func(n ast.Node) bool {
		if _, ok := n.(*ast.FuncLit); ok {
			return n == body
		}
		if v, ok := n.(*ast.AssignStmt); ok && v.Tok == token.DEFINE && len(v.Lhs) == 1 && len(v.Rhs) == 1 {
			if b, ok := v.Rhs[0].(*ast.BinaryExpr); ok && b.Op == token.QUO && rr(b.Y) == "float64(cnt)" {
				c04set(ren, v.Lhs[0], "each")
			}
		}
		return true
	})
}

// c04indexForm recognises `for i := range X { v := X[i]; …` and returns the identifier v.
func c04indexForm(x *X, v *ast.RangeStmt) ast.Expr {
	if v.Value != nil || v.Key == nil || len(v.Body.List) == 0 {
		return nil
	}
	as, ok := v.Body.List[0].(*ast.AssignStmt)
	if !ok || as.Tok != token.DEFINE || len(as.Lhs) != 1 || len(as.Rhs) != 1 {
		return nil
	}
	ix, ok := as.Rhs[0].(*ast.IndexExpr)
	if !ok || x.src(ix.X) != x.src(v.X) || x.src(ix.Index) != x.src(v.Key) {
		return nil
	}
	return as.Lhs[0]
}

// callee returns the declaration of an unexported same-package function or method called by c (nil if the
// callee is exported, has no body, is a closure variable, or is already being walked).
func (w *c04walker) callee(c *ast.CallExpr) (*ast.FuncDecl, ast.Expr) {
	name := ""
	var recv ast.Expr
	switch f := c.Fun.(type) {
	case *ast.Ident:
		if f.Obj != nil && f.Obj.Kind == ast.Var {
			return nil, nil
		}
		name = f.Name
	case *ast.SelectorExpr:
		name = f.Sel.Name
		recv = f.X
	}
	if name == "" || ast.IsExported(name) || w.stack[name] || len(w.stack) > 4 {
		return nil, nil
	}
	if fd := w.x.anyFuncDecl(w.dir, name); fd != nil {
		if (fd.Recv != nil) == (recv != nil) {
			return fd, recv
		}
	}
	return nil, nil
}

// inline walks the body of fd with its receiver and parameters replaced by the rendered arguments.
func (w *c04walker) inline(fd *ast.FuncDecl, recv ast.Expr, args []ast.Expr, guard, retTo string) {
	ren := map[string]string{}
	for k, v := range w.global {
		ren[k] = v
	}
	if recv != nil && fd.Recv != nil && len(fd.Recv.List) == 1 && len(fd.Recv.List[0].Names) == 1 {
		ren[fd.Recv.List[0].Names[0].Name] = w.r(recv)
	}
	i := 0
	for _, p := range fd.Type.Params.List {
		for _, nm := range p.Names {
			if i < len(args) {
				ren[nm.Name] = w.r(args[i])
			}
			i++
		}
	}
	w.roles(fd.Body, ren)
	saved := w.ren
	w.ren = ren
	w.stack[fd.Name.Name] = true
	w.block(fd.Body.List, guard, retTo)
	delete(w.stack, fd.Name.Name)
	w.ren = saved
}

func (w *c04walker) block(stmts []ast.Stmt, guard, retTo string) {
	for _, s := range stmts {
		w.stmt(s, guard, retTo)
	}
}

func (w *c04walker) stmt(s ast.Stmt, guard, retTo string) {
	x := w.x
	switch v := s.(type) {
	case *ast.BlockStmt:
		w.block(v.List, guard, retTo)
	case *ast.AssignStmt:
		if len(v.Rhs) == 1 && len(v.Lhs) == 1 {
			if fl, ok := v.Rhs[0].(*ast.FuncLit); ok {
				w.closure(w.r(v.Lhs[0]), fl)
				return
			}
			if c, ok := v.Rhs[0].(*ast.CallExpr); ok {
				if fd, recv := w.callee(c); fd != nil {
					w.inline(fd, recv, c.Args, guard, w.r(v.Lhs[0]))
					return
				}
			}
			// the slot count: int(float64(C) * t.Weight) with the constant reported separately
			if c, ok := v.Rhs[0].(*ast.CallExpr); ok && x.src(c.Fun) == "int" && len(c.Args) == 1 {
				if b, ok := c.Args[0].(*ast.BinaryExpr); ok && b.Op == token.MUL {
					for _, pair := range [][2]ast.Expr{{b.X, b.Y}, {b.Y, b.X}} {
						if lit := c04number(pair[0]); lit != "" && strings.HasSuffix(w.r(pair[1]), ".Weight") {
							w.events = append(w.events, "SLOTCONST "+lit)
							w.emit(guard, w.r(v.Lhs[0])+" "+v.Tok.String()+" int(float64(C) * "+w.r(pair[1])+")")
							return
						}
					}
				}
			}
		}
		w.emit(guard, w.r(v))
	case *ast.ExprStmt:
		if c, ok := v.X.(*ast.CallExpr); ok {
			if fd, recv := w.callee(c); fd != nil {
				w.inline(fd, recv, c.Args, guard, "")
				return
			}
		}
		w.emit(guard, "call "+w.r(v.X))
	case *ast.IncDecStmt:
		w.emit(guard, w.r(v))
	case *ast.BranchStmt:
		w.emit(guard, v.Tok.String())
	case *ast.ReturnStmt:
		if retTo != "" && len(v.Results) == 1 {
			w.emit(guard, retTo+" = "+w.r(v.Results[0]))
			return
		}
		var rs []string
		for _, e := range v.Results {
			rs = append(rs, w.r(e))
		}
		if len(w.stack) > 1 && len(rs) == 0 {
			w.emit(guard, "return(helper)")
			return
		}
		w.emit(guard, strings.TrimSpace("return "+strings.Join(rs, ", ")))
	case *ast.IfStmt:
		if v.Init != nil {
			w.stmt(v.Init, guard, retTo)
		}
		c := w.r(v.Cond)
		w.block(v.Body.List, "["+c+"]", retTo)
		switch e := v.Else.(type) {
		case *ast.IfStmt:
			w.stmt(e, guard, retTo)
		case *ast.BlockStmt:
			w.block(e.List, "[!("+c+")]", retTo)
		}
	case *ast.ForStmt:
		switch {
		case v.Init == nil && v.Post == nil && v.Cond != nil:
			w.block(v.Body.List, "[while "+w.r(v.Cond)+"]", retTo)
		default:
			if hi := c04counting(x, v); hi != nil {
				w.emit(guard, "for k in 0.."+w.r(hi))
			} else {
				h := ""
				if v.Init != nil {
					h += w.r(v.Init)
				}
				h += "; "
				if v.Cond != nil {
					h += w.r(v.Cond)
				}
				h += "; "
				if v.Post != nil {
					h += w.r(v.Post)
				}
				w.emit(guard, "for "+h)
			}
			w.block(v.Body.List, guard, retTo)
		}
	case *ast.RangeStmt:
		w.emit(guard, "range "+w.r(v.X))
		body := v.Body.List
		if c04indexForm(x, v) != nil {
			body = body[1:]
		}
		w.block(body, guard, retTo)
	case *ast.DeclStmt:
		// declarations carry no event
	default:
		w.emit(guard, "stmt "+w.r(s))
	}
}

// closure walks the body of a function literal bound to a local as a scope of its own: its parameters are
// c0, c1, …, its remaining locals v0, v1, … (after the role names), events are guarded by `[in <name>]`.
func (w *c04walker) closure(name string, fl *ast.FuncLit) {
	fake := &ast.FuncDecl{Name: ast.NewIdent(name), Type: fl.Type, Body: fl.Body}
	_, params, locals := w.x.LocalNames(fake)
	ren := map[string]string{}
	shadow := map[string]bool{}
	for _, n := range append(append([]string{}, params...), locals...) {
		shadow[n] = true
	}
	for k, v := range w.ren {
		if !shadow[k] {
			ren[k] = v
		}
	}
	for i, p := range params {
		ren[p] = "c" + strconv.Itoa(i)
	}
	w.roles(fl.Body, ren)
	k := 0
	for _, l := range locals {
		if _, ok := ren[l]; !ok {
			ren[l] = "v" + strconv.Itoa(k)
			k++
		}
	}
	w.emit("", name+" := func/"+strconv.Itoa(len(params)))
	saved, savedEv := w.ren, w.events
	w.ren, w.events = ren, nil
	w.block(fl.Body.List, "", "")
	inner := w.events
	w.ren, w.events = saved, savedEv
	for _, e := range inner {
		w.events = append(w.events, "[in "+name+"] "+e)
	}
}

// c04counting recognises `for k := 0; k < Y; k++` / `k != Y` and returns Y.
func c04counting(x *X, v *ast.ForStmt) ast.Expr {
	as, ok := v.Init.(*ast.AssignStmt)
	if !ok || as.Tok != token.DEFINE || len(as.Lhs) != 1 || len(as.Rhs) != 1 || x.src(as.Rhs[0]) != "0" {
		return nil
	}
	k := x.src(as.Lhs[0])
	inc, ok := v.Post.(*ast.IncDecStmt)
	if !ok || inc.Tok != token.INC || x.src(inc.X) != k {
		return nil
	}
	b, ok := v.Cond.(*ast.BinaryExpr)
	if !ok || (b.Op != token.LSS && b.Op != token.NEQ) || x.src(b.X) != k {
		return nil
	}
	return b.Y
}

// c04number returns the decimal value of a numeric literal, possibly wrapped in float64( ), else "".
func c04number(e ast.Expr) string {
	if c, ok := e.(*ast.CallExpr); ok && len(c.Args) == 1 {
		if id, ok := c.Fun.(*ast.Ident); ok && id.Name == "float64" {
			e = c.Args[0]
		}
	}
	if p, ok := e.(*ast.ParenExpr); ok {
		e = p.X
	}
	bl, ok := e.(*ast.BasicLit)
	if !ok || (bl.Kind != token.INT && bl.Kind != token.FLOAT) {
		return ""
	}
	f, err := strconv.ParseFloat(strings.ReplaceAll(bl.Value, "_", ""), 64)
	if err != nil || f < 0 || f != float64(uint64(f)) {
		return ""
	}
	return strconv.FormatUint(uint64(f), 10)
}

// walkFunc produces the event list of a top-level function: receiver -> recv, parameters -> p0, p1, …
func (w *c04walker) walkFunc(fd *ast.FuncDecl) []string {
	ren := map[string]string{}
	for k, v := range w.global {
		ren[k] = v
	}
	if fd.Recv != nil && len(fd.Recv.List) == 1 && len(fd.Recv.List[0].Names) == 1 {
		ren[fd.Recv.List[0].Names[0].Name] = "recv"
	}
	i := 0
	for _, p := range fd.Type.Params.List {
		for _, nm := range p.Names {
			ren[nm.Name] = "p" + strconv.Itoa(i)
			i++
		}
	}
	if fd.Type.Results != nil {
		j := 0
		for _, p := range fd.Type.Results.List {
			for _, nm := range p.Names {
				ren[nm.Name] = "res" + strconv.Itoa(j)
				j++
			}
		}
	}
	// a parameter that is stored as the requested weight is named by that role
	ast.Inspect(fd.Body, func(n ast.Node) bool {
		if kv, ok := n.(*ast.KeyValueExpr); ok && w.x.src(kv.Key) == "FixedWeight" {
			if id, ok := kv.Value.(*ast.Ident); ok {
				ren[id.Name] = "fw"
			}
		}
		return true
	})
	w.roles(fd.Body, ren)
	w.ren = ren
	w.events = nil
	w.stack = map[string]bool{fd.Name.Name: true}
	w.block(fd.Body.List, "", "")
	return w.events
}

// directCallees lists the unexported same-package functions fd calls directly (closures included).
func (w *c04walker) directCallees(fd *ast.FuncDecl) map[string]bool {
	out := map[string]bool{}
	ast.Inspect(fd.Body, func(n ast.Node) bool {
		if c, ok := n.(*ast.CallExpr); ok {
			name := ""
			switch f := c.Fun.(type) {
			case *ast.Ident:
				name = f.Name
			case *ast.SelectorExpr:
				name = f.Sel.Name
			}
			if name != "" && !ast.IsExported(name) && w.x.anyFuncDecl(w.dir, name) != nil {
				out[name] = true
			}
		}
		return true
	})
	return out
}

// calleeUnder finds the unexported same-package function called inside the if-branch of fd whose condition
// mentions the string literal lit (the dispatch on the command in NewTableCustom).
func (w *c04walker) calleeUnder(fd *ast.FuncDecl, lit string) *ast.FuncDecl {
	var found *ast.FuncDecl
	ast.Inspect(fd.Body, func(n ast.Node) bool {
		if v, ok := n.(*ast.IfStmt); ok && found == nil && strings.Contains(w.x.src(v.Cond), strconv.Quote(lit)) {
			ast.Inspect(v.Body, func(m ast.Node) bool {
				if c, ok := m.(*ast.CallExpr); ok && found == nil {
					w.stack = map[string]bool{}
					if cd, _ := w.callee(c); cd != nil {
						found = cd
					}
				}
				return true
			})
		}
		return true
	})
	return found
}

// calleeWithArg finds the unexported function fd calls with several arguments one of which selects field
// (e.g. `.Weight`); one-argument predicates on the field are not meant.
func (w *c04walker) calleeWithArg(fd *ast.FuncDecl, field string) *ast.FuncDecl {
	var found *ast.FuncDecl
	ast.Inspect(fd.Body, func(n ast.Node) bool {
		if c, ok := n.(*ast.CallExpr); ok && found == nil && len(c.Args) >= 2 {
			for _, a := range c.Args {
				if se, ok := a.(*ast.SelectorExpr); ok && se.Sel.Name == field {
					w.stack = map[string]bool{}
					if cd, _ := w.callee(c); cd != nil {
						found = cd
					}
				}
			}
		}
		return true
	})
	return found
}

// entranceChecks renders the leading `if cond { return err }` statements of a command function, with
// single-expression unexported predicates (validWeight) replaced by their body.
func (w *c04walker) entranceChecks(fd *ast.FuncDecl) []string {
	w.walkFunc(fd) // sets w.ren (recv, p0 …)
	var out []string
	for _, st := range fd.Body.List {
		v, ok := st.(*ast.IfStmt)
		if !ok || v.Init != nil || len(v.Body.List) != 1 {
			continue
		}
		ret, ok := v.Body.List[0].(*ast.ReturnStmt)
		if !ok || len(ret.Results) != 1 {
			continue
		}
		out = append(out, w.cond(v.Cond)+" => return "+w.r(ret.Results[0]))
	}
	return out
}

// cond renders a condition; a call of an unexported predicate whose body is one return statement is replaced
// by that expression with the parameters substituted.
func (w *c04walker) cond(e ast.Expr) string {
	switch v := e.(type) {
	case *ast.UnaryExpr:
		if v.Op == token.NOT {
			return "!(" + w.cond(v.X) + ")"
		}
	case *ast.ParenExpr:
		return w.cond(v.X)
	case *ast.BinaryExpr:
		if v.Op == token.LAND || v.Op == token.LOR {
			return w.cond(v.X) + " " + v.Op.String() + " " + w.cond(v.Y)
		}
	case *ast.CallExpr:
		w.stack = map[string]bool{}
		if fd, recv := w.callee(v); fd != nil && recv == nil && len(fd.Body.List) == 1 {
			if ret, ok := fd.Body.List[0].(*ast.ReturnStmt); ok && len(ret.Results) == 1 {
				ren := map[string]string{}
				i := 0
				for _, p := range fd.Type.Params.List {
					for _, nm := range p.Names {
						if i < len(v.Args) {
							ren[nm.Name] = w.r(v.Args[i])
						}
						i++
					}
				}
				saved := w.ren
				w.ren = ren
				s := w.cond(ret.Results[0])
				w.ren = saved
				return s
			}
		}
	}
	return w.r(e)
}

func init() {
	register("C04", func(x *X) error {
		x.UseNormalizedAST()
		w := &c04walker{x: x, dir: "route", global: map[string]string{}, stack: map[string]bool{}}

		// package-level error variables are named by their message
		for _, f := range x.files("route") {
			for _, d := range f.Decls {
				gd, ok := d.(*ast.GenDecl)
				if !ok || gd.Tok != token.VAR {
					continue
				}
				for _, s := range gd.Specs {
					vs := s.(*ast.ValueSpec)
					for i, n := range vs.Names {
						if i < len(vs.Values) {
							if c, ok := vs.Values[i].(*ast.CallExpr); ok && x.src(c.Fun) == "errors.New" && len(c.Args) == 1 {
								if msg, ok := x.strLit(c.Args[0]); ok {
									w.global[n.Name] = "errors.New(" + strconv.Quote(msg) + ")"
								}
							}
						}
					}
				}
			}
		}

		// the command functions, from the dispatch of the exported NewTableCustom on the command constants
		ntc := x.funcDecl("route", "", "NewTableCustom")
		if ntc == nil {
			return nil
		}
		addRoute := w.calleeUnder(ntc, "route add")
		weighRoute := w.calleeUnder(ntc, "route weight")
		if addRoute == nil || weighRoute == nil {
			x.fail("NewTableCustom: the functions called for \"route add\" / \"route weight\" were not found")
			return nil
		}
		x.defStrList("addRouteChecks", w.entranceChecks(addRoute))
		x.defStrList("weighRouteChecks", w.entranceChecks(weighRoute))

		addTarget := w.calleeWithArg(addRoute, "Weight")
		setWeight := w.calleeWithArg(weighRoute, "Weight")
		if addTarget == nil || setWeight == nil {
			x.fail("the functions receiving RouteDef.Weight from the add / weight commands were not found")
			return nil
		}
		// the tag matcher of setWeight/delRoute — found by role: the unexported function setWeight calls with
		// `<target>.Tags` as first argument — translated from the source on every run (xlate.go);
		// Props/C04Xlate.lean proves the translation equal to the model's containsAll. Where it is not found or
		// not translatable the change detector fires (the generated module then lacks a usable XContains).
		matcher := ""
		ast.Inspect(setWeight.Body, func(n ast.Node) bool {
			if c, ok := n.(*ast.CallExpr); ok && len(c.Args) == 2 && matcher == "" {
				if id, ok := c.Fun.(*ast.Ident); ok && !ast.IsExported(id.Name) && strings.HasSuffix(x.src(c.Args[0]), ".Tags") {
					if x.anyFuncDecl("route", id.Name) != nil {
						matcher = id.Name
					}
				}
			}
			return true
		})
		matcherFile := ""
		if matcher != "" {
			for _, f := range x.files("route") {
				for _, d := range f.Decls {
					if fd, ok := d.(*ast.FuncDecl); ok && fd.Recv == nil && fd.Name.Name == matcher && fd.Body != nil {
						if rel, err := filepath.Rel(x.repo, x.fset.Position(f.Pos()).Filename); err == nil {
							matcherFile = rel
						}
					}
				}
			}
		}
		if matcherFile != "" {
			xlateEmit(x, matcherFile, []xlSpec{{"", matcher, "XContains", nil, nil, "Bool"}})
		} else {
			x.defStrList("xlateNotes", []string{"the tag matcher called by setWeight was not found"})
		}

		// the weighing function: called by both
		var weigh *ast.FuncDecl
		a, b := w.directCallees(addTarget), w.directCallees(setWeight)
		var common []string
		for n := range a {
			if b[n] {
				common = append(common, n)
			}
		}
		if len(common) == 1 {
			weigh = x.anyFuncDecl("route", common[0])
		}
		if weigh == nil {
			x.fail("no unique function called by both the target-adding and the weight-spreading function: %v", common)
			return nil
		}

		// --- weighTargets: events ---
		ev := w.walkFunc(weigh)
		var events []string
		slotConst := ""
		for _, e := range ev {
			if strings.HasPrefix(e, "SLOTCONST ") {
				slotConst = strings.TrimPrefix(e, "SLOTCONST ")
				continue
			}
			events = append(events, e)
		}
		x.defStrList("weighEvents", events)
		if v, err := strconv.ParseUint(slotConst, 10, 64); err == nil {
			x.defNat("maxSlots", v)
		} else {
			x.fail("the slot computation int(float64(C) * t.Weight) with a literal or constant C was not found")
		}
		// every comparison on a requested weight, as `FixedWeight <op> <other side>`
		var tests []string
		x.WalkInlined("route", weigh, func(n ast.Node) bool {
			if v, ok := n.(*ast.BinaryExpr); ok {
				switch v.Op {
				case token.GTR, token.LSS, token.GEQ, token.LEQ, token.EQL, token.NEQ:
					if se, ok := v.X.(*ast.SelectorExpr); ok && se.Sel.Name == "FixedWeight" {
						tests = append(tests, "FixedWeight "+v.Op.String()+" "+x.src(v.Y))
					} else if se, ok := v.Y.(*ast.SelectorExpr); ok && se.Sel.Name == "FixedWeight" {
						tests = append(tests, x.src(v.X)+" "+v.Op.String()+" FixedWeight")
					}
				}
			}
			return true
		})
		x.defStrList("fixedWeightTests", tests)
		// the order of the slot records: Less of the type handed to sort.Sort
		lessBody := ""
		var slotsType string
		x.WalkInlined("route", weigh, func(n ast.Node) bool {
			if as, ok := n.(*ast.AssignStmt); ok && len(as.Rhs) == 1 && len(as.Lhs) == 1 {
				if c, ok := as.Rhs[0].(*ast.CallExpr); ok && x.src(c.Fun) == "make" && len(c.Args) >= 1 {
					if id, ok := c.Args[0].(*ast.Ident); ok && slotsType == "" {
						slotsType = id.Name
					}
				}
			}
			return true
		})
		if slotsType != "" {
			for _, f := range x.files("route") {
				for _, d := range f.Decls {
					if fd, ok := d.(*ast.FuncDecl); ok && fd.Name.Name == "Less" && fd.Recv != nil && len(fd.Recv.List) == 1 {
						t := fd.Recv.List[0].Type
						if st, ok := t.(*ast.StarExpr); ok {
							t = st.X
						}
						if id, ok := t.(*ast.Ident); ok && id.Name == slotsType {
							lessBody = strings.Join(w.walkFunc(fd), "; ")
						}
					}
				}
			}
		}
		x.defStr("slotsLess", lessBody)

		// --- addTarget's clamp, setWeight's spread ---
		var at []string
		for _, e := range w.walkFunc(addTarget) {
			if strings.HasPrefix(e, "[fw ") {
				at = append(at, e)
			}
		}
		x.defStrList("addTargetEvents", at)
		var sw []string
		for _, e := range w.walkFunc(setWeight) {
			if strings.Contains(e, "loop") || strings.HasPrefix(e, "each :=") || strings.HasPrefix(e, "cnt :=") || e == "[cnt > 0] recv.wTargets = ring" {
				sw = append(sw, e)
			}
		}
		x.defStrList("setWeightEvents", sw)

		// --- pickers, through the exported map Picker ---
		pickers := map[string]*ast.FuncDecl{}
		if e := x.valueSpec("route", "Picker"); e != nil {
			if cl, ok := e.(*ast.CompositeLit); ok {
				for _, el := range cl.Elts {
					if kv, ok := el.(*ast.KeyValueExpr); ok {
						if k, ok := x.strLit(kv.Key); ok {
							if id, ok := kv.Value.(*ast.Ident); ok {
								pickers[k] = x.anyFuncDecl("route", id.Name)
							}
						}
					}
				}
			}
		}
		if rr := pickers["rr"]; rr != nil {
			w.walkFunc(rr)
			var mods, idx, adds []string
			ast.Inspect(rr.Body, func(n ast.Node) bool {
				switch v := n.(type) {
				case *ast.BinaryExpr:
					if v.Op == token.REM {
						mods = append(mods, w.r(v.Y))
					}
				case *ast.IndexExpr:
					idx = append(idx, w.r(v.X))
				case *ast.CallExpr:
					if x.src(v.Fun) == "atomic.AddUint64" {
						var as []string
						for _, a := range v.Args {
							as = append(as, w.r(a))
						}
						adds = append(adds, strings.Join(as, ", "))
					}
				}
				return true
			})
			x.defStrList("rrModulus", mods)
			x.defStrList("rrIndexed", idx)
			x.defStrList("rrAdds", adds)
		} else {
			x.fail("Picker[\"rr\"] does not name a function of the package")
		}
		if rnd := pickers["rnd"]; rnd != nil {
			x.defStrList("rndEvents", w.walkFunc(rnd))
		} else {
			x.fail("Picker[\"rnd\"] does not name a function of the package")
		}

		// --- wiring: which picker the proxies hand to the lookups (main.go, proxy/grpc_handler.go), and which
		// strategies the configuration admits. No stream drives main(): the streams call route.Picker["rr"|"rnd"]
		// themselves, so "proxy.strategy=rr really is the round-robin picker" is read from the source.
		var wiring []string
		for _, dir := range []string{".", "proxy"} {
			for _, f := range x.files(dir) {
				for _, d := range f.Decls {
					fd, ok := d.(*ast.FuncDecl)
					if !ok || fd.Body == nil {
						continue
					}
					defsOf := map[string]string{}
					ast.Inspect(fd.Body, func(n ast.Node) bool {
						if as, ok := n.(*ast.AssignStmt); ok && len(as.Lhs) == 1 && len(as.Rhs) == 1 {
							if id, ok := as.Lhs[0].(*ast.Ident); ok {
								defsOf[id.Name] = x.src(as.Rhs[0])
							}
						}
						return true
					})
					ast.Inspect(fd.Body, func(n ast.Node) bool {
						c, ok := n.(*ast.CallExpr)
						if !ok {
							return true
						}
						sel, ok := c.Fun.(*ast.SelectorExpr)
						if !ok || x.src(sel.X) != "route.GetTable()" {
							return true
						}
						pos := -1
						switch sel.Sel.Name {
						case "Lookup":
							pos = 2
						case "LookupHost":
							pos = 1
						}
						if pos < 0 || pos >= len(c.Args) {
							return true
						}
						arg := x.src(c.Args[pos])
						if id, ok := c.Args[pos].(*ast.Ident); ok {
							if def, ok := defsOf[id.Name]; ok {
								arg = def
							}
						}
						wiring = append(wiring, sel.Sel.Name+" <- "+arg)
						return true
					})
				}
			}
		}
		x.defSortedStrList("lookupPickerArgs", wiring)
		var pickerKeys []string
		for k := range pickers {
			pickerKeys = append(pickerKeys, k)
		}
		x.defSortedStrList("pickerKeys", pickerKeys)
		var strat []string
		for _, f := range x.files("config") {
			ast.Inspect(f, func(n ast.Node) bool {
				if is, ok := n.(*ast.IfStmt); ok {
					if c := x.src(is.Cond); strings.Contains(c, "Proxy.Strategy") {
						strat = append(strat, c)
					}
				}
				return true
			})
		}
		x.defStrList("strategyChecks", strat)

		// --- lookup's shortcuts, through the exported Table.Lookup ---
		if lk := x.funcDecl("route", "Table", "Lookup"); lk != nil {
			var sc []string
			for _, e := range w.walkFunc(lk) {
				if strings.HasSuffix(e, "n := len(r.Targets)") || strings.HasPrefix(e, "[n == ") || strings.HasPrefix(e, "[!(n == ") {
					sc = append(sc, e)
				}
			}
			x.defStrList("lookupShortcuts", sc)
		}
		return nil
	})
}
