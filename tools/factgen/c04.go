package main

import (
	"go/ast"
	"go/token"
	"strconv"
	"strings"
)

// C04 facts: what the Lean model of weighTargets / the ring fill / the pickers / lookup silently depends on.
// Small expressions are rendered back to source (whitespace-normalised by go/printer) so that an edit of the
// rule itself — not of the code around it — breaks the obligation in Props/C04Facts.lean.
func init() {
	register("C04", func(x *X) error {
		// const maxSlots = 1e4
		if e := x.valueSpec("route", "maxSlots"); e != nil {
			if bl, ok := e.(*ast.BasicLit); ok {
				f, err := strconv.ParseFloat(bl.Value, 64)
				if err != nil || f != float64(uint64(f)) {
					x.fail("maxSlots literal %q is not a natural number", bl.Value)
				} else {
					x.defNat("maxSlots", uint64(f))
				}
			} else {
				x.fail("maxSlots is not a basic literal: %s", x.src(e))
			}
		}

		wt := x.funcDecl("route", "Route", "weighTargets")
		if wt != nil {
			// every comparison that mentions FixedWeight
			var tests []string
			var ifConds []string
			var assigns []string
			var forConds []string
			ast.Inspect(wt.Body, func(n ast.Node) bool {
				switch v := n.(type) {
				case *ast.BinaryExpr:
					switch v.Op {
					case token.GTR, token.LSS, token.GEQ, token.LEQ, token.EQL, token.NEQ:
						if strings.Contains(x.src(v.X), "FixedWeight") || strings.Contains(x.src(v.Y), "FixedWeight") {
							tests = append(tests, x.src(v))
						}
					}
				case *ast.IfStmt:
					ifConds = append(ifConds, x.src(v.Cond)+" => "+x.src(v.Body))
				case *ast.AssignStmt:
					assigns = append(assigns, x.src(v))
				case *ast.ForStmt:
					if v.Cond != nil && v.Init == nil {
						forConds = append(forConds, x.src(v.Cond)+" => "+x.src(v.Body))
					}
				}
				return true
			})
			x.defStrList("fixedWeightTests", tests)
			x.defStrList("weighIfs", ifConds)
			x.defStrList("weighAssigns", assigns)
			x.defStrList("weighWhileLoops", forConds)
			// sort.Sort(slots) is called, and byN.Less compares the slot counts
			x.defNat("sortCalls", uint64(len(x.calls(wt.Body, "sort.Sort"))))
		}
		if less := x.funcDecl("route", "byN", "Less"); less != nil {
			x.defStr("byNLess", x.src(less.Body))
		}

		// addTarget's clamp, setWeight's spread
		if at := x.funcDecl("route", "Route", "addTarget"); at != nil && len(at.Body.List) > 0 {
			x.defStr("addTargetFirst", x.src(at.Body.List[0]))
		}
		if sw := x.funcDecl("route", "Route", "setWeight"); sw != nil {
			var assigns []string
			ast.Inspect(sw.Body, func(n ast.Node) bool {
				if v, ok := n.(*ast.AssignStmt); ok {
					assigns = append(assigns, x.src(v))
				}
				return true
			})
			x.defStrList("setWeightAssigns", assigns)
		}

		// rrPicker: what is indexed, the modulus, the increment (tolerant of how the cursor value is obtained)
		if rr := x.funcDecl("route", "", "rrPicker"); rr != nil {
			var mods, idx []string
			ast.Inspect(rr.Body, func(n ast.Node) bool {
				switch v := n.(type) {
				case *ast.BinaryExpr:
					if v.Op == token.REM {
						mods = append(mods, x.src(v.Y))
					}
				case *ast.IndexExpr:
					idx = append(idx, x.src(v.X))
				}
				return true
			})
			x.defStrList("rrModulus", mods)
			x.defStrList("rrIndexed", idx)
			var adds []string
			for _, c := range x.calls(rr.Body, "atomic.AddUint64") {
				var as []string
				for _, a := range c.Args {
					as = append(as, x.src(a))
				}
				adds = append(adds, strings.Join(as, ", "))
			}
			x.defStrList("rrAdds", adds)
		}
		if rnd := x.funcDecl("route", "", "rndPicker"); rnd != nil {
			x.defStr("rndBody", x.src(rnd.Body))
		}

		// lookup: the n == 0 / n == 1 shortcuts
		if lk := x.funcDecl("route", "Table", "lookup"); lk != nil {
			var ifs []string
			var nDef string
			ast.Inspect(lk.Body, func(n ast.Node) bool {
				switch v := n.(type) {
				case *ast.IfStmt:
					c := x.src(v.Cond)
					if c == "n == 0" || c == "n == 1" {
						s := c + " => " + x.src(v.Body)
						if v.Else != nil {
							s += " else " + x.src(v.Else)
						}
						ifs = append(ifs, s)
					}
				case *ast.AssignStmt:
					if len(v.Lhs) == 1 && x.src(v.Lhs[0]) == "n" {
						nDef = x.src(v)
					}
				}
				return true
			})
			x.defStrList("lookupShortcuts", ifs)
			x.defStr("lookupN", nDef)
		}

		// the repaired entrance checks: addRoute and weighRoute refuse non-finite weights
		for _, fn := range []string{"addRoute", "weighRoute"} {
			if fd := x.funcDecl("route", "Table", fn); fd != nil {
				var conds []string
				for _, st := range fd.Body.List {
					if v, ok := st.(*ast.IfStmt); ok {
						conds = append(conds, x.src(v.Cond)+" => "+x.src(v.Body))
					}
				}
				x.defStrList(fn+"Checks", conds)
			}
		}
		if vw := x.funcDecl("route", "", "validWeight"); vw != nil {
			x.defStr("validWeightBody", x.src(vw.Body))
		}
		return nil
	})
}
