package main

// Normalisations that make facts insensitive to behaviour-preserving refactorings (opt-in per extractor):
//
//	x.UseNormalizedAST()   — call first in an extractor. Every file parsed afterwards is rewritten in place:
//	    (a) an identifier that denotes a package-level constant of the same package (string, rune or number
//	        literal, possibly through other constants and `+` concatenation) is replaced by its literal value,
//	        so `"$path"` and a named constant `pathPlaceholder = "$path"` give the same fact;
//	    (b) a `switch` without fallthrough whose case bodies contain no unlabelled `break` is rewritten into
//	        the equivalent if / else-if chain (tagged `switch v { case a, b: … }` becomes `v == a || v == b`),
//	        so if-chains and switches give the same fact;
//	    (c) `for { if c { break }; … }` is left alone (not normalised).
//	x.WalkInlined(dir, fd, visit) — visit the statements and expressions of fd in source order; a call to an
//	    unexported function or method of the same package that has a body is followed into that body (depth ≤ 4,
//	    no recursion into a function already on the stack), so an ordered event list is invariant under
//	    "extract helper" / "inline helper". visit returns false to stop descending below a node.
//	x.LocalNames(fd) — parameter, receiver, named-result and local variable names of fd, for extractors that
//	    want to identify a variable by ROLE (receiver, i-th parameter, "the variable assigned from call X")
//	    instead of by its spelling.

import (
	"go/ast"
	"go/token"
)

func (x *X) UseNormalizedAST() { x.normalize = true }

// packageConsts collects package-level constants with a literal (or literal-concatenation / const-reference) value.
func (x *X) packageConsts(files []*ast.File) map[string]ast.Expr {
	raw := map[string]ast.Expr{}
	for _, f := range files {
		for _, d := range f.Decls {
			gd, ok := d.(*ast.GenDecl)
			if !ok || gd.Tok != token.CONST {
				continue
			}
			for _, s := range gd.Specs {
				vs := s.(*ast.ValueSpec)
				for i, n := range vs.Names {
					if i < len(vs.Values) {
						raw[n.Name] = vs.Values[i]
					}
				}
			}
		}
	}
	out := map[string]ast.Expr{}
	var resolve func(e ast.Expr, depth int) (ast.Expr, bool)
	resolve = func(e ast.Expr, depth int) (ast.Expr, bool) {
		if depth > 6 {
			return nil, false
		}
		switch v := e.(type) {
		case *ast.BasicLit:
			return &ast.BasicLit{Kind: v.Kind, Value: v.Value}, true
		case *ast.ParenExpr:
			return resolve(v.X, depth+1)
		case *ast.Ident:
			if r, ok := raw[v.Name]; ok {
				return resolve(r, depth+1)
			}
		case *ast.BinaryExpr:
			if v.Op == token.ADD {
				a, ok1 := resolve(v.X, depth+1)
				b, ok2 := resolve(v.Y, depth+1)
				if ok1 && ok2 {
					la, oka := a.(*ast.BasicLit)
					lb, okb := b.(*ast.BasicLit)
					if oka && okb && la.Kind == token.STRING && lb.Kind == token.STRING {
						sa, _ := x.strLit(la)
						sb, _ := x.strLit(lb)
						return &ast.BasicLit{Kind: token.STRING, Value: quoteGo(sa + sb)}, true
					}
				}
			}
		}
		return nil, false
	}
	for n, e := range raw {
		if lit, ok := resolve(e, 0); ok {
			out[n] = lit
		}
	}
	return out
}

func quoteGo(s string) string {
	b := []byte{'"'}
	for _, r := range s {
		switch r {
		case '"':
			b = append(b, '\\', '"')
		case '\\':
			b = append(b, '\\', '\\')
		case '\n':
			b = append(b, '\\', 'n')
		case '\t':
			b = append(b, '\\', 't')
		case '\r':
			b = append(b, '\\', 'r')
		default:
			b = append(b, string(r)...)
		}
	}
	return string(append(b, '"'))
}

// normalizeFiles rewrites the parsed files of one package in place.
func (x *X) normalizeFiles(files []*ast.File) {
	consts := x.packageConsts(files)
	for _, f := range files {
		// (a) constant inlining: identifiers not shadowed by a local object
		var rewriteExpr func(e ast.Expr) ast.Expr
		rewriteExpr = func(e ast.Expr) ast.Expr {
			if id, ok := e.(*ast.Ident); ok {
				if lit, ok := consts[id.Name]; ok && (id.Obj == nil || id.Obj.Kind == ast.Con) {
					bl := lit.(*ast.BasicLit)
					return &ast.BasicLit{ValuePos: id.Pos(), Kind: bl.Kind, Value: bl.Value}
				}
			}
			return e
		}
		ast.Inspect(f, func(n ast.Node) bool {
			switch v := n.(type) {
			case *ast.GenDecl:
				if v.Tok == token.CONST {
					return false // keep the declarations themselves
				}
			case *ast.BinaryExpr:
				v.X, v.Y = rewriteExpr(v.X), rewriteExpr(v.Y)
			case *ast.CallExpr:
				for i := range v.Args {
					v.Args[i] = rewriteExpr(v.Args[i])
				}
			case *ast.AssignStmt:
				for i := range v.Rhs {
					v.Rhs[i] = rewriteExpr(v.Rhs[i])
				}
			case *ast.ReturnStmt:
				for i := range v.Results {
					v.Results[i] = rewriteExpr(v.Results[i])
				}
			case *ast.IndexExpr:
				v.Index = rewriteExpr(v.Index)
			case *ast.SliceExpr:
				v.Low, v.High, v.Max = optExpr(rewriteExpr, v.Low), optExpr(rewriteExpr, v.High), optExpr(rewriteExpr, v.Max)
			case *ast.KeyValueExpr:
				v.Key, v.Value = rewriteExpr(v.Key), rewriteExpr(v.Value)
			case *ast.CompositeLit:
				for i := range v.Elts {
					v.Elts[i] = rewriteExpr(v.Elts[i])
				}
			case *ast.CaseClause:
				for i := range v.List {
					v.List[i] = rewriteExpr(v.List[i])
				}
			case *ast.ValueSpec:
				for i := range v.Values {
					v.Values[i] = rewriteExpr(v.Values[i])
				}
			case *ast.ParenExpr:
				v.X = rewriteExpr(v.X)
			case *ast.UnaryExpr:
				v.X = rewriteExpr(v.X)
			case *ast.SwitchStmt:
				if v.Tag != nil {
					v.Tag = rewriteExpr(v.Tag)
				}
			case *ast.SendStmt:
				v.Value = rewriteExpr(v.Value)
			}
			return true
		})
		// (a') fold concatenations of string literals ("/" + "$path" -> "/$path"), bottom-up
		var fold func(e ast.Expr) ast.Expr
		fold = func(e ast.Expr) ast.Expr {
			switch v := e.(type) {
			case *ast.ParenExpr:
				v.X = fold(v.X)
				if _, ok := v.X.(*ast.BasicLit); ok {
					return v.X
				}
			case *ast.BinaryExpr:
				v.X, v.Y = fold(v.X), fold(v.Y)
				if v.Op == token.ADD {
					la, oka := v.X.(*ast.BasicLit)
					lb, okb := v.Y.(*ast.BasicLit)
					if oka && okb && la.Kind == token.STRING && lb.Kind == token.STRING {
						sa, ok1 := x.strLit(la)
						sb, ok2 := x.strLit(lb)
						if ok1 && ok2 {
							return &ast.BasicLit{ValuePos: la.Pos(), Kind: token.STRING, Value: quoteGo(sa + sb)}
						}
					}
				}
			}
			return e
		}
		ast.Inspect(f, func(n ast.Node) bool {
			switch v := n.(type) {
			case *ast.GenDecl:
				if v.Tok == token.CONST {
					return false
				}
			case *ast.CallExpr:
				for i := range v.Args {
					v.Args[i] = fold(v.Args[i])
				}
			case *ast.AssignStmt:
				for i := range v.Rhs {
					v.Rhs[i] = fold(v.Rhs[i])
				}
			case *ast.ReturnStmt:
				for i := range v.Results {
					v.Results[i] = fold(v.Results[i])
				}
			case *ast.BinaryExpr:
				if v.Op != token.ADD {
					v.X, v.Y = fold(v.X), fold(v.Y)
				}
			case *ast.KeyValueExpr:
				v.Value = fold(v.Value)
			case *ast.CompositeLit:
				for i := range v.Elts {
					v.Elts[i] = fold(v.Elts[i])
				}
			case *ast.CaseClause:
				for i := range v.List {
					v.List[i] = fold(v.List[i])
				}
			case *ast.ValueSpec:
				for i := range v.Values {
					v.Values[i] = fold(v.Values[i])
				}
			}
			return true
		})
		// (b) switch -> if chain, innermost first
		for _, d := range f.Decls {
			if fd, ok := d.(*ast.FuncDecl); ok && fd.Body != nil {
				rewriteBlock(fd.Body)
			}
		}
	}
}

func optExpr(f func(ast.Expr) ast.Expr, e ast.Expr) ast.Expr {
	if e == nil {
		return nil
	}
	return f(e)
}

func rewriteBlock(b *ast.BlockStmt) {
	if b == nil {
		return
	}
	for i, s := range b.List {
		b.List[i] = rewriteStmt(s)
	}
}

func rewriteStmt(s ast.Stmt) ast.Stmt {
	switch v := s.(type) {
	case *ast.BlockStmt:
		rewriteBlock(v)
	case *ast.IfStmt:
		rewriteBlock(v.Body)
		if v.Else != nil {
			v.Else = rewriteStmt(v.Else)
		}
	case *ast.ForStmt:
		rewriteBlock(v.Body)
	case *ast.RangeStmt:
		rewriteBlock(v.Body)
	case *ast.LabeledStmt:
		v.Stmt = rewriteStmt(v.Stmt)
	case *ast.SelectStmt:
		for _, c := range v.Body.List {
			cc := c.(*ast.CommClause)
			for i, st := range cc.Body {
				cc.Body[i] = rewriteStmt(st)
			}
		}
	case *ast.TypeSwitchStmt:
		for _, c := range v.Body.List {
			cc := c.(*ast.CaseClause)
			for i, st := range cc.Body {
				cc.Body[i] = rewriteStmt(st)
			}
		}
	case *ast.SwitchStmt:
		for _, c := range v.Body.List {
			cc := c.(*ast.CaseClause)
			for i, st := range cc.Body {
				cc.Body[i] = rewriteStmt(st)
			}
		}
		if r := switchToIf(v); r != nil {
			return r
		}
	case *ast.ExprStmt, *ast.AssignStmt, *ast.GoStmt, *ast.DeferStmt:
		ast.Inspect(s, func(n ast.Node) bool {
			if fl, ok := n.(*ast.FuncLit); ok {
				rewriteBlock(fl.Body)
				return false
			}
			return true
		})
	}
	return s
}

// switchToIf returns the equivalent if-chain, or nil when the switch cannot be rewritten safely.
func switchToIf(sw *ast.SwitchStmt) ast.Stmt {
	unsafe := false
	for _, c := range sw.Body.List {
		cc := c.(*ast.CaseClause)
		for _, st := range cc.Body {
			ast.Inspect(st, func(n ast.Node) bool {
				switch b := n.(type) {
				case *ast.BranchStmt:
					if b.Tok == token.FALLTHROUGH || (b.Tok == token.BREAK && b.Label == nil) {
						unsafe = true
					}
				case *ast.ForStmt, *ast.RangeStmt, *ast.SwitchStmt, *ast.SelectStmt, *ast.TypeSwitchStmt, *ast.FuncLit:
					// an unlabelled break inside these belongs to them
					return false
				}
				return true
			})
		}
	}
	if unsafe {
		return nil
	}
	var def *ast.CaseClause
	var clauses []*ast.CaseClause
	for _, c := range sw.Body.List {
		cc := c.(*ast.CaseClause)
		if cc.List == nil {
			def = cc
		} else {
			clauses = append(clauses, cc)
		}
	}
	// a default that is not last would change evaluation order only if conditions had side effects; keep it simple:
	if def != nil && len(sw.Body.List) > 0 && sw.Body.List[len(sw.Body.List)-1] != ast.Stmt(def) {
		return nil
	}
	cond := func(cc *ast.CaseClause) ast.Expr {
		var out ast.Expr
		for _, e := range cc.List {
			var c ast.Expr = e
			if sw.Tag != nil {
				c = &ast.BinaryExpr{X: sw.Tag, Op: token.EQL, Y: e}
			}
			if out == nil {
				out = c
			} else {
				out = &ast.BinaryExpr{X: out, Op: token.LOR, Y: c}
			}
		}
		return out
	}
	var tail ast.Stmt
	if def != nil {
		tail = &ast.BlockStmt{List: def.Body}
	}
	for i := len(clauses) - 1; i >= 0; i-- {
		ifs := &ast.IfStmt{If: clauses[i].Pos(), Cond: cond(clauses[i]), Body: &ast.BlockStmt{List: clauses[i].Body}, Else: tail}
		tail = ifs
	}
	if tail == nil {
		return &ast.BlockStmt{}
	}
	if ifs, ok := tail.(*ast.IfStmt); ok && sw.Init != nil {
		ifs.Init = sw.Init
	} else if sw.Init != nil {
		return &ast.BlockStmt{List: []ast.Stmt{sw.Init, tail}}
	}
	return tail
}

// WalkInlined visits fd's body in source order, following calls to unexported same-package functions/methods.
func (x *X) WalkInlined(dir string, fd *ast.FuncDecl, visit func(n ast.Node) bool) {
	stack := map[string]bool{}
	var walk func(fd *ast.FuncDecl, depth int)
	walk = func(fd *ast.FuncDecl, depth int) {
		if fd == nil || fd.Body == nil {
			return
		}
		key := fd.Name.Name
		if stack[key] || depth > 4 {
			return
		}
		stack[key] = true
		defer delete(stack, key)
		ast.Inspect(fd.Body, func(n ast.Node) bool {
			if n == nil {
				return true
			}
			if !visit(n) {
				return false
			}
			if c, ok := n.(*ast.CallExpr); ok {
				name := ""
				switch f := c.Fun.(type) {
				case *ast.Ident:
					name = f.Name
				case *ast.SelectorExpr:
					name = f.Sel.Name
				}
				if name != "" && !ast.IsExported(name) {
					if callee := x.anyFuncDecl(dir, name); callee != nil {
						// arguments are visited by the ongoing Inspect; then the callee's body
						walk(callee, depth+1)
					}
				}
			}
			return true
		})
	}
	walk(fd, 0)
}

// anyFuncDecl finds a function or method with that name in the package, or nil (no error recorded).
func (x *X) anyFuncDecl(dir, name string) *ast.FuncDecl {
	for _, f := range x.files(dir) {
		for _, d := range f.Decls {
			if fd, ok := d.(*ast.FuncDecl); ok && fd.Name.Name == name && fd.Body != nil {
				return fd
			}
		}
	}
	return nil
}

// LocalNames lists receiver, parameters, named results and locals (in order of declaration) of fd.
func (x *X) LocalNames(fd *ast.FuncDecl) (recv string, params []string, locals []string) {
	if fd.Recv != nil && len(fd.Recv.List) == 1 && len(fd.Recv.List[0].Names) == 1 {
		recv = fd.Recv.List[0].Names[0].Name
	}
	if fd.Type.Params != nil {
		for _, p := range fd.Type.Params.List {
			for _, n := range p.Names {
				params = append(params, n.Name)
			}
		}
	}
	seen := map[string]bool{}
	if fd.Body != nil {
		ast.Inspect(fd.Body, func(n ast.Node) bool {
			switch v := n.(type) {
			case *ast.AssignStmt:
				if v.Tok == token.DEFINE {
					for _, l := range v.Lhs {
						if id, ok := l.(*ast.Ident); ok && id.Name != "_" && !seen[id.Name] {
							seen[id.Name] = true
							locals = append(locals, id.Name)
						}
					}
				}
			case *ast.ValueSpec:
				for _, id := range v.Names {
					if !seen[id.Name] {
						seen[id.Name] = true
						locals = append(locals, id.Name)
					}
				}
			case *ast.RangeStmt:
				if v.Tok == token.DEFINE {
					for _, e := range []ast.Expr{v.Key, v.Value} {
						if id, ok := e.(*ast.Ident); ok && id.Name != "_" && !seen[id.Name] {
							seen[id.Name] = true
							locals = append(locals, id.Name)
						}
					}
				}
			}
			return true
		})
	}
	return
}

// RenameLocals returns src(n) with the given identifier spellings replaced (whole identifiers only) — for
// extractors that canonicalise a function's receiver/parameters/locals to role names before printing.
func (x *X) RenameLocals(n ast.Node, ren map[string]string) string {
	saved := map[*ast.Ident]string{}
	ast.Inspect(n, func(m ast.Node) bool {
		if id, ok := m.(*ast.Ident); ok {
			if to, ok := ren[id.Name]; ok && (id.Obj == nil || id.Obj.Kind == ast.Var) {
				saved[id] = id.Name
				id.Name = to
			}
		}
		if se, ok := m.(*ast.SelectorExpr); ok {
			// do not rename the selected field/method name
			ast.Inspect(se.X, func(k ast.Node) bool {
				if id, ok := k.(*ast.Ident); ok {
					if to, ok := ren[id.Name]; ok && (id.Obj == nil || id.Obj.Kind == ast.Var) {
						if _, done := saved[id]; !done {
							saved[id] = id.Name
							id.Name = to
						}
					}
				}
				return true
			})
			return false
		}
		return true
	})
	s := x.src(n)
	for id, old := range saved {
		id.Name = old
	}
	return s
}
