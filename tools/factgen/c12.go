package main

import (
	"go/ast"
	"go/token"
	"sort"
	"strconv"
)

// C12: the order of the gate calls in the four proxies and the gRPC interceptor, the shape of the gate
// statements (`if <check> { …; return }`, possibly a link of an if / else-if chain whose earlier links all
// return), the refusal statuses, the rule-map tags, the fail-closed error returns of ProcessAccessRules and the
// statelessness of the auth schemes.
//
// The facts pin EVENTS, not spelling (see normalize.go): callee and selector *names* (never receiver or local
// variable names), parameters by position, helpers by what they do; the walk follows calls into unexported
// same-package helpers (WalkInlined), constants are inlined and switches are if-chains (UseNormalizedAST).
// Unexported names are used only where route/verif_c12.go references them too (addTarget, denyByIP,
// accessRules, ipAllowTag, ipDenyTag): renaming those breaks the harness build anyway.

// markers by callee / selector name
var c12Markers = map[string]string{
	"Lookup":           "lookup", // p.Lookup(...), route.GetTable().Lookup(...)
	"AccessDeniedHTTP": "access",
	"AccessDeniedTCP":  "access",
	"AccessDeniedAddr": "access",
	"Authorized":       "auth",
	"Redirect":         "redirect", // http.Redirect: a redirect route is answered by fabio itself
	// first contact with an upstream
	"DialTimeout":      "upstream",
	"Dial":             "upstream", // net.Dial (also passed as a value), tls.Dial
	"DialContext":      "upstream",
	"ServeHTTP":        "upstream", // h.ServeHTTP(rw, r): reverse proxy / websocket handler
	"WriteProxyHeader": "upstream",
}

// c12Order lists the marker events of fd in visit order (helpers inlined), consecutive duplicates collapsed.
// calledParam >= 0 additionally makes a call of the parameter with that index an "upstream" event (the gRPC
// interceptor's handler).
func c12Order(x *X, dir string, fd *ast.FuncDecl, calledParam int) []string {
	param := ""
	if calledParam >= 0 {
		_, params, _ := x.LocalNames(fd)
		if calledParam < len(params) {
			param = params[calledParam]
		} else {
			x.fail("%s.%s has no parameter %d", dir, fd.Name.Name, calledParam)
		}
	}
	var out []string
	add := func(s string) {
		if len(out) == 0 || out[len(out)-1] != s {
			out = append(out, s)
		}
	}
	// a closure bound to a local name (`lookup := func(…) {…}`) has its effects where it is CALLED, not where it
	// is written down: its body is skipped at the definition and visited at every call of the name
	closures := map[string]*ast.FuncLit{}
	bound := map[*ast.FuncLit]bool{}
	ast.Inspect(fd.Body, func(n ast.Node) bool {
		if as, ok := n.(*ast.AssignStmt); ok && len(as.Lhs) == len(as.Rhs) {
			for i, l := range as.Lhs {
				id, isIdent := l.(*ast.Ident)
				lit, isLit := as.Rhs[i].(*ast.FuncLit)
				if isIdent && isLit {
					closures[id.Name], bound[lit] = lit, true
				}
			}
		}
		return true
	})
	active := map[string]bool{}
	var visit func(n ast.Node) bool
	visit = func(n ast.Node) bool {
		switch v := n.(type) {
		case *ast.FuncLit:
			if bound[v] {
				return false
			}
		case *ast.SelectorExpr:
			if s, ok := c12Markers[v.Sel.Name]; ok {
				add(s)
			}
		case *ast.CallExpr:
			if id, ok := v.Fun.(*ast.Ident); ok {
				if lit := closures[id.Name]; lit != nil && !active[id.Name] {
					active[id.Name] = true
					ast.Inspect(lit.Body, func(m ast.Node) bool { return m == nil || visit(m) })
					delete(active, id.Name)
				} else if param != "" && id.Name == param {
					add("upstream")
				} else if s, ok := c12Markers[id.Name]; ok {
					add(s)
				}
			}
		}
		return true
	}
	x.WalkInlined(dir, fd, visit)
	return out
}

func c12Callee(c *ast.CallExpr) string {
	switch f := c.Fun.(type) {
	case *ast.Ident:
		return f.Name
	case *ast.SelectorExpr:
		return f.Sel.Name
	}
	return ""
}

func c12EndsInReturn(b *ast.BlockStmt) bool {
	if b == nil || len(b.List) == 0 {
		return false
	}
	_, ok := b.List[len(b.List)-1].(*ast.ReturnStmt)
	return ok
}

// c12Status renders a status argument independent of its spelling: net/http status names and integer
// literals become the number, a selector becomes its selected name (codes.PermissionDenied -> PermissionDenied).
func c12Status(x *X, e ast.Expr) string {
	switch v := e.(type) {
	case *ast.BasicLit:
		if v.Kind == token.INT {
			if n, err := strconv.ParseInt(v.Value, 0, 64); err == nil {
				return strconv.FormatInt(n, 10)
			}
		}
	case *ast.SelectorExpr:
		switch v.Sel.Name {
		case "StatusForbidden":
			return "403"
		case "StatusUnauthorized":
			return "401"
		}
		return v.Sel.Name
	}
	return x.src(e)
}

// c12Gate finds, among the top-level statements of fd's body, the link `if [!]<…>.<method>(…) { …; return … }`
// of an if / else-if chain. The link is well shaped when its condition is exactly the (negated) call, it has no
// init statement, its body ends in a return and every earlier link of the same chain ends in a return too (so
// being in an else-if position does not let a request skip the gate). It returns (well shaped, status): the
// status argument of the http.Error / status.Error call in the body, normalised by c12Status.
func c12Gate(x *X, fd *ast.FuncDecl, method string, negated bool) (bool, string) {
	for _, st := range fd.Body.List {
		ifs, ok := st.(*ast.IfStmt)
		prevReturn := true
		for ok && ifs != nil {
			cond := ifs.Cond
			neg := false
			for {
				if p, isParen := cond.(*ast.ParenExpr); isParen {
					cond = p.X
					continue
				}
				if u, isNot := cond.(*ast.UnaryExpr); isNot && u.Op == token.NOT {
					cond, neg = u.X, !neg
					continue
				}
				break
			}
			if call, isCall := cond.(*ast.CallExpr); isCall && c12Callee(call) == method {
				if neg != negated || ifs.Init != nil || !c12EndsInReturn(ifs.Body) || !prevReturn {
					return false, ""
				}
				status := ""
				ast.Inspect(ifs.Body, func(n ast.Node) bool {
					if c, ok := n.(*ast.CallExpr); ok && c12Callee(c) == "Error" {
						switch len(c.Args) {
						case 3: // http.Error(w, msg, code)
							status = c12Status(x, c.Args[2])
						case 2: // status.Error(code, msg)
							status = c12Status(x, c.Args[0])
						}
					}
					return true
				})
				return true, status
			}
			prevReturn = prevReturn && c12EndsInReturn(ifs.Body)
			next, isIf := ifs.Else.(*ast.IfStmt)
			if !isIf {
				break
			}
			ifs = next
		}
	}
	return false, ""
}

// c12DeferClose: a top-level `defer <first parameter>.Close()` placed before any return statement of the body.
func c12DeferClose(x *X, fd *ast.FuncDecl) bool {
	_, params, _ := x.LocalNames(fd)
	if len(params) == 0 {
		return false
	}
	firstReturn := token.Pos(0)
	ast.Inspect(fd.Body, func(n ast.Node) bool {
		if _, isLit := n.(*ast.FuncLit); isLit {
			return false
		}
		if r, ok := n.(*ast.ReturnStmt); ok && (firstReturn == 0 || r.Pos() < firstReturn) {
			firstReturn = r.Pos()
		}
		return true
	})
	for _, st := range fd.Body.List {
		d, ok := st.(*ast.DeferStmt)
		if !ok {
			continue
		}
		sel, ok := d.Call.Fun.(*ast.SelectorExpr)
		if !ok || sel.Sel.Name != "Close" || len(d.Call.Args) != 0 {
			continue
		}
		if id, ok := sel.X.(*ast.Ident); ok && id.Name == params[0] && (firstReturn == 0 || d.Pos() < firstReturn) {
			return true
		}
	}
	return false
}

// c12IsDenyAllAssign: `<recv>.accessRules = map[…]…{"allow:ip": {}}` (or nil value) — an allow list without blocks.
func c12IsDenyAllAssign(x *X, st ast.Stmt, allowTag string) bool {
	as, ok := st.(*ast.AssignStmt)
	if !ok || as.Tok != token.ASSIGN || len(as.Lhs) != 1 || len(as.Rhs) != 1 {
		return false
	}
	sel, ok := as.Lhs[0].(*ast.SelectorExpr)
	if !ok || sel.Sel.Name != "accessRules" {
		return false
	}
	cl, ok := as.Rhs[0].(*ast.CompositeLit)
	if !ok || len(cl.Elts) != 1 {
		return false
	}
	if _, isMap := cl.Type.(*ast.MapType); !isMap {
		return false
	}
	kv, ok := cl.Elts[0].(*ast.KeyValueExpr)
	if !ok {
		return false
	}
	if k, ok := x.strLit(kv.Key); !ok || k != allowTag {
		return false
	}
	switch v := kv.Value.(type) {
	case *ast.CompositeLit:
		return len(v.Elts) == 0
	case *ast.Ident:
		return v.Name == "nil"
	}
	return false
}

// c12ReqParam: index and name of the first parameter of type *<pkg>.Request, or -1.
func c12ReqParam(fd *ast.FuncDecl) (int, string) {
	i := 0
	if fd.Type.Params == nil {
		return -1, ""
	}
	for _, p := range fd.Type.Params.List {
		isReq := false
		if st, ok := p.Type.(*ast.StarExpr); ok {
			if se, ok := st.X.(*ast.SelectorExpr); ok && se.Sel.Name == "Request" {
				isReq = true
			}
		}
		if len(p.Names) == 0 {
			i++
			continue
		}
		for _, n := range p.Names {
			if isReq {
				return i, n.Name
			}
			i++
		}
	}
	return -1, ""
}

// c12RequestReads collects what fd reads of its *http.Request parameter, as event names independent of spelling:
// "RemoteAddr" / "field:<name>" (a field), "Header.<method>:<key>" (r.Header.Get/Values/… with a literal key, "?" when
// the key is computed), "Header[]:<key>", "<method>()" (a method of the request), "pass:<callee>" (handed to a function
// outside the package or to an interface method), "other" (anything else: stored, compared, returned, …). Local
// aliases (`req := r`, `h := r.Header`) are followed, and so are unexported functions of the same package the
// request (or its header) is handed to.
func c12RequestReads(x *X, dir string, fd *ast.FuncDecl, param string, kind string, depth int, out map[string]bool) {
	if fd == nil || fd.Body == nil || depth > 4 {
		out["other"] = true
		return
	}
	names := map[string]string{param: kind}
	var stack []ast.Node
	parent := func(k int) ast.Node {
		if len(stack) > k {
			return stack[len(stack)-1-k]
		}
		return nil
	}
	lit := func(args []ast.Expr) string {
		if len(args) > 0 {
			if s, ok := x.strLit(args[0]); ok {
				return s
			}
		}
		return "?"
	}
	aliasOf := func(as *ast.AssignStmt, rhs ast.Expr) string {
		if as.Tok != token.DEFINE {
			return ""
		}
		for i, r := range as.Rhs {
			if r == rhs && i < len(as.Lhs) && len(as.Lhs) == len(as.Rhs) {
				if id, ok := as.Lhs[i].(*ast.Ident); ok {
					return id.Name
				}
			}
		}
		return ""
	}
	// uses of a header value h (an expression): h.M(lit), h[lit], alias
	headerUse := func(h ast.Expr, k int) {
		switch p := parent(k).(type) {
		case *ast.SelectorExpr:
			if c, ok := parent(k + 1).(*ast.CallExpr); ok && c.Fun == ast.Expr(p) {
				out["Header."+p.Sel.Name+":"+lit(c.Args)] = true
				return
			}
		case *ast.IndexExpr:
			if p.X == h {
				if s, ok := x.strLit(p.Index); ok {
					out["Header[]:"+s] = true
					return
				}
			}
		case *ast.AssignStmt:
			if a := aliasOf(p, h); a != "" {
				names[a] = "hdr"
				return
			}
		case *ast.CallExpr:
			for j, a := range p.Args {
				if a == h {
					if nm := c12Callee(p); nm != "" && !ast.IsExported(nm) {
						if callee := x.anyFuncDecl(dir, nm); callee != nil {
							if pn := c12ParamName(callee, j); pn != "" {
								c12RequestReads(x, dir, callee, pn, "hdr", depth+1, out)
								return
							}
						}
					}
				}
			}
		}
		out["Header:other"] = true
	}
	var visit func(n ast.Node) bool
	visit = func(n ast.Node) bool {
		if n == nil {
			stack = stack[:len(stack)-1]
			return true
		}
		if id, ok := n.(*ast.Ident); ok && names[id.Name] != "" {
			k := names[id.Name]
			// not the selected name of x.<id>, not the defining occurrence
			if se, ok := parent(0).(*ast.SelectorExpr); ok && se.Sel == id {
				stack = append(stack, n)
				return true
			}
			if as, ok := parent(0).(*ast.AssignStmt); ok {
				for _, l := range as.Lhs {
					if l == ast.Expr(id) {
						stack = append(stack, n)
						return true
					}
				}
			}
			if k == "hdr" {
				headerUse(id, 0)
			} else {
				switch p := parent(0).(type) {
				case *ast.SelectorExpr:
					switch {
					case p.Sel.Name == "Header":
						headerUse(p, 1)
					default:
						if c, ok := parent(1).(*ast.CallExpr); ok && c.Fun == ast.Expr(p) {
							out[p.Sel.Name+"()"] = true
						} else if p.Sel.Name == "RemoteAddr" {
							out["RemoteAddr"] = true
						} else {
							out["field:"+p.Sel.Name] = true
						}
					}
				case *ast.CallExpr:
					handled := false
					for j, a := range p.Args {
						if a == ast.Expr(id) {
							handled = true
							nm := c12Callee(p)
							if nm != "" && !ast.IsExported(nm) {
								if callee := x.anyFuncDecl(dir, nm); callee != nil {
									if pn := c12ParamName(callee, j); pn != "" {
										c12RequestReads(x, dir, callee, pn, "req", depth+1, out)
										break
									}
								}
							}
							out["pass:"+nm] = true
						}
					}
					if !handled {
						out["other"] = true
					}
				case *ast.AssignStmt:
					if a := aliasOf(p, id); a != "" {
						names[a] = "req"
					} else {
						out["other"] = true
					}
				default:
					out["other"] = true
				}
			}
		}
		stack = append(stack, n)
		return true
	}
	ast.Inspect(fd.Body, visit)
}

// c12ParamName: the name of fd's j-th parameter ("" if unnamed / variadic tail / out of range).
func c12ParamName(fd *ast.FuncDecl, j int) string {
	i := 0
	if fd.Type.Params == nil {
		return ""
	}
	for _, p := range fd.Type.Params.List {
		if len(p.Names) == 0 {
			i++
			continue
		}
		for _, n := range p.Names {
			if i == j {
				if _, variadic := p.Type.(*ast.Ellipsis); variadic {
					return ""
				}
				return n.Name
			}
			i++
		}
	}
	return ""
}

func init() {
	register("C12", func(x *X) error {
		x.UseNormalizedAST()

		// --- HTTP
		if fd := x.funcDecl("proxy", "HTTPProxy", "ServeHTTP"); fd != nil {
			x.defStrList("httpOrder", c12Order(x, "proxy", fd, -1))
			okA, stA := c12Gate(x, fd, "AccessDeniedHTTP", false)
			okB, stB := c12Gate(x, fd, "Authorized", true)
			x.defBool("httpGatesReturn", okA && okB)
			x.defStr("httpDeniedStatus", stA)
			x.defStr("httpUnauthorizedStatus", stB)
		}
		// --- TCP
		for _, p := range [][2]string{{"Proxy", "tcp"}, {"SNIProxy", "sni"}, {"DynamicProxy", "dyn"}} {
			fd := x.funcDecl("proxy/tcp", p[0], "ServeTCP")
			if fd == nil {
				continue
			}
			x.defStrList(p[1]+"Order", c12Order(x, "proxy/tcp", fd, -1))
			ok, _ := c12Gate(x, fd, "AccessDeniedTCP", false)
			x.defBool(p[1]+"GateReturns", ok)
			x.defBool(p[1]+"DeferClose", c12DeferClose(x, fd))
		}
		// --- gRPC interceptor: lookup, access check on the peer address, then the handler (4th parameter), which
		// runs the director and dials the upstream
		if fd := x.funcDecl("proxy", "GrpcProxyInterceptor", "Stream"); fd != nil {
			x.defStrList("grpcOrder", c12Order(x, "proxy", fd, 3))
			ok, code := c12Gate(x, fd, "AccessDeniedAddr", false)
			x.defBool("grpcGateReturns", ok)
			x.defStr("grpcDeniedCode", code)
		}
		// AccessDeniedTCP decides through AccessDeniedAddr (one decision for TCP connections and gRPC peers)
		if fd := x.funcDecl("route", "Target", "AccessDeniedTCP"); fd != nil {
			n := 0
			x.WalkInlined("route", fd, func(nd ast.Node) bool {
				if c, ok := nd.(*ast.CallExpr); ok && c12Callee(c) == "AccessDeniedAddr" {
					n++
				}
				return true
			})
			x.defBool("tcpDelegatesToAddr", n > 0)
		}

		// --- tags (the hook route/verif_c12.go references these constants by name)
		allowTag := ""
		for _, c := range []string{"ipAllowTag", "ipDenyTag"} {
			if e := x.valueSpec("route", c); e != nil {
				if s, ok := x.strLit(e); ok {
					x.defStr(c, s)
					if c == "ipAllowTag" {
						allowTag = s
					}
				} else {
					x.fail("route.%s is not a string literal", c)
				}
			}
		}

		// --- addTarget runs ProcessAccessRules on every target with options
		if fd := x.funcDecl("route", "Route", "addTarget"); fd != nil {
			n := 0
			x.WalkInlined("route", fd, func(nd ast.Node) bool {
				if c, ok := nd.(*ast.CallExpr); ok && c12Callee(c) == "ProcessAccessRules" {
					n++
				}
				return true
			})
			x.defBool("addTargetProcessesRules", n > 0)
		}

		// --- ProcessAccessRules fails closed: every `return <non-nil>` is directly preceded by the installation of
		// an allow list without blocks — either the assignment itself or a call of a helper of package route whose
		// body is exactly that assignment (whatever the helper is called)
		denyAllFuncs := map[string]bool{}
		for _, f := range x.files("route") {
			for _, d := range f.Decls {
				fd, ok := d.(*ast.FuncDecl)
				if !ok || fd.Body == nil || len(fd.Body.List) != 1 {
					continue
				}
				if c12IsDenyAllAssign(x, fd.Body.List[0], allowTag) {
					denyAllFuncs[fd.Name.Name] = true
				}
			}
		}
		if fd := x.funcDecl("route", "Target", "ProcessAccessRules"); fd != nil {
			errReturns, guarded := 0, 0
			// (only the returns of ProcessAccessRules itself: the item parser's error returns are guarded where
			// ProcessAccessRules passes them on)
			ast.Inspect(fd.Body, func(n ast.Node) bool {
				if _, isLit := n.(*ast.FuncLit); isLit {
					return false
				}
				b, ok := n.(*ast.BlockStmt)
				if !ok {
					return true
				}
				for i, st := range b.List {
					r, ok := st.(*ast.ReturnStmt)
					if !ok || len(r.Results) != 1 || x.src(r.Results[0]) == "nil" {
						continue
					}
					errReturns++
					if i == 0 {
						continue
					}
					prev := b.List[i-1]
					if c12IsDenyAllAssign(x, prev, allowTag) {
						guarded++
					} else if es, ok := prev.(*ast.ExprStmt); ok {
						if c, ok := es.X.(*ast.CallExpr); ok && denyAllFuncs[c12Callee(c)] {
							guarded++
						}
					}
				}
				return true
			})
			x.defNat("processErrorReturns", uint64(errReturns))
			x.defNat("processErrorReturnsFailClosed", uint64(guarded))
		}
		x.defBool("denyAllInstallsEmptyAllowList", c12HasInlineDenyAll(x, allowTag))

		// --- the auth schemes hold no mutable state: every type of package auth with an Authorized method is a
		// struct whose field types are among {string, *htpasswd.File}; Authorized (helpers inlined) calls only
		// BasicAuth / Header / Set / Match and stores into nothing but local variables
		fieldTypes := map[string]bool{}
		calls := map[string]bool{}
		writes := 0
		schemes := 0
		for _, f := range x.files("auth") {
			for _, d := range f.Decls {
				fd, ok := d.(*ast.FuncDecl)
				if !ok || fd.Name.Name != "Authorized" || fd.Recv == nil || fd.Body == nil || len(fd.Recv.List) != 1 {
					continue
				}
				schemes++
				rt := fd.Recv.List[0].Type
				if st, ok := rt.(*ast.StarExpr); ok {
					rt = st.X
				}
				tn, _ := rt.(*ast.Ident)
				if tn == nil {
					x.fail("auth: receiver of Authorized is not a named type")
					continue
				}
				for _, ft := range c12StructFieldTypes(x, "auth", tn.Name) {
					fieldTypes[ft] = true
				}
				x.WalkInlined("auth", fd, func(n ast.Node) bool {
					switch v := n.(type) {
					case *ast.CallExpr:
						if nm := c12Callee(v); nm != "" {
							calls[nm] = true
						}
					case *ast.AssignStmt:
						for _, l := range v.Lhs {
							if _, isIdent := l.(*ast.Ident); !isIdent {
								writes++ // anything but a local variable
							}
						}
					case *ast.IncDecStmt, *ast.GoStmt, *ast.SendStmt:
						writes++
					}
					return true
				})
			}
		}
		// --- the request path only READS the rule map: the functions of package route which store into
		// `<x>.accessRules` (assignment to the field or to an element of it), the functions from which such a store
		// can be reached through same-package calls (by name; calls through an imported package or through a field
		// of a value are other packages' methods), and which of the gate's entry points are among them
		writers := map[string]bool{}
		callees := map[string]map[string]bool{}
		for _, f := range x.files("route") {
			imports := map[string]bool{}
			for _, im := range f.Imports {
				if im.Name != nil {
					imports[im.Name.Name] = true
				} else if p, err := strconv.Unquote(im.Path.Value); err == nil {
					for i := len(p) - 1; i >= 0; i-- {
						if p[i] == '/' {
							p = p[i+1:]
							break
						}
					}
					imports[p] = true
				}
			}
			for _, d := range f.Decls {
				fd, ok := d.(*ast.FuncDecl)
				if !ok || fd.Body == nil {
					continue
				}
				name := fd.Name.Name
				if callees[name] == nil {
					callees[name] = map[string]bool{}
				}
				ast.Inspect(fd.Body, func(n ast.Node) bool {
					switch v := n.(type) {
					case *ast.AssignStmt:
						for _, l := range v.Lhs {
							if c12IsRuleMapRef(l) {
								writers[name] = true
							}
						}
					case *ast.IncDecStmt:
						if c12IsRuleMapRef(v.X) {
							writers[name] = true
						}
					case *ast.CallExpr:
						switch fn := v.Fun.(type) {
						case *ast.Ident:
							callees[name][fn.Name] = true
							if (fn.Name == "delete" || fn.Name == "clear") && len(v.Args) > 0 && c12IsRuleMapRef(v.Args[0]) {
								writers[name] = true
							}
						case *ast.SelectorExpr:
							if id, ok := fn.X.(*ast.Ident); ok && !imports[id.Name] {
								callees[name][fn.Sel.Name] = true
							}
						}
					}
					return true
				})
			}
		}
		reach := map[string]bool{}
		for w := range writers {
			reach[w] = true
		}
		for changed := true; changed; {
			changed = false
			for fn, cs := range callees {
				if reach[fn] {
					continue
				}
				for c := range cs {
					if reach[c] {
						reach[fn], changed = true, true
						break
					}
				}
			}
		}
		var onPath []string
		for _, ep := range []string{"AccessDeniedHTTP", "AccessDeniedTCP", "AccessDeniedAddr", "denyByIP", "Authorized"} {
			if x.anyFuncDecl("route", ep) == nil {
				x.fail("route.%s not found", ep)
			}
			if reach[ep] {
				onPath = append(onPath, ep)
			}
		}
		x.defSortedStrList("ruleMapWriters", c12Keys(writers))
		x.defSortedStrList("requestPathReachesRuleMapStore", onPath)
		x.defBool("addTargetReachesRuleMapStore", reach["addTarget"])

		// --- what the gate reads of the request: the decision functions look at the peer address, the
		// X-Forwarded-For lines and (through the scheme) the credentials - at nothing else a client controls
		reads := func(dir string, fd *ast.FuncDecl) []string {
			out := map[string]bool{}
			if i, nm := c12ReqParam(fd); i >= 0 {
				c12RequestReads(x, dir, fd, nm, "req", 0, out)
			} else {
				x.fail("%s.%s has no *http.Request parameter", dir, fd.Name.Name)
			}
			return c12Keys(out)
		}
		if fd := x.funcDecl("route", "Target", "AccessDeniedHTTP"); fd != nil {
			x.defSortedStrList("accessDeniedHTTPReads", reads("route", fd))
		}
		if fd := x.funcDecl("route", "Target", "Authorized"); fd != nil {
			x.defSortedStrList("targetAuthorizedReads", reads("route", fd))
		}
		schemeReads := map[string]bool{}
		for _, f := range x.files("auth") {
			for _, d := range f.Decls {
				if fd, ok := d.(*ast.FuncDecl); ok && fd.Name.Name == "Authorized" && fd.Recv != nil && fd.Body != nil {
					for _, r := range reads("auth", fd) {
						schemeReads[r] = true
					}
				}
			}
		}
		x.defSortedStrList("schemeAuthorizedReads", c12Keys(schemeReads))

		x.defNat("authSchemeTypes", uint64(schemes))
		x.defSortedStrList("authSchemeFieldTypes", c12Keys(fieldTypes))
		x.defSortedStrList("authorizedCallees", c12Keys(calls))
		x.defNat("authorizedWrites", uint64(writes))
		return nil
	})
}

// c12IsRuleMapRef: `<x>.accessRules` or an element `<x>.accessRules[…]` of it.
func c12IsRuleMapRef(e ast.Expr) bool {
	for {
		switch v := e.(type) {
		case *ast.ParenExpr:
			e = v.X
			continue
		case *ast.IndexExpr:
			e = v.X
			continue
		case *ast.SelectorExpr:
			return v.Sel.Name == "accessRules"
		}
		return false
	}
}

func c12Keys(m map[string]bool) []string {
	out := make([]string, 0, len(m))
	for k := range m {
		out = append(out, k)
	}
	sort.Strings(out)
	return out
}

// c12HasInlineDenyAll: the deny-all assignment occurs somewhere in package route (helper or inline).
func c12HasInlineDenyAll(x *X, allowTag string) bool {
	found := false
	for _, f := range x.files("route") {
		ast.Inspect(f, func(n ast.Node) bool {
			if st, ok := n.(ast.Stmt); ok && c12IsDenyAllAssign(x, st, allowTag) {
				found = true
			}
			return !found
		})
	}
	return found
}

// c12StructFieldTypes renders the field types of a struct type of the package (embedded fields included).
func c12StructFieldTypes(x *X, dir, name string) []string {
	var out []string
	for _, f := range x.files(dir) {
		for _, d := range f.Decls {
			gd, ok := d.(*ast.GenDecl)
			if !ok {
				continue
			}
			for _, sp := range gd.Specs {
				ts, ok := sp.(*ast.TypeSpec)
				if !ok || ts.Name.Name != name {
					continue
				}
				st, ok := ts.Type.(*ast.StructType)
				if !ok {
					out = append(out, "(not a struct) "+x.src(ts.Type))
					continue
				}
				for _, fl := range st.Fields.List {
					out = append(out, x.src(fl.Type))
				}
			}
		}
	}
	return out
}
