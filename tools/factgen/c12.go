package main

import (
	"go/ast"
	"go/token"
	"sort"
	"strings"
)

// C12: the order of the gate calls in the four proxies, the shape of the gate statements (top-level
// `if <check> { …; return }`), the status constants, the rule-map tags, and the fail-closed calls of
// ProcessAccessRules.

var c12Markers = map[string]string{
	"p.Lookup":           "lookup",
	"t.AccessDeniedHTTP": "access",
	"t.AccessDeniedTCP":  "access",
	"t.Authorized":       "auth",
	// a redirect route is answered by fabio itself
	"http.Redirect": "redirect",
	// first contact with an upstream
	"net.DialTimeout": "upstream",
	"net.Dial":        "upstream",
	"tls.Dial":        "upstream",
	"h.ServeHTTP":     "upstream",
	"newHTTPProxy":    "upstream",
	"newWSHandler":    "upstream",
	"WriteProxyHeader": "upstream",
	"out.Write":       "upstream",
}

type c12Event struct {
	pos  token.Pos
	step string
}

// c12Order lists the marker references of a function body in source order, consecutive duplicates collapsed.
func c12Order(x *X, fd *ast.FuncDecl) []string { return c12OrderWith(x, fd, c12Markers) }

// the gRPC interceptor: lookup, the access check on the peer address, then the handler (which runs the
// director and dials the upstream)
var c12GRPCMarkers = map[string]string{
	"g.lookup":                "lookup",
	"target.AccessDeniedAddr": "access",
	"target.Authorized":       "auth",
	"handler":                 "upstream",
}

func c12OrderWith(x *X, fd *ast.FuncDecl, c12Markers map[string]string) []string {
	var evs []c12Event
	ast.Inspect(fd.Body, func(n ast.Node) bool {
		switch v := n.(type) {
		case *ast.SelectorExpr:
			if s, ok := c12Markers[x.src(v)]; ok {
				evs = append(evs, c12Event{v.Pos(), s})
				return false
			}
		case *ast.Ident:
			if s, ok := c12Markers[v.Name]; ok {
				evs = append(evs, c12Event{v.Pos(), s})
			}
		}
		return true
	})
	sort.Slice(evs, func(i, j int) bool { return evs[i].pos < evs[j].pos })
	var out []string
	for _, e := range evs {
		if len(out) == 0 || out[len(out)-1] != e.step {
			out = append(out, e.step)
		}
	}
	return out
}

// c12Gate finds the top-level statement `if [!]<recv>.<method>(…) { …; return … }` of the body and returns
// (found and well-shaped, the source of the status argument of an http.Error call inside it or "").
func c12Gate(x *X, fd *ast.FuncDecl, method string, negated bool) (bool, string) {
	for _, st := range fd.Body.List {
		ifs, ok := st.(*ast.IfStmt)
		if !ok {
			continue
		}
		cond := ifs.Cond
		neg := false
		if u, ok := cond.(*ast.UnaryExpr); ok && u.Op == token.NOT {
			cond, neg = u.X, true
		}
		call, ok := cond.(*ast.CallExpr)
		if !ok || x.src(call.Fun) != method {
			continue
		}
		if neg != negated || ifs.Init != nil || ifs.Else != nil || len(ifs.Body.List) == 0 {
			return false, ""
		}
		if _, ok := ifs.Body.List[len(ifs.Body.List)-1].(*ast.ReturnStmt); !ok {
			return false, ""
		}
		status := ""
		for _, c := range x.calls(ifs.Body, "http.Error") {
			if len(c.Args) == 3 {
				status = x.src(c.Args[2])
			}
		}
		for _, c := range x.calls(ifs.Body, "status.Error") {
			if len(c.Args) == 2 {
				status = x.src(c.Args[0])
			}
		}
		return true, status
	}
	return false, ""
}

func c12List(vs []string) string {
	qs := make([]string, len(vs))
	for i, v := range vs {
		qs[i] = leanStr(v)
	}
	return "[" + strings.Join(qs, ", ") + "]"
}

func init() {
	register("C12", func(x *X) error {
		// --- HTTP
		if fd := x.funcDecl("proxy", "HTTPProxy", "ServeHTTP"); fd != nil {
			x.defStrList("httpOrder", c12Order(x, fd))
			okA, stA := c12Gate(x, fd, "t.AccessDeniedHTTP", false)
			okB, stB := c12Gate(x, fd, "t.Authorized", true)
			x.defBool("httpGatesReturn", okA && okB)
			x.defStr("httpDeniedStatus", stA)
			x.defStr("httpUnauthorizedStatus", stB)
		}
		// --- TCP
		for _, p := range [][2]string{{"Proxy", "tcp"}, {"SNIProxy", "sni"}, {"DynamicProxy", "dyn"}} {
			fd := x.funcDecl("proxy/tcp", p[0], "ServeTCP")
			if fd == nil {
				continue
			}
			x.defStrList(p[1]+"Order", c12Order(x, fd))
			ok, _ := c12Gate(x, fd, "t.AccessDeniedTCP", false)
			x.defBool(p[1]+"GateReturns", ok)
			// the connection is closed on every return: first statement is `defer in.Close()`
			closes := false
			if len(fd.Body.List) > 0 {
				if d, ok := fd.Body.List[0].(*ast.DeferStmt); ok && x.src(d.Call) == "in.Close()" {
					closes = true
				}
			}
			x.defBool(p[1]+"DeferClose", closes)
		}
		// --- gRPC interceptor
		if fd := x.funcDecl("proxy", "GrpcProxyInterceptor", "Stream"); fd != nil {
			x.defStrList("grpcOrder", c12OrderWith(x, fd, c12GRPCMarkers))
			ok, code := c12Gate(x, fd, "target.AccessDeniedAddr", false)
			x.defBool("grpcGateReturns", ok)
			x.defStr("grpcDeniedCode", code)
		}
		// AccessDeniedTCP decides through AccessDeniedAddr (one decision for TCP connections and gRPC peers)
		if fd := x.funcDecl("route", "Target", "AccessDeniedTCP"); fd != nil {
			x.defNat("tcpDelegatesToAddr", uint64(len(x.calls(fd.Body, "t.AccessDeniedAddr"))))
		}
		// --- the basic auth scheme holds no state besides the realm and the htpasswd file handle, and its
		// Authorized only reads the request, sets the challenge header and asks the file
		basicFields := []string{}
		for _, f := range x.files("auth") {
			for _, d := range f.Decls {
				gd, ok := d.(*ast.GenDecl)
				if !ok {
					continue
				}
				for _, sp := range gd.Specs {
					ts, ok := sp.(*ast.TypeSpec)
					if !ok || ts.Name.Name != "basic" {
						continue
					}
					st, ok := ts.Type.(*ast.StructType)
					if !ok {
						x.fail("auth.basic is not a struct")
						continue
					}
					for _, fl := range st.Fields.List {
						if len(fl.Names) == 0 {
							basicFields = append(basicFields, "(embedded) "+x.src(fl.Type))
						}
						for _, n := range fl.Names {
							basicFields = append(basicFields, n.Name+" "+x.src(fl.Type))
						}
					}
				}
			}
		}
		x.defStrList("basicFields", basicFields)
		if fd := x.funcDecl("auth", "basic", "Authorized"); fd != nil {
			var calls []string
			writes := 0
			ast.Inspect(fd.Body, func(n ast.Node) bool {
				switch v := n.(type) {
				case *ast.CallExpr:
					calls = append(calls, x.src(v.Fun))
				case *ast.AssignStmt:
					for _, l := range v.Lhs {
						if _, isIdent := l.(*ast.Ident); !isIdent {
							writes++ // anything but a local variable
						}
					}
				case *ast.IncDecStmt, *ast.GoStmt, *ast.SendStmt:
					writes++
				}
				return true
			})
			x.defStrList("basicAuthorizedCalls", calls)
			x.defNat("basicAuthorizedWrites", uint64(writes))
		}
		// --- tags
		for _, c := range []string{"ipAllowTag", "ipDenyTag"} {
			if e := x.valueSpec("route", c); e != nil {
				if s, ok := x.strLit(e); ok {
					x.defStr(c, s)
				} else {
					x.fail("route.%s is not a string literal", c)
				}
			}
		}
		// --- addTarget runs ProcessAccessRules on every target with options
		if fd := x.funcDecl("route", "Route", "addTarget"); fd != nil {
			x.defNat("addTargetProcessCalls", uint64(len(x.calls(fd.Body, "t.ProcessAccessRules"))))
		}
		// --- ProcessAccessRules fails closed: every `return <non-nil>` is directly preceded by t.denyAll()
		if fd := x.funcDecl("route", "Target", "ProcessAccessRules"); fd != nil {
			errReturns, guarded := 0, 0
			ast.Inspect(fd.Body, func(n ast.Node) bool {
				b, ok := n.(*ast.BlockStmt)
				if !ok {
					return true
				}
				for i, st := range b.List {
					r, ok := st.(*ast.ReturnStmt)
					if !ok || len(r.Results) != 1 || x.src(r.Results[0]) == "nil" {
						continue
					}
					errReturns++
					if i > 0 {
						if es, ok := b.List[i-1].(*ast.ExprStmt); ok && x.src(es.X) == "t.denyAll()" {
							guarded++
						}
					}
				}
				return true
			})
			x.defNat("processErrorReturns", uint64(errReturns))
			x.defNat("processErrorReturnsFailClosed", uint64(guarded))
		}
		// denyAll installs an allow list without blocks
		denyAll := ""
		for _, f := range x.files("route") {
			for _, d := range f.Decls {
				if fd, ok := d.(*ast.FuncDecl); ok && fd.Name.Name == "denyAll" && fd.Recv != nil && fd.Body != nil {
					denyAll = x.src(fd.Body)
				}
			}
		}
		x.defStr("denyAllBody", denyAll)
		return nil
	})
}
