package main

import (
	"go/ast"
	"go/token"
	"sort"
	"strings"
)

// C02 — table replacement is atomic, keeps the last good table, never crashes.
//
// Facts the model silently depends on, as *skeletons*: for each anchored function the ordered list of the
// control statements (if / for / range / return / continue) and of the calls and assignments that matter, every
// other statement (logging, metrics, comments) left out — so a harmless edit does not raise an alarm, while a
// reordering of "build, check error, SetTable, remember text" does.
//
//   - SetTable returns before table.Store when t == nil; Store/Load sites of the atomic cell;
//   - GetTable is one table.Load();
//   - NewTable / NewTableCustom return `nil, err` on the first failing command (never a partial table);
//     NewTableCustom rejects a nil definition list before dereferencing it (repair of D27);
//   - Parse returns the scanner error (repair of D29);
//   - watchBackend: concatenation order, skip when unchanged, `continue` on error BEFORE route.SetTable,
//     `lastTable = nextTable` AFTER it and nowhere else;
//   - customRoutes: `continue` on transport/status/decode errors, route.SetTable unconditionally after
//     NewTableCustom, the decode target declared per poll (repair of D32);
//   - the only recover() in route/, main.go, registry/custom is the guard around gobwas/glob's Match (repair of
//     D33); no other is relied upon;
//   - non-finite weights rejected in addRoute/weighRoute (repair of D02), host pattern compiled in addRoute
//     (repair of D03), no glob.MustCompile in package route;
//   - every lookup closure of main.go calls route.GetTable() exactly once.
func init() {
	register("C02", func(x *X) error {
		c02Cell(x)
		c02Build(x)
		c02Watch(x)
		c02Custom(x)
		c02Panics(x)
		c02Lookups(x)
		return nil
	})
}

type c02Skel struct {
	x     *X
	calls map[string]bool // rendered callee → keep (arguments rendered)
	vars  map[string]bool // assigned identifiers to keep
	out   []string
}

func (s *c02Skel) exprCalls(n ast.Node) {
	if n == nil {
		return
	}
	ast.Inspect(n, func(m ast.Node) bool {
		switch c := m.(type) {
		case *ast.FuncLit:
			s.block(c.Body)
			return false
		case *ast.CallExpr:
			fn := s.x.src(c.Fun)
			if s.calls[fn] {
				var as []string
				for _, a := range c.Args {
					if _, ok := a.(*ast.FuncLit); ok {
						as = append(as, "func")
					} else {
						as = append(as, s.x.src(a))
					}
				}
				s.out = append(s.out, "call:"+fn+"("+strings.Join(as, ", ")+")")
			}
		}
		return true
	})
}

func (s *c02Skel) ret(r *ast.ReturnStmt) {
	var rs []string
	for _, e := range r.Results {
		t := s.x.src(e)
		if id, ok := e.(*ast.Ident); ok {
			t = id.Name
		} else if len(t) > 40 {
			t = "_"
		}
		rs = append(rs, t)
	}
	s.out = append(s.out, strings.TrimSpace("return "+strings.Join(rs, ", ")))
	for _, e := range r.Results {
		s.exprCalls(e)
	}
}

func (s *c02Skel) block(b *ast.BlockStmt) {
	if b == nil {
		return
	}
	for _, st := range b.List {
		s.stmt(st)
	}
}

func (s *c02Skel) stmt(st ast.Stmt) {
	switch v := st.(type) {
	case *ast.BlockStmt:
		s.block(v)
	case *ast.IfStmt:
		cond := s.x.src(v.Cond)
		if v.Init != nil {
			cond = s.x.src(v.Init) + "; " + cond
		}
		if v.Init != nil {
			s.assignOnly(v.Init)
		}
		s.out = append(s.out, "if("+cond+"){")
		s.block(v.Body)
		s.out = append(s.out, "}")
		if v.Else != nil {
			s.out = append(s.out, "else{")
			s.stmt(v.Else)
			s.out = append(s.out, "}")
		}
	case *ast.ForStmt:
		s.out = append(s.out, "for{")
		s.block(v.Body)
		s.out = append(s.out, "}")
	case *ast.RangeStmt:
		s.out = append(s.out, "range("+s.x.src(v.X)+"){")
		s.block(v.Body)
		s.out = append(s.out, "}")
	case *ast.SwitchStmt:
		s.block(v.Body)
	case *ast.TypeSwitchStmt:
		s.block(v.Body)
	case *ast.SelectStmt:
		s.block(v.Body)
	case *ast.CaseClause:
		for _, b := range v.Body {
			s.stmt(b)
		}
	case *ast.CommClause:
		for _, b := range v.Body {
			s.stmt(b)
		}
	case *ast.ReturnStmt:
		s.ret(v)
	case *ast.BranchStmt:
		s.out = append(s.out, v.Tok.String())
	case *ast.AssignStmt:
		s.assignOnly(v)
		for _, r := range v.Rhs {
			s.exprCalls(r)
		}
	case *ast.ExprStmt:
		s.exprCalls(v.X)
	case *ast.DeferStmt:
		s.exprCalls(v.Call)
	case *ast.GoStmt:
		s.exprCalls(v.Call)
	case *ast.DeclStmt:
		if gd, ok := v.Decl.(*ast.GenDecl); ok {
			for _, sp := range gd.Specs {
				if vs, ok := sp.(*ast.ValueSpec); ok {
					for _, n := range vs.Names {
						if s.vars[n.Name] {
							s.out = append(s.out, "var "+n.Name)
						}
					}
					for _, val := range vs.Values {
						s.exprCalls(val)
					}
				}
			}
		}
	case *ast.LabeledStmt:
		s.stmt(v.Stmt)
	}
}

func (s *c02Skel) assignOnly(st ast.Stmt) {
	a, ok := st.(*ast.AssignStmt)
	if !ok {
		return
	}
	for i, l := range a.Lhs {
		if id, ok := l.(*ast.Ident); ok && s.vars[id.Name] {
			rhs := "_"
			if len(a.Lhs) == len(a.Rhs) {
				rhs = s.x.src(a.Rhs[i])
			}
			s.out = append(s.out, id.Name+" "+a.Tok.String()+" "+rhs)
		}
	}
}

func c02Set(xs ...string) map[string]bool {
	m := map[string]bool{}
	for _, s := range xs {
		m[s] = true
	}
	return m
}

func c02Skeleton(x *X, body *ast.BlockStmt, calls, vars map[string]bool) []string {
	s := &c02Skel{x: x, calls: calls, vars: vars}
	s.block(body)
	return s.out
}

// c02FuncsCalling lists the functions of a package that contain a call to fn.
func c02FuncsCalling(x *X, dir, fn string) []string {
	var out []string
	for _, f := range x.files(dir) {
		for _, d := range f.Decls {
			if fd, ok := d.(*ast.FuncDecl); ok && fd.Body != nil && len(x.calls(fd.Body, fn)) > 0 {
				out = append(out, fd.Name.Name)
			}
		}
	}
	sort.Strings(out)
	return out
}

func c02Cell(x *X) {
	if fd := x.funcDecl("route", "", "SetTable"); fd != nil {
		x.defStrList("setTableSkeleton", c02Skeleton(x, fd.Body, c02Set("table.Store"), nil))
	}
	if fd := x.funcDecl("route", "", "GetTable"); fd != nil {
		x.defStrList("getTableSkeleton", c02Skeleton(x, fd.Body, c02Set("table.Load"), nil))
		x.defNat("getTableStatements", uint64(len(fd.Body.List)))
	}
	x.defStrList("tableStoreSites", c02FuncsCalling(x, "route", "table.Store"))
	x.defStrList("tableLoadSites", c02FuncsCalling(x, "route", "table.Load"))
	// the cell is touched through Load/Store only: every other mention of the identifier `table` as a
	// selector base in package route would be e.g. table.CompareAndSwap / table.Swap
	var other []string
	for _, f := range x.files("route") {
		ast.Inspect(f, func(n ast.Node) bool {
			if se, ok := n.(*ast.SelectorExpr); ok {
				if id, ok := se.X.(*ast.Ident); ok && id.Name == "table" && id.Obj != nil && id.Obj.Kind == ast.Var {
					if _, isPkgVar := id.Obj.Decl.(*ast.ValueSpec); isPkgVar && se.Sel.Name != "Load" && se.Sel.Name != "Store" {
						other = append(other, se.Sel.Name)
					}
				}
			}
			return true
		})
	}
	sort.Strings(other)
	x.defStrList("tableOtherUses", other)
}

func c02Build(x *X) {
	calls := c02Set("Parse", "make", "sort.Sort")
	if fd := x.funcDecl("route", "", "NewTable"); fd != nil {
		x.defStrList("newTableSkeleton", c02Skeleton(x, fd.Body, calls, nil))
	}
	if fd := x.funcDecl("route", "", "NewTableCustom"); fd != nil {
		sk := c02Skeleton(x, fd.Body, calls, nil)
		x.defStrList("newTableCustomSkeleton", sk)
		// nil guard: `if defs == nil {` + a return with a nil table and a non-nil error, before `range(*defs)`
		guard := false
		for i, t := range sk {
			if strings.HasPrefix(t, "range(") {
				break
			}
			if t == "if(defs == nil){" && i+1 < len(sk) && strings.HasPrefix(sk[i+1], "return nil, ") && sk[i+1] != "return nil, nil" {
				guard = true
			}
		}
		x.defBool("newTableCustomNilGuard", guard)
	}
	if fd := x.funcDecl("route", "", "Parse"); fd != nil {
		x.defStrList("parseSkeleton", c02Skeleton(x, fd.Body, c02Set("scanner.Scan", "scanner.Err", "bufio.NewScanner"), nil))
	}
}

func c02Watch(x *X) {
	fd := x.funcDecl(".", "", "watchBackend")
	if fd == nil {
		return
	}
	// the `default:` clause of `switch cfg.Registry.Backend`
	var def *ast.CaseClause
	ast.Inspect(fd.Body, func(n ast.Node) bool {
		if sw, ok := n.(*ast.SwitchStmt); ok && sw.Tag != nil && x.src(sw.Tag) == "cfg.Registry.Backend" {
			for _, c := range sw.Body.List {
				if cc, ok := c.(*ast.CaseClause); ok && cc.List == nil {
					def = cc
				}
			}
		}
		return true
	})
	if def == nil {
		x.fail("watchBackend: default clause of switch cfg.Registry.Backend not found")
		return
	}
	s := &c02Skel{x: x,
		calls: c02Set("tableBuffer.WriteString", "tableBuffer.Reset", "route.ParseAliases", "registry.Default.Register", "route.NewTable", "route.SetTable", "logRoutes", "once.Do", "close"),
		vars:  c02Set("lastTable", "nextTable")}
	for _, st := range def.Body {
		s.stmt(st)
	}
	x.defStrList("watchBackendSkeleton", s.out)
	// lastTable is assigned exactly once in the whole function
	n := 0
	ast.Inspect(fd.Body, func(m ast.Node) bool {
		if a, ok := m.(*ast.AssignStmt); ok {
			for _, l := range a.Lhs {
				if id, ok := l.(*ast.Ident); ok && id.Name == "lastTable" {
					n++
				}
			}
		}
		return true
	})
	x.defNat("watchBackendLastTableAssignments", uint64(n))
	x.defNat("watchBackendSetTableCalls", uint64(len(x.calls(fd.Body, "route.SetTable"))))
}

func c02Custom(x *X) {
	fd := x.funcDecl("registry/custom", "", "customRoutes")
	if fd == nil {
		return
	}
	var loop *ast.ForStmt
	for _, st := range fd.Body.List {
		if f, ok := st.(*ast.ForStmt); ok {
			loop = f
		}
	}
	if loop == nil {
		x.fail("customRoutes: poll loop not found")
		return
	}
	s := &c02Skel{x: x, calls: c02Set("client.Do", "decoder.Decode", "route.NewTableCustom", "route.SetTable"), vars: c02Set()}
	s.block(loop.Body)
	// drop the `if resp != nil { defer … }` and `if err := resp.Body.Close()` noise: keep ifs that contain a
	// continue or follow one of the kept calls
	x.defStrList("customRoutesSkeleton", s.out)
	// where is the decode target declared?
	target := ""
	for _, c := range x.calls(loop.Body, "decoder.Decode") {
		if len(c.Args) == 1 {
			if u, ok := c.Args[0].(*ast.UnaryExpr); ok && u.Op == token.AND {
				target = x.src(u.X)
			}
		}
	}
	x.defStr("customRoutesDecodeTarget", target)
	inLoop := false
	ast.Inspect(loop.Body, func(m ast.Node) bool {
		switch d := m.(type) {
		case *ast.ValueSpec:
			for _, n := range d.Names {
				if n.Name == target {
					inLoop = true
				}
			}
		case *ast.AssignStmt:
			if d.Tok == token.DEFINE {
				for _, l := range d.Lhs {
					if id, ok := l.(*ast.Ident); ok && id.Name == target {
						inLoop = true
					}
				}
			}
		}
		return true
	})
	x.defBool("customRoutesVarInLoop", inLoop)
}

func c02Panics(x *X) {
	var rec []string
	for _, dir := range []string{"route", ".", "registry/custom"} {
		for _, f := range x.files(dir) {
			for _, d := range f.Decls {
				if fd, ok := d.(*ast.FuncDecl); ok && fd.Body != nil && len(x.calls(fd.Body, "recover")) > 0 {
					rec = append(rec, dir+":"+fd.Name.Name)
				}
			}
		}
	}
	sort.Strings(rec)
	x.defStrList("recoverSites", rec)

	guarded := func(name string) bool {
		fd := x.funcDecl("route", "Table", name)
		if fd == nil {
			return false
		}
		sk := c02Skeleton(x, fd.Body, nil, nil)
		for i, t := range sk {
			if t == "if(!validWeight(d.Weight)){" && i+1 < len(sk) && sk[i+1] == "return errInvalidWeight" {
				return true
			}
		}
		return false
	}
	x.defBool("addRouteRejectsNonFinite", guarded("addRoute"))
	x.defBool("weighRouteRejectsNonFinite", guarded("weighRoute"))
	if fd := x.funcDecl("route", "", "validWeight"); fd != nil {
		x.defBool("validWeightChecksNaNAndInf", len(x.calls(fd.Body, "math.IsNaN")) > 0 && len(x.calls(fd.Body, "math.IsInf")) > 0)
	}
	if fd := x.funcDecl("route", "Table", "addRoute"); fd != nil {
		x.defBool("addRouteCompilesHost", len(x.calls(fd.Body, "glob.Compile")) >= 2 && func() bool {
			for _, c := range x.calls(fd.Body, "glob.Compile") {
				if len(c.Args) == 1 && x.src(c.Args[0]) == "host" {
					return true
				}
			}
			return false
		}())
	}
	x.defStrList("mustCompileSites", c02FuncsCalling(x, "route", "glob.MustCompile"))
	// who calls Match on a compiled glob (method call `.Match(…)` with one argument) in package route
	var ms []string
	for _, f := range x.files("route") {
		for _, d := range f.Decls {
			fd, ok := d.(*ast.FuncDecl)
			if !ok || fd.Body == nil {
				continue
			}
			n := 0
			ast.Inspect(fd.Body, func(m ast.Node) bool {
				if c, ok := m.(*ast.CallExpr); ok && len(c.Args) == 1 {
					if se, ok := c.Fun.(*ast.SelectorExpr); ok && se.Sel.Name == "Match" {
						n++
					}
				}
				return true
			})
			if n > 0 {
				ms = append(ms, fd.Name.Name)
			}
		}
	}
	sort.Strings(ms)
	x.defStrList("globMatchSites", ms)
	if fd := x.funcDecl("route", "", "globMatch"); fd != nil {
		x.defStrList("globMatchSkeleton", c02Skeleton(x, fd.Body, c02Set("recover", "g.Match"), nil))
	}
}

// c02Lookups: every function literal or function of main.go that calls Lookup / LookupHost on a table loads
// the table exactly once.
func c02Lookups(x *X) {
	var counts []string
	for _, f := range x.files(".") {
		ast.Inspect(f, func(n ast.Node) bool {
			var body *ast.BlockStmt
			name := ""
			switch v := n.(type) {
			case *ast.FuncLit:
				body, name = v.Body, "func@"+x.fset.Position(v.Pos()).Filename[strings.LastIndex(x.fset.Position(v.Pos()).Filename, "/")+1:]
			default:
				return true
			}
			// innermost literals only: a literal that contains another lookup literal is skipped
			looks := 0
			ast.Inspect(body, func(m ast.Node) bool {
				if c, ok := m.(*ast.CallExpr); ok {
					if se, ok := c.Fun.(*ast.SelectorExpr); ok && (se.Sel.Name == "Lookup" || se.Sel.Name == "LookupHost") {
						looks++
					}
				}
				return true
			})
			if looks == 0 {
				return true
			}
			inner := false
			ast.Inspect(body, func(m ast.Node) bool {
				if fl, ok := m.(*ast.FuncLit); ok && fl.Body != body {
					inner = inner || len(x.calls(fl.Body, "route.GetTable")) > 0
				}
				return true
			})
			if inner {
				return true
			}
			counts = append(counts, name+":lookups="+itoa(looks)+":getTable="+itoa(len(x.calls(body, "route.GetTable"))))
			return true
		})
	}
	sort.Strings(counts)
	x.defStrList("lookupClosures", counts)
}

func itoa(n int) string {
	if n == 0 {
		return "0"
	}
	s := ""
	for n > 0 {
		s = string(rune('0'+n%10)) + s
		n /= 10
	}
	return s
}
