package main

import (
	"go/ast"
	"go/token"
	"os"
	"path/filepath"
	"sort"
	"strconv"
	"strings"
)

// C02 — table replacement is atomic, keeps the last good table, never crashes.
//
// Facts the model silently depends on, as ordered EVENT lists that pin meaning rather than spelling:
//
//   - the AST is normalised first (package constants inlined, literal concatenations folded, switch -> if chain);
//   - calls to unexported same-package helpers are followed into the helper (extract / inline helper): a helper
//     contributes its loops, guards, calls and stores at the call site, its own `return`s end the helper only;
//   - an `if`, `for` or `range` is an event only when something that matters happens inside it (a pinned call, a
//     pinned store, a return / continue / break of the anchored function), so logging branches, option dispatch
//     and the like do not appear;
//   - variables are named by ROLE: receiver `recv`, i-th parameter `p<i>`, a local by what it is first assigned
//     from (`NewTable#0` = first result of the call to NewTable, `recv(WatchServices#0)` = received from the
//     channel WatchServices returned, `copy(X)` = assigned from the variable with role X, range variables
//     `rangeK`/`rangeV`), a package-level variable by its type (`var:atomic.Value`), everything else `_`;
//   - `x != nil` guards are `if(≠nil)`, `x == nil` guards `if(=nil:<role>)`; returns are classified per result as
//     `nil` / `val`; a handful of net/http constants are replaced by their values.
//
// What is pinned:
//   - SetTable returns before the only Store on nil; GetTable is one Load and no other call; the cell (the
//     package-level atomic.Value) is touched by init/SetTable/GetTable through Load/Store only;
//   - NewTable / NewTableCustom return `nil, err` from every exit but the last (no partial table);
//     NewTableCustom refuses a nil definition list first (repair of D27);
//   - Parse returns the scanner error (repair of D29);
//   - watchBackend: concatenation order, skip when unchanged, `continue` on error BEFORE route.SetTable,
//     the remembered text assigned AFTER it and nowhere else;
//   - customRoutes: `continue` on transport/status/decode errors, route.SetTable unconditionally after
//     NewTableCustom, the decode target declared per poll (repair of D32);
//   - the only recover() in route/, main.go, registry/custom guards the third-party glob Match (repair of D33)
//     and every Match call of package route is inside such a function;
//   - every function of package route that reads RouteDef.Weight refuses non-finite weights (repair of D02),
//     the function that compiles route patterns compiles two different ones (host and path: repair of D03), no
//     glob.MustCompile in package route;
//   - every lookup closure of main.go calls route.GetTable() exactly once;
//   - the writers of the cell: every call of route.SetTable in the repository (all packages, test and verif files
//     excluded, import aliases resolved), by package directory and whether the call is made on the calling
//     goroutine ("sync") or from a `go` statement / function literal ("async").
func init() {
	register("C02", func(x *X) error {
		x.UseNormalizedAST()
		c02Cell(x)
		c02Build(x)
		c02Watch(x)
		c02Custom(x)
		c02Panics(x)
		c02Lookups(x)
		c02Writers(x)
		c02Readers(x)
		return nil
	})
}

// ---- roles ------------------------------------------------------------------------------------------------

var c02StdConsts = []struct{ from, to string }{
	{"http.StatusOK", "200"}, {"http.MethodGet", `"GET"`}, {"http.MethodPost", `"POST"`},
	{"http.StatusNotFound", "404"}, {"http.StatusInternalServerError", "500"},
}

// c02PkgVars maps the package-level variables of a package to "var:<type or initialiser callee>".
func c02PkgVars(x *X, dir string) map[string]string {
	out := map[string]string{}
	for _, f := range x.files(dir) {
		for _, d := range f.Decls {
			gd, ok := d.(*ast.GenDecl)
			if !ok || gd.Tok != token.VAR {
				continue
			}
			for _, s := range gd.Specs {
				vs := s.(*ast.ValueSpec)
				for i, n := range vs.Names {
					switch {
					case vs.Type != nil:
						out[n.Name] = "var:" + x.src(vs.Type)
					case i < len(vs.Values):
						if c, ok := vs.Values[i].(*ast.CallExpr); ok {
							out[n.Name] = "var:=" + x.src(c.Fun)
						} else {
							out[n.Name] = "var:_"
						}
					}
				}
			}
		}
	}
	return out
}

type c02Ctx struct {
	x       *X
	dir     string
	pkgVars map[string]string
	keep    func(callee string, args []string) bool // which calls are events (rendered callee and arguments)
	track   func(role string) bool                  // stores to which roles are events
	out     []string
	stack   map[string]bool
}

// roles computes the role of every receiver / parameter / local of fd; init gives the roles of receiver and
// parameters (for an inlined helper: the roles of the actual arguments).
func (c *c02Ctx) roles(fd *ast.FuncDecl, init map[string]string) map[string]string {
	r := map[string]string{}
	for k, v := range c.pkgVars {
		r[k] = v
	}
	recv, params, _ := c.x.LocalNames(fd)
	if recv != "" {
		r[recv] = "recv"
	}
	for i, p := range params {
		r[p] = "p" + itoa(i)
	}
	for k, v := range init {
		r[k] = v
	}
	local := map[string]bool{}
	if recv != "" {
		local[recv] = true
	}
	for _, p := range params {
		local[p] = true
	}
	set := func(id *ast.Ident, role string) {
		if id == nil || id.Name == "_" {
			return
		}
		if !local[id.Name] {
			local[id.Name] = true
			r[id.Name] = role
		}
	}
	roleOf := func(e ast.Expr, i, n int) string {
		switch v := e.(type) {
		case *ast.CallExpr:
			name := ""
			switch f := v.Fun.(type) {
			case *ast.Ident:
				if f.Name == "new" || f.Name == "make" {
					return c.x.src(v)
				}
				name = f.Name
			case *ast.SelectorExpr:
				name = f.Sel.Name
			default:
				return "_"
			}
			return name + "#" + itoa(i)
		case *ast.CompositeLit:
			return "lit:" + c.x.src(v.Type)
		case *ast.UnaryExpr:
			if v.Op == token.ARROW {
				if id, ok := v.X.(*ast.Ident); ok {
					return "recv(" + r[id.Name] + ")"
				}
				return "recv(_)"
			}
			if cl, ok := v.X.(*ast.CompositeLit); ok && v.Op == token.AND {
				return "lit:" + c.x.src(cl.Type)
			}
		case *ast.Ident:
			if ro, ok := r[v.Name]; ok && local[v.Name] && n == 1 {
				return "copy(" + ro + ")"
			}
		}
		return "_"
	}
	assign := func(lhs []ast.Expr, rhs []ast.Expr) {
		for i, l := range lhs {
			id, ok := l.(*ast.Ident)
			if !ok {
				continue
			}
			switch {
			case len(rhs) == len(lhs):
				set(id, roleOf(rhs[i], 0, 1))
			case len(rhs) == 1:
				set(id, roleOf(rhs[0], i, len(lhs)))
			default:
				set(id, "_")
			}
		}
	}
	// locals declared without a value get their role from their first assignment, so two passes: assignments
	// first (source order), then whatever is left
	if fd.Body != nil {
		ast.Inspect(fd.Body, func(n ast.Node) bool {
			switch v := n.(type) {
			case *ast.FuncLit:
				return true
			case *ast.AssignStmt:
				assign(v.Lhs, v.Rhs)
			case *ast.ValueSpec:
				if len(v.Values) > 0 {
					ls := make([]ast.Expr, len(v.Names))
					for i, n := range v.Names {
						ls[i] = n
					}
					assign(ls, v.Values)
				}
			case *ast.RangeStmt:
				if id, ok := v.Key.(*ast.Ident); ok {
					set(id, "rangeK")
				}
				if id, ok := v.Value.(*ast.Ident); ok {
					set(id, "rangeV")
				}
			}
			return true
		})
		ast.Inspect(fd.Body, func(n ast.Node) bool {
			if v, ok := n.(*ast.ValueSpec); ok {
				for _, id := range v.Names {
					if v.Type != nil {
						set(id, "decl:"+c.x.src(v.Type))
					} else {
						set(id, "_")
					}
				}
			}
			return true
		})
	}
	return r
}

// render prints an expression with identifiers replaced by roles.
func (c *c02Ctx) render(e ast.Node, roles map[string]string) string {
	s := c.x.RenameLocals(e, roles)
	for _, k := range c02StdConsts {
		s = strings.ReplaceAll(s, k.from, k.to)
	}
	return s
}

func (c *c02Ctx) cond(e ast.Expr, roles map[string]string) string {
	if b, ok := e.(*ast.BinaryExpr); ok {
		if id, ok := b.Y.(*ast.Ident); ok && id.Name == "nil" {
			switch b.Op {
			case token.NEQ:
				return "≠nil"
			case token.EQL:
				return "=nil:" + c.render(b.X, roles)
			}
		}
	}
	return c.render(e, roles)
}

func (c *c02Ctx) callee(call *ast.CallExpr, roles map[string]string) string {
	switch f := call.Fun.(type) {
	case *ast.Ident:
		return f.Name
	case *ast.SelectorExpr:
		return c.render(f.X, roles) + "." + f.Sel.Name
	}
	return "_"
}

// exprEvents emits the call events of an expression in source order and follows unexported helpers.
func (c *c02Ctx) exprEvents(n ast.Node, roles map[string]string, depth int) {
	if n == nil {
		return
	}
	ast.Inspect(n, func(m ast.Node) bool {
		switch v := m.(type) {
		case *ast.FuncLit:
			c.block(v.Body, roles, depth, true)
			return false
		case *ast.CallExpr:
			// arguments first (they are evaluated first)
			for _, a := range v.Args {
				c.exprEvents(a, roles, depth)
			}
			if se, ok := v.Fun.(*ast.SelectorExpr); ok {
				c.exprEvents(se.X, roles, depth)
			}
			name := c.callee(v, roles)
			var as []string
			for _, a := range v.Args {
				if _, ok := a.(*ast.FuncLit); ok {
					as = append(as, "func")
				} else {
					as = append(as, c.render(a, roles))
				}
			}
			if c.keep(name, as) {
				c.out = append(c.out, "call:"+name+"("+strings.Join(as, ", ")+")")
			}
			c.inline(v, roles, depth)
			return false
		}
		return true
	})
}

// inline follows a call to an unexported function or method of the same package.
func (c *c02Ctx) inline(call *ast.CallExpr, roles map[string]string, depth int) {
	name := ""
	var recvExpr ast.Expr
	switch f := call.Fun.(type) {
	case *ast.Ident:
		name = f.Name
	case *ast.SelectorExpr:
		name, recvExpr = f.Sel.Name, f.X
	}
	if name == "" || ast.IsExported(name) || depth >= 4 || c.stack[name] {
		return
	}
	fd := c.x.anyFuncDecl(c.dir, name)
	if fd == nil {
		return
	}
	init := map[string]string{}
	recv, params, _ := c.x.LocalNames(fd)
	if recv != "" && recvExpr != nil {
		init[recv] = c.render(recvExpr, roles)
	}
	for i, p := range params {
		if i < len(call.Args) {
			init[p] = c.render(call.Args[i], roles)
		}
	}
	c.stack[name] = true
	c.block(fd.Body, c.roles(fd, init), depth+1, true)
	delete(c.stack, name)
}

// wrapped runs f and keeps what it emitted, between open and "}", only if it emitted something.
func (c *c02Ctx) wrapped(open string, f func()) {
	mark := len(c.out)
	c.out = append(c.out, open)
	f()
	if len(c.out) == mark+1 {
		c.out = c.out[:mark]
		return
	}
	c.out = append(c.out, "}")
}

func (c *c02Ctx) block(b *ast.BlockStmt, roles map[string]string, depth int, helper bool) {
	if b == nil {
		return
	}
	for _, st := range b.List {
		c.stmt(st, roles, depth, helper)
	}
}

func (c *c02Ctx) assignEvents(st ast.Stmt, roles map[string]string, depth int) {
	a, ok := st.(*ast.AssignStmt)
	if !ok {
		return
	}
	for _, r := range a.Rhs {
		c.exprEvents(r, roles, depth)
	}
	for _, l := range a.Lhs {
		if id, ok := l.(*ast.Ident); ok {
			if ro, ok := roles[id.Name]; ok && c.track != nil && c.track(ro) {
				c.out = append(c.out, "set:"+ro)
			}
		} else {
			c.exprEvents(l, roles, depth)
		}
	}
}

func (c *c02Ctx) stmt(st ast.Stmt, roles map[string]string, depth int, helper bool) {
	switch v := st.(type) {
	case *ast.BlockStmt:
		c.block(v, roles, depth, helper)
	case *ast.IfStmt:
		if v.Init != nil {
			c.stmt(v.Init, roles, depth, helper)
		}
		c.exprEvents(v.Cond, roles, depth)
		c.wrapped("if("+c.cond(v.Cond, roles)+"){", func() { c.block(v.Body, roles, depth, helper) })
		if v.Else != nil {
			c.wrapped("else{", func() { c.stmt(v.Else, roles, depth, helper) })
		}
	case *ast.ForStmt:
		if v.Init != nil {
			c.stmt(v.Init, roles, depth, helper)
		}
		c.wrapped("for{", func() {
			if v.Cond != nil {
				c.exprEvents(v.Cond, roles, depth)
			}
			c.block(v.Body, roles, depth, helper)
		})
	case *ast.RangeStmt:
		c.exprEvents(v.X, roles, depth)
		c.wrapped("range{", func() { c.block(v.Body, roles, depth, helper) })
	case *ast.SwitchStmt:
		c.block(v.Body, roles, depth, helper)
	case *ast.TypeSwitchStmt:
		c.block(v.Body, roles, depth, helper)
	case *ast.SelectStmt:
		c.block(v.Body, roles, depth, helper)
	case *ast.CaseClause:
		for _, b := range v.Body {
			c.stmt(b, roles, depth, helper)
		}
	case *ast.CommClause:
		for _, b := range v.Body {
			c.stmt(b, roles, depth, helper)
		}
	case *ast.ReturnStmt:
		for _, e := range v.Results {
			c.exprEvents(e, roles, depth)
		}
		if helper {
			return // a helper's return ends the helper, not the anchored function
		}
		var rs []string
		for _, e := range v.Results {
			if id, ok := e.(*ast.Ident); ok && id.Name == "nil" {
				rs = append(rs, "nil")
			} else {
				rs = append(rs, "val")
			}
		}
		c.out = append(c.out, strings.TrimSpace("return "+strings.Join(rs, ",")))
	case *ast.BranchStmt:
		if !helper {
			c.out = append(c.out, v.Tok.String())
		}
	case *ast.AssignStmt:
		c.assignEvents(v, roles, depth)
	case *ast.ExprStmt:
		c.exprEvents(v.X, roles, depth)
	case *ast.DeferStmt:
		c.exprEvents(v.Call, roles, depth)
	case *ast.GoStmt:
		c.exprEvents(v.Call, roles, depth)
	case *ast.DeclStmt:
		if gd, ok := v.Decl.(*ast.GenDecl); ok {
			for _, sp := range gd.Specs {
				if vs, ok := sp.(*ast.ValueSpec); ok {
					for _, val := range vs.Values {
						c.exprEvents(val, roles, depth)
					}
				}
			}
		}
	case *ast.LabeledStmt:
		c.stmt(v.Stmt, roles, depth, helper)
	case *ast.SendStmt:
		c.exprEvents(v.Value, roles, depth)
	}
}

func c02Set(xs ...string) map[string]bool {
	m := map[string]bool{}
	for _, s := range xs {
		m[s] = true
	}
	return m
}

// c02Keep keeps the calls whose rendered callee is one of the given names; an entry of the form `callee(args)`
// additionally fixes the rendered arguments, an entry `.Method` matches that method on any receiver.
func c02Keep(names ...string) func(string, []string) bool {
	return func(callee string, args []string) bool {
		full := callee + "(" + strings.Join(args, ", ") + ")"
		for _, n := range names {
			switch {
			case strings.HasSuffix(n, ")"):
				if full == n {
					return true
				}
			case strings.HasPrefix(n, "."):
				if strings.HasSuffix(callee, n) {
					return true
				}
			case callee == n:
				return true
			}
		}
		return false
	}
}

// c02Events lists the events of a function body (or of some statements of it).
func c02Events(x *X, dir string, fd *ast.FuncDecl, stmts []ast.Stmt, keep func(string, []string) bool, track func(string) bool) []string {
	c := &c02Ctx{x: x, dir: dir, pkgVars: c02PkgVars(x, dir), keep: keep, track: track, stack: map[string]bool{fd.Name.Name: true}}
	roles := c.roles(fd, nil)
	if stmts == nil {
		stmts = fd.Body.List
	}
	for _, st := range stmts {
		c.stmt(st, roles, 0, false)
	}
	return c.out
}

// ---- the cell -----------------------------------------------------------------------------------------------

// c02CellVars: the package-level variables of package route of type atomic.Value.
func c02CellVars(x *X) map[string]bool {
	out := map[string]bool{}
	for n, t := range c02PkgVars(x, "route") {
		if t == "var:atomic.Value" {
			out[n] = true
		}
	}
	return out
}

func c02Cell(x *X) {
	cell := c02CellVars(x)
	x.defNat("cellVariables", uint64(len(cell)))
	keepCell := func(callee string, _ []string) bool {
		return strings.HasPrefix(callee, "var:atomic.Value.") || strings.HasPrefix(callee, "atomic.") || callee == "clear" || callee == "delete"
	}
	if fd := x.funcDecl("route", "", "SetTable"); fd != nil {
		ev := c02Events(x, "route", fd, nil, keepCell, func(ro string) bool { return strings.HasPrefix(ro, "var:") })
		x.defStrList("setTableEvents", ev)
		// derived: what SetTable does to shared state (calls on the cell / of sync/atomic / clear / delete, stores to
		// package-level variables), and what happens before the first Store on the cell
		var shared, before []string
		stored := false
		for _, e := range ev {
			if strings.HasPrefix(e, "call:") || strings.HasPrefix(e, "set:") {
				shared = append(shared, e)
			}
			if strings.HasPrefix(e, "call:var:atomic.Value.Store(") {
				stored = true
			}
			if !stored {
				before = append(before, e)
			}
		}
		x.defStrList("setTableSharedEffects", shared)
		x.defStrList("setTableBeforeStore", before)
	}
	if fd := x.funcDecl("route", "", "GetTable"); fd != nil {
		x.defStrList("getTableEvents", c02Events(x, "route", fd, nil, func(string, []string) bool { return true }, nil))
	}
	// who touches the cell, and through which methods
	var stores, loads, other []string
	for _, f := range x.files("route") {
		for _, d := range f.Decls {
			fd, ok := d.(*ast.FuncDecl)
			if !ok || fd.Body == nil {
				continue
			}
			ast.Inspect(fd.Body, func(n ast.Node) bool {
				se, ok := n.(*ast.SelectorExpr)
				if !ok {
					return true
				}
				id, ok := se.X.(*ast.Ident)
				if !ok || !cell[id.Name] || (id.Obj != nil && id.Obj.Kind == ast.Var && func() bool { _, pkg := id.Obj.Decl.(*ast.ValueSpec); return !pkg }()) {
					return true
				}
				switch se.Sel.Name {
				case "Store":
					stores = append(stores, fd.Name.Name)
				case "Load":
					loads = append(loads, fd.Name.Name)
				default:
					other = append(other, fd.Name.Name+"."+se.Sel.Name)
				}
				return true
			})
		}
	}
	sort.Strings(stores)
	sort.Strings(loads)
	sort.Strings(other)
	x.defStrList("tableStoreSites", stores)
	x.defStrList("tableLoadSites", loads)
	x.defStrList("tableOtherUses", other)
}

// ---- table construction ----------------------------------------------------------------------------------------

func c02Build(x *X) {
	keep := c02Keep("Parse", "make(Table)", "sort.Sort(rangeV)")
	if fd := x.funcDecl("route", "", "NewTable"); fd != nil {
		x.defStrList("newTableEvents", c02Events(x, "route", fd, nil, keep, nil))
	}
	if fd := x.funcDecl("route", "", "NewTableCustom"); fd != nil {
		x.defStrList("newTableCustomEvents", c02Events(x, "route", fd, nil, keep, nil))
	}
	if fd := x.funcDecl("route", "", "Parse"); fd != nil {
		ev := c02Events(x, "route", fd, nil, c02Keep("bufio.NewScanner", ".Scan", ".Err"), nil)
		// the dispatch on the line's shape (comment / blank / add / del / weight) is not pinned: keep the scanner
		// calls, the loop, the nil guards with their returns, and the final return
		var out []string
		for i := 0; i < len(ev); i++ {
			e := ev[i]
			if strings.HasPrefix(e, "if(") && e != "if(≠nil){" {
				// skip a non-nil-guard `if` with everything inside it
				depth := 1
				for i++; i < len(ev) && depth > 0; i++ {
					if strings.HasSuffix(ev[i], "{") {
						depth++
					} else if ev[i] == "}" {
						depth--
					}
				}
				i--
				continue
			}
			if e == "else{" {
				depth := 1
				for i++; i < len(ev) && depth > 0; i++ {
					if strings.HasSuffix(ev[i], "{") {
						depth++
					} else if ev[i] == "}" {
						depth--
					}
				}
				i--
				continue
			}
			out = append(out, e)
		}
		x.defStrList("parseEvents", out)
	}
}

// ---- watchBackend -----------------------------------------------------------------------------------------------

func c02Watch(x *X) {
	fd := x.funcDecl(".", "", "watchBackend")
	if fd == nil {
		return
	}
	// the else-branch of the dispatch on cfg.Registry.Backend (the `default:` clause before normalisation): the
	// branch that is taken for every backend but "custom" = the last `else` of the chain, or the default clause
	var def []ast.Stmt
	ast.Inspect(fd.Body, func(n ast.Node) bool {
		switch v := n.(type) {
		case *ast.SwitchStmt:
			if v.Tag != nil && strings.HasSuffix(x.src(v.Tag), "Registry.Backend") {
				for _, c := range v.Body.List {
					if cc, ok := c.(*ast.CaseClause); ok && cc.List == nil {
						def = cc.Body
					}
				}
			}
		case *ast.IfStmt:
			if strings.Contains(x.src(v.Cond), "Registry.Backend") && def == nil {
				var last ast.Stmt = v
				for {
					is, ok := last.(*ast.IfStmt)
					if !ok || is.Else == nil {
						break
					}
					last = is.Else
				}
				if b, ok := last.(*ast.BlockStmt); ok {
					def = b.List
				}
			}
		}
		return true
	})
	if def == nil {
		x.fail("watchBackend: branch for the text backends (default of the dispatch on cfg.Registry.Backend) not found")
		return
	}
	keep := c02Keep("new(bytes.Buffer).WriteString", "new(bytes.Buffer).Reset", "route.ParseAliases", "registry.Default.Register", "route.NewTable", "route.SetTable")
	// stores to the candidate text (assigned from the buffer's String()) and to the remembered text (copied from it)
	track := func(ro string) bool { return strings.Contains(ro, "String#0") }
	ev := c02Events(x, ".", fd, def, keep, track)
	x.defStrList("watchBackendEvents", ev)
	n := 0
	for _, e := range ev {
		if e == "set:copy(String#0)" {
			n++
		}
	}
	// stores to the remembered text anywhere in the function (all branches)
	all := c02Events(x, ".", fd, nil, func(string, []string) bool { return false }, func(ro string) bool { return ro == "copy(String#0)" })
	m := 0
	for _, e := range all {
		if e == "set:copy(String#0)" {
			m++
		}
	}
	x.defNat("watchBackendLastTableAssignments", uint64(m))
	x.defNat("watchBackendSetTableCalls", uint64(len(x.calls(fd.Body, "route.SetTable"))))
	inText := 0
	for _, e := range ev {
		if strings.HasPrefix(e, "call:route.SetTable(") {
			inText++
		}
	}
	x.defNat("watchBackendTextBranchSetTableCalls", uint64(inText))
	_ = n
}

// ---- custom backend ---------------------------------------------------------------------------------------------

func c02Custom(x *X) {
	// the poll function is found by what it does (it calls route.NewTableCustom), not by its unexported name
	var fd *ast.FuncDecl
	for _, f := range x.files("registry/custom") {
		for _, d := range f.Decls {
			if g, ok := d.(*ast.FuncDecl); ok && g.Body != nil && len(x.calls(g.Body, "route.NewTableCustom")) > 0 {
				fd = g
			}
		}
	}
	if fd == nil {
		x.fail("registry/custom: no function calls route.NewTableCustom")
		return
	}
	var loop *ast.ForStmt
	for _, st := range fd.Body.List {
		if f, ok := st.(*ast.ForStmt); ok {
			loop = f
		}
	}
	if loop == nil {
		x.fail("customRoutes: poll loop not found")
		return
	}
	keep := c02Keep(".Do", ".Decode", "route.NewTableCustom", "route.SetTable")
	x.defStrList("customRoutesEvents", c02Events(x, "registry/custom", fd, loop.Body.List, keep, nil))
	// where is the decode target declared?
	target := ""
	ast.Inspect(loop.Body, func(n ast.Node) bool {
		if c, ok := n.(*ast.CallExpr); ok && len(c.Args) == 1 {
			if se, ok := c.Fun.(*ast.SelectorExpr); ok && se.Sel.Name == "Decode" {
				if u, ok := c.Args[0].(*ast.UnaryExpr); ok && u.Op == token.AND {
					target = x.src(u.X)
				}
			}
		}
		return true
	})
	x.defBool("customRoutesDecodeTargetFound", target != "")
	inLoop := false
	ast.Inspect(loop.Body, func(m ast.Node) bool {
		switch d := m.(type) {
		case *ast.ValueSpec:
			for _, n := range d.Names {
				if n.Name == target {
					inLoop = true
				}
			}
		case *ast.AssignStmt:
			if d.Tok == token.DEFINE {
				for _, l := range d.Lhs {
					if id, ok := l.(*ast.Ident); ok && id.Name == target {
						inLoop = true
					}
				}
			}
		}
		return true
	})
	x.defBool("customRoutesVarInLoop", inLoop)
}

// ---- panic points -------------------------------------------------------------------------------------------------

// c02SelCalls: the selector names of the method/function calls in a body, sorted and unique.
func c02SelCalls(body ast.Node) []string {
	seen := map[string]bool{}
	ast.Inspect(body, func(n ast.Node) bool {
		if c, ok := n.(*ast.CallExpr); ok {
			if se, ok := c.Fun.(*ast.SelectorExpr); ok {
				seen[se.Sel.Name] = true
			}
		}
		return true
	})
	var out []string
	for k := range seen {
		out = append(out, k)
	}
	sort.Strings(out)
	return out
}

func c02HasRecover(x *X, fd *ast.FuncDecl) bool { return len(x.calls(fd.Body, "recover")) > 0 }

func c02Panics(x *X) {
	// recover sites, described by what they guard (the method calls in the recovering function)
	var rec []string
	for _, dir := range []string{"route", ".", "registry/custom"} {
		for _, f := range x.files(dir) {
			for _, d := range f.Decls {
				if fd, ok := d.(*ast.FuncDecl); ok && fd.Body != nil && c02HasRecover(x, fd) {
					rec = append(rec, dir+":recover-around:"+strings.Join(c02SelCalls(fd.Body), ","))
				}
			}
		}
	}
	sort.Strings(rec)
	x.defStrList("recoverSites", rec)
	// every one-argument `.Match(…)` call of package route sits in a function that recovers
	guarded, total := 0, 0
	for _, f := range x.files("route") {
		for _, d := range f.Decls {
			fd, ok := d.(*ast.FuncDecl)
			if !ok || fd.Body == nil {
				continue
			}
			n := 0
			ast.Inspect(fd.Body, func(m ast.Node) bool {
				if c, ok := m.(*ast.CallExpr); ok && len(c.Args) == 1 {
					if se, ok := c.Fun.(*ast.SelectorExpr); ok && se.Sel.Name == "Match" {
						n++
					}
				}
				return true
			})
			total += n
			if c02HasRecover(x, fd) {
				guarded += n
			}
		}
	}
	x.defNat("globMatchCalls", uint64(total))
	x.defNat("globMatchCallsGuarded", uint64(guarded))

	// every function of package route that reads the Weight of a *RouteDef parameter refuses non-finite values:
	// it has a guard that returns a non-nil error and whose condition (through unexported predicates) calls
	// math.IsNaN and math.IsInf
	var readers []string
	var compileArgs []int
	for _, f := range x.files("route") {
		for _, d := range f.Decls {
			fd, ok := d.(*ast.FuncDecl)
			if !ok || fd.Body == nil || fd.Type.Params == nil {
				continue
			}
			param := ""
			for _, p := range fd.Type.Params.List {
				if x.src(p.Type) == "*RouteDef" && len(p.Names) == 1 {
					param = p.Names[0].Name
				}
			}
			if param == "" {
				continue
			}
			reads := false
			ast.Inspect(fd.Body, func(n ast.Node) bool {
				if se, ok := n.(*ast.SelectorExpr); ok && se.Sel.Name == "Weight" {
					if id, ok := se.X.(*ast.Ident); ok && id.Name == param {
						reads = true
					}
				}
				return true
			})
			if reads {
				ok := false
				ast.Inspect(fd.Body, func(n ast.Node) bool {
					is, isIf := n.(*ast.IfStmt)
					if !isIf || !strings.Contains(x.src(is.Cond), param+".Weight") {
						return true
					}
					names := map[string]bool{}
					x.WalkInlined("route", &ast.FuncDecl{Name: ast.NewIdent("cond"), Type: &ast.FuncType{}, Body: &ast.BlockStmt{List: []ast.Stmt{&ast.ExprStmt{X: is.Cond}}}}, func(m ast.Node) bool {
						if c, ok := m.(*ast.CallExpr); ok {
							names[x.src(c.Fun)] = true
						}
						return true
					})
					returnsErr := false
					for _, st := range is.Body.List {
						if r, ok := st.(*ast.ReturnStmt); ok && len(r.Results) >= 1 {
							last := r.Results[len(r.Results)-1]
							if id, ok := last.(*ast.Ident); !ok || id.Name != "nil" {
								returnsErr = true
							}
						}
					}
					if names["math.IsNaN"] && names["math.IsInf"] && returnsErr {
						ok = true
					}
					return true
				})
				if ok {
					readers = append(readers, "guarded")
				} else {
					readers = append(readers, "UNGUARDED:"+fd.Name.Name)
				}
			}
			// distinct arguments handed to glob.Compile by a function that takes a *RouteDef
			args := map[string]bool{}
			for _, c := range x.calls(fd.Body, "glob.Compile") {
				if len(c.Args) == 1 {
					args[x.src(c.Args[0])] = true
				}
			}
			if len(args) > 0 {
				compileArgs = append(compileArgs, len(args))
			}
		}
	}
	sort.Strings(readers)
	x.defStrList("weightReaders", readers)
	sort.Ints(compileArgs)
	var ca []string
	for _, n := range compileArgs {
		ca = append(ca, itoa(n))
	}
	x.defStrList("routeDefGlobCompileDistinctArgs", ca)
	x.defStrList("mustCompileSites", c02FuncsCalling(x, "route", "glob.MustCompile"))
}

// c02FuncsCalling lists the functions of a package that contain a call to fn.
func c02FuncsCalling(x *X, dir, fn string) []string {
	var out []string
	for _, f := range x.files(dir) {
		for _, d := range f.Decls {
			if fd, ok := d.(*ast.FuncDecl); ok && fd.Body != nil && len(x.calls(fd.Body, fn)) > 0 {
				out = append(out, fd.Name.Name)
			}
		}
	}
	sort.Strings(out)
	return out
}

// c02Lookups: every innermost function literal of package main that calls Lookup / LookupHost on a table loads the
// table exactly once.
func c02Lookups(x *X) {
	var counts []string
	for _, f := range x.files(".") {
		ast.Inspect(f, func(n ast.Node) bool {
			v, ok := n.(*ast.FuncLit)
			if !ok {
				return true
			}
			body := v.Body
			looks := 0
			ast.Inspect(body, func(m ast.Node) bool {
				if c, ok := m.(*ast.CallExpr); ok {
					if se, ok := c.Fun.(*ast.SelectorExpr); ok && (se.Sel.Name == "Lookup" || se.Sel.Name == "LookupHost") {
						looks++
					}
				}
				return true
			})
			if looks == 0 {
				return true
			}
			inner := false
			ast.Inspect(body, func(m ast.Node) bool {
				if fl, ok := m.(*ast.FuncLit); ok && fl.Body != body {
					inner = inner || len(x.calls(fl.Body, "route.GetTable")) > 0
				}
				return true
			})
			if inner {
				return true
			}
			counts = append(counts, "lookups="+itoa(looks)+":getTable="+itoa(len(x.calls(body, "route.GetTable"))))
			return true
		})
	}
	sort.Strings(counts)
	x.defStrList("lookupClosures", counts)
}

// c02Writers: who calls route.SetTable, anywhere in the repository.
func c02Writers(x *X) {
	var dirs []string
	filepath.Walk(x.repo, func(path string, info os.FileInfo, err error) error {
		if err != nil {
			return nil
		}
		if info.IsDir() {
			n := info.Name()
			if path != x.repo && (strings.HasPrefix(n, ".") || strings.HasPrefix(n, "_") || n == "vendor" || n == "testdata" || n == "docs" || n == "demo" || n == "build") {
				return filepath.SkipDir
			}
			ents, _ := os.ReadDir(path)
			for _, e := range ents {
				if !e.IsDir() && strings.HasSuffix(e.Name(), ".go") && !strings.HasSuffix(e.Name(), "_test.go") && !strings.HasPrefix(e.Name(), "verif_") {
					rel, _ := filepath.Rel(x.repo, path)
					dirs = append(dirs, rel)
					break
				}
			}
		}
		return nil
	})
	sort.Strings(dirs)
	var sites []string
	for _, dir := range dirs {
		for _, f := range x.files(dir) {
			// the local name of package route in this file ("" = this is package route itself)
			name := ""
			if dir != "route" {
				for _, im := range f.Imports {
					p, _ := strconv.Unquote(im.Path.Value)
					if strings.HasSuffix(p, "/fabio/route") {
						name = "route"
						if im.Name != nil {
							name = im.Name.Name
						}
					}
				}
				if name == "" || name == "_" {
					continue
				}
			}
			var walk func(n ast.Node, async bool)
			walk = func(n ast.Node, async bool) {
				ast.Inspect(n, func(m ast.Node) bool {
					switch v := m.(type) {
					case *ast.GoStmt:
						if m != n {
							walk(v.Call, true)
							return false
						}
					case *ast.FuncLit:
						if m != n {
							walk(v.Body, true)
							return false
						}
					case *ast.CallExpr:
						hit := false
						if se, ok := v.Fun.(*ast.SelectorExpr); ok && name != "" {
							if id, ok := se.X.(*ast.Ident); ok && id.Name == name && se.Sel.Name == "SetTable" {
								hit = true
							}
						}
						if id, ok := v.Fun.(*ast.Ident); ok && name == "" && id.Name == "SetTable" {
							hit = true
						}
						if hit {
							if async {
								sites = append(sites, dir+":async")
							} else {
								sites = append(sites, dir+":sync")
							}
						}
					}
					return true
				})
			}
			for _, d := range f.Decls {
				if fd, ok := d.(*ast.FuncDecl); ok && fd.Body != nil {
					walk(fd.Body, false)
				}
			}
		}
	}
	sort.Strings(sites)
	x.defStrList("setTableCallers", sites)
}

// c02GoDirs: every directory of the repository that holds non-test, non-verif Go files.
func c02GoDirs(x *X) []string {
	var dirs []string
	filepath.Walk(x.repo, func(path string, info os.FileInfo, err error) error {
		if err != nil {
			return nil
		}
		if info.IsDir() {
			n := info.Name()
			if path != x.repo && (strings.HasPrefix(n, ".") || strings.HasPrefix(n, "_") || n == "vendor" || n == "testdata" || n == "docs" || n == "demo" || n == "build") {
				return filepath.SkipDir
			}
			ents, _ := os.ReadDir(path)
			for _, e := range ents {
				if !e.IsDir() && strings.HasSuffix(e.Name(), ".go") && !strings.HasSuffix(e.Name(), "_test.go") && !strings.HasPrefix(e.Name(), "verif_") {
					rel, _ := filepath.Rel(x.repo, path)
					dirs = append(dirs, rel)
					break
				}
			}
		}
		return nil
	})
	sort.Strings(dirs)
	return dirs
}

// c02Readers (round 4): who calls route.GetTable, anywhere in the repository. The cell model gives a lookup ONE load
// micro-step; `lookupClosures` pinned that for the function literals of main.go only, the gRPC director
// (proxy/grpc_handler.go) and anything inside package route were not looked at. For every INNERMOST function (a
// declaration or a function literal; calls inside a nested literal belong to the literal) that calls route.GetTable
// (import alias resolved; the bare name inside package route): the number of GetTable calls and the number of
// Lookup / LookupHost calls on something that is not an imported package (net.LookupHost is no table lookup).
//   lookupSites      — functions that load AND look up: "dir:getTable=N:lookups=M"
//   snapshotReaders  — functions that load without looking up (admin API dump, dynamic TCP listeners, gRPC pool
//                      cleanup): informational, not part of an obligation
//   routeGetTableCallers — functions of package route itself that call GetTable (a Lookup that re-loads the cell
//                      half-way would combine two tables)
func c02Readers(x *X) {
	var sites, snaps, inRoute []string
	for _, dir := range c02GoDirs(x) {
		for _, f := range x.files(dir) {
			name := ""
			pkgs := map[string]bool{}
			for _, im := range f.Imports {
				p, _ := strconv.Unquote(im.Path.Value)
				local := p[strings.LastIndex(p, "/")+1:]
				if im.Name != nil {
					local = im.Name.Name
				}
				pkgs[local] = true
				if dir != "route" && strings.HasSuffix(p, "/fabio/route") {
					name = local
				}
			}
			if dir != "route" && (name == "" || name == "_") {
				continue
			}
			isGet := func(c *ast.CallExpr) bool {
				if dir == "route" {
					id, ok := c.Fun.(*ast.Ident)
					return ok && id.Name == "GetTable"
				}
				se, ok := c.Fun.(*ast.SelectorExpr)
				if !ok {
					return false
				}
				id, ok := se.X.(*ast.Ident)
				return ok && id.Name == name && se.Sel.Name == "GetTable"
			}
			isLookup := func(c *ast.CallExpr) bool {
				se, ok := c.Fun.(*ast.SelectorExpr)
				if !ok || (se.Sel.Name != "Lookup" && se.Sel.Name != "LookupHost") {
					return false
				}
				if id, ok := se.X.(*ast.Ident); ok && pkgs[id.Name] && id.Obj == nil {
					return false
				}
				return true
			}
			var visit func(body ast.Node, fname string)
			visit = func(body ast.Node, fname string) {
				gets, looks := 0, 0
				ast.Inspect(body, func(m ast.Node) bool {
					switch v := m.(type) {
					case *ast.FuncLit:
						if v.Body != body {
							visit(v.Body, fname)
							return false
						}
					case *ast.CallExpr:
						if isGet(v) {
							gets++
						}
						if isLookup(v) {
							looks++
						}
					}
					return true
				})
				if gets == 0 {
					return
				}
				if dir == "route" {
					inRoute = append(inRoute, fname)
				}
				e := dir + ":getTable=" + itoa(gets) + ":lookups=" + itoa(looks)
				if looks > 0 {
					sites = append(sites, e)
				} else {
					snaps = append(snaps, e)
				}
			}
			for _, d := range f.Decls {
				if fd, ok := d.(*ast.FuncDecl); ok && fd.Body != nil {
					visit(fd.Body, fd.Name.Name)
				}
			}
		}
	}
	sort.Strings(sites)
	sort.Strings(snaps)
	sort.Strings(inRoute)
	x.defStrList("lookupSites", sites)
	x.defStrList("snapshotReaders", snaps)
	x.defStrList("routeGetTableCallers", inRoute)
}

func itoa(n int) string {
	if n == 0 {
		return "0"
	}
	s := ""
	for n > 0 {
		s = string(rune('0'+n%10)) + s
		n /= 10
	}
	return s
}
