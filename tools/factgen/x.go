package main

import (
	"bytes"
	"fmt"
	"go/ast"
	"go/parser"
	"go/printer"
	"go/token"
	"os"
	"path/filepath"
	"sort"
	"strconv"
	"strings"
)

// X is the extraction context: parsed packages on demand, collected Lean definitions, collected errors.
type X struct {
	repo string
	prop string
	fset *token.FileSet
	pkgs map[string][]*ast.File
	defs []string
	errs []string
	// imports / opens of the generated module (used by the translator, xlate.go)
	imports []string
	opens   []string
	// why a function could not be translated (xlate.go); empty when everything was
	xlateNotes []string
	// normalize: rewrite parsed files (constant inlining, switch -> if chains); see normalize.go
	normalize bool
}

func newX(repo, prop string) *X {
	return &X{repo: repo, prop: prop, fset: token.NewFileSet(), pkgs: map[string][]*ast.File{}}
}

func (x *X) fail(format string, a ...interface{}) { x.errs = append(x.errs, fmt.Sprintf(format, a...)) }

// files parses the non-test, non-verif Go files of a package directory (relative to the repo root).
func (x *X) files(dir string) []*ast.File {
	if fs, ok := x.pkgs[dir]; ok {
		return fs
	}
	ents, err := os.ReadDir(filepath.Join(x.repo, dir))
	if err != nil {
		x.fail("read %s: %v", dir, err)
		return nil
	}
	var out []*ast.File
	for _, e := range ents {
		n := e.Name()
		if e.IsDir() || !strings.HasSuffix(n, ".go") || strings.HasSuffix(n, "_test.go") || strings.HasPrefix(n, "verif_") {
			continue
		}
		f, err := parser.ParseFile(x.fset, filepath.Join(x.repo, dir, n), nil, parser.ParseComments)
		if err != nil {
			x.fail("parse %s/%s: %v", dir, n, err)
			continue
		}
		out = append(out, f)
	}
	if x.normalize {
		x.normalizeFiles(out)
	}
	x.pkgs[dir] = out
	return out
}

// valueSpec finds the initialiser expression of a package-level var/const.
func (x *X) valueSpec(dir, name string) ast.Expr {
	for _, f := range x.files(dir) {
		for _, d := range f.Decls {
			gd, ok := d.(*ast.GenDecl)
			if !ok {
				continue
			}
			for _, s := range gd.Specs {
				vs, ok := s.(*ast.ValueSpec)
				if !ok {
					continue
				}
				for i, n := range vs.Names {
					if n.Name == name && i < len(vs.Values) {
						return vs.Values[i]
					}
				}
			}
		}
	}
	x.fail("%s: package-level %q not found", dir, name)
	return nil
}

// funcDecl finds a function or method (recv == "" for plain functions; recv is the receiver type name
// without '*').
func (x *X) funcDecl(dir, recv, name string) *ast.FuncDecl {
	for _, f := range x.files(dir) {
		for _, d := range f.Decls {
			fd, ok := d.(*ast.FuncDecl)
			if !ok || fd.Name.Name != name {
				continue
			}
			r := ""
			if fd.Recv != nil && len(fd.Recv.List) == 1 {
				t := fd.Recv.List[0].Type
				if st, ok := t.(*ast.StarExpr); ok {
					t = st.X
				}
				if id, ok := t.(*ast.Ident); ok {
					r = id.Name
				}
			}
			if r == recv {
				return fd
			}
		}
	}
	x.fail("%s: func %s.%s not found", dir, recv, name)
	return nil
}

// strLit evaluates a string literal expression (basic literal or concatenation of literals).
func (x *X) strLit(e ast.Expr) (string, bool) {
	switch v := e.(type) {
	case *ast.BasicLit:
		if v.Kind == token.STRING || v.Kind == token.CHAR {
			s, err := strconv.Unquote(v.Value)
			if err == nil {
				return s, true
			}
		}
	case *ast.BinaryExpr:
		if v.Op == token.ADD {
			a, ok1 := x.strLit(v.X)
			b, ok2 := x.strLit(v.Y)
			return a + b, ok1 && ok2
		}
	case *ast.ParenExpr:
		return x.strLit(v.X)
	}
	return "", false
}

// src renders an expression or statement back to Go source on one line (whitespace collapsed).
func (x *X) src(n ast.Node) string {
	var b bytes.Buffer
	printer.Fprint(&b, x.fset, n)
	return strings.Join(strings.Fields(b.String()), " ")
}

// callArgs returns the first call to fn (an identifier or pkg.Sel rendering) inside node, with its args.
func (x *X) calls(node ast.Node, fn string) []*ast.CallExpr {
	var out []*ast.CallExpr
	ast.Inspect(node, func(n ast.Node) bool {
		if c, ok := n.(*ast.CallExpr); ok && x.src(c.Fun) == fn {
			out = append(out, c)
		}
		return true
	})
	return out
}

// mapKeys returns the string keys of a composite map literal, in source order.
func (x *X) mapKeys(e ast.Expr) []string {
	cl, ok := e.(*ast.CompositeLit)
	if !ok {
		x.fail("not a composite literal: %s", x.src(e))
		return nil
	}
	var ks []string
	for _, el := range cl.Elts {
		kv, ok := el.(*ast.KeyValueExpr)
		if !ok {
			x.fail("map element without key: %s", x.src(el))
			continue
		}
		s, ok := x.strLit(kv.Key)
		if !ok {
			ks = append(ks, x.src(kv.Key))
			continue
		}
		ks = append(ks, s)
	}
	return ks
}

// ---- Lean output ----

func leanStr(s string) string {
	var b strings.Builder
	b.WriteByte('"')
	for _, r := range s {
		switch {
		case r == '"':
			b.WriteString(`\"`)
		case r == '\\':
			b.WriteString(`\\`)
		case r == '\n':
			b.WriteString(`\n`)
		case r == '\t':
			b.WriteString(`\t`)
		case r == '\r':
			b.WriteString(`\r`)
		case r < 0x20 || r == 0x7f:
			fmt.Fprintf(&b, `\x%02x`, r)
		default:
			b.WriteRune(r)
		}
	}
	b.WriteByte('"')
	return b.String()
}

func (x *X) defStr(name, v string)  { x.defs = append(x.defs, fmt.Sprintf("def %s : String := %s", name, leanStr(v))) }
func (x *X) defNat(name string, v uint64) { x.defs = append(x.defs, fmt.Sprintf("def %s : Nat := %d", name, v)) }
func (x *X) defInt(name string, v int64)  { x.defs = append(x.defs, fmt.Sprintf("def %s : Int := %d", name, v)) }
func (x *X) defBool(name string, v bool)  { x.defs = append(x.defs, fmt.Sprintf("def %s : Bool := %v", name, v)) }
func (x *X) defStrList(name string, vs []string) {
	qs := make([]string, len(vs))
	for i, v := range vs {
		qs[i] = leanStr(v)
	}
	x.defs = append(x.defs, fmt.Sprintf("def %s : List String := [%s]", name, strings.Join(qs, ", ")))
}
func (x *X) defSortedStrList(name string, vs []string) {
	c := append([]string(nil), vs...)
	sort.Strings(c)
	x.defStrList(name, c)
}
func (x *X) defRaw(s string) { x.defs = append(x.defs, s) }

func (x *X) render() string {
	var b strings.Builder
	seen := map[string]bool{}
	for _, im := range x.imports {
		if !seen[im] {
			fmt.Fprintf(&b, "import %s\n", im)
			seen[im] = true
		}
	}
	fmt.Fprintf(&b, "-- GENERATED by /verif/tools/factgen from the current /repo tree. Do not edit.\n")
	fmt.Fprintf(&b, "namespace Fabio.Generated.%s\n", x.prop)
	for _, o := range x.opens {
		if !seen["open "+o] {
			fmt.Fprintf(&b, "open %s\n", o)
			seen["open "+o] = true
		}
	}
	fmt.Fprintf(&b, "\n")
	for _, d := range x.defs {
		b.WriteString(d)
		b.WriteString("\n\n")
	}
	fmt.Fprintf(&b, "end Fabio.Generated.%s\n", x.prop)
	return b.String()
}
