module verif/factgen

go 1.24.0
