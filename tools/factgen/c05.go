package main

import (
	"bufio"
	"go/ast"
	"go/token"
	"sort"
	"strings"
)

// C05 — facts the parser/table/rendering models silently depend on.
//
// The facts pin MEANING, not spelling, so that behaviour-preserving refactorings stay quiet:
//   - the AST is normalised (constants inlined, switch → if-chain), x.UseNormalizedAST;
//   - functions are found by ROLE, starting from the exported entry points the harness hooks use (Parse,
//     NewTable, Table.String, Route.TargetConfig, Routes.Less, hostpath): "the handler NewTable calls when
//     d.Cmd == "route add"", "the regex whose MatchString guards the call", …, never by an unexported name;
//   - bodies are walked with x.WalkInlined (calls into unexported same-package functions are followed), and what
//     is pinned are ordered EVENTS: regex sources consulted, library calls, guard conditions, format strings;
//   - expressions are printed as SHAPES: every local variable / parameter / receiver is `_`, every unexported
//     same-package callee is `ƒ`, every package-level variable is `g`; selected field names, exported and library callees, literals and operators stay.
//     Where the orientation of two variables matters (Routes.Less) the variables are named by role instead
//     (recv, p0, p1, v0, v1 in declaration order).
func init() {
	register("C05", func(x *X) error {
		x.UseNormalizedAST()
		const dir = "route"
		c := &c05{x: x, dir: dir}
		c.scanPackage()

		// Extraction problems inside a soft section concern change detectors only (Props/C05Pins.lean): they are
		// reported as `pinNotes`, not as a failure of the extractor. Hard (obligations, Props/C05Facts.lean): the
		// regular expressions Parse consults and the statelessness of its loop.
		var pinNotes []string
		soft := func(f func()) {
			n := len(x.errs)
			f()
			pinNotes = append(pinNotes, x.errs[n:]...)
			x.errs = x.errs[:n]
		}

		// --- Parse: the regexes consulted, in order, through the three command parsers -----------------
		parse := x.funcDecl(dir, "", "Parse")
		if parse != nil {
			var regexEvents []string
			libs := map[string]bool{}
			continues := 0
			var continueGuards, appends []string
			var guard []string // stack of enclosing if conditions is not tracked by ast.Inspect: use a parent map
			_ = guard
			parents := c.parentsInlined(parse)
			c.walk(parse, func(n ast.Node) bool {
				switch v := n.(type) {
				case *ast.CallExpr:
					if sel, ok := v.Fun.(*ast.SelectorExpr); ok {
						switch sel.Sel.Name {
						case "MatchString":
							regexEvents = append(regexEvents, "match:"+c.regexSource(sel.X))
						case "FindStringSubmatch":
							regexEvents = append(regexEvents, "find:"+c.regexSource(sel.X))
						}
						if id, ok := sel.X.(*ast.Ident); ok && (id.Name == "strings" || id.Name == "strconv") {
							libs[c.libShape(v)] = true
						}
					}
					if id, ok := v.Fun.(*ast.Ident); ok && id.Name == "append" {
						appends = append(appends, c.shape(v))
					}
				case *ast.BranchStmt:
					if v.Tok == token.CONTINUE {
						continues++
						if is := c05EnclosingIf(parents, v); is != nil {
							continueGuards = append(continueGuards, c.shape(is.Cond))
						}
					}
				}
				return true
			})
			x.defStrList("regexEvents", regexEvents)
			x.defSortedStrList("regexSources", c05Uniq(regexEvents))
			x.defSortedStrList("parseLibCalls", c05Keys(libs))
			x.defNat("parseContinues", uint64(continues))
			x.defStrList("parseContinueGuards", continueGuards)
			x.defStrList("parseAppends", appends)

			// scanner handling and state carried from line to line (in Parse itself)
			methods := map[string]int{}
			ast.Inspect(parse.Body, func(n ast.Node) bool {
				if call, ok := n.(*ast.CallExpr); ok {
					methods[x.src(call.Fun)]++ // package-qualified calls
					if sel, ok := call.Fun.(*ast.SelectorExpr); ok {
						methods["."+sel.Sel.Name]++
					}
				}
				return true
			})
			x.defBool("parseUsesNewScanner", methods["bufio.NewScanner"] == 1)
			x.defBool("parseChecksScannerErr", methods[".Err"] > 0)
			x.defBool("parseSetsScannerBuffer", methods[".Buffer"] > 0 || methods[".Split"] > 0)
			x.defBool("parseTrimsSpace", methods["strings.TrimSpace"] == 1)
			// variables that live across iterations of the scan loop: declared in Parse before the loop
			carried := 0
			for _, st := range parse.Body.List {
				if _, ok := st.(*ast.ForStmt); ok {
					break
				}
				switch v := st.(type) {
				case *ast.DeclStmt:
					if gd, ok := v.Decl.(*ast.GenDecl); ok {
						for _, s := range gd.Specs {
							if vs, ok := s.(*ast.ValueSpec); ok {
								carried += len(vs.Names)
							}
						}
					}
				case *ast.AssignStmt:
					if v.Tok == token.DEFINE {
						carried += len(v.Lhs)
					}
				}
			}
			x.defNat("parseLoopCarriedVars", uint64(carried))
		}
		x.defNat("maxScanTokenSize", uint64(bufio.MaxScanTokenSize)) // the Go standard library factgen is built with

		soft(func() {
			// --- the three command handlers, found from NewTable by the command they are called for ----------
			newTable := x.funcDecl(dir, "", "NewTable")
			handlers := map[string]*ast.FuncDecl{}
			if newTable != nil {
				c.walk(newTable, func(n ast.Node) bool {
					is, ok := n.(*ast.IfStmt)
					if !ok {
						return true
					}
					cond := c.shape(is.Cond)
					for _, cmd := range []string{"route add", "route del", "route weight"} {
						if cond == `_.Cmd == "`+cmd+`"` && handlers[cmd] == nil {
							ast.Inspect(is.Body, func(m ast.Node) bool {
								if call, ok := m.(*ast.CallExpr); ok && handlers[cmd] == nil {
									if fd := c.callee(call); fd != nil {
										handlers[cmd] = fd
									}
								}
								return true
							})
						}
					}
					return true
				})
				for _, cmd := range []string{"route add", "route del", "route weight"} {
					if handlers[cmd] == nil {
						x.fail("NewTable: no handler found for command %q", cmd)
					}
				}
				// the final sort
				sorts := 0
				c.walk(newTable, func(n ast.Node) bool {
					if call, ok := n.(*ast.CallExpr); ok && x.src(call.Fun) == "sort.Sort" {
						sorts++
					}
					return true
				})
				x.defBool("newTableSorts", sorts > 0)
			}
			usesLower := func(fd *ast.FuncDecl) bool {
				found := false
				if fd != nil {
					c.walk(fd, func(n ast.Node) bool {
						if call, ok := n.(*ast.CallExpr); ok && x.src(call.Fun) == "strings.ToLower" {
							found = true
						}
						return true
					})
				}
				return found
			}
			x.defBool("addLowersHost", usesLower(handlers["route add"]))
			x.defBool("delLowersHost", usesLower(handlers["route del"]))
			x.defBool("weightLowersHost", usesLower(handlers["route weight"]))

			// guard conditions (shapes) met on the way through a handler, in order
			ifConds := func(fd *ast.FuncDecl, keep func(s string) bool) []string {
				var out []string
				if fd != nil {
					c.walk(fd, func(n ast.Node) bool {
						if is, ok := n.(*ast.IfStmt); ok {
							if s := c.shape(is.Cond); keep(s) {
								out = append(out, s)
							}
						}
						return true
					})
				}
				return out
			}
			all := func(string) bool { return true }

			// del: the four forms (conditions on the command's fields) and the predicates handed to filter
			if fd := handlers["route del"]; fd != nil {
				x.defStrList("delCases", ifConds(fd, func(s string) bool {
					return strings.Contains(s, ".Tags") || strings.Contains(s, ".Src") || strings.Contains(s, ".Dst")
				}))
				var preds []string
				c.walk(fd, func(n ast.Node) bool {
					if fl, ok := n.(*ast.FuncLit); ok {
						for _, st := range fl.Body.List {
							if rs, ok := st.(*ast.ReturnStmt); ok && len(rs.Results) == 1 {
								preds = append(preds, c.shape(rs.Results[0]))
							}
						}
					}
					return true
				})
				x.defStrList("delPredicates", preds)
				deletes := 0
				c.walk(fd, func(n ast.Node) bool {
					if call, ok := n.(*ast.CallExpr); ok && x.src(call.Fun) == "delete" {
						deletes++
					}
					return true
				})
				x.defBool("delDeletesHosts", deletes > 0)
			}
			// add: the clamp of negative weights and the de-duplication test that follows it
			if fd := handlers["route add"]; fd != nil {
				conds := ifConds(fd, all)
				var pre []string
				for i, s := range conds {
					if strings.Contains(s, "reflect.DeepEqual") || strings.Contains(s, ".Service == _") {
						if i > 0 {
							pre = append(pre, conds[i-1])
						}
						pre = append(pre, s)
						break
					}
				}
				x.defStrList("addClampAndDedup", pre)
			}
			// weight: which targets match, and the share is divided by their number
			if fd := handlers["route weight"]; fd != nil {
				x.defStrList("weightMatchConds", ifConds(fd, func(s string) bool {
					return strings.Contains(s, ".Service") || strings.Contains(s, ".Tags")
				}))
				divides := false
				c.walk(fd, func(n ast.Node) bool {
					if be, ok := n.(*ast.BinaryExpr); ok && be.Op == token.QUO && c.shape(be) == "_ / float64(_)" {
						divides = true
					}
					return true
				})
				x.defBool("weightDividesByMatches", divides)
			}

			// Routes.Less: variables named by role (receiver, parameters, locals in declaration order)
			if fd := x.funcDecl(dir, "Routes", "Less"); fd != nil {
				ren := c.roleNames(fd)
				var evs []string
				ast.Inspect(fd.Body, func(n ast.Node) bool {
					switch v := n.(type) {
					case *ast.AssignStmt:
						evs = append(evs, x.RenameLocals(v, ren))
					case *ast.IfStmt:
						evs = append(evs, "if "+x.RenameLocals(v.Cond, ren))
					case *ast.ReturnStmt:
						evs = append(evs, x.RenameLocals(v, ren))
					}
					return true
				})
				x.defStrList("lessEvents", evs)
			}
			// hostpath (named by the harness hook)
			if fd := x.funcDecl(dir, "", "hostpath"); fd != nil {
				libs := map[string]bool{}
				c.walk(fd, func(n ast.Node) bool {
					if call, ok := n.(*ast.CallExpr); ok {
						if sel, ok := call.Fun.(*ast.SelectorExpr); ok {
							if id, ok := sel.X.(*ast.Ident); ok && id.Name == "strings" && sel.Sel.Name != "ToLower" {
								libs[c.libShape(call)] = true
							}
						}
					}
					return true
				})
				x.defSortedStrList("hostpathCalls", c05Keys(libs))
			}

			// --- rendering -------------------------------------------------------------------------------------
			if fd := x.funcDecl(dir, "Route", "TargetConfig"); fd != nil {
				var fmts []string
				sortsKeys := false
				c.walk(fd, func(n ast.Node) bool {
					if call, ok := n.(*ast.CallExpr); ok {
						switch x.src(call.Fun) {
						case "fmt.Sprintf":
							if s, ok := x.strLit(call.Args[0]); ok {
								fmts = append(fmts, s)
							} else {
								x.fail("TargetConfig: Sprintf format is not a literal: %s", x.src(call))
							}
						case "sort.Strings":
							sortsKeys = true
						}
					}
					return true
				})
				x.defStrList("targetConfigFormats", fmts)
				x.defBool("targetConfigSortsKeys", sortsKeys)
				x.defStrList("targetConfigGuards", ifConds(fd, all))
			}
			if fd := x.funcDecl(dir, "Table", "String"); fd != nil {
				var joins, sorts []string
				c.walk(fd, func(n ast.Node) bool {
					if call, ok := n.(*ast.CallExpr); ok {
						switch x.src(call.Fun) {
						case "strings.Join":
							joins = append(joins, c.shape(call))
						case "sort.Sort":
							sorts = append(sorts, c.shape(call))
						}
					}
					return true
				})
				x.defStrList("tableStringJoins", joins)
				x.defStrList("tableStringSorts", sorts)
				x.defSortedStrList("tableStringSkips", c05Uniq(ifConds(fd, func(s string) bool { return strings.Contains(s, ".Weight") })))
			}

			// --- round 3: validWeight, option-derived fields, ParseAliases, the admin endpoint ------------------
			// add / weight: the guards on the command's own fields, in order (prefix, target, weight)
			fieldGuards := func(fd *ast.FuncDecl) []string {
				return ifConds(fd, func(s string) bool {
					return strings.HasPrefix(s, "_.Src ==") || strings.HasPrefix(s, "_.Dst ==") || strings.Contains(s, "(_.Weight)")
				})
			}
			x.defStrList("addFieldGuards", fieldGuards(handlers["route add"]))
			x.defStrList("weightFieldGuards", fieldGuards(handlers["route weight"]))
			// the option keys the add handler reads (m["key"] with a literal key), and the redirect range check
			if fd := handlers["route add"]; fd != nil {
				keys := map[string]bool{}
				c.walk(fd, func(n ast.Node) bool {
					if ix, ok := n.(*ast.IndexExpr); ok {
						if k, ok := x.strLit(ix.Index); ok {
							keys[k] = true
						}
					}
					return true
				})
				x.defSortedStrList("addOptionKeys", c05Keys(keys))
				x.defSortedStrList("redirectRangeConds", c05Uniq(ifConds(fd, func(s string) bool { return strings.Contains(s, "RedirectCode") })))
			}
			// ParseAliases: the same dispatch as Parse, lines from strings.Split, the option it looks up
			if fd := x.funcDecl(dir, "", "ParseAliases"); fd != nil {
				var evs, splits []string
				keys := map[string]bool{}
				c.walk(fd, func(n ast.Node) bool {
					switch v := n.(type) {
					case *ast.CallExpr:
						if sel, ok := v.Fun.(*ast.SelectorExpr); ok {
							switch sel.Sel.Name {
							case "MatchString":
								evs = append(evs, "match:"+c.regexSource(sel.X))
							case "FindStringSubmatch":
								evs = append(evs, "find:"+c.regexSource(sel.X))
							}
						}
						if fn := x.src(v.Fun); fn == "strings.Split" || fn == "bufio.NewScanner" || fn == "strings.TrimSpace" {
							splits = append(splits, c.libShape(v))
						}
					case *ast.IndexExpr:
						if k, ok := x.strLit(v.Index); ok {
							keys[k] = true
						}
					}
					return true
				})
				x.defStrList("aliasRegexEvents", evs)
				x.defSortedStrList("aliasLineCalls", c05Uniq(splits))
				x.defSortedStrList("aliasOptionKeys", c05Keys(keys))
			}
		})

		// admin/api: what the routes handler prints
		soft(func() {
			const adir = "admin/api"
			ca := &c05{x: x, dir: adir}
			ca.scanPackage()
			if fd := x.funcDecl(adir, "RoutesHandler", "ServeHTTP"); fd != nil {
				var calls []string
				ast.Inspect(fd.Body, func(n ast.Node) bool {
					if call, ok := n.(*ast.CallExpr); ok {
						switch x.src(call.Fun) {
						case "fmt.Fprintln", "fmt.Fprint", "fmt.Fprintf", "sort.Strings", "route.GetTable":
							calls = append(calls, ca.shape(call))
						}
					}
					return true
				})
				x.defStrList("apiRoutesCalls", calls)
			}
		})
		x.defStrList("pinNotes", pinNotes)
		return nil
	})
}

// ---- helpers ------------------------------------------------------------------------------------------------

type c05 struct {
	x        *X
	dir      string
	pkgNames map[string]bool // package-level functions, variables, constants, types
	imports  map[string]bool
	pkgVars  map[string]ast.Expr // package-level var initialisers
}

var c05Universe = map[string]bool{"nil": true, "true": true, "false": true, "len": true, "cap": true, "append": true, "make": true,
	"new": true, "delete": true, "copy": true, "panic": true, "string": true, "int": true, "int64": true, "float64": true,
	"bool": true, "byte": true, "rune": true, "error": true, "uint64": true, "iota": true, "struct": true, "_": true}

func c05Uniq(xs []string) []string {
	m := map[string]bool{}
	for _, s := range xs {
		m[s] = true
	}
	return c05Keys(m)
}

func c05Keys(m map[string]bool) []string {
	var out []string
	for k := range m {
		out = append(out, k)
	}
	sort.Strings(out)
	return out
}

func (c *c05) scanPackage() {
	c.pkgNames, c.imports, c.pkgVars = map[string]bool{}, map[string]bool{}, map[string]ast.Expr{}
	for _, f := range c.x.files(c.dir) {
		for _, im := range f.Imports {
			p := strings.Trim(im.Path.Value, `"`)
			name := p[strings.LastIndex(p, "/")+1:]
			if im.Name != nil {
				name = im.Name.Name
			}
			c.imports[name] = true
		}
		for _, d := range f.Decls {
			switch v := d.(type) {
			case *ast.FuncDecl:
				if v.Recv == nil {
					c.pkgNames[v.Name.Name] = true
				}
			case *ast.GenDecl:
				for _, s := range v.Specs {
					switch sp := s.(type) {
					case *ast.ValueSpec:
						for i, n := range sp.Names {
							c.pkgNames[n.Name] = true
							if v.Tok == token.VAR && i < len(sp.Values) {
								c.pkgVars[n.Name] = sp.Values[i]
							}
						}
					case *ast.TypeSpec:
						c.pkgNames[sp.Name.Name] = true
					}
				}
			}
		}
	}
}

// callee resolves a call to an unexported function or method of the package.
func (c *c05) callee(call *ast.CallExpr) *ast.FuncDecl {
	name := ""
	switch f := call.Fun.(type) {
	case *ast.Ident:
		name = f.Name
	case *ast.SelectorExpr:
		if id, ok := f.X.(*ast.Ident); ok && c.imports[id.Name] {
			return nil
		}
		name = f.Sel.Name
	}
	if name == "" || ast.IsExported(name) || c05Universe[name] {
		return nil
	}
	return c.x.anyFuncDecl(c.dir, name)
}

// candidates lists every function or method of the package with that (unexported) name: without type
// information a method call `v.config()` may mean Table.config or Route.config — both are followed.
func (c *c05) candidates(call *ast.CallExpr) []*ast.FuncDecl {
	name := ""
	switch f := call.Fun.(type) {
	case *ast.Ident:
		name = f.Name
	case *ast.SelectorExpr:
		if id, ok := f.X.(*ast.Ident); ok && c.imports[id.Name] {
			return nil
		}
		name = f.Sel.Name
	}
	if name == "" || ast.IsExported(name) || c05Universe[name] {
		return nil
	}
	var out []*ast.FuncDecl
	for _, f := range c.x.files(c.dir) {
		for _, d := range f.Decls {
			if fd, ok := d.(*ast.FuncDecl); ok && fd.Name.Name == name && fd.Body != nil {
				out = append(out, fd)
			}
		}
	}
	return out
}

// walk visits fd's body in source order and follows calls into unexported same-package functions and methods
// (depth ≤ 4, never into a function already on the stack): like x.WalkInlined, but every same-named candidate
// is followed.
func (c *c05) walk(fd *ast.FuncDecl, visit func(n ast.Node) bool) {
	stack := map[*ast.FuncDecl]bool{}
	var rec func(fd *ast.FuncDecl, depth int)
	rec = func(fd *ast.FuncDecl, depth int) {
		if fd == nil || fd.Body == nil || stack[fd] || depth > 4 {
			return
		}
		stack[fd] = true
		defer delete(stack, fd)
		ast.Inspect(fd.Body, func(n ast.Node) bool {
			if n == nil {
				return true
			}
			if !visit(n) {
				return false
			}
			if call, ok := n.(*ast.CallExpr); ok {
				for _, cd := range c.candidates(call) {
					rec(cd, depth+1)
				}
			}
			return true
		})
	}
	rec(fd, 0)
}

// libShape prints a library call as callee plus its literal arguments (anything else is `_`).
func (c *c05) libShape(call *ast.CallExpr) string {
	var args []string
	for _, a := range call.Args {
		if lit, ok := a.(*ast.BasicLit); ok {
			args = append(args, lit.Value)
		} else {
			args = append(args, "_")
		}
	}
	return c.x.src(call.Fun) + "(" + strings.Join(args, ", ") + ")"
}

// shape prints a node with local variables as `_` and unexported same-package callees as `ƒ`.
func (c *c05) shape(n ast.Node) string {
	saved := map[*ast.Ident]string{}
	set := func(id *ast.Ident, to string) {
		if _, done := saved[id]; !done {
			saved[id] = id.Name
			id.Name = to
		}
	}
	skip := map[*ast.Ident]bool{}
	ast.Inspect(n, func(m ast.Node) bool {
		switch v := m.(type) {
		case *ast.SelectorExpr:
			skip[v.Sel] = true
		case *ast.KeyValueExpr:
			if id, ok := v.Key.(*ast.Ident); ok {
				skip[id] = true
			}
		case *ast.CallExpr:
			switch f := v.Fun.(type) {
			case *ast.Ident:
				if c.pkgNames[f.Name] && !ast.IsExported(f.Name) && c.x.anyFuncDecl(c.dir, f.Name) != nil {
					set(f, "ƒ")
				}
			case *ast.SelectorExpr:
				pk, isPkg := f.X.(*ast.Ident)
				if !(isPkg && c.imports[pk.Name]) && !ast.IsExported(f.Sel.Name) {
					set(f.Sel, "ƒ")
				}
			}
		}
		return true
	})
	ast.Inspect(n, func(m ast.Node) bool {
		if id, ok := m.(*ast.Ident); ok && !skip[id] {
			if _, done := saved[id]; done {
				return true
			}
			if _, isVar := c.pkgVars[id.Name]; isVar {
				set(id, "g")
				return true
			}
			if c05Universe[id.Name] || c.imports[id.Name] || c.pkgNames[id.Name] {
				return true
			}
			set(id, "_")
		}
		return true
	})
	s := c.x.src(n)
	for id, old := range saved {
		id.Name = old
	}
	return s
}

// roleNames maps a function's receiver, parameters and locals to recv, p0…, v0… (declaration order).
func (c *c05) roleNames(fd *ast.FuncDecl) map[string]string {
	recv, params, locals := c.x.LocalNames(fd)
	ren := map[string]string{}
	if recv != "" {
		ren[recv] = "recv"
	}
	for i, p := range params {
		ren[p] = "p" + string(rune('0'+i))
	}
	k := 0
	for _, l := range locals {
		if _, ok := ren[l]; !ok {
			ren[l] = "v" + string(rune('0'+k))
			k++
		}
	}
	return ren
}

// regexSource evaluates the regular expression a package-level variable is compiled from: the variable is
// initialised by regexp.MustCompile(<literal>) or by an unexported function of one parameter that returns
// regexp.MustCompile(strings.Replace(p, <from>, <to>, -1)) / strings.ReplaceAll(p, <from>, <to>).
func (c *c05) regexSource(recv ast.Expr) string {
	id, ok := recv.(*ast.Ident)
	if !ok {
		return "?" + c.x.src(recv)
	}
	init, ok := c.pkgVars[id.Name]
	if !ok {
		return "?" + id.Name
	}
	call, ok := init.(*ast.CallExpr)
	if !ok || len(call.Args) != 1 {
		return "?init:" + c.x.src(init)
	}
	lit, ok := c.x.strLit(call.Args[0])
	if !ok {
		return "?arg:" + c.x.src(call.Args[0])
	}
	if c.x.src(call.Fun) == "regexp.MustCompile" {
		return lit
	}
	fd := c.callee(call)
	if fd == nil || fd.Type.Params == nil || len(fd.Type.Params.List) != 1 || len(fd.Type.Params.List[0].Names) != 1 {
		return "?compile:" + c.x.src(call.Fun)
	}
	param := fd.Type.Params.List[0].Names[0].Name
	// local single-assignment bindings (x := expr) are substituted, so hoisting a sub-expression is harmless
	binds := map[string]ast.Expr{}
	var ret ast.Expr
	for _, st := range fd.Body.List {
		switch v := st.(type) {
		case *ast.AssignStmt:
			if v.Tok == token.DEFINE && len(v.Lhs) == 1 && len(v.Rhs) == 1 {
				if l, ok := v.Lhs[0].(*ast.Ident); ok {
					binds[l.Name] = v.Rhs[0]
				}
			}
		case *ast.ReturnStmt:
			if len(v.Results) == 1 {
				ret = v.Results[0]
			}
		}
	}
	var eval func(e ast.Expr, depth int) (string, bool)
	eval = func(e ast.Expr, depth int) (string, bool) {
		if depth > 8 {
			return "", false
		}
		switch v := e.(type) {
		case *ast.ParenExpr:
			return eval(v.X, depth+1)
		case *ast.Ident:
			if v.Name == param {
				return lit, true
			}
			if b, ok := binds[v.Name]; ok {
				return eval(b, depth+1)
			}
		case *ast.BasicLit, *ast.BinaryExpr:
			return c.x.strLit(v)
		case *ast.CallExpr:
			fn := c.x.src(v.Fun)
			switch {
			case fn == "regexp.MustCompile" && len(v.Args) == 1:
				return eval(v.Args[0], depth+1)
			case (fn == "strings.Replace" && len(v.Args) == 4 && c.x.src(v.Args[3]) == "-1") || (fn == "strings.ReplaceAll" && len(v.Args) == 3):
				s, ok1 := eval(v.Args[0], depth+1)
				from, ok2 := eval(v.Args[1], depth+1)
				to, ok3 := eval(v.Args[2], depth+1)
				if ok1 && ok2 && ok3 {
					return strings.ReplaceAll(s, from, to), true
				}
			}
		}
		return "", false
	}
	if ret != nil {
		if s, ok := eval(ret, 0); ok {
			return s
		}
	}
	return "?compile-body:" + fd.Name.Name
}

// parentsInlined records, for every node reachable by WalkInlined from fd, its syntactic parent.
func (c *c05) parentsInlined(fd *ast.FuncDecl) map[ast.Node]ast.Node {
	parents := map[ast.Node]ast.Node{}
	seen := map[*ast.FuncDecl]bool{}
	var rec func(fd *ast.FuncDecl, depth int)
	rec = func(fd *ast.FuncDecl, depth int) {
		if fd == nil || fd.Body == nil || seen[fd] || depth > 4 {
			return
		}
		seen[fd] = true
		var stack []ast.Node
		ast.Inspect(fd.Body, func(n ast.Node) bool {
			if n == nil {
				stack = stack[:len(stack)-1]
				return true
			}
			if len(stack) > 0 {
				parents[n] = stack[len(stack)-1]
			}
			stack = append(stack, n)
			if call, ok := n.(*ast.CallExpr); ok {
				for _, cd := range c.candidates(call) {
					rec(cd, depth+1)
				}
			}
			return true
		})
	}
	rec(fd, 0)
	return parents
}

// c05EnclosingIf returns the innermost if statement whose body (not else branch) contains n.
func c05EnclosingIf(parents map[ast.Node]ast.Node, n ast.Node) *ast.IfStmt {
	child := n
	for p := parents[n]; p != nil; child, p = p, parents[p] {
		if is, ok := p.(*ast.IfStmt); ok && is.Body == child {
			return is
		}
	}
	return nil
}
