package main

import (
	"bufio"
	"go/ast"
	"go/token"
)

// C05 — facts the parser/table/rendering models silently depend on: the regex sources and the order in which
// they are tried, the flexible-space replacement, the de-duplication key, the switch of delRoute, the sort
// order, the format verbs of TargetConfig, the lower-casing of hosts, the scanner error check.
func init() {
	register("C05", func(x *X) error {
		const dir = "route"

		// --- regex sources -------------------------------------------------------------------------
		reArg := func(name, fn string) {
			e := x.valueSpec(dir, name)
			if e == nil {
				return
			}
			c, ok := e.(*ast.CallExpr)
			if !ok || x.src(c.Fun) != fn || len(c.Args) != 1 {
				x.fail("%s is not %s(<literal>): %s", name, fn, x.src(e))
				return
			}
			s, ok := x.strLit(c.Args[0])
			if !ok {
				x.fail("%s: argument is not a string literal", name)
				return
			}
			x.defStr(name, s)
		}
		for _, n := range []string{"reRouteAdd", "reRouteDel", "reRouteWeight", "reComment", "reBlankLine"} {
			reArg(n, "regexp.MustCompile")
		}
		for _, n := range []string{"reAdd", "reDel", "reDelSvcTags", "reDelTags", "reWeightSvc", "reWeightSrc"} {
			reArg(n, "mustCompileWithFlexibleSpace")
		}

		// --- mustCompileWithFlexibleSpace: regexp.MustCompile(strings.Replace(re, " ", `\s+`, -1)) ----
		if fd := x.funcDecl(dir, "", "mustCompileWithFlexibleSpace"); fd != nil {
			cs := x.calls(fd, "strings.Replace")
			if len(cs) != 1 || len(cs[0].Args) != 4 {
				x.fail("mustCompileWithFlexibleSpace: expected one strings.Replace call with 4 arguments")
			} else {
				from, ok1 := x.strLit(cs[0].Args[1])
				to, ok2 := x.strLit(cs[0].Args[2])
				if !ok1 || !ok2 {
					x.fail("mustCompileWithFlexibleSpace: replacement arguments are not literals")
				}
				x.defStr("flexFrom", from)
				x.defStr("flexTo", to)
				x.defStr("flexCount", x.src(cs[0].Args[3]))
			}
			x.defNat("flexCompiles", uint64(len(x.calls(fd, "regexp.MustCompile"))))
		}

		// --- which regexes a function consults, in source order ---------------------------------------
		methodRecvs := func(fd *ast.FuncDecl, method string) []string {
			var out []string
			if fd == nil {
				return out
			}
			ast.Inspect(fd, func(n ast.Node) bool {
				if c, ok := n.(*ast.CallExpr); ok {
					if sel, ok := c.Fun.(*ast.SelectorExpr); ok && sel.Sel.Name == method {
						out = append(out, x.src(sel.X))
					}
				}
				return true
			})
			return out
		}
		x.defStrList("addTries", methodRecvs(x.funcDecl(dir, "", "parseRouteAdd"), "FindStringSubmatch"))
		x.defStrList("delTries", methodRecvs(x.funcDecl(dir, "", "parseRouteDel"), "FindStringSubmatch"))
		x.defStrList("weightTries", methodRecvs(x.funcDecl(dir, "", "parseRouteWeight"), "FindStringSubmatch"))
		parse := x.funcDecl(dir, "", "Parse")
		x.defStrList("parseDispatch", methodRecvs(parse, "MatchString"))
		if parse != nil {
			x.defBool("parseChecksScannerErr", len(x.calls(parse, "scanner.Err")) > 0)
			x.defBool("parseSetsScannerBuffer", len(x.calls(parse, "scanner.Buffer")) > 0)
			x.defBool("parseTrimsSpace", len(x.calls(parse, "strings.TrimSpace")) == 1)
			// Parse carries no state from line to line other than the line counter and the result list:
			// every name it declares or assigns, every `continue`, every append, every make/map literal
			names := map[string]bool{}
			continues, makes := 0, 0
			var appends []string
			ast.Inspect(parse.Body, func(n ast.Node) bool {
				switch v := n.(type) {
				case *ast.AssignStmt:
					for _, l := range v.Lhs {
						names[x.src(l)] = true
					}
				case *ast.ValueSpec:
					for _, id := range v.Names {
						names[id.Name] = true
					}
				case *ast.IncDecStmt:
					names[x.src(v.X)] = true
				case *ast.BranchStmt:
					if v.Tok == token.CONTINUE {
						continues++
					}
				case *ast.CompositeLit:
					makes++
				case *ast.CallExpr:
					switch x.src(v.Fun) {
					case "append":
						appends = append(appends, x.src(v))
					case "make", "new":
						makes++
					}
				}
				return true
			})
			var ns []string
			for n := range names {
				ns = append(ns, n)
			}
			x.defSortedStrList("parseAssigned", ns)
			x.defNat("parseContinues", uint64(continues))
			x.defNat("parseAllocations", uint64(makes))
			x.defStrList("parseAppends", appends)
		}
		x.defNat("maxScanTokenSize", uint64(bufio.MaxScanTokenSize)) // the Go standard library factgen is built with

		// --- parseTags / parseOpts / parseWeight ------------------------------------------------------
		callSrcs := func(fd *ast.FuncDecl, fns ...string) []string {
			var out []string
			if fd == nil {
				return out
			}
			for _, fn := range fns {
				for _, c := range x.calls(fd, fn) {
					out = append(out, x.src(c))
				}
			}
			return out
		}
		x.defStrList("parseTagsCalls", callSrcs(x.funcDecl(dir, "", "parseTags"), "strings.Split", "strings.TrimSpace"))
		x.defStrList("parseOptsCalls", callSrcs(x.funcDecl(dir, "", "parseOpts"), "strings.Fields", "strings.SplitN"))
		x.defStrList("parseWeightCalls", callSrcs(x.funcDecl(dir, "", "parseWeight"), "strconv.ParseFloat"))

		// --- table commands ---------------------------------------------------------------------------
		lowers := func(recv, name string) bool {
			fd := x.funcDecl(dir, recv, name)
			return fd != nil && len(x.calls(fd, "strings.ToLower")) > 0
		}
		x.defBool("addRouteLowersHost", lowers("Table", "addRoute"))
		x.defBool("weighRouteLowersHost", lowers("Table", "weighRoute"))
		x.defBool("routeLowersHost", lowers("Table", "route"))
		if fd := x.funcDecl(dir, "Table", "delRoute"); fd != nil {
			x.defStrList("delRouteLookups", callSrcs(fd, "t.route"))
			// the conditions of the switch, in order
			var conds []string
			ast.Inspect(fd, func(n ast.Node) bool {
				if sw, ok := n.(*ast.SwitchStmt); ok && sw.Tag == nil && len(conds) == 0 {
					for _, st := range sw.Body.List {
						cc := st.(*ast.CaseClause)
						if cc.List == nil {
							conds = append(conds, "default")
						}
						for _, e := range cc.List {
							conds = append(conds, x.src(e))
						}
					}
					return false
				}
				return true
			})
			x.defStrList("delRouteCases", conds)
			// the predicates handed to filter
			var preds []string
			ast.Inspect(fd, func(n ast.Node) bool {
				if fl, ok := n.(*ast.FuncLit); ok {
					for _, st := range fl.Body.List {
						if rs, ok := st.(*ast.ReturnStmt); ok && len(rs.Results) == 1 {
							preds = append(preds, x.src(rs.Results[0]))
						}
					}
				}
				return true
			})
			x.defStrList("delRoutePredicates", preds)
		}
		// addTarget: the clamp and the de-duplication test
		if fd := x.funcDecl(dir, "Route", "addTarget"); fd != nil {
			var ifs []string
			ast.Inspect(fd.Body, func(n ast.Node) bool {
				if is, ok := n.(*ast.IfStmt); ok && len(ifs) < 2 {
					ifs = append(ifs, x.src(is.Cond))
				}
				return true
			})
			x.defStrList("addTargetFirstConds", ifs)
		}
		// setWeight: the match conditions and the division
		if fd := x.funcDecl(dir, "Route", "setWeight"); fd != nil {
			var ifs []string
			var divs []string
			ast.Inspect(fd.Body, func(n ast.Node) bool {
				switch v := n.(type) {
				case *ast.IfStmt:
					ifs = append(ifs, x.src(v.Cond))
				case *ast.BinaryExpr:
					if v.Op == token.QUO {
						divs = append(divs, x.src(v))
					}
				}
				return true
			})
			x.defStrList("setWeightConds", ifs)
			x.defStrList("setWeightDivisions", divs)
		}
		// Routes.Less
		if fd := x.funcDecl(dir, "Routes", "Less"); fd != nil {
			var rets []string
			ast.Inspect(fd.Body, func(n ast.Node) bool {
				if rs, ok := n.(*ast.ReturnStmt); ok && len(rs.Results) == 1 {
					rets = append(rets, x.src(rs.Results[0]))
				}
				return true
			})
			x.defStrList("lessReturns", rets)
		}
		// hostpath
		if fd := x.funcDecl(dir, "", "hostpath"); fd != nil {
			x.defStrList("hostpathCalls", callSrcs(fd, "strings.HasPrefix", "strings.SplitN"))
		}

		// --- rendering ---------------------------------------------------------------------------------
		if fd := x.funcDecl(dir, "Route", "TargetConfig"); fd != nil {
			var fmts []string
			for _, c := range x.calls(fd, "fmt.Sprintf") {
				if s, ok := x.strLit(c.Args[0]); ok {
					fmts = append(fmts, s)
				} else {
					x.fail("TargetConfig: Sprintf format is not a literal: %s", x.src(c))
				}
			}
			x.defStrList("targetConfigFormats", fmts)
			x.defStrList("targetConfigSorts", callSrcs(fd, "sort.Strings"))
		}
		if fd := x.funcDecl(dir, "Route", "config"); fd != nil {
			var ifs []string
			ast.Inspect(fd.Body, func(n ast.Node) bool {
				if is, ok := n.(*ast.IfStmt); ok {
					ifs = append(ifs, x.src(is.Cond))
				}
				return true
			})
			x.defStrList("routeConfigSkips", ifs)
		}
		if fd := x.funcDecl(dir, "Table", "config"); fd != nil {
			x.defStrList("tableConfigSorts", callSrcs(fd, "sort.Sort"))
		}
		if fd := x.funcDecl(dir, "Table", "String"); fd != nil {
			x.defStrList("tableStringJoins", callSrcs(fd, "strings.Join"))
		}
		return nil
	})
}
