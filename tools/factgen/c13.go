package main

import (
	"go/ast"
	"go/token"
	"sort"
	"strconv"
	"strings"
)

// C13 — redirect routes answer from the request alone.
//
// The facts pin MEANING, not spelling (so that renaming locals, extracting/inlining helpers, named constants,
// if-chains vs switches leave them unchanged):
//   - the AST is normalised (constants inlined, literal concatenations folded, switch -> if chain);
//   - variables are named by ROLE: recv, p0, p1 … (parameters), res0 … (named results), and a local by what it
//     was last assigned from: copy (`v := *x`), call:<callee>, an alias of another role expression, local;
//   - calls into functions of the same package that are invoked on, or handed, the value of interest are followed
//     with the callee's receiver/parameters bound to the roles of the arguments, so a store or a comparison that
//     was moved into a helper is reported exactly as if it stood inline.
//
// Facts:
//   - BuildRedirectURL: the `$` variables among its string literals; it first assigns a freshly allocated url.URL
//     to recv.RedirectURL and every later store goes through recv.RedirectURL;
//   - addTarget: bounds of the redirect code, Atoi of the "redirect" option, reset to 0 on an Atoi error and
//     outside the bounds;
//   - ServeHTTP: the redirect branch (conjuncts of its condition, arguments of http.Redirect, ends in return)
//     comes after the Lookup call, nothing that contacts an upstream is called up to it, the handler call
//     comes after it, no store through the target;
//   - Lookup: BuildRedirectURL is invoked on a per-request copy, every field store on the request path goes to
//     that copy or to the request, the conjuncts of the self-redirect condition, `continue` after dropping the
//     result, and the shape of the helper that yields the request's scheme.
func init() {
	register("C13", func(x *X) error {
		x.UseNormalizedAST()
		// Extraction problems inside a soft section concern change detectors only (Props/C13Pins.lean: the shape of
		// sequential code whose behaviour the streams compare with the model): they are reported as `pinNotes`, not
		// as a failure of the extractor.
		var pinNotes []string
		soft := func(f func()) {
			n := len(x.errs)
			f()
			pinNotes = append(pinNotes, x.errs[n:]...)
			x.errs = x.errs[:n]
		}
		c13Build(x)
		soft(func() { c13Code(x) })
		c13Serve(x)
		c13Lookup(x, soft)
		x.defStrList("pinNotes", pinNotes)
		return nil
	})
}

func c13uniq(xs []string) []string {
	seen := map[string]bool{}
	out := []string{}
	for _, s := range xs {
		if !seen[s] {
			seen[s] = true
			out = append(out, s)
		}
	}
	return out
}

func c13sortedUniq(xs []string) []string {
	o := c13uniq(xs)
	sort.Strings(o)
	return o
}

func c13stringLits(node ast.Node) []string {
	var out []string
	ast.Inspect(node, func(n ast.Node) bool {
		if b, ok := n.(*ast.BasicLit); ok && b.Kind == token.STRING {
			if s, err := strconv.Unquote(b.Value); err == nil {
				out = append(out, s)
			}
		}
		return true
	})
	return out
}

// ---- roles -----------------------------------------------------------------------------------------------

type roleEnv map[string]string

func (x *X) paramEnv(fd *ast.FuncDecl) roleEnv {
	env := roleEnv{}
	if fd.Recv != nil && len(fd.Recv.List) == 1 && len(fd.Recv.List[0].Names) == 1 {
		env[fd.Recv.List[0].Names[0].Name] = "recv"
	}
	i := 0
	if fd.Type.Params != nil {
		for _, p := range fd.Type.Params.List {
			for _, n := range p.Names {
				env[n.Name] = "p" + strconv.Itoa(i)
				i++
			}
			if len(p.Names) == 0 {
				i++
			}
		}
	}
	if fd.Type.Results != nil {
		j := 0
		for _, p := range fd.Type.Results.List {
			for _, n := range p.Names {
				env[n.Name] = "res" + strconv.Itoa(j)
				j++
			}
		}
	}
	return env
}

var c13universe = map[string]bool{"nil": true, "true": true, "false": true, "len": true, "string": true, "append": true}

// canon renders an expression with variables replaced by their roles.
func (x *X) canon(e ast.Expr, env roleEnv) string {
	switch v := e.(type) {
	case nil:
		return ""
	case *ast.Ident:
		if r, ok := env[v.Name]; ok {
			return r
		}
		if c13universe[v.Name] {
			return v.Name
		}
		if v.Obj == nil { // package name or package-level identifier
			return v.Name
		}
		return "local"
	case *ast.BasicLit:
		return v.Value
	case *ast.ParenExpr:
		return x.canon(v.X, env)
	case *ast.SelectorExpr:
		return x.canon(v.X, env) + "." + v.Sel.Name
	case *ast.StarExpr:
		return "*" + x.canon(v.X, env)
	case *ast.UnaryExpr:
		if v.Op == token.AND {
			return x.canon(v.X, env) // an address is an alias of the thing
		}
		return v.Op.String() + x.canon(v.X, env)
	case *ast.IndexExpr:
		return x.canon(v.X, env) + "[" + x.canon(v.Index, env) + "]"
	case *ast.BinaryExpr:
		return x.canon(v.X, env) + " " + v.Op.String() + " " + x.canon(v.Y, env)
	case *ast.CallExpr:
		args := make([]string, len(v.Args))
		for i, a := range v.Args {
			args[i] = x.canon(a, env)
		}
		return x.canon(v.Fun, env) + "(" + strings.Join(args, ", ") + ")"
	case *ast.CompositeLit:
		return x.src(v.Type) + "{…}"
	}
	return "expr"
}

func c13rootOf(c string) string {
	c = strings.TrimLeft(c, "*")
	if i := strings.IndexAny(c, ".["); i >= 0 {
		return c[:i]
	}
	return c
}

// assignRole updates env for `name = rhs` / `name := rhs`.
func (x *X) assignRole(env roleEnv, name string, rhs ast.Expr) {
	switch v := rhs.(type) {
	case *ast.StarExpr:
		_ = v
		env[name] = "copy" // a value copy of what a pointer points to
	case *ast.CallExpr:
		callee := ""
		switch f := v.Fun.(type) {
		case *ast.Ident:
			callee = f.Name
		case *ast.SelectorExpr:
			callee = f.Sel.Name
		}
		env[name] = "call:" + callee
	case *ast.Ident, *ast.SelectorExpr, *ast.IndexExpr, *ast.UnaryExpr, *ast.ParenExpr:
		c := x.canon(rhs, env)
		if c == "nil" {
			return // keeps its role; a nil assignment is an event of its own
		}
		env[name] = c
	default:
		env[name] = "local"
	}
}

type storeEv struct {
	lhs   string // canonical left-hand side
	fresh bool   // rhs is &T{…} (a fresh allocation)
}

type skipIf struct {
	conjuncts []string
	helpers   []*ast.FuncDecl // unexpanded same-package callees that appear in the condition
	continues bool
	nilsRes   bool // the body assigns nil to the variable the function returns before continuing
}

type roleWalk struct {
	x       *X
	dir     string
	follow  func(recvCanon string, argCanon []string) bool // follow this same-package call?
	stores  []storeEv
	calls   []string // callee names in order (selector name or identifier)
	recvOf  map[string][]string
	skipIfs []skipIf
	retName string // name of the identifier the top function returns
	freshNo  int      // fresh allocations seen so far (`v := &T{…}` gets the role fresh#N until it is published)
	storeLog []string // canonical left-hand sides of the stores in order (for aliases that go stale in a branch)
}

// An alias analysis just strong enough for "published through a local pointer":
//   - `u := &T{…}` gives u the role fresh#N: a function-local allocation; stores through it are stores to a new object;
//   - a store `X = u` of such a value *publishes* it: the store counts as a fresh allocation assigned to X, and from
//     here on u (and every other name with that role) is an alias of X — `u.F = …` is a store to X.F;
//   - a store to X makes every name that aliased the *previous* value of X stale (`stale:X`): stores through it do
//     not go to the object now reachable as X (re-use of an earlier allocation);
//   - leaving an if / loop body in which the thing a name aliased was overwritten, the name is both (`merge(…)`).
func (w *roleWalk) noteStore(env roleEnv, lhs string, rhs ast.Expr) (fresh bool) {
	for k, r := range env {
		if r == lhs {
			env[k] = "stale:" + r
		}
	}
	w.storeLog = append(w.storeLog, lhs)
	if rhs == nil {
		return false
	}
	if u, ok := rhs.(*ast.UnaryExpr); ok && u.Op == token.AND {
		if _, ok := u.X.(*ast.CompositeLit); ok {
			return true
		}
	}
	if r := w.x.canon(rhs, env); strings.HasPrefix(r, "fresh#") && !strings.ContainsAny(r, ".[*") {
		for k, v := range env {
			if v == r {
				env[k] = lhs
			}
		}
		return true
	}
	return false
}

// scoped runs the walk of a branch or loop body and merges the roles of names whose referent was overwritten in it.
func (w *roleWalk) scoped(env roleEnv, body func()) {
	before := roleEnv{}
	for k, v := range env {
		before[k] = v
	}
	n := len(w.storeLog)
	body()
	for k, old := range before {
		for _, l := range w.storeLog[n:] {
			if old == l {
				old = "stale:" + old
				break
			}
		}
		if strings.HasPrefix(old, "stale:") && env[k] != old && !strings.HasPrefix(env[k], "merge(") {
			env[k] = "merge(" + old + "|" + env[k] + ")"
		}
	}
}

func c13isFreshLit(e ast.Expr) bool {
	if u, ok := e.(*ast.UnaryExpr); ok && u.Op == token.AND {
		_, ok := u.X.(*ast.CompositeLit)
		return ok
	}
	return false
}

func (w *roleWalk) sameCallee(c *ast.CallExpr) (*ast.FuncDecl, string) {
	name := ""
	switch f := c.Fun.(type) {
	case *ast.Ident:
		name = f.Name
	case *ast.SelectorExpr:
		name = f.Sel.Name
		if id, ok := f.X.(*ast.Ident); ok && id.Obj == nil {
			return nil, name // pkg.Func
		}
	}
	if name == "" {
		return nil, ""
	}
	return w.x.anyFuncDecl(w.dir, name), name
}

func (w *roleWalk) bind(callee *ast.FuncDecl, c *ast.CallExpr, env roleEnv) roleEnv {
	ne := w.x.paramEnv(callee)
	out := roleEnv{}
	for k, role := range ne {
		switch {
		case role == "recv":
			if sel, ok := c.Fun.(*ast.SelectorExpr); ok {
				out[k] = w.x.canon(sel.X, env)
			} else {
				out[k] = "local"
			}
		case strings.HasPrefix(role, "p"):
			i, _ := strconv.Atoi(role[1:])
			if i < len(c.Args) {
				out[k] = w.x.canon(c.Args[i], env)
			} else {
				out[k] = "local"
			}
		default:
			out[k] = "local"
		}
	}
	return out
}

// condConjuncts splits a condition at && and expands calls to same-package one-line boolean helpers.
func (w *roleWalk) condConjuncts(e ast.Expr, env roleEnv, depth int, helpers *[]*ast.FuncDecl) []string {
	switch v := e.(type) {
	case *ast.ParenExpr:
		return w.condConjuncts(v.X, env, depth, helpers)
	case *ast.BinaryExpr:
		if v.Op == token.LAND {
			return append(w.condConjuncts(v.X, env, depth, helpers), w.condConjuncts(v.Y, env, depth, helpers)...)
		}
		return []string{w.condOperand(v.X, env, helpers) + " " + v.Op.String() + " " + w.condOperand(v.Y, env, helpers)}
	case *ast.CallExpr:
		if callee, _ := w.sameCallee(v); callee != nil && depth < 4 && len(callee.Body.List) == 1 {
			if rs, ok := callee.Body.List[0].(*ast.ReturnStmt); ok && len(rs.Results) == 1 {
				return w.condConjuncts(rs.Results[0], w.bind(callee, v, env), depth+1, helpers)
			}
		}
	}
	return []string{w.condOperand(e, env, helpers)}
}

// condOperand: a call to a same-package function is rendered by role ("helper(args)"), not by name.
func (w *roleWalk) condOperand(e ast.Expr, env roleEnv, helpers *[]*ast.FuncDecl) string {
	if c, ok := e.(*ast.CallExpr); ok {
		if callee, _ := w.sameCallee(c); callee != nil {
			*helpers = append(*helpers, callee)
			args := make([]string, len(c.Args))
			for i, a := range c.Args {
				args[i] = w.x.canon(a, env)
			}
			return "helper(" + strings.Join(args, ", ") + ")"
		}
	}
	return w.x.canon(e, env)
}

func (w *roleWalk) exprCalls(n ast.Node, env roleEnv, depth int) {
	ast.Inspect(n, func(m ast.Node) bool {
		if _, ok := m.(*ast.FuncLit); ok {
			return false
		}
		c, ok := m.(*ast.CallExpr)
		if !ok {
			return true
		}
		callee, name := w.sameCallee(c)
		if name != "" {
			w.calls = append(w.calls, name)
		}
		recvCanon := ""
		if sel, ok := c.Fun.(*ast.SelectorExpr); ok {
			recvCanon = w.x.canon(sel.X, env)
			w.recvOf[name] = append(w.recvOf[name], recvCanon)
		}
		if callee != nil && depth < 4 {
			args := make([]string, len(c.Args))
			for i, a := range c.Args {
				args[i] = w.x.canon(a, env)
			}
			if w.follow == nil || w.follow(recvCanon, args) {
				w.block(callee.Body, w.bind(callee, c, env), depth+1)
			}
		}
		return true
	})
}

func (w *roleWalk) block(b *ast.BlockStmt, env roleEnv, depth int) {
	if b == nil {
		return
	}
	for _, s := range b.List {
		w.stmt(s, env, depth)
	}
}

func (w *roleWalk) stmt(s ast.Stmt, env roleEnv, depth int) {
	switch v := s.(type) {
	case *ast.AssignStmt:
		for _, r := range v.Rhs {
			w.exprCalls(r, env, depth)
		}
		for i, l := range v.Lhs {
			if id, ok := l.(*ast.Ident); ok {
				if len(v.Lhs) == len(v.Rhs) && c13isFreshLit(v.Rhs[i]) {
					w.freshNo++
					env[id.Name] = "fresh#" + strconv.Itoa(w.freshNo)
				} else if len(v.Lhs) == len(v.Rhs) {
					w.x.assignRole(env, id.Name, v.Rhs[i])
				} else if len(v.Rhs) == 1 {
					if c, ok := v.Rhs[0].(*ast.CallExpr); ok {
						_, name := w.sameCallee(c)
						env[id.Name] = "call:" + name + "#" + strconv.Itoa(i)
					} else {
						env[id.Name] = "local"
					}
				}
				continue
			}
			ev := storeEv{lhs: w.x.canon(l, env)}
			var rhs ast.Expr
			if len(v.Lhs) == len(v.Rhs) {
				rhs = v.Rhs[i]
			}
			ev.fresh = w.noteStore(env, ev.lhs, rhs)
			w.stores = append(w.stores, ev)
		}
	case *ast.IncDecStmt:
		if _, ok := v.X.(*ast.Ident); !ok {
			w.stores = append(w.stores, storeEv{lhs: w.x.canon(v.X, env)})
		}
	case *ast.ExprStmt:
		w.exprCalls(v.X, env, depth)
	case *ast.DeclStmt:
		if gd, ok := v.Decl.(*ast.GenDecl); ok {
			for _, sp := range gd.Specs {
				if vs, ok := sp.(*ast.ValueSpec); ok {
					for i, n := range vs.Names {
						if i < len(vs.Values) && c13isFreshLit(vs.Values[i]) {
							w.exprCalls(vs.Values[i], env, depth)
							w.freshNo++
							env[n.Name] = "fresh#" + strconv.Itoa(w.freshNo)
						} else if i < len(vs.Values) {
							w.exprCalls(vs.Values[i], env, depth)
							w.x.assignRole(env, n.Name, vs.Values[i])
						} else {
							env[n.Name] = "local"
						}
					}
				}
			}
		}
	case *ast.IfStmt:
		if v.Init != nil {
			w.stmt(v.Init, env, depth)
		}
		w.exprCalls(v.Cond, env, depth)
		if depth == 0 {
			si := skipIf{}
			for _, b := range v.Body.List {
				if as, ok := b.(*ast.AssignStmt); ok && len(as.Lhs) == 1 && len(as.Rhs) == 1 && !si.continues {
					if id, ok := as.Lhs[0].(*ast.Ident); ok && id.Name == w.retName && w.x.src(as.Rhs[0]) == "nil" {
						si.nilsRes = true
					}
				}
				if br, ok := b.(*ast.BranchStmt); ok && br.Tok == token.CONTINUE {
					si.continues = true
				}
			}
			if si.continues {
				si.conjuncts = w.condConjuncts(v.Cond, env, 0, &si.helpers)
				sort.Strings(si.conjuncts)
				w.skipIfs = append(w.skipIfs, si)
			}
		}
		w.scoped(env, func() {
			w.block(v.Body, env, depth)
			if v.Else != nil {
				w.stmt(v.Else, env, depth)
			}
		})
	case *ast.BlockStmt:
		w.block(v, env, depth)
	case *ast.ForStmt:
		if v.Init != nil {
			w.stmt(v.Init, env, depth)
		}
		if v.Cond != nil {
			w.exprCalls(v.Cond, env, depth)
		}
		w.scoped(env, func() { w.block(v.Body, env, depth) })
	case *ast.RangeStmt:
		w.exprCalls(v.X, env, depth)
		for _, e := range []ast.Expr{v.Key, v.Value} {
			if id, ok := e.(*ast.Ident); ok {
				env[id.Name] = "local"
			}
		}
		w.scoped(env, func() { w.block(v.Body, env, depth) })
	case *ast.ReturnStmt:
		for _, r := range v.Results {
			w.exprCalls(r, env, depth)
		}
	case *ast.SwitchStmt: // a switch the normaliser left alone
		if v.Init != nil {
			w.stmt(v.Init, env, depth)
		}
		w.block(v.Body, env, depth)
	case *ast.CaseClause:
		for _, e := range v.List {
			w.exprCalls(e, env, depth)
		}
		for _, b := range v.Body {
			w.stmt(b, env, depth)
		}
	case *ast.DeferStmt:
		w.exprCalls(v.Call, env, depth)
	case *ast.GoStmt:
		w.exprCalls(v.Call, env, depth)
	}
}

func (x *X) newRoleWalk(dir string) *roleWalk {
	return &roleWalk{x: x, dir: dir, recvOf: map[string][]string{}}
}

// ---- BuildRedirectURL --------------------------------------------------------------------------------------

func c13Build(x *X) {
	fd := x.funcDecl("route", "Target", "BuildRedirectURL")
	if fd == nil {
		return
	}
	var vars []string
	x.WalkInlined("route", fd, func(n ast.Node) bool {
		if b, ok := n.(*ast.BasicLit); ok && b.Kind == token.STRING {
			if s, err := strconv.Unquote(b.Value); err == nil && strings.Contains(s, "$") {
				vars = append(vars, s)
			}
		}
		return true
	})
	x.defStrList("buildVarLits", c13sortedUniq(vars))
	w := x.newRoleWalk("route")
	w.block(fd.Body, x.paramEnv(fd), 0)
	var outside []string
	freshFirst := false
	seenURLStore := false
	for _, s := range w.stores {
		if s.lhs == "recv.RedirectURL" {
			if !seenURLStore {
				freshFirst = s.fresh
			}
			seenURLStore = true
			continue
		}
		if strings.HasPrefix(s.lhs, "fresh#") { // filling in a local allocation before it is published
			continue
		}
		if strings.HasPrefix(s.lhs, "recv.RedirectURL.") {
			if !seenURLStore { // a store through the URL before it was allocated would hit the previous (shared) one
				outside = append(outside, "before allocation: "+s.lhs)
			}
			continue
		}
		outside = append(outside, s.lhs)
	}
	x.defStrList("buildStoresOutsideFreshURL", c13uniq(outside))
	x.defBool("buildAllocatesFreshURLFirst", freshFirst)
}

// ---- addTarget: the redirect option ------------------------------------------------------------------------

func c13isSel(e ast.Expr, field string) bool {
	s, ok := e.(*ast.SelectorExpr)
	return ok && s.Sel.Name == field
}

func c13assignsZero(b *ast.BlockStmt, field string) bool {
	for _, s := range b.List {
		if as, ok := s.(*ast.AssignStmt); ok && len(as.Lhs) == 1 && len(as.Rhs) == 1 && c13isSel(as.Lhs[0], field) {
			if l, ok := as.Rhs[0].(*ast.BasicLit); ok && l.Value == "0" {
				return true
			}
		}
	}
	return false
}

func c13Code(x *X) {
	fd := x.funcDecl("route", "Route", "addTarget")
	if fd == nil {
		return
	}
	var lo, hi int64 = -1, -1
	resetErr, resetRange, atoiOfOpt := false, false, false
	// local aliases of an index expression (`v := opts["redirect"]`)
	alias := map[string]ast.Expr{}
	ast.Inspect(fd.Body, func(n ast.Node) bool {
		if as, ok := n.(*ast.AssignStmt); ok && len(as.Lhs) == 1 && len(as.Rhs) == 1 {
			if id, ok := as.Lhs[0].(*ast.Ident); ok {
				if ix, ok := as.Rhs[0].(*ast.IndexExpr); ok {
					alias[id.Name] = ix
				}
			}
		}
		return true
	})
	isRedirectOpt := func(e ast.Expr) bool {
		if id, ok := e.(*ast.Ident); ok {
			if a, ok := alias[id.Name]; ok {
				e = a
			}
		}
		ix, ok := e.(*ast.IndexExpr)
		if !ok {
			return false
		}
		s, ok := x.strLit(ix.Index)
		return ok && s == "redirect"
	}
	var bounds func(e ast.Expr) (bool, bool)
	bounds = func(e ast.Expr) (l, h bool) {
		ast.Inspect(e, func(n ast.Node) bool {
			if b, ok := n.(*ast.BinaryExpr); ok && c13isSel(b.X, "RedirectCode") {
				if lit, ok := b.Y.(*ast.BasicLit); ok && lit.Kind == token.INT {
					k, _ := strconv.ParseInt(lit.Value, 0, 64)
					if b.Op == token.LSS {
						lo, l = k, true
					}
					if b.Op == token.GTR {
						hi, h = k, true
					}
				}
			}
			return true
		})
		return
	}
	ast.Inspect(fd.Body, func(n ast.Node) bool {
		blk, ok := n.(*ast.BlockStmt)
		if !ok {
			return true
		}
		for i, st := range blk.List {
			as, ok := st.(*ast.AssignStmt)
			if !ok || len(as.Lhs) != 2 || len(as.Rhs) != 1 || !c13isSel(as.Lhs[0], "RedirectCode") {
				continue
			}
			call, ok := as.Rhs[0].(*ast.CallExpr)
			if !ok || x.src(call.Fun) != "strconv.Atoi" || len(call.Args) != 1 {
				continue
			}
			atoiOfOpt = isRedirectOpt(call.Args[0])
			errName := ""
			if id, ok := as.Lhs[1].(*ast.Ident); ok {
				errName = id.Name
			}
			// the if / else-if chain that follows (a switch has been normalised into one)
			if i+1 < len(blk.List) {
				var cur ast.Stmt = blk.List[i+1]
				for cur != nil {
					is, ok := cur.(*ast.IfStmt)
					if !ok {
						break
					}
					if b, ok := is.Cond.(*ast.BinaryExpr); ok && b.Op == token.NEQ && x.src(b.X) == errName && x.src(b.Y) == "nil" {
						resetErr = c13assignsZero(is.Body, "RedirectCode")
					}
					if l, h := bounds(is.Cond); l && h {
						resetRange = c13assignsZero(is.Body, "RedirectCode")
					}
					cur = is.Else
				}
			}
		}
		return true
	})
	if lo < 0 || hi < 0 {
		x.fail("route.addTarget: the bounds of the redirect code were not found")
		return
	}
	x.defInt("codeLo", lo)
	x.defInt("codeHi", hi)
	x.defBool("codeAtoiOfRedirectOption", atoiOfOpt)
	x.defBool("codeResetOnAtoiError", resetErr)
	x.defBool("codeResetWhenOutOfRange", resetRange)
}

// ---- ServeHTTP ---------------------------------------------------------------------------------------------

// calls that run an upstream handler or dial
var c13upstreamCallees = map[string]bool{"ServeHTTP": true, "RoundTrip": true, "Dial": true, "DialContext": true, "DialTimeout": true, "Do": true}

func c13Serve(x *X) {
	fd := x.funcDecl("proxy", "HTTPProxy", "ServeHTTP")
	if fd == nil {
		return
	}
	env := x.paramEnv(fd)
	inlinedCalls := func(s ast.Node) (names []string, nodes []*ast.CallExpr) {
		tmp := &ast.FuncDecl{Name: ast.NewIdent("·stmt"), Type: &ast.FuncType{}, Body: &ast.BlockStmt{}}
		if st, ok := s.(ast.Stmt); ok {
			tmp.Body.List = []ast.Stmt{st}
		} else if b, ok := s.(*ast.BlockStmt); ok {
			tmp.Body = b
		}
		x.WalkInlined("proxy", tmp, func(n ast.Node) bool {
			if c, ok := n.(*ast.CallExpr); ok {
				switch f := c.Fun.(type) {
				case *ast.Ident:
					names = append(names, f.Name)
				case *ast.SelectorExpr:
					names = append(names, f.Sel.Name)
				}
				nodes = append(nodes, c)
			}
			return true
		})
		return
	}
	has := func(names []string, n string) bool {
		for _, m := range names {
			if m == n {
				return true
			}
		}
		return false
	}
	lookupIdx, redirectIdx, handlerIdx := -1, -1, -1
	var redirectIf *ast.IfStmt
	var redirectCall *ast.CallExpr
	// roles are assigned in statement order, so that the target is "call:Lookup" whatever it is called
	for i, s := range fd.Body.List {
		names, nodes := inlinedCalls(s)
		if lookupIdx < 0 && has(names, "Lookup") {
			lookupIdx = i
		}
		if is, ok := s.(*ast.IfStmt); ok && redirectIdx < 0 {
			bn, bnodes := inlinedCalls(is.Body)
			for k, n := range bn {
				if n == "Redirect" && x.src(bnodes[k].Fun) == "http.Redirect" {
					redirectIdx, redirectIf, redirectCall = i, is, bnodes[k]
				}
			}
		}
		if redirectIdx >= 0 && i > redirectIdx && handlerIdx < 0 && has(names, "ServeHTTP") {
			handlerIdx = i
		}
		_ = nodes
		if redirectIdx < 0 {
			if as, ok := s.(*ast.AssignStmt); ok && len(as.Lhs) == len(as.Rhs) {
				for k, l := range as.Lhs {
					if id, ok := l.(*ast.Ident); ok {
						x.assignRole(env, id.Name, as.Rhs[k])
					}
				}
			}
		}
	}
	if lookupIdx < 0 || redirectIdx < 0 {
		x.fail("proxy.ServeHTTP: lookup call or redirect branch not found")
		return
	}
	w := x.newRoleWalk("proxy")
	var hs []*ast.FuncDecl
	conj := w.condConjuncts(redirectIf.Cond, env, 0, &hs)
	sort.Strings(conj)
	x.defStrList("serveRedirectCond", conj)
	args := make([]string, len(redirectCall.Args))
	for i, a := range redirectCall.Args {
		args[i] = x.canon(a, env)
	}
	x.defStrList("serveRedirectArgs", args)
	_, returns := redirectIf.Body.List[len(redirectIf.Body.List)-1].(*ast.ReturnStmt)
	x.defBool("serveRedirectReturns", returns && redirectIf.Else == nil)
	x.defBool("serveLookupBeforeRedirect", lookupIdx < redirectIdx)
	x.defBool("serveHandlerCalledAfterRedirect", handlerIdx > redirectIdx)
	var early []string
	for _, s := range fd.Body.List[:redirectIdx+1] {
		names, _ := inlinedCalls(s)
		for _, n := range names {
			if c13upstreamCallees[n] {
				early = append(early, n)
			}
		}
	}
	x.defStrList("serveUpstreamCallsUpToRedirect", c13uniq(early))
	// stores through the target (whatever the variable is called)
	sw := x.newRoleWalk("proxy")
	sw.follow = func(recv string, args []string) bool { return false }
	sw.block(fd.Body, x.paramEnv(fd), 0)
	var tw []string
	for _, s := range sw.stores {
		if c13rootOf(s.lhs) == "call:Lookup" {
			tw = append(tw, s.lhs)
		}
	}
	x.defStrList("serveStoresThroughTarget", c13uniq(tw))
}

// ---- Lookup ------------------------------------------------------------------------------------------------

func c13Lookup(x *X, soft func(func())) {
	fd := x.funcDecl("route", "Table", "Lookup")
	if fd == nil {
		return
	}
	w := x.newRoleWalk("route")
	// the identifier Lookup returns
	ast.Inspect(fd.Body, func(n ast.Node) bool {
		if r, ok := n.(*ast.ReturnStmt); ok && len(r.Results) == 1 {
			if id, ok := r.Results[0].(*ast.Ident); ok {
				w.retName = id.Name
			}
		}
		return true
	})
	// follow the calls that are made on, or are handed, the target or its per-request copy
	interesting := func(c string) bool {
		r := c13rootOf(c)
		return r == "copy" || strings.HasPrefix(r, "call:lookup") || r == "res0"
	}
	w.follow = func(recv string, args []string) bool {
		if interesting(recv) {
			return true
		}
		for _, a := range args {
			if interesting(a) {
				return true
			}
		}
		return false
	}
	w.block(fd.Body, x.paramEnv(fd), 0)
	// field stores that do not go to the per-request copy or to the request (p0)
	var shared []string
	for _, s := range w.stores {
		if !strings.ContainsAny(s.lhs, ".") {
			continue
		}
		if strings.HasPrefix(s.lhs, "fresh#") { // a function-local allocation that is not (yet) reachable from anywhere else
			continue
		}
		if r := c13rootOf(s.lhs); r != "copy" && r != "p0" || strings.HasPrefix(s.lhs, "*") {
			shared = append(shared, s.lhs)
		}
	}
	x.defStrList("lookupStoresNotPerRequest", c13uniq(shared))
	x.defStrList("lookupBuildReceivers", c13uniq(w.recvOf["BuildRedirectURL"]))
	// the self-redirect skip: the `if … { …; continue }` whose condition reads the redirect URL (change detector:
	// the skip is sequential code whose effect c13.http / c13.sequence / c13.tag compare with the model)
	soft(func() {
		found := false
		for _, si := range w.skipIfs {
			if !strings.Contains(strings.Join(si.conjuncts, " "), "RedirectURL") {
				continue
			}
			found = true
			x.defStrList("lookupSelfRedirectComparisons", si.conjuncts)
			x.defBool("lookupSelfRedirectContinues", si.continues)
			x.defBool("lookupSkipClearsTarget", si.nilsRes)
			var lits []string
			tls := false
			for _, h := range si.helpers {
				lits = append(lits, c13stringLits(h.Body)...)
				ast.Inspect(h.Body, func(n ast.Node) bool {
					if b, ok := n.(*ast.BinaryExpr); ok && b.Op == token.NEQ && c13isSel(b.X, "TLS") && x.src(b.Y) == "nil" {
						tls = true
					}
					return true
				})
			}
			x.defStrList("requestSchemeLits", c13sortedUniq(lits))
			x.defBool("requestSchemeReadsTLS", tls)
			break
		}
		if !found {
			x.fail("route.Lookup: no `if … continue` whose condition reads the redirect URL")
		}
	})
}
