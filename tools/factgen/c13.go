package main

import (
	"go/ast"
	"go/token"
	"sort"
	"strconv"
	"strings"
)

// C13 — redirect routes answer from the request alone.
//
// Facts the model and the theorems silently depend on:
//   - the string literals of BuildRedirectURL ($path, /$path, $host, /);
//   - the 300/399 bounds of the redirect option and that a value Atoi rejects leaves the code 0;
//   - ServeHTTP: the redirect branch (condition, http.Redirect arguments, return) comes after Lookup and before
//     the target URL is built and before any handler that contacts an upstream is created or called;
//   - no store through the shared *Target on the request path: the field stores of Lookup, the receiver of
//     BuildRedirectURL in Lookup (a per-request copy), the stores of ServeHTTP rooted at the target, and the
//     stores of BuildRedirectURL (only its receiver's RedirectURL);
//   - the operands of the self-redirect comparison and the shape of requestScheme.
func init() {
	register("C13", func(x *X) error {
		c13Build(x)
		c13Code(x)
		c13Serve(x)
		c13Lookup(x)
		return nil
	})
}

func uniq(xs []string) []string {
	seen := map[string]bool{}
	var out []string
	for _, s := range xs {
		if !seen[s] {
			seen[s] = true
			out = append(out, s)
		}
	}
	return out
}

// stores lists the left-hand sides of every assignment / inc-dec in node that are not plain identifiers.
func (x *X) stores(node ast.Node) []ast.Expr {
	var out []ast.Expr
	ast.Inspect(node, func(n ast.Node) bool {
		switch s := n.(type) {
		case *ast.AssignStmt:
			for _, l := range s.Lhs {
				if _, ok := l.(*ast.Ident); !ok {
					out = append(out, l)
				}
			}
		case *ast.IncDecStmt:
			if _, ok := s.X.(*ast.Ident); !ok {
				out = append(out, s.X)
			}
		}
		return true
	})
	return out
}

func rootIdent(e ast.Expr) string {
	for {
		switch v := e.(type) {
		case *ast.SelectorExpr:
			e = v.X
		case *ast.IndexExpr:
			e = v.X
		case *ast.StarExpr:
			e = v.X
		case *ast.ParenExpr:
			e = v.X
		case *ast.Ident:
			return v.Name
		default:
			return ""
		}
	}
}

func stringLits(node ast.Node) []string {
	var out []string
	ast.Inspect(node, func(n ast.Node) bool {
		if b, ok := n.(*ast.BasicLit); ok && b.Kind == token.STRING {
			if s, err := strconv.Unquote(b.Value); err == nil {
				out = append(out, s)
			}
		}
		return true
	})
	return out
}

func c13Build(x *X) {
	fd := x.funcDecl("route", "Target", "BuildRedirectURL")
	if fd == nil {
		return
	}
	lits := uniq(stringLits(fd.Body))
	sort.Strings(lits)
	x.defStrList("buildLits", lits)
	recv := ""
	if fd.Recv != nil && len(fd.Recv.List) == 1 && len(fd.Recv.List[0].Names) == 1 {
		recv = fd.Recv.List[0].Names[0].Name
	}
	// every store of the function goes through recv.RedirectURL
	var outside []string
	for _, l := range x.stores(fd.Body) {
		s := x.src(l)
		if !(s == recv+".RedirectURL" || strings.HasPrefix(s, recv+".RedirectURL.")) {
			outside = append(outside, s)
		}
	}
	x.defStrList("buildStoresOutsideRedirectURL", uniq(outside))
	// the first statement allocates the URL the later stores go to
	first := ""
	if len(fd.Body.List) > 0 {
		if as, ok := fd.Body.List[0].(*ast.AssignStmt); ok && len(as.Lhs) == 1 && len(as.Rhs) == 1 {
			if u, ok := as.Rhs[0].(*ast.UnaryExpr); ok && u.Op == token.AND {
				if cl, ok := u.X.(*ast.CompositeLit); ok {
					first = x.src(as.Lhs[0]) + " = &" + x.src(cl.Type) + "{…}"
				}
			}
		}
	}
	x.defStr("buildFirstStmt", first)
}

func c13Code(x *X) {
	fd := x.funcDecl("route", "Route", "addTarget")
	if fd == nil {
		return
	}
	var lo, hi int64 = -1, -1
	reset := false
	atoiArg := ""
	ast.Inspect(fd.Body, func(n ast.Node) bool {
		switch v := n.(type) {
		case *ast.BinaryExpr:
			if x.src(v.X) == "t.RedirectCode" {
				if b, ok := v.Y.(*ast.BasicLit); ok && b.Kind == token.INT {
					k, _ := strconv.ParseInt(b.Value, 0, 64)
					if v.Op == token.LSS {
						lo = k
					}
					if v.Op == token.GTR {
						hi = k
					}
				}
			}
		case *ast.BlockStmt:
			// "t.RedirectCode, err = strconv.Atoi(…)" followed by "if err != nil { … t.RedirectCode = 0 … }"
			for i, st := range v.List {
				as, ok := st.(*ast.AssignStmt)
				if !ok || len(as.Lhs) != 2 || len(as.Rhs) != 1 || x.src(as.Lhs[0]) != "t.RedirectCode" {
					continue
				}
				call, ok := as.Rhs[0].(*ast.CallExpr)
				if !ok || x.src(call.Fun) != "strconv.Atoi" || len(call.Args) != 1 {
					continue
				}
				atoiArg = x.src(call.Args[0])
				if i+1 < len(v.List) {
					if is, ok := v.List[i+1].(*ast.IfStmt); ok && x.src(is.Cond) == "err != nil" {
						for _, b := range is.Body.List {
							if x.src(b) == "t.RedirectCode = 0" {
								reset = true
							}
						}
					}
				}
			}
		}
		return true
	})
	if lo < 0 || hi < 0 {
		x.fail("route.addTarget: the bounds of the redirect code were not found")
		return
	}
	x.defInt("codeLo", lo)
	x.defInt("codeHi", hi)
	x.defStr("codeAtoiArg", atoiArg)
	x.defBool("codeResetOnAtoiError", reset)
}

func c13Serve(x *X) {
	fd := x.funcDecl("proxy", "HTTPProxy", "ServeHTTP")
	if fd == nil {
		return
	}
	idx := func(pred func(ast.Stmt) bool) int {
		for i, s := range fd.Body.List {
			if pred(s) {
				return i
			}
		}
		return -1
	}
	hasCall := func(n ast.Node, fn string) bool { return len(x.calls(n, fn)) > 0 }
	lookup := idx(func(s ast.Stmt) bool { return hasCall(s, "p.Lookup") })
	redirect := idx(func(s ast.Stmt) bool {
		is, ok := s.(*ast.IfStmt)
		return ok && hasCall(is.Body, "http.Redirect")
	})
	if lookup < 0 || redirect < 0 {
		x.fail("proxy.ServeHTTP: lookup or redirect branch not found")
		return
	}
	is := fd.Body.List[redirect].(*ast.IfStmt)
	x.defStr("serveRedirectCond", x.src(is.Cond))
	x.defStr("serveRedirectCall", x.src(x.calls(is.Body, "http.Redirect")[0]))
	_, returns := is.Body.List[len(is.Body.List)-1].(*ast.ReturnStmt)
	x.defBool("serveRedirectReturns", returns && is.Else == nil)
	x.defNat("serveLookupIdx", uint64(lookup))
	x.defNat("serveRedirectIdx", uint64(redirect))
	// first statement that builds the upstream URL or creates / calls an upstream handler
	up := idx(func(s ast.Stmt) bool {
		if as, ok := s.(*ast.AssignStmt); ok && len(as.Lhs) == 1 && x.src(as.Lhs[0]) == "targetURL" {
			return true
		}
		return hasCall(s, "newHTTPProxy") || hasCall(s, "newWSHandler") || hasCall(s, "h.ServeHTTP") || hasCall(s, "gzip.NewGzipHandler")
	})
	if up < 0 {
		x.fail("proxy.ServeHTTP: no statement building the upstream request found")
		return
	}
	x.defNat("serveFirstUpstreamIdx", uint64(up))
	// the calls made between the lookup and the redirect (none of them dials an upstream)
	var between []string
	for _, s := range fd.Body.List[lookup+1 : redirect] {
		ast.Inspect(s, func(n ast.Node) bool {
			if c, ok := n.(*ast.CallExpr); ok {
				between = append(between, x.src(c.Fun))
			}
			return true
		})
	}
	between = uniq(between)
	sort.Strings(between)
	x.defStrList("serveCallsBetweenLookupAndRedirect", between) // informative
	// calls that create or run an upstream handler / dial, anywhere up to and including the redirect branch
	upstreamCallees := map[string]bool{"newHTTPProxy": true, "newWSHandler": true, "h.ServeHTTP": true, "net.Dial": true,
		"tls.Dial": true, "tr.RoundTrip": true, "p.Transport.RoundTrip": true, "gzip.NewGzipHandler": true, "httputil.NewSingleHostReverseProxy": true}
	var early []string
	for _, s := range fd.Body.List[:redirect+1] {
		ast.Inspect(s, func(n ast.Node) bool {
			if c, ok := n.(*ast.CallExpr); ok && upstreamCallees[x.src(c.Fun)] {
				early = append(early, x.src(c.Fun))
			}
			return true
		})
	}
	x.defStrList("serveUpstreamCallsUpToRedirect", uniq(early))
	// stores rooted at the target
	var tw []string
	for _, l := range x.stores(fd.Body) {
		if rootIdent(l) == "t" {
			tw = append(tw, x.src(l))
		}
	}
	x.defStrList("serveStoresThroughTarget", uniq(tw))
}

func c13Lookup(x *X) {
	fd := x.funcDecl("route", "Table", "Lookup")
	if fd == nil {
		return
	}
	var st []string
	for _, l := range x.stores(fd.Body) {
		st = append(st, x.src(l))
	}
	st = uniq(st)
	sort.Strings(st)
	x.defStrList("lookupFieldStores", st)
	// receivers of BuildRedirectURL: a variable declared in Lookup as `v := *p` is a per-request copy
	copies := map[string]bool{}
	ast.Inspect(fd.Body, func(n ast.Node) bool {
		if as, ok := n.(*ast.AssignStmt); ok && as.Tok == token.DEFINE && len(as.Lhs) == 1 && len(as.Rhs) == 1 {
			if id, ok := as.Lhs[0].(*ast.Ident); ok {
				if _, ok := as.Rhs[0].(*ast.StarExpr); ok {
					copies[id.Name] = true
				}
			}
		}
		return true
	})
	var recvs []string
	ast.Inspect(fd.Body, func(n ast.Node) bool {
		if c, ok := n.(*ast.CallExpr); ok {
			if sel, ok := c.Fun.(*ast.SelectorExpr); ok && sel.Sel.Name == "BuildRedirectURL" {
				if id, ok := sel.X.(*ast.Ident); ok && copies[id.Name] {
					recvs = append(recvs, "per-request copy")
				} else {
					recvs = append(recvs, "shared: "+x.src(sel.X))
				}
			}
		}
		return true
	})
	x.defStrList("lookupBuildReceivers", recvs)
	// the comparison that decides the skip
	var cmps []string
	ast.Inspect(fd.Body, func(n ast.Node) bool {
		if is, ok := n.(*ast.IfStmt); ok && strings.Contains(x.src(is.Cond), "RedirectURL.Scheme") {
			var walk func(e ast.Expr)
			walk = func(e ast.Expr) {
				if b, ok := e.(*ast.BinaryExpr); ok && b.Op == token.LAND {
					walk(b.X)
					walk(b.Y)
					return
				}
				cmps = append(cmps, x.src(e))
			}
			walk(is.Cond)
			// the body skips to the next host
			skips := false
			for _, s := range is.Body.List {
				if br, ok := s.(*ast.BranchStmt); ok && br.Tok == token.CONTINUE {
					skips = true
				}
			}
			x.defBool("lookupSelfRedirectContinues", skips)
			// the skipped target is dropped before the loop goes on
			clears := false
			for _, s := range is.Body.List {
				if x.src(s) == "target = nil" {
					clears = true
				}
				if br, ok := s.(*ast.BranchStmt); ok && br.Tok == token.CONTINUE {
					break
				}
			}
			x.defBool("lookupSkipClearsTarget", clears)
		}
		return true
	})
	sort.Strings(cmps)
	x.defStrList("lookupSelfRedirectComparisons", cmps)
	// requestScheme: header first, connection otherwise
	var rsLits []string
	rsTLS := false
	for _, f := range x.files("route") {
		for _, d := range f.Decls {
			if g, ok := d.(*ast.FuncDecl); ok && g.Name.Name == "requestScheme" && g.Recv == nil {
				rsLits = uniq(stringLits(g.Body))
				rsTLS = strings.Contains(x.src(g.Body), ".TLS != nil")
			}
		}
	}
	x.defStrList("requestSchemeLits", rsLits)
	x.defBool("requestSchemeReadsTLS", rsTLS)
}
