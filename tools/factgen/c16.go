package main

import (
	"go/ast"
	"go/token"
	"strings"
)

// C16 — facts the gRPC model silently depends on, read off proxy/grpc_handler.go and main.go.
func init() {
	register("C16", func(x *X) error {
		const dir = "proxy"

		// --- getDestinationHostFromMetadata: md["dsthost"], exactly one value -------------------------------
		if fd := x.funcDecl(dir, "GrpcProxyInterceptor", "getDestinationHostFromMetadata"); fd != nil {
			key, cond := "", ""
			ast.Inspect(fd.Body, func(n ast.Node) bool {
				switch v := n.(type) {
				case *ast.IndexExpr:
					if s, ok := x.strLit(v.Index); ok {
						key = s
					}
				case *ast.IfStmt:
					cond = x.src(v.Cond)
				}
				return true
			})
			if key == "" {
				x.fail("getDestinationHostFromMetadata: metadata key literal not found")
			}
			x.defStr("dsthostKey", key)
			x.defStr("dsthostCond", cond)
		}

		// --- Stream: lookup first; nil target ⇒ NotFound and return, before the handler is called -----------
		if fd := x.funcDecl(dir, "GrpcProxyInterceptor", "Stream"); fd != nil {
			idxLookup, idxNil, idxHandler := -1, -1, -1
			nilCode, nilMsg, nilReturns := "", "", false
			errCode := ""
			lookupArgs := ""
			for i, st := range fd.Body.List {
				switch v := st.(type) {
				case *ast.AssignStmt:
					for _, c := range x.calls(v, "g.lookup") {
						if idxLookup < 0 {
							idxLookup = i
							lookupArgs = argList(x, c)
						}
					}
					if len(x.calls(v, "handler")) > 0 && idxHandler < 0 {
						idxHandler = i
					}
				case *ast.IfStmt:
					cond := x.src(v.Cond)
					ret := lastReturn(v.Body)
					if cond == "target == nil" {
						idxNil = i
						if ret != nil && len(ret.Results) == 1 {
							nilReturns = true
							for _, c := range x.calls(ret, "status.Error") {
								if len(c.Args) == 2 {
									nilCode = x.src(c.Args[0])
									nilMsg, _ = x.strLit(c.Args[1])
								}
							}
						}
						if len(x.calls(v.Body, "handler")) > 0 {
							x.fail("Stream: the nil-target branch calls the handler")
						}
					}
					if cond == "err != nil" && ret != nil {
						for _, c := range x.calls(ret, "status.Error") {
							if len(c.Args) == 2 {
								errCode = x.src(c.Args[0])
							}
						}
					}
				}
			}
			x.defStr("streamLookupArgs", lookupArgs)
			x.defBool("streamOrderLookupNilHandler", idxLookup >= 0 && idxLookup < idxNil && idxNil < idxHandler)
			x.defBool("streamNilTargetReturns", nilReturns)
			x.defStr("streamNilTargetCode", nilCode)
			x.defStr("streamNilTargetMessage", nilMsg)
			x.defStr("streamLookupErrorCode", errCode)
			x.defNat("streamHandlerCalls", uint64(len(x.calls(fd.Body, "handler"))))
		}

		// --- lookup: the synthetic request and the one call into the table -----------------------------------
		if fd := x.funcDecl(dir, "GrpcProxyInterceptor", "lookup"); fd != nil {
			assigns := map[string]string{}
			ast.Inspect(fd.Body, func(n ast.Node) bool {
				if a, ok := n.(*ast.AssignStmt); ok && len(a.Lhs) >= 1 && len(a.Rhs) == 1 {
					if id, ok := a.Lhs[0].(*ast.Ident); ok {
						assigns[id.Name] = x.src(a.Rhs[0])
					}
				}
				return true
			})
			host, urlf := "", ""
			var reqFields []string
			ast.Inspect(fd.Body, func(n ast.Node) bool {
				cl, ok := n.(*ast.CompositeLit)
				if !ok || x.src(cl.Type) != "http.Request" {
					return true
				}
				for _, el := range cl.Elts {
					if kv, ok := el.(*ast.KeyValueExpr); ok {
						reqFields = append(reqFields, x.src(kv.Key))
						switch x.src(kv.Key) {
						case "Host":
							host = x.src(kv.Value)
						case "URL":
							urlf = x.src(kv.Value)
						}
					}
				}
				return true
			})
			// the fields the synthetic request sets: no TLS, so C03 sees a plain request
			x.defStrList("reqFields", reqFields)
			x.defStr("reqHostInit", assigns[host])
			x.defStr("reqURLInit", assigns[urlf])
			var lookups []string
			ast.Inspect(fd.Body, func(n ast.Node) bool {
				if c, ok := n.(*ast.CallExpr); ok {
					if sel, ok := c.Fun.(*ast.SelectorExpr); ok && sel.Sel.Name == "Lookup" {
						lookups = append(lookups, x.src(sel.X)+".Lookup("+argList(x, c)+")")
					}
				}
				return true
			})
			x.defStrList("tableLookupCalls", lookups)
			x.defStr("lookupPicker", assigns["pick"])
			x.defStr("lookupMatcher", assigns["match"])
		}

		// --- director: metadata copied to the outgoing context; connection from the pool for the ctx target --
		if fd := x.funcDecl(dir, "", "GetGRPCDirector"); fd != nil {
			out := ""
			for _, c := range x.calls(fd.Body, "metadata.NewOutgoingContext") {
				out = argList(x, c)
			}
			x.defStr("directorOutgoingContextArgs", out)
			get := ""
			for _, c := range x.calls(fd.Body, "connectionPool.Get") {
				get = argList(x, c)
			}
			x.defStr("directorPoolGetArgs", get)
			tgt := ""
			ast.Inspect(fd.Body, func(n ast.Node) bool {
				if a, ok := n.(*ast.AssignStmt); ok && len(a.Lhs) == 2 && x.src(a.Lhs[0]) == "target" {
					tgt = x.src(a.Rhs[0])
				}
				return true
			})
			x.defStr("directorTargetInit", tgt)
			x.defStr("directorPoolInit", func() string {
				s := ""
				ast.Inspect(fd.Body, func(n ast.Node) bool {
					if a, ok := n.(*ast.AssignStmt); ok && x.src(a.Lhs[0]) == "connectionPool" {
						s = x.src(a.Rhs[0])
					}
					return true
				})
				return s
			}())
		}
		if fd := x.funcDecl(dir, "", "makeGRPCTargetKey"); fd != nil {
			if r := lastReturn(fd.Body); r != nil && len(r.Results) == 1 {
				x.defStr("targetKeyExpr", x.src(r.Results[0]))
			} else {
				x.fail("makeGRPCTargetKey: no single return")
			}
		}

		// --- the pool ----------------------------------------------------------------------------------------
		lockCalls := func(fd *ast.FuncDecl) []string {
			var out []string
			ast.Inspect(fd.Body, func(n ast.Node) bool {
				if c, ok := n.(*ast.CallExpr); ok {
					if s := x.src(c.Fun); strings.HasPrefix(s, "p.lock.") {
						out = append(out, strings.TrimPrefix(s, "p.lock."))
					}
				}
				return true
			})
			return out
		}
		if fd := x.funcDecl(dir, "grpcConnectionPool", "Get"); fd != nil {
			x.defStrList("getLockCalls", lockCalls(fd))
			cond := ""
			ast.Inspect(fd.Body, func(n ast.Node) bool {
				if s, ok := n.(*ast.IfStmt); ok {
					cond = x.src(s.Cond)
				}
				return true
			})
			x.defStr("getHitCond", cond)
			x.defNat("getNewConnectionCalls", uint64(len(x.calls(fd.Body, "p.newConnection"))))
		}
		if fd := x.funcDecl(dir, "grpcConnectionPool", "Set"); fd != nil {
			x.defStrList("setLockCalls", lockCalls(fd))
			keep := ""
			ast.Inspect(fd.Body, func(n ast.Node) bool {
				if s, ok := n.(*ast.IfStmt); ok && len(x.calls(s.Body, "conn.Close")) == 1 {
					keep = x.src(s.Cond)
				}
				return true
			})
			x.defStr("setKeepsPooledCond", keep)
		}
		if fd := x.funcDecl(dir, "grpcConnectionPool", "newConnection"); fd != nil {
			x.defNat("newConnectionDials", uint64(len(x.calls(fd.Body, "grpc.DialContext"))))
			x.defNat("newConnectionSets", uint64(len(x.calls(fd.Body, "p.Set"))))
			for _, c := range x.calls(fd.Body, "grpc.DialContext") {
				if len(c.Args) >= 2 {
					x.defStr("dialTarget", x.src(c.Args[1]))
				}
			}
		}
		if fd := x.funcDecl(dir, "grpcConnectionPool", "cleanup"); fd != nil {
			x.defStrList("cleanupLockCalls", lockCalls(fd))
			var conds []string
			ast.Inspect(fd.Body, func(n ast.Node) bool {
				if s, ok := n.(*ast.IfStmt); ok && len(x.calls(s.Body, "delete")) > 0 {
					conds = append(conds, x.src(s.Cond))
				}
				return true
			})
			x.defStrList("cleanupDeleteConds", conds)
			x.defNat("cleanupCloses", uint64(len(x.calls(fd.Body, "cs.Close"))))
			sleep := ""
			for _, c := range x.calls(fd.Body, "time.Sleep") {
				sleep = argList(x, c)
			}
			x.defStr("cleanupSleepArg", sleep)
			tbl := ""
			ast.Inspect(fd.Body, func(n ast.Node) bool {
				if a, ok := n.(*ast.AssignStmt); ok && x.src(a.Lhs[0]) == "table" {
					tbl = x.src(a.Rhs[0])
				}
				return true
			})
			x.defStr("cleanupTableInit", tbl)
		}
		if fd := x.funcDecl(dir, "", "hasTarget"); fd != nil {
			cmp := ""
			ast.Inspect(fd.Body, func(n ast.Node) bool {
				if s, ok := n.(*ast.IfStmt); ok {
					cmp = x.src(s.Cond)
				}
				return true
			})
			x.defStr("hasTargetCond", cmp)
		}
		if fd := x.funcDecl(dir, "", "newGrpcConnectionPool"); fd != nil {
			secs := uint64(0)
			found := false
			ast.Inspect(fd.Body, func(n ast.Node) bool {
				kv, ok := n.(*ast.KeyValueExpr)
				if !ok || x.src(kv.Key) != "cleanupInterval" {
					return true
				}
				if v, ok := durationSeconds(x, kv.Value); ok {
					secs, found = v, true
				}
				return true
			})
			if !found {
				x.fail("newGrpcConnectionPool: cleanupInterval is not <n> * time.Second")
			}
			x.defNat("cleanupIntervalSeconds", secs)
			starts := 0
			ast.Inspect(fd.Body, func(n ast.Node) bool {
				if g, ok := n.(*ast.GoStmt); ok && x.src(g.Call.Fun) == "cp.cleanup" {
					starts++
				}
				return true
			})
			x.defNat("cleanupGoroutinesStarted", uint64(starts))
		}

		// --- main.newGrpcProxy: what the harness replicates -------------------------------------------------
		if fd := x.funcDecl(".", "", "newGrpcProxy"); fd != nil {
			var opts []string
			if r := lastReturn(fd.Body); r != nil && len(r.Results) == 1 {
				if cl, ok := r.Results[0].(*ast.CompositeLit); ok {
					for _, el := range cl.Elts {
						opts = append(opts, x.src(el))
					}
				}
			}
			x.defStrList("grpcServerOptions", opts)
			h := ""
			ast.Inspect(fd.Body, func(n ast.Node) bool {
				if a, ok := n.(*ast.AssignStmt); ok && x.src(a.Lhs[0]) == "handler" {
					h = x.src(a.Rhs[0])
				}
				return true
			})
			x.defStr("grpcHandlerInit", h)
		}
		if fd := x.funcDecl(dir, "", "ListenAndServeGRPC"); fd != nil {
			n := ""
			for _, c := range x.calls(fd.Body, "grpc.NewServer") {
				n = argList(x, c)
				if c.Ellipsis != token.NoPos {
					n += "..."
				}
			}
			x.defStr("grpcNewServerArgs", n)
		}
		return nil
	})
}

func argList(x *X, c *ast.CallExpr) string {
	parts := make([]string, len(c.Args))
	for i, a := range c.Args {
		parts[i] = x.src(a)
	}
	return strings.Join(parts, ", ")
}

func lastReturn(b *ast.BlockStmt) *ast.ReturnStmt {
	if b == nil || len(b.List) == 0 {
		return nil
	}
	r, _ := b.List[len(b.List)-1].(*ast.ReturnStmt)
	return r
}

// durationSeconds evaluates `time.Second * n` / `n * time.Second`.
func durationSeconds(x *X, e ast.Expr) (uint64, bool) {
	b, ok := e.(*ast.BinaryExpr)
	if !ok || b.Op != token.MUL {
		return 0, false
	}
	lit := func(e ast.Expr) (uint64, bool) {
		l, ok := e.(*ast.BasicLit)
		if !ok || l.Kind != token.INT {
			return 0, false
		}
		var v uint64
		for _, ch := range l.Value {
			if ch < '0' || ch > '9' {
				return 0, false
			}
			v = v*10 + uint64(ch-'0')
		}
		return v, true
	}
	if x.src(b.X) == "time.Second" {
		return lit(b.Y)
	}
	if x.src(b.Y) == "time.Second" {
		return lit(b.X)
	}
	return 0, false
}
