package main

import (
	"bytes"
	"fmt"
	"go/ast"
	"go/parser"
	"go/printer"
	"go/token"
	"os"
	"os/exec"
	"path/filepath"
	"regexp"
	"sort"
	"strings"
)

// C16 — facts the gRPC model silently depends on, read off proxy/grpc_handler.go and main.go.
//
// The facts pin MEANING, not spelling: the source is normalised first (named constants inlined, literal
// concatenations folded, switch -> if chains: x.UseNormalizedAST), every anchored function is then walked in
// source order by `c16walk`, which
//   - follows calls to unexported functions and methods of the package into their bodies (depth <= 4), binding
//     the callee's receiver and parameters to the canonical text of the caller's arguments — extracting or
//     inlining a helper does not change the event list, and values are tracked through helpers;
//   - names variables by ROLE: receiver -> recv, i-th parameter -> p<i>, parameters of a function literal ->
//     c<i>, a local defined from one expression -> that expression (substituted), locals defined from a
//     multi-value call -> <callee>#<i>, from a composite literal -> lit#<Type>, from a constructor-like helper ->
//     made#<ResultType>, range variables -> rk<n>/rv<n>; the result of the route lookup -> looked / lookedErr;
//   - records EVENTS (calls, stores, returns, composite literals, go/defer) with the list of conditions that
//     guard them; an `if c { …; return/continue }` contributes `!(c)` to everything that follows it in the
//     block, so early exits and else-branches (and switches) read the same.
//
// Obligations in Props/C16Facts.lean are stated over filtered event lists.
func init() {
	register("C16", func(x *X) error {
		x.UseNormalizedAST()
		const dir = "proxy"

		// --- getDestinationHostFromMetadata: the alternatives of its result ---------------------------------
		if fd := x.funcDecl(dir, "GrpcProxyInterceptor", "getDestinationHostFromMetadata"); fd != nil {
			w := newC16Walk(x, dir)
			w.root(fd)
			key := ""
			ast.Inspect(fd.Body, func(n ast.Node) bool {
				if ie, ok := n.(*ast.IndexExpr); ok {
					if s, ok := x.strLit(ie.Index); ok {
						key = s
					}
				}
				return true
			})
			if key == "" {
				x.fail("getDestinationHostFromMetadata: metadata key literal not found")
			}
			x.defStr("dsthostKey", key)
			// every value the function can return, with the conditions under which it is chosen
			// (a value stored into a named result is overridden by a later store under further conditions:
			// `r = d; if c { r = v }; return` reads `[c] v`, `[!(c)] d`, like `if c { return v }; return d`)
			results := namedResults(fd)
			var rs []ev
			override := func(g []string) {
				for i := range rs {
					if p := rs[i].guards; len(p) < len(g) && strings.Join(g[:len(p)], "\x00") == strings.Join(p, "\x00") {
						rs[i].guards = append(append([]string(nil), p...), "!("+g[len(p)]+")")
					}
				}
			}
			for _, e := range w.evs {
				switch {
				case e.kind == "ret" && e.depth == 0 && e.text != "":
					rs = append(rs, ev{kind: "ret", text: e.text, guards: e.guards})
				case e.kind == "store" && e.depth == 0:
					for _, r := range results {
						if strings.HasPrefix(e.text, r+" = ") {
							override(e.guards)
							rs = append(rs, ev{kind: "ret", text: strings.TrimPrefix(e.text, r+" = "), guards: e.guards})
						}
					}
				}
			}
			var alts []string
			for _, r := range rs {
				alts = append(alts, r.line())
			}
			sort.Strings(alts)
			x.defStrList("dsthostResults", alts)
		}

		// --- Stream (with lookup inlined): table lookup, status returns, the one handler call ----------------
		if fd := x.funcDecl(dir, "GrpcProxyInterceptor", "Stream"); fd != nil {
			w := newC16Walk(x, dir)
			w.root(fd)
			var flow, req, parse, order, fields []string
			handlerCalls, tlsStores, reqLits := 0, 0, 0
			handlerUnder := []string{}
			for _, e := range w.evs {
				switch {
				case e.kind == "call" && strings.HasSuffix(e.callee, ".Lookup"):
					flow = append(flow, "call "+e.text)
					order = append(order, "lookup")
				case e.kind == "call" && e.callee == "p3":
					handlerCalls++
					flow = append(flow, e.withGuards("call p3"))
					if e.inClosure {
						order = append(order, "handler-in-closure")
					} else {
						order = append(order, "handler")
					}
					handlerUnder = append([]string(nil), e.guards...)
				case (e.kind == "go" || e.kind == "defer") && (e.callee == "p3" || strings.Contains(e.text, "p3(")):
					order = append(order, e.kind+"-handler")
				case e.kind == "ret" && e.depth > 0 && !e.inClosure && strings.HasPrefix(e.text, "status.Error") && w.propagated(e.via):
					// a status returned by an unexported helper whose result Stream hands on as its own
					// (`if err := g.admit(…); err != nil { return err }`, `return helper(…)`): extract-method does
					// not change the order of the interceptor's effects
					if m := c16statusCode.FindStringSubmatch(e.text); m != nil {
						order = append(order, "status:"+m[1])
					} else {
						order = append(order, "status:?")
					}
				case e.kind == "ret" && e.depth == 0 && strings.HasPrefix(e.text, "status.Error"):
					flow = append(flow, e.line())
					if m := c16statusCode.FindStringSubmatch(e.text); m != nil {
						order = append(order, "status:"+m[1])
					} else {
						order = append(order, "status:?")
					}
				case e.kind == "lit" && strings.HasPrefix(e.text, "lit http.Request"):
					// Host and URL decide the routing; how the header map is filled does not
					req = append(req, c16headerVal.ReplaceAllString(e.text, "Header=_"))
					if reqLits == 0 && e.node != nil {
						// the first request literal is the one handed to the table lookup
						for _, el := range e.node.Elts {
							if kv, ok := el.(*ast.KeyValueExpr); ok {
								fields = append(fields, x.src(kv.Key))
							} else {
								fields = append(fields, "<positional>")
							}
						}
					}
					reqLits++
				case e.kind == "call" && (e.callee == "url.ParseRequestURI" || e.callee == "metadata.FromIncomingContext"):
					parse = append(parse, "call "+e.text)
				case e.kind == "store" && strings.Contains(e.text, ".TLS"):
					req = append(req, "store "+e.text)
					tlsStores++
				}
			}
			sort.Strings(fields)
			// the order of the interceptor's effects: table lookup, own status returns, the handler call
			x.defStrList("streamOrder", order)
			// the conditions the handler call is guarded by (negations of the early returns before it)
			x.defStrList("streamHandlerGuards", handlerUnder)
			x.defStrList("lookupRequestFields", fields)
			x.defNat("lookupRequestTLSStores", uint64(tlsStores))
			x.defStrList("streamFlow", flow)
			x.defNat("streamHandlerCalls", uint64(handlerCalls))
			x.defStrList("lookupRequest", req)
			x.defStrList("lookupInputs", parse)
		}

		// --- director: metadata copied to the outgoing context; connection from the pool for the ctx target --
		if fd := x.funcDecl(dir, "", "GetGRPCDirector"); fd != nil {
			w := newC16Walk(x, dir)
			w.root(fd)
			var calls []string
			for _, e := range w.evs {
				if (e.kind == "call" || e.kind == "go") && e.inClosure && !isLogCall(e.callee) {
					calls = append(calls, e.kind+" "+e.text)
				}
			}
			x.defStrList("directorCalls", calls)
		}
		if fd := x.funcDecl(dir, "", "makeGRPCTargetKey"); fd != nil {
			w := newC16Walk(x, dir)
			w.root(fd)
			x.defStrList("targetKeyReturns", w.lines(func(e ev) bool { return e.kind == "ret" && e.depth == 0 }))
		}

		// --- the pool ----------------------------------------------------------------------------------------
		maxRetDepth := 0
		poolEvent := func(e ev) bool {
			switch e.kind {
			case "call", "defer", "go":
				c := e.callee
				return strings.HasPrefix(c, "recv.lock.") || c == "grpc.DialContext" || strings.HasSuffix(c, ".Set") ||
					strings.HasSuffix(c, ".Close") || c == "delete" || c == "time.Sleep" || c == "route.GetTable" ||
					strings.HasSuffix(c, ".WaitForStateChange") || strings.HasSuffix(c, ".GetState")
			case "ret":
				// returns of the function itself, and of the (inlined) miss path of Get: those that hand back what was dialled
				return !e.inClosure && (e.depth == 0 || (e.depth <= maxRetDepth && strings.Contains(e.text, "DialContext#")))
			case "store":
				return strings.HasPrefix(e.text, "recv.connections[")
			case "range":
				return true
			}
			return false
		}
		if fd := x.funcDecl(dir, "grpcConnectionPool", "Get"); fd != nil {
			w := newC16Walk(x, dir)
			w.dialArgs = 2 // context and address; the options are built by code the model does not depend on
			w.root(fd)
			maxRetDepth = 1 // the miss path returns through the helper that dials and stores
			x.defStrList("poolGet", w.lines(poolEvent))
			maxRetDepth = 0
		}
		if fd := x.funcDecl(dir, "grpcConnectionPool", "Set"); fd != nil {
			w := newC16Walk(x, dir)
			w.root(fd)
			x.defStrList("poolSet", w.lines(poolEvent))
		}
		if fd := x.funcDecl(dir, "grpcConnectionPool", "cleanup"); fd != nil {
			w := newC16Walk(x, dir)
			w.root(fd)
			x.defStrList("poolCleanup", w.lines(poolEvent))
		}
		{
			unlocked, writesUnderR, scopeKinds, accessors := c16locks(x, dir)
			if unlocked == nil {
				unlocked = []string{}
			}
			if writesUnderR == nil {
				writesUnderR = []string{}
			}
			x.defStrList("poolUnlockedAccesses", unlocked)
			x.defStrList("poolWritesUnderReadLock", writesUnderR)
			x.defStrList("poolLockScopeKinds", scopeKinds)
			x.defNat("poolAccessorCount", uint64(accessors))
		}
		if fd := x.funcDecl(dir, "", "hasTarget"); fd != nil {
			w := newC16Walk(x, dir)
			w.root(fd)
			x.defStrList("hasTargetReturns", w.lines(func(e ev) bool { return (e.kind == "ret" && e.depth == 0) || e.kind == "range" }))
		}
		// the constructor of the pool, found from where it is used (the director), not by its name
		if fd := x.funcDecl(dir, "", "GetGRPCDirector"); fd != nil {
			w := newC16Walk(x, dir)
			w.root(fd)
			secs, found := uint64(0), false
			starts := 0
			for _, e := range w.evs {
				if e.kind == "lit" && strings.HasPrefix(e.text, "lit grpcConnectionPool") && e.node != nil {
					for _, el := range e.node.Elts {
						kv, ok := el.(*ast.KeyValueExpr)
						if !ok || x.src(kv.Key) != "cleanupInterval" {
							continue
						}
						if v, ok := durationSeconds(x, dir, kv.Value); ok {
							secs, found = v, true
						}
					}
				}
				if e.kind == "go" && strings.HasSuffix(e.callee, ".cleanup") {
					starts++
				}
			}
			if !found {
				x.fail("pool constructor: cleanupInterval is not <n> * time.Second")
			}
			x.defNat("cleanupIntervalSeconds", secs)
			x.defNat("cleanupGoroutinesStarted", uint64(starts))
		}

		// --- the call path keeps no shared state ------------------------------------------------------------
		// Interceptor (Stream, lookup, getDestinationHostFromMetadata), director closure and the unexported
		// helpers they call: every use of a package-level variable (a method called on it, a store into it, its
		// value read) and every store through the receiver or into a variable captured by the director's
		// closure. What the interceptor decides for a call must reach the director in the call's own context.
		{
			pkgVars := map[string]bool{}
			for _, f := range x.files(dir) {
				for _, d := range f.Decls {
					gd, ok := d.(*ast.GenDecl)
					if !ok || gd.Tok != token.VAR {
						continue
					}
					for _, sp := range gd.Specs {
						if vs, ok := sp.(*ast.ValueSpec); ok {
							for _, n := range vs.Names {
								pkgVars[n.Name] = true
							}
						}
					}
				}
			}
			var shared []string
			seenFn := map[string]bool{}
			var visit func(where string, body ast.Node, recv string, captured map[string]bool, params map[string]bool)
			rootIdent := func(e ast.Expr) *ast.Ident {
				for {
					switch v := e.(type) {
					case *ast.Ident:
						return v
					case *ast.SelectorExpr:
						e = v.X
					case *ast.IndexExpr:
						e = v.X
					case *ast.StarExpr:
						e = v.X
					case *ast.ParenExpr:
						e = v.X
					default:
						return nil
					}
				}
			}
			visit = func(where string, body ast.Node, recv string, captured map[string]bool, params map[string]bool) {
				// names declared inside the body shadow package-level ones
				local := map[string]bool{}
				for k := range params {
					local[k] = true
				}
				ast.Inspect(body, func(n ast.Node) bool {
					switch v := n.(type) {
					case *ast.AssignStmt:
						if v.Tok == token.DEFINE {
							for _, l := range v.Lhs {
								if id, ok := l.(*ast.Ident); ok {
									local[id.Name] = true
								}
							}
						}
					case *ast.ValueSpec:
						for _, id := range v.Names {
							local[id.Name] = true
						}
					case *ast.RangeStmt:
						for _, e := range []ast.Expr{v.Key, v.Value} {
							if id, ok := e.(*ast.Ident); ok && v.Tok == token.DEFINE {
								local[id.Name] = true
							}
						}
					}
					return true
				})
				// identifiers that are field names, not variables
				skip := map[*ast.Ident]bool{}
				ast.Inspect(body, func(n ast.Node) bool {
					switch v := n.(type) {
					case *ast.SelectorExpr:
						skip[v.Sel] = true
					case *ast.KeyValueExpr:
						if id, ok := v.Key.(*ast.Ident); ok {
							skip[id] = true
						}
					}
					return true
				})
				store := func(l ast.Expr) {
					id := rootIdent(l)
					if id == nil || id.Name == "_" {
						return
					}
					_, plain := l.(*ast.Ident)
					switch {
					case !local[id.Name] && pkgVars[id.Name]:
						shared = append(shared, where+": store "+x.src(l))
					case id.Name == recv && recv != "" && !plain:
						shared = append(shared, where+": store "+x.src(l))
					case captured[id.Name] && !local[id.Name]:
						shared = append(shared, where+": store "+x.src(l))
					}
				}
				ast.Inspect(body, func(n ast.Node) bool {
					switch v := n.(type) {
					case *ast.AssignStmt:
						if v.Tok != token.DEFINE {
							for _, l := range v.Lhs {
								store(l)
							}
						}
					case *ast.IncDecStmt:
						store(v.X)
					case *ast.Ident:
						// a package-level variable read, called or passed on
						if !skip[v] && !local[v.Name] && pkgVars[v.Name] {
							shared = append(shared, where+": use "+v.Name)
						}
					case *ast.CallExpr:
						// follow unexported helpers of the package, once each
						var name, r string
						switch f := v.Fun.(type) {
						case *ast.Ident:
							name = f.Name
						case *ast.SelectorExpr:
							if id, ok := f.X.(*ast.Ident); ok && id.Name == recv && recv != "" {
								name, r = f.Sel.Name, "GrpcProxyInterceptor"
							}
						}
						if name != "" && !ast.IsExported(name) && !seenFn[r+"."+name] {
							for _, f := range x.files(dir) {
								for _, d := range f.Decls {
									fd, ok := d.(*ast.FuncDecl)
									if !ok || fd.Name.Name != name || fd.Body == nil || (fd.Recv == nil) != (r == "") {
										continue
									}
									seenFn[r+"."+name] = true
									rn := ""
									if fd.Recv != nil && len(fd.Recv.List) == 1 && len(fd.Recv.List[0].Names) == 1 {
										rn = fd.Recv.List[0].Names[0].Name
									}
									ps := map[string]bool{}
									for _, fl := range fd.Type.Params.List {
										for _, id := range fl.Names {
											ps[id.Name] = true
										}
									}
									if rn != "" {
										ps[rn] = true
									}
									visit(name, fd.Body, rn, nil, ps)
								}
							}
						}
					}
					return true
				})
			}
			if fd := x.funcDecl(dir, "GrpcProxyInterceptor", "Stream"); fd != nil && fd.Body != nil {
				rn := ""
				if len(fd.Recv.List) == 1 && len(fd.Recv.List[0].Names) == 1 {
					rn = fd.Recv.List[0].Names[0].Name
				}
				ps := map[string]bool{rn: true}
				for _, fl := range fd.Type.Params.List {
					for _, id := range fl.Names {
						ps[id.Name] = true
					}
				}
				seenFn["GrpcProxyInterceptor.Stream"] = true
				visit("Stream", fd.Body, rn, nil, ps)
			}
			if fd := x.funcDecl(dir, "", "GetGRPCDirector"); fd != nil && fd.Body != nil {
				// the closure the function returns, and what it captures from the enclosing function
				captured := map[string]bool{}
				for _, fl := range fd.Type.Params.List {
					for _, id := range fl.Names {
						captured[id.Name] = true
					}
				}
				found := 0
				ast.Inspect(fd.Body, func(n ast.Node) bool {
					switch v := n.(type) {
					case *ast.AssignStmt:
						if v.Tok == token.DEFINE {
							for _, l := range v.Lhs {
								if id, ok := l.(*ast.Ident); ok {
									captured[id.Name] = true
								}
							}
						}
					case *ast.FuncLit:
						found++
						ps := map[string]bool{}
						for _, fl := range v.Type.Params.List {
							for _, id := range fl.Names {
								ps[id.Name] = true
								delete(captured, id.Name)
							}
						}
						visit("director", v.Body, "", captured, ps)
						return false
					}
					return true
				})
				if found == 0 {
					// not a closure: the function hands out a method value or a function of the package
					// (`return d.direct`); its body is the director
					ast.Inspect(fd.Body, func(n ast.Node) bool {
						rs, ok := n.(*ast.ReturnStmt)
						if !ok {
							return true
						}
						for _, r := range rs.Results {
							name := lastName(r)
							if name == "" {
								continue
							}
							callee := x.anyFuncDecl(dir, name)
							if callee == nil || callee.Body == nil || seenFn["director."+name] {
								continue
							}
							seenFn["director."+name] = true
							rn := ""
							if callee.Recv != nil && len(callee.Recv.List) == 1 && len(callee.Recv.List[0].Names) == 1 {
								rn = callee.Recv.List[0].Names[0].Name
							}
							ps := map[string]bool{}
							if callee.Type.Params != nil {
								for _, fl := range callee.Type.Params.List {
									for _, id := range fl.Names {
										ps[id.Name] = true
									}
								}
							}
							if rn != "" {
								ps[rn] = true
							}
							found++
							visit("director", callee.Body, rn, nil, ps)
						}
						return true
					})
				}
				if found == 0 {
					shared = append(shared, "director: the function GetGRPCDirector hands out was not found")
				}
			}
			sort.Strings(shared)
			x.defStrList("callPathSharedState", shared)
		}

		// --- main.newGrpcProxy: what the harness replicates -------------------------------------------------
		if fd := x.funcDecl(".", "", "newGrpcProxy"); fd != nil {
			w := newC16Walk(x, ".")
			w.root(fd)
			var opts, lits []string
			for _, e := range w.evs {
				if e.kind == "call" && strings.HasPrefix(e.callee, "grpc.") && e.callee != "grpc.NewServer" {
					opts = append(opts, e.withGuards(e.text))
				}
				if e.kind == "lit" && strings.HasPrefix(e.text, "lit proxy.GrpcProxyInterceptor") {
					lits = append(lits, e.text)
				}
			}
			sort.Strings(opts)
			x.defStrList("grpcServerOptions", opts)
			x.defStrList("grpcInterceptorLit", lits)
		}
		if fd := x.funcDecl(dir, "", "ListenAndServeGRPC"); fd != nil {
			w := newC16Walk(x, dir)
			w.root(fd)
			x.defStrList("grpcNewServer", w.lines(func(e ev) bool { return e.kind == "call" && e.callee == "grpc.NewServer" }))
		}

		// --- the relay library: the stream operations of grpc-proxy's handler, read from the module the repo's
		// go.mod selects (Model/C16Relay.lean models these micro-steps) ---------------------------------------
		c16relayFacts(x)
		return nil
	})
}

// c16relayFacts reads proxy/handler.go of github.com/mwitkow/grpc-proxy at the version in the repo's go.mod from
// the module cache and lists, in source order, the operations on the two streams in the two forwarding
// goroutines and in the cases of the handler's select. A change detector only: when the module cannot be found
// the lists are empty.
func c16relayFacts(x *X) {
	const mod = "github.com/mwitkow/grpc-proxy"
	version := ""
	if b, err := os.ReadFile(filepath.Join(x.repo, "go.mod")); err == nil {
		for _, line := range strings.Split(string(b), "\n") {
			f := strings.Fields(line)
			for i := 0; i+1 < len(f); i++ {
				if f[i] == mod && strings.HasPrefix(f[i+1], "v") {
					version = f[i+1]
				}
			}
		}
	}
	x.defStr("relayModuleVersion", version)
	var c2s, s2c, sel []string
	defer func() {
		x.defStrList("relayClientToServerOps", c2s)
		x.defStrList("relayServerToClientOps", s2c)
		x.defStrList("relaySelectCases", sel)
	}()
	if version == "" {
		return
	}
	var roots []string
	if out, err := exec.Command("go", "env", "GOMODCACHE").Output(); err == nil {
		roots = append(roots, strings.TrimSpace(string(out)))
	}
	if v := os.Getenv("GOMODCACHE"); v != "" {
		roots = append(roots, v)
	}
	if v := os.Getenv("GOPATH"); v != "" {
		roots = append(roots, filepath.Join(v, "pkg", "mod"))
	}
	if h, err := os.UserHomeDir(); err == nil {
		roots = append(roots, filepath.Join(h, "go", "pkg", "mod"))
	}
	var file *ast.File
	fset := token.NewFileSet()
	for _, r := range roots {
		if r == "" {
			continue
		}
		p := filepath.Join(r, mod+"@"+version, "proxy", "handler.go")
		if f, err := parser.ParseFile(fset, p, nil, 0); err == nil {
			file = f
			break
		}
	}
	if file == nil {
		return
	}
	src := func(n ast.Node) string {
		var b bytes.Buffer
		printer.Fprint(&b, fset, n)
		return strings.Join(strings.Fields(b.String()), " ")
	}
	streams := map[string]bool{"src": true, "dst": true, "clientStream": true, "serverStream": true}
	ops := func(n ast.Node) []string {
		var out []string
		ast.Inspect(n, func(m ast.Node) bool {
			switch v := m.(type) {
			case *ast.CallExpr:
				switch f := v.Fun.(type) {
				case *ast.SelectorExpr:
					if id, ok := f.X.(*ast.Ident); ok && streams[id.Name] {
						out = append(out, id.Name+"."+f.Sel.Name)
					}
				case *ast.Ident:
					if f.Name == "clientCancel" {
						out = append(out, f.Name)
					}
				}
			case *ast.ReturnStmt:
				if len(v.Results) == 1 {
					out = append(out, "return "+src(v.Results[0]))
				}
			}
			return true
		})
		return out
	}
	for _, d := range file.Decls {
		fd, ok := d.(*ast.FuncDecl)
		if !ok || fd.Body == nil {
			continue
		}
		switch fd.Name.Name {
		case "forwardClientToServer", "forwardServerToClient":
			var l []string
			ast.Inspect(fd.Body, func(m ast.Node) bool {
				if fl, ok := m.(*ast.FuncLit); ok {
					for _, o := range ops(fl.Body) {
						if !strings.HasPrefix(o, "return ") {
							l = append(l, o)
						}
					}
					return false
				}
				return true
			})
			if fd.Name.Name == "forwardClientToServer" {
				c2s = l
			} else {
				s2c = l
			}
		case "handler":
			ast.Inspect(fd.Body, func(m ast.Node) bool {
				cc, ok := m.(*ast.CommClause)
				if !ok {
					return true
				}
				head := "default"
				if cc.Comm != nil {
					head = src(cc.Comm)
				}
				var l []string
				for _, st := range cc.Body {
					l = append(l, ops(st)...)
				}
				sel = append(sel, "case "+head+": "+strings.Join(l, "; "))
				return false
			})
		}
	}
}

var c16statusCode = regexp.MustCompile(`^status\.Errorf?\(codes\.([A-Za-z]+)`)

// c16locks: lock discipline of the connection pool, read off every function of the package that touches the
// pool's connection map (the struct field of a map type whose struct also holds a sync.RWMutex). Statements are
// walked in source order with the lock currently held (""/R/W; `defer …Unlock()` keeps it to the end; the body
// of a function literal — a goroutine or a deferred closure — starts without a lock). Reported: reads of the
// map without any lock, writes (index assignment, delete) without the write lock, and per function the kinds of
// its lock acquisitions in order.
func c16locks(x *X, dir string) (unlocked, writesUnderR, scopeKinds []string, accessors int) {
	mapField, muField := "", ""
	for _, f := range x.files(dir) {
		ast.Inspect(f, func(n ast.Node) bool {
			st, ok := n.(*ast.StructType)
			if !ok || st.Fields == nil {
				return true
			}
			m, mu := "", ""
			for _, fl := range st.Fields.List {
				if len(fl.Names) != 1 {
					continue
				}
				if mt, ok := fl.Type.(*ast.MapType); ok && strings.Contains(x.src(mt.Value), "ClientConn") {
					m = fl.Names[0].Name
				}
				if t := x.src(fl.Type); t == "sync.RWMutex" || t == "*sync.RWMutex" {
					mu = fl.Names[0].Name
				}
			}
			if m != "" && mu != "" {
				mapField, muField = m, mu
			}
			return true
		})
	}
	if mapField == "" {
		x.fail("connection pool: no struct with a map of client connections and a sync.RWMutex")
		return
	}
	isMap := func(e ast.Expr) bool {
		se, ok := e.(*ast.SelectorExpr)
		return ok && se.Sel.Name == mapField
	}
	lockCall := func(e ast.Expr) string {
		c, ok := e.(*ast.CallExpr)
		if !ok {
			return ""
		}
		se, ok := c.Fun.(*ast.SelectorExpr)
		if !ok {
			return ""
		}
		in, ok := se.X.(*ast.SelectorExpr)
		if !ok || in.Sel.Name != muField {
			return ""
		}
		return se.Sel.Name
	}
	for _, f := range x.files(dir) {
		for _, d := range f.Decls {
			fd, ok := d.(*ast.FuncDecl)
			if !ok || fd.Body == nil {
				continue
			}
			touches := false
			ast.Inspect(fd.Body, func(n ast.Node) bool {
				if e, ok := n.(ast.Expr); ok && isMap(e) {
					touches = true
				}
				return true
			})
			if !touches {
				continue
			}
			accessors++
			name := fd.Name.Name
			kinds := ""
			var walk func(s ast.Stmt, held *string)
			var scan func(n ast.Node, held string, lhs bool)
			scan = func(n ast.Node, held string, lhs bool) {
				if n == nil {
					return
				}
				ast.Inspect(n, func(m ast.Node) bool {
					switch v := m.(type) {
					case *ast.FuncLit:
						h := ""
						for _, st := range v.Body.List {
							walk(st, &h)
						}
						return false
					case *ast.CallExpr:
						if id, ok := v.Fun.(*ast.Ident); ok && id.Name == "delete" && len(v.Args) == 2 && isMap(v.Args[0]) {
							if held == "" {
								unlocked = append(unlocked, name+": delete without a lock")
							} else if held == "R" {
								writesUnderR = append(writesUnderR, name+": delete under the read lock")
							}
							scan(v.Args[1], held, false)
							return false
						}
					case *ast.SelectorExpr:
						if isMap(v) {
							if lhs {
								if held == "" {
									unlocked = append(unlocked, name+": store without a lock")
								} else if held == "R" {
									writesUnderR = append(writesUnderR, name+": store under the read lock")
								}
							} else if held == "" {
								unlocked = append(unlocked, name+": read without a lock")
							}
							return false
						}
					}
					return true
				})
			}
			var block func(b *ast.BlockStmt, held *string)
			block = func(b *ast.BlockStmt, held *string) {
				if b == nil {
					return
				}
				for _, st := range b.List {
					walk(st, held)
				}
			}
			walk = func(s ast.Stmt, held *string) {
				switch v := s.(type) {
				case *ast.ExprStmt:
					switch lockCall(v.X) {
					case "Lock":
						*held = "W"
						kinds += "W"
					case "RLock":
						*held = "R"
						kinds += "R"
					case "Unlock", "RUnlock":
						*held = ""
					default:
						scan(v.X, *held, false)
					}
				case *ast.DeferStmt:
					if k := lockCall(v.Call); k == "Unlock" || k == "RUnlock" {
						return // held to the end of the function
					}
					scan(v.Call, *held, false)
				case *ast.GoStmt:
					scan(v.Call, *held, false)
				case *ast.AssignStmt:
					for _, l := range v.Lhs {
						if ie, ok := l.(*ast.IndexExpr); ok && isMap(ie.X) {
							scan(ie.X, *held, true)
							scan(ie.Index, *held, false)
						} else {
							scan(l, *held, false)
						}
					}
					for _, r := range v.Rhs {
						scan(r, *held, false)
					}
				case *ast.BlockStmt:
					block(v, held)
				case *ast.IfStmt:
					if v.Init != nil {
						walk(v.Init, held)
					}
					scan(v.Cond, *held, false)
					block(v.Body, held)
					if v.Else != nil {
						walk(v.Else, held)
					}
				case *ast.ForStmt:
					if v.Init != nil {
						walk(v.Init, held)
					}
					scan(v.Cond, *held, false)
					block(v.Body, held)
					if v.Post != nil {
						walk(v.Post, held)
					}
				case *ast.RangeStmt:
					scan(v.X, *held, false)
					block(v.Body, held)
				case *ast.SwitchStmt:
					if v.Init != nil {
						walk(v.Init, held)
					}
					scan(v.Tag, *held, false)
					for _, c := range v.Body.List {
						cc := c.(*ast.CaseClause)
						for _, e := range cc.List {
							scan(e, *held, false)
						}
						for _, st := range cc.Body {
							walk(st, held)
						}
					}
				case *ast.LabeledStmt:
					walk(v.Stmt, held)
				case nil:
				default:
					scan(s, *held, false)
				}
			}
			h := ""
			block(fd.Body, &h)
			scopeKinds = append(scopeKinds, kinds)
		}
	}
	sort.Strings(scopeKinds)
	return
}

func isLogCall(c string) bool {
	return strings.HasPrefix(c, "log.") || strings.HasPrefix(c, "fmt.")
}

func namedResults(fd *ast.FuncDecl) []string {
	var out []string
	if fd.Type.Results != nil {
		for _, f := range fd.Type.Results.List {
			for _, n := range f.Names {
				out = append(out, n.Name)
			}
		}
	}
	return out
}

// durationSeconds evaluates `time.Second * n` / `n * time.Second`, also through a package-level constant.
func durationSeconds(x *X, dir string, e ast.Expr) (uint64, bool) {
	if id, ok := e.(*ast.Ident); ok {
		for _, f := range x.files(dir) {
			for _, d := range f.Decls {
				gd, ok := d.(*ast.GenDecl)
				if !ok {
					continue
				}
				for _, s := range gd.Specs {
					if vs, ok := s.(*ast.ValueSpec); ok {
						for i, n := range vs.Names {
							if n.Name == id.Name && i < len(vs.Values) {
								return durationSeconds(x, dir, vs.Values[i])
							}
						}
					}
				}
			}
		}
		return 0, false
	}
	if p, ok := e.(*ast.ParenExpr); ok {
		return durationSeconds(x, dir, p.X)
	}
	b, ok := e.(*ast.BinaryExpr)
	if !ok || b.Op != token.MUL {
		return 0, false
	}
	lit := func(e ast.Expr) (uint64, bool) {
		l, ok := e.(*ast.BasicLit)
		if !ok || l.Kind != token.INT {
			return 0, false
		}
		var v uint64
		for _, ch := range l.Value {
			if ch < '0' || ch > '9' {
				return 0, false
			}
			v = v*10 + uint64(ch-'0')
		}
		return v, true
	}
	if x.src(b.X) == "time.Second" {
		return lit(b.Y)
	}
	if x.src(b.Y) == "time.Second" {
		return lit(b.X)
	}
	return 0, false
}

// ---- the event walker ------------------------------------------------------------------------------------

type ev struct {
	kind      string // call | go | defer | ret | store | lit | range
	callee    string
	text      string
	guards    []string
	depth     int  // 0 = the root function, > 0 inside an inlined helper
	inClosure bool // inside a function literal
	node      *ast.CompositeLit
	via       []string // the inlined helpers the event lies in, outermost first
}

func (e ev) withGuards(s string) string {
	if len(e.guards) == 0 {
		return s
	}
	return "[" + strings.Join(e.guards, " && ") + "] " + s
}

func (e ev) line() string {
	s := e.kind
	if e.text != "" {
		s += " " + e.text
	}
	return e.withGuards(s)
}

type c16walk struct {
	x        *X
	dir      string
	evs      []ev
	scopes   []map[string]string
	guards   []string
	depth    int
	closure  int
	onStack  map[string]bool
	nclo     int
	nrange   int
	dialArgs int
	via      []string
	// prop["parent>child"]: the function parent ("" = the root) returns the value of its call to the helper
	// child — as `return child(…)` or as `if err := child(…); err != nil { return err }` —, so what child returns
	// is what parent returns
	prop map[string]bool
}

func newC16Walk(x *X, dir string) *c16walk {
	return &c16walk{x: x, dir: dir, onStack: map[string]bool{}, prop: map[string]bool{}}
}

// roles: the result of the route lookup is one thing whether it comes from the interceptor's own helper or
// from Table.Lookup directly
var c16roles = map[string]string{"lookup": "looked", "Lookup": "looked"}

func (w *c16walk) lines(keep func(ev) bool) []string {
	out := []string{}
	for _, e := range w.evs {
		if keep(e) {
			out = append(out, e.line())
		}
	}
	return out
}

func (w *c16walk) cur() map[string]string { return w.scopes[len(w.scopes)-1] }

func (w *c16walk) emit(e ev) {
	e.guards = append([]string(nil), w.guards...)
	e.depth = w.depth
	e.inClosure = w.closure > 0
	e.via = append([]string(nil), w.via...)
	w.evs = append(w.evs, e)
}

var c16helperCall = regexp.MustCompile(`^(?:[A-Za-z_][A-Za-z0-9_]*\.)?([a-z_][A-Za-z0-9_]*)\(`)

func (w *c16walk) markReturned(name string) {
	parent := ""
	if len(w.via) > 0 {
		parent = w.via[len(w.via)-1]
	}
	w.prop[parent+">"+name] = true
}

// propagated: every helper on the way from the root to the event hands its callee's result on as its own, so a
// return inside the innermost one is a return of the root function.
func (w *c16walk) propagated(via []string) bool {
	parent := ""
	for _, h := range via {
		if !w.prop[parent+">"+h] {
			return false
		}
		parent = h
	}
	return true
}

func (w *c16walk) root(fd *ast.FuncDecl) {
	sc := map[string]string{}
	if fd.Recv != nil && len(fd.Recv.List) == 1 && len(fd.Recv.List[0].Names) == 1 {
		sc[fd.Recv.List[0].Names[0].Name] = "recv"
	}
	i := 0
	if fd.Type.Params != nil {
		for _, p := range fd.Type.Params.List {
			for _, n := range p.Names {
				sc[n.Name] = fmt.Sprintf("p%d", i)
				i++
			}
			if len(p.Names) == 0 {
				i++
			}
		}
	}
	w.scopes = append(w.scopes, sc)
	w.onStack[fd.Name.Name] = true
	w.block(fd.Body)
	delete(w.onStack, fd.Name.Name)
	w.scopes = w.scopes[:len(w.scopes)-1]
}

var c16headerVal = regexp.MustCompile(`Header=[^;}]*`)

var c16emptyKey = regexp.MustCompile(`\b[a-z][A-Za-z0-9_]*\{\}`)

// canon prints a node with the identifiers of the current scope replaced by their role names.
func (w *c16walk) canon(n ast.Node) string {
	if n == nil {
		return ""
	}
	ren := w.cur()
	saved := map[*ast.Ident]string{}
	var visit func(m ast.Node) bool
	rename := func(id *ast.Ident) {
		if to, ok := ren[id.Name]; ok && (id.Obj == nil || id.Obj.Kind == ast.Var) {
			if _, done := saved[id]; !done {
				saved[id] = id.Name
				id.Name = to
			}
		}
	}
	visit = func(m ast.Node) bool {
		switch v := m.(type) {
		case *ast.Ident:
			rename(v)
		case *ast.SelectorExpr:
			ast.Inspect(v.X, visit)
			return false
		case *ast.KeyValueExpr:
			if _, isIdent := v.Key.(*ast.Ident); !isIdent {
				ast.Inspect(v.Key, visit)
			}
			ast.Inspect(v.Value, visit)
			return false
		case *ast.FuncLit:
			return false
		}
		return true
	}
	ast.Inspect(n, visit)
	s := w.x.src(n)
	for id, old := range saved {
		id.Name = old
	}
	// an empty struct literal of an unexported type is a context key: its name does not matter
	return c16emptyKey.ReplaceAllString(s, "key{}")
}

func lastName(e ast.Expr) string {
	switch f := e.(type) {
	case *ast.Ident:
		return f.Name
	case *ast.SelectorExpr:
		return f.Sel.Name
	case *ast.ParenExpr:
		return lastName(f.X)
	}
	return ""
}

func terminates(b *ast.BlockStmt) bool {
	if b == nil || len(b.List) == 0 {
		return false
	}
	switch s := b.List[len(b.List)-1].(type) {
	case *ast.ReturnStmt:
		return true
	case *ast.BranchStmt:
		return s.Tok == token.CONTINUE || s.Tok == token.BREAK || s.Tok == token.GOTO
	case *ast.ExprStmt:
		if c, ok := s.X.(*ast.CallExpr); ok {
			if id, ok := c.Fun.(*ast.Ident); ok && id.Name == "panic" {
				return true
			}
		}
	}
	return false
}

func (w *c16walk) block(b *ast.BlockStmt) {
	if b == nil {
		return
	}
	pushed := 0
	for _, s := range b.List {
		if neg := w.stmt(s); neg != "" {
			w.guards = append(w.guards, neg)
			pushed++
		}
	}
	w.guards = w.guards[:len(w.guards)-pushed]
}

// stmt walks one statement; for an `if c { …; return }` without else it returns "!(c)", the condition under
// which the rest of the enclosing block runs.
func (w *c16walk) stmt(s ast.Stmt) string {
	switch v := s.(type) {
	case *ast.BlockStmt:
		w.block(v)
	case *ast.ExprStmt:
		w.expr(v.X)
	case *ast.AssignStmt:
		w.assign(v)
	case *ast.DeclStmt:
		if gd, ok := v.Decl.(*ast.GenDecl); ok {
			for _, sp := range gd.Specs {
				if vs, ok := sp.(*ast.ValueSpec); ok && len(vs.Values) == len(vs.Names) {
					for i := range vs.Names {
						w.expr(vs.Values[i])
						w.bindSingle(vs.Names[i].Name, vs.Values[i])
					}
				}
			}
		}
	case *ast.IfStmt:
		if v.Init != nil {
			w.stmt(v.Init)
		}
		w.expr(v.Cond)
		c := w.canon(v.Cond)
		w.guards = append(w.guards, c)
		w.block(v.Body)
		w.guards = w.guards[:len(w.guards)-1]
		neg := "!(" + c + ")"
		if v.Else != nil {
			w.guards = append(w.guards, neg)
			w.stmt(v.Else)
			w.guards = w.guards[:len(w.guards)-1]
			return ""
		}
		if terminates(v.Body) {
			return neg
		}
	case *ast.ForStmt:
		if v.Init != nil {
			w.stmt(v.Init)
		}
		if v.Cond != nil {
			w.expr(v.Cond)
		}
		w.block(v.Body)
		if v.Post != nil {
			w.stmt(v.Post)
		}
	case *ast.RangeStmt:
		w.expr(v.X)
		w.nrange++
		if id, ok := v.Key.(*ast.Ident); ok && id.Name != "_" {
			w.cur()[id.Name] = fmt.Sprintf("rk%d", w.nrange)
		}
		if id, ok := v.Value.(*ast.Ident); ok && id.Name != "_" {
			w.cur()[id.Name] = fmt.Sprintf("rv%d", w.nrange)
		}
		w.emit(ev{kind: "range", text: w.canon(v.X)})
		w.block(v.Body)
	case *ast.ReturnStmt:
		var rs []string
		for _, r := range v.Results {
			n := len(w.evs)
			w.expr(r)
			if c, ok := r.(*ast.CallExpr); ok && w.inlinable(c) {
				// the result of a helper that was walked in place: its own returns say what comes back
				_ = n
				w.markReturned(lastName(c.Fun))
				rs = append(rs, "<inlined>")
				continue
			}
			t := w.canon(r)
			// a variable that holds a helper's result (`if err := helper(…); err != nil { return err }`)
			if m := c16helperCall.FindStringSubmatch(t); m != nil && strings.HasSuffix(t, ")") && w.x.anyFuncDecl(w.dir, m[1]) != nil {
				w.markReturned(m[1])
			}
			rs = append(rs, t)
		}
		kind := "ret"
		w.emit(ev{kind: kind, text: strings.Join(rs, ", ")})
	case *ast.GoStmt:
		w.goDefer("go", v.Call)
	case *ast.DeferStmt:
		w.goDefer("defer", v.Call)
	case *ast.IncDecStmt:
		w.emit(ev{kind: "store", text: w.canon(v.X) + v.Tok.String()})
	case *ast.LabeledStmt:
		return w.stmt(v.Stmt)
	case *ast.SwitchStmt:
		if v.Init != nil {
			w.stmt(v.Init)
		}
		if v.Tag != nil {
			w.expr(v.Tag)
		}
		for _, c := range v.Body.List {
			cc := c.(*ast.CaseClause)
			var cs []string
			for _, e := range cc.List {
				cs = append(cs, w.canon(e))
			}
			w.guards = append(w.guards, "case "+strings.Join(cs, ", "))
			for _, st := range cc.Body {
				w.stmt(st)
			}
			w.guards = w.guards[:len(w.guards)-1]
		}
	case *ast.TypeSwitchStmt:
		for _, c := range v.Body.List {
			for _, st := range c.(*ast.CaseClause).Body {
				w.stmt(st)
			}
		}
	case *ast.SelectStmt:
		for _, c := range v.Body.List {
			for _, st := range c.(*ast.CommClause).Body {
				w.stmt(st)
			}
		}
	}
	return ""
}

func (w *c16walk) goDefer(kind string, c *ast.CallExpr) {
	for _, a := range c.Args {
		w.expr(a)
	}
	if fl, ok := c.Fun.(*ast.FuncLit); ok {
		var args []string
		for _, a := range c.Args {
			args = append(args, w.canon(a))
		}
		w.emit(ev{kind: kind, callee: "func", text: "func(" + strings.Join(args, ", ") + ")"})
		w.funcLit(fl, args)
		return
	}
	callee := w.canon(c.Fun)
	w.emit(ev{kind: kind, callee: callee, text: callee + "(" + w.args(c) + ")"})
}

func (w *c16walk) args(c *ast.CallExpr) string {
	var as []string
	for i, a := range c.Args {
		if w.dialArgs > 0 && lastName(c.Fun) == "DialContext" && i >= w.dialArgs {
			break
		}
		s := w.canon(a)
		if c.Ellipsis != token.NoPos && i == len(c.Args)-1 {
			s += "..."
		}
		as = append(as, s)
	}
	return strings.Join(as, ", ")
}

// funcLit walks the body of a function literal in the enclosing scope; its parameters are bound to the
// given arguments (immediately invoked) or named c0, c1, ….
func (w *c16walk) funcLit(fl *ast.FuncLit, args []string) {
	i := 0
	if fl.Type.Params != nil {
		for _, p := range fl.Type.Params.List {
			for _, n := range p.Names {
				if i < len(args) {
					w.cur()[n.Name] = args[i]
				} else {
					w.cur()[n.Name] = fmt.Sprintf("c%d", w.nclo)
					w.nclo++
				}
				i++
			}
		}
	}
	w.closure++
	w.block(fl.Body)
	w.closure--
}

func (w *c16walk) bindSingle(name string, rhs ast.Expr) {
	if name == "_" {
		return
	}
	e := rhs
	if u, ok := e.(*ast.UnaryExpr); ok && u.Op == token.AND {
		e = u.X
	}
	switch v := e.(type) {
	case *ast.CompositeLit:
		w.cur()[name] = "lit#" + w.x.src(v.Type)
		return
	case *ast.CallExpr:
		ln := lastName(v.Fun)
		if r, ok := c16roles[ln]; ok {
			w.cur()[name] = r
			return
		}
		if ln != "" && !ast.IsExported(ln) {
			if callee := w.x.anyFuncDecl(w.dir, ln); callee != nil && callee.Type.Results != nil && len(callee.Type.Results.List) == 1 {
				rt := w.x.src(callee.Type.Results.List[0].Type)
				if strings.HasPrefix(rt, "*") || (rt != "" && !ast.IsExported(rt) && !isBuiltinType(rt)) {
					w.cur()[name] = "made#" + rt
					return
				}
			}
		}
	case *ast.BinaryExpr:
		w.cur()[name] = "(" + w.canon(rhs) + ")"
		return
	}
	w.cur()[name] = w.canon(rhs)
}

func isBuiltinType(t string) bool {
	switch t {
	case "string", "bool", "int", "int64", "uint64", "error", "byte", "float64":
		return true
	}
	return false
}

func (w *c16walk) assign(a *ast.AssignStmt) {
	for _, r := range a.Rhs {
		w.expr(r)
	}
	names := func() []string {
		var ns []string
		for _, l := range a.Lhs {
			if id, ok := l.(*ast.Ident); ok {
				ns = append(ns, id.Name)
			} else {
				ns = append(ns, "")
			}
		}
		return ns
	}
	if a.Tok == token.DEFINE {
		ns := names()
		switch {
		case len(a.Lhs) == len(a.Rhs):
			// evaluate all right-hand sides before binding
			vals := make([]func(), len(ns))
			for i := range ns {
				i := i
				vals[i] = func() { w.bindSingle(ns[i], a.Rhs[i]) }
			}
			for _, f := range vals {
				f()
			}
		case len(a.Rhs) == 1:
			if c, ok := a.Rhs[0].(*ast.CallExpr); ok {
				base := lastName(c.Fun)
				if r, ok := c16roles[base]; ok {
					for i, n := range ns {
						if n == "" || n == "_" {
							continue
						}
						if i == 0 {
							w.cur()[n] = r
						} else {
							w.cur()[n] = r + "Err"
						}
					}
					return
				}
				for i, n := range ns {
					if n != "" && n != "_" {
						w.cur()[n] = fmt.Sprintf("%s#%d", base, i)
					}
				}
				return
			}
			txt := w.canon(a.Rhs[0])
			for i, n := range ns {
				if n == "" || n == "_" {
					continue
				}
				if i == 0 {
					w.cur()[n] = txt
				} else {
					w.cur()[n] = txt + "#ok"
				}
			}
		}
		return
	}
	// plain assignment: a store; a local keeps track of its new value
	if len(a.Lhs) == len(a.Rhs) {
		for i := range a.Lhs {
			lhs, rhs := w.canonLHS(a.Lhs[i]), w.canon(a.Rhs[i])
			w.emit(ev{kind: "store", text: lhs + " " + a.Tok.String() + " " + rhs})
			if id, ok := a.Lhs[i].(*ast.Ident); ok && a.Tok == token.ASSIGN {
				if _, known := w.cur()[id.Name]; known {
					w.bindSingle(id.Name, a.Rhs[i])
				}
			}
		}
		return
	}
	var ls []string
	for _, l := range a.Lhs {
		ls = append(ls, w.canonLHS(l))
	}
	w.emit(ev{kind: "store", text: strings.Join(ls, ", ") + " " + a.Tok.String() + " " + w.canon(a.Rhs[0])})
}

// canonLHS: a plain identifier on the left keeps its own name when it is a named result or unknown.
func (w *c16walk) canonLHS(e ast.Expr) string {
	if id, ok := e.(*ast.Ident); ok {
		if _, known := w.cur()[id.Name]; !known {
			return id.Name
		}
	}
	return w.canon(e)
}

func (w *c16walk) expr(e ast.Expr) {
	switch v := e.(type) {
	case nil:
	case *ast.CallExpr:
		w.call(v)
	case *ast.FuncLit:
		w.funcLit(v, nil)
	case *ast.BinaryExpr:
		w.expr(v.X)
		w.expr(v.Y)
	case *ast.UnaryExpr:
		w.expr(v.X)
	case *ast.ParenExpr:
		w.expr(v.X)
	case *ast.SelectorExpr:
		w.expr(v.X)
	case *ast.IndexExpr:
		w.expr(v.X)
		w.expr(v.Index)
	case *ast.SliceExpr:
		w.expr(v.X)
	case *ast.StarExpr:
		w.expr(v.X)
	case *ast.TypeAssertExpr:
		w.expr(v.X)
	case *ast.KeyValueExpr:
		w.expr(v.Value)
	case *ast.CompositeLit:
		var fs []string
		for _, el := range v.Elts {
			w.expr(el)
			if kv, ok := el.(*ast.KeyValueExpr); ok {
				fs = append(fs, w.x.src(kv.Key)+"="+w.canon(kv.Value))
			} else {
				fs = append(fs, w.canon(el))
			}
		}
		sort.Strings(fs)
		w.emit(ev{kind: "lit", text: "lit " + w.x.src(v.Type) + " {" + strings.Join(fs, "; ") + "}", node: v})
	}
}

func (w *c16walk) call(c *ast.CallExpr) {
	if fl, ok := c.Fun.(*ast.FuncLit); ok {
		var args []string
		for _, a := range c.Args {
			w.expr(a)
			args = append(args, w.canon(a))
		}
		w.funcLit(fl, args)
		return
	}
	if sel, ok := c.Fun.(*ast.SelectorExpr); ok {
		w.expr(sel.X)
	}
	for _, a := range c.Args {
		w.expr(a)
	}
	name := lastName(c.Fun)
	if name != "" && !ast.IsExported(name) && !w.onStack[name] && w.depth < 4 {
		if callee := w.x.anyFuncDecl(w.dir, name); callee != nil && w.isPackageCall(c) {
			sc := map[string]string{}
			if callee.Recv != nil && len(callee.Recv.List) == 1 && len(callee.Recv.List[0].Names) == 1 {
				if sel, ok := c.Fun.(*ast.SelectorExpr); ok {
					sc[callee.Recv.List[0].Names[0].Name] = w.canon(sel.X)
				}
			}
			i := 0
			if callee.Type.Params != nil {
				for _, p := range callee.Type.Params.List {
					for _, n := range p.Names {
						if i < len(c.Args) {
							sc[n.Name] = w.canon(c.Args[i])
						}
						i++
					}
				}
			}
			w.scopes = append(w.scopes, sc)
			w.onStack[name] = true
			w.depth++
			w.via = append(w.via, name)
			savedClosure := w.closure
			w.block(callee.Body)
			w.closure = savedClosure
			w.via = w.via[:len(w.via)-1]
			w.depth--
			delete(w.onStack, name)
			w.scopes = w.scopes[:len(w.scopes)-1]
			return
		}
	}
	callee := w.canon(c.Fun)
	w.emit(ev{kind: "call", callee: callee, text: callee + "(" + w.args(c) + ")"})
}

// inlinable: a call this walker follows into the callee's body.
func (w *c16walk) inlinable(c *ast.CallExpr) bool {
	name := lastName(c.Fun)
	if name == "" || ast.IsExported(name) {
		return false
	}
	if _, ok := c.Fun.(*ast.FuncLit); ok {
		return false
	}
	return w.x.anyFuncDecl(w.dir, name) != nil
}

// isPackageCall: a plain identifier call, or a method call on a value (not pkg.Func of another package: those
// are exported anyway).
func (w *c16walk) isPackageCall(c *ast.CallExpr) bool {
	switch c.Fun.(type) {
	case *ast.Ident, *ast.SelectorExpr:
		return true
	}
	return false
}
