package main

import (
	"go/ast"
	"go/token"
	"strings"
)

// Facts for C01 (all read off the current /repo source with go/ast):
//   - the literal check ids and the "critical" comparisons of passingServices, the shape of its loops
//   - isServiceCheck and the first test of checksWithTagPrefix
//   - the pipeline order in ServiceMonitor.Watch (filter → passing → makeConfig → send)
//   - the join-key construction on both sides (makeConfig, serviceConfig) and the key type
//   - the shape of main.watchBackend's loop (service text, "\n", manual text; skip when unchanged; continue on a
//     NewTable error before SetTable; lastTable = nextTable only after SetTable)

func init() {
	register("C01", func(x *X) error {
		c01Passing(x)
		c01Service(x)
		c01Faults(x)
		c01WatchBackend(x)
		return nil
	})
}

// stringLits collects the string literals of an expression in source order.
func (x *X) stringLits(n ast.Node) []string {
	var out []string
	ast.Inspect(n, func(m ast.Node) bool {
		if b, ok := m.(*ast.BasicLit); ok && b.Kind == token.STRING {
			if s, ok := x.strLit(b); ok {
				out = append(out, s)
			}
		}
		return true
	})
	return out
}

func hasContinue(n ast.Node, label string) bool {
	found := false
	ast.Inspect(n, func(m ast.Node) bool {
		if b, ok := m.(*ast.BranchStmt); ok && b.Tok == token.CONTINUE {
			if (label == "" && b.Label == nil) || (b.Label != nil && b.Label.Name == label) {
				found = true
			}
		}
		return true
	})
	return found
}

func c01Passing(x *X) {
	const dir = "registry/consul"
	fd := x.funcDecl(dir, "", "passingServices")
	if fd == nil {
		return
	}
	// outer loop: labelled `for _, svc := range checks`
	var outer *ast.RangeStmt
	label := ""
	for _, st := range fd.Body.List {
		if ls, ok := st.(*ast.LabeledStmt); ok {
			if rs, ok := ls.Stmt.(*ast.RangeStmt); ok {
				outer, label = rs, ls.Label.Name
			}
		}
	}
	if outer == nil {
		x.fail("passingServices: labelled outer range loop not found")
		return
	}
	x.defStr("outerRange", x.src(outer.Key)+","+x.src(outer.Value)+" := range "+x.src(outer.X))
	// statements of the outer body, classified
	var shape []string
	var inner *ast.RangeStmt
	for _, st := range outer.Body.List {
		switch v := st.(type) {
		case *ast.IfStmt:
			tag := "if " + x.src(v.Cond)
			if hasContinue(v.Body, "") || hasContinue(v.Body, label) {
				tag += " continue"
			}
			shape = append(shape, tag)
		case *ast.RangeStmt:
			inner = v
			shape = append(shape, "range "+x.src(v.X))
		case *ast.DeclStmt:
			shape = append(shape, x.src(v))
		case *ast.AssignStmt:
			shape = append(shape, x.src(v))
		default:
			shape = append(shape, "other")
		}
	}
	x.defStrList("outerShape", shape)
	if inner == nil {
		x.fail("passingServices: inner range loop not found")
		return
	}
	// inner body must be a single `if svc.Node == c.Node { … }`
	if len(inner.Body.List) != 1 {
		x.fail("passingServices: inner loop body is not a single if")
		return
	}
	nodeIf, ok := inner.Body.List[0].(*ast.IfStmt)
	if !ok {
		x.fail("passingServices: inner loop body is not an if")
		return
	}
	x.defStr("innerGuard", x.src(nodeIf.Cond))
	var conds, lits []string
	var conts []string
	for _, st := range nodeIf.Body.List {
		is, ok := st.(*ast.IfStmt)
		if !ok {
			conds = append(conds, "other")
			continue
		}
		conds = append(conds, x.src(is.Cond))
		if hasContinue(is.Body, label) {
			conts = append(conts, "continue-outer")
		} else {
			conts = append(conts, "count")
		}
		lits = append(lits, x.stringLits(is.Cond)...)
	}
	x.defStrList("innerConds", conds)
	x.defStrList("innerActions", conts)
	x.defStrList("innerLiterals", lits)
	// the counting branch: `total++` and `if hasStatus(c, status) { passing++ }`
	if len(nodeIf.Body.List) > 0 {
		if is, ok := nodeIf.Body.List[0].(*ast.IfStmt); ok {
			var cs []string
			for _, st := range is.Body.List {
				cs = append(cs, x.src(st))
			}
			x.defStrList("countBranch", cs)
		}
	}
	if is := x.funcDecl(dir, "", "isServiceCheck"); is != nil && len(is.Body.List) == 1 {
		if r, ok := is.Body.List[0].(*ast.ReturnStmt); ok && len(r.Results) == 1 {
			x.defStr("isServiceCheckExpr", x.src(r.Results[0]))
			x.defStrList("isServiceCheckLiterals", x.stringLits(r.Results[0]))
		}
	} else if is != nil {
		x.fail("isServiceCheck: body is not a single return")
	}
	if hs := x.funcDecl(dir, "", "hasStatus"); hs != nil {
		var cs []string
		ast.Inspect(hs.Body, func(n ast.Node) bool {
			if is, ok := n.(*ast.IfStmt); ok {
				cs = append(cs, x.src(is.Cond))
			}
			return true
		})
		x.defStrList("hasStatusConds", cs)
	}
}

func c01Service(x *X) {
	const dir = "registry/consul"
	// checksWithTagPrefix: first if of the loop body, tag test
	if fd := x.funcDecl(dir, "", "checksWithTagPrefix"); fd != nil {
		var loop *ast.RangeStmt
		for _, st := range fd.Body.List {
			if rs, ok := st.(*ast.RangeStmt); ok {
				loop = rs
			}
		}
		if loop == nil || len(loop.Body.List) != 2 {
			x.fail("checksWithTagPrefix: loop with two statements not found")
		} else {
			if is, ok := loop.Body.List[0].(*ast.IfStmt); ok {
				x.defStr("filterKeepCond", x.src(is.Cond))
				x.defStrList("filterKeepLiterals", x.stringLits(is.Cond))
				x.defBool("filterKeepContinues", hasContinue(is.Body, ""))
			} else {
				x.fail("checksWithTagPrefix: first statement is not an if")
			}
			if rs, ok := loop.Body.List[1].(*ast.RangeStmt); ok {
				var cs []string
				ast.Inspect(rs.Body, func(n ast.Node) bool {
					if is, ok := n.(*ast.IfStmt); ok {
						cs = append(cs, x.src(is.Cond))
					}
					return true
				})
				x.defStr("filterTagRange", x.src(rs.X))
				x.defStrList("filterTagConds", cs)
			} else {
				x.fail("checksWithTagPrefix: second statement is not a range over the tags")
			}
		}
	}
	// Watch: order of the pipeline calls
	if fd := x.funcDecl(dir, "ServiceMonitor", "Watch"); fd != nil {
		var order []string
		ast.Inspect(fd.Body, func(n ast.Node) bool {
			switch v := n.(type) {
			case *ast.CallExpr:
				f := x.src(v.Fun)
				if f == "checksWithTagPrefix" || f == "passingServices" || f == "w.makeConfig" || f == "w.client.Health().State" {
					order = append(order, x.src(v))
				}
			case *ast.SendStmt:
				order = append(order, "send "+x.src(v.Chan)+" <- "+x.src(v.Value))
				return false
			case *ast.AssignStmt:
				if len(v.Lhs) == 1 && len(v.Rhs) == 1 {
					if c, ok := v.Rhs[0].(*ast.CallExpr); ok {
						f := x.src(c.Fun)
						if f == "checksWithTagPrefix" || f == "passingServices" {
							order = append(order, x.src(v.Lhs[0])+" = "+x.src(c))
							return false
						}
					}
				}
			}
			return true
		})
		x.defStrList("watchOrder", order)
	}
	// strict mode flag
	if fd := x.funcDecl(dir, "", "NewServiceMonitor"); fd != nil {
		found := ""
		ast.Inspect(fd.Body, func(n ast.Node) bool {
			if kv, ok := n.(*ast.KeyValueExpr); ok && x.src(kv.Key) == "strict" {
				found = x.src(kv.Value)
			}
			return true
		})
		x.defStr("strictExpr", found)
	}
	// join key on both sides, with the variable the fields are read from replaced by X
	norm := func(e ast.Expr, v string) string {
		return strings.ReplaceAll(x.src(e), v+".", "X.")
	}
	if fd := x.funcDecl(dir, "ServiceMonitor", "makeConfig"); fd != nil {
		key, name, store := "", "", ""
		ast.Inspect(fd.Body, func(n ast.Node) bool {
			switch v := n.(type) {
			case *ast.AssignStmt:
				if len(v.Lhs) == 2 && len(v.Rhs) == 2 && x.src(v.Lhs[0]) == "name" && x.src(v.Lhs[1]) == "id" {
					name, key = norm(v.Rhs[0], "check"), norm(v.Rhs[1], "check")
				}
				if len(v.Lhs) == 1 && x.src(v.Lhs[0]) == "m[name][id]" {
					store = x.src(v)
				}
			}
			return true
		})
		x.defStr("keyMake", key)
		x.defStr("keyMakeName", name)
		x.defStr("keyStore", store)
		var calls []string
		for _, c := range x.calls(fd.Body, "w.serviceConfig") {
			calls = append(calls, x.src(c))
		}
		x.defStrList("serviceConfigCalls", calls)
		var sorts []string
		for _, c := range x.calls(fd.Body, "sort.Sort") {
			sorts = append(sorts, x.src(c))
		}
		x.defStrList("makeConfigSorts", sorts)
	}
	if fd := x.funcDecl(dir, "ServiceMonitor", "serviceConfig"); fd != nil {
		key, cont := "", false
		ast.Inspect(fd.Body, func(n ast.Node) bool {
			if is, ok := n.(*ast.IfStmt); ok && is.Init != nil {
				if as, ok := is.Init.(*ast.AssignStmt); ok && len(as.Rhs) == 1 {
					if ix, ok := as.Rhs[0].(*ast.IndexExpr); ok && x.src(ix.X) == "passing" {
						key = norm(ix.Index, "svc")
						cont = x.src(is.Cond) == "!ok" && hasContinue(is.Body, "")
					}
				}
			}
			return true
		})
		x.defStr("keyLookup", key)
		x.defBool("keyLookupSkipsMissing", cont)
		var cat []string
		for _, c := range x.calls(fd.Body, "w.client.Catalog().Service") {
			if len(c.Args) > 0 {
				cat = append(cat, x.src(c.Args[0]))
			}
		}
		x.defStrList("catalogQueryArg", cat)
	}
	// the key type: a struct of comparable fields (Go compares struct keys field by field)
	var fields []string
	for _, f := range x.files(dir) {
		for _, d := range f.Decls {
			gd, ok := d.(*ast.GenDecl)
			if !ok {
				continue
			}
			for _, s := range gd.Specs {
				ts, ok := s.(*ast.TypeSpec)
				if !ok || ts.Name.Name != "instanceID" {
					continue
				}
				if st, ok := ts.Type.(*ast.StructType); ok {
					for _, fl := range st.Fields.List {
						for range fl.Names {
							fields = append(fields, x.src(fl.Type))
						}
					}
				}
			}
		}
	}
	x.defStrList("keyTypeFields", fields)
}

// c01Faults: what the fault/anomaly theorems rely on — serviceConfig gives nothing for a service whose catalog lookup
// fails, ServiceMonitor (and the package) keep no state between rounds, and the watchers' only tests on the index
// / value are the ones they have today.
func c01Faults(x *X) {
	const dir = "registry/consul"
	if fd := x.funcDecl(dir, "ServiceMonitor", "serviceConfig"); fd != nil {
		// the statement after the catalog lookup must be `if err != nil { …; return nil }`
		var onErr []string
		found := false
		for i, st := range fd.Body.List {
			as, ok := st.(*ast.AssignStmt)
			if !ok || len(as.Rhs) != 1 || len(x.calls(as.Rhs[0], "w.client.Catalog().Service")) == 0 {
				continue
			}
			if i+1 < len(fd.Body.List) {
				if is, ok := fd.Body.List[i+1].(*ast.IfStmt); ok && x.src(is.Cond) == "err != nil" && is.Else == nil {
					found = true
					for _, b := range is.Body.List {
						switch v := b.(type) {
						case *ast.ReturnStmt:
							onErr = append(onErr, x.src(v))
						case *ast.ExprStmt:
							if c, ok := v.X.(*ast.CallExpr); ok && x.src(c.Fun) == "log.Printf" {
								onErr = append(onErr, "log")
							} else {
								onErr = append(onErr, x.src(v))
							}
						default:
							onErr = append(onErr, x.src(b))
						}
					}
				}
			}
		}
		if !found {
			x.fail("serviceConfig: `if err != nil` after the catalog lookup not found")
		}
		x.defStrList("serviceConfigOnLookupError", onErr)
		// every return of the function
		var rets []string
		ast.Inspect(fd.Body, func(n ast.Node) bool {
			if r, ok := n.(*ast.ReturnStmt); ok {
				rets = append(rets, x.src(r))
			}
			return true
		})
		x.defStrList("serviceConfigReturns", rets)
	}
	// the fields of ServiceMonitor and the package-level variables of the package
	var fields, vars []string
	for _, f := range x.files(dir) {
		for _, d := range f.Decls {
			gd, ok := d.(*ast.GenDecl)
			if !ok {
				continue
			}
			for _, sp := range gd.Specs {
				switch v := sp.(type) {
				case *ast.TypeSpec:
					if v.Name.Name == "ServiceMonitor" {
						if st, ok := v.Type.(*ast.StructType); ok {
							for _, fl := range st.Fields.List {
								if len(fl.Names) == 0 {
									fields = append(fields, "embedded "+x.src(fl.Type))
								}
								for _, n := range fl.Names {
									fields = append(fields, n.Name)
								}
							}
						}
					}
				case *ast.ValueSpec:
					if gd.Tok == token.VAR {
						for _, n := range v.Names {
							vars = append(vars, n.Name)
						}
					}
				}
			}
		}
	}
	x.defStrList("serviceMonitorFields", fields)
	x.defSortedStrList("consulPackageVars", vars)
	// assignments to fields of the monitor anywhere in its methods (w.x = …)
	var fieldWrites []string
	for _, f := range x.files(dir) {
		for _, d := range f.Decls {
			fd, ok := d.(*ast.FuncDecl)
			if !ok || fd.Recv == nil || fd.Body == nil || !strings.Contains(x.src(fd.Recv.List[0].Type), "ServiceMonitor") {
				continue
			}
			ast.Inspect(fd.Body, func(n ast.Node) bool {
				if as, ok := n.(*ast.AssignStmt); ok {
					for _, l := range as.Lhs {
						if s := x.src(l); strings.HasPrefix(s, "w.") {
							fieldWrites = append(fieldWrites, fd.Name.Name+": "+x.src(as))
						}
					}
				}
				return true
			})
		}
	}
	x.defStrList("serviceMonitorFieldWrites", fieldWrites)
	// the two watch loops: every condition, every write of the remembered index / value, every send
	loop := func(fd *ast.FuncDecl, remembered ...string) (conds, writes, sends []string) {
		ast.Inspect(fd.Body, func(n ast.Node) bool {
			switch v := n.(type) {
			case *ast.IfStmt:
				conds = append(conds, x.src(v.Cond))
			case *ast.AssignStmt:
				for _, l := range v.Lhs {
					for _, r := range remembered {
						if x.src(l) == r {
							writes = append(writes, x.src(v))
							return true
						}
					}
				}
			case *ast.SendStmt:
				sends = append(sends, x.src(v))
			}
			return true
		})
		return
	}
	if fd := x.funcDecl(dir, "", "watchKV"); fd != nil {
		c, w, s := loop(fd, "lastIndex", "lastValue")
		x.defStrList("watchKVConds", c)
		x.defStrList("watchKVWrites", w)
		x.defStrList("watchKVSends", s)
	}
	if fd := x.funcDecl(dir, "ServiceMonitor", "Watch"); fd != nil {
		c, w, s := loop(fd, "lastIndex")
		x.defStrList("watchConds", c)
		x.defStrList("watchWrites", w)
		x.defStrList("watchSends", s)
	}
}

func c01WatchBackend(x *X) {
	fd := x.funcDecl(".", "", "watchBackend")
	if fd == nil {
		return
	}
	// the `default:` arm of the backend switch
	var loop *ast.ForStmt
	ast.Inspect(fd.Body, func(n ast.Node) bool {
		if cc, ok := n.(*ast.CaseClause); ok && cc.List == nil {
			for _, st := range cc.Body {
				if fs, ok := st.(*ast.ForStmt); ok {
					loop = fs
				}
			}
			return false
		}
		return true
	})
	if loop == nil {
		x.fail("watchBackend: loop of the default arm not found")
		return
	}
	var shape []string
	for _, st := range loop.Body.List {
		switch v := st.(type) {
		case *ast.SelectStmt:
			var cs []string
			for _, c := range v.Body.List {
				if cc, ok := c.(*ast.CommClause); ok && cc.Comm != nil {
					cs = append(cs, x.src(cc.Comm))
					if len(cc.Body) != 0 {
						cs = append(cs, "with-body")
					}
				}
			}
			shape = append(shape, "select "+strings.Join(cs, " | "))
		case *ast.ExprStmt:
			c, ok := v.X.(*ast.CallExpr)
			if !ok {
				continue
			}
			switch x.src(c.Fun) {
			case "tableBuffer.Reset":
				shape = append(shape, "reset")
			case "tableBuffer.WriteString":
				shape = append(shape, "write "+x.src(c.Args[0]))
			case "route.SetTable":
				shape = append(shape, "settable "+x.src(c.Args[0]))
			}
		case *ast.IfStmt:
			cond := x.src(v.Cond)
			switch {
			case v.Init != nil && x.src(v.Init) == "nextTable = tableBuffer.String()" && (cond == "nextTable == lastTable") && hasContinue(v.Body, ""):
				shape = append(shape, "skip-if-unchanged")
			case cond == "err != nil" && hasContinue(v.Body, ""):
				shape = append(shape, "on-error-continue")
			case cond == "err != nil":
				// logging only
			default:
				shape = append(shape, "if "+cond)
			}
		case *ast.AssignStmt:
			s := x.src(v)
			switch {
			case s == "lastTable = nextTable":
				shape = append(shape, "remember")
			case len(v.Rhs) == 1 && strings.HasPrefix(x.src(v.Rhs[0]), "route.NewTable("):
				shape = append(shape, "newtable "+s)
			default:
				for _, l := range v.Lhs {
					if n := x.src(l); n == "lastTable" || n == "svccfg" || n == "mancfg" || n == "nextTable" {
						shape = append(shape, "assign "+s)
					}
				}
			}
		}
	}
	x.defStrList("watchBackendLoop", shape)
	// nothing else in the function may write the locals or install a table
	var writes []string
	ast.Inspect(fd.Body, func(n ast.Node) bool {
		switch v := n.(type) {
		case *ast.AssignStmt:
			for _, l := range v.Lhs {
				s := x.src(l)
				if s == "lastTable" || s == "svccfg" || s == "mancfg" || s == "nextTable" {
					writes = append(writes, x.src(v))
				}
			}
		case *ast.CallExpr:
			if x.src(v.Fun) == "route.SetTable" {
				writes = append(writes, x.src(v))
			}
		}
		return true
	})
	x.defStrList("watchBackendWrites", writes)
}
