package main

import (
	"fmt"
	"go/ast"
	"go/token"
	"reflect"
	"sort"
	"strconv"
	"strings"
)

// Facts for C01, read off the current /repo source with go/ast — pinned by MEANING, not spelling:
//
//   - every function is summarised as an ordered list of GUARDED ACTIONS `c1 & c2 & … => action`: the conditions
//     under which an effect (increment, labelled continue, append, send, return, call, store) happens. Conditions are
//     put in a normal form: parentheses dropped, `!` pushed to the atoms (De Morgan), `a != b` is the negation of
//     `a == b`, operands of `==` sorted, a disjunction becomes alternatives in else-if order (A ; !A & B), the body of
//     `if c { …terminates }` contributes `!c` to what follows, an unlabelled `continue` is not an action of its own
//     (it only guards the rest of the loop body). So nested-if vs guard-clause, if-chain vs switch (the normaliser
//     turns switches into if-chains), merged vs separate conditions and De Morgan variants give the same list.
//   - identifiers are canonicalised by ROLE: receiver -> recv, i-th parameter -> p<i>, a local assigned exactly
//     once from a call -> <callee>#<result index>, other locals -> v<k> in order of declaration, labels -> L<k>,
//     unexported helper functions of the package that the hooks do not name -> helper<k> in order of appearance
//     (their own summaries are pinned under that name), the join-key type -> $KEY.
//   - package constants are inlined and literal concatenations folded (x.UseNormalizedAST).
//   - makeConfig is followed into unexported helpers (x.WalkInlined), so extracting / inlining a helper keeps
//     the event list.
//
// What is pinned: the literal check ids and the "critical" comparisons, the loops of passingServices, isServiceCheck,
// hasStatus, checksWithTagPrefix; the data flow of ServiceMonitor.Watch (state -> filter -> passing -> makeConfig ->
// send); the join key on both sides and the key type; what serviceConfig does on a lookup error and that the monitor
// keeps no state; the change tests of the two watchers; the statement order of main.watchBackend.

// names the verif hooks reference (a rename breaks the harness build anyway), kept by name
var c01Hooked = map[string]bool{"passingServices": true, "checksWithTagPrefix": true, "makeConfig": true, "NewServiceMonitor": true}

func init() {
	register("C01", func(x *X) error {
		x.UseNormalizedAST()
		c01Passing(x)
		c01Service(x)
		c01Faults(x)
		c01WatchBackend(x)
		c01HandOver(x)
		return nil
	})
}

// ---------------------------------------------------------------------------------------------------------
// role-based rendering
// ---------------------------------------------------------------------------------------------------------

type c01fn struct {
	x       *X
	dir     string
	fd      *ast.FuncDecl
	ren     map[string]string // identifier -> role name
	helpers []string          // real names of the unexported helpers, in order of appearance
	labels  map[string]string
	keyType string // real name of the join-key type ("" = none)
	recv    string
	fields  map[string]string // unexported field of the receiver's struct -> f<index>
}

func c01Callee(c *ast.CallExpr) string {
	switch f := c.Fun.(type) {
	case *ast.Ident:
		return f.Name
	case *ast.SelectorExpr:
		return f.Sel.Name
	}
	return ""
}

func newC01fn(x *X, dir string, fd *ast.FuncDecl) *c01fn {
	f := &c01fn{x: x, dir: dir, fd: fd, ren: map[string]string{}, labels: map[string]string{}}
	recv, params, locals := x.LocalNames(fd)
	if recv != "" {
		f.ren[recv] = "recv"
		f.recv = recv
		f.fields = x.c01RecvFields(dir, fd)
	}
	for i, p := range params {
		f.ren[p] = "p" + strconv.Itoa(i)
	}
	if fd.Type.Results != nil {
		k := 0
		for _, r := range fd.Type.Results.List {
			for _, n := range r.Names {
				f.ren[n.Name] = "r" + strconv.Itoa(k)
				k++
			}
		}
	}
	// unexported helpers of the package that no hook names, numbered in source order of their first call
	isLocal := map[string]bool{}
	for _, l := range locals {
		isLocal[l] = true
	}
	for _, p := range params {
		isLocal[p] = true
	}
	ast.Inspect(fd.Body, func(n ast.Node) bool {
		if c, ok := n.(*ast.CallExpr); ok {
			if id, ok := c.Fun.(*ast.Ident); ok && f.isHelper(id.Name) && !isLocal[id.Name] {
				f.helperIndex(id.Name)
			}
		}
		return true
	})
	roleOfCallee := func(c *ast.CallExpr) string {
		if id, ok := c.Fun.(*ast.Ident); ok && f.isHelper(id.Name) && !isLocal[id.Name] {
			return "helper" + strconv.Itoa(f.helperIndex(id.Name))
		}
		return c01Callee(c)
	}
	// locals defined exactly once, by := from a call, get the role "<callee>#<i>"
	defs := map[string]int{}
	from := map[string]string{}
	ast.Inspect(fd.Body, func(n ast.Node) bool {
		switch v := n.(type) {
		case *ast.AssignStmt:
			for i, l := range v.Lhs {
				id, ok := l.(*ast.Ident)
				if !ok || id.Name == "_" {
					continue
				}
				defs[id.Name]++
				if v.Tok == token.DEFINE && len(v.Rhs) == 1 {
					if c, ok := v.Rhs[0].(*ast.CallExpr); ok && c01Callee(c) != "" {
						from[id.Name] = roleOfCallee(c) + "#" + strconv.Itoa(i)
					}
				}
			}
		case *ast.IncDecStmt:
			if id, ok := v.X.(*ast.Ident); ok {
				defs[id.Name]++
			}
		case *ast.ValueSpec:
			for _, id := range v.Names {
				defs[id.Name]++
			}
		case *ast.RangeStmt:
			for _, e := range []ast.Expr{v.Key, v.Value} {
				if id, ok := e.(*ast.Ident); ok && id.Name != "_" {
					defs[id.Name]++
				}
			}
		case *ast.CommClause:
			if as, ok := v.Comm.(*ast.AssignStmt); ok {
				for _, l := range as.Lhs {
					if id, ok := l.(*ast.Ident); ok {
						defs[id.Name]++
					}
				}
			}
		}
		return true
	})
	k := 0
	for _, l := range locals {
		if _, taken := f.ren[l]; taken {
			continue
		}
		if r, ok := from[l]; ok && defs[l] == 1 {
			f.ren[l] = r
			continue
		}
		f.ren[l] = "v" + strconv.Itoa(k)
		k++
	}
	return f
}

// c01RecvFields maps the unexported fields of the receiver's struct type to their position (f0, f1, …), so that a
// renamed field gives the same fact.
func (x *X) c01RecvFields(dir string, fd *ast.FuncDecl) map[string]string {
	out := map[string]string{}
	if fd.Recv == nil || len(fd.Recv.List) != 1 {
		return out
	}
	t := fd.Recv.List[0].Type
	if st, ok := t.(*ast.StarExpr); ok {
		t = st.X
	}
	id, ok := t.(*ast.Ident)
	if !ok {
		return out
	}
	return x.c01StructFields(dir, id.Name)
}

func (x *X) c01StructFields(dir, typeName string) map[string]string {
	out := map[string]string{}
	for _, file := range x.files(dir) {
		for _, d := range file.Decls {
			gd, ok := d.(*ast.GenDecl)
			if !ok {
				continue
			}
			for _, sp := range gd.Specs {
				ts, ok := sp.(*ast.TypeSpec)
				if !ok || ts.Name.Name != typeName {
					continue
				}
				if st, ok := ts.Type.(*ast.StructType); ok {
					k := 0
					for _, fl := range st.Fields.List {
						for _, n := range fl.Names {
							if !ast.IsExported(n.Name) {
								out[n.Name] = "f" + strconv.Itoa(k)
							}
							k++
						}
					}
				}
			}
		}
	}
	return out
}

func (f *c01fn) isHelper(name string) bool {
	return !ast.IsExported(name) && !c01Hooked[name] && f.x.anyFuncDecl(f.dir, name) != nil
}

func (f *c01fn) helperIndex(name string) int {
	for i, h := range f.helpers {
		if h == name {
			return i
		}
	}
	f.helpers = append(f.helpers, name)
	return len(f.helpers) - 1
}

// src renders a node with identifiers canonicalised by role (selected field names and struct-literal keys are kept).
func (f *c01fn) src(n ast.Node) string {
	type saved struct {
		id  *ast.Ident
		old string
	}
	var undo []saved
	skip := map[*ast.Ident]bool{}
	ast.Inspect(n, func(m ast.Node) bool {
		switch v := m.(type) {
		case *ast.SelectorExpr:
			skip[v.Sel] = true
			if id, ok := v.X.(*ast.Ident); ok && f.recv != "" && id.Name == f.recv {
				if to, ok := f.fields[v.Sel.Name]; ok {
					undo = append(undo, saved{v.Sel, v.Sel.Name})
					v.Sel.Name = to
				}
			}
		case *ast.KeyValueExpr:
			if id, ok := v.Key.(*ast.Ident); ok {
				skip[id] = true
			}
		case *ast.FuncLit:
			return false
		}
		return true
	})
	ast.Inspect(n, func(m ast.Node) bool {
		switch v := m.(type) {
		case *ast.FuncLit:
			return false
		case *ast.CallExpr:
			// unexported helper of the same package, not named by a hook: helper<k>
			if id, ok := v.Fun.(*ast.Ident); ok && !skip[id] && f.isHelper(id.Name) {
				if _, isLocal := f.ren[id.Name]; !isLocal {
					idx := f.helperIndex(id.Name)
					undo = append(undo, saved{id, id.Name})
					skip[id] = true
					id.Name = "helper" + strconv.Itoa(idx)
				}
			}
		case *ast.CompositeLit:
			if id, ok := v.Type.(*ast.Ident); ok && f.keyType != "" && id.Name == f.keyType {
				undo = append(undo, saved{id, id.Name})
				skip[id] = true
				id.Name = "$KEY"
			}
		case *ast.Ident:
			if skip[v] {
				return true
			}
			if to, ok := f.ren[v.Name]; ok {
				undo = append(undo, saved{v, v.Name})
				v.Name = to
			}
		}
		return true
	})
	// function literals are opaque
	s := f.x.src(n)
	for _, u := range undo {
		u.id.Name = u.old
	}
	if i := strings.Index(s, "func("); i >= 0 {
		if j := strings.LastIndex(s, "}"); j > i {
			s = s[:i] + "func" + s[j+1:]
		}
	}
	return s
}

// ---------------------------------------------------------------------------------------------------------
// conditions in normal form
// ---------------------------------------------------------------------------------------------------------

type c01lit struct {
	atom string
	pos  bool
}

func (l c01lit) String() string {
	if l.pos {
		return l.atom
	}
	if strings.Contains(l.atom, " == ") && !strings.ContainsAny(l.atom, "&|") {
		return strings.Replace(l.atom, " == ", " != ", 1)
	}
	if strings.ContainsAny(l.atom, " ") {
		return "!(" + l.atom + ")"
	}
	return "!" + l.atom
}

// conj joins two conjunctions, dropping duplicates; ok=false if contradictory.
func c01conj(a, b []c01lit) ([]c01lit, bool) {
	out := append([]c01lit{}, a...)
	for _, l := range b {
		dup := false
		for _, o := range out {
			if o.atom == l.atom {
				if o.pos != l.pos {
					return nil, false
				}
				dup = true
			}
		}
		if !dup {
			out = append(out, l)
		}
	}
	return out, true
}

func c01cross(as, bs [][]c01lit) [][]c01lit {
	var out [][]c01lit
	for _, a := range as {
		for _, b := range bs {
			if c, ok := c01conj(a, b); ok {
				out = append(out, c)
			}
		}
	}
	return out
}

// dnf returns the alternatives (in else-if order) under which e (negated if neg) holds.
func (f *c01fn) dnf(e ast.Expr, neg bool) [][]c01lit {
	switch v := e.(type) {
	case *ast.ParenExpr:
		return f.dnf(v.X, neg)
	case *ast.UnaryExpr:
		if v.Op == token.NOT {
			return f.dnf(v.X, !neg)
		}
	case *ast.BinaryExpr:
		switch v.Op {
		case token.LAND:
			if !neg {
				return c01cross(f.dnf(v.X, false), f.dnf(v.Y, false))
			}
			return append(f.dnf(v.X, true), c01cross(f.dnf(v.X, false), f.dnf(v.Y, true))...)
		case token.LOR:
			if !neg {
				return append(f.dnf(v.X, false), c01cross(f.dnf(v.X, true), f.dnf(v.Y, false))...)
			}
			return c01cross(f.dnf(v.X, true), f.dnf(v.Y, true))
		case token.EQL, token.NEQ:
			a, b := f.src(v.X), f.src(v.Y)
			if b < a {
				a, b = b, a
			}
			return [][]c01lit{{{atom: a + " == " + b, pos: (v.Op == token.EQL) != neg}}}
		case token.LSS:
			return [][]c01lit{{{atom: f.src(v.X) + " < " + f.src(v.Y), pos: !neg}}}
		case token.GTR:
			return [][]c01lit{{{atom: f.src(v.Y) + " < " + f.src(v.X), pos: !neg}}}
		case token.GEQ:
			return [][]c01lit{{{atom: f.src(v.X) + " < " + f.src(v.Y), pos: neg}}}
		case token.LEQ:
			return [][]c01lit{{{atom: f.src(v.Y) + " < " + f.src(v.X), pos: neg}}}
		}
	}
	return [][]c01lit{{{atom: f.src(e), pos: !neg}}}
}

// ---------------------------------------------------------------------------------------------------------
// guarded actions
// ---------------------------------------------------------------------------------------------------------

type c01walk struct {
	f     *c01fn
	out   []string
	depth int // loop nesting
}

func (w *c01walk) emit(paths [][]c01lit, act string) {
	for _, p := range paths {
		var cs []string
		for _, l := range p {
			cs = append(cs, l.String())
		}
		pre := strings.Repeat(">", w.depth)
		if pre != "" {
			pre += " "
		}
		if len(cs) == 0 {
			w.out = append(w.out, pre+act)
		} else {
			w.out = append(w.out, pre+strings.Join(cs, " & ")+" => "+act)
		}
	}
}

func c01IsLog(c *ast.CallExpr) bool {
	if se, ok := c.Fun.(*ast.SelectorExpr); ok {
		if id, ok := se.X.(*ast.Ident); ok && id.Name == "log" {
			return true
		}
	}
	return false
}

func (w *c01walk) label(name string) string {
	if l, ok := w.f.labels[name]; ok {
		return l
	}
	l := "L" + strconv.Itoa(len(w.f.labels))
	w.f.labels[name] = l
	return l
}

// stmts walks a statement list under the alternative paths; it returns the paths that fall through its end.
func (w *c01walk) stmts(list []ast.Stmt, paths [][]c01lit) [][]c01lit {
	for _, st := range list {
		if len(paths) == 0 {
			return nil
		}
		paths = w.stmt(st, paths)
	}
	return paths
}

func (w *c01walk) stmt(st ast.Stmt, paths [][]c01lit) [][]c01lit {
	f := w.f
	switch v := st.(type) {
	case *ast.BlockStmt:
		return w.stmts(v.List, paths)
	case *ast.LabeledStmt:
		w.label(v.Label.Name)
		return w.stmt(v.Stmt, paths)
	case *ast.IfStmt:
		if v.Init != nil {
			paths = w.stmt(v.Init, paths)
		}
		thenP := c01cross(paths, f.dnf(v.Cond, false))
		elseP := c01cross(paths, f.dnf(v.Cond, true))
		thenAfter := w.stmts(v.Body.List, thenP)
		elseAfter := elseP
		if v.Else != nil {
			elseAfter = w.stmt(v.Else, elseP)
		}
		if reflect.DeepEqual(thenAfter, thenP) && reflect.DeepEqual(elseAfter, elseP) {
			return paths // neither branch ends the path: what follows does not depend on the condition
		}
		return append(append([][]c01lit{}, thenAfter...), elseAfter...)
	case *ast.RangeStmt:
		w.emit(paths, "range "+f.src(v.X))
		w.depth++
		w.stmts(v.Body.List, [][]c01lit{{}})
		w.depth--
		return paths
	case *ast.ForStmt:
		head := "for"
		if v.Cond != nil {
			head += " " + f.src(v.Cond)
		}
		w.emit(paths, head)
		w.depth++
		w.stmts(v.Body.List, [][]c01lit{{}})
		w.depth--
		if v.Cond == nil {
			return nil // an endless loop: nothing after it is reached by falling through
		}
		return paths
	case *ast.BranchStmt:
		switch {
		case v.Tok == token.CONTINUE && v.Label == nil:
			return nil // guards the rest of the loop body, no action of its own
		case v.Label != nil:
			w.emit(paths, v.Tok.String()+" "+w.label(v.Label.Name))
		default:
			w.emit(paths, v.Tok.String())
		}
		return nil
	case *ast.ReturnStmt:
		var rs []string
		for _, r := range v.Results {
			if c01IsBoolExpr(r) {
				var alts []string
				for _, alt := range f.dnf(r, false) {
					var cs []string
					for _, l := range alt {
						cs = append(cs, l.String())
					}
					alts = append(alts, strings.Join(cs, " & "))
				}
				rs = append(rs, strings.Join(alts, " | "))
				continue
			}
			rs = append(rs, f.src(r))
		}
		w.emit(paths, strings.TrimSpace("return "+strings.Join(rs, ", ")))
		return nil
	case *ast.IncDecStmt:
		w.emit(paths, f.src(v))
	case *ast.AssignStmt:
		if v.Tok == token.DEFINE && len(v.Rhs) == 1 && c01PlainValue(v.Rhs[0]) {
			return paths // a definition from a literal / make / new carries no effect of its own
		}
		w.emit(paths, f.src(v))
	case *ast.SendStmt:
		w.emit(paths, "send "+f.src(v.Chan)+" <- "+f.src(v.Value))
	case *ast.ExprStmt:
		if c, ok := v.X.(*ast.CallExpr); ok && c01IsLog(c) {
			return paths
		}
		w.emit(paths, "call "+f.src(v.X))
	case *ast.GoStmt:
		w.emit(paths, "go")
	case *ast.DeferStmt:
		w.emit(paths, "defer "+f.src(v.Call))
	case *ast.SelectStmt:
		var cs []string
		bodies := false
		for _, c := range v.Body.List {
			if cc, ok := c.(*ast.CommClause); ok {
				if cc.Comm == nil {
					cs = append(cs, "default")
				} else {
					cs = append(cs, f.src(cc.Comm))
				}
				if len(cc.Body) > 0 {
					bodies = true
				}
			}
		}
		s := "select " + strings.Join(cs, " | ")
		if bodies {
			s += " (with bodies)"
		}
		w.emit(paths, s)
	case *ast.DeclStmt:
		// declarations carry no effect
	case *ast.SwitchStmt, *ast.TypeSwitchStmt:
		w.emit(paths, "switch (not normalised) "+f.src(v))
	default:
		w.emit(paths, "stmt "+f.src(st))
	}
	return paths
}

func c01IsBoolExpr(e ast.Expr) bool {
	switch v := e.(type) {
	case *ast.ParenExpr:
		return c01IsBoolExpr(v.X)
	case *ast.UnaryExpr:
		return v.Op == token.NOT
	case *ast.BinaryExpr:
		switch v.Op {
		case token.LAND, token.LOR, token.EQL, token.NEQ, token.LSS, token.GTR, token.LEQ, token.GEQ:
			return true
		}
	}
	return false
}

func c01PlainValue(e ast.Expr) bool {
	switch v := e.(type) {
	case *ast.BasicLit, *ast.CompositeLit:
		return true
	case *ast.UnaryExpr:
		return c01PlainValue(v.X)
	case *ast.CallExpr:
		n := c01Callee(v)
		return n == "make" || n == "new"
	}
	return false
}

func (x *X) c01Guarded(dir string, fd *ast.FuncDecl, keyType string) (*c01fn, []string) {
	f := newC01fn(x, dir, fd)
	f.keyType = keyType
	w := &c01walk{f: f}
	w.stmts(fd.Body.List, [][]c01lit{{}})
	return f, w.out
}

// stringLits collects the string literals of a node, sorted, without duplicates.
func (x *X) stringLitSet(n ast.Node) []string {
	seen := map[string]bool{}
	ast.Inspect(n, func(m ast.Node) bool {
		if c, ok := m.(*ast.CallExpr); ok && c01IsLog(c) {
			return false
		}
		if b, ok := m.(*ast.BasicLit); ok && b.Kind == token.STRING {
			if s, ok := x.strLit(b); ok {
				seen[s] = true
			}
		}
		return true
	})
	var out []string
	for s := range seen {
		out = append(out, s)
	}
	sort.Strings(out)
	return out
}

// ---------------------------------------------------------------------------------------------------------
// passing.go
// ---------------------------------------------------------------------------------------------------------

func c01Passing(x *X) {
	const dir = "registry/consul"
	fd := x.funcDecl(dir, "", "passingServices")
	if fd == nil {
		return
	}
	f, acts := x.c01Guarded(dir, fd, "")
	x.defStrList("passingServicesActions", acts)
	x.defSortedStrList("passingServicesLiterals", x.stringLitSet(fd.Body))
	// the helpers it calls, in order of appearance: helper0 = "is a service check", helper1 = "has an accepted status"
	for i, h := range f.helpers {
		hd := x.anyFuncDecl(dir, h)
		if hd == nil {
			continue
		}
		_, ha := x.c01Guarded(dir, hd, "")
		x.defStrList(fmt.Sprintf("passingHelper%dActions", i), ha)
		x.defSortedStrList(fmt.Sprintf("passingHelper%dLiterals", i), x.stringLitSet(hd.Body))
	}
	x.defNat("passingHelperCount", uint64(len(f.helpers)))
}

// ---------------------------------------------------------------------------------------------------------
// service.go
// ---------------------------------------------------------------------------------------------------------

// reachable lists fd and the unexported same-package functions it calls (transitively, via WalkInlined).
func (x *X) c01Reachable(dir string, fd *ast.FuncDecl) []*ast.FuncDecl {
	out := []*ast.FuncDecl{fd}
	seen := map[string]bool{fd.Name.Name: true}
	x.WalkInlined(dir, fd, func(n ast.Node) bool {
		if c, ok := n.(*ast.CallExpr); ok {
			if name := c01Callee(c); name != "" && !ast.IsExported(name) && !seen[name] {
				if callee := x.anyFuncDecl(dir, name); callee != nil {
					seen[name] = true
					out = append(out, callee)
				}
			}
		}
		return true
	})
	return out
}

// expandLocal renders e inside fd with a local that is assigned exactly once replaced by its defining expression
// (one level), the range variable of the loop replaced by X.
func c01RangeVar(fd *ast.FuncDecl, inside ast.Node) string {
	name := ""
	ast.Inspect(fd.Body, func(n ast.Node) bool {
		if rs, ok := n.(*ast.RangeStmt); ok && rs.Pos() <= inside.Pos() && inside.End() <= rs.End() {
			if id, ok := rs.Value.(*ast.Ident); ok {
				name = id.Name // innermost enclosing range wins (Inspect goes outside-in)
			}
		}
		return true
	})
	return name
}

func c01Service(x *X) {
	const dir = "registry/consul"
	if fd := x.funcDecl(dir, "", "checksWithTagPrefix"); fd != nil {
		_, acts := x.c01Guarded(dir, fd, "")
		x.defStrList("checksWithTagPrefixActions", acts)
		x.defSortedStrList("checksWithTagPrefixLiterals", x.stringLitSet(fd.Body))
	}
	// Watch: the data flow state -> filter -> passing -> makeConfig -> send, by callee name; an argument that is the
	// result of one of these calls (directly nested or through a single-assignment local) is written <callee>#<i>
	if fd := x.funcDecl(dir, "ServiceMonitor", "Watch"); fd != nil {
		f := newC01fn(x, dir, fd)
		tracked := map[string]bool{"State": true, "checksWithTagPrefix": true, "passingServices": true, "makeConfig": true}
		render := func(c *ast.CallExpr) string {
			name := c01Callee(c)
			if name == "State" {
				return "State"
			}
			var args []string
			for _, a := range c.Args {
				if ac, ok := a.(*ast.CallExpr); ok && tracked[c01Callee(ac)] {
					args = append(args, c01Callee(ac)+"#0")
				} else {
					args = append(args, f.src(a))
				}
			}
			return name + "(" + strings.Join(args, ", ") + ")"
		}
		var order []string
		var visit func(n ast.Node)
		visit = func(n ast.Node) {
			ast.Inspect(n, func(m ast.Node) bool {
				switch v := m.(type) {
				case *ast.CallExpr:
					if tracked[c01Callee(v)] {
						for _, a := range v.Args {
							visit(a) // evaluation order: arguments first
						}
						order = append(order, render(v))
						return false
					}
				case *ast.SendStmt:
					visit(v.Value)
					val := f.src(v.Value)
					if c, ok := v.Value.(*ast.CallExpr); ok && tracked[c01Callee(c)] {
						val = c01Callee(c) + "#0"
					}
					order = append(order, "send "+f.src(v.Chan)+" <- "+val)
					return false
				}
				return true
			})
		}
		visit(fd.Body)
		x.defStrList("watchFlow", order)
	}
	// strict mode flag: the `strict` field of the monitor is initialised with <config param>.ChecksRequired == "all"
	if fd := x.funcDecl(dir, "", "NewServiceMonitor"); fd != nil {
		f := newC01fn(x, dir, fd)
		var found []string
		fields := x.c01StructFields(dir, "ServiceMonitor")
		ast.Inspect(fd.Body, func(n ast.Node) bool {
			if kv, ok := n.(*ast.KeyValueExpr); ok {
				if be, ok := kv.Value.(*ast.BinaryExpr); ok && be.Op == token.EQL {
					found = append(found, fields[x.src(kv.Key)]+" = "+f.src(be))
				}
			}
			return true
		})
		x.defStrList("strictInit", found)
	}
	// the join: makeConfig (followed into helpers) stores `set[name][key] = true` with name and key read from the
	// range variable; the lookup function (the reachable function that queries Catalog().Service) tests
	// `set[key]` and skips the entry when it is missing
	mk := x.funcDecl(dir, "ServiceMonitor", "makeConfig")
	if mk == nil {
		return
	}
	reach := x.c01Reachable(dir, mk)
	keyMake, keyName, keyType := "", "", ""
	for _, fd := range reach {
		ast.Inspect(fd.Body, func(n ast.Node) bool {
			as, ok := n.(*ast.AssignStmt)
			if !ok || len(as.Lhs) != 1 || len(as.Rhs) != 1 || x.src(as.Rhs[0]) != "true" {
				return true
			}
			outer, ok := as.Lhs[0].(*ast.IndexExpr)
			if !ok {
				return true
			}
			inner, ok := outer.X.(*ast.IndexExpr)
			if !ok {
				return true
			}
			rv := c01RangeVar(fd, as)
			// resolve the two index expressions through their single defining assignment
			resolve := func(e ast.Expr) ast.Expr {
				id, ok := e.(*ast.Ident)
				if !ok {
					return e
				}
				var def ast.Expr
				ast.Inspect(fd.Body, func(m ast.Node) bool {
					if d, ok := m.(*ast.AssignStmt); ok && def == nil && d.Tok == token.DEFINE && len(d.Lhs) == len(d.Rhs) {
						for i, l := range d.Lhs {
							if li, ok := l.(*ast.Ident); ok && li.Name == id.Name {
								def = d.Rhs[i]
							}
						}
					}
					return true
				})
				if def != nil {
					return def
				}
				return e
			}
			ke, ne := resolve(outer.Index), resolve(inner.Index)
			if cl, ok := ke.(*ast.CompositeLit); ok {
				if id, ok := cl.Type.(*ast.Ident); ok {
					keyType = id.Name
				}
			}
			f := newC01fn(x, dir, fd)
			f.keyType = keyType
			f.ren = map[string]string{rv: "X"}
			keyMake, keyName = f.src(ke), f.src(ne)
			return true
		})
	}
	x.defStr("keyMake", keyMake)
	x.defStr("keyMakeName", keyName)
	// the key type: a struct of comparable fields (Go compares struct keys field by field)
	var fields []string
	for _, file := range x.files(dir) {
		for _, d := range file.Decls {
			gd, ok := d.(*ast.GenDecl)
			if !ok {
				continue
			}
			for _, s := range gd.Specs {
				if ts, ok := s.(*ast.TypeSpec); ok && keyType != "" && ts.Name.Name == keyType {
					if st, ok := ts.Type.(*ast.StructType); ok {
						for _, fl := range st.Fields.List {
							for range fl.Names {
								fields = append(fields, x.src(fl.Type))
							}
						}
					}
				}
			}
		}
	}
	x.defStrList("keyTypeFields", fields)
	// the lookup side
	var lookupFn *ast.FuncDecl
	for _, fd := range reach {
		ast.Inspect(fd.Body, func(n ast.Node) bool {
			if c, ok := n.(*ast.CallExpr); ok && c01Callee(c) == "Service" && strings.Contains(x.src(c.Fun), "Catalog()") {
				lookupFn = fd
			}
			return true
		})
	}
	if lookupFn == nil {
		x.fail("makeConfig: no reachable function queries Catalog().Service")
		return
	}
	keyLookup, skips := "", false
	ast.Inspect(lookupFn.Body, func(n ast.Node) bool {
		is, ok := n.(*ast.IfStmt)
		if !ok || is.Init == nil {
			return true
		}
		as, ok := is.Init.(*ast.AssignStmt)
		if !ok || len(as.Rhs) != 1 || len(as.Lhs) != 2 {
			return true
		}
		ix, ok := as.Rhs[0].(*ast.IndexExpr)
		if !ok {
			return true
		}
		okVar := x.src(as.Lhs[1])
		f := newC01fn(x, dir, lookupFn)
		f.keyType = keyType
		f.ren = map[string]string{c01RangeVar(lookupFn, is): "X"}
		keyLookup = f.src(ix.Index)
		// the set that is indexed must be a parameter of the lookup function
		_, params, _ := x.LocalNames(lookupFn)
		isParam := false
		for _, p := range params {
			if p == x.src(ix.X) {
				isParam = true
			}
		}
		skips = isParam && x.src(is.Cond) == "!"+okVar && c01HasContinue(is.Body, "") && is.Else == nil
		return true
	})
	x.defStr("keyLookup", keyLookup)
	x.defBool("keyLookupSkipsMissing", skips)
	// the lookup function as guarded actions (what it returns on an error, what it appends)
	_, la := x.c01Guarded(dir, lookupFn, keyType)
	var lk []string
	for _, s := range la {
		act := s
		if i := strings.Index(s, " => "); i >= 0 {
			act = s[i+4:]
		}
		act = strings.TrimLeft(act, "> ")
		if strings.HasPrefix(act, "return") || strings.HasPrefix(act, "range ") || strings.Contains(act, "= append(") ||
			strings.Contains(act, "Catalog().Service(") {
			lk = append(lk, s)
		}
	}
	x.defStrList("lookupActions", lk)
	// makeConfig followed into its helpers: the events that matter, in order
	var events []string
	x.WalkInlined(dir, mk, func(n ast.Node) bool {
		switch v := n.(type) {
		case *ast.GoStmt:
			events = append(events, "go")
		case *ast.CallExpr:
			switch name := c01Callee(v); {
			case name == "Service" && strings.Contains(x.src(v.Fun), "Catalog()"):
				events = append(events, "Catalog.Service")
			case name == "build":
				events = append(events, "build")
				return false // routecmd.build is C14's
			case name == "Sort" || name == "Reverse" || name == "StringSlice":
				events = append(events, "sort."+name)
			case name == "Join":
				if len(v.Args) == 2 {
					events = append(events, "strings.Join "+x.src(v.Args[1]))
				}
			}
		case *ast.AssignStmt:
			if len(v.Lhs) == 1 && len(v.Rhs) == 1 && x.src(v.Rhs[0]) == "true" {
				if o, ok := v.Lhs[0].(*ast.IndexExpr); ok {
					if _, ok := o.X.(*ast.IndexExpr); ok {
						events = append(events, "store set[name][key]")
					}
				}
			}
		}
		return true
	})
	x.defStrList("makeConfigEvents", events)
}

func c01HasContinue(n ast.Node, label string) bool {
	found := false
	ast.Inspect(n, func(m ast.Node) bool {
		if b, ok := m.(*ast.BranchStmt); ok && b.Tok == token.CONTINUE {
			if (label == "" && b.Label == nil) || (b.Label != nil && b.Label.Name == label) {
				found = true
			}
		}
		return true
	})
	return found
}

// ---------------------------------------------------------------------------------------------------------
// faults: statelessness, change tests
// ---------------------------------------------------------------------------------------------------------

func c01Faults(x *X) {
	const dir = "registry/consul"
	// the field TYPES of ServiceMonitor (names are free to change) and the package-level variables
	var types, vars []string
	for _, f := range x.files(dir) {
		for _, d := range f.Decls {
			gd, ok := d.(*ast.GenDecl)
			if !ok {
				continue
			}
			for _, sp := range gd.Specs {
				switch v := sp.(type) {
				case *ast.TypeSpec:
					if v.Name.Name == "ServiceMonitor" {
						if st, ok := v.Type.(*ast.StructType); ok {
							for _, fl := range st.Fields.List {
								n := len(fl.Names)
								if n == 0 {
									n = 1
								}
								for i := 0; i < n; i++ {
									types = append(types, x.src(fl.Type))
								}
							}
						}
					}
				case *ast.ValueSpec:
					if gd.Tok == token.VAR {
						for _, n := range v.Names {
							vars = append(vars, n.Name)
						}
					}
				}
			}
		}
	}
	x.defSortedStrList("serviceMonitorFieldTypes", types)
	x.defNat("consulPackageVarCount", uint64(len(vars)))
	// assignments to a field of the receiver in any method of the monitor
	writes := 0
	for _, f := range x.files(dir) {
		for _, d := range f.Decls {
			fd, ok := d.(*ast.FuncDecl)
			if !ok || fd.Recv == nil || fd.Body == nil || !strings.Contains(x.src(fd.Recv.List[0].Type), "ServiceMonitor") {
				continue
			}
			recv, _, _ := x.LocalNames(fd)
			ast.Inspect(fd.Body, func(n ast.Node) bool {
				if as, ok := n.(*ast.AssignStmt); ok {
					for _, l := range as.Lhs {
						if recv != "" && strings.HasPrefix(x.src(l), recv+".") {
							writes++
						}
					}
				}
				if inc, ok := n.(*ast.IncDecStmt); ok && recv != "" && strings.HasPrefix(x.src(inc.X), recv+".") {
					writes++
				}
				return true
			})
		}
	}
	x.defNat("serviceMonitorFieldWrites", uint64(writes))
	// the two watch loops as guarded actions
	if fd := c01KVWatcher(x, dir); fd != nil {
		_, a := x.c01Guarded(dir, fd, "")
		x.defStrList("watchKVActions", a)
	}
	if fd := x.funcDecl(dir, "ServiceMonitor", "Watch"); fd != nil {
		// the remembered index (the local assigned from <meta>.LastIndex) is stored, never compared
		f := newC01fn(x, dir, fd)
		role, writes := "", []string{}
		ast.Inspect(fd.Body, func(n ast.Node) bool {
			if as, ok := n.(*ast.AssignStmt); ok && len(as.Lhs) == 1 && len(as.Rhs) == 1 {
				if se, ok := as.Rhs[0].(*ast.SelectorExpr); ok && se.Sel.Name == "LastIndex" {
					role = x.src(as.Lhs[0])
				}
			}
			return true
		})
		var compared []string
		ast.Inspect(fd.Body, func(n ast.Node) bool {
			switch v := n.(type) {
			case *ast.AssignStmt:
				for _, l := range v.Lhs {
					if role != "" && x.src(l) == role {
						writes = append(writes, f.src(v))
					}
				}
			case *ast.IfStmt:
				ast.Inspect(v.Cond, func(m ast.Node) bool {
					if id, ok := m.(*ast.Ident); ok && role != "" && id.Name == role {
						compared = append(compared, f.src(v.Cond))
					}
					return true
				})
			}
			return true
		})
		if role == "" {
			x.fail("Watch: no local is assigned from .LastIndex")
		}
		x.defStrList("watchIndexWrites", writes)
		x.defStrList("watchIndexConds", compared)
	}
}

// ---------------------------------------------------------------------------------------------------------
// main.watchBackend
// ---------------------------------------------------------------------------------------------------------

func c01WatchBackend(x *X) {
	fd := x.funcDecl(".", "", "watchBackend")
	if fd == nil {
		return
	}
	// the loop whose body starts with a select over two channels (the arm of the non-custom backends)
	var loop *ast.ForStmt
	ast.Inspect(fd.Body, func(n ast.Node) bool {
		if fs, ok := n.(*ast.ForStmt); ok && len(fs.Body.List) > 0 {
			if sel, ok := fs.Body.List[0].(*ast.SelectStmt); ok && len(sel.Body.List) == 2 {
				loop = fs
			}
		}
		return true
	})
	if loop == nil {
		x.fail("watchBackend: loop starting with a two-way select not found")
		return
	}
	f := newC01fn(x, ".", fd)
	w := &c01walk{f: f}
	w.stmts(loop.Body.List, [][]c01lit{{}})
	// keep the actions that concern the table text and the table: the select, the buffer, NewTable, SetTable, and
	// the assignments to plain locals (the remembered text); calls to anything else (aliases, logging of routes,
	// the once-only signal) are not part of the model
	var keep []string
	for _, s := range w.out {
		act := s
		if i := strings.Index(s, " => "); i >= 0 {
			act = s[i+4:]
		}
		switch {
		case strings.HasPrefix(act, "select "),
			strings.Contains(act, ".Reset()"), strings.Contains(act, ".WriteString("), strings.Contains(act, ".String()"),
			strings.Contains(act, "NewTable("), strings.Contains(act, "SetTable("):
			keep = append(keep, s)
		case strings.HasPrefix(act, "v") && strings.Contains(act, " = ") && !strings.Contains(act, "("):
			keep = append(keep, s)
		}
	}
	x.defStrList("watchBackendLoop", keep)
	// the alias registration, by meaning: every call of a method named Register inside the loop is an expression
	// statement (its result is discarded - an assignment, `if err := …` or a condition would not be), and it comes
	// before the NewTable call in the same statement list; no names of locals, no buffer idiom
	regCalls, regDiscarded, regBeforeNewTable := 0, 0, true
	var walkList func(list []ast.Stmt)
	walkList = func(list []ast.Stmt) {
		newTableAt := -1
		for i, st := range list {
			has := false
			ast.Inspect(st, func(n ast.Node) bool {
				if c, ok := n.(*ast.CallExpr); ok && c01Callee(c) == "NewTable" {
					has = true
				}
				return true
			})
			if has && newTableAt < 0 {
				newTableAt = i
			}
		}
		for i, st := range list {
			if es, ok := st.(*ast.ExprStmt); ok {
				if c, ok := es.X.(*ast.CallExpr); ok && c01Callee(c) == "Register" {
					regDiscarded++
					if newTableAt >= 0 && i > newTableAt {
						regBeforeNewTable = false
					}
				}
			}
		}
	}
	ast.Inspect(loop.Body, func(n ast.Node) bool {
		switch v := n.(type) {
		case *ast.BlockStmt:
			walkList(v.List)
		case *ast.CaseClause:
			walkList(v.Body)
		case *ast.CommClause:
			walkList(v.Body)
		case *ast.CallExpr:
			if c01Callee(v) == "Register" {
				regCalls++
			}
		}
		return true
	})
	x.defNat("watchBackendRegisterCalls", uint64(regCalls))
	x.defNat("watchBackendRegisterDiscarded", uint64(regDiscarded))
	x.defBool("watchBackendRegisterBeforeNewTable", regBeforeNewTable)
	// nothing else in the function installs a table
	n := 0
	ast.Inspect(fd.Body, func(m ast.Node) bool {
		if c, ok := m.(*ast.CallExpr); ok && c01Callee(c) == "SetTable" {
			n++
		}
		return true
	})
	x.defNat("watchBackendSetTableCalls", uint64(n))
}

// ---------------------------------------------------------------------------------------------------------
// the hand-over from the watchers to the table loop
// ---------------------------------------------------------------------------------------------------------

// c01HandOver: the watchers hand every text they compute to the table loop with a blocking send. What is pinned is
// the meaning, not the place: in package registry/consul no channel send is the communication of a select clause
// (a send that can be skipped: `select { case ch <- v: default: }` or a send racing a timeout), and the table loop
// receives with a select that has no default clause and no clause other than the two receives.
func c01HandOver(x *X) {
	sends, selectSends := 0, 0
	for _, f := range x.files("registry/consul") {
		ast.Inspect(f, func(n ast.Node) bool {
			switch v := n.(type) {
			case *ast.SendStmt:
				sends++
			case *ast.CommClause:
				if _, ok := v.Comm.(*ast.SendStmt); ok {
					selectSends++
				}
			}
			return true
		})
	}
	x.defNat("consulSends", uint64(sends))
	x.defNat("consulSelectSends", uint64(selectSends))
	// the channels the two watchers send on are the ones WatchServices / WatchManual return, and the watcher is
	// started with that very channel
	for _, name := range []string{"WatchServices", "WatchManual"} {
		// the method of the registry.Backend implementation, whatever its receiver type is called
		fd := x.anyFuncDecl("registry/consul", name)
		if fd == nil || fd.Recv == nil {
			x.fail("method %s of the consul backend not found", name)
			continue
		}
		var made, started, returned string
		ast.Inspect(fd.Body, func(n ast.Node) bool {
			switch v := n.(type) {
			case *ast.AssignStmt:
				if len(v.Lhs) == 1 && len(v.Rhs) == 1 {
					if c, ok := v.Rhs[0].(*ast.CallExpr); ok && c01Callee(c) == "make" {
						if id, ok := v.Lhs[0].(*ast.Ident); ok {
							made = id.Name
							if len(c.Args) > 1 {
								made += " buffered"
							}
						}
					}
				}
			case *ast.GoStmt:
				for _, a := range v.Call.Args {
					if id, ok := a.(*ast.Ident); ok && id.Name == made {
						started = id.Name
					}
				}
			case *ast.ReturnStmt:
				if len(v.Results) == 1 {
					if id, ok := v.Results[0].(*ast.Ident); ok {
						returned = id.Name
					}
				}
			}
			return true
		})
		x.defBool("handOver"+name+"SameChannel", made != "" && made == started && made == returned)
	}
}

// c01KVWatcher finds the KV watcher by role: the package function that the backend's WatchManual method (an
// exported method of the registry.Backend interface) starts with `go`, whatever it is called.
func c01KVWatcher(x *X, dir string) *ast.FuncDecl {
	wm := x.anyFuncDecl(dir, "WatchManual")
	if wm == nil {
		x.fail("method WatchManual of the consul backend not found")
		return nil
	}
	var out *ast.FuncDecl
	ast.Inspect(wm.Body, func(n ast.Node) bool {
		if g, ok := n.(*ast.GoStmt); ok && out == nil {
			if id, ok := g.Call.Fun.(*ast.Ident); ok {
				out = x.anyFuncDecl(dir, id.Name)
			}
		}
		return true
	})
	if out == nil {
		x.fail("WatchManual starts no package function with go")
	}
	return out
}
