package main

import (
	"fmt"
	"go/ast"
	"go/token"
	"math/big"
	"sort"
	"strings"
)

// C15 facts: the flag table registered in config.load, the environment prefixes of config.Load, the order
// of the three blocks of FlagSet.ParseFlags, how the environment name is built, which options are kvslice
// valued, and the post-parse validations the model relies on.

type c15Flag struct {
	name, kind string
	dflt      string
	hasDflt   bool
	target    string // rendered first argument ("&cfg.Proxy.MaxConn") or "" for f.String/f.Bool
}

// registration methods of *FlagSet / flag.FlagSet the extractor understands: method -> (kind, has target arg)
var c15Reg = map[string]struct {
	kind   string
	target bool
}{
	"BoolVar":        {"bool", true},
	"IntVar":         {"int", true},
	"UintVar":        {"uint", true},
	"StringVar":      {"string", true},
	"DurationVar":    {"duration", true},
	"Float64Var":     {"float", true},
	"StringSliceVar": {"stringslice", true},
	"FloatSliceVar":  {"floatslice", true},
	"String":         {"string", false},
	"Bool":           {"bool", false},
}

// methods called on the flag set inside load that are not registrations
var c15NonReg = map[string]bool{"ParseFlags": true, "IsSet": true}

func leanChars(s string) string {
	var parts []string
	for _, r := range s {
		switch {
		case r == '\'':
			parts = append(parts, `'\''`)
		case r == '\\':
			parts = append(parts, `'\\'`)
		case r < 0x20 || r == 0x7f:
			parts = append(parts, fmt.Sprintf(`'\x%02x'`, r))
		default:
			parts = append(parts, "'"+string(r)+"'")
		}
	}
	return "[" + strings.Join(parts, ",") + "]"
}

func init() {
	register("C15", func(x *X) error {
		load := x.funcDecl("config", "", "load")
		Load := x.funcDecl("config", "", "Load")
		pf := x.funcDecl("config", "FlagSet", "ParseFlags")
		if load == nil || Load == nil || pf == nil {
			return nil
		}

		// ---- the flag set variable of load: f := NewFlagSet(...)
		fsVar := ""
		ast.Inspect(load.Body, func(n ast.Node) bool {
			as, ok := n.(*ast.AssignStmt)
			if !ok || len(as.Lhs) != 1 || len(as.Rhs) != 1 {
				return true
			}
			if c, ok := as.Rhs[0].(*ast.CallExpr); ok && x.src(c.Fun) == "NewFlagSet" {
				if id, ok := as.Lhs[0].(*ast.Ident); ok {
					fsVar = id.Name
				}
			}
			return true
		})
		if fsVar == "" {
			x.fail("config.load: no `<var> := NewFlagSet(...)` found")
			return nil
		}

		// ---- registrations
		var flags []c15Flag
		seen := map[string]bool{}
		ast.Inspect(load.Body, func(n ast.Node) bool {
			c, ok := n.(*ast.CallExpr)
			if !ok {
				return true
			}
			sel, ok := c.Fun.(*ast.SelectorExpr)
			if !ok {
				return true
			}
			id, ok := sel.X.(*ast.Ident)
			if !ok || id.Name != fsVar {
				return true
			}
			m := sel.Sel.Name
			if c15NonReg[m] {
				return true
			}
			reg, known := c15Reg[m]
			if !known {
				x.fail("config.load: unknown registration form %s.%s(...) at %s — teach tools/factgen/c15.go about it", fsVar, m, x.fset.Position(c.Pos()))
				return true
			}
			args := c.Args
			fl := c15Flag{kind: reg.kind}
			if reg.target {
				if len(args) != 4 {
					x.fail("config.load: %s.%s with %d arguments at %s", fsVar, m, len(args), x.fset.Position(c.Pos()))
					return true
				}
				fl.target = x.src(args[0])
				args = args[1:]
			} else if len(args) != 3 {
				x.fail("config.load: %s.%s with %d arguments at %s", fsVar, m, len(args), x.fset.Position(c.Pos()))
				return true
			}
			name, ok := x.strLit(args[0])
			if !ok {
				x.fail("config.load: flag name is not a string literal: %s at %s", x.src(args[0]), x.fset.Position(c.Pos()))
				return true
			}
			fl.name = name
			switch d := args[1].(type) {
			case *ast.BasicLit:
				if s, ok := x.strLit(d); ok {
					fl.dflt, fl.hasDflt = s, true
				} else {
					fl.dflt, fl.hasDflt = d.Value, true
				}
			case *ast.Ident:
				if d.Name == "true" || d.Name == "false" {
					fl.dflt, fl.hasDflt = d.Name, true
				}
			}
			if seen[name] {
				x.fail("config.load: flag %q registered twice", name)
			}
			seen[name] = true
			flags = append(flags, fl)
			return true
		})
		if len(flags) == 0 {
			x.fail("config.load: no flag registrations found")
			return nil
		}

		// ---- kvslice-valued options: local variables handed to a kvslice-based parser
		kvParsers := map[string]bool{"parseKVSlice": true, "parseListeners": true, "parseCertSources": true, "parseAuthSchemes": true, "parseBGPPeers": true}
		kvVars := map[string]bool{}
		ast.Inspect(load.Body, func(n ast.Node) bool {
			if c, ok := n.(*ast.CallExpr); ok {
				if id, ok := c.Fun.(*ast.Ident); ok && kvParsers[id.Name] && len(c.Args) > 0 {
					if a, ok := c.Args[0].(*ast.Ident); ok {
						kvVars["&"+a.Name] = true
					}
				}
			}
			return true
		})
		var kvFlags []string
		for i := range flags {
			if kvVars[flags[i].target] {
				if flags[i].kind != "string" {
					x.fail("kvslice option %s is not a string flag", flags[i].name)
				}
				flags[i].kind = "kvslice"
				kvFlags = append(kvFlags, flags[i].name)
			}
		}
		sort.Strings(kvFlags)

		sort.Slice(flags, func(i, j int) bool { return flags[i].name < flags[j].name })
		var rows []string
		for _, f := range flags {
			d := "none"
			if f.hasDflt {
				d = "some " + leanStr(f.dflt)
			}
			rows = append(rows, fmt.Sprintf("(%s, %s, %s)", leanChars(f.name), leanStr(f.kind), d))
		}
		x.defRaw("/-- (name as a rune list, kind, literal default) of every flag registered in `config.load`, sorted by name -/\ndef flagTable : List (List Char × String × Option String) := [\n  " + strings.Join(rows, ",\n  ") + "]")
		x.defRaw("def flagNames : List (List Char) := flagTable.map (·.1)")
		x.defStrList("kvsliceFlags", kvFlags)

		// ---- prefixes: envprefix := []string{"FABIO_", ""} in Load
		var prefixes []string
		foundPfx := false
		ast.Inspect(Load.Body, func(n ast.Node) bool {
			as, ok := n.(*ast.AssignStmt)
			if !ok || len(as.Lhs) != 1 || len(as.Rhs) != 1 {
				return true
			}
			if id, ok := as.Lhs[0].(*ast.Ident); !ok || id.Name != "envprefix" {
				return true
			}
			cl, ok := as.Rhs[0].(*ast.CompositeLit)
			if !ok {
				x.fail("config.Load: envprefix is not a composite literal: %s", x.src(as.Rhs[0]))
				return true
			}
			foundPfx = true
			for _, e := range cl.Elts {
				s, ok := x.strLit(e)
				if !ok {
					x.fail("config.Load: envprefix element is not a string literal: %s", x.src(e))
				}
				prefixes = append(prefixes, s)
			}
			return true
		})
		if !foundPfx {
			x.fail("config.Load: assignment to envprefix not found")
		}
		x.defStrList("prefixStrings", prefixes)
		var pcs []string
		for _, p := range prefixes {
			pcs = append(pcs, leanChars(p))
		}
		x.defRaw("def prefixes : List (List Char) := [" + strings.Join(pcs, ", ") + "]")
		// the environment-variable names as Go computes them, prefix-major, each packed into one number
		// (base 2^21 digits rune+1): the Lean side checks that its own mangling yields exactly this table and
		// that the table has no duplicates
		var mangled []string
		for _, p := range prefixes {
			for _, f := range flags {
				n := new(big.Int)
				for _, r := range strings.ToUpper(p + strings.Replace(f.name, ".", "_", -1)) {
					n.Lsh(n, 21)
					n.Add(n, big.NewInt(int64(r)+1))
				}
				mangled = append(mangled, n.String())
			}
		}
		x.defRaw("def mangledCodes : List Nat := [\n  " + strings.Join(mangled, ",\n  ") + "]")
		// load is called with that variable
		passes := false
		for _, c := range x.calls(Load.Body, "load") {
			if len(c.Args) == 4 && x.src(c.Args[2]) == "envprefix" && x.src(c.Args[1]) == "environ" {
				passes = true
			}
		}
		x.defBool("loadReceivesEnvironAndPrefixes", passes)

		// ---- ParseFlags: order of the blocks
		type ev struct {
			pos  token.Pos
			what string
		}
		var evs []ev
		add := func(p token.Pos, w string) { evs = append(evs, ev{p, w}) }
		recv := "f"
		if pf.Recv != nil && len(pf.Recv.List) == 1 && len(pf.Recv.List[0].Names) == 1 {
			recv = pf.Recv.List[0].Names[0].Name
		}
		var visitAll *ast.FuncLit
		envGuarded, envKeyUpper := false, false
		ast.Inspect(pf.Body, func(n ast.Node) bool {
			switch v := n.(type) {
			case *ast.CallExpr:
				switch x.src(v.Fun) {
				case recv + ".Parse":
					add(v.Pos(), "cmdline")
				case recv + ".Visit":
					add(v.Pos(), "mark-cmdline-set")
				case recv + ".VisitAll":
					if len(v.Args) == 1 {
						if fl, ok := v.Args[0].(*ast.FuncLit); ok {
							visitAll = fl
						}
					}
				}
			case *ast.RangeStmt:
				if x.src(v.X) == "environ" {
					add(v.Pos(), "env-map")
					// guard before p[1]
					var guard, idx token.Pos
					ast.Inspect(v.Body, func(m ast.Node) bool {
						switch w := m.(type) {
						case *ast.IfStmt:
							if strings.Contains(x.src(w.Cond), "len(") && guard == 0 {
								guard = w.Pos()
							}
						case *ast.IndexExpr:
							if x.src(w.Index) == "1" && idx == 0 {
								idx = w.Pos()
							}
						case *ast.AssignStmt:
							if len(w.Lhs) == 1 {
								if ie, ok := w.Lhs[0].(*ast.IndexExpr); ok && strings.HasPrefix(x.src(ie.Index), "strings.ToUpper(") {
									envKeyUpper = true
								}
							}
						}
						return true
					})
					envGuarded = idx == 0 || (guard != 0 && guard < idx)
				}
			}
			return true
		})
		envUpper, envDots := false, false
		if visitAll == nil {
			x.fail("FlagSet.ParseFlags: no %s.VisitAll(func…) found", recv)
		} else {
			ast.Inspect(visitAll.Body, func(n ast.Node) bool {
				switch v := n.(type) {
				case *ast.IfStmt:
					if strings.Contains(x.src(v.Cond), recv+".set[") && len(v.Body.List) == 1 {
						if _, ok := v.Body.List[0].(*ast.ReturnStmt); ok {
							add(v.Pos(), "skip-if-set")
						}
					}
				case *ast.RangeStmt:
					if x.src(v.X) == "prefixes" {
						add(v.Pos(), "env")
						ast.Inspect(v.Body, func(m ast.Node) bool {
							if c, ok := m.(*ast.CallExpr); ok {
								s := x.src(c)
								if strings.HasPrefix(s, "strings.ToUpper(") && strings.Contains(s, "pfx") {
									envUpper = true
									if strings.Contains(s, `strings.Replace(fl.Name, ".", "_", -1)`) || strings.Contains(s, `strings.ReplaceAll(fl.Name, ".", "_")`) {
										envDots = true
									}
								}
							}
							return true
						})
					}
				case *ast.CallExpr:
					if x.src(v.Fun) == "p.Get" {
						add(v.Pos(), "props")
					}
				}
				return true
			})
		}
		sort.Slice(evs, func(i, j int) bool { return evs[i].pos < evs[j].pos })
		var order []string
		for _, e := range evs {
			order = append(order, e.what)
		}
		x.defStrList("parseOrder", order)
		x.defBool("envEntryWithoutEqGuarded", envGuarded)
		x.defBool("envKeyUpperCased", envKeyUpper)
		x.defBool("envNameUpperCased", envUpper)
		x.defBool("envNameDotsReplaced", envDots)

		// ---- validations in load
		enum := func(field string) []string {
			var vals []string
			ast.Inspect(load.Body, func(n ast.Node) bool {
				is, ok := n.(*ast.IfStmt)
				if !ok || !strings.Contains(x.src(is.Cond), field+" != ") {
					return true
				}
				ast.Inspect(is.Cond, func(m ast.Node) bool {
					if b, ok := m.(*ast.BinaryExpr); ok && b.Op == token.NEQ && x.src(b.X) == field {
						if s, ok := x.strLit(b.Y); ok {
							vals = append(vals, s)
						}
					}
					return true
				})
				return false
			})
			if len(vals) == 0 {
				x.fail("config.load: validation of %s not found", field)
			}
			return vals
		}
		x.defStrList("strategyValues", enum("cfg.Proxy.Strategy"))
		x.defStrList("matcherValues", enum("cfg.Proxy.Matcher"))
		x.defStrList("uiAccessValues", enum("cfg.UI.Access"))
		glob := ""
		ast.Inspect(load.Body, func(n ast.Node) bool {
			is, ok := n.(*ast.IfStmt)
			if !ok || !strings.Contains(x.src(is.Cond), "cfg.GlobCacheSize") {
				return true
			}
			for _, st := range is.Body.List {
				if r, ok := st.(*ast.ReturnStmt); ok && len(r.Results) == 2 && x.src(r.Results[0]) == "nil" {
					glob = x.src(is.Cond)
				}
			}
			return true
		})
		x.defStr("globCacheSizeRejectedWhen", glob)
		// the glob cache is built from exactly that field
		uses := 0
		for _, f := range x.files(".") {
			ast.Inspect(f, func(n ast.Node) bool {
				if c, ok := n.(*ast.CallExpr); ok && x.src(c.Fun) == "route.NewGlobCache" {
					if len(c.Args) == 1 && x.src(c.Args[0]) == "cfg.GlobCacheSize" {
						uses++
					} else {
						x.fail("route.NewGlobCache called with %s", x.src(c))
					}
				}
				return true
			})
		}
		x.defNat("globCacheBuiltFromConfig", uint64(uses))
		c15EmitIndexGuards(x)
		return nil
	})
}
