package main

import (
	"fmt"
	"go/ast"
	"go/token"
	"math/big"
	"sort"
	"strings"
)

// C15 facts: the flag table registered in config.load, the environment prefixes of config.Load, the order
// of the three blocks of FlagSet.ParseFlags, how the environment name is built, which options are kvslice
// valued, and the post-parse validations the model relies on.

type c15Flag struct {
	name, kind string
	dflt      string
	hasDflt   bool
	target    string // rendered first argument ("&cfg.Proxy.MaxConn") or "" for f.String/f.Bool
}

// registration methods of *FlagSet / flag.FlagSet the extractor understands: method -> (kind, has target arg)
var c15Reg = map[string]struct {
	kind   string
	target bool
}{
	"BoolVar":        {"bool", true},
	"IntVar":         {"int", true},
	"UintVar":        {"uint", true},
	"StringVar":      {"string", true},
	"DurationVar":    {"duration", true},
	"Float64Var":     {"float", true},
	"StringSliceVar": {"stringslice", true},
	"FloatSliceVar":  {"floatslice", true},
	"String":         {"string", false},
	"Bool":           {"bool", false},
}

// methods called on the flag set inside load that are not registrations
var c15NonReg = map[string]bool{"ParseFlags": true, "IsSet": true}

func leanChars(s string) string {
	var parts []string
	for _, r := range s {
		switch {
		case r == '\'':
			parts = append(parts, `'\''`)
		case r == '\\':
			parts = append(parts, `'\\'`)
		case r < 0x20 || r == 0x7f:
			parts = append(parts, fmt.Sprintf(`'\x%02x'`, r))
		default:
			parts = append(parts, "'"+string(r)+"'")
		}
	}
	return "[" + strings.Join(parts, ",") + "]"
}

// ---- helpers that identify things by role -----------------------------------------------------------------

// c15Callees returns the same-package functions (with a body) reachable from the roots through calls, in a
// deterministic order.  Function names are not part of any fact; reachability is what ties a helper to load.
func c15Reachable(x *X, dir string, roots ...*ast.FuncDecl) []*ast.FuncDecl {
	var out []*ast.FuncDecl
	seen := map[*ast.FuncDecl]bool{}
	var visit func(fd *ast.FuncDecl, depth int)
	visit = func(fd *ast.FuncDecl, depth int) {
		if fd == nil || fd.Body == nil || seen[fd] || depth > 6 {
			return
		}
		seen[fd] = true
		out = append(out, fd)
		ast.Inspect(fd.Body, func(n ast.Node) bool {
			if c, ok := n.(*ast.CallExpr); ok {
				name := ""
				switch f := c.Fun.(type) {
				case *ast.Ident:
					name = f.Name
				case *ast.SelectorExpr:
					name = f.Sel.Name
				}
				if name != "" {
					if callee := x.anyFuncDecl(dir, name); callee != nil {
						visit(callee, depth+1)
					}
				}
			}
			return true
		})
	}
	for _, r := range roots {
		visit(r, 0)
	}
	return out
}

// c15Calls says whether fd (transitively, same package) calls a function named target.
func c15CallsInto(x *X, dir string, fd *ast.FuncDecl, target string) bool {
	for _, g := range c15Reachable(x, dir, fd) {
		if g.Name.Name == target {
			return true
		}
	}
	return false
}

func c15ParamNames(fd *ast.FuncDecl) []string {
	var ps []string
	if fd.Type.Params != nil {
		for _, p := range fd.Type.Params.List {
			for _, n := range p.Names {
				ps = append(ps, n.Name)
			}
		}
	}
	return ps
}

func c15RecvName(fd *ast.FuncDecl) string {
	if fd.Recv != nil && len(fd.Recv.List) == 1 && len(fd.Recv.List[0].Names) == 1 {
		return fd.Recv.List[0].Names[0].Name
	}
	return ""
}

// last field name of a selector chain (cfg.Proxy.Strategy -> "Proxy.Strategy"): the variable's spelling is dropped
func c15FieldPath(e ast.Expr) string {
	var parts []string
	for {
		se, ok := e.(*ast.SelectorExpr)
		if !ok {
			break
		}
		parts = append([]string{se.Sel.Name}, parts...)
		e = se.X
	}
	if _, ok := e.(*ast.Ident); !ok || len(parts) == 0 {
		return ""
	}
	return strings.Join(parts, ".")
}

func c15IsCallTo(x *X, e ast.Expr, fn string) *ast.CallExpr {
	if c, ok := e.(*ast.CallExpr); ok && x.src(c.Fun) == fn {
		return c
	}
	return nil
}

func c15ContainsIdent(n ast.Node, name string) bool {
	found := false
	ast.Inspect(n, func(m ast.Node) bool {
		if id, ok := m.(*ast.Ident); ok && id.Name == name {
			found = true
		}
		return !found
	})
	return found
}

func init() {
	register("C15", func(x *X) error {
		x.UseNormalizedAST()
		load := x.funcDecl("config", "", "load")
		Load := x.funcDecl("config", "", "Load")
		pf := x.funcDecl("config", "FlagSet", "ParseFlags")
		if load == nil || Load == nil || pf == nil {
			return nil
		}

		// ---- registrations: calls of a known registration method on the flag set, wherever load (or a helper
		// it calls with the flag set) makes them.  The flag set is "the variable assigned from NewFlagSet(…)" and
		// every helper parameter it is passed to.
		type fsScope struct {
			fd   *ast.FuncDecl
			name string
		}
		var flags []c15Flag
		seen := map[string]bool{}
		visited := map[*ast.FuncDecl]bool{}
		kvVars := map[string]bool{} // "&local" handed to a kvslice-based parser
		var scan func(fd *ast.FuncDecl, fsVar string, depth int)
		scan = func(fd *ast.FuncDecl, fsVar string, depth int) {
			if fd == nil || fd.Body == nil || visited[fd] || depth > 4 {
				return
			}
			visited[fd] = true
			ast.Inspect(fd.Body, func(n ast.Node) bool {
				switch v := n.(type) {
				case *ast.AssignStmt:
					if len(v.Lhs) == 1 && len(v.Rhs) == 1 && c15IsCallTo(x, v.Rhs[0], "NewFlagSet") != nil {
						if id, ok := v.Lhs[0].(*ast.Ident); ok {
							fsVar = id.Name
						}
					}
				case *ast.CallExpr:
					// helper that receives the flag set
					if id, ok := v.Fun.(*ast.Ident); ok && fsVar != "" {
						if callee := x.anyFuncDecl("config", id.Name); callee != nil {
							ps := c15ParamNames(callee)
							for i, a := range v.Args {
								if aid, ok := a.(*ast.Ident); ok && aid.Name == fsVar && i < len(ps) {
									scan(callee, ps[i], depth+1)
								}
							}
						}
					}
					// kvslice-based parser: an unexported function from which parseKVSlice is reachable
					if id, ok := v.Fun.(*ast.Ident); ok && len(v.Args) > 0 {
						if callee := x.anyFuncDecl("config", id.Name); callee != nil && c15CallsInto(x, "config", callee, "parseKVSlice") {
							if a, ok := v.Args[0].(*ast.Ident); ok {
								kvVars["&"+a.Name] = true
							}
						}
					}
					sel, ok := v.Fun.(*ast.SelectorExpr)
					if !ok || fsVar == "" {
						return true
					}
					id, ok := sel.X.(*ast.Ident)
					if !ok || id.Name != fsVar {
						return true
					}
					m := sel.Sel.Name
					if c15NonReg[m] {
						return true
					}
					reg, known := c15Reg[m]
					if !known {
						x.fail("config.load: unknown registration form <flagset>.%s(...) at %s — teach tools/factgen/c15.go about it", m, x.fset.Position(v.Pos()))
						return true
					}
					args := v.Args
					fl := c15Flag{kind: reg.kind}
					if reg.target {
						if len(args) != 4 {
							x.fail("config.load: <flagset>.%s with %d arguments at %s", m, len(args), x.fset.Position(v.Pos()))
							return true
						}
						fl.target = x.src(args[0])
						args = args[1:]
					} else if len(args) != 3 {
						x.fail("config.load: <flagset>.%s with %d arguments at %s", m, len(args), x.fset.Position(v.Pos()))
						return true
					}
					name, ok := x.strLit(args[0])
					if !ok {
						x.fail("config.load: flag name is not a string literal: %s at %s", x.src(args[0]), x.fset.Position(v.Pos()))
						return true
					}
					fl.name = name
					switch d := args[1].(type) {
					case *ast.BasicLit:
						if s, ok := x.strLit(d); ok {
							fl.dflt, fl.hasDflt = s, true
						} else {
							fl.dflt, fl.hasDflt = d.Value, true
						}
					case *ast.Ident:
						if d.Name == "true" || d.Name == "false" {
							fl.dflt, fl.hasDflt = d.Name, true
						}
					}
					if seen[name] {
						x.fail("config.load: flag %q registered twice", name)
					}
					seen[name] = true
					flags = append(flags, fl)
				}
				return true
			})
		}
		scan(load, "", 0)
		if len(flags) == 0 {
			x.fail("config.load: no flag registrations found (no `<var> := NewFlagSet(...)` or no known registration calls)")
			return nil
		}
		var kvFlags []string
		for i := range flags {
			if kvVars[flags[i].target] {
				if flags[i].kind != "string" {
					x.fail("kvslice option %s is not a string flag", flags[i].name)
				}
				flags[i].kind = "kvslice"
				kvFlags = append(kvFlags, flags[i].name)
			}
		}
		sort.Strings(kvFlags)

		sort.Slice(flags, func(i, j int) bool { return flags[i].name < flags[j].name })
		var rows []string
		for _, f := range flags {
			d := "none"
			if f.hasDflt {
				d = "some " + leanStr(f.dflt)
			}
			rows = append(rows, fmt.Sprintf("(%s, %s, %s)", leanChars(f.name), leanStr(f.kind), d))
		}
		x.defRaw("/-- (name as a rune list, kind, literal default) of every flag registered in `config.load`, sorted by name -/\ndef flagTable : List (List Char × String × Option String) := [\n  " + strings.Join(rows, ",\n  ") + "]")
		x.defRaw("def flagNames : List (List Char) := flagTable.map (·.1)")
		x.defStrList("kvsliceFlags", kvFlags)

		// ---- prefixes: the third argument of the call Load makes to load; environ: Load's own second parameter
		var prefixes []string
		foundPfx, passes := false, false
		LoadParams := c15ParamNames(Load)
		prefixLit := func(e ast.Expr) bool {
			cl, ok := e.(*ast.CompositeLit)
			if !ok {
				return false
			}
			prefixes = nil
			for _, el := range cl.Elts {
				s, ok := x.strLit(el)
				if !ok {
					x.fail("config.Load: environment prefix is not a string literal: %s", x.src(el))
				}
				prefixes = append(prefixes, s)
			}
			return true
		}
		for _, c := range x.calls(Load.Body, "load") {
			if len(c.Args) != 4 {
				continue
			}
			if id, ok := c.Args[1].(*ast.Ident); ok && len(LoadParams) >= 2 && id.Name == LoadParams[1] {
				passes = true
			}
			if prefixLit(c.Args[2]) {
				foundPfx = true
			} else if id, ok := c.Args[2].(*ast.Ident); ok {
				ast.Inspect(Load.Body, func(n ast.Node) bool {
					if as, ok := n.(*ast.AssignStmt); ok && len(as.Lhs) == 1 && len(as.Rhs) == 1 {
						if l, ok := as.Lhs[0].(*ast.Ident); ok && l.Name == id.Name && prefixLit(as.Rhs[0]) {
							foundPfx = true
						}
					}
					if vs, ok := n.(*ast.ValueSpec); ok && len(vs.Names) == 1 && len(vs.Values) == 1 && vs.Names[0].Name == id.Name && prefixLit(vs.Values[0]) {
						foundPfx = true
					}
					return true
				})
			}
		}
		if !foundPfx {
			x.fail("config.Load: the prefix list passed to load(…) is not a literal []string")
		}
		x.defStrList("prefixStrings", prefixes)
		var pcs []string
		for _, p := range prefixes {
			pcs = append(pcs, leanChars(p))
		}
		x.defRaw("def prefixes : List (List Char) := [" + strings.Join(pcs, ", ") + "]")
		// the environment-variable names as Go computes them, prefix-major, each packed into one number
		// (base 2^21 digits rune+1): the Lean side checks that its own mangling yields exactly this table and
		// that the table has no duplicates
		var mangled []string
		for _, p := range prefixes {
			for _, f := range flags {
				n := new(big.Int)
				for _, r := range strings.ToUpper(p + strings.Replace(f.name, ".", "_", -1)) {
					n.Lsh(n, 21)
					n.Add(n, big.NewInt(int64(r)+1))
				}
				mangled = append(mangled, n.String())
			}
		}
		x.defRaw("def mangledCodes : List Nat := [\n  " + strings.Join(mangled, ",\n  ") + "]")
		x.defBool("loadReceivesEnvironAndPrefixes", passes)

		// ---- ParseFlags: ordered events (helpers followed), identified by callee names and roles
		recv := c15RecvName(pf)
		pfParams := c15ParamNames(pf)
		propsParam := ""
		if len(pfParams) >= 4 {
			propsParam = pfParams[3]
		}
		var order []string
		once := map[string]bool{}
		add := func(w string) {
			if !once[w] {
				once[w] = true
				order = append(order, w)
			}
		}
		envKeyUpper, envUpper, envDots := false, false, false
		inVisitAll := map[ast.Node]bool{}
		x.WalkInlined("config", pf, func(n ast.Node) bool {
			switch v := n.(type) {
			case *ast.CallExpr:
				if sel, ok := v.Fun.(*ast.SelectorExpr); ok {
					if id, ok := sel.X.(*ast.Ident); ok && id.Name == recv && recv != "" {
						switch sel.Sel.Name {
						case "Parse":
							add("cmdline")
						case "Visit":
							add("mark-cmdline-set")
						case "VisitAll":
							if len(v.Args) == 1 {
								if fl, ok := v.Args[0].(*ast.FuncLit); ok {
									ast.Inspect(fl.Body, func(m ast.Node) bool {
										if m != nil {
											inVisitAll[m] = true
										}
										return true
									})
								}
							}
						}
					}
					if id, ok := sel.X.(*ast.Ident); ok && sel.Sel.Name == "Get" && id.Name == propsParam && inVisitAll[n] {
						add("props")
					}
				}
				// strings.SplitN(entry, "=", 2): the environment block is being split into a map
				if x.src(v.Fun) == "strings.SplitN" && len(v.Args) == 3 {
					if s, ok := x.strLit(v.Args[1]); ok && s == "=" && x.src(v.Args[2]) == "2" {
						add("env-map")
					}
				}
			case *ast.AssignStmt:
				// m[strings.ToUpper(parts[0])] = parts[1]
				if len(v.Lhs) == 1 && len(v.Rhs) == 1 {
					if ie, ok := v.Lhs[0].(*ast.IndexExpr); ok {
						if c := c15IsCallTo(x, ie.Index, "strings.ToUpper"); c != nil && len(c.Args) == 1 {
							k, okk := c.Args[0].(*ast.IndexExpr)
							r, okr := v.Rhs[0].(*ast.IndexExpr)
							if okk && okr && x.src(k.X) == x.src(r.X) && x.src(k.Index) == "0" && x.src(r.Index) == "1" {
								envKeyUpper = true
							}
						}
					}
				}
			case *ast.IfStmt:
				// if <recv>.<field>[…] { return }   inside the VisitAll callback
				if inVisitAll[n] && len(v.Body.List) == 1 {
					if _, ok := v.Body.List[0].(*ast.ReturnStmt); ok {
						if ie, ok := v.Cond.(*ast.IndexExpr); ok {
							if se, ok := ie.X.(*ast.SelectorExpr); ok {
								if id, ok := se.X.(*ast.Ident); ok && id.Name == recv {
									add("skip-if-set")
								}
							}
						}
					}
				}
			case *ast.RangeStmt:
				// for _, pfx := range <prefixes>: the loop whose body upper-cases prefix + mangled flag name
				if inVisitAll[n] {
					val, _ := v.Value.(*ast.Ident)
					ast.Inspect(v.Body, func(m ast.Node) bool {
						c, ok := m.(*ast.CallExpr)
						if !ok || x.src(c.Fun) != "strings.ToUpper" || val == nil || !c15ContainsIdent(c, val.Name) {
							return true
						}
						add("env")
						envUpper = true
						ast.Inspect(c, func(k ast.Node) bool {
							r, ok := k.(*ast.CallExpr)
							if !ok {
								return true
							}
							fn := x.src(r.Fun)
							okArgs := (fn == "strings.Replace" && len(r.Args) == 4 && x.src(r.Args[3]) == "-1") || (fn == "strings.ReplaceAll" && len(r.Args) == 3)
							if okArgs && c15FieldPath(r.Args[0]) == "Name" {
								a, ok1 := x.strLit(r.Args[1])
								b, ok2 := x.strLit(r.Args[2])
								if ok1 && ok2 && a == "." && b == "_" {
									envDots = true
								}
							}
							return true
						})
						return true
					})
				}
			}
			return true
		})
		x.defStrList("parseOrder", order)
		x.defBool("envKeyUpperCased", envKeyUpper)
		x.defBool("envNameUpperCased", envUpper)
		x.defBool("envNameDotsReplaced", envDots)

		// ---- validations in load (and the helpers it calls): identified by the Config field they test
		reach := c15Reachable(x, "config", load)
		enum := func(field string) []string {
			var vals []string
			have := map[string]bool{}
			for _, fd := range reach {
				ast.Inspect(fd.Body, func(n ast.Node) bool {
					is, ok := n.(*ast.IfStmt)
					if !ok {
						return true
					}
					ast.Inspect(is.Cond, func(m ast.Node) bool {
						if b, ok := m.(*ast.BinaryExpr); ok && (b.Op == token.NEQ || b.Op == token.EQL) {
							lit, other := b.Y, b.X
							if _, isLit := x.strLit(b.X); isLit {
								lit, other = b.X, b.Y
							}
							if c15FieldPath(other) == field {
								if s, ok := x.strLit(lit); ok && !have[s] {
									have[s] = true
									vals = append(vals, s)
								}
							}
						}
						return true
					})
					return true
				})
			}
			if len(vals) == 0 {
				x.fail("config.load: validation of %s not found", field)
			}
			sort.Strings(vals)
			return vals
		}
		x.defStrList("strategyValues", enum("Proxy.Strategy"))
		x.defStrList("matcherValues", enum("Proxy.Matcher"))
		x.defStrList("uiAccessValues", enum("UI.Access"))
		// glob.cache.size: an unconditional `if <cfg>.GlobCacheSize <= 0 { return nil, err }` (or `< 1`, or the
		// mirrored forms) at the top level of a function on load's path
		globRejected := false
		for _, fd := range reach {
			for _, st := range fd.Body.List {
				is, ok := st.(*ast.IfStmt)
				if !ok {
					continue
				}
				b, ok := is.Cond.(*ast.BinaryExpr)
				if !ok {
					continue
				}
				form := ""
				switch {
				case c15FieldPath(b.X) == "GlobCacheSize":
					form = b.Op.String() + " " + x.src(b.Y)
				case c15FieldPath(b.Y) == "GlobCacheSize":
					form = map[token.Token]string{token.GEQ: "<=", token.GTR: "<"}[b.Op] + " " + x.src(b.X)
				}
				if form != "<= 0" && form != "< 1" {
					continue
				}
				for _, s := range is.Body.List {
					if r, ok := s.(*ast.ReturnStmt); ok && len(r.Results) == 2 && x.src(r.Results[0]) == "nil" && x.src(r.Results[1]) != "nil" {
						globRejected = true
					}
				}
			}
		}
		x.defBool("globCacheSizeBelowOneRejected", globRejected)
		// the glob cache is built from exactly that field
		uses := 0
		for _, f := range x.files(".") {
			ast.Inspect(f, func(n ast.Node) bool {
				if c, ok := n.(*ast.CallExpr); ok && x.src(c.Fun) == "route.NewGlobCache" {
					if len(c.Args) == 1 && c15FieldPath(c.Args[0]) == "GlobCacheSize" {
						uses++
					} else {
						x.fail("route.NewGlobCache called with %s", x.src(c))
					}
				}
				return true
			})
		}
		x.defNat("globCacheBuiltFromConfig", uint64(uses))
		c15EmitIndexGuards(x, append(c15Reachable(x, "config", Load), c15Reachable(x, "config", pf)...))
		c15EmitListenFacts(x)
		return nil
	})
}
