package main

import (
	"go/ast"
	"go/token"
	"regexp"
	"sort"
	"strings"
)

// C14 — facts the model of routecmd.build / parseURLPrefixTag / makeConfig silently depends on, stated over
// the NORMALISED source (constants inlined, literal concatenations folded, switch = if-chain) and over the
// INLINED walk from ServiceMonitor.makeConfig (serviceConfig, build and every unexported helper they call are
// followed), with every local variable, parameter and receiver printed as `_`. What is pinned is meaning —
// which library calls are made with which literal arguments, which conditions guard, which literals make up the
// line, the order "parse, compare, table check, then emit", what the monitor reads — not the spelling of
// statements, the names of locals or unexported helpers, or the file/function a statement lives in.
func init() {
	register("C14", func(x *X) error {
		x.UseNormalizedAST()
		const dir = "registry/consul"

		// ---- printing with anonymised locals --------------------------------------------------------------
		// every identifier the parser resolved to a variable (receiver, parameter, local, range variable) is
		// printed as `_`; function literals are printed as `func`
		anon := func(n ast.Node) string {
			saved := map[*ast.Ident]string{}
			ast.Inspect(n, func(m ast.Node) bool {
				switch v := m.(type) {
				case *ast.SelectorExpr:
					// rename only the root of a selector chain, never the selected name
					ast.Inspect(v.X, func(k ast.Node) bool {
						if id, ok := k.(*ast.Ident); ok && id.Obj != nil && id.Obj.Kind == ast.Var {
							if _, done := saved[id]; !done {
								saved[id] = id.Name
								id.Name = "_"
							}
						}
						return true
					})
					return true
				case *ast.Ident:
					if v.Obj != nil && v.Obj.Kind == ast.Var {
						if _, done := saved[v]; !done {
							saved[v] = v.Name
							v.Name = "_"
						}
					}
				}
				return true
			})
			s := x.src(n)
			for id, old := range saved {
				id.Name = old
			}
			return s
		}
		reFuncLit := regexp.MustCompile(`func\(.*\) .*\{.*\}`)
		reSliceFrom := regexp.MustCompile(`(\w+)\[len\(("[^"]*")\):\]`)
		reUnexpSel := regexp.MustCompile(`\b_\.[a-z]\w*`)
		canon := func(s string) string {
			s = reFuncLit.ReplaceAllString(s, "func")
			// o[len("weight="):] and strings.TrimPrefix(o, "weight=") (under a HasPrefix guard) are the same
			s = reSliceFrom.ReplaceAllString(s, "strings.TrimPrefix($1, $2)")
			// a field or method with an unexported name, selected from a variable: the name is not pinned
			s = reUnexpSel.ReplaceAllString(s, "_")
			return s
		}
		// conditions without polarity: `!c` = c, `a != b` = `a == b`, `len(x) > 0` = `len(x) != 0` = `len(x) == 0`
		// (whether a branch is taken on the condition or on its negation is behaviour — the streams' business)
		reLenPos := regexp.MustCompile(`len\(([^()]*)\) (>|!=) 0`)
		condCanon := func(e ast.Expr) string {
			for {
				if p, ok := e.(*ast.ParenExpr); ok {
					e = p.X
					continue
				}
				if u, ok := e.(*ast.UnaryExpr); ok && u.Op == token.NOT {
					e = u.X
					continue
				}
				break
			}
			s := canon(anon(e))
			s = reLenPos.ReplaceAllString(s, "len($1) == 0")
			if b, ok := e.(*ast.BinaryExpr); ok && b.Op == token.NEQ {
				s = canon(anon(b.X)) + " == " + canon(anon(b.Y))
			}
			return s
		}

		root := x.funcDecl(dir, "ServiceMonitor", "makeConfig")
		build := x.funcDecl(dir, "routecmd", "build")
		if root == nil || build == nil {
			return nil
		}

		// the last statement of an if-body that leaves the iteration/function: "exit"
		exits := map[ast.Node]bool{}
		for _, f := range x.files(dir) {
			ast.Inspect(f, func(n ast.Node) bool {
				if is, ok := n.(*ast.IfStmt); ok && len(is.Body.List) > 0 {
					switch last := is.Body.List[len(is.Body.List)-1].(type) {
					case *ast.ReturnStmt:
						exits[last] = true
					case *ast.BranchStmt:
						if last.Tok == token.CONTINUE || last.Tok == token.BREAK {
							exits[last] = true
						}
					}
				}
				return true
			})
		}
		// the variable build returns: an append to it is an "emit"
		resultVar := ""
		if n := len(build.Body.List); n > 0 {
			if r, ok := build.Body.List[n-1].(*ast.ReturnStmt); ok && len(r.Results) == 1 {
				if id, ok := r.Results[0].(*ast.Ident); ok {
					resultVar = id.Name
				}
			}
		}
		if resultVar == "" {
			x.fail("routecmd.build: does not end in `return <variable>`")
		}

		interesting := func(callee string) bool {
			for _, p := range []string{"strings.", "strconv.", "net.", "os.Expand", "route.", "reflect.", "bytes.", "sort.", "fmt.Sprintf"} {
				if strings.HasPrefix(callee, p) {
					return true
				}
			}
			return false
		}
		message := func(callee string) bool {
			return strings.HasPrefix(callee, "log.") || callee == "fmt.Errorf" || callee == "errors.New"
		}
		entryFields := map[string]bool{}
		for _, f := range []string{"ID", "Node", "Address", "Datacenter", "TaggedAddresses", "NodeMeta", "ServiceID", "ServiceName", "ServiceAddress",
			"ServiceTaggedAddresses", "ServiceTags", "ServiceMeta", "ServicePort", "ServiceWeights", "ServiceEnableTagOverride", "ServiceProxy",
			"ServiceLocality", "CreateIndex", "ModifyIndex", "Checks", "Namespace", "Partition", "Status", "CheckID", "Notes", "Output"} {
			entryFields[f] = true
		}

		var calls, conds, effects, order []string
		lits := map[string]bool{}
		reads := map[string]bool{}
		var envKeys []string
		inMessage := map[ast.Node]bool{}
		inBuild := false
		walkFrom := func(fd *ast.FuncDecl, fromBuild bool) {
			x.WalkInlined(dir, fd, func(n ast.Node) bool {
				switch v := n.(type) {
				case *ast.CallExpr:
					callee := x.src(v.Fun)
					if message(callee) {
						for _, a := range v.Args {
							ast.Inspect(a, func(k ast.Node) bool {
								if k != nil {
									inMessage[k] = true
								}
								return true
							})
						}
					}
					if interesting(callee) {
						calls = append(calls, canon(anon(v)))
						if fromBuild && (callee == "strconv.ParseFloat" || callee == "route.Parse" || callee == "route.NewTable" || callee == "reflect.DeepEqual") {
							order = append(order, "call "+callee)
						}
					}
				case *ast.IfStmt:
					c := condCanon(v.Cond)
					conds = append(conds, c)
					// a branch selected by a literal: what it does first
					hasLit := false
					ast.Inspect(v.Cond, func(k ast.Node) bool {
						if bl, ok := k.(*ast.BasicLit); ok && bl.Kind == token.STRING {
							if s, ok := x.strLit(bl); ok && strings.Contains(s, "=") {
								hasLit = true
							}
						}
						return true
					})
					if hasLit && len(v.Body.List) > 0 {
						effects = append(effects, c+" => "+canon(anon(v.Body.List[0])))
					}
				case *ast.BasicLit:
					if v.Kind == token.STRING && !inMessage[n] {
						if s, ok := x.strLit(v); ok {
							lits[s] = true
						}
					}
				case *ast.SelectorExpr:
					if entryFields[v.Sel.Name] {
						if id, ok := v.X.(*ast.Ident); ok && id.Obj != nil && id.Obj.Kind == ast.Var {
							reads[v.Sel.Name] = true
						} else if _, ok := v.X.(*ast.SelectorExpr); ok {
							reads[v.Sel.Name] = true
						}
					}
				case *ast.CompositeLit:
					if x.src(v.Type) == "map[string]string" && len(v.Elts) > 0 {
						envKeys = append(envKeys, x.mapKeys(v)...)
					}
				case *ast.AssignStmt:
					if fromBuild && len(v.Rhs) == 1 {
						if c, ok := v.Rhs[0].(*ast.CallExpr); ok && x.src(c.Fun) == "append" && len(c.Args) > 0 && x.src(c.Args[0]) == resultVar {
							if len(v.Lhs) == 1 && x.src(v.Lhs[0]) == resultVar {
								order = append(order, "emit")
							}
						}
					}
				}
				if fromBuild && exits[n] {
					order = append(order, "exit")
				}
				return true
			})
		}
		_ = inBuild
		// calls, conditions, literals, reads: everything reachable from makeConfig
		walkFrom(root, false)
		// the order of validation and emission: within build (and whatever it calls)
		savedCalls, savedConds, savedEffects := calls, conds, effects
		walkFrom(build, true)
		calls, conds, effects = savedCalls, savedConds, savedEffects
		// drop the exits before the first validation call (tag syntax, redirect arity: not part of the validation)
		for len(order) > 0 && !strings.HasPrefix(order[0], "call ") {
			order = order[1:]
		}

		// sets, not multisets: repeating or sharing a call/condition is not a change of meaning
		calls, conds, effects = uniq(calls), uniq(conds), uniq(effects)
		x.defStrList("pipelineCalls", calls)
		// calls that write Go-quoted text (strconv.Quote…, a %q verb)
		quoting := []string{}
		for _, c := range calls {
			if strings.HasPrefix(c, "strconv.Quote") || strings.HasPrefix(c, "strconv.AppendQuote") || (strings.HasPrefix(c, "fmt.Sprintf") && strings.Contains(c, "%q")) {
				quoting = append(quoting, c)
			}
		}
		x.defStrList("goQuotingCalls", quoting)
		x.defStrList("pipelineConds", conds)
		x.defStrList("optionEffects", effects)
		var ls []string
		for s := range lits {
			ls = append(ls, s)
		}
		sort.Strings(ls)
		x.defStrList("pipelineLiterals", ls)
		x.defStrList("validationOrder", order)
		var rs []string
		for s := range reads {
			rs = append(rs, s)
		}
		sort.Strings(rs)
		x.defStrList("entryFieldsRead", rs)
		sort.Strings(envKeys)
		x.defStrList("envKeys", envKeys)

		// ---- parseURLPrefixTag: what it returns (the name is referenced by the hook file: a rename breaks the
		// harness build, which the check reports) ----------------------------------------------------------
		if pt := x.funcDecl(dir, "", "parseURLPrefixTag"); pt != nil {
			var rets []string
			ast.Inspect(pt, func(n ast.Node) bool {
				if _, ok := n.(*ast.FuncLit); ok {
					return false // the returns of the expand/mapping closures are not results of the function
				}
				if r, ok := n.(*ast.ReturnStmt); ok {
					rets = append(rets, canon(anon(r)))
				}
				return true
			})
			sort.Strings(rets)
			x.defStrList("parseTagReturns", rets)
		}

		// ---- no state between calls ------------------------------------------------------------------------
		// the TYPES of the monitor's fields (field names are unexported: not pinned), writes through a receiver,
		// package-level variables, and which of the monitor's fields (by type) the pipeline reads
		fieldType := map[string]string{}
		var monTypes, cmdTypes []string
		for _, f := range x.files(dir) {
			for _, d := range f.Decls {
				gd, ok := d.(*ast.GenDecl)
				if !ok || gd.Tok != token.TYPE {
					continue
				}
				for _, sp := range gd.Specs {
					ts := sp.(*ast.TypeSpec)
					st, ok := ts.Type.(*ast.StructType)
					if !ok || (ts.Name.Name != "ServiceMonitor" && ts.Name.Name != "routecmd") {
						continue
					}
					for _, fl := range st.Fields.List {
						k := len(fl.Names)
						if k == 0 {
							k = 1
						}
						for i := 0; i < k; i++ {
							if ts.Name.Name == "ServiceMonitor" {
								monTypes = append(monTypes, x.src(fl.Type))
								if i < len(fl.Names) {
									fieldType[fl.Names[i].Name] = x.src(fl.Type)
								}
							} else {
								cmdTypes = append(cmdTypes, x.src(fl.Type))
							}
						}
					}
				}
			}
		}
		if len(monTypes) == 0 {
			x.fail("%s: struct ServiceMonitor not found", dir)
		}
		sort.Strings(monTypes)
		sort.Strings(cmdTypes)
		x.defStrList("monitorFieldTypes", monTypes)
		x.defStrList("routecmdFieldTypes", cmdTypes)

		var recvWrites, pkgVars []string
		monReads := map[string]bool{}
		for _, f := range x.files(dir) {
			for _, d := range f.Decls {
				switch dd := d.(type) {
				case *ast.GenDecl:
					if dd.Tok == token.VAR {
						for _, sp := range dd.Specs {
							for _, n := range sp.(*ast.ValueSpec).Names {
								pkgVars = append(pkgVars, n.Name)
							}
						}
					}
				case *ast.FuncDecl:
					if dd.Recv == nil || len(dd.Recv.List) != 1 || len(dd.Recv.List[0].Names) != 1 || dd.Body == nil {
						continue
					}
					t := dd.Recv.List[0].Type
					if st, ok := t.(*ast.StarExpr); ok {
						t = st.X
					}
					id, ok := t.(*ast.Ident)
					if !ok || (id.Name != "ServiceMonitor" && id.Name != "routecmd") {
						continue
					}
					recv := dd.Recv.List[0].Names[0].Name
					rooted := func(e ast.Expr) bool {
						for {
							switch v := e.(type) {
							case *ast.SelectorExpr:
								e = v.X
							case *ast.IndexExpr:
								e = v.X
							case *ast.StarExpr:
								e = v.X
							case *ast.ParenExpr:
								e = v.X
							case *ast.Ident:
								return v.Name == recv
							default:
								return false
							}
						}
					}
					isWatch := id.Name == "ServiceMonitor" && ast.IsExported(dd.Name.Name)
					ast.Inspect(dd.Body, func(n ast.Node) bool {
						switch v := n.(type) {
						case *ast.AssignStmt:
							for _, l := range v.Lhs {
								if _, plain := l.(*ast.Ident); !plain && rooted(l) {
									recvWrites = append(recvWrites, id.Name+": "+canon(anon(v)))
								}
							}
						case *ast.IncDecStmt:
							if rooted(v.X) {
								recvWrites = append(recvWrites, id.Name+": "+canon(anon(v)))
							}
						case *ast.SelectorExpr:
							// recv.<field>.<Exported> or recv.<field>: the monitor's field by its type
							if id.Name != "ServiceMonitor" || isWatch {
								return true
							}
							if inner, ok := v.X.(*ast.SelectorExpr); ok {
								if r, ok := inner.X.(*ast.Ident); ok && r.Name == recv {
									if ft, ok := fieldType[inner.Sel.Name]; ok {
										monReads["("+ft+")."+v.Sel.Name] = true
										return false
									}
								}
							}
							if r, ok := v.X.(*ast.Ident); ok && r.Name == recv {
								if ft, ok := fieldType[v.Sel.Name]; ok {
									monReads["("+ft+")"] = true
								}
							}
						}
						return true
					})
				}
			}
		}
		sort.Strings(pkgVars)
		sort.Strings(recvWrites)
		x.defStrList("receiverWrites", recvWrites)
		x.defStrList("packageVars", pkgVars)
		var mr []string
		for s := range monReads {
			mr = append(mr, s)
		}
		sort.Strings(mr)
		x.defStrList("monitorReads", mr)

		// ---- makeConfig: one result per service ---------------------------------------------------------------
		// the goroutine started per service: what it does with channels, in order, and whether anything in it is
		// conditional or leaves early ("send" = channel send, "recv" = channel receive); the collector: a loop
		// (counting up to len(m), or ranging over m) that receives once per element of the very collection the
		// goroutines were started from.
		{
			var gev []string
			spawnedFrom, awaited := "", ""
			recvs := func(n ast.Node) int {
				k := 0
				ast.Inspect(n, func(m ast.Node) bool {
					if u, ok := m.(*ast.UnaryExpr); ok && u.Op == token.ARROW {
						k++
					}
					return true
				})
				return k
			}
			ast.Inspect(root.Body, func(n ast.Node) bool {
				switch v := n.(type) {
				case *ast.RangeStmt:
					if len(x.goStmts(v.Body)) > 0 {
						spawnedFrom = x.src(v.X)
					} else if recvs(v.Body) == 1 && v.Key == nil && v.Value == nil {
						// `for range m { … <-results … }`: one receive per element
						awaited = x.src(v.X)
					}
				case *ast.ForStmt:
					// `for i := 0; i < len(m); i++ { … <-results … }`: one receive per element
					if recvs(v.Body) == 1 && v.Cond != nil && len(x.goStmts(v.Body)) == 0 {
						if b, ok := v.Cond.(*ast.BinaryExpr); ok && b.Op == token.LSS {
							if c, ok := b.Y.(*ast.CallExpr); ok && x.src(c.Fun) == "len" && len(c.Args) == 1 {
								awaited = x.src(c.Args[0])
							}
						}
					}
				case *ast.GoStmt:
					fl, ok := v.Call.Fun.(*ast.FuncLit)
					if !ok {
						gev = append(gev, "go "+x.src(v.Call.Fun))
						return false
					}
					ast.Inspect(fl.Body, func(k ast.Node) bool {
						switch w := k.(type) {
						case *ast.SendStmt:
							gev = append(gev, "send")
						case *ast.UnaryExpr:
							if w.Op == token.ARROW {
								gev = append(gev, "recv")
							}
						case *ast.IfStmt, *ast.SwitchStmt, *ast.SelectStmt, *ast.ForStmt, *ast.RangeStmt:
							gev = append(gev, "branch")
						case *ast.ReturnStmt, *ast.BranchStmt:
							gev = append(gev, "exit")
						case *ast.DeferStmt:
							gev = append(gev, "defer")
						}
						return true
					})
					return false
				}
				return true
			})
			x.defStrList("makeConfigWorker", gev)
			x.defBool("collectorAwaitsEverySpawned", spawnedFrom != "" && spawnedFrom == awaited)
		}

		// ---- the consumer: main.watchBackend ----------------------------------------------------------------
		// the loop that hands the text to route.NewTable: in source order, the calls that carry the update
		// (route.ParseAliases, registry.Default.Register, route.NewTable, route.SetTable) and every statement that
		// can leave the iteration (continue / break / return / goto, conditional or not). What the conditions
		// say is not pinned; what matters is WHERE an iteration can end before route.SetTable.
		if wb := x.funcDecl(".", "", "watchBackend"); wb != nil {
			// events of a loop body, unexported helpers of package main followed (the update stage may live in a
			// helper: archived refactoring h6); a `return` inside a helper counts as a way out of the iteration
			eventsOf := func(body *ast.BlockStmt) []string {
				var ev []string
				x.WalkInlined(".", &ast.FuncDecl{Name: ast.NewIdent("watchBackend$loop"), Body: body}, func(n ast.Node) bool {
					switch v := n.(type) {
					case *ast.FuncLit:
						return false
					case *ast.CallExpr:
						switch callee := x.src(v.Fun); callee {
						case "route.ParseAliases", "registry.Default.Register", "route.NewTable", "route.SetTable":
							ev = append(ev, "call "+callee)
						}
					case *ast.BranchStmt:
						ev = append(ev, "exit")
					case *ast.ReturnStmt:
						ev = append(ev, "exit")
					}
					return true
				})
				return ev
			}
			var ev []string
			ast.Inspect(wb.Body, func(n ast.Node) bool {
				if f, ok := n.(*ast.ForStmt); ok {
					e := eventsOf(f.Body)
					for _, s := range e {
						if s == "call route.NewTable" {
							ev = e // innermost loop that reaches the call
							break
						}
					}
				}
				return true
			})
			if ev == nil {
				x.fail("main.watchBackend: no loop that reaches route.NewTable")
			}
			// what matters: from the alias reader to the installation of the table
			from, to := -1, -1
			for i, s := range ev {
				if s == "call route.ParseAliases" && from < 0 {
					from = i
				}
				if s == "call route.SetTable" {
					to = i
				}
			}
			stage := []string{}
			if from >= 0 && to >= from {
				stage = ev[from : to+1]
			}
			x.defStrList("watchLoopEvents", ev)
			x.defStrList("watchUpdateStage", stage)
		}
		return nil
	})
}

// goStmts returns the go statements below a node.
func (x *X) goStmts(n ast.Node) []*ast.GoStmt {
	var out []*ast.GoStmt
	ast.Inspect(n, func(k ast.Node) bool {
		if g, ok := k.(*ast.GoStmt); ok {
			out = append(out, g)
		}
		return true
	})
	return out
}

// uniq sorts and removes duplicates.
func uniq(l []string) []string {
	sort.Strings(l)
	out := []string{}
	for i, s := range l {
		if i == 0 || s != l[i-1] {
			out = append(out, s)
		}
	}
	return out
}
