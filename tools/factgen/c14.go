package main

import (
	"go/ast"
	"go/token"
	"sort"
)

// C14 — facts the model of routecmd.build / parseURLPrefixTag / makeConfig silently depends on: the literals of
// the option switch and of the emitted line, how tags and options are quoted, that every command passes
// fabio's own parser (and a routing table) before it is emitted, the tag partition, the address fallback, the
// calls of parseURLPrefixTag, and the join of makeConfig.
func init() {
	register("C14", func(x *X) error {
		const dir = "registry/consul"

		callSrcs := func(n ast.Node, fns ...string) []string {
			out := []string{}
			if n == nil {
				return out
			}
			for _, fn := range fns {
				for _, c := range x.calls(n, fn) {
					out = append(out, x.src(c))
				}
			}
			return out
		}
		literals := func(n ast.Node) []string {
			seen := map[string]bool{}
			ast.Inspect(n, func(m ast.Node) bool {
				if bl, ok := m.(*ast.BasicLit); ok && bl.Kind == token.STRING {
					if s, ok := x.strLit(bl); ok {
						seen[s] = true
					}
				}
				return true
			})
			out := []string{}
			for s := range seen {
				out = append(out, s)
			}
			sort.Strings(out)
			return out
		}

		// ---- routecmd.build ----------------------------------------------------------------------------
		build := x.funcDecl(dir, "routecmd", "build")
		if build != nil {
			x.defStrList("buildLiterals", literals(build))
			// the option switch: condition → statements, in source order
			var conds, bodies []string
			ast.Inspect(build, func(n ast.Node) bool {
				sw, ok := n.(*ast.SwitchStmt)
				if !ok || sw.Tag != nil || len(conds) > 0 {
					return true
				}
				for _, st := range sw.Body.List {
					cc := st.(*ast.CaseClause)
					if cc.List == nil {
						conds = append(conds, "default")
					} else {
						conds = append(conds, x.src(cc.List[0]))
					}
					b := ""
					if len(cc.Body) > 0 {
						b = x.src(cc.Body[0])
					}
					bodies = append(bodies, b)
				}
				return true
			})
			x.defStrList("optSwitchConds", conds)
			x.defStrList("optSwitchFirstStmt", bodies)
			x.defStrList("buildFieldsCalls", callSrcs(build, "strings.Fields"))
			x.defStrList("buildTrimCalls", callSrcs(build, "strings.TrimSpace"))
			x.defStrList("buildJoinCalls", callSrcs(build, "strings.Join", "net.JoinHostPort"))
			x.defStrList("buildSplitCalls", callSrcs(build, "strings.Split"))
			x.defNat("buildStrconvQuoteCalls", uint64(len(x.calls(build, "strconv.Quote"))))
			x.defNat("buildSprintfQ", uint64(countVerbQ(x, build)))
			// every if-condition of build, in source order (address fallback, darwin guard, clause guards)
			var ifs []string
			ast.Inspect(build, func(n ast.Node) bool {
				if is, ok := n.(*ast.IfStmt); ok {
					ifs = append(ifs, x.src(is.Cond))
				}
				return true
			})
			x.defStrList("buildIfConds", ifs)
			// the validation: the statement that appends to the result is preceded, in the same block, by an
			// `if err := <validator>(cfg, …); err != nil { …; continue }`
			validator, guarded := "", false
			ast.Inspect(build, func(n ast.Node) bool {
				blk, ok := n.(*ast.BlockStmt)
				if !ok {
					return true
				}
				for i, st := range blk.List {
					as, ok := st.(*ast.AssignStmt)
					if !ok || len(as.Rhs) != 1 || x.src(as.Rhs[0]) != "append(config, cfg)" {
						continue
					}
					for j := 0; j < i; j++ {
						is, ok := blk.List[j].(*ast.IfStmt)
						if !ok || is.Init == nil || x.src(is.Cond) != "err != nil" {
							continue
						}
						ia, ok := is.Init.(*ast.AssignStmt)
						if !ok || len(ia.Rhs) != 1 {
							continue
						}
						call, ok := ia.Rhs[0].(*ast.CallExpr)
						if !ok || len(call.Args) == 0 || x.src(call.Args[0]) != "cfg" {
							continue
						}
						endsInContinue := false
						if n := len(is.Body.List); n > 0 {
							if bs, ok := is.Body.List[n-1].(*ast.BranchStmt); ok && bs.Tok == token.CONTINUE {
								endsInContinue = true
							}
						}
						if endsInContinue {
							validator, guarded = x.src(call.Fun), true
						}
					}
				}
				return true
			})
			x.defBool("emitGuardedByValidator", guarded)
			x.defStr("validatorName", validator)
			if guarded {
				if vd := x.funcDecl(dir, "", validator); vd != nil {
					x.defStrList("validatorCalls", callSrcs(vd, "route.Parse", "route.NewTable", "reflect.DeepEqual", "strconv.ParseFloat"))
					x.defStrList("validatorLiterals", literals(vd))
				}
			} else {
				x.defStrList("validatorCalls", []string{})
				x.defStrList("validatorLiterals", []string{})
			}
		}

		// ---- parseURLPrefixTag -------------------------------------------------------------------------
		if pt := x.funcDecl(dir, "", "parseURLPrefixTag"); pt != nil {
			x.defStrList("parseTagCalls", callSrcs(pt, "strings.TrimSpace", "strings.HasPrefix", "strings.SplitN", "strings.Contains", "strings.ToLower", "os.Expand"))
			var rets []string
			ast.Inspect(pt, func(n ast.Node) bool {
				if _, ok := n.(*ast.FuncLit); ok {
					return false // the returns of the expand/mapping closures are not results of the function
				}
				if r, ok := n.(*ast.ReturnStmt); ok {
					rets = append(rets, x.src(r))
				}
				return true
			})
			x.defStrList("parseTagReturns", rets)
		}

		// ---- makeConfig / serviceConfig ----------------------------------------------------------------
		if mc := x.funcDecl(dir, "ServiceMonitor", "makeConfig"); mc != nil {
			x.defStrList("makeConfigJoin", callSrcs(mc, "sort.Sort", "strings.Join"))
		}
		if sc := x.funcDecl(dir, "ServiceMonitor", "serviceConfig"); sc != nil {
			var first string
			if len(sc.Body.List) > 0 {
				if is, ok := sc.Body.List[0].(*ast.IfStmt); ok {
					first = x.src(is.Cond)
				}
			}
			x.defStr("serviceConfigGuard", first)
			var envKeys []string
			ast.Inspect(sc, func(n ast.Node) bool {
				if cl, ok := n.(*ast.CompositeLit); ok && x.src(cl.Type) == "map[string]string" {
					envKeys = x.mapKeys(cl)
				}
				return true
			})
			x.defStrList("envKeys", envKeys)
			x.defStrList("serviceConfigBuildCalls", callSrcs(sc, "r.build"))
		}
		// ---- no state between calls: struct fields, writes through the receiver, what the methods read ------
		structFields := func(name string) []string {
			out := []string{}
			found := false
			for _, f := range x.files(dir) {
				for _, d := range f.Decls {
					gd, ok := d.(*ast.GenDecl)
					if !ok || gd.Tok != token.TYPE {
						continue
					}
					for _, sp := range gd.Specs {
						ts := sp.(*ast.TypeSpec)
						st, ok := ts.Type.(*ast.StructType)
						if !ok || ts.Name.Name != name {
							continue
						}
						found = true
						for _, fl := range st.Fields.List {
							if len(fl.Names) == 0 {
								out = append(out, "embedded "+x.src(fl.Type))
							}
							for _, n := range fl.Names {
								out = append(out, n.Name+" "+x.src(fl.Type))
							}
						}
					}
				}
			}
			if !found {
				x.fail("%s: struct %s not found", dir, name)
			}
			return out
		}
		x.defStrList("monitorFields", structFields("ServiceMonitor"))
		x.defStrList("routecmdFields", structFields("routecmd"))
		// methods of ServiceMonitor / routecmd, writes through their receivers, selectors read through them
		var monMethods, recvWrites, pkgVars []string
		reads := map[string][]string{}
		for _, f := range x.files(dir) {
			for _, d := range f.Decls {
				switch dd := d.(type) {
				case *ast.GenDecl:
					if dd.Tok == token.VAR {
						for _, sp := range dd.Specs {
							for _, n := range sp.(*ast.ValueSpec).Names {
								pkgVars = append(pkgVars, n.Name)
							}
						}
					}
				case *ast.FuncDecl:
					if dd.Recv == nil || len(dd.Recv.List) != 1 || len(dd.Recv.List[0].Names) != 1 || dd.Body == nil {
						continue
					}
					t := dd.Recv.List[0].Type
					if st, ok := t.(*ast.StarExpr); ok {
						t = st.X
					}
					id, ok := t.(*ast.Ident)
					if !ok || (id.Name != "ServiceMonitor" && id.Name != "routecmd") {
						continue
					}
					recv := dd.Recv.List[0].Names[0].Name
					if id.Name == "ServiceMonitor" {
						monMethods = append(monMethods, dd.Name.Name)
					}
					rooted := func(e ast.Expr) bool {
						for {
							switch v := e.(type) {
							case *ast.SelectorExpr:
								e = v.X
							case *ast.IndexExpr:
								e = v.X
							case *ast.StarExpr:
								e = v.X
							case *ast.ParenExpr:
								e = v.X
							case *ast.Ident:
								return v.Name == recv
							default:
								return false
							}
						}
					}
					seen := map[string]bool{}
					ast.Inspect(dd.Body, func(n ast.Node) bool {
						switch v := n.(type) {
						case *ast.AssignStmt:
							for _, l := range v.Lhs {
								if _, plain := l.(*ast.Ident); !plain && rooted(l) {
									recvWrites = append(recvWrites, id.Name+"."+dd.Name.Name+": "+x.src(v))
								}
							}
						case *ast.IncDecStmt:
							if rooted(v.X) {
								recvWrites = append(recvWrites, id.Name+"."+dd.Name.Name+": "+x.src(v))
							}
						case *ast.SelectorExpr:
							if rooted(v) {
								// the longest field path: w.config.TagPrefix, not also w.config
								seen[x.src(v)] = true
								return false
							}
						}
						return true
					})
					var rs []string
					for r := range seen {
						rs = append(rs, r)
					}
					sort.Strings(rs)
					reads[id.Name+"."+dd.Name.Name] = rs
				}
			}
		}
		sort.Strings(monMethods)
		sort.Strings(pkgVars)
		sort.Strings(recvWrites)
		x.defStrList("monitorMethods", monMethods)
		x.defStrList("receiverWrites", recvWrites)
		x.defStrList("packageVars", pkgVars)
		x.defStrList("makeConfigReads", reads["ServiceMonitor.makeConfig"])
		x.defStrList("serviceConfigReads", reads["ServiceMonitor.serviceConfig"])
		x.defStrList("buildReads", reads["routecmd.build"])
		return nil
	})
}

// countVerbQ counts fmt.Sprintf calls in n whose format contains %q.
func countVerbQ(x *X, n ast.Node) int {
	k := 0
	for _, c := range x.calls(n, "fmt.Sprintf") {
		if len(c.Args) > 0 {
			if s, ok := x.strLit(c.Args[0]); ok {
				for i := 0; i+1 < len(s); i++ {
					if s[i] == '%' && s[i+1] == 'q' {
						k++
					}
				}
			}
		}
	}
	return k
}
