package main

import (
	"encoding/hex"
	"errors"
)

// ---------------------------------------------------------------------------------------------------------
// abstract hello (stream c10.model) and an encoder written independently of the Lean `encode`
// ---------------------------------------------------------------------------------------------------------

type nameEntryJ struct {
	T    int    `json:"t"`
	Name string `json:"name"` // hex
}

type extJ struct {
	IsSNI bool         `json:"is_sni"`
	SNI   []nameEntryJ `json:"sni"`
	Typ   int          `json:"typ"`
	Body  string       `json:"body"` // hex
}

type helloJ struct {
	RecV    []int  `json:"recv"` // record-layer version, 2 bytes
	Vers    []int  `json:"vers"` // legacy_version, 2 bytes
	Random  string `json:"random"`
	Sid     string `json:"sid"`
	Ciphers string `json:"ciphers"` // hex, 2 bytes per suite (an odd tail byte is dropped)
	Comp    string `json:"comp"`
	HasExts bool   `json:"has_exts"`
	Exts    []extJ `json:"exts"`
	// raw bytes behind the last extension, inside the extension block (mutator only: never part of a case input)
	ExtTail []byte `json:"-"`
}

func b2(v []int, i int) byte {
	if i < len(v) {
		return byte(v[i])
	}
	return 0
}

// builder with back-patched length prefixes
type wbuf struct{ b []byte }

func (w *wbuf) u8(v int)       { w.b = append(w.b, byte(v)) }
func (w *wbuf) raw(p []byte)   { w.b = append(w.b, p...) }
func (w *wbuf) prefixed(width int, f func()) {
	at := len(w.b)
	for i := 0; i < width; i++ {
		w.b = append(w.b, 0)
	}
	f()
	n := len(w.b) - at - width
	for i := width - 1; i >= 0; i-- {
		w.b[at+i] = byte(n)
		n >>= 8
	}
}

func unhex(s string) ([]byte, error) {
	if len(s)%2 == 1 {
		return nil, errors.New("odd hex")
	}
	return hex.DecodeString(s)
}

// encodeHello returns the TLS record carrying the hello (lengths that do not fit their field wrap, exactly as
// the field width dictates; such hellos are not well-formed and only the no-panic/agreement part applies).
func encodeHello(h *helloJ) ([]byte, error) {
	random, err := unhex(h.Random)
	if err != nil {
		return nil, err
	}
	sid, err := unhex(h.Sid)
	if err != nil {
		return nil, err
	}
	ciphers, err := unhex(h.Ciphers)
	if err != nil {
		return nil, err
	}
	ciphers = ciphers[:len(ciphers)/2*2]
	comp, err := unhex(h.Comp)
	if err != nil {
		return nil, err
	}
	w := &wbuf{}
	w.u8(0x16)
	w.u8(int(b2(h.RecV, 0)))
	w.u8(int(b2(h.RecV, 1)))
	var ierr error
	w.prefixed(2, func() {
		w.u8(1)
		w.prefixed(3, func() {
			w.u8(int(b2(h.Vers, 0)))
			w.u8(int(b2(h.Vers, 1)))
			w.raw(random)
			w.prefixed(1, func() { w.raw(sid) })
			w.prefixed(2, func() { w.raw(ciphers) })
			w.prefixed(1, func() { w.raw(comp) })
			if !h.HasExts {
				return
			}
			w.prefixed(2, func() {
				for _, e := range h.Exts {
					if e.IsSNI {
						w.u8(0)
						w.u8(0)
						w.prefixed(2, func() {
							w.prefixed(2, func() {
								for _, n := range e.SNI {
									nm, err := unhex(n.Name)
									if err != nil {
										ierr = err
										return
									}
									w.u8(n.T)
									w.prefixed(2, func() { w.raw(nm) })
								}
							})
						})
						continue
					}
					body, err := unhex(e.Body)
					if err != nil {
						ierr = err
						return
					}
					w.u8(e.Typ >> 8)
					w.u8(e.Typ)
					w.prefixed(2, func() { w.raw(body) })
				}
				w.raw(h.ExtTail)
			})
		})
	})
	return w.b, ierr
}

// ---------------------------------------------------------------------------------------------------------
// strict reader: an independent RFC 5246/6066/8446 parser of "one record holding one complete ClientHello"
// ---------------------------------------------------------------------------------------------------------

type rd struct {
	b  []byte
	ok bool
}

func (r *rd) take(n int) []byte {
	if !r.ok || n < 0 || len(r.b) < n {
		r.ok = false
		return nil
	}
	p := r.b[:n]
	r.b = r.b[n:]
	return p
}
func (r *rd) uint(width int) int {
	p := r.take(width)
	v := 0
	for _, c := range p {
		v = v<<8 | int(c)
	}
	return v
}
func (r *rd) vec(width int) *rd {
	n := r.uint(width)
	return &rd{b: r.take(n), ok: r.ok}
}
func (r *rd) empty() bool { return len(r.b) == 0 }

// strictServerName accepts exactly: one handshake record (length 1..16384, fully present) that starts with a
// complete ClientHello whose body is consumed exactly by the RFC grammar, extension types pairwise distinct,
// a server_name extension holding a non-empty list of non-empty names with at most one host_name, which has
// no trailing dot. Result: the host_name ("" when there is no server_name extension).
func strictServerName(b []byte) (name []byte, ok bool) {
	r := &rd{b: b, ok: true}
	if r.uint(1) != 0x16 {
		return nil, false
	}
	r.take(2)
	rec := r.vec(2)
	if !r.ok || len(rec.b) == 0 || len(rec.b) > 16384 {
		return nil, false
	}
	if rec.uint(1) != 1 {
		return nil, false
	}
	m := rec.vec(3)
	if !rec.ok {
		return nil, false
	}
	m.take(2)
	m.take(32)
	if sid := m.vec(1); len(sid.b) > 32 {
		return nil, false
	}
	if cs := m.vec(2); len(cs.b)%2 != 0 {
		return nil, false
	}
	m.vec(1)
	if !m.ok {
		return nil, false
	}
	if m.empty() {
		return nil, true
	}
	exts := m.vec(2)
	if !m.ok || !m.empty() {
		return nil, false
	}
	seen := map[int]bool{}
	for !exts.empty() {
		t := exts.uint(2)
		body := exts.vec(2)
		if !exts.ok || seen[t] {
			return nil, false
		}
		seen[t] = true
		if t != 0 {
			continue
		}
		list := body.vec(2)
		if !body.ok || !body.empty() || list.empty() {
			return nil, false
		}
		hosts := 0
		for !list.empty() {
			nt := list.uint(1)
			nm := list.vec(2)
			if !list.ok || len(nm.b) == 0 {
				return nil, false
			}
			if nt == 0 {
				hosts++
				if hosts > 1 || nm.b[len(nm.b)-1] == '.' {
					return nil, false
				}
				name = nm.b
			}
		}
	}
	return name, true
}

// ---------------------------------------------------------------------------------------------------------
// structure walker for the mutators: field boundaries and length fields of a (valid) hello record
// ---------------------------------------------------------------------------------------------------------

type lenField struct{ off, width int }

type layout struct {
	bounds []int      // offsets at which a new field starts (cut points)
	lens   []lenField // every length prefix
	exts   [][2]int   // [start,end) of each extension
	sni    [2]int     // [start,end) of the host name bytes, or {0,0}
	afterCompression int
}

func walk(b []byte) *layout {
	l := &layout{}
	add := func(o int) {
		if o <= len(b) {
			l.bounds = append(l.bounds, o)
		}
	}
	u := func(o, w int) int {
		if o+w > len(b) {
			return -1
		}
		v := 0
		for i := 0; i < w; i++ {
			v = v<<8 | int(b[o+i])
		}
		l.lens = append(l.lens, lenField{o, w})
		return v
	}
	for _, o := range []int{0, 1, 3, 5, 6, 9, 11, 43} {
		add(o)
	}
	u(3, 2)
	u(6, 3)
	o := 43
	n := u(o, 1)
	if n < 0 {
		return l
	}
	o += 1 + n
	add(o)
	if n = u(o, 2); n < 0 {
		return l
	}
	o += 2 + n
	add(o)
	if n = u(o, 1); n < 0 {
		return l
	}
	o += 1 + n
	add(o)
	l.afterCompression = o
	if n = u(o, 2); n < 0 {
		return l
	}
	o += 2
	add(o)
	end := o + n
	for o+4 <= end && o+4 <= len(b) {
		t := int(b[o])<<8 | int(b[o+1])
		n = u(o+2, 2)
		s := o
		o += 4
		add(o)
		if t == 0 && o+5 <= len(b) {
			u(o, 2)
			u(o+3, 2)
			nl := int(b[o+3])<<8 | int(b[o+4])
			if o+5+nl <= len(b) {
				l.sni = [2]int{o + 5, o + 5 + nl}
			}
			add(o + 2)
			add(o + 5)
		}
		o += n
		add(o)
		l.exts = append(l.exts, [2]int{s, o})
	}
	return l
}
