package main

import (
	"crypto/ecdsa"
	"crypto/elliptic"
	"crypto/rand"
	"crypto/tls"
	"crypto/x509"
	"crypto/x509/pkix"
	"fmt"
	"io"
	"math/big"
	"net"
	"strings"
	"sync"
	"time"

	"verif/harness/hx"
)

// prng adapts hx.Rand to io.Reader for tls.Config.Rand (crypto/tls does not promise to draw every random
// byte from it — ML-KEM keys, for one, come from crypto/rand — so a generated hello is *not* a function of
// the seed; the case input is the captured byte string itself, which is what a replay re-runs).
type prng struct{ r *hx.Rand }

func (p prng) Read(b []byte) (int, error) {
	for i := range b {
		b[i] = byte(p.r.U64())
	}
	return len(b), nil
}

// frozenCache is a ClientSessionCache that stops changing once frozen, so that a stored (single-use in TLS
// 1.3) ticket can be offered by any number of captured hellos.
type frozenCache struct {
	mu     sync.Mutex
	m      map[string]*tls.ClientSessionState
	frozen bool
}

func (c *frozenCache) Get(k string) (*tls.ClientSessionState, bool) {
	c.mu.Lock()
	defer c.mu.Unlock()
	s, ok := c.m[k]
	return s, ok && s != nil
}
func (c *frozenCache) Put(k string, s *tls.ClientSessionState) {
	c.mu.Lock()
	defer c.mu.Unlock()
	if !c.frozen && s != nil {
		c.m[k] = s
	}
}

var (
	ticketOnce   sync.Once
	ticketCaches = map[uint16]*frozenCache{}
	ticketNames  = []string{"example.com", "a.b", "xn--mnchen-3ya.de", "resume.test"}
)

func label(n int, c byte) string { return strings.Repeat(string(c), n) }

var serverNames = []string{
	"example.com", "a.b", "xn--mnchen-3ya.de", "resume.test",
	"", "localhost", "x", "EXAMPLE.Com", "under_score.example", "example.com.", "example.com..",
	"1.2.3.4", "[::1]", "::1", "fe80::1%eth0", "münchen.de", "例え.jp",
	label(63, 'a') + ".example", label(63, 'a') + "." + label(63, 'b') + "." + label(63, 'c') + "." + label(61, 'd'),
	"*.wild.example", "a..b", "-dash-.example", "xn--", "0", "com", "with space.example", "tab\there",
}

// halfPipe is one direction of an in-memory connection with an unbounded buffer (net.Pipe is unbuffered, and a
// TLS 1.3 server writes its tickets before it reads the client's Finished, which deadlocks on net.Pipe).
type halfPipe struct {
	mu     sync.Mutex
	cond   *sync.Cond
	buf    []byte
	closed bool
}

func newHalfPipe() *halfPipe { h := &halfPipe{}; h.cond = sync.NewCond(&h.mu); return h }

type pipeEnd struct {
	scriptConn
	in, out *halfPipe
}

func (p *pipeEnd) Read(b []byte) (int, error) {
	h := p.in
	h.mu.Lock()
	defer h.mu.Unlock()
	for len(h.buf) == 0 && !h.closed {
		h.cond.Wait()
	}
	if len(h.buf) == 0 {
		return 0, io.EOF
	}
	n := copy(b, h.buf)
	h.buf = h.buf[n:]
	return n, nil
}
func (p *pipeEnd) Write(b []byte) (int, error) {
	h := p.out
	h.mu.Lock()
	defer h.mu.Unlock()
	if h.closed {
		return 0, io.ErrClosedPipe
	}
	h.buf = append(h.buf, b...)
	h.cond.Broadcast()
	return len(b), nil
}
func (p *pipeEnd) Close() error {
	for _, h := range []*halfPipe{p.in, p.out} {
		h.mu.Lock()
		h.closed = true
		h.cond.Broadcast()
		h.mu.Unlock()
	}
	return nil
}

func bufferedPipe() (net.Conn, net.Conn) {
	a, b := newHalfPipe(), newHalfPipe()
	return &pipeEnd{in: a, out: b}, &pipeEnd{in: b, out: a}
}

// prepareTickets performs real handshakes (TLS 1.2 and 1.3) against an in-process server so that later
// clients have a session ticket / PSK identity to offer.
func prepareTickets() {
	key, err := ecdsa.GenerateKey(elliptic.P256(), rand.Reader)
	if err != nil {
		return
	}
	tmpl := &x509.Certificate{SerialNumber: big.NewInt(1), Subject: pkix.Name{CommonName: "verif"},
		NotBefore: time.Now().Add(-time.Hour), NotAfter: time.Now().Add(24 * time.Hour), DNSNames: ticketNames}
	der, err := x509.CreateCertificate(rand.Reader, tmpl, tmpl, &key.PublicKey, key)
	if err != nil {
		return
	}
	cert := tls.Certificate{Certificate: [][]byte{der}, PrivateKey: key}
	for _, v := range []uint16{tls.VersionTLS12, tls.VersionTLS13} {
		cache := &frozenCache{m: map[string]*tls.ClientSessionState{}}
		for _, name := range ticketNames {
			cc, sc := bufferedPipe()
			done := make(chan struct{})
			go func() {
				defer close(done)
				s := tls.Server(sc, &tls.Config{Certificates: []tls.Certificate{cert}, MinVersion: v, MaxVersion: v})
				if s.Handshake() == nil {
					s.Write([]byte{1})
				}
				sc.Close()
			}()
			c := tls.Client(cc, &tls.Config{ServerName: name, InsecureSkipVerify: true, MinVersion: v, MaxVersion: v, ClientSessionCache: cache})
			if c.Handshake() == nil {
				var one [1]byte
				c.Read(one[:])
			}
			cc.Close()
			<-done
		}
		cache.mu.Lock()
		cache.frozen = true
		cache.mu.Unlock()
		ticketCaches[v] = cache
	}
}

var allVersions = []uint16{tls.VersionTLS10, tls.VersionTLS11, tls.VersionTLS12, tls.VersionTLS13}
var allCurves = []tls.CurveID{tls.X25519, tls.CurveP256, tls.CurveP384, tls.CurveP521, tls.X25519MLKEM768}

func allSuites() []uint16 {
	var ids []uint16
	for _, s := range tls.CipherSuites() {
		ids = append(ids, s.ID)
	}
	for _, s := range tls.InsecureCipherSuites() {
		ids = append(ids, s.ID)
	}
	return ids
}

func randName(r *hx.Rand) string {
	const al = "abcdefghijklmnopqrstuvwxyz0123456789-"
	n := r.Range(1, 4)
	var parts []string
	for i := 0; i < n; i++ {
		l := r.Range(1, 12)
		if r.Chance(1, 10) {
			l = 63
		}
		b := make([]byte, l)
		for j := range b {
			b[j] = al[r.Intn(len(al))]
		}
		parts = append(parts, string(b))
	}
	return strings.Join(parts, ".")
}

// randomClientConfig draws a crypto/tls client configuration; the returned string describes it.
func randomClientConfig(r *hx.Rand, cheap bool) (*tls.Config, string) {
	ticketOnce.Do(prepareTickets)
	cfg := &tls.Config{InsecureSkipVerify: true, Rand: prng{r}}
	lo := r.Intn(4)
	hi := r.Range(lo, 3)
	if r.Chance(1, 2) {
		lo, hi = 2, 3 // the default of today's clients
	}
	cfg.MinVersion, cfg.MaxVersion = allVersions[lo], allVersions[hi]
	switch {
	case r.Chance(1, 3):
		cfg.ServerName = randName(r)
	default:
		cfg.ServerName = r.Pick(serverNames)
	}
	desc := fmt.Sprintf("v%d-%d sn=%q", lo, hi, cfg.ServerName)
	if r.Chance(1, 2) {
		n := r.Intn(7)
		for i := 0; i < n; i++ {
			switch r.Intn(4) {
			case 0:
				cfg.NextProtos = append(cfg.NextProtos, "h2")
			case 1:
				cfg.NextProtos = append(cfg.NextProtos, "http/1.1")
			case 2:
				cfg.NextProtos = append(cfg.NextProtos, label(r.Range(1, 255), 'p'))
			default:
				cfg.NextProtos = append(cfg.NextProtos, string(r.Bytes(r.Range(1, 9))))
			}
		}
		desc += fmt.Sprintf(" alpn=%d", n)
	}
	if r.Chance(1, 2) {
		ids := allSuites()
		n := r.Range(1, len(ids))
		for i := 0; i < n; i++ {
			cfg.CipherSuites = append(cfg.CipherSuites, ids[r.Intn(len(ids))])
		}
		desc += fmt.Sprintf(" suites=%d", n)
	}
	if r.Chance(1, 2) || cheap {
		n := r.Range(1, len(allCurves))
		seen := map[tls.CurveID]bool{}
		for i := 0; i < n; i++ {
			c := allCurves[r.Intn(len(allCurves))]
			if cheap && c == tls.X25519MLKEM768 && !r.Chance(1, 8) {
				c = tls.X25519
			}
			if !seen[c] {
				seen[c] = true
				cfg.CurvePreferences = append(cfg.CurvePreferences, c)
			}
		}
		desc += fmt.Sprintf(" curves=%v", cfg.CurvePreferences)
	}
	switch r.Intn(4) {
	case 0:
		cfg.SessionTicketsDisabled = true
		desc += " notickets"
	case 1, 2:
		if c := ticketCaches[cfg.MaxVersion]; c != nil {
			cfg.ClientSessionCache = c
			if r.Chance(2, 3) {
				cfg.ServerName = r.Pick(ticketNames)
				desc += " resume=" + cfg.ServerName
			}
		}
	}
	if r.Chance(1, 8) {
		cfg.Renegotiation = tls.RenegotiateFreelyAsClient
	}
	return cfg, desc
}
