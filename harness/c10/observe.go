package main

import (
	"bytes"
	"crypto/tls"
	"encoding/hex"
	"errors"
	"io"
	"log"
	"net"
	"strings"
	"time"

	"github.com/fabiolb/fabio/proxy/tcp"
	"github.com/fabiolb/fabio/route"
)

func init() { log.SetOutput(io.Discard) } // ServeTCP logs every rejected handshake

// scriptConn is a net.Conn whose peer sends a fixed byte string and then closes; everything written to it is
// kept (client capture) or dropped.
type scriptConn struct {
	r       *bytes.Reader
	written bytes.Buffer
	reads   int
}

func newScriptConn(in []byte) *scriptConn { return &scriptConn{r: bytes.NewReader(in)} }

func (c *scriptConn) Read(p []byte) (int, error) {
	c.reads++
	if c.r.Len() == 0 {
		return 0, io.EOF
	}
	return c.r.Read(p)
}
func (c *scriptConn) Write(p []byte) (int, error) {
	if c.reads == 0 { // only the first flight is kept
		c.written.Write(p)
	}
	return len(p), nil
}
func (c *scriptConn) Close() error                     { return nil }
func (c *scriptConn) LocalAddr() net.Addr              { return &net.TCPAddr{IP: net.IPv4(127, 0, 0, 1), Port: 443} }
func (c *scriptConn) RemoteAddr() net.Addr             { return &net.TCPAddr{IP: net.IPv4(127, 0, 0, 1), Port: 40000} }
func (c *scriptConn) SetDeadline(time.Time) error      { return nil }
func (c *scriptConn) SetReadDeadline(time.Time) error  { return nil }
func (c *scriptConn) SetWriteDeadline(time.Time) error { return nil }

// captureHello runs a real crypto/tls client against a peer that never answers and returns its first flight
// (the TLS record(s) carrying the ClientHello).
func captureHello(cfg *tls.Config) []byte {
	c := newScriptConn(nil)
	_ = tls.Client(c, cfg).Handshake()
	return append([]byte(nil), c.written.Bytes()...)
}

var errStop = errors.New("verif: stop after ClientHello")

// tlsView feeds the bytes to a real crypto/tls server and reports the server name its GetConfigForClient
// callback receives (called=false: the TLS stack did not accept the bytes as a ClientHello).
func tlsView(b []byte) (name string, called bool) {
	cfg := &tls.Config{GetConfigForClient: func(chi *tls.ClientHelloInfo) (*tls.Config, error) {
		name, called = chi.ServerName, true
		return nil, errStop
	}}
	_ = tls.Server(newScriptConn(b), cfg).Handshake()
	return
}

// proxyRoute runs the real SNIProxy.ServeTCP on a connection delivering b and reports the host handed to
// Lookup (looked=false: the connection was dropped before routing).
func proxyRoute(b []byte) (host string, looked bool) {
	p := &tcp.SNIProxy{Lookup: func(h string) *route.Target {
		host, looked = h, true
		return nil
	}}
	_ = p.ServeTCP(newScriptConn(b))
	return
}

// chunkConn delivers the same bytes as scriptConn but in small pieces (a TCP stream has no message boundaries:
// what Peek(9) and io.ReadFull see must not depend on how the bytes arrive). The piece sizes are a function of
// the bytes themselves, so a replay sees the same delivery.
type chunkConn struct {
	scriptConn
	state uint64
}

func newChunkConn(in []byte) *chunkConn {
	h := uint64(1469598103934665603)
	for _, c := range in {
		h = (h ^ uint64(c)) * 1099511628211
	}
	c := &chunkConn{state: h | 1}
	c.r = bytes.NewReader(in)
	return c
}

func (c *chunkConn) Read(p []byte) (int, error) {
	c.state = c.state*6364136223846793005 + 1442695040888963407
	v := int(c.state >> 33)
	n := 1
	switch v % 4 {
	case 1:
		n = 1 + (v>>2)%16
	case 2:
		n = 1 + (v>>2)%1500
	case 3:
		n = []int{3, 4, 5, 8, 9, 10}[(v>>2)%6] // around the 5-byte record header and the 9 peeked bytes
	}
	if n < len(p) {
		p = p[:n]
	}
	return c.scriptConn.Read(p)
}

// proxyRouteChunked is proxyRoute over a connection that delivers b in pieces.
func proxyRouteChunked(b []byte) (host string, looked bool) {
	p := &tcp.SNIProxy{Lookup: func(h string) *route.Target {
		host, looked = h, true
		return nil
	}}
	_ = p.ServeTCP(newChunkConn(b))
	return
}

func sizeErrClass(err error) string {
	s := err.Error()
	switch {
	case strings.HasPrefix(s, "At least 9 bytes"):
		return "short"
	case s == "Not a TLS handshake":
		return "not-handshake"
	case s == "Invalid TLS record length":
		return "record-length"
	case s == "Not a client hello":
		return "not-client-hello"
	case strings.HasPrefix(s, "Invalid client hello length"):
		return "handshake-length"
	}
	return "other:" + s
}

// observe runs the code under test on a byte string b (what a client sends first):
//
//	size / size_err : clientHelloBufferSize(b[:min(9,len)])            (what ServeTCP passes after Peek(9))
//	ok, name        : readServerName(b[min(5,len):])                   (the whole rest as handshake message)
//	route           : the host SNIProxy.ServeTCP hands to Lookup for a connection delivering b, or null
//	route_chunked   : the same for a connection that delivers b in pieces of 1..1500 bytes
//	tls_ok, tls_name: what crypto/tls's server reports in GetConfigForClient for the same bytes
//	strict_ok, strict_name: the independent strict RFC parser of this harness (wire.go)
func observe(b []byte) map[string]interface{} {
	out := map[string]interface{}{}
	h := b
	if len(h) > 9 {
		h = h[:9]
	}
	if n, err := tcp.VerifClientHelloBufferSize(h); err != nil {
		out["size_err"] = sizeErrClass(err)
	} else {
		out["size"] = n
	}
	rest := b
	if len(rest) > 5 {
		rest = rest[5:]
	} else {
		rest = nil
	}
	name, ok := tcp.VerifReadServerName(rest)
	out["ok"] = ok
	out["name"] = hex.EncodeToString([]byte(name))
	if host, looked := proxyRoute(b); looked {
		out["route"] = hex.EncodeToString([]byte(host))
	} else {
		out["route"] = nil
	}
	if host, looked := proxyRouteChunked(b); looked {
		out["route_chunked"] = hex.EncodeToString([]byte(host))
	} else {
		out["route_chunked"] = nil
	}
	tn, tok := tlsView(b)
	out["tls_ok"] = tok
	out["tls_name"] = hex.EncodeToString([]byte(tn))
	sn, sok := strictServerName(b)
	out["strict_ok"] = sok
	out["strict_name"] = hex.EncodeToString(sn)
	return out
}
