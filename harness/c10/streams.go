package main

import (
	"encoding/hex"
	"encoding/json"
	"errors"

	"verif/harness/hx"
)

// bytesIn is the input of the byte-string streams: what the client sends first, hex encoded. `note` says how
// the bytes were produced (client configuration / mutation class); the code under test never sees it.
type bytesIn struct {
	Hex  string `json:"hex"`
	Note string `json:"note"`
}

func runBytes(raw json.RawMessage) (interface{}, error) {
	var in bytesIn
	if err := json.Unmarshal(raw, &in); err != nil {
		return nil, err
	}
	b, err := unhex(in.Hex)
	if err != nil {
		return nil, err
	}
	return observe(b), nil
}

func hexIn(b []byte, note string) bytesIn { return bytesIn{hex.EncodeToString(b), note} }

// decodeHello turns a valid single-record hello into the abstract form (nil when it is not one).
func decodeHello(b []byte) *helloJ {
	if _, ok := strictServerName(b); !ok {
		return nil
	}
	h := &helloJ{RecV: []int{int(b[1]), int(b[2])}, Vers: []int{int(b[9]), int(b[10])}}
	m := &rd{b: b[11:], ok: true}
	h.Random = hex.EncodeToString(m.take(32))
	h.Sid = hex.EncodeToString(m.vec(1).b)
	h.Ciphers = hex.EncodeToString(m.vec(2).b)
	h.Comp = hex.EncodeToString(m.vec(1).b)
	hsEnd := 9 + (int(b[6])<<16 | int(b[7])<<8 | int(b[8]))
	if len(b)-len(m.b) >= hsEnd {
		return h
	}
	h.HasExts = true
	exts := m.vec(2)
	for !exts.empty() {
		t := exts.uint(2)
		body := exts.vec(2)
		if t != 0 {
			h.Exts = append(h.Exts, extJ{Typ: t, Body: hex.EncodeToString(body.b)})
			continue
		}
		e := extJ{IsSNI: true}
		list := body.vec(2)
		for !list.empty() {
			nt := list.uint(1)
			e.SNI = append(e.SNI, nameEntryJ{nt, hex.EncodeToString(list.vec(2).b)})
		}
		h.Exts = append(h.Exts, e)
	}
	return h
}

func mutate(r *hx.Rand, b []byte) ([]byte, string) {
	l := walk(b)
	cp := func() []byte { return append([]byte(nil), b...) }
	pickBound := func() int {
		if len(l.bounds) == 0 {
			return 0
		}
		return l.bounds[r.Intn(len(l.bounds))]
	}
	clamp := func(o int) int {
		if o < 0 {
			return 0
		}
		if o > len(b) {
			return len(b)
		}
		return o
	}
	switch r.Intn(14) {
	case 0: // cut at a field boundary, or one byte either side of it
		o := clamp(pickBound() + r.Intn(3) - 1)
		return cp()[:o], "cut-boundary"
	case 1: // the cut just after the compression methods (a shorter but self-consistent-looking hello)
		o := clamp(l.afterCompression)
		return cp()[:o], "cut-after-compression"
	case 2:
		if len(b) == 0 {
			return nil, "cut-random"
		}
		return cp()[:r.Intn(len(b))], "cut-random"
	case 3: // bit flips, biased towards the structured front part
		m := cp()
		for k := r.Range(1, 3); k > 0 && len(m) > 0; k-- {
			o := r.Intn(len(m))
			if r.Chance(1, 2) && len(l.bounds) > 0 {
				o = clamp(pickBound()+r.Intn(4)) % len(m)
			}
			m[o] ^= 1 << uint(r.Intn(8))
		}
		return m, "bitflip"
	case 4, 5: // corrupt one length prefix
		m := cp()
		if len(l.lens) == 0 {
			return m, "len-none"
		}
		f := l.lens[r.Intn(len(l.lens))]
		old := 0
		for i := 0; i < f.width; i++ {
			old = old<<8 | int(m[f.off+i])
		}
		var v int
		switch r.Intn(7) {
		case 0:
			v = 0
		case 1:
			v = 1
		case 2:
			v = old - 1
		case 3:
			v = old + 1
		case 4:
			v = 1<<(8*uint(f.width)) - 1
		case 5:
			v = old + r.Range(-8, 8)
		default:
			v = int(r.U64() >> 40)
		}
		for i := f.width - 1; i >= 0; i-- {
			m[f.off+i] = byte(v)
			v >>= 8
		}
		return m, "len-corrupt"
	case 6: // splice with a second hello at field boundaries
		cfg, _ := randomClientConfig(r, true)
		b2 := captureHello(cfg)
		l2 := walk(b2)
		o1 := clamp(pickBound())
		o2 := 0
		if len(l2.bounds) > 0 {
			o2 = l2.bounds[r.Intn(len(l2.bounds))]
		}
		if o2 > len(b2) {
			o2 = len(b2)
		}
		return append(cp()[:o1], b2[o2:]...), "splice"
	case 7: // random bytes, half of them behind a plausible 9-byte header
		n := r.Intn(600)
		m := r.Bytes(n)
		if r.Chance(1, 2) && n >= 9 {
			m[0], m[1], m[2] = 0x16, 3, 1
			m[3], m[4] = byte((n-5)>>8), byte(n-5)
			m[5] = 1
			m[6], m[7], m[8] = 0, byte((n-9)>>8), byte(n-9)
			if r.Chance(1, 2) && n > 60 {
				m[43] = byte(r.Intn(34))
			}
			return m, "random-with-header"
		}
		return m, "random"
	case 8: // trailing data after the record (next record, early data, garbage)
		m := cp()
		if r.Chance(1, 2) {
			m = append(m, r.Bytes(r.Range(1, 64))...)
		} else {
			m = append(m, b...)
		}
		return m, "trailing"
	case 9: // overwrite a byte
		m := cp()
		if len(m) == 0 {
			return m, "byte-set"
		}
		o := r.Intn(len(m))
		if r.Chance(2, 3) && len(m) > 80 {
			o = r.Intn(80)
		}
		m[o] = []byte{0, 1, 0xff, byte(r.U64())}[r.Intn(4)]
		return m, "byte-set"
	case 10: // delete or insert a short run (lengths now disagree with contents)
		m := cp()
		if len(m) < 4 {
			return m, "shift"
		}
		o := clamp(pickBound())
		if o >= len(m) {
			o = len(m) - 1
		}
		k := r.Range(1, 4)
		if r.Chance(1, 2) {
			if o+k > len(m) {
				k = len(m) - o
			}
			return append(m[:o], m[o+k:]...), "shift-delete"
		}
		return append(m[:o], append(r.Bytes(k), m[o:]...)...), "shift-insert"
	case 11, 12: // structured edits with consistent lengths: still decodable, not necessarily well-formed
		h := decodeHello(b)
		if h == nil {
			return cp(), "unmodified"
		}
		note := structEdit(r, h)
		m, err := encodeHello(h)
		if err != nil {
			return cp(), "unmodified"
		}
		return m, note
	default:
		return cp(), "unmodified"
	}
}

// structEdit changes the abstract hello in place (lengths are recomputed by the encoder).
func structEdit(r *hx.Rand, h *helloJ) string {
	sni := -1
	for i, e := range h.Exts {
		if e.IsSNI {
			sni = i
		}
	}
	other := func() extJ {
		return extJ{IsSNI: true, SNI: []nameEntryJ{{0, hex.EncodeToString([]byte(randName(r)))}}}
	}
	switch k := r.Intn(15); {
	case k == 0 && sni >= 0: // second server_name extension with another name, after the first
		h.Exts = append(h.Exts, other())
		return "dup-sni-after"
	case k == 1 && sni >= 0: // ... or before it
		h.Exts = append([]extJ{other()}, h.Exts...)
		return "dup-sni-before"
	case k == 2 && sni >= 0 && len(h.Exts[sni].SNI) > 0: // trailing dot
		h.Exts[sni].SNI[0].Name += "2e"
		return "sni-trailing-dot"
	case k == 3 && sni >= 0 && len(h.Exts[sni].SNI) > 0: // empty host name
		h.Exts[sni].SNI[0].Name = ""
		return "sni-empty-name"
	case k == 4 && sni >= 0: // empty ServerNameList
		h.Exts[sni].SNI = nil
		return "sni-empty-list"
	case k == 5 && sni >= 0 && len(h.Exts[sni].SNI) > 0: // name_type other than host_name
		h.Exts[sni].SNI[0].T = r.Range(1, 255)
		return "sni-other-type-only"
	case k == 6 && sni >= 0: // unknown name types around the host name (permitted by RFC 6066)
		e := &h.Exts[sni]
		pre := nameEntryJ{r.Range(1, 255), hex.EncodeToString(r.Bytes(r.Range(1, 20)))}
		post := nameEntryJ{pre.T%255 + 1, hex.EncodeToString(r.Bytes(r.Range(1, 20)))}
		switch r.Intn(3) {
		case 0:
			e.SNI = append([]nameEntryJ{pre}, e.SNI...)
		case 1:
			e.SNI = append(e.SNI, post)
		default:
			e.SNI = append(append([]nameEntryJ{pre}, e.SNI...), post)
		}
		return "sni-extra-name-types"
	case k == 7 && sni >= 0: // two host names
		h.Exts[sni].SNI = append(h.Exts[sni].SNI, nameEntryJ{0, hex.EncodeToString([]byte(randName(r)))})
		return "sni-two-hosts"
	case k == 8: // move or add the server_name extension to a random position
		var rest []extJ
		e := other()
		for i, x := range h.Exts {
			if i == sni {
				e = x
			} else {
				rest = append(rest, x)
			}
		}
		at := r.Intn(len(rest) + 1)
		h.Exts = append(append(append([]extJ{}, rest[:at]...), e), rest[at:]...)
		h.HasExts = true
		return "sni-moved"
	case k == 9: // no extensions at all (SSLv3/TLS 1.0 style)
		h.HasExts, h.Exts = false, nil
		return "no-extensions"
	case k == 10: // large unknown extension (padding, future key shares)
		body := hex.EncodeToString(r.Bytes([]int{0, 1, 255, 256, 1500, 4000, 9000}[r.Intn(7)]))
		at := r.Intn(len(h.Exts) + 1)
		h.Exts = append(append(append([]extJ{}, h.Exts[:at]...), extJ{Typ: []int{21, 65000, 0xfe0d, 65535}[r.Intn(4)], Body: body}), h.Exts[at:]...)
		h.HasExts = true
		return "big-unknown-ext"
	case k == 13 && sni >= 0: // damage BEHIND a complete server_name extension, all outer lengths consistent:
		// the extension block ends in a dangling extension header, or in an extension whose length runs past it
		if sni != 0 && r.Chance(1, 2) { // make server_name the first extension half of the time
			h.Exts[0], h.Exts[sni] = h.Exts[sni], h.Exts[0]
		}
		switch r.Intn(3) {
		case 0:
			h.ExtTail = r.Bytes(r.Range(1, 3))
			return "ext-tail-dangling-header"
		case 1:
			body := r.Bytes(r.Intn(6))
			n := len(body) + r.Range(1, 300)
			h.ExtTail = append([]byte{byte(r.Intn(256)), byte(r.Range(1, 255)), byte(n >> 8), byte(n)}, body...)
			return "ext-tail-overrun"
		default: // a second, empty-bodied server_name header cut short
			h.ExtTail = []byte{0, 0, 0}
			return "ext-tail-sni-header-cut"
		}
	case k == 11: // server_name extension with a hand-made (mostly malformed) body, lengths of the outer layers consistent
		body, note := rawSNIBody(r)
		var rest []extJ
		for i, x := range h.Exts {
			if i != sni {
				rest = append(rest, x)
			}
		}
		at := r.Intn(len(rest) + 1)
		h.Exts = append(append(append([]extJ{}, rest[:at]...), extJ{Typ: 0, Body: hex.EncodeToString(body)}), rest[at:]...)
		h.HasExts = true
		return note
	default: // drop the server_name extension
		var rest []extJ
		for i, x := range h.Exts {
			if i != sni {
				rest = append(rest, x)
			}
		}
		h.Exts = rest
		return "sni-removed"
	}
}

// rawSNIBody builds the body of a server_name extension by hand: mostly malformed inside, so that the outer layers
// (extension length, block length, handshake and record length) stay consistent.
func rawSNIBody(r *hx.Rand) (body []byte, note string) {
	nm := []byte(randName(r))
	entry := append([]byte{0, byte(len(nm) >> 8), byte(len(nm))}, nm...)
	unk := append([]byte{byte(r.Range(1, 255)), 0, 2}, r.Bytes(2)...)
	switch r.Intn(9) {
	case 0: // a dangling 1-2 byte entry header behind an unknown-type entry
		return vec(2, append(append([]byte{}, unk...), r.Bytes(r.Range(1, 2))...)), "sni-raw-dangling-entry"
	case 1: // name length runs past the list
		e := append([]byte{}, entry...)
		e[2] += byte(r.Range(1, 9))
		return vec(2, append(append([]byte{}, unk...), e...)), "sni-raw-name-overrun"
	case 2: // body shorter than its list length field
		return r.Bytes(r.Intn(2)), "sni-raw-short-body"
	case 3: // list length disagrees with the body
		body = vec(2, entry)
		body[1] += byte(r.Range(1, 3))
		return body, "sni-raw-list-length"
	case 4: // garbage behind a valid host_name entry inside the list (fabio stops at the host name)
		return vec(2, append(append([]byte{}, entry...), r.Bytes(r.Range(1, 2))...)), "sni-raw-garbage-after-host"
	case 5: // trailing bytes behind the list
		return append(vec(2, entry), r.Bytes(r.Range(1, 4))...), "sni-raw-trailing"
	case 6: // an entry of unknown type with an empty name behind the host name (crypto/tls refuses empty names of any type)
		return vec(2, append(append([]byte{}, entry...), byte(r.Range(1, 255)), 0, 0)), "sni-raw-empty-unknown-after-host"
	case 7: // ... or in front of it (fabio refuses nothing here either: it skips it)
		return vec(2, append([]byte{byte(r.Range(1, 255)), 0, 0}, entry...)), "sni-raw-empty-unknown-before-host"
	default: // valid, as an opaque body
		return vec(2, append(append([]byte{}, unk...), entry...)), "sni-raw-valid"
	}
}

// ---- abstract hello generator (stream c10.model) ----

func vec(width int, body []byte) []byte {
	n := len(body)
	out := make([]byte, width)
	for i := width - 1; i >= 0; i-- {
		out[i] = byte(n)
		n >>= 8
	}
	return append(out, body...)
}

func u16s(r *hx.Rand, n int) []byte { return r.Bytes(2 * n) }

// knownBody builds a syntactically valid body for an extension type crypto/tls parses.
func knownBody(r *hx.Rand, t int) []byte {
	switch t {
	case 5:
		return []byte{1, 0, 0, 0, 0}
	case 10, 13, 50:
		return vec(2, u16s(r, r.Range(1, 12)))
	case 11:
		return vec(1, r.Bytes(r.Range(1, 3)))
	case 16:
		var l []byte
		for k := r.Range(1, 5); k > 0; k-- {
			l = append(l, vec(1, r.Bytes(r.Range(1, 40)))...)
		}
		return vec(2, l)
	case 18, 23:
		return nil
	case 35:
		return r.Bytes([]int{0, 32, 200, 1200}[r.Intn(4)])
	case 43:
		return vec(1, u16s(r, r.Range(1, 4)))
	case 45:
		return vec(1, r.Bytes(r.Range(1, 2)))
	case 44:
		return vec(2, r.Bytes(r.Range(1, 100)))
	case 51:
		var l []byte
		for k := r.Range(0, 3); k > 0; k-- {
			l = append(l, r.Bytes(2)...)
			l = append(l, vec(2, r.Bytes([]int{32, 65, 97, 133, 1216, r.Range(1, 1800)}[r.Intn(6)]))...)
		}
		return vec(2, l)
	case 0xff01:
		return vec(1, r.Bytes([]int{0, 12}[r.Intn(2)]))
	}
	return r.Bytes([]int{0, 1, 2, 7, 64, 255, 256, 300, 1300, 5000}[r.Intn(10)])
}

var extTypes = []int{5, 10, 11, 13, 16, 18, 23, 35, 43, 45, 44, 50, 51, 0xff01, 21, 27, 28, 34, 49, 57, 17513, 65000, 0xfe0d, 65535, 1, 2, 255, 256,
	0x0a0a, 0x1a1a, 0xfafa, 22, 15, 20, 47}

// extension types crypto/tls (go1.24) does not look into: on a hello whose other extensions are all of these, the TLS
// stack accepts exactly when the framing and the server_name extension are in order (driver: two-way comparison of
// crypto/tls with the Lean reading of a standard server).
var opaqueToTLS = []int{21, 27, 28, 34, 49, 17513, 65000, 65535, 1, 2, 255, 256, 0x0a0a, 0x1a1a, 0xfafa, 22, 15, 20, 47}

func genSNI(r *hx.Rand, wf bool) extJ {
	name := []byte(r.Pick([]string{"example.com", "a", "xn--mnchen-3ya.de", label(63, 'a') + ".example", label(253, 'z'), "EXAMPLE.com",
		"my_service.service.consul", "_ldap._tcp.dc.example"}))
	switch r.Intn(5) {
	case 0:
		name = []byte(randName(r))
	case 1:
		name = r.Bytes(r.Range(1, 30)) // arbitrary bytes are a legal opaque HostName on the wire
		if name[len(name)-1] == '.' {
			name[len(name)-1] = 'x'
		}
	case 2:
		if r.Chance(1, 3) { // names whose 16-bit length needs its high byte (HostName<1..2^16-1>)
			name = []byte(label([]int{255, 256, 257, 300, 1000, 5000}[r.Intn(6)], 'n'))
		}
	}
	e := extJ{IsSNI: true, SNI: []nameEntryJ{{0, hex.EncodeToString(name)}}}
	if r.Chance(1, 5) {
		pre := nameEntryJ{r.Range(1, 255), hex.EncodeToString(r.Bytes(r.Range(1, 40)))}
		post := nameEntryJ{pre.T%255 + 1, hex.EncodeToString(r.Bytes(r.Range(1, 40)))}
		switch r.Intn(4) {
		case 0:
			e.SNI = []nameEntryJ{pre, e.SNI[0]}
		case 1:
			e.SNI = []nameEntryJ{e.SNI[0], post}
		case 2:
			e.SNI = []nameEntryJ{pre, e.SNI[0], post}
		default:
			e.SNI = []nameEntryJ{pre} // no host_name at all: the name is ""
		}
	}
	if !wf {
		switch r.Intn(6) {
		case 0:
			e.SNI[0].Name += "2e"
		case 1:
			e.SNI[0].Name = ""
		case 2:
			e.SNI = nil
		case 3:
			e.SNI = append(e.SNI, nameEntryJ{0, hex.EncodeToString([]byte(randName(r)))})
		case 4:
			e.SNI = append(e.SNI, e.SNI[0])
		default:
			e.SNI[0].Name = hex.EncodeToString(r.Bytes(70000)) // does not fit its length field
		}
	}
	return e
}

func genHello(r *hx.Rand) helloJ {
	wf := !r.Chance(1, 7)
	h := helloJ{RecV: []int{3, r.Intn(4)}, Vers: []int{3, r.Range(0, 4)}}
	if r.Chance(1, 10) {
		h.RecV = []int{r.Intn(256), r.Intn(256)}
		h.Vers = []int{r.Intn(256), r.Intn(256)}
	}
	h.Random = hex.EncodeToString(r.Bytes(32))
	sl := []int{0, 32, 32, r.Intn(33)}[r.Intn(4)]
	h.Sid = hex.EncodeToString(r.Bytes(sl))
	h.Ciphers = hex.EncodeToString(u16s(r, []int{0, 1, 2, 17, r.Intn(60), r.Intn(400)}[r.Intn(6)]))
	h.Comp = "00"
	if r.Chance(1, 6) {
		h.Comp = hex.EncodeToString(r.Bytes(r.Intn(5)))
	}
	h.HasExts = r.Chance(9, 10)
	if h.HasExts {
		n := []int{0, 1, 3, 6, 10, r.Intn(20)}[r.Intn(6)]
		perm := make([]int, len(extTypes))
		for i := range perm {
			perm[i] = i
		}
		for i := len(perm) - 1; i > 0; i-- {
			j := r.Intn(i + 1)
			perm[i], perm[j] = perm[j], perm[i]
		}
		budget := 15000
		opaqueOnly := r.Chance(1, 4) // only extensions crypto/tls ignores next to server_name
		for i := 0; i < n && i < len(perm); i++ {
			t := extTypes[perm[i]]
			if opaqueOnly {
				t = opaqueToTLS[perm[i]%len(opaqueToTLS)]
				dup := false
				for _, e := range h.Exts {
					dup = dup || e.Typ == t
				}
				if dup {
					continue
				}
			}
			body := knownBody(r, t)
			if len(body) > budget {
				body = body[:0]
				if t != 18 && t != 23 && t != 35 && t < 60 {
					continue
				}
			}
			budget -= len(body) + 4
			h.Exts = append(h.Exts, extJ{Typ: t, Body: hex.EncodeToString(body)})
		}
		if r.Chance(5, 6) {
			at := r.Intn(len(h.Exts) + 1)
			h.Exts = append(append(append([]extJ{}, h.Exts[:at]...), genSNI(r, wf || r.Chance(1, 2))), h.Exts[at:]...)
		}
	}
	if wf && r.Chance(1, 25) {
		// boundary: pad (RFC 7685) so that the record payload is exactly 16383, 16384 (the largest hello the
		// proxy accepts) or 16385 bytes (one too many: "Invalid TLS record length")
		padTo(&h, 16384+r.Intn(3)-1)
	}
	if !wf {
		switch r.Intn(8) {
		case 0:
			h.Random = hex.EncodeToString(r.Bytes([]int{0, 31, 33}[r.Intn(3)]))
		case 1:
			h.Sid = hex.EncodeToString(r.Bytes(r.Range(33, 40)))
		case 2: // duplicate extension type
			if len(h.Exts) > 0 {
				h.Exts = append(h.Exts, h.Exts[r.Intn(len(h.Exts))])
			}
		case 3: // an opaque extension of type 0 (server_name) with an arbitrary or hand-made body
			body := r.Bytes(r.Intn(12))
			if r.Chance(2, 3) {
				body, _ = rawSNIBody(r)
			}
			var rest []extJ // replace the server_name extension, if any, half of the time
			for _, e := range h.Exts {
				if !e.IsSNI || r.Chance(1, 2) {
					rest = append(rest, e)
				}
			}
			at := r.Intn(len(rest) + 1)
			h.Exts = append(append(append([]extJ{}, rest[:at]...), extJ{Typ: 0, Body: hex.EncodeToString(body)}), rest[at:]...)
			h.HasExts = true
		case 4: // two server_name extensions
			h.Exts = append(h.Exts, genSNI(r, true))
			h.HasExts = true
		case 5: // oversize: does not fit one record / a 16-bit block
			h.Exts = append(h.Exts, extJ{Typ: 21, Body: hex.EncodeToString(r.Bytes([]int{16000, 17000, 66000}[r.Intn(3)]))})
			h.HasExts = true
		case 6:
			h.Comp = hex.EncodeToString(r.Bytes(r.Range(256, 300)))
		}
	}
	return h
}

// padTo appends a padding extension (type 21) so that the record payload (handshake header + body) has exactly
// `target` bytes; it leaves the hello alone when that is impossible (already larger, or a padding extension exists).
func padTo(h *helloJ, target int) {
	for _, e := range h.Exts {
		if !e.IsSNI && e.Typ == 21 {
			return
		}
	}
	h.HasExts = true
	b, err := encodeHello(h)
	if err != nil {
		return
	}
	need := target - (len(b) - 5) - 4
	if need < 0 || need > 65535 {
		return
	}
	h.Exts = append(h.Exts, extJ{Typ: 21, Body: hex.EncodeToString(make([]byte, need))})
}

func runModel(raw json.RawMessage) (interface{}, error) {
	var h helloJ
	if err := json.Unmarshal(raw, &h); err != nil {
		return nil, err
	}
	if len(h.Ciphers)%4 != 0 {
		return nil, errors.New("cipher suites must be whole 2-byte pairs")
	}
	b, err := encodeHello(&h)
	if err != nil {
		return nil, err
	}
	out := observe(b)
	out["hex"] = hex.EncodeToString(b)
	return out, nil
}

func init() {
	// hand-picked: the cut after the compression methods of a fixed hello, minimal hellos, header classes
	minimal := "16030100" + "2d" + "010000" + "29" + "0303" + hex.EncodeToString(make([]byte, 32)) + "00" + "0002c02f" + "0100"
	withSNI := func() string {
		h := helloJ{RecV: []int{3, 1}, Vers: []int{3, 3}, Random: hex.EncodeToString(make([]byte, 32)), Ciphers: "c02f", Comp: "00", HasExts: true,
			Exts: []extJ{{Typ: 10, Body: "0002001d"}, {IsSNI: true, SNI: []nameEntryJ{{0, hex.EncodeToString([]byte("example.com"))}}}, {Typ: 21, Body: "0000"}}}
		b, _ := encodeHello(&h)
		return hex.EncodeToString(b)
	}()
	hx.Register(&hx.Stream{
		Name: "c10.real",
		Corpus: []interface{}{
			bytesIn{withSNI, "corpus: sni between two extensions"},
			bytesIn{minimal, "corpus: minimal hello without extension block"},
		},
		Gen: func(r *hx.Rand, i int) interface{} {
			cfg, desc := randomClientConfig(r, i%4 != 0)
			return hexIn(captureHello(cfg), desc)
		},
		Run: runBytes,
	})
	hx.Register(&hx.Stream{
		Name: "c10.mutate",
		Corpus: []interface{}{
			bytesIn{"", "corpus: empty"},
			bytesIn{"16", "corpus: one byte"},
			bytesIn{"160301000101000001", "corpus: record length 1"},
			bytesIn{"1603010005010000ff00", "corpus: handshake longer than record"},
			bytesIn{"160301400101003ffd", "corpus: largest record, header only"},
			bytesIn{"160301400201003ffe", "corpus: record length 16385"},
			bytesIn{withSNI[:2*(5+4+2+32+1+2+2+2)], "corpus: cut just after the compression methods"},
			bytesIn{minimal[:len(minimal)-2], "corpus: minimal hello minus one byte"},
			bytesIn{minimal + "00", "corpus: minimal hello plus one byte"},
		},
		Gen: func(r *hx.Rand, i int) interface{} {
			cfg, _ := randomClientConfig(r, true)
			b, note := mutate(r, captureHello(cfg))
			return hexIn(b, note)
		},
		Run: runBytes,
	})
	hx.Register(&hx.Stream{
		Name: "c10.model",
		Corpus: []interface{}{
			helloJ{RecV: []int{3, 1}, Vers: []int{3, 3}, Random: hex.EncodeToString(make([]byte, 32)), Ciphers: "c02f", Comp: "00"},
			helloJ{RecV: []int{3, 1}, Vers: []int{3, 3}, Random: hex.EncodeToString(make([]byte, 32)), Ciphers: "c02f", Comp: "00", HasExts: true},
			helloJ{RecV: []int{3, 1}, Vers: []int{3, 3}, Random: hex.EncodeToString(make([]byte, 32)), Ciphers: "c02f", Comp: "00", HasExts: true,
				Exts: []extJ{{IsSNI: true, SNI: []nameEntryJ{{0, "61"}}}}},
		},
		Gen: func(r *hx.Rand, i int) interface{} { return genHello(r) },
		Run: runModel,
	})
}
