package main

// c19.path — which handler ServeHTTP builds for a request and which transport it hands it: the real
// HTTPProxy.ServeHTTP with recording round-trippers in the Transport and InsecureTransport fields (both are
// http.RoundTripper values) and an in-memory response writer. A request on a reverse-proxy path makes exactly
// one round trip through the selected field; a websocket upgrade makes none (the tunnel does not use an
// http.Transport; with a writer that cannot be hijacked it ends in a 500 before it dials).

import (
	"encoding/json"
	"fmt"
	"io"
	"net/http"
	"net/http/httptest"
	"strings"

	"github.com/fabiolb/fabio/config"
	"github.com/fabiolb/fabio/proxy"
	"github.com/fabiolb/fabio/route"
	"verif/harness/hx"
)

type c19PathIn struct {
	Upgrade string `json:"upgrade"`
	Accept  string `json:"accept"`
	Skip    bool   `json:"skip"` // tlsskipverify=true on the target
	Method  string `json:"method,omitempty"`
}

type c19Recorder struct {
	name  string
	calls *[]string
}

func (c c19Recorder) RoundTrip(r *http.Request) (*http.Response, error) {
	*c.calls = append(*c.calls, c.name)
	return &http.Response{StatusCode: 203, Status: "203 recorded", Proto: "HTTP/1.1", ProtoMajor: 1, ProtoMinor: 1,
		Header: http.Header{"Content-Type": []string{"text/plain"}}, Body: io.NopCloser(strings.NewReader("recorded")), Request: r}, nil
}

func c19RunPath(raw json.RawMessage) (interface{}, error) {
	var in c19PathIn
	if err := json.Unmarshal(raw, &in); err != nil {
		return nil, err
	}
	if len(in.Upgrade) > 40 || len(in.Accept) > 80 || strings.ContainsAny(in.Upgrade+in.Accept, "\r\n\x00") {
		return nil, fmt.Errorf("header value outside the stream's universe")
	}
	method := in.Method
	if method == "" {
		method = "GET"
	}
	if !c19In(c19Methods, method) {
		return nil, fmt.Errorf("method outside the stream's universe")
	}
	scheme := "http"
	if in.Skip {
		scheme = "https"
	}
	tbl, err := c19Table(c19Target{Scheme: scheme, Skip: in.Skip}, "127.0.0.1:9")
	if err != nil {
		return nil, err
	}
	var calls []string
	globs := route.NewGlobCache(16)
	p := &proxy.HTTPProxy{
		Config:            config.Proxy{},
		Transport:         c19Recorder{"default", &calls},
		InsecureTransport: c19Recorder{"insecure", &calls},
		Lookup: func(r *http.Request) *route.Target {
			return tbl.Lookup(r, "", route.Picker["rnd"], route.Matcher["prefix"], globs, false)
		},
	}
	req := httptest.NewRequest(method, "http://example.com/", nil)
	if in.Upgrade != "" {
		req.Header.Set("Upgrade", in.Upgrade)
		req.Header.Set("Connection", "Upgrade")
	}
	if in.Accept != "" {
		req.Header.Set("Accept", in.Accept)
	}
	rec := httptest.NewRecorder()
	p.ServeHTTP(rec, req)
	if calls == nil {
		calls = []string{}
	}
	return map[string]interface{}{"round_trips": calls, "status": rec.Code}, nil
}

var c19Upgrades = []string{"", "", "", "websocket", "Websocket", "WEBSOCKET", "WebSocket", "wEbSoCkEt", "websoc\u212aet", "web\u017focket",
	"websockets", "websocke", "h2c", " websocket", "websocket ", "web socket", "TLS/1.0", "websocket, h2c"}

func init() {
	hx.Register(&hx.Stream{
		Name: "c19.path",
		Corpus: []interface{}{
			c19PathIn{Upgrade: "", Accept: ""},
			c19PathIn{Upgrade: "websocket", Accept: "text/event-stream"},
			c19PathIn{Upgrade: "WEBSOCKET", Accept: "", Skip: true},
			c19PathIn{Upgrade: "websoc\u212aet", Accept: ""},
			c19PathIn{Upgrade: "websockets", Accept: "text/event-stream", Skip: true},
		},
		Gen: func(r *hx.Rand, i int) interface{} {
			in := c19PathIn{Upgrade: c19Upgrades[r.Intn(len(c19Upgrades))], Skip: r.Chance(1, 2), Method: c19Methods[r.Intn(len(c19Methods))]}
			switch r.Intn(3) {
			case 0:
				in.Accept = "text/event-stream"
			case 1:
				in.Accept = append(c19Accepts, "TEXT/EVENT-STREAM", "text/event-stream ")[r.Intn(len(c19Accepts)+2)]
			}
			if r.Chance(1, 3) { // any casing of the upgrade token, and near misses of it (a letter dropped, doubled, replaced)
				b := []byte("websocket")
				for k := range b {
					if r.Chance(1, 2) {
						b[k] -= 32
					}
				}
				switch r.Intn(6) {
				case 0:
					k := r.Intn(len(b))
					b = append(b[:k], b[k+1:]...)
				case 1:
					k := r.Intn(len(b))
					b = append(b[:k+1], b[k:]...)
				case 2:
					b[r.Intn(len(b))] = "abcxyzKS-_ "[r.Intn(11)]
				}
				in.Upgrade = string(b)
			}
			return in
		},
		Run: c19RunPath,
	})
}
