package main

// Correspondence streams for C19 (configured upstream time limits are enforced).
//
//	c19.fields  the five proxy.* transport options → the real transport.SetConfig, then the transports the
//	            program builds: NewTransport(nil) and NewTransport(skip-verify) as main.newHTTPProxy does, and
//	            the per-route transport built by the real route code (route.NewTable → addTarget) for a target
//	            with the generated host=/proto=/tlsskipverify= options. Reported: the fields of every
//	            *http.Transport, including the net.Dialer behind Transport.Dial.
//	c19.timing  a real proxy.HTTPProxy (transports from transport.NewTransport after SetConfig, target from
//	            the real route table and Lookup) in front of an httptest upstream that delays its response
//	            headers by d; reported: the status the client saw and how long it waited.
//
// transport.cfg is a package-level variable: whatever the previous case configured is still there when the
// next case runs, which is exactly the "for every previous state of the cell" of the theorem.

import (
	"bytes"
	"crypto/tls"
	"encoding/json"
	"fmt"
	"io"
	"log"
	"net"
	"net/http"
	"net/http/httptest"
	"net/http/httptrace"
	"net/textproto"
	"os"
	"os/exec"
	"path/filepath"
	"regexp"
	"strings"
	"sync"
	"sync/atomic"
	"syscall"
	"time"
	"unsafe"

	"github.com/fabiolb/fabio/config"
	"github.com/fabiolb/fabio/proxy"
	"github.com/fabiolb/fabio/route"
	"github.com/fabiolb/fabio/transport"
	"verif/harness/hx"
)

// ---------------------------------------------------------------------------------------------------------
// observing a transport
// ---------------------------------------------------------------------------------------------------------

type c19TLS struct {
	ServerName string `json:"sni"`
	Skip       bool   `json:"skip"`
}

type c19Transport struct {
	RHT       int64   `json:"rht"`       // ResponseHeaderTimeout, ns
	Idle      int64   `json:"idle"`      // IdleConnTimeout, ns
	MaxIdle   int64   `json:"maxidle"`   // MaxIdleConnsPerHost
	Dial      int64   `json:"dial"`      // net.Dialer.Timeout behind Transport.Dial, ns
	KeepAlive int64   `json:"keepalive"` // net.Dialer.KeepAlive behind Transport.Dial, ns
	TLS       *c19TLS `json:"tls"`
	Note      string  `json:"note,omitempty"` // set when the Dial function is not a (*net.Dialer).Dial method value
}

// A method value such as (&net.Dialer{…}).Dial is, in the gc runtime, a pointer to a closure object whose
// first word is the code pointer of the bound-method wrapper and whose second word is the receiver. The
// layout is checked against a dialer with known values before it is used, and the receiver is only read when
// the code pointer is that of net.(*Dialer).Dial's wrapper.
type c19Closure struct {
	fn   uintptr
	recv *net.Dialer
}

var (
	c19ProbeOnce sync.Once
	c19ProbeFn   uintptr
	c19ProbeErr  string
)

func c19ClosureOf(f func(network, addr string) (net.Conn, error)) *c19Closure {
	return *(**c19Closure)(unsafe.Pointer(&f))
}

func c19Dialer(f func(network, addr string) (net.Conn, error)) (*net.Dialer, string) {
	c19ProbeOnce.Do(func() {
		known := &net.Dialer{Timeout: 1234567 * time.Nanosecond, KeepAlive: 7654321 * time.Nanosecond}
		c := c19ClosureOf(known.Dial)
		if c == nil || c.recv != known {
			c19ProbeErr = "method-value layout not as expected by the harness"
			return
		}
		c19ProbeFn = c.fn
	})
	if c19ProbeErr != "" {
		return nil, c19ProbeErr
	}
	if f == nil {
		return nil, "Dial is nil"
	}
	c := c19ClosureOf(f)
	if c.fn != c19ProbeFn {
		return nil, "Dial is not a (*net.Dialer).Dial method value"
	}
	return c.recv, ""
}

func c19Observe(tr *http.Transport) *c19Transport {
	if tr == nil {
		return nil
	}
	o := &c19Transport{RHT: int64(tr.ResponseHeaderTimeout), Idle: int64(tr.IdleConnTimeout), MaxIdle: int64(tr.MaxIdleConnsPerHost)}
	if d, note := c19Dialer(tr.Dial); d != nil {
		o.Dial, o.KeepAlive = int64(d.Timeout), int64(d.KeepAlive)
	} else {
		o.Note = note
	}
	if tr.DialContext != nil || tr.DialTLS != nil || tr.DialTLSContext != nil {
		o.Note += " another dial hook is set"
	}
	if tr.TLSClientConfig != nil {
		o.TLS = &c19TLS{ServerName: tr.TLSClientConfig.ServerName, Skip: tr.TLSClientConfig.InsecureSkipVerify}
	}
	return o
}

// ---------------------------------------------------------------------------------------------------------
// building things the way the program does
// ---------------------------------------------------------------------------------------------------------

type c19Cfg struct {
	Dial      int64 `json:"dial"`
	RHT       int64 `json:"rht"`
	KeepAlive int64 `json:"keepalive"`
	Idle      int64 `json:"idle"`
	MaxConn   int64 `json:"maxconn"`
}

func (c c19Cfg) config() *config.Config {
	return &config.Config{Proxy: config.Proxy{
		DialTimeout:           time.Duration(c.Dial),
		ResponseHeaderTimeout: time.Duration(c.RHT),
		KeepAliveTimeout:      time.Duration(c.KeepAlive),
		IdleConnTimeout:       time.Duration(c.Idle),
		MaxConn:               int(c.MaxConn),
	}}
}

// c19Proxy is main.newHTTPProxy as far as transports go (package main cannot be imported; the two argument
// expressions are pinned by the regenerated fact `proxyTransportArgs`).
func c19Proxy(pc config.Proxy, lookup func(*http.Request) *route.Target) *proxy.HTTPProxy {
	return &proxy.HTTPProxy{
		Config:            pc,
		Transport:         transport.NewTransport(nil),
		InsecureTransport: transport.NewTransport(&tls.Config{InsecureSkipVerify: true}),
		Lookup:            lookup,
	}
}

type c19Target struct {
	Scheme string `json:"scheme"` // http | https
	Host   string `json:"host"`   // host= option ("" = absent)
	Proto  string `json:"proto"`  // proto= option ("" = absent)
	Skip   bool   `json:"skip"`   // tlsskipverify=true
}

var c19OptOK = func(s string) bool {
	if len(s) > 64 {
		return false
	}
	for _, c := range s {
		if !(c >= 'a' && c <= 'z' || c >= 'A' && c <= 'Z' || c >= '0' && c <= '9' || c == '.' || c == '-') {
			return false
		}
	}
	return true
}

// c19Table builds a one-route table through the real parser and addTarget.
func c19Table(t c19Target, hostport string) (route.Table, error) {
	if t.Scheme != "http" && t.Scheme != "https" {
		return nil, fmt.Errorf("scheme outside the modelled set")
	}
	if !c19OptOK(t.Host) || !c19OptOK(t.Proto) {
		return nil, fmt.Errorf("option value outside the modelled alphabet")
	}
	var opts []string
	if t.Host != "" {
		opts = append(opts, "host="+t.Host)
	}
	if t.Proto != "" {
		opts = append(opts, "proto="+t.Proto)
	}
	if t.Skip {
		opts = append(opts, "tlsskipverify=true")
	}
	cmd := fmt.Sprintf("route add svc / %s://%s/", t.Scheme, hostport)
	if len(opts) > 0 {
		cmd += ` opts "` + strings.Join(opts, " ") + `"`
	}
	return route.NewTable(bytes.NewBufferString(cmd))
}

func c19OnlyTarget(tbl route.Table) *route.Target {
	for _, rs := range tbl {
		for _, r := range rs {
			for _, t := range r.Targets {
				return t
			}
		}
	}
	return nil
}

// ---------------------------------------------------------------------------------------------------------
// c19.fields
// ---------------------------------------------------------------------------------------------------------

type c19FieldsIn struct {
	Cfg    c19Cfg    `json:"cfg"`
	Target c19Target `json:"target"`
}

var c19Durations = []int64{0, 1, int64(time.Millisecond), int64(50 * time.Millisecond), int64(time.Second), int64(3 * time.Second),
	int64(15 * time.Second), int64(30 * time.Second), int64(time.Minute), int64(time.Hour), -1, -int64(time.Second)}

func c19GenDuration(r *hx.Rand) int64 {
	switch r.Intn(8) {
	case 0:
		return int64(r.U64() >> uint(1+r.Intn(62))) // any magnitude
	case 1:
		return int64(r.Intn(5000)) * int64(time.Millisecond)
	case 2:
		return 0
	default:
		return c19Durations[r.Intn(len(c19Durations))]
	}
}

func c19GenCfg(r *hx.Rand) c19Cfg {
	c := c19Cfg{Dial: c19GenDuration(r), RHT: c19GenDuration(r), KeepAlive: c19GenDuration(r), Idle: c19GenDuration(r)}
	switch r.Intn(6) {
	case 0:
		c.MaxConn = 0
	case 1:
		c.MaxConn = int64(r.Intn(20))
	case 2:
		c.MaxConn = 10000
	case 3:
		c.MaxConn = -int64(r.Intn(3))
	default:
		c.MaxConn = int64(r.Intn(1 << 20))
	}
	if r.Chance(1, 12) { // two options with the same value: a swapped pair would be invisible, so keep these rare
		c.KeepAlive = c.Dial
	}
	return c
}

func c19GenTarget(r *hx.Rand) c19Target {
	return c19Target{
		Scheme: r.Pick([]string{"http", "https", "https"}),
		Host:   r.Pick([]string{"", "", "dst", "foo.com", "a.b.example", "DST", "x"}),
		Proto:  r.Pick([]string{"", "", "", "https", "http", "tcp"}),
		Skip:   r.Chance(1, 2),
	}
}

func c19RunFields(raw json.RawMessage) (interface{}, error) {
	var in c19FieldsIn
	if err := json.Unmarshal(raw, &in); err != nil {
		return nil, err
	}
	if in.Cfg.MaxConn != int64(int(in.Cfg.MaxConn)) {
		return nil, fmt.Errorf("maxconn is not an int")
	}
	transport.SetConfig(in.Cfg.config())
	p := c19Proxy(in.Cfg.config().Proxy, nil)
	tbl, err := c19Table(in.Target, "127.0.0.1:9")
	if err != nil {
		return nil, err
	}
	t := c19OnlyTarget(tbl)
	if t == nil {
		return nil, fmt.Errorf("the table has no target")
	}
	def, _ := p.Transport.(*http.Transport)
	ins, _ := p.InsecureTransport.(*http.Transport)
	return map[string]interface{}{
		"default":     c19Observe(def),
		"insecure":    c19Observe(ins),
		"route":       c19Observe(t.Transport),
		"target_skip": t.TLSSkipVerify,
	}, nil
}

// ---------------------------------------------------------------------------------------------------------
// c19.timing
// ---------------------------------------------------------------------------------------------------------

type c19TimingIn struct {
	TMs    int    `json:"t_ms"`   // configured proxy.responseheadertimeout
	DMs    int    `json:"d_ms"`   // delay of the upstream's response headers
	Kind   string `json:"kind"`   // default | insecure | route : which transport the request takes
	Status int    `json:"status"` // what the upstream answers
	// the request, along the dimensions ServeHTTP branches on (zero values = a plain GET as before)
	Accept string `json:"accept,omitempty"` // Accept header ("text/event-stream" selects the SSE handler)
	Method string `json:"method,omitempty"` // "" = GET
	Gzip   bool   `json:"gzip,omitempty"`   // proxy.gzip.contenttype configured (^text/) or not
	// the upstream's body: after the headers, BodyMs of streaming in Chunks flushed pieces (0 = "ok" at once)
	BodyMs int `json:"body_ms,omitempty"`
	Chunks int `json:"chunks,omitempty"`
	// the other configured limits (0 = the stream's defaults: dial 2 s, keep-alive 1 s, idle 1 s, flush 1 s)
	DialMs      int `json:"dial_ms,omitempty"`
	KeepAliveMs int `json:"keepalive_ms,omitempty"`
	IdleMs      int `json:"idle_ms,omitempty"`
	FlushMs     int `json:"flush_ms,omitempty"` // proxy.flushinterval (the SSE handler's)
	// the history of the proxy and of its connections to this upstream: Warm requests (plain GETs, answered at
	// once) go through the same proxy first, so that the measured request finds idle keep-alive connections
	Warm int `json:"warm,omitempty"`
	// an informational response (103 Early Hints, 102 Processing) the upstream sends at once, before the delay
	Interim int `json:"interim,omitempty"`
	// c19.binary only: a second listener in proxy.addr with this write timeout / read timeout (0 = none); the
	// measured request arrives through the first listener, which has neither
	ListenWtMs int `json:"listen_wt_ms,omitempty"`
	ListenRtMs int `json:"listen_rt_ms,omitempty"`
}

type c19TimingOut struct {
	Status    int    `json:"status"`
	ElapsedUs int64  `json:"elapsed_us"` // until the last byte of the response body (or the error)
	HeaderUs  int64  `json:"header_us"`  // until the response headers
	SlackUs   int64  `json:"slack_us"`
	Attempts  int    `json:"attempts"`
	Used      string `json:"used"`     // which transport ServeHTTP's rule selects for the target (observed on the target)
	RHT       int64  `json:"used_rht"` // its ResponseHeaderTimeout, ns
	Upstream  int    `json:"upstream_saw"`
	BodyOK    bool   `json:"body_ok"`  // the body the client read is byte for byte what the upstream sent
	BodyLen   int    `json:"body_len"` // bytes read
	BodyWant  int    `json:"body_want"`
	UpDelayUs int64  `json:"up_delay_us"` // how long the upstream really took to send its headers (-1 = it never did)
	NoiseUs   int64  `json:"noise_us"` // worst overshoot of a 5 ms sleep in the harness while the request was out
	Interims  []int  `json:"interims"` // the informational responses the client received before the final one
	WarmOK    int    `json:"warm_ok"`  // how many of the warm-up requests were answered 200 "warm"
	Err       string `json:"err,omitempty"`
}

const c19Slack = 150 * time.Millisecond

// c19Noise watches the machine while a wall-clock measurement runs: a goroutine sleeps 5 ms at a time and records
// by how much the longest sleep overshot. On a machine that is busy with twenty other checks a 5 ms sleep can take
// 100 ms; a measurement that comes out late while the probe saw that is repeated, and if every attempt was
// disturbed the case is reported as inconclusive (not counted) instead of blaming the code. A measurement that
// is late on a quiet machine stays a failure.
const c19NoiseLimit = 25 * time.Millisecond

func c19Noise() (stop func() time.Duration) {
	done := make(chan struct{})
	res := make(chan time.Duration, 1)
	go func() {
		var worst time.Duration
		for {
			select {
			case <-done:
				res <- worst
				return
			default:
			}
			t := time.Now()
			time.Sleep(5 * time.Millisecond)
			if o := time.Since(t) - 5*time.Millisecond; o > worst {
				worst = o
			}
		}
	}()
	return func() time.Duration { close(done); return <-res }
}

// c19UpstreamLate: the upstream was to answer well within the limit (d <= T/3) but the busy machine made it take
// more than half the limit: what was measured is not the case that was asked for.
func c19UpstreamLate(in c19TimingIn, o c19TimingOut) bool {
	return in.TMs > 0 && !in.slow() && o.UpDelayUs > int64(in.TMs)*1000/2
}

// c19OnlyLate: the outcome differs from the expected one in nothing but its time.
func c19OnlyLate(in c19TimingIn, o c19TimingOut) bool {
	if c19TimingAsExpected(in, o) {
		return false
	}
	o.ElapsedUs = 0
	return c19TimingAsExpected(in, o)
}

func (in c19TimingIn) slow() bool { return in.TMs > 0 && in.DMs > in.TMs }

func c19Expected(in c19TimingIn) int {
	if in.slow() {
		return http.StatusGatewayTimeout
	}
	return in.Status
}

func (in c19TimingIn) cfg() c19Cfg {
	or := func(v, d int) int64 {
		if v == 0 {
			v = d
		}
		return int64(v) * int64(time.Millisecond)
	}
	return c19Cfg{Dial: or(in.DialMs, 2000), RHT: int64(in.TMs) * int64(time.Millisecond),
		KeepAlive: or(in.KeepAliveMs, 1000), Idle: or(in.IdleMs, 1000), MaxConn: 4}
}

func (in c19TimingIn) flush() time.Duration {
	if in.FlushMs == 0 {
		return time.Second
	}
	return time.Duration(in.FlushMs) * time.Millisecond
}

const c19GzipTypes = "^text/"

// c19Body is what the upstream sends after its headers.
func c19Body(in c19TimingIn) string {
	if in.BodyMs <= 0 || in.Chunks <= 0 {
		return "ok"
	}
	var b strings.Builder
	for i := 0; i < in.Chunks; i++ {
		fmt.Fprintf(&b, "chunk %04d of %04d ....\n", i+1, in.Chunks)
	}
	return b.String()
}

// c19Upstream starts the upstream of a case and says how the route to it looks.
func c19Upstream(in c19TimingIn) (up *httptest.Server, tgt c19Target, saw func() int, stop func()) {
	up, tgt, saw, _, stop = c19UpstreamD(in)
	return
}

// c19UpstreamD also reports how long the upstream really took to send the headers of the measured request.
func c19UpstreamD(in c19TimingIn) (up *httptest.Server, tgt c19Target, saw func() int, delayUs func() int64, stop func()) {
	release := make(chan struct{})
	var mu sync.Mutex
	n := 0
	var sentAfter int64 = -1
	wait := func(r *http.Request, d time.Duration) bool {
		if d <= 0 {
			return true
		}
		select {
		case <-time.After(d):
			return true
		case <-release:
			return false
		case <-r.Context().Done():
			return false
		}
	}
	h := http.HandlerFunc(func(w http.ResponseWriter, r *http.Request) {
		mu.Lock()
		n++
		k := n
		mu.Unlock()
		io.Copy(io.Discard, r.Body)
		if k <= in.Warm { // the history: answered at once, the connection goes back to the proxy's idle pool
			w.Header().Set("Content-Type", "application/octet-stream")
			io.WriteString(w, "warm")
			return
		}
		h0 := time.Now()
		if in.Interim != 0 {
			w.Header().Set("Link", "</style.css>; rel=preload; as=style")
			w.WriteHeader(in.Interim)
		}
		if !wait(r, time.Duration(in.DMs)*time.Millisecond) {
			return
		}
		mu.Lock()
		sentAfter = time.Since(h0).Microseconds()
		mu.Unlock()
		ct := "text/plain; charset=utf-8"
		if r.Header.Get("Accept") == "text/event-stream" {
			ct = "text/event-stream"
		}
		w.Header().Set("Content-Type", ct)
		w.WriteHeader(in.Status)
		body := c19Body(in)
		if in.BodyMs <= 0 || in.Chunks <= 0 {
			io.WriteString(w, body)
			return
		}
		if f, ok := w.(http.Flusher); ok {
			f.Flush()
		}
		per := len(body) / in.Chunks
		gap := time.Duration(in.BodyMs) * time.Millisecond / time.Duration(in.Chunks)
		for i := 0; i < in.Chunks; i++ {
			if !wait(r, gap) {
				return
			}
			io.WriteString(w, body[i*per:(i+1)*per])
			if f, ok := w.(http.Flusher); ok {
				f.Flush()
			}
		}
	})
	up = httptest.NewUnstartedServer(h)
	up.Config.ErrorLog = log.New(io.Discard, "", 0)
	switch in.Kind {
	case "default":
		up.Start()
		tgt = c19Target{Scheme: "http"}
	case "insecure":
		up.StartTLS()
		tgt = c19Target{Scheme: "https", Skip: true}
	default: // route: host override + https ⇒ per-route transport
		up.StartTLS()
		tgt = c19Target{Scheme: "https", Host: "foo.com", Skip: true}
	}
	saw = func() int { mu.Lock(); defer mu.Unlock(); return n }
	delayUs = func() int64 { mu.Lock(); defer mu.Unlock(); return sentAfter }
	stop = func() { close(release); up.CloseClientConnections(); up.Close() }
	return
}

// c19Do sends the warm-up requests of a case and then the one measured request; it fills in status, waiting
// times, the informational responses received and what became of the body.
func c19Do(in c19TimingIn, url string, out *c19TimingOut) {
	// the client's transport asks for gzip and decodes it by itself (DisableCompression is off)
	cl := &http.Client{Transport: &http.Transport{DisableKeepAlives: true}, Timeout: 15 * time.Second}
	out.Interims = []int{}
	for i := 0; i < in.Warm; i++ {
		resp, err := cl.Get(url)
		if err != nil {
			out.Err = "env: warm-up request: " + err.Error()
			return
		}
		b, _ := io.ReadAll(resp.Body)
		resp.Body.Close()
		if resp.StatusCode == 200 && string(b) == "warm" {
			out.WarmOK++
		}
	}
	if in.Warm > 0 {
		// the proxy's transport puts the connection back into its idle pool when the body has been copied,
		// which may be a moment after the client has seen the end of the response
		time.Sleep(5 * time.Millisecond)
	}
	method := in.Method
	if method == "" {
		method = "GET"
	}
	var rb io.Reader
	if method == "POST" || method == "PUT" {
		rb = strings.NewReader("x=1&y=2")
	}
	req, err := http.NewRequest(method, url, rb)
	if err != nil {
		out.Err = "request: " + err.Error()
		return
	}
	if in.Accept != "" {
		req.Header.Set("Accept", in.Accept)
	}
	var imu sync.Mutex
	req = req.WithContext(httptrace.WithClientTrace(req.Context(), &httptrace.ClientTrace{
		Got1xxResponse: func(code int, _ textproto.MIMEHeader) error {
			imu.Lock()
			out.Interims = append(out.Interims, code)
			imu.Unlock()
			return nil
		},
	}))
	want := c19Body(in)
	if method == "HEAD" {
		want = "" // a response to HEAD has no body
	}
	out.BodyWant = len(want)
	out.SlackUs = c19Slack.Microseconds()
	noise := c19Noise()
	defer func() { out.NoiseUs = noise().Microseconds() }()
	t0 := time.Now()
	resp, err := cl.Do(req)
	out.HeaderUs = time.Since(t0).Microseconds()
	if err != nil {
		out.ElapsedUs = out.HeaderUs
		out.Err = "client: " + err.Error()
		return
	}
	out.Status = resp.StatusCode
	b, err := io.ReadAll(resp.Body)
	out.ElapsedUs = time.Since(t0).Microseconds()
	resp.Body.Close()
	out.BodyLen = len(b)
	out.BodyOK = err == nil && string(b) == want
	if err != nil {
		out.Err = "body: " + err.Error()
	}
}

func c19TimingOnce(in c19TimingIn) (out c19TimingOut) {
	up, tgt, saw, delayUs, stop := c19UpstreamD(in)
	defer stop()
	defer func() { out.UpDelayUs = delayUs() }()

	// program order of main: SetConfig, then the table (watchBackend), then the proxies (startServers)
	cfg := in.cfg().config()
	cfg.Proxy.FlushInterval = in.flush()
	if in.Gzip {
		cfg.Proxy.GZIPContentTypes = regexp.MustCompile(c19GzipTypes)
	}
	transport.SetConfig(cfg)
	tbl, err := c19Table(tgt, up.Listener.Addr().String())
	if err != nil {
		out.Err = err.Error()
		return
	}
	globs := route.NewGlobCache(16)
	p := c19Proxy(cfg.Proxy, func(r *http.Request) *route.Target {
		return tbl.Lookup(r, "", route.Picker["rnd"], route.Matcher["prefix"], globs, false)
	})
	t := c19OnlyTarget(tbl)
	var used *http.Transport
	switch {
	case t != nil && t.Transport != nil:
		out.Used, used = "route", t.Transport
	case t != nil && t.TLSSkipVerify:
		out.Used = "insecure"
		used, _ = p.InsecureTransport.(*http.Transport)
	default:
		out.Used = "default"
		used, _ = p.Transport.(*http.Transport)
	}
	if used != nil {
		out.RHT = int64(used.ResponseHeaderTimeout)
	}
	defer func() {
		for _, tr := range []http.RoundTripper{p.Transport, p.InsecureTransport} {
			if x, ok := tr.(*http.Transport); ok {
				x.CloseIdleConnections()
			}
		}
		if t != nil && t.Transport != nil {
			t.Transport.CloseIdleConnections()
		}
	}()
	front := httptest.NewServer(p)
	defer front.Close()
	c19Do(in, front.URL+"/", &out)
	out.Upstream = saw()
	return
}

// ---------------------------------------------------------------------------------------------------------
// c19.binary: the same measurement against the real fabio executable (config.Load → main → SetConfig →
// watchBackend/route.NewTable → startServers/newHTTPProxy), static registry, options on the command line or in
// the environment. This is the only stream that executes main's own statement order.
// ---------------------------------------------------------------------------------------------------------

type c19BinaryIn struct {
	c19TimingIn
	Source string `json:"source"` // cmdline | env : where proxy.responseheadertimeout comes from
}

var (
	c19BinOnce sync.Once
	c19BinPath string
	c19BinErr  error
)

func c19Binary() (string, error) {
	c19BinOnce.Do(func() {
		repo := os.Getenv("VERIF_REPO")
		if repo == "" {
			repo = "/repo"
		}
		// leftovers of earlier processes are swept after ten minutes
		dir := filepath.Join(os.TempDir(), "c19-fabio")
		if err := os.MkdirAll(dir, 0o755); err != nil {
			c19BinErr = err
			return
		}
		if ents, err := os.ReadDir(dir); err == nil {
			for _, e := range ents {
				if fi, err := e.Info(); err == nil && time.Since(fi.ModTime()) > 10*time.Minute {
					os.Remove(filepath.Join(dir, e.Name()))
				}
			}
		}
		build := func(out string) error {
			cmd := exec.Command("go", "build", "-o", out, ".")
			cmd.Dir = repo
			if b, err := cmd.CombinedOutput(); err != nil {
				return fmt.Errorf("go build %s: %v: %s", repo, err, b)
			}
			return nil
		}
		// The shards and the three executable-driven streams of one check run are children of the same process and
		// look at the same tree: they share one executable (built by whoever comes first, under a file lock), so that
		// no shard measures while its siblings still link. It is only reused when it is younger than that parent.
		ppid := os.Getppid()
		if pi, err := os.Stat(fmt.Sprintf("/proc/%d", ppid)); err == nil && ppid > 1 {
			h := uint32(2166136261)
			for _, c := range []byte(repo) {
				h = (h ^ uint32(c)) * 16777619
			}
			shared := filepath.Join(dir, fmt.Sprintf("fabio-p%d-%08x", ppid, h))
			if lf, err := os.OpenFile(shared+".lock", os.O_CREATE|os.O_RDWR, 0o644); err == nil {
				defer lf.Close()
				if syscall.Flock(int(lf.Fd()), syscall.LOCK_EX) == nil {
					defer syscall.Flock(int(lf.Fd()), syscall.LOCK_UN)
					if bi, err := os.Stat(shared); err == nil && bi.ModTime().After(pi.ModTime()) && bi.Size() > 0 {
						c19BinPath = shared
						return
					}
					tmp := fmt.Sprintf("%s.%d", shared, os.Getpid())
					if err := build(tmp); err != nil {
						c19BinErr = err
						return
					}
					if err := os.Rename(tmp, shared); err != nil {
						c19BinErr = err
						return
					}
					c19BinPath = shared
					return
				}
			}
		}
		c19BinPath = filepath.Join(dir, fmt.Sprintf("fabio-%d", os.Getpid()))
		c19BinErr = build(c19BinPath)
	})
	return c19BinPath, c19BinErr
}

// c19FreePort picks a port for the fabio process. The kernel's own choice (":0") comes from the ephemeral range,
// which every client connection and every httptest server of the ~20 checks running on this machine draws from
// as well; a port from below that range, tried for real before it is handed out, is far less likely to be taken
// in the moment between closing the probe listener and fabio's own listen.
var c19PortSeq uint32

func c19FreePort() (int, error) {
	for try := 0; try < 64; try++ {
		k := atomic.AddUint32(&c19PortSeq, 1)
		port := 12000 + int((uint32(os.Getpid())*7919+k*104729+uint32(time.Now().UnixNano()>>10))%20000)
		l, err := net.Listen("tcp", fmt.Sprintf("127.0.0.1:%d", port))
		if err != nil {
			continue
		}
		l.Close()
		return port, nil
	}
	l, err := net.Listen("tcp", "127.0.0.1:0")
	if err != nil {
		return 0, err
	}
	defer l.Close()
	return l.Addr().(*net.TCPAddr).Port, nil
}

// c19Fabio is a running fabio executable (built from the tree under test) with one static route to an upstream.
type c19Fabio struct {
	Addr string                   // the first listener of proxy.addr
	Gone func(time.Duration) bool // has the process exited (waiting at most that long)?
	Stop func()
}

// c19StartFabio starts the executable: static registry with one route to upAddr (options from tgt), the five
// transport options from c (the response-header timeout on the command line, or in the environment when rhtEnv
// is set), extra command-line arguments, and — when listenExtra is not empty — further listeners appended to
// proxy.addr. An error string starting with "env:" means the environment, not fabio, is to blame.
func c19StartFabio(tgt c19Target, upAddr string, c c19Cfg, rhtEnv bool, extra []string, listenExtra string) (*c19Fabio, string) {
	bin, err := c19Binary()
	if err != nil {
		return nil, err.Error()
	}
	var opts []string
	if tgt.Host != "" {
		opts = append(opts, "host="+tgt.Host)
	}
	if tgt.Skip {
		opts = append(opts, "tlsskipverify=true")
	}
	routes := fmt.Sprintf("route add svc / %s://%s/", tgt.Scheme, upAddr)
	if len(opts) > 0 {
		routes += ` opts "` + strings.Join(opts, " ") + `"`
	}
	pp, err1 := c19FreePort()
	ui, err2 := c19FreePort()
	if err1 != nil || err2 != nil {
		return nil, "env: no free port"
	}
	dur := func(ns int64) string { return time.Duration(ns).String() }
	listen := fmt.Sprintf("127.0.0.1:%d", pp)
	if listenExtra != "" {
		p2, err := c19FreePort()
		if err != nil {
			return nil, "env: no free port"
		}
		listen += fmt.Sprintf(",127.0.0.1:%d%s", p2, listenExtra)
	}
	args := []string{"-insecure", "-registry.backend", "static", "-registry.static.routes", routes,
		"-proxy.addr", listen, "-ui.addr", fmt.Sprintf("127.0.0.1:%d", ui), "-log.level", "FATAL",
		"-proxy.dialtimeout", dur(c.Dial), "-proxy.keepalivetimeout", dur(c.KeepAlive), "-proxy.idleconntimeout", dur(c.Idle),
		"-proxy.maxconn", fmt.Sprint(c.MaxConn)}
	args = append(args, extra...)
	env := []string{"PATH=" + os.Getenv("PATH"), "HOME=" + os.Getenv("HOME")}
	if rhtEnv {
		env = append(env, "FABIO_PROXY_RESPONSEHEADERTIMEOUT="+dur(c.RHT))
	} else {
		args = append(args, "-proxy.responseheadertimeout", dur(c.RHT))
	}
	cmd := exec.Command(bin, args...)
	cmd.Env = env
	cmd.Stdout, cmd.Stderr = io.Discard, io.Discard
	if err := cmd.Start(); err != nil {
		return nil, "env: start: " + err.Error()
	}
	exited := make(chan struct{})
	go func() { cmd.Wait(); close(exited) }()
	f := &c19Fabio{Addr: fmt.Sprintf("127.0.0.1:%d", pp)}
	f.Stop = func() { cmd.Process.Kill(); <-exited }
	f.Gone = func(grace time.Duration) bool {
		select {
		case <-exited:
			return true
		case <-time.After(grace):
			return false
		}
	}
	ready := false
	for i := 0; i < 400 && !ready; i++ {
		if c, err := net.DialTimeout("tcp", f.Addr, 100*time.Millisecond); err == nil {
			c.Close()
			ready = true
		} else if f.Gone(10 * time.Millisecond) {
			break
		}
	}
	// The ports were free when they were chosen, but the machine is shared: if another process took one of them
	// in between, fabio fails to listen and exits, and whatever answers on that port is not fabio.
	if !ready || f.Gone(20*time.Millisecond) {
		f.Stop()
		return nil, "env: fabio did not start listening (or a port was taken by another process)"
	}
	return f, ""
}

func c19BinaryOnce(in c19BinaryIn) (out c19TimingOut) {
	up, tgt, saw, delayUs, stop := c19UpstreamD(in.c19TimingIn)
	defer stop()
	defer func() { out.UpDelayUs = delayUs() }()
	listenExtra := ""
	if in.ListenWtMs > 0 || in.ListenRtMs > 0 {
		// a second HTTP listener with its own read/write timeout; the measured request does not use it
		if in.ListenRtMs > 0 {
			listenExtra += fmt.Sprintf(";rt=%dms", in.ListenRtMs)
		}
		if in.ListenWtMs > 0 {
			listenExtra += fmt.Sprintf(";wt=%dms", in.ListenWtMs)
		}
	}
	extra := []string{"-proxy.flushinterval", in.flush().String()}
	if in.Gzip {
		extra = append(extra, "-proxy.gzip.contenttype", c19GzipTypes)
	}
	f, errs := c19StartFabio(tgt, up.Listener.Addr().String(), in.cfg(), in.Source == "env", extra, listenExtra)
	if f == nil {
		out.Err = errs
		return
	}
	defer f.Stop()
	defer func() {
		// an answer that is not the expected one and a fabio that is no longer there: the answer was not fabio's
		if f.Gone(0) || (!c19TimingAsExpected(in.c19TimingIn, out) && out.Upstream == 0 && f.Gone(300*time.Millisecond)) {
			out.Err = "env: the fabio process exited during the measurement"
		}
	}()
	out.Used = map[string]string{"default": "default", "insecure": "insecure", "route": "route"}[in.Kind]
	out.RHT = int64(in.TMs) * int64(time.Millisecond) // not observable from outside the process: echoed
	c19Do(in.c19TimingIn, "http://"+f.Addr+"/", &out)
	out.Upstream = saw()
	return
}

var c19Accepts = []string{"", "text/event-stream", "*/*", "text/html,application/xhtml+xml;q=0.9,*/*;q=0.8", "application/json", "text/event-stream, */*"}
var c19Methods = []string{"", "GET", "POST", "PUT", "DELETE", "HEAD", "OPTIONS"}

func c19In(xs []string, s string) bool {
	for _, x := range xs {
		if x == s {
			return true
		}
	}
	return false
}

func c19CheckTiming(in c19TimingIn) error {
	if in.TMs < 0 || in.TMs > 2000 || in.DMs < 0 || in.DMs > 5000 {
		return fmt.Errorf("times outside the range of the stream")
	}
	if in.TMs != 0 && in.TMs < 20 {
		return fmt.Errorf("timeout too small for a wall-clock measurement")
	}
	if in.Status < 200 || in.Status > 599 || in.Status == 204 || in.Status == 304 {
		return fmt.Errorf("status outside the range of the stream")
	}
	if in.Kind != "default" && in.Kind != "insecure" && in.Kind != "route" {
		return fmt.Errorf("unknown kind")
	}
	if !c19In(c19Accepts, in.Accept) || !c19In(c19Methods, in.Method) {
		return fmt.Errorf("request outside the stream's universe")
	}
	if in.Method == "HEAD" && in.BodyMs > 0 {
		return fmt.Errorf("a HEAD request has no body to stream")
	}
	if in.BodyMs < 0 || in.BodyMs > 4000 || in.Chunks < 0 || in.Chunks > 64 || (in.BodyMs > 0) != (in.Chunks > 0) {
		return fmt.Errorf("body outside the range of the stream")
	}
	for _, v := range []int{in.DialMs, in.KeepAliveMs, in.IdleMs, in.FlushMs} {
		if v < 0 || v > 5000 || (v != 0 && v < 20) {
			return fmt.Errorf("limit outside the range of the stream")
		}
	}
	if in.Warm < 0 || in.Warm > 3 || (in.Interim != 0 && in.Interim != 102 && in.Interim != 103) {
		return fmt.Errorf("history or interim response outside the stream's universe")
	}
	for _, v := range []int{in.ListenWtMs, in.ListenRtMs} {
		if v < 0 || v > 5000 || (v != 0 && v < 10) {
			return fmt.Errorf("listener timeout outside the range of the stream")
		}
	}
	// never near the timeout: the instant d = T is a race inside net/http and outside the claim
	if in.TMs > 0 && in.DMs*3 > in.TMs && in.DMs < in.TMs*3 {
		return fmt.Errorf("delay too close to the timeout for a wall-clock measurement")
	}
	return nil
}

func c19RunBinary(raw json.RawMessage) (interface{}, error) {
	var in c19BinaryIn
	if err := json.Unmarshal(raw, &in); err != nil {
		return nil, err
	}
	if err := c19CheckTiming(in.c19TimingIn); err != nil {
		return nil, err
	}
	if in.Source != "cmdline" && in.Source != "env" {
		return nil, fmt.Errorf("unknown source")
	}
	if _, err := c19Binary(); err != nil {
		return nil, err
	}
	out := c19Measure(in.c19TimingIn, func() c19TimingOut { return c19BinaryOnce(in) })
	return out, nil
}

// c19InTimeBoundUs is the generous upper bound for an answer whose headers came in time: the property says it
// is "served normally" (status and complete body), not how fast; the bound only excludes an answer that hangs.
func c19InTimeBoundUs(in c19TimingIn) int64 {
	return 2*int64(in.DMs+in.BodyMs)*1000 + 1000000
}

func c19TimingAsExpected(in c19TimingIn, o c19TimingOut) bool {
	if o.Err != "" || o.Status != c19Expected(in) || o.Upstream != in.Warm+1 || o.WarmOK != in.Warm {
		return false
	}
	if (in.Interim != 0) != (len(o.Interims) == 1) {
		return false
	}
	if in.slow() {
		return o.ElapsedUs <= int64(in.TMs)*1000+o.SlackUs
	}
	return o.BodyOK && o.ElapsedUs <= c19InTimeBoundUs(in)
}

// c19Measure repeats a wall-clock measurement whose outcome is not the expected one: at most three attempts on a
// quiet machine (a deterministic failure fails all of them), up to six while the noise probe reports a disturbed
// machine and the only thing wrong is the time. If every attempt was late and disturbed the case is inconclusive.
func c19Measure(in c19TimingIn, once func() c19TimingOut) c19TimingOut {
	var out c19TimingOut
	quiet := 0
	for a := 1; a <= 6; a++ {
		out = once()
		out.Attempts = a
		if c19TimingAsExpected(in, out) || strings.HasPrefix(out.Err, "env:") {
			return out
		}
		disturbed := (c19OnlyLate(in, out) && out.NoiseUs > c19NoiseLimit.Microseconds()) || c19UpstreamLate(in, out)
		if !disturbed {
			quiet++
			if quiet >= 3 {
				return out
			}
		}
		time.Sleep(time.Duration(a) * 100 * time.Millisecond)
	}
	if c19UpstreamLate(in, out) {
		out.Err = fmt.Sprintf("env: the machine is too busy: the upstream took %d ms to send headers it was to send after %d ms", out.UpDelayUs/1000, in.DMs)
	} else if c19OnlyLate(in, out) && out.NoiseUs > c19NoiseLimit.Microseconds() {
		out.Err = fmt.Sprintf("env: the machine is too busy for a wall-clock measurement (a 5 ms sleep took %d ms longer)", out.NoiseUs/1000)
	}
	return out
}

func c19RunTiming(raw json.RawMessage) (interface{}, error) {
	var in c19TimingIn
	if err := json.Unmarshal(raw, &in); err != nil {
		return nil, err
	}
	if err := c19CheckTiming(in); err != nil {
		return nil, err
	}
	// A wall-clock measurement on a shared machine: an unexpected outcome is re-measured (at most three
	// attempts); a deterministic failure (no limit configured, wrong status, body cut off) fails every attempt.
	out := c19Measure(in, func() c19TimingOut { return c19TimingOnce(in) })
	return out, nil
}

// c19GenTiming draws one case: which transport, which handler path (Accept), method, gzip or not, the timeout,
// and the upstream's behaviour — headers well after the timeout, or headers well within it followed either by a
// short body or by a body streamed for longer than all configured limits together.
func c19GenTiming(r *hx.Rand, i int, ts []int) c19TimingIn {
	t := ts[r.Intn(len(ts))]
	in := c19TimingIn{TMs: t, Kind: []string{"default", "insecure", "route"}[i%3], Status: []int{200, 200, 201, 404, 500, 503}[r.Intn(6)]}
	switch r.Intn(3) {
	case 0:
		in.Accept = "text/event-stream"
	case 1:
		in.Accept = c19Accepts[r.Intn(len(c19Accepts))]
	}
	in.Method = c19Methods[r.Intn(len(c19Methods))]
	in.Gzip = r.Chance(1, 3)
	if r.Chance(1, 3) {
		in.FlushMs = []int{20, 100, 1000}[r.Intn(3)]
	}
	switch r.Intn(4) {
	case 0, 1: // headers well after the timeout: 3T … 6T
		in.DMs = 3*t + r.Intn(3*t+1)
	case 2: // headers well within it, short body: 0 … T/3
		in.DMs = r.Intn(t/3 + 1)
	default: // headers well within it, then a body that outlasts every configured limit and their sum
		in.DMs = r.Intn(t/3 + 1)
		in.DialMs = []int{50, 100}[r.Intn(2)]
		in.KeepAliveMs = []int{50, 100}[r.Intn(2)]
		in.IdleMs = []int{50, 100}[r.Intn(2)]
		sum := t + in.DialMs + in.KeepAliveMs + in.IdleMs
		in.BodyMs = sum + sum/2 + r.Intn(100)
		in.Chunks = 4 + r.Intn(9)
		in.Status = []int{200, 200, 200, 201, 404}[r.Intn(5)]
	}
	if in.Method == "HEAD" && in.BodyMs > 0 {
		in.Method = "OPTIONS"
	}
	if r.Chance(1, 15) { // no limit configured: the upstream's answer, however late
		in.TMs = 0
		in.DMs = []int{0, 20, 150}[r.Intn(3)]
	}
	// the history: earlier requests through the same proxy were answered at once, idle keep-alive connections to
	// the upstream exist when the measured request arrives
	if r.Chance(1, 3) {
		in.Warm = 1 + r.Intn(2)
	}
	// the upstream sends an informational response first
	if r.Chance(1, 4) {
		in.Interim = []int{103, 103, 102}[r.Intn(3)]
	}
	return in
}

// c19GenTimingT: for the "headers too late" cases T is also drawn from values larger than the slack of the
// measurement, so that a 504 which comes after a multiple of T (2T, T + another limit) is told from one at T.
func c19GenTimingT(r *hx.Rand, i int, ts []int) c19TimingIn {
	in := c19GenTiming(r, i, ts)
	if in.slow() && r.Chance(1, 2) {
		t := []int{200, 400}[r.Intn(2)]
		in.TMs = t
		in.DMs = 3*t + r.Intn(t+1)
	}
	return in
}

func init() {
	log.SetOutput(io.Discard)

	s := int64(time.Second)
	ms := int64(time.Millisecond)
	hx.Register(&hx.Stream{
		Name: "c19.fields",
		Corpus: []interface{}{
			// DESIGN.md §8 D23: response-header timeout 3 s, 7 idle connections
			c19FieldsIn{c19Cfg{RHT: 3 * s, MaxConn: 7}, c19Target{Scheme: "http"}},
			// fabio's defaults (config/default.go)
			c19FieldsIn{c19Cfg{Dial: 30 * s, KeepAlive: 0, Idle: 15 * s, MaxConn: 10000}, c19Target{Scheme: "http"}},
			c19FieldsIn{c19Cfg{Dial: 1 * s, RHT: 2 * s, KeepAlive: 3 * s, Idle: 4 * s, MaxConn: 5}, c19Target{Scheme: "https", Host: "foo.com", Skip: true}},
			c19FieldsIn{c19Cfg{Dial: 1 * s, RHT: 2 * s, KeepAlive: 3 * s, Idle: 4 * s, MaxConn: 5}, c19Target{Scheme: "http", Host: "foo.com", Proto: "https"}},
			c19FieldsIn{c19Cfg{Dial: 5 * ms, RHT: 50 * ms, KeepAlive: 7 * ms, Idle: 9 * ms, MaxConn: 1}, c19Target{Scheme: "https", Host: "dst", Skip: true}},
			c19FieldsIn{c19Cfg{}, c19Target{Scheme: "https", Host: "foo.com"}},
			c19FieldsIn{c19Cfg{Dial: -1, RHT: -s, KeepAlive: -1, Idle: -1, MaxConn: -1}, c19Target{Scheme: "https", Skip: true}},
		},
		Gen: func(r *hx.Rand, i int) interface{} {
			return c19FieldsIn{c19GenCfg(r), c19GenTarget(r)}
		},
		Run: c19RunFields,
	})

	hx.Register(&hx.Stream{
		Name: "c19.timing",
		Corpus: []interface{}{
			c19TimingIn{TMs: 100, DMs: 400, Kind: "default", Status: 200},
			c19TimingIn{TMs: 100, DMs: 10, Kind: "default", Status: 200},
			c19TimingIn{TMs: 50, DMs: 300, Kind: "route", Status: 200},
			c19TimingIn{TMs: 50, DMs: 0, Kind: "route", Status: 201},
			c19TimingIn{TMs: 200, DMs: 600, Kind: "insecure", Status: 200},
			c19TimingIn{TMs: 200, DMs: 40, Kind: "insecure", Status: 404},
		},
		Gen: func(r *hx.Rand, i int) interface{} { return c19GenTimingT(r, i, []int{50, 100, 200}) },
		Run: c19RunTiming,
	})

	hx.Register(&hx.Stream{
		Name: "c19.binary",
		Corpus: []interface{}{
			c19BinaryIn{c19TimingIn{TMs: 100, DMs: 400, Kind: "default", Status: 200}, "cmdline"},
			c19BinaryIn{c19TimingIn{TMs: 100, DMs: 10, Kind: "default", Status: 200}, "cmdline"},
		},
		Gen: func(r *hx.Rand, i int) interface{} {
			in := c19GenTimingT(r, i, []int{100, 200})
			// another listener with a read/write timeout well below the response-header timeout; an answer
			// that is in time for the configured limit comes later than that listener's timeouts
			if in.TMs >= 100 && r.Chance(1, 3) {
				v := 10 + r.Intn(in.TMs/8)
				if r.Chance(2, 3) {
					in.ListenWtMs = v
				}
				if r.Chance(1, 3) {
					in.ListenRtMs = v
				}
				if !in.slow() {
					in.DMs = in.TMs/4 + r.Intn(in.TMs/3-in.TMs/4+1)
				}
			}
			return c19BinaryIn{in, r.Pick([]string{"cmdline", "cmdline", "env"})}
		},
		Run: c19RunBinary,
	})
}
