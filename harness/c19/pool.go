package main

// c19.pool — the idle-connection limits behaviourally: proxy.maxconn (MaxIdleConnsPerHost) and
// proxy.idleconntimeout (IdleConnTimeout) as the upstream sees them. N requests are in flight at the same time
// through the real proxy.HTTPProxy (transports from NewTransport after SetConfig, target from the real table),
// so the proxy holds N connections to the upstream; the upstream answers all of them together. Reported: for
// every upstream connection when the proxy closed it, relative to the moment the last response was complete
// (-1: still open at the end of the observation). The connections beyond the configured number of idle
// connections are closed at once, the others after the configured idle time (never, when none is configured).

import (
	"encoding/json"
	"fmt"
	"io"
	"log"
	"net"
	"net/http"
	"net/http/httptest"
	"sort"
	"sync"
	"time"

	"github.com/fabiolb/fabio/route"
	"github.com/fabiolb/fabio/transport"
	"verif/harness/hx"
)

type c19PoolIn struct {
	Kind    string `json:"kind"`    // default | insecure | route
	IdleMs  int    `json:"idle_ms"` // proxy.idleconntimeout (0 = none)
	MaxConn int    `json:"maxconn"` // proxy.maxconn
	N       int    `json:"n"`       // requests in flight at the same time
	// proxy.keepalivetimeout in ms (0 = the stream's 1 s; -1 = a negative value: TCP keep-alive probes off). It is
	// about probes on a connection, not about keeping connections: the pool must not depend on it.
	KeepAliveMs int `json:"keepalive_ms,omitempty"`
	// c19.binpool: the proxy is the real fabio executable (main's own transports), not the in-process HTTPProxy
	Binary bool `json:"binary,omitempty"`
}

type c19PoolOut struct {
	Opened   int     `json:"opened"`    // connections the upstream accepted
	Served   int     `json:"served"`    // requests answered 200 with the expected body
	ClosesUs []int64 `json:"closes_us"` // per connection, sorted: closed at (µs after the last response was complete), -1 = open at the end
	ObsUs    int64   `json:"obs_us"`    // length of the observation after the last response
	SlackUs  int64   `json:"slack_us"`
	Attempts int     `json:"attempts"`
	NoiseUs  int64   `json:"noise_us"`
	Err      string  `json:"err,omitempty"`
}

const c19PoolObserve = 150 * time.Millisecond // how long connections are watched beyond the idle time (or in all, without one)

func c19PoolOnce(in c19PoolIn) (out c19PoolOut) {
	out.ClosesUs = []int64{}
	out.SlackUs = c19Slack.Microseconds()
	var mu sync.Mutex
	opened := map[net.Conn]time.Time{}
	closed := map[net.Conn]time.Time{}
	arrived := 0
	all := make(chan struct{})
	h := http.HandlerFunc(func(w http.ResponseWriter, r *http.Request) {
		mu.Lock()
		arrived++
		if arrived == in.N {
			close(all)
		}
		mu.Unlock()
		select { // every request of the case is in flight before any is answered
		case <-all:
		case <-time.After(3 * time.Second):
		case <-r.Context().Done():
			return
		}
		io.WriteString(w, "pooled")
	})
	up := httptest.NewUnstartedServer(h)
	up.Config.ErrorLog = log.New(io.Discard, "", 0)
	up.Config.ConnState = func(c net.Conn, s http.ConnState) {
		mu.Lock()
		defer mu.Unlock()
		switch s {
		case http.StateNew:
			opened[c] = time.Now()
		case http.StateClosed, http.StateHijacked:
			if _, ok := closed[c]; !ok {
				closed[c] = time.Now()
			}
		}
	}
	var tgt c19Target
	switch in.Kind {
	case "default":
		up.Start()
		tgt = c19Target{Scheme: "http"}
	case "insecure":
		up.StartTLS()
		tgt = c19Target{Scheme: "https", Skip: true}
	default:
		up.StartTLS()
		tgt = c19Target{Scheme: "https", Host: "foo.com", Skip: true}
	}
	defer func() { up.CloseClientConnections(); up.Close() }()

	ka := int64(time.Second)
	if in.KeepAliveMs != 0 {
		ka = int64(in.KeepAliveMs) * int64(time.Millisecond)
	}
	cc := c19Cfg{Dial: int64(2 * time.Second), RHT: int64(2 * time.Second), KeepAlive: ka,
		Idle: int64(in.IdleMs) * int64(time.Millisecond), MaxConn: int64(in.MaxConn)}
	frontURL := ""
	if in.Binary {
		f, errs := c19StartFabio(tgt, up.Listener.Addr().String(), cc, false, nil, "")
		if f == nil {
			out.Err = errs
			return
		}
		defer f.Stop()
		defer func() {
			if f.Gone(0) {
				out.Err = "env: the fabio process exited during the measurement"
			}
		}()
		frontURL = "http://" + f.Addr
	} else {
		cfg := cc.config()
		transport.SetConfig(cfg)
		tbl, err := c19Table(tgt, up.Listener.Addr().String())
		if err != nil {
			out.Err = err.Error()
			return
		}
		globs := route.NewGlobCache(16)
		p := c19Proxy(cfg.Proxy, func(r *http.Request) *route.Target {
			return tbl.Lookup(r, "", route.Picker["rnd"], route.Matcher["prefix"], globs, false)
		})
		t := c19OnlyTarget(tbl)
		defer func() {
			for _, tr := range []http.RoundTripper{p.Transport, p.InsecureTransport} {
				if x, ok := tr.(*http.Transport); ok {
					x.CloseIdleConnections()
				}
			}
			if t != nil && t.Transport != nil {
				t.Transport.CloseIdleConnections()
			}
		}()
		front := httptest.NewServer(p)
		defer front.Close()
		frontURL = front.URL
	}

	cl := &http.Client{Transport: &http.Transport{DisableKeepAlives: true}, Timeout: 10 * time.Second}
	var wg sync.WaitGroup
	served := 0
	for i := 0; i < in.N; i++ {
		wg.Add(1)
		go func() {
			defer wg.Done()
			resp, err := cl.Get(frontURL + "/")
			if err != nil {
				return
			}
			b, _ := io.ReadAll(resp.Body)
			resp.Body.Close()
			if resp.StatusCode == 200 && string(b) == "pooled" {
				mu.Lock()
				served++
				mu.Unlock()
			}
		}()
	}
	wg.Wait()
	noise := c19Noise()
	defer func() { out.NoiseUs = noise().Microseconds() }()
	t0 := time.Now()
	// watch until every connection is closed or the idle time plus the observation window has passed
	deadline := t0.Add(time.Duration(in.IdleMs)*time.Millisecond + c19PoolObserve)
	for time.Now().Before(deadline) {
		mu.Lock()
		done := len(closed) == len(opened)
		mu.Unlock()
		if done {
			break
		}
		time.Sleep(2 * time.Millisecond)
	}
	end := time.Now()
	mu.Lock()
	defer mu.Unlock()
	out.Opened, out.Served = len(opened), served
	out.ObsUs = end.Sub(t0).Microseconds()
	for c := range opened {
		if ct, ok := closed[c]; ok {
			d := ct.Sub(t0).Microseconds()
			if d < 0 {
				d = 0 // closed while the last response was still being read
			}
			out.ClosesUs = append(out.ClosesUs, d)
		} else {
			out.ClosesUs = append(out.ClosesUs, -1)
		}
	}
	sort.Slice(out.ClosesUs, func(i, j int) bool {
		a, b := out.ClosesUs[i], out.ClosesUs[j]
		if (a < 0) != (b < 0) {
			return b < 0
		}
		return a < b
	})
	return
}

// c19PoolKept: how many idle connections per host a transport with MaxIdleConnsPerHost = v keeps of n
// (net/http: 0 means DefaultMaxIdleConnsPerHost = 2, a negative value keeps none). Used only to decide
// whether a measurement is repeated.
func c19PoolKept(v, n int) int {
	switch {
	case v == 0:
		v = http.DefaultMaxIdleConnsPerHost
	case v < 0:
		v = 0
	}
	if n < v {
		return n
	}
	return v
}

func c19PoolAsExpected(in c19PoolIn, o c19PoolOut) bool {
	if o.Err != "" || o.Opened != in.N || o.Served != in.N || len(o.ClosesUs) != in.N {
		return false
	}
	kept := c19PoolKept(in.MaxConn, in.N)
	idle := int64(in.IdleMs) * 1000
	for i, c := range o.ClosesUs {
		if i < in.N-kept { // closed at once
			if c < 0 || (idle > 0 && c > idle/2) || (idle == 0 && c > o.ObsUs/2) {
				return false
			}
		} else if idle == 0 {
			if c >= 0 {
				return false
			}
		} else if c < idle-10000 || c > idle+o.SlackUs {
			return false
		}
	}
	return true
}

func c19RunPool(raw json.RawMessage) (interface{}, error) {
	var in c19PoolIn
	if err := json.Unmarshal(raw, &in); err != nil {
		return nil, err
	}
	if in.Kind != "default" && in.Kind != "insecure" && in.Kind != "route" {
		return nil, fmt.Errorf("unknown kind")
	}
	if in.KeepAliveMs < -1000 || in.KeepAliveMs > 5000 {
		return nil, fmt.Errorf("case outside the range of the stream")
	}
	if in.N < 1 || in.N > 8 || in.MaxConn < -3 || in.MaxConn > 16 || in.IdleMs < 0 || in.IdleMs > 1000 || (in.IdleMs != 0 && in.IdleMs < 60) {
		return nil, fmt.Errorf("case outside the range of the stream")
	}
	var out c19PoolOut
	quiet := 0
	for a := 1; a <= 6; a++ {
		out = c19PoolOnce(in)
		out.Attempts = a
		if c19PoolAsExpected(in, out) {
			return out, nil
		}
		if out.NoiseUs <= c19NoiseLimit.Microseconds() {
			quiet++
			if quiet >= 3 {
				return out, nil
			}
		}
		time.Sleep(time.Duration(a) * 100 * time.Millisecond)
	}
	if out.NoiseUs > c19NoiseLimit.Microseconds() && out.Err == "" {
		out.Err = "env: the machine is too busy for a wall-clock measurement"
	}
	return out, nil
}

func init() {
	hx.Register(&hx.Stream{
		Name: "c19.pool",
		Corpus: []interface{}{
			c19PoolIn{Kind: "default", IdleMs: 100, MaxConn: 2, N: 4},
			c19PoolIn{Kind: "default", IdleMs: 0, MaxConn: 1, N: 3},
			c19PoolIn{Kind: "route", IdleMs: 60, MaxConn: 3, N: 3},
			c19PoolIn{Kind: "insecure", IdleMs: 150, MaxConn: 0, N: 4},
			c19PoolIn{Kind: "default", IdleMs: 100, MaxConn: -1, N: 2},
			c19PoolIn{Kind: "default", IdleMs: 100, MaxConn: 2, N: 3, KeepAliveMs: -1},
		},
		Gen: func(r *hx.Rand, i int) interface{} {
			return c19PoolIn{Kind: []string{"default", "insecure", "route"}[i%3],
				IdleMs:  []int{0, 60, 100, 100, 150, 200}[r.Intn(6)],
				MaxConn: []int{-1, 0, 1, 1, 2, 2, 3, 4, 7}[r.Intn(9)],
				N:       1 + r.Intn(5), KeepAliveMs: []int{0, 0, -1, 30, 3000}[r.Intn(5)]}
		},
		Run: c19RunPool,
	})
	hx.Register(&hx.Stream{
		Name: "c19.binpool",
		Corpus: []interface{}{
			c19PoolIn{Kind: "insecure", IdleMs: 100, MaxConn: 1, N: 3, Binary: true},
			c19PoolIn{Kind: "default", IdleMs: 60, MaxConn: 3, N: 2, Binary: true},
		},
		Gen: func(r *hx.Rand, i int) interface{} {
			return c19PoolIn{Kind: []string{"insecure", "default", "route"}[i%3],
				IdleMs:  []int{0, 60, 100, 150}[r.Intn(4)],
				MaxConn: []int{-1, 1, 1, 3, 4}[r.Intn(5)],
				N:       2 + r.Intn(3), Binary: true}
		},
		Run: c19RunPool,
	})
}
