package main

// c19.dial — proxy.dialtimeout behaviourally: the target of the route is a listening socket whose accept queue
// is full (backlog 0, one connection parked in it, nobody accepts), so a further connect stays in SYN_SENT. The
// real proxy.HTTPProxy (transports from NewTransport after SetConfig, target from the real table) must give up
// after the configured dial timeout and answer 504 (the dial error is a net.Error with Timeout() = true). The
// response-header timeout runs from the moment the request is written and therefore plays no part, whether it
// is shorter or longer than the dial timeout. Before a case counts, the harness checks with a dial of its own
// that connects to the socket really hang in this environment.

import (
	"encoding/json"
	"fmt"
	"io"
	"net"
	"net/http"
	"net/http/httptest"
	"strings"
	"syscall"
	"time"

	"github.com/fabiolb/fabio/route"
	"github.com/fabiolb/fabio/transport"
	"verif/harness/hx"
)

type c19DialIn struct {
	Kind   string `json:"kind"`    // default | insecure | route
	DialMs int    `json:"dial_ms"` // proxy.dialtimeout
	RHTMs  int    `json:"rht_ms"`  // proxy.responseheadertimeout (0 = none)
	Method string `json:"method,omitempty"`
	Binary bool   `json:"binary,omitempty"` // c19.bindial: through the real fabio executable
}

type c19DialOut struct {
	Status    int    `json:"status"`
	ElapsedUs int64  `json:"elapsed_us"`
	SlackUs   int64  `json:"slack_us"`
	Attempts  int    `json:"attempts"`
	NoiseUs   int64  `json:"noise_us"`
	Err       string `json:"err,omitempty"`
}

// c19FullSocket returns the address of a socket on which connects hang, and a function that releases it.
func c19FullSocket() (addr string, release func(), err error) {
	fd, err := syscall.Socket(syscall.AF_INET, syscall.SOCK_STREAM, 0)
	if err != nil {
		return "", nil, err
	}
	if err := syscall.Bind(fd, &syscall.SockaddrInet4{Addr: [4]byte{127, 0, 0, 1}}); err != nil {
		syscall.Close(fd)
		return "", nil, err
	}
	if err := syscall.Listen(fd, 0); err != nil {
		syscall.Close(fd)
		return "", nil, err
	}
	sa, err := syscall.Getsockname(fd)
	if err != nil {
		syscall.Close(fd)
		return "", nil, err
	}
	addr = fmt.Sprintf("127.0.0.1:%d", sa.(*syscall.SockaddrInet4).Port)
	var parked []net.Conn
	release = func() {
		for _, c := range parked {
			c.Close()
		}
		syscall.Close(fd)
	}
	// fill the accept queue, then make sure a further connect hangs
	for i := 0; i < 4; i++ {
		c, err := net.DialTimeout("tcp", addr, 40*time.Millisecond)
		if err != nil {
			if ne, ok := err.(net.Error); ok && ne.Timeout() {
				return addr, release, nil
			}
			release()
			return "", nil, err
		}
		parked = append(parked, c)
	}
	release()
	return "", nil, fmt.Errorf("connects to a socket with a full accept queue do not hang here")
}

func c19DialOnce(in c19DialIn) (out c19DialOut) {
	out.SlackUs = c19Slack.Microseconds()
	addr, release, err := c19FullSocket()
	if err != nil {
		out.Err = "env: " + err.Error()
		return
	}
	defer release()
	var tgt c19Target
	switch in.Kind {
	case "default":
		tgt = c19Target{Scheme: "http"}
	case "insecure":
		tgt = c19Target{Scheme: "https", Skip: true}
	default:
		tgt = c19Target{Scheme: "https", Host: "foo.com", Skip: true}
	}
	cc := c19Cfg{Dial: int64(in.DialMs) * int64(time.Millisecond), RHT: int64(in.RHTMs) * int64(time.Millisecond),
		KeepAlive: int64(time.Second), Idle: int64(time.Second), MaxConn: 4}
	frontURL := ""
	if in.Binary {
		f, errs := c19StartFabio(tgt, addr, cc, false, nil, "")
		if f == nil {
			out.Err = errs
			return
		}
		defer f.Stop()
		defer func() {
			if f.Gone(0) {
				out.Err = "env: the fabio process exited during the measurement"
			}
		}()
		frontURL = "http://" + f.Addr
	} else {
		cfg := cc.config()
		transport.SetConfig(cfg)
		tbl, err := c19Table(tgt, addr)
		if err != nil {
			out.Err = err.Error()
			return
		}
		globs := route.NewGlobCache(16)
		p := c19Proxy(cfg.Proxy, func(r *http.Request) *route.Target {
			return tbl.Lookup(r, "", route.Picker["rnd"], route.Matcher["prefix"], globs, false)
		})
		front := httptest.NewServer(p)
		defer front.Close()
		frontURL = front.URL
	}
	// a proxy without a dial timeout would hang until the kernel gives up (minutes): the client does not wait for that
	cl := &http.Client{Transport: &http.Transport{DisableKeepAlives: true}, Timeout: time.Duration(in.DialMs)*time.Millisecond + 1500*time.Millisecond}
	method := in.Method
	if method == "" {
		method = "GET"
	}
	req, err := http.NewRequest(method, frontURL+"/", nil)
	if err != nil {
		out.Err = "request: " + err.Error()
		return
	}
	noise := c19Noise()
	defer func() { out.NoiseUs = noise().Microseconds() }()
	t0 := time.Now()
	resp, err := cl.Do(req)
	out.ElapsedUs = time.Since(t0).Microseconds()
	if err != nil {
		out.Err = "client: " + err.Error()
		return
	}
	io.Copy(io.Discard, resp.Body)
	resp.Body.Close()
	out.Status = resp.StatusCode
	return
}

func c19RunDial(raw json.RawMessage) (interface{}, error) {
	var in c19DialIn
	if err := json.Unmarshal(raw, &in); err != nil {
		return nil, err
	}
	if in.Kind != "default" && in.Kind != "insecure" && in.Kind != "route" {
		return nil, fmt.Errorf("unknown kind")
	}
	if in.DialMs < 40 || in.DialMs > 1000 || in.RHTMs < 0 || in.RHTMs > 5000 || (in.RHTMs != 0 && in.RHTMs < 10) {
		return nil, fmt.Errorf("case outside the range of the stream")
	}
	if in.Method != "" && !c19In(c19Methods, in.Method) {
		return nil, fmt.Errorf("method outside the stream's universe")
	}
	var out c19DialOut
	quiet := 0
	for a := 1; a <= 6; a++ {
		out = c19DialOnce(in)
		out.Attempts = a
		if strings.HasPrefix(out.Err, "env:") {
			return out, nil
		}
		ok := out.Err == "" && out.Status == http.StatusGatewayTimeout
		if ok && out.ElapsedUs <= int64(in.DialMs)*1000+out.SlackUs {
			return out, nil
		}
		if !(ok && out.NoiseUs > c19NoiseLimit.Microseconds()) { // wrong, or late on a quiet machine
			quiet++
			if quiet >= 3 {
				return out, nil
			}
		}
		time.Sleep(time.Duration(a) * 100 * time.Millisecond)
	}
	if out.Err == "" && out.Status == http.StatusGatewayTimeout && out.NoiseUs > c19NoiseLimit.Microseconds() {
		out.Err = "env: the machine is too busy for a wall-clock measurement"
	}
	return out, nil
}

func init() {
	hx.Register(&hx.Stream{
		Name: "c19.dial",
		Corpus: []interface{}{
			c19DialIn{Kind: "default", DialMs: 100, RHTMs: 0},
			c19DialIn{Kind: "route", DialMs: 60, RHTMs: 1000},
			c19DialIn{Kind: "insecure", DialMs: 200, RHTMs: 20},
		},
		Gen: func(r *hx.Rand, i int) interface{} {
			return c19DialIn{Kind: []string{"default", "insecure", "route"}[i%3],
				DialMs: []int{60, 100, 200, 400}[r.Intn(4)],
				RHTMs:  []int{0, 20, 50, 1000, 3000}[r.Intn(5)],
				Method: c19Methods[r.Intn(len(c19Methods))]}
		},
		Run: c19RunDial,
	})
	hx.Register(&hx.Stream{
		Name: "c19.bindial",
		Corpus: []interface{}{
			c19DialIn{Kind: "insecure", DialMs: 100, RHTMs: 0, Binary: true},
		},
		Gen: func(r *hx.Rand, i int) interface{} {
			return c19DialIn{Kind: []string{"default", "insecure", "route"}[i%3],
				DialMs: []int{60, 100, 200}[r.Intn(3)],
				RHTMs:  []int{0, 20, 1000}[r.Intn(3)],
				Method: c19Methods[r.Intn(len(c19Methods))], Binary: true}
		},
		Run: c19RunDial,
	})
}
