package main

// c19.load — from what the operator wrote to the transports: command line, environment and properties file →
// the real config.Load → transport.SetConfig → the transports the program builds (as in c19.fields). The five
// transport options come from one or several sources each (so precedence shows) in several spellings of the
// same duration; around them the configuration holds what a proxy configuration usually holds as well:
// listeners with their own read/write/idle timeouts, the global read/write timeouts, flush intervals, registry
// timeouts — often shorter than the five, so that code which mixes one of them into a transport option shows.
//
// The model (Model/C19Load.lean) parses the same texts; the specification does not: it compares the fields of
// the built transports with the numbers the generator meant (`want`, nil where the winning text is malformed).

import (
	"encoding/json"
	"flag"
	"fmt"
	"net/http"
	"os"
	"regexp"
	"strings"
	"time"

	"github.com/fabiolb/fabio/config"
	"github.com/fabiolb/fabio/transport"
	"verif/harness/hx"
)

type c19Want struct {
	Dial      *int64 `json:"dial"`
	RHT       *int64 `json:"rht"`
	KeepAlive *int64 `json:"keepalive"`
	Idle      *int64 `json:"idle"`
	MaxConn   *int64 `json:"maxconn"`
}

type c19LoadIn struct {
	Args   []string    `json:"args"`  // command line without the executable name
	Env    []string    `json:"env"`   // NAME=value
	Props  [][2]string `json:"props"` // lines "key = value" of the properties file (none = no -cfg)
	Want   c19Want     `json:"want"`
	Target c19Target   `json:"target"`
}

var c19FiveNames = []string{"proxy.dialtimeout", "proxy.responseheadertimeout", "proxy.keepalivetimeout", "proxy.idleconntimeout", "proxy.maxconn"}

// the other value-taking options the stream puts on a command line
var c19OtherDurations = []string{"proxy.readtimeout", "proxy.writetimeout", "proxy.shutdownwait", "proxy.flushinterval",
	"proxy.globalflushinterval", "registry.timeout", "registry.retry"}

var c19ArgOK = regexp.MustCompile(`^[-+0-9A-Za-zµμ._=:;,]{1,600}$`)
var c19EnvOK = regexp.MustCompile(`^[-+0-9A-Za-zµμ._=:;, ]{0,600}$`)
var c19KeyOK = regexp.MustCompile(`^[A-Za-z._]{1,60}$`)
var c19ValOK = regexp.MustCompile(`^[-+0-9A-Za-zµμ._]*( [-+0-9A-Za-zµμ._]+)*$`)

// c19Spell writes a duration the way operators do: Go's own format, a count of one unit, a decimal fraction.
func c19Spell(r *hx.Rand, ns int64) string {
	if ns == 0 && r.Chance(1, 2) {
		return r.Pick([]string{"0", "0s", "0ms", "+0", "0h0m0s"})
	}
	abs := ns
	sign := ""
	if ns < 0 {
		if ns == -1<<63 {
			return time.Duration(ns).String()
		}
		abs, sign = -ns, "-"
	} else if r.Chance(1, 10) {
		sign = "+"
	}
	switch r.Intn(7) {
	case 0:
		return fmt.Sprintf("%s%dns", sign, abs)
	case 1:
		if abs%1000 == 0 {
			return fmt.Sprintf("%s%d%s", sign, abs/1000, r.Pick([]string{"us", "µs", "μs"}))
		}
	case 2:
		if abs%1000000 == 0 {
			return fmt.Sprintf("%s%dms", sign, abs/1000000)
		}
	case 3:
		if abs%1000000000 == 0 {
			return fmt.Sprintf("%s%ds", sign, abs/1000000000)
		}
	case 4: // seconds with a fraction, trailing zeros dropped
		if abs < 1<<53 {
			f := strings.TrimRight(fmt.Sprintf("%09d", abs%1000000000), "0")
			if f != "" {
				return fmt.Sprintf("%s%d.%ss", sign, abs/1000000000, f)
			}
		}
	case 5: // milliseconds with a fraction
		if abs%1000 == 0 && abs < 1<<50 {
			f := strings.TrimRight(fmt.Sprintf("%03d", abs/1000%1000), "0")
			if f != "" {
				return fmt.Sprintf("%s%d.%sms", sign, abs/1000000, f)
			}
		}
	}
	s := time.Duration(abs).String()
	return sign + s
}

var c19Malformed = []string{"", "5", "1.5", "3sec", "s", "1 s", "ten", "1s2", "--1s", "1e3ms", ".s", "9223372036854775808ns", "1d"}

type c19Given struct {
	src  string // cmdline | cmdline= | cmdline-- | env | envbare | envlower | props
	text string
	want *int64
}

func c19SrcRank(src string) int {
	switch {
	case strings.HasPrefix(src, "cmdline"):
		return 0
	case src == "env" || src == "envlower":
		return 1
	case src == "envbare":
		return 2
	}
	return 3
}

func c19EnvName(pfx, name string) string {
	return strings.ToUpper(pfx + strings.Replace(name, ".", "_", -1))
}

func c19GenLoad(r *hx.Rand) c19LoadIn {
	in := c19LoadIn{Args: []string{}, Env: []string{}, Props: [][2]string{}, Target: c19GenTarget(r)}
	defaults := []int64{int64(30 * time.Second), 0, 0, int64(15 * time.Second), 10000}
	wants := make([]*int64, 5)
	var rht int64
	for i, name := range c19FiveNames {
		d := defaults[i]
		wants[i] = &d
		if r.Chance(1, 5) {
			continue // not configured: the default
		}
		n := 1
		if r.Chance(1, 3) {
			n = 2 + r.Intn(2)
		}
		srcs := []string{"cmdline", "cmdline=", "cmdline--", "env", "envbare", "envlower", "props"}
		var given []c19Given
		used := map[int]bool{}
		for k := 0; k < n; k++ {
			src := srcs[r.Intn(len(srcs))]
			// one entry per rank, except the command line where the last occurrence wins
			if used[c19SrcRank(src)] && c19SrcRank(src) != 0 {
				continue
			}
			used[c19SrcRank(src)] = true
			var g c19Given
			g.src = src
			if i == 4 {
				v := c19GenCfg(r).MaxConn
				g.text, g.want = fmt.Sprint(v), &v
				if v > 0 && r.Chance(1, 10) {
					g.text = "+" + g.text
				}
			} else {
				v := c19GenDuration(r)
				g.text, g.want = c19Spell(r, v), &v
			}
			if c19SrcRank(src) != 0 && r.Chance(1, 15) { // a malformed text on the command line ends the process
				g.text, g.want = c19Malformed[r.Intn(len(c19Malformed))], nil
				if i == 4 {
					g.text = r.Pick([]string{"", "x", "1.5", "ten", "1e3"})
				}
			}
			given = append(given, g)
		}
		best := -1
		for k, g := range given {
			switch g.src {
			case "cmdline":
				in.Args = append(in.Args, "-"+name, g.text)
			case "cmdline=":
				in.Args = append(in.Args, "-"+name+"="+g.text)
			case "cmdline--":
				in.Args = append(in.Args, "--"+name+"="+g.text)
			case "env":
				in.Env = append(in.Env, c19EnvName("FABIO_", name)+"="+g.text)
			case "envlower":
				in.Env = append(in.Env, strings.ToLower(c19EnvName("FABIO_", name))+"="+g.text)
			case "envbare":
				in.Env = append(in.Env, c19EnvName("", name)+"="+g.text)
			case "props":
				in.Props = append(in.Props, [2]string{name, g.text})
			}
			// the winner: lowest rank; on the command line the last one
			if best < 0 || c19SrcRank(g.src) < c19SrcRank(given[best].src) || (c19SrcRank(g.src) == 0 && c19SrcRank(given[best].src) == 0) {
				best = k
			}
		}
		if best >= 0 {
			wants[i] = given[best].want
		}
		if i == 1 && wants[i] != nil {
			rht = *wants[i]
		}
	}
	in.Want = c19Want{wants[0], wants[1], wants[2], wants[3], wants[4]}
	// the rest of a configuration: listeners and other time limits, often below the response-header timeout
	small := func() string {
		var v int64
		switch r.Intn(4) {
		case 0:
			v = rht / 2
		case 1:
			v = rht / 10
		case 2:
			v = int64(r.Intn(2000)) * int64(time.Millisecond)
		default:
			v = c19Durations[r.Intn(len(c19Durations))]
		}
		if v <= 0 {
			v = int64(1+r.Intn(500)) * int64(time.Millisecond)
		}
		return c19Spell(r, v)
	}
	if r.Chance(2, 3) {
		var ls []string
		for k, n := 0, 1+r.Intn(3); k < n; k++ {
			l := r.Pick([]string{":", "127.0.0.1:", "0.0.0.0:"}) + fmt.Sprint(9990+k)
			if r.Chance(1, 3) {
				l += ";proto=" + r.Pick([]string{"http", "tcp", "grpc", "prometheus"})
			}
			for _, o := range []string{"rt", "wt", "it"} {
				if r.Chance(1, 2) {
					l += ";" + o + "=" + small()
				}
			}
			ls = append(ls, l)
		}
		in.Args = append(in.Args, "-proxy.addr="+strings.Join(ls, ","))
	}
	for _, name := range c19OtherDurations {
		if r.Chance(1, 4) {
			switch r.Intn(3) {
			case 0:
				in.Args = append(in.Args, "-"+name, small())
			case 1:
				in.Env = append(in.Env, c19EnvName("FABIO_", name)+"="+small())
			default:
				in.Props = append(in.Props, [2]string{name, small()})
			}
		}
	}
	// the order of flags on a command line is free
	if r.Chance(1, 2) && len(in.Args) > 0 {
		// rotate whole flags (a flag in the `-name value` form is two arguments)
		var groups [][]string
		for k := 0; k < len(in.Args); k++ {
			if !strings.Contains(in.Args[k], "=") && k+1 < len(in.Args) {
				groups = append(groups, []string{in.Args[k], in.Args[k+1]})
				k++
			} else {
				groups = append(groups, []string{in.Args[k]})
			}
		}
		// rotation keeps the relative order of repeated flags except across the cut; repeated flags are only the
		// five, and their winner is recomputed by the model from the text, the spec from `want`: keep it simple
		// and only rotate when no flag is repeated
		seen := map[string]bool{}
		repeated := false
		for _, g := range groups {
			n := strings.TrimLeft(strings.SplitN(g[0], "=", 2)[0], "-")
			if seen[n] {
				repeated = true
			}
			seen[n] = true
		}
		if !repeated {
			cut := r.Intn(len(groups))
			var out []string
			for _, g := range append(append([][]string{}, groups[cut:]...), groups[:cut]...) {
				out = append(out, g...)
			}
			in.Args = out
		}
	}
	return in
}

// c19ArgsWouldExit says whether config.Load would end the process on this command line (flag.ExitOnError):
// the same flags, as far as the stream uses them, are parsed with flag.ContinueOnError first.
func c19ArgsWouldExit(args []string) error {
	fs := flag.NewFlagSet("fabio", flag.ContinueOnError)
	fs.SetOutput(discard{})
	for _, n := range c19FiveNames[:4] {
		fs.Duration(n, 0, "")
	}
	fs.Int("proxy.maxconn", 0, "")
	for _, n := range c19OtherDurations {
		fs.Duration(n, 0, "")
	}
	fs.String("proxy.addr", "", "")
	if err := fs.Parse(args); err != nil {
		return fmt.Errorf("config.Load would exit: %v", err)
	}
	if fs.NArg() != 0 {
		return fmt.Errorf("non-flag arguments")
	}
	return nil
}

type discard struct{}

func (discard) Write(p []byte) (int, error) { return len(p), nil }

func c19RunLoad(raw json.RawMessage) (interface{}, error) {
	var in c19LoadIn
	if err := json.Unmarshal(raw, &in); err != nil {
		return nil, err
	}
	if len(in.Args) > 40 || len(in.Env) > 40 || len(in.Props) > 40 {
		return nil, fmt.Errorf("input too large")
	}
	for _, a := range in.Args {
		if !c19ArgOK.MatchString(a) {
			return nil, fmt.Errorf("argument outside the stream's alphabet")
		}
	}
	for _, e := range in.Env {
		if !c19EnvOK.MatchString(e) {
			return nil, fmt.Errorf("environment entry outside the stream's alphabet")
		}
	}
	if err := c19ArgsWouldExit(in.Args); err != nil {
		return nil, err
	}
	args := append([]string{"fabio"}, in.Args...)
	if len(in.Props) > 0 {
		var b strings.Builder
		for _, kv := range in.Props {
			if !c19KeyOK.MatchString(kv[0]) || !c19ValOK.MatchString(kv[1]) {
				return nil, fmt.Errorf("property outside the stream's alphabet")
			}
			fmt.Fprintf(&b, "%s = %s\n", kv[0], kv[1])
		}
		f, err := os.CreateTemp("", "c19-props-*.properties")
		if err != nil {
			return nil, err
		}
		defer os.Remove(f.Name())
		if _, err := f.WriteString(b.String()); err != nil {
			f.Close()
			return nil, err
		}
		f.Close()
		args = append(args, "-cfg", f.Name())
	}
	cfg, err := config.Load(args, in.Env)
	if err != nil {
		return nil, fmt.Errorf("config.Load: %v", err)
	}
	if cfg == nil {
		return nil, fmt.Errorf("config.Load returned no configuration")
	}
	// main: transport.SetConfig(cfg) with what Load returned, then the proxies and the table
	transport.SetConfig(cfg)
	p := c19Proxy(cfg.Proxy, nil)
	tbl, err := c19Table(in.Target, "127.0.0.1:9")
	if err != nil {
		return nil, err
	}
	t := c19OnlyTarget(tbl)
	if t == nil {
		return nil, fmt.Errorf("the table has no target")
	}
	def, _ := p.Transport.(*http.Transport)
	ins, _ := p.InsecureTransport.(*http.Transport)
	return map[string]interface{}{
		"loaded": c19Cfg{Dial: int64(cfg.Proxy.DialTimeout), RHT: int64(cfg.Proxy.ResponseHeaderTimeout),
			KeepAlive: int64(cfg.Proxy.KeepAliveTimeout), Idle: int64(cfg.Proxy.IdleConnTimeout), MaxConn: int64(cfg.Proxy.MaxConn)},
		"default":     c19Observe(def),
		"insecure":    c19Observe(ins),
		"route":       c19Observe(t.Transport),
		"target_skip": t.TLSSkipVerify,
	}, nil
}

func i64(v int64) *int64 { return &v }

func init() {
	s := int64(time.Second)
	hx.Register(&hx.Stream{
		Name: "c19.load",
		Corpus: []interface{}{
			// nothing configured: the defaults
			c19LoadIn{Args: []string{}, Env: []string{}, Props: [][2]string{}, Target: c19Target{Scheme: "http"},
				Want: c19Want{i64(30 * s), i64(0), i64(0), i64(15 * s), i64(10000)}},
			// the demonstration shape of a listener write timeout below the response-header timeout
			c19LoadIn{Args: []string{"-proxy.addr", ":9999,:9998;wt=300ms", "-proxy.responseheadertimeout", "2s"}, Env: []string{}, Props: [][2]string{},
				Target: c19Target{Scheme: "https", Host: "foo.com", Skip: true},
				Want:   c19Want{i64(30 * s), i64(2 * s), i64(0), i64(15 * s), i64(10000)}},
			// precedence: command line over environment over properties; FABIO_ prefix over none
			c19LoadIn{Args: []string{"-proxy.dialtimeout=1s"}, Env: []string{"FABIO_PROXY_DIALTIMEOUT=2s", "PROXY_IDLECONNTIMEOUT=7s", "fabio_proxy_idleconntimeout=8s"},
				Props:  [][2]string{{"proxy.dialtimeout", "3s"}, {"proxy.keepalivetimeout", "1m30s"}, {"proxy.maxconn", "12"}},
				Target: c19Target{Scheme: "http"},
				Want:   c19Want{i64(1 * s), i64(0), i64(90 * s), i64(8 * s), i64(12)}},
			// a malformed value from the environment is stored as zero (flag.Value.Set), not as the default
			c19LoadIn{Args: []string{}, Env: []string{"FABIO_PROXY_DIALTIMEOUT=3sec"}, Props: [][2]string{}, Target: c19Target{Scheme: "http"},
				Want: c19Want{nil, i64(0), i64(0), i64(15 * s), i64(10000)}},
		},
		Gen: func(r *hx.Rand, i int) interface{} { return c19GenLoad(r) },
		Run: c19RunLoad,
	})
}
