package main

import (
	"encoding/json"

	"verif/harness/hx"
)

func ip(v int) *int { return &v }

var kinds = []string{"http", "tcp", "sni", "grpc", "inetaf", "https"}

func ppKind(k string) bool { return k == "http" || k == "https" || k == "tcp" || k == "sni" }

// an end tick relative to the wait: 0 short (≤ wait/4), 1 long but finite (3..5 × wait), 2 never
func genEnd(r *hx.Rand, wait, class int) *int {
	switch class {
	case 0:
		return ip(r.Range(0, wait/4))
	case 1:
		return ip(r.Range(3*wait, 5*wait))
	}
	return nil
}

func genWork(r *hx.Rand, wait, max int) []*int {
	n := r.Range(0, max)
	w := []*int{}
	for i := 0; i < n; i++ {
		w = append(w, genEnd(r, wait, r.Intn(3)))
	}
	return w
}

// the first cases of every run walk through one designed scenario per listener type and class of work, so
// that the quick tier covers all of them whatever the seed; the rest are random mixes.
func designed(r *hx.Rand, i, wait int) []SrvIn {
	k := kinds[i%len(kinds)]
	switch i / len(kinds) {
	case 0: // one endless piece of work (the tunnel/stream that never ends) next to a short one
		s := SrvIn{Kind: k, Work: []*int{nil, genEnd(r, wait, 0)}}
		if k == "inetaf" {
			s.HWork = []*int{genEnd(r, wait, 0), nil}
		}
		return []SrvIn{s}
	default: // short work only, and an idle second listener of another type
		s := SrvIn{Kind: k, Work: []*int{genEnd(r, wait, 0), genEnd(r, wait, 0)}}
		if k == "inetaf" {
			s.HWork = []*int{genEnd(r, wait, 0)}
		}
		if ppKind(k) {
			s.PP = r.Chance(1, 2) // the same listener behind the PROXY protocol
		}
		if r.Chance(1, 3) {
			return []SrvIn{s, {Kind: "prom", Work: []*int{}}}
		}
		other := kinds[(i+1+r.Intn(len(kinds)-1))%len(kinds)]
		if other == "tcp" || other == "sni" || other == "inetaf" || k == "tcp" || k == "sni" || k == "inetaf" {
			return []SrvIn{s, {Kind: other, Work: []*int{}}}
		}
		return []SrvIn{s, {Kind: other, Work: []*int{genEnd(r, wait, 0)}}}
	}
}

func genScenario(r *hx.Rand, i int) interface{} {
	wait := []int{450, 600, 750}[r.Intn(3)]
	in := ScenarioIn{Wait: wait}
	if i < 2*len(kinds) {
		in.Servers = designed(r, i, wait)
		return in
	}
	if j := i - 2*len(kinds); j < 3 { // a handler stuck in its upstream dial, next to a short tunnel
		k := []string{"tcp", "sni", "inetaf"}[j]
		in.Servers = []SrvIn{{Kind: k, Work: []*int{genEnd(r, wait, 0)}, Dial: r.Range(1, 2)}}
		return in
	}
	if j := i - 2*len(kinds) - 3; j >= 0 && j < 2 { // the route of a dynamic listener disappears 50 ms before shutdown
		other := SrvIn{Kind: "http", Work: []*int{}}
		if j == 1 {
			other = SrvIn{Kind: "tcp", Work: []*int{nil, genEnd(r, wait, 0)}}
		}
		in.Servers = []SrvIn{{Kind: "tcp", Work: []*int{nil}, Removed: true}, other}
		return in
	}
	if j := i - 2*len(kinds) - 5; j >= 0 && j < 2 { // websocket sessions: hijacked connections on the http side
		if j == 0 {
			in.Servers = []SrvIn{{Kind: "http", Work: []*int{}, WS: []*int{genEnd(r, wait, 0), nil}}}
		} else {
			in.Servers = []SrvIn{{Kind: "inetaf", Work: []*int{genEnd(r, wait, 0)}, HWork: []*int{}, WS: []*int{genEnd(r, wait, 0), genEnd(r, wait, 1)}}}
		}
		return in
	}
	if j := i - 2*len(kinds) - 7; j >= 0 && j < 2 { // a listener whose start is still in progress when shutdown begins
		if j == 0 {
			in.Servers = []SrvIn{{Kind: "http", Work: []*int{genEnd(r, wait, 0)}}, {Kind: r.Pick([]string{"http", "inetaf"}), Work: []*int{}, Pending: r.Range(50, 300)}}
		} else {
			in.Servers = []SrvIn{{Kind: "tcp", Work: []*int{}, Pending: r.Range(50, 200)}, {Kind: "grpc", Work: []*int{}, Pending: r.Range(wait, wait+300)}}
		}
		return in
	}
	n := r.Range(1, 4)
	for j := 0; j < n; j++ {
		s := SrvIn{Kind: r.Pick(kinds)}
		if r.Chance(1, 8) {
			s.Work = []*int{}
			s.Pending = r.Range(50, 1000)
			in.Servers = append(in.Servers, s)
			continue
		}
		if r.Chance(1, 40) { // the excluded point of no_accept_after_shutdown_begins_partial (recorded finding)
			s.Work = []*int{}
			s.Late = r.Range(20, wait)
			in.Servers = append(in.Servers, s)
			continue
		}
		if r.Chance(1, 10) {
			in.Servers = append(in.Servers, SrvIn{Kind: "prom", Work: []*int{}})
			continue
		}
		if ppKind(s.Kind) && r.Chance(1, 4) {
			s.PP = true
		}
		if (s.Kind == "http" || s.Kind == "https" || s.Kind == "inetaf") && r.Chance(1, 3) {
			s.WS = genWork(r, wait, 2)
		}
		s.Work = genWork(r, wait, 3)
		if s.Kind == "inetaf" {
			s.HWork = genWork(r, wait, 2)
		}
		if (s.Kind == "tcp" || s.Kind == "sni" || s.Kind == "inetaf") && r.Chance(1, 4) {
			s.Dial = r.Range(1, 2)
		}
		if s.Kind == "tcp" && s.Dial == 0 && r.Chance(1, 5) {
			s.Removed = true
			for k := range s.Work {
				s.Work[k] = nil
			}
		}
		in.Servers = append(in.Servers, s)
	}
	return in
}

func init() {
	hx.Register(&hx.Stream{
		Name: "c18.shutdown",
		Gen:  genScenario,
		Run: func(raw json.RawMessage) (interface{}, error) {
			var in ScenarioIn
			if err := json.Unmarshal(raw, &in); err != nil {
				return nil, err
			}
			return runScenario(&in)
		},
		Corpus: []interface{}{
			// nothing registered at all: Shutdown returns at once
			ScenarioIn{Wait: 300, Servers: []SrvIn{}},
			// an idle tcp server still takes the whole wait
			ScenarioIn{Wait: 300, Servers: []SrvIn{{Kind: "tcp", Work: []*int{}}}},
		},
	})
}
