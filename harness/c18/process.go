package main

// c18.process: the real fabio binary (built from the current /repo tree, no verif tag), started with an http,
// a tcp and optionally a tcp-dynamic listener, terminated with SIGTERM. Observed from outside: whether the
// listeners still accept during the deregister grace period (exit-handler order), whether any of them accepts
// after proxy.Shutdown began, and when the process exits relative to grace + wait.

import (
	"encoding/json"
	"errors"
	"fmt"
	"net"
	"os"
	"os/exec"
	"path/filepath"
	"strings"
	"sync"
	"syscall"
	"time"

	"verif/harness/hx"
)

type ProcIn struct {
	Wait    int  `json:"wait"`    // proxy.shutdownwait, ms
	Grace   int  `json:"grace"`   // proxy.deregistergraceperiod, ms
	Dynamic bool `json:"dynamic"` // add a tcp-dynamic listener
	Refresh int  `json:"refresh"` // its refresh interval, ms
	// a second signal ("TERM" or "INT") SecondAfter ms after the SIGTERM, i.e. while the exit handler is draining
	Second      string `json:"second,omitempty"`
	SecondAfter int    `json:"second_after,omitempty"`
	// what the endless and the short piece of work are: "" = tunnels through the tcp listener, "http" = requests,
	// "ws" = websocket sessions (both through the http listener), "grpc" = server-streaming calls through an
	// additional grpc listener
	Via string `json:"via,omitempty"`
	// no plain tcp listener in the configuration: nothing forces proxy.Shutdown to take the whole wait (a
	// tcp.Server always does), so the process ends as soon as the http side has drained
	NoTCP bool `json:"notcp,omitempty"`
	// SIGHUPs sent before the SIGTERM, 30 ms apart (logrotate, a supervisor's "reload"): ignored by design
	Hups int `json:"hups,omitempty"`
}

type ProcOut struct {
	Exit          string   `json:"exit"` // early | deadline | over
	AcceptedAfter bool     `json:"accepted_after"`
	OrderOK       bool     `json:"order_ok"`
	ShortDone     bool     `json:"short_completed"` // a tunnel that ends a quarter into the wait completed
	ExitMs        int64    `json:"exit_ms"`
	Notes         []string `json:"notes,omitempty"`
}

var errEnvelope = errors.New("outside the measurable envelope")

const procSlackMs = 800 // process teardown on top of the in-process slack

var (
	fabioOnce sync.Once
	fabioBin  string
	fabioErr  error
)

func verifDir() string {
	if d := os.Getenv("VERIF_DIR"); d != "" {
		return d
	}
	if exe, err := os.Executable(); err == nil {
		return filepath.Dir(filepath.Dir(exe)) // <verif>/bin/fvh-c18
	}
	return "/verif"
}

func buildFabio() (string, error) {
	fabioOnce.Do(func() {
		repo := os.Getenv("VERIF_REPO")
		if repo == "" {
			repo = "/repo"
		}
		vd := verifDir()
		os.MkdirAll(filepath.Join(vd, ".work"), 0o755)
		// own lock: bin/fabio-c18 is written by nobody else, the go build cache is safe for concurrent use, and
		// the shared build.lock can be queued for many minutes while this stream's timeout is running
		lock, err := os.OpenFile(filepath.Join(vd, ".work", "c18-fabio.lock"), os.O_CREATE|os.O_RDWR, 0o644)
		if err != nil {
			fabioErr = err
			return
		}
		defer lock.Close()
		if err := syscall.Flock(int(lock.Fd()), syscall.LOCK_EX); err != nil {
			fabioErr = err
			return
		}
		defer syscall.Flock(int(lock.Fd()), syscall.LOCK_UN)
		out := filepath.Join(vd, "bin", "fabio-c18")
		cmd := exec.Command("go", "build", "-o", out, ".")
		cmd.Dir = repo
		if b, err := cmd.CombinedOutput(); err != nil {
			fabioErr = fmt.Errorf("go build fabio: %v: %s", err, b)
			return
		}
		fabioBin = out
	})
	return fabioBin, fabioErr
}

func waitUp(addr string, d time.Duration) bool {
	end := time.Now().Add(d)
	for time.Now().Before(end) {
		if probe(addr) {
			return true
		}
		time.Sleep(20 * time.Millisecond)
	}
	return false
}

func runProcess(in *ProcIn) (*ProcOut, error) {
	if in.Wait < 600 || in.Wait > 5000 || in.Grace < 300 || in.Grace > 3000 {
		return nil, fmt.Errorf("%w: wait/grace", errEnvelope)
	}
	// the refresher's next wake-up after SIGTERM must fall well inside grace + wait, or nothing can be observed
	if in.Dynamic && (in.Refresh < 50 || in.Refresh+500 > in.Grace+in.Wait) {
		return nil, fmt.Errorf("%w: refresh must be ≥ 50 ms and end ≥ 500 ms before grace + wait", errEnvelope)
	}
	if in.Hups < 0 || in.Hups > 5 {
		return nil, fmt.Errorf("%w: hups", errEnvelope)
	}
	switch in.Via {
	case "":
		if in.NoTCP {
			return nil, fmt.Errorf("%w: tunnels need the tcp listener", errEnvelope)
		}
	case "http", "ws", "grpc":
	default:
		return nil, fmt.Errorf("%w: via %q", errEnvelope, in.Via)
	}
	switch in.Second {
	case "":
	case "TERM", "INT": // the short tunnel (ends at grace + wait/4) must still be in flight when it arrives
		if in.SecondAfter < 50 || in.SecondAfter+100 > in.Grace+in.Wait/4 {
			return nil, fmt.Errorf("%w: second_after", errEnvelope)
		}
	default:
		return nil, fmt.Errorf("%w: second signal %q", errEnvelope, in.Second)
	}
	bin, err := buildFabio()
	if err != nil {
		return nil, err
	}
	u, err := getUpstreams()
	if err != nil {
		return nil, err
	}
	var addrs [5]string
	for i := range addrs {
		if addrs[i], err = freeAddr(); err != nil {
			return nil, err
		}
	}
	httpA, tcpA, uiA, dynA, grpcA := addrs[0], addrs[1], addrs[2], addrs[3], addrs[4]
	_, dynPort, _ := net.SplitHostPort(dynA)
	_, tcpPort, _ := net.SplitHostPort(tcpA)
	listen := httpA + ";proto=http"
	routes := "route add hold / http://" + u.httpAddr
	if !in.NoTCP {
		listen += "," + tcpA + ";proto=tcp"
		routes += "\nroute add plain :" + tcpPort + " tcp://" + u.tcpAddr
	}
	if in.Via == "grpc" {
		listen += "," + grpcA + ";proto=grpc"
		routes += "\nroute add holdgrpc /verif.Hold grpc://" + u.grpcAddr + " opts \"proto=grpc\""
	}
	if in.Dynamic {
		listen += fmt.Sprintf(",127.0.0.1:0;proto=tcp-dynamic;refresh=%dms", in.Refresh)
		routes += "\nroute add dyn :" + dynPort + " tcp://" + u.tcpAddr
	}
	cmd := exec.Command(bin,
		"-insecure",
		"-registry.backend", "static",
		"-registry.static.routes", routes,
		"-proxy.addr", listen,
		"-ui.addr", uiA,
		"-proxy.shutdownwait", fmt.Sprintf("%dms", in.Wait),
		"-proxy.deregistergraceperiod", fmt.Sprintf("%dms", in.Grace),
	)
	var logb strings.Builder
	cmd.Stdout, cmd.Stderr = &logb, &logb
	if err := cmd.Start(); err != nil {
		return nil, err
	}
	exited := make(chan struct{})
	go func() { cmd.Wait(); close(exited) }()
	kill := func() {
		cmd.Process.Kill()
		<-exited
	}
	ports := []string{httpA}
	if !in.NoTCP {
		ports = append(ports, tcpA)
	}
	if in.Via == "grpc" {
		ports = append(ports, grpcA)
	}
	if in.Dynamic {
		ports = append(ports, "127.0.0.1:"+dynPort)
	}
	for _, a := range ports {
		if !waitUp(a, 10*time.Second) {
			kill()
			return nil, fmt.Errorf("fabio listener %s did not come up: %s", a, tail(logb.String(), 600))
		}
	}
	start := func(it *item) {
		switch in.Via {
		case "http":
			startWork("http", false, httpA, false, it)
		case "ws":
			startWS("http", httpA, false, it)
		case "grpc":
			startWork("grpc", false, grpcA, false, it)
		default:
			startWork("tcp", false, tcpA, false, it)
		}
	}
	// a piece of work that never ends
	it := newItem()
	defer dropItem(it)
	defer it.Release()
	start(it)
	select {
	case <-it.started:
	case <-time.After(5 * time.Second):
		kill()
		return nil, fmt.Errorf("work through fabio did not get in flight (%s): %s", it.detail, tail(logb.String(), 400))
	}

	short := newItem()
	defer dropItem(short)
	defer short.Release()
	start(short)
	select {
	case <-short.started:
	case <-time.After(5 * time.Second):
		kill()
		return nil, errors.New("second piece of work through fabio did not get in flight")
	}

	out := &ProcOut{}
	for i := 0; i < in.Hups; i++ {
		cmd.Process.Signal(syscall.SIGHUP)
		time.Sleep(30 * time.Millisecond)
	}
	if in.Hups > 0 { // still there, still serving?
		select {
		case <-exited: // an observation, not a set-up failure: SIGHUP must not end the process
			out.Exit, out.Notes = "early", append(out.Notes, fmt.Sprintf("fabio ended after %d SIGHUP(s): %s", in.Hups, tail(logb.String(), 300)))
			return out, nil
		default:
		}
	}
	grace := time.Duration(in.Grace) * time.Millisecond
	wait := time.Duration(in.Wait) * time.Millisecond
	t0 := time.Now()
	cmd.Process.Signal(syscall.SIGTERM)
	tm := time.AfterFunc(grace+wait/4, short.Release)
	defer tm.Stop()
	if in.Second != "" {
		sig := syscall.SIGTERM
		if in.Second == "INT" {
			sig = syscall.SIGINT
		}
		t2 := time.AfterFunc(time.Duration(in.SecondAfter)*time.Millisecond, func() { cmd.Process.Signal(sig) })
		defer t2.Stop()
	}

	// Poll every listener from SIGTERM until the process is gone. Judged afterwards, in a way that does not
	// depend on how punctual this process or fabio's own sleeps were:
	//  - order: a refusal observed well inside the grace period means Shutdown did not wait for it;
	//  - accepted after shutdown began: a port that was refused (its listener was closed, so shutdown had
	//    begun) and later accepts again, or a port that still accepts half-way through the wait.
	type obs struct {
		at time.Duration
		ok bool
	}
	seen := make([][]obs, len(ports))
	cap := t0.Add(grace + wait + (procSlackMs+blockedCapMs)*time.Millisecond)
loop:
	for time.Now().Before(cap) {
		for i, a := range ports {
			ok := probe(a)
			at := time.Since(t0)
			select {
			case <-exited: // once the process is gone the port may belong to somebody else
				break loop
			default:
			}
			seen[i] = append(seen[i], obs{at, ok})
		}
		time.Sleep(30 * time.Millisecond)
	}
	out.OrderOK = true
	late := grace + wait/2
	for i, a := range ports {
		refusedAt := time.Duration(-1)
		for _, o := range seen[i] {
			switch {
			case !o.ok && o.at < grace-100*time.Millisecond && out.OrderOK:
				out.OrderOK = false
				out.Notes = append(out.Notes, fmt.Sprintf("%s refused %d ms after SIGTERM, inside the %v grace period", a, o.at.Milliseconds(), grace))
			case !o.ok && refusedAt < 0:
				refusedAt = o.at
			case o.ok && (refusedAt >= 0 || o.at >= late):
				if !out.AcceptedAfter {
					out.Notes = append(out.Notes, fmt.Sprintf("%s accepted a connection %d ms after SIGTERM (grace %v, wait %v; first refused at %d ms): shutdown had begun", a, o.at.Milliseconds(), grace, wait, refusedAt.Milliseconds()))
				}
				out.AcceptedAfter = true
			}
		}
	}
	select {
	case <-exited:
		d := time.Since(t0)
		out.ExitMs = d.Milliseconds()
		switch {
		case d > grace+wait+procSlackMs*time.Millisecond:
			out.Exit = "over"
		case d < grace+wait-earlyMs*time.Millisecond:
			out.Exit = "early"
		default:
			out.Exit = "deadline"
		}
	default:
		out.Exit = "over"
		out.ExitMs = time.Since(t0).Milliseconds()
		out.Notes = append(out.Notes, "process still running; killed")
		kill()
	}
	time.Sleep(100 * time.Millisecond)
	out.ShortDone = short.get() == "completed"
	if !out.ShortDone {
		out.Notes = append(out.Notes, fmt.Sprintf("the work ending %v after SIGTERM (grace %v + wait/4) was %s: %s", grace+wait/4, grace, short.get(), short.detail))
	}
	if f := it.get(); f != "cut" {
		out.Notes = append(out.Notes, "the endless work ended as "+f)
	}
	return out, nil
}

func tail(s string, n int) string {
	if len(s) > n {
		return s[len(s)-n:]
	}
	return s
}

func init() {
	hx.Register(&hx.Stream{
		Name: "c18.process",
		Gen: func(r *hx.Rand, i int) interface{} {
			in := ProcIn{Wait: []int{900, 1200, 1500}[r.Intn(3)], Grace: []int{300, 450, 600}[r.Intn(3)]}
			if i%3 == 1 {
				in.Hups = r.Range(1, 3)
			}
			if i%6 >= 4 { // work through the http listener, with and without a tcp listener next to it
				in.Via = []string{"http", "ws", "grpc"}[(i/6)%3]
				in.NoTCP = i%2 == 0
				return in
			}
			switch i % 6 {
			case 0: // refresher wakes several times inside the grace period
				in.Dynamic, in.Refresh = true, []int{60, 100, 200}[r.Intn(3)]
			case 1, 3: // a second signal while the exit handler drains (supervisor re-sending TERM, ^C twice)
				in.Second, in.SecondAfter = []string{"TERM", "INT"}[i/2%2], []int{100, 200, 300}[r.Intn(3)]
			case 2: // refresher is asleep when SIGTERM arrives and wakes only after proxy.Shutdown closed the port
				in.Dynamic, in.Refresh = true, []int{900, 1200}[r.Intn(2)]
				in.Wait, in.Grace = []int{2000, 2500}[r.Intn(2)], []int{300, 450}[r.Intn(2)]
			}
			return in
		},
		Run: func(raw json.RawMessage) (interface{}, error) {
			var in ProcIn
			if err := json.Unmarshal(raw, &in); err != nil {
				return nil, err
			}
			out, err := runProcess(&in)
			for try := 0; err != nil && !errors.Is(err, errEnvelope) && try < 3; try++ { // set-up trouble, not an observation
				time.Sleep(3 * time.Second)
				out, err = runProcess(&in)
			}
			if err != nil {
				return nil, err
			}
			if out.Exit == "over" || out.AcceptedAfter || !out.OrderOK || !out.ShortDone { // measure again, report the second
				first := out
				if out, err = runProcess(&in); err != nil {
					return nil, err
				}
				out.Notes = append(out.Notes, fmt.Sprintf("first measurement: %+v", *first))
			}
			return out, nil
		},
	})
}
