package main

// Upstream services behind the proxies under test. Every piece of in-flight work is an "item": the upstream
// signals when the request/tunnel/stream has reached it (so the harness knows the work is in flight through
// the proxy), then holds it until the item is released, then finishes it normally.

import (
	"bufio"
	"crypto/ecdsa"
	"crypto/elliptic"
	"crypto/rand"
	"crypto/tls"
	"crypto/x509"
	"crypto/x509/pkix"
	"fmt"
	"io"
	"math/big"
	"net"
	"net/http"
	"strings"
	"sync"
	"sync/atomic"
	"syscall"
	"time"

	"google.golang.org/grpc"
	healthpb "google.golang.org/grpc/health/grpc_health_v1"
)

type item struct {
	id       string
	started  chan struct{} // closed when the upstream holds the work
	release  chan struct{} // closed when the work may end
	sOnce    sync.Once
	rOnce    sync.Once
	mu       sync.Mutex
	fate     string // "open" | "completed" | "cut"
	detail   string
	finished time.Time
}

func (it *item) markStarted() { it.sOnce.Do(func() { close(it.started) }) }
func (it *item) Release()     { it.rOnce.Do(func() { close(it.release) }) }
func (it *item) set(f, detail string) {
	it.mu.Lock()
	if it.fate == "open" {
		it.fate, it.detail, it.finished = f, detail, time.Now()
	}
	it.mu.Unlock()
}
func (it *item) get() string {
	it.mu.Lock()
	defer it.mu.Unlock()
	return it.fate
}

var (
	itemsMu sync.Mutex
	items   = map[string]*item{}
	itemSeq uint64
)

func newItem() *item {
	it := &item{id: fmt.Sprintf("w%d", atomic.AddUint64(&itemSeq, 1)), started: make(chan struct{}), release: make(chan struct{}), fate: "open"}
	itemsMu.Lock()
	items[it.id] = it
	itemsMu.Unlock()
	return it
}

func lookupItem(id string) *item {
	itemsMu.Lock()
	defer itemsMu.Unlock()
	return items[id]
}

func dropItem(it *item) {
	itemsMu.Lock()
	delete(items, it.id)
	itemsMu.Unlock()
}

type upstreams struct {
	httpAddr string
	tcpAddr  string
	tlsAddr  string
	grpcAddr string
	cert     tls.Certificate
}

var (
	upMu sync.Mutex
	up   *upstreams
)

const (
	sniTCPName   = "tcp.c18.test"
	sniHTTPSName = "https.c18.test"
)

// getUpstreams starts the upstream services once; a failure is not remembered (the next case tries again).
func getUpstreams() (*upstreams, error) {
	upMu.Lock()
	defer upMu.Unlock()
	if up != nil {
		return up, nil
	}
	u, err := startUpstreams()
	if err != nil {
		return nil, err
	}
	up = u
	return up, nil
}

func listenFree() (net.Listener, error) {
	var last error
	for i := 0; i < 20; i++ {
		a, err := freeAddr()
		if err != nil {
			return nil, err
		}
		l, err := net.Listen("tcp", a)
		if err == nil {
			return l, nil
		}
		last = err
	}
	return nil, last
}

func selfSigned() (tls.Certificate, error) {
	key, err := ecdsa.GenerateKey(elliptic.P256(), rand.Reader)
	if err != nil {
		return tls.Certificate{}, err
	}
	tmpl := &x509.Certificate{
		SerialNumber: big.NewInt(18),
		Subject:      pkix.Name{CommonName: "c18.test"},
		NotBefore:    time.Now().Add(-time.Hour),
		NotAfter:     time.Now().Add(24 * time.Hour),
		DNSNames:     []string{sniTCPName, sniHTTPSName},
		KeyUsage:     x509.KeyUsageDigitalSignature,
		ExtKeyUsage:  []x509.ExtKeyUsage{x509.ExtKeyUsageServerAuth},
	}
	der, err := x509.CreateCertificate(rand.Reader, tmpl, tmpl, &key.PublicKey, key)
	if err != nil {
		return tls.Certificate{}, err
	}
	return tls.Certificate{Certificate: [][]byte{der}, PrivateKey: key}, nil
}

// holdConn is the line protocol of the TCP upstreams: "<id>\n" -> "ack\n" ... (release) ... "done\n", close.
func holdConn(c net.Conn) {
	defer c.Close()
	br := bufio.NewReader(c)
	line, err := br.ReadString('\n')
	if err != nil {
		return
	}
	it := lookupItem(strings.TrimSpace(line))
	if it == nil {
		return
	}
	if _, err := io.WriteString(c, "ack\n"); err != nil {
		return
	}
	it.markStarted()
	gone := make(chan struct{})
	go func() { // notice the tunnel being torn down
		io.Copy(io.Discard, br)
		close(gone)
	}()
	select {
	case <-it.release:
		io.WriteString(c, "done\n")
	case <-gone:
	}
}

// holdWS is the websocket upstream: GET /ws/<id> with "Upgrade: websocket" is answered with 101, then the
// connection speaks the line protocol of the TCP upstreams from "ack" on (the session is a byte pipe for the proxy).
func holdWS(w http.ResponseWriter, r *http.Request) {
	it := lookupItem(strings.TrimPrefix(r.URL.Path, "/ws/"))
	hj, ok := w.(http.Hijacker)
	if it == nil || !ok {
		http.NotFound(w, r)
		return
	}
	c, brw, err := hj.Hijack()
	if err != nil {
		return
	}
	defer c.Close()
	if _, err := io.WriteString(c, "HTTP/1.1 101 Switching Protocols\r\nUpgrade: websocket\r\nConnection: Upgrade\r\n\r\n"); err != nil {
		return
	}
	if _, err := io.WriteString(c, "ack\n"); err != nil {
		return
	}
	it.markStarted()
	gone := make(chan struct{})
	go func() {
		io.Copy(io.Discard, brw.Reader)
		close(gone)
	}()
	select {
	case <-it.release:
		io.WriteString(c, "done\n")
	case <-gone:
	}
}

func acceptLoop(ln net.Listener) {
	for {
		c, err := ln.Accept()
		if err != nil {
			return
		}
		go holdConn(c)
	}
}

func holdStream(_ interface{}, ss grpc.ServerStream) error {
	var req healthpb.HealthCheckRequest
	if err := ss.RecvMsg(&req); err != nil {
		return err
	}
	it := lookupItem(req.Service)
	if it == nil {
		return fmt.Errorf("unknown item %q", req.Service)
	}
	if err := ss.SendMsg(&healthpb.HealthCheckResponse{Status: healthpb.HealthCheckResponse_SERVING}); err != nil {
		return err
	}
	it.markStarted()
	select {
	case <-it.release:
		return nil
	case <-ss.Context().Done():
		return ss.Context().Err()
	}
}

var holdDesc = grpc.ServiceDesc{
	ServiceName: "verif.Hold",
	HandlerType: (*interface{})(nil),
	Streams:     []grpc.StreamDesc{{StreamName: "Hold", ServerStreams: true, Handler: holdStream}},
}

func startUpstreams() (*upstreams, error) {
	u := &upstreams{}
	var err error
	if u.cert, err = selfSigned(); err != nil {
		return nil, err
	}

	// HTTP: GET /hold/<id> blocks until the item is released, then answers 200 "done".
	hl, err := listenFree()
	if err != nil {
		return nil, err
	}
	u.httpAddr = hl.Addr().String()
	go http.Serve(hl, http.HandlerFunc(func(w http.ResponseWriter, r *http.Request) {
		if strings.EqualFold(r.Header.Get("Upgrade"), "websocket") {
			holdWS(w, r)
			return
		}
		it := lookupItem(strings.TrimPrefix(r.URL.Path, "/hold/"))
		if it == nil {
			http.NotFound(w, r)
			return
		}
		it.markStarted()
		select {
		case <-it.release:
			io.WriteString(w, "done")
		case <-r.Context().Done():
		}
	}))

	tl, err := listenFree()
	if err != nil {
		return nil, err
	}
	u.tcpAddr = tl.Addr().String()
	go acceptLoop(tl)

	sl0, err := listenFree()
	if err != nil {
		return nil, err
	}
	sl := tls.NewListener(sl0, &tls.Config{Certificates: []tls.Certificate{u.cert}})
	u.tlsAddr = sl.Addr().String()
	go acceptLoop(sl)

	gl, err := listenFree()
	if err != nil {
		return nil, err
	}
	u.grpcAddr = gl.Addr().String()
	gs := grpc.NewServer()
	gs.RegisterService(&holdDesc, struct{}{})
	go gs.Serve(gl)
	return u, nil
}

// ---- a black-holed upstream: a listening socket with backlog 0 whose accept queue is full and is never
// drained. Further SYNs are dropped silently, so a dial to it stays pending until its own timeout. ----

var (
	bhMu   sync.Mutex
	bhAddr string
	bhKeep []net.Conn
)

func blackhole() (string, error) {
	bhMu.Lock()
	defer bhMu.Unlock()
	if bhAddr != "" {
		return bhAddr, nil
	}
	var last error
	for try := 0; try < 5; try++ {
		a, err := freeAddr()
		if err != nil {
			return "", err
		}
		_, ps, _ := net.SplitHostPort(a)
		var port int
		fmt.Sscanf(ps, "%d", &port)
		fd, err := syscall.Socket(syscall.AF_INET, syscall.SOCK_STREAM, 0)
		if err != nil {
			return "", err
		}
		if err := syscall.Bind(fd, &syscall.SockaddrInet4{Port: port, Addr: [4]byte{127, 0, 0, 1}}); err != nil {
			syscall.Close(fd)
			last = err
			continue
		}
		if err := syscall.Listen(fd, 0); err != nil {
			syscall.Close(fd)
			last = err
			continue
		}
		var fill []net.Conn
		for i := 0; i < 16; i++ {
			c, err := net.DialTimeout("tcp", a, 300*time.Millisecond)
			if err != nil {
				if ne, ok := err.(net.Error); ok && ne.Timeout() {
					bhAddr, bhKeep = a, fill // the fd and the filling connections stay open for the life of the process
					return bhAddr, nil
				}
				last = err
				break
			}
			fill = append(fill, c)
		}
		for _, c := range fill {
			c.Close()
		}
		syscall.Close(fd)
		if last == nil {
			last = fmt.Errorf("accept queue of %s never filled up", a)
		}
	}
	return "", fmt.Errorf("cannot build a black-holed upstream on this host: %v", last)
}
