package main

// c18.exit: how a shutdown begins. The real package exit (exit.Listen / Exit / Fatal / Wait, real signals, the real
// os.Exit) runs in a child process — this binary started again with C18_EXIT_CHILD set — wired the way main.go wires
// it: handlers registered with exit.Listen, main blocked in exit.Wait(). The parent sends a history: any number of
// SIGHUPs (ignored by design), then the event that is meant to begin the shutdown — SIGTERM, SIGINT, or a call of
// exit.Exit / exit.Fatal from inside the child (what main.go does when a listener fails) — optionally followed by a
// second terminating event while the handlers are still running. Observed from outside: which handlers were called
// with which signal and when, whether the process ended, and whether it ended only after the handlers had finished
// (the handler is where proxy.Shutdown drains).

import (
	"bufio"
	"encoding/json"
	"errors"
	"fmt"
	"io"
	"os"
	"os/exec"
	"sort"
	"strings"
	"sync"
	"syscall"
	"time"

	"github.com/fabiolb/fabio/exit"

	"verif/harness/hx"
)

const exitChildEnv = "C18_EXIT_CHILD"

func init() {
	if v := os.Getenv(exitChildEnv); v != "" {
		exitChild(v) // never returns
	}
}

var sayMu sync.Mutex

func say(format string, a ...interface{}) {
	sayMu.Lock()
	fmt.Fprintf(os.Stdout, format+"\n", a...)
	sayMu.Unlock()
}

func exitChild(spec string) {
	var k, ms int
	fmt.Sscanf(spec, "%d:%d", &k, &ms)
	for i := 0; i < k; i++ {
		i := i
		exit.Listen(func(s os.Signal) {
			name := "nil"
			switch s {
			case syscall.SIGTERM:
				name = "TERM"
			case os.Interrupt:
				name = "INT"
			case nil:
			default:
				name = s.String()
			}
			say("start %d %s", i, name)
			time.Sleep(time.Duration(ms) * time.Millisecond)
			say("end %d", i)
		})
	}
	// the listener goroutines install their signal.Notify asynchronously and nothing outside package exit can see
	// when they have; a SIGHUP before that would end the process by its default action
	time.Sleep(250 * time.Millisecond)
	say("ready")
	go func() {
		sc := bufio.NewScanner(os.Stdin)
		for sc.Scan() {
			switch strings.TrimSpace(sc.Text()) {
			case "exit":
				go exit.Exit(3)
			case "fatal":
				go exit.Fatal("[FATAL] c18 child: a listener failed")
			}
		}
	}()
	exit.Wait() // as main() does
	say("waited")
	os.Exit(0)
}

type ExitIn struct {
	Handlers  int    `json:"handlers"`        // exit.Listen calls (main.go: 1, +1 with BGP)
	Hups      int    `json:"hups"`            // SIGHUPs before the terminating event
	Gap       int    `json:"gap"`             // ms between them
	End       string `json:"end"`             // TERM | INT | exit | fatal
	HandlerMs int    `json:"handler_ms"`      // how long each handler takes (grace + Shutdown)
	Again     string `json:"again,omitempty"` // a second terminating event 60 ms after the first
	// the terminating event is sent right after the last SIGHUP, without giving the process time to handle the
	// SIGHUP first (logrotate's HUP immediately followed by the supervisor's TERM)
	Rush bool `json:"rush,omitempty"`
}

type ExitOut struct {
	Ignored bool     `json:"ignored"` // after the SIGHUPs: alive, no handler called
	Calls   []string `json:"calls"`   // signal each called handler got, sorted
	Exit    string   `json:"exit"`    // in-time | late | never
	Drained bool     `json:"drained"` // every handler called exactly once and finished before the process ended
	// not compared
	BeginMs int64    `json:"begin_ms"` // terminating event → last handler start
	ExitMs  int64    `json:"exit_ms"`
	Notes   []string `json:"notes,omitempty"`
}

const (
	exitBeginMs = 1000 // a handler must be called within this of the terminating event
	exitSlackMs = 1500 // process end after the handlers' duration
	exitCapMs   = 3500 // still running this long after the handlers' duration: "never" (killed)
)

func runExit(in *ExitIn) (*ExitOut, error) {
	if in.Handlers < 1 || in.Handlers > 4 || in.Hups < 0 || in.Hups > 8 || in.Gap < 0 || in.Gap > 100 ||
		in.HandlerMs < 100 || in.HandlerMs > 1500 {
		return nil, fmt.Errorf("%w: handlers/hups/gap/handler_ms", errEnvelope)
	}
	valid := map[string]bool{"TERM": true, "INT": true, "exit": true, "fatal": true}
	if !valid[in.End] || (in.Again != "" && !valid[in.Again]) {
		return nil, fmt.Errorf("%w: end/again", errEnvelope)
	}
	self, err := os.Executable()
	if err != nil {
		return nil, err
	}
	cmd := exec.Command(self)
	cmd.Env = append(os.Environ(), fmt.Sprintf("%s=%d:%d", exitChildEnv, in.Handlers, in.HandlerMs))
	stdin, err := cmd.StdinPipe()
	if err != nil {
		return nil, err
	}
	pr, pw, err := os.Pipe() // a plain file as stdout: cmd.Wait then waits for the process only
	if err != nil {
		return nil, err
	}
	defer pr.Close()
	cmd.Stdout = pw
	// stderr carries package exit's log lines; "Caught SIGHUP" is the only outside sign that a SIGHUP has been
	// handled (the listener re-arms itself right after logging it)
	er, ew, err := os.Pipe()
	if err != nil {
		pr.Close()
		pw.Close()
		return nil, err
	}
	defer er.Close()
	cmd.Stderr = ew
	if err := cmd.Start(); err != nil {
		pw.Close()
		ew.Close()
		return nil, err
	}
	pw.Close()
	ew.Close()
	hupSeen := make(chan struct{}, 64)
	go func() {
		sc := bufio.NewScanner(er)
		for sc.Scan() {
			if strings.Contains(sc.Text(), "SIGHUP") {
				select {
				case hupSeen <- struct{}{}:
				default:
				}
			}
		}
	}()
	type line struct {
		s  string
		at time.Time
	}
	lines := make(chan line, 64)
	go func() {
		sc := bufio.NewScanner(pr)
		for sc.Scan() {
			lines <- line{sc.Text(), time.Now()}
		}
		close(lines)
	}()
	exited := make(chan struct{})
	var exitAt time.Time
	go func() {
		cmd.Wait()
		exitAt = time.Now()
		close(exited)
	}()
	kill := func() {
		cmd.Process.Kill()
		<-exited
	}
	var got []line
	collect := func(d time.Duration) { // gather output for d
		t := time.After(d)
		for {
			select {
			case l, ok := <-lines:
				if !ok {
					return
				}
				got = append(got, l)
			case <-t:
				return
			}
		}
	}
	ready := false
	deadline := time.After(10 * time.Second)
wait:
	for {
		select {
		case l, ok := <-lines:
			if !ok {
				break wait
			}
			if l.s == "ready" {
				ready = true
				break wait
			}
		case <-deadline:
			break wait
		}
	}
	if !ready {
		kill()
		return nil, errors.New("exit child did not get ready")
	}
	out := &ExitOut{Calls: []string{}}
	for i := 0; i < in.Hups; i++ {
		cmd.Process.Signal(syscall.SIGHUP)
		if in.Rush && i == in.Hups-1 {
			break // the terminating event follows at once
		}
		// wait until the process has handled it (signals sent faster than they are handled pile up in the
		// listener's channel: that is the class "rush")
		select {
		case <-hupSeen:
		case <-time.After(2 * time.Second):
			out.Notes = append(out.Notes, fmt.Sprintf("no log line for SIGHUP %d within 2 s", i+1))
		}
		collect(time.Duration(in.Gap) * time.Millisecond)
	}
	if !in.Rush || in.Hups == 0 {
		collect(100 * time.Millisecond)
	}
	out.Ignored = len(got) == 0
	select {
	case <-exited:
		out.Ignored = false
		out.Notes = append(out.Notes, fmt.Sprintf("the process ended after %d SIGHUP(s)", in.Hups))
	default:
	}
	if len(got) > 0 {
		out.Notes = append(out.Notes, fmt.Sprintf("after %d SIGHUP(s): %q", in.Hups, got[0].s))
	}
	send := func(ev string) {
		switch ev {
		case "TERM":
			cmd.Process.Signal(syscall.SIGTERM)
		case "INT":
			cmd.Process.Signal(syscall.SIGINT)
		default:
			io.WriteString(stdin, ev+"\n")
		}
	}
	T := time.Now()
	send(in.End)
	if in.Again != "" {
		collect(60 * time.Millisecond)
		send(in.Again)
	}
	d := time.Duration(in.HandlerMs) * time.Millisecond
	cap := time.After(time.Until(T.Add(d + exitCapMs*time.Millisecond)))
	gone := false
loop:
	for {
		select {
		case l, ok := <-lines:
			if !ok {
				lines = nil
				continue
			}
			got = append(got, l)
		case <-exited:
			gone = true
			break loop
		case <-cap:
			break loop
		}
	}
	if !gone {
		out.Exit = "never"
		out.Notes = append(out.Notes, fmt.Sprintf("process still running %d ms after %q (handlers take %d ms); killed", time.Since(T).Milliseconds(), in.End, in.HandlerMs))
		kill()
	}
	if lines != nil { // whatever was still in the pipe
		for l := range lines {
			got = append(got, l)
		}
	}
	out.ExitMs = exitAt.Sub(T).Milliseconds()
	if gone {
		if exitAt.Sub(T) <= d+exitSlackMs*time.Millisecond {
			out.Exit = "in-time"
		} else {
			out.Exit = "late"
		}
	}
	starts, ends := map[string]int{}, map[string]int{}
	var lastStart time.Time
	for _, l := range got {
		f := strings.Fields(l.s)
		switch {
		case len(f) == 3 && f[0] == "start":
			starts[f[1]]++
			out.Calls = append(out.Calls, f[2])
			if l.at.After(lastStart) {
				lastStart = l.at
			}
		case len(f) == 2 && f[0] == "end":
			ends[f[1]]++
		}
	}
	sort.Strings(out.Calls)
	out.Drained = len(starts) == in.Handlers
	for i := 0; i < in.Handlers; i++ {
		id := fmt.Sprint(i)
		if starts[id] != 1 || ends[id] != 1 {
			out.Drained = false
			out.Notes = append(out.Notes, fmt.Sprintf("handler %d: called %d time(s), finished %d time(s) before the process ended", i, starts[id], ends[id]))
		}
	}
	if !lastStart.IsZero() {
		out.BeginMs = lastStart.Sub(T).Milliseconds()
		if out.BeginMs > exitBeginMs {
			out.Drained = false
			out.Notes = append(out.Notes, fmt.Sprintf("last handler called %d ms after %q", out.BeginMs, in.End))
		}
	}
	return out, nil
}

func init() {
	ends := []string{"TERM", "INT", "exit", "fatal"}
	hx.Register(&hx.Stream{
		Name: "c18.exit",
		Gen: func(r *hx.Rand, i int) interface{} {
			in := ExitIn{Handlers: 1, End: ends[i%4], HandlerMs: []int{150, 250, 400}[r.Intn(3)], Gap: []int{0, 10, 40}[r.Intn(3)]}
			// every terminating event with and without earlier SIGHUPs in the first eight cases, then mixes
			switch {
			case i < 4:
				in.Hups = r.Range(1, 3)
			case i < 8:
				in.Hups = 0
				in.Handlers = r.Range(1, 2)
			default:
				in.Hups = r.Range(0, 6)
				in.Handlers = r.Range(1, 3)
				if r.Chance(1, 3) {
					in.Again = r.Pick(ends)
				} else if in.Hups > 0 && r.Chance(1, 6) {
					in.Rush = true
				}
			}
			return in
		},
		Run: func(raw json.RawMessage) (interface{}, error) {
			var in ExitIn
			if err := json.Unmarshal(raw, &in); err != nil {
				return nil, err
			}
			out, err := runExit(&in)
			for try := 0; err != nil && !errors.Is(err, errEnvelope) && try < 3; try++ {
				time.Sleep(time.Second)
				out, err = runExit(&in)
			}
			if err != nil {
				return nil, err
			}
			if !out.Ignored || out.Exit != "in-time" || !out.Drained { // measure again, report the second
				first := out
				if out, err = runExit(&in); err != nil {
					return nil, err
				}
				out.Notes = append(out.Notes, fmt.Sprintf("first measurement: %+v", *first))
			}
			return out, nil
		},
	})
}
