package main

// One scenario = a set of real listeners started through the proxy package's own ListenAndServe* functions
// (constructed as main.go's startServers does), in-flight work of scripted natural duration relative to the
// moment proxy.Shutdown(wait) is called, and the three observables of C18: fate of every piece of work,
// duration class of proxy.Shutdown, and whether a connection attempt made after shutdown began was accepted.

import (
	"bufio"
	"bytes"
	"context"
	crand "crypto/rand"
	"crypto/tls"
	"errors"
	"fmt"
	"io"
	"log"
	"net"
	"net/http"
	"net/url"
	"strings"
	"sync"
	"sync/atomic"
	"syscall"
	"time"

	"github.com/fabiolb/fabio/config"
	"github.com/fabiolb/fabio/proxy"
	"github.com/fabiolb/fabio/proxy/tcp"
	"github.com/fabiolb/fabio/route"
	"github.com/go-kit/kit/metrics/discard"
	grpc_proxy "github.com/mwitkow/grpc-proxy/proxy"
	"google.golang.org/grpc"
	"google.golang.org/grpc/credentials/insecure"
	healthpb "google.golang.org/grpc/health/grpc_health_v1"
)

const (
	slackMs      = 500  // scheduling slack granted on top of the wait
	earlyMs      = 60   // "early" = returned more than this before the deadline
	blockedCapMs = 3000 // a Shutdown still running this long after the deadline is reported as "over" (blocked)
	settleMs     = 250  // time given to clients to observe what Shutdown did to them
	probeAtMs    = 120  // first connect attempt after shutdown began
	// a listener whose start was pending is watched this long after its address became free
	pendingWatchMs = 1200
)

type SrvIn struct {
	Kind  string `json:"kind"` // http | https | prom | tcp | sni | grpc | inetaf
	Work  []*int `json:"work"`
	HWork []*int `json:"hwork,omitempty"` // inetaf only: work on the https child
	// tcp/sni/inetaf: connections whose handler is still dialling a black-holed upstream (DialTimeout 30 s, as
	// fabio's default) when shutdown begins. Closing the inbound connection does not unblock such a handler.
	Dial int `json:"dial,omitempty"`
	// tcp only (a tcp-dynamic listener): its route disappeared just before the shutdown — proxy.CloseProxy(addr) is
	// called from another goroutine 50 ms before proxy.Shutdown, as main.go's refresher does. Its work must be
	// endless tunnels: CloseProxy cuts them (that is not shutdown's doing), and the server is no longer registered.
	Removed bool `json:"removed,omitempty"`
	// http and inetaf (https child): websocket sessions (upgraded requests; the proxy hijacks the connection, so
	// net/http's Shutdown neither waits for them nor closes them) with their natural ends.
	WS []*int `json:"ws,omitempty"`
	// any kind, no work: the listener is still being started when shutdown begins — its address is held by another
	// socket (bound, not listening: connects are refused, binds fail with EADDRINUSE) from before the
	// ListenAndServe* call until Pending ms after proxy.Shutdown was called. A start that has not registered by
	// then must not produce a listener afterwards.
	Pending int `json:"pending,omitempty"`
	// any kind, no work: ListenAndServe* is called only Late ms AFTER proxy.Shutdown began (and before it returned or
	// not — the registry was swapped at the very beginning). The excluded point of
	// no_accept_after_shutdown_begins_partial: such a listener goes into the fresh registry and nothing closes it.
	Late int `json:"late,omitempty"`
	// http, https, tcp, sni: the listener expects the PROXY protocol (config option pxyproto=true); the clients send
	// a PROXY v1 header first
	PP bool `json:"pp,omitempty"`
}

type ScenarioIn struct {
	Wait    int     `json:"wait"` // ms
	Servers []SrvIn `json:"servers"`
}

type SrvOut struct {
	Work  []string `json:"work"`
	HWork []string `json:"hwork"`
	Dial  []string `json:"dial"`
	WS    []string `json:"ws"`
}

type ScenarioOut struct {
	Dur      string   `json:"dur"`
	Servers  []SrvOut `json:"servers"`
	Accepted []bool   `json:"accepted"`
	// not compared: measurements for the evidence and for a human reading a replay
	DurMs    int64    `json:"dur_ms"`
	Attempts int      `json:"attempts"`
	Notes    []string `json:"notes,omitempty"`
}

// validate keeps the scenario inside the envelope in which wall-clock classes are measurable: every finite
// natural end is either well inside the wait (≤ wait/4) or well beyond it (≥ 3·wait).
func (in *ScenarioIn) validate() error {
	if in.Wait < 300 || in.Wait > 2000 {
		return fmt.Errorf("wait %d ms outside [300,2000]", in.Wait)
	}
	if len(in.Servers) > 8 {
		return errors.New("too many servers")
	}
	for _, s := range in.Servers {
		switch s.Kind {
		case "prom":
			if len(s.Work)+len(s.WS) > 0 {
				return errors.New("the prometheus listener carries no scripted work")
			}
		case "http", "https", "tcp", "sni", "grpc":
			if len(s.HWork) > 0 {
				return errors.New("hwork on a single-listener server")
			}
			if s.Dial != 0 && s.Kind != "tcp" && s.Kind != "sni" {
				return errors.New("pending dials only on tcp listeners")
			}
		case "inetaf":
		default:
			return fmt.Errorf("unknown kind %q", s.Kind)
		}
		if s.Removed {
			if s.Kind != "tcp" || s.Dial != 0 {
				return errors.New("removed: only a plain tcp listener without pending dials")
			}
			for _, e := range s.Work {
				if e != nil {
					return errors.New("removed: only endless tunnels")
				}
			}
		}
		if s.PP && s.Kind != "http" && s.Kind != "https" && s.Kind != "tcp" && s.Kind != "sni" {
			return errors.New("pp: only http, https, tcp and sni listeners")
		}
		if s.Late != 0 {
			if s.Late < 20 || s.Late > 1000 || s.Pending != 0 {
				return errors.New("late outside [20,1000] ms, or combined with pending")
			}
			if len(s.Work)+len(s.HWork)+len(s.WS) > 0 || s.Dial != 0 || s.Removed {
				return errors.New("late: a listener that does not exist yet carries no work")
			}
		}
		if len(s.WS) > 0 && s.Kind != "http" && s.Kind != "https" && s.Kind != "inetaf" {
			return errors.New("websocket sessions only through an http or https+tcp+sni listener")
		}
		if s.Pending != 0 {
			if s.Pending < 50 || s.Pending > 1000 {
				return errors.New("pending outside [50,1000] ms")
			}
			if len(s.Work)+len(s.HWork)+len(s.WS) > 0 || s.Dial != 0 || s.Removed {
				return errors.New("pending: a listener that is not up yet carries no work")
			}
		}
		if s.Dial < 0 || s.Dial > 4 {
			return errors.New("dial outside [0,4]")
		}
		if len(s.Work)+len(s.HWork)+len(s.WS) > 8 {
			return errors.New("too much work on one server")
		}
		for _, e := range append(append(append([]*int{}, s.Work...), s.HWork...), s.WS...) {
			if e == nil {
				continue
			}
			if *e < 0 || *e > 20000 || (*e > in.Wait/4 && *e < 3*in.Wait) {
				return fmt.Errorf("end %d ms inside the unmeasurable band of wait %d ms", *e, in.Wait)
			}
		}
	}
	return nil
}

var (
	scenarioMu sync.Mutex // the proxy package's registry is global: one scenario at a time
	grpcOpts   []grpc.ServerOption
	grpcOnce   sync.Once
	httpTable  route.Table
)

func init() { log.SetOutput(io.Discard) }

// freeAddr picks a free port below the kernel's ephemeral range (32768–60999 here). Listeners of other
// processes that ask for port 0 can therefore never land on a port this harness has just released (which would
// look like "the closed listener accepts again"), and the pick does not depend on ephemeral ports being
// available (other harnesses on the same machine can leave tens of thousands of them in TIME_WAIT).
func freeAddr() (string, error) {
	var last error
	for i := 0; i < 200; i++ {
		var b [2]byte
		crand.Read(b[:])
		port := 20000 + (int(b[0])<<8|int(b[1]))%12000
		a := fmt.Sprintf("127.0.0.1:%d", port)
		l, err := net.Listen("tcp", a)
		if err != nil {
			last = err
			continue
		}
		l.Close()
		// also free on the wildcard address (the tcp-dynamic listener binds ":port")
		l2, err := net.Listen("tcp", fmt.Sprintf(":%d", port))
		if err != nil {
			last = err
			continue
		}
		l2.Close()
		return a, nil
	}
	return "", fmt.Errorf("no free port found: %v", last)
}

func waitListening(addr string, errc <-chan error) error {
	deadline := time.Now().Add(3 * time.Second)
	for time.Now().Before(deadline) {
		select {
		case err := <-errc:
			return fmt.Errorf("listener %s returned early: %v", addr, err)
		default:
		}
		c, err := net.DialTimeout("tcp", addr, 200*time.Millisecond)
		if err == nil {
			c.Close()
			return nil
		}
		time.Sleep(10 * time.Millisecond)
	}
	return fmt.Errorf("listener %s did not come up", addr)
}

// fabio's gRPC server options as main.go's newGrpcProxy builds them.
func grpcProxyOpts(u *upstreams) []grpc.ServerOption {
	grpcOnce.Do(func() {
		cfg := &config.Config{}
		cfg.Proxy.Strategy = "rnd"
		cfg.Proxy.Matcher = "prefix"
		cfg.Proxy.GRPCMaxRxMsgSize = 4 << 20
		cfg.Proxy.GRPCMaxTxMsgSize = 4 << 20
		cfg.Proxy.GRPCGShutdownTimeout = 2 * time.Second
		stats := &proxy.GrpcStatsHandler{
			Connect: discard.NewCounter(), Request: discard.NewHistogram(),
			NoRoute: discard.NewCounter(), Status: discard.NewHistogram(),
		}
		ic := proxy.GrpcProxyInterceptor{Config: cfg, StatsHandler: stats, GlobCache: route.NewGlobCache(100)}
		handler := grpc_proxy.TransparentHandler(proxy.GetGRPCDirector(nil, cfg))
		grpcOpts = []grpc.ServerOption{
			grpc.CustomCodec(grpc_proxy.Codec()),
			grpc.UnknownServiceHandler(handler),
			grpc.StreamInterceptor(ic.Stream),
			grpc.StatsHandler(stats),
			grpc.MaxRecvMsgSize(cfg.Proxy.GRPCMaxRxMsgSize),
			grpc.MaxSendMsgSize(cfg.Proxy.GRPCMaxTxMsgSize),
		}
		// the interceptor and the pool's cleanup read the global table
		tbl, err := route.NewTable(bytes.NewBufferString(
			"route add hold / http://" + u.httpAddr + "\n" +
				"route add holdgrpc /verif.Hold grpc://" + u.grpcAddr + " opts \"proto=grpc\"\n"))
		if err != nil {
			panic(err)
		}
		httpTable = tbl
		route.SetTable(tbl)
	})
	return grpcOpts
}

type server struct {
	kind string
	addr string
	errc chan error
	// tcp handlers: when toBlackhole is set, Lookup answers with the black-holed upstream; lookups counts them
	toBlackhole atomic.Bool
	lookups     atomic.Int32
	// pending start: releases the address; startErr is what ListenAndServe* returned, once it has
	pp       bool
	free     func()
	returned atomic.Bool
	startErr error
}

// occupy binds addr without listening and without SO_REUSEADDR: connection attempts are refused, every other
// bind of the address fails with EADDRINUSE until the returned function is called.
func occupy(addr string) (func(), error) {
	host, ps, err := net.SplitHostPort(addr)
	if err != nil {
		return nil, err
	}
	var port int
	fmt.Sscanf(ps, "%d", &port)
	ip := net.ParseIP(host).To4()
	if ip == nil {
		return nil, fmt.Errorf("occupy: %q is not an IPv4 address", addr)
	}
	fd, err := syscall.Socket(syscall.AF_INET, syscall.SOCK_STREAM, 0)
	if err != nil {
		return nil, err
	}
	sa := &syscall.SockaddrInet4{Port: port}
	copy(sa.Addr[:], ip)
	if err := syscall.Bind(fd, sa); err != nil {
		syscall.Close(fd)
		return nil, err
	}
	var once sync.Once
	return func() { once.Do(func() { syscall.Close(fd) }) }, nil
}

func startServer(si SrvIn, u *upstreams, pending bool) (*server, error) {
	var addr string
	var err error
	var free func()
	for try := 0; ; try++ { // somebody else may take the port between the probe and the bind
		if addr, err = freeAddr(); err != nil {
			return nil, err
		}
		if !pending {
			break
		}
		if free, err = occupy(addr); err == nil {
			break
		}
		if try == 20 {
			return nil, err
		}
	}
	return startServerOn(si, u, addr, free)
}

func startServerAt(si SrvIn, u *upstreams, addr string) (*server, error) {
	return startServerOn(si, u, addr, nil)
}

func startServerOn(si SrvIn, u *upstreams, addr string, free func()) (*server, error) {
	kind := si.Kind
	pending := free != nil
	s := &server{kind: kind, addr: addr, errc: make(chan error, 1), free: free}
	l := config.Listen{Addr: addr}
	if si.PP {
		l.ProxyProto, l.ProxyHeaderTimeout = true, 250*time.Millisecond
	}
	s.pp = si.PP
	gopts := grpcProxyOpts(u)
	bh, _ := blackhole() // "" when the host cannot build one; scenarios with pending dials then fail to set up
	fixed := func(a string) func(string) *route.Target {
		return func(string) *route.Target {
			if s.toBlackhole.Load() {
				s.lookups.Add(1)
				return &route.Target{URL: &url.URL{Host: bh}}
			}
			return &route.Target{URL: &url.URL{Host: a}}
		}
	}
	const dialTimeout = 30 * time.Second // config default of proxy.dialtimeout
	httpProxy := func() *proxy.HTTPProxy {
		return &proxy.HTTPProxy{
			Transport: &http.Transport{},
			Lookup: func(r *http.Request) *route.Target {
				return httpTable.Lookup(r, "", route.Picker["rr"], route.Matcher["prefix"], route.NewGlobCache(10), false)
			},
		}
	}
	go func() {
		var err error
		switch kind {
		case "http":
			err = proxy.ListenAndServeHTTP(l, httpProxy(), nil)
		case "https":
			err = proxy.ListenAndServeHTTP(l, httpProxy(), &tls.Config{Certificates: []tls.Certificate{u.cert}})
		case "prom":
			err = proxy.ListenAndServePrometheus(l, config.Prometheus{Path: "/metrics"}, nil)
		case "tcp":
			err = proxy.ListenAndServeTCP(l, &tcp.Proxy{DialTimeout: dialTimeout, Lookup: fixed(u.tcpAddr)}, nil)
		case "sni":
			err = proxy.ListenAndServeTCP(l, &tcp.SNIProxy{DialTimeout: dialTimeout, Lookup: fixed(u.tlsAddr)}, nil)
		case "grpc":
			err = proxy.ListenAndServeGRPC(l, gopts, nil)
		case "inetaf":
			tlscfg := &tls.Config{Certificates: []tls.Certificate{u.cert}}
			m := func(_ context.Context, h string) bool { return h == sniTCPName }
			err = proxy.ListenAndServeHTTPSTCPSNI(l, httpProxy(), &tcp.SNIProxy{DialTimeout: dialTimeout, Lookup: fixed(u.tlsAddr)}, tlscfg, m)
		}
		s.startErr = err
		s.returned.Store(true)
		s.errc <- err
	}()
	if pending {
		return s, nil
	}
	if err := waitListening(addr, s.errc); err != nil {
		return nil, err
	}
	return s, nil
}

// ---- clients: each starts one piece of work through the proxy and records its fate ----

func lineClient(it *item, c net.Conn) {
	defer c.Close()
	if _, err := io.WriteString(c, it.id+"\n"); err != nil {
		it.set("cut", "write: "+err.Error())
		return
	}
	br := bufio.NewReader(c)
	l1, err := br.ReadString('\n')
	if err != nil || strings.TrimSpace(l1) != "ack" {
		it.set("cut", fmt.Sprintf("before ack: %q %v", l1, err))
		return
	}
	l2, err := br.ReadString('\n')
	if err == nil && strings.TrimSpace(l2) == "done" {
		it.set("completed", "")
		return
	}
	it.set("cut", fmt.Sprintf("%q %v", l2, err))
}

// wsClient performs a websocket handshake for /ws/<id> on c and then follows the line protocol.
func wsClient(it *item, c net.Conn, host string) {
	defer c.Close()
	req := "GET /ws/" + it.id + " HTTP/1.1\r\nHost: " + host + "\r\nUpgrade: websocket\r\nConnection: Upgrade\r\n" +
		"Sec-WebSocket-Version: 13\r\nSec-WebSocket-Key: dmVyaWYtYzE4LXdzLWtleQ==\r\n\r\n"
	if _, err := io.WriteString(c, req); err != nil {
		it.set("cut", "write: "+err.Error())
		return
	}
	br := bufio.NewReader(c)
	status, err := br.ReadString('\n')
	if err != nil || !strings.HasPrefix(status, "HTTP/1.1 101") {
		it.set("cut", fmt.Sprintf("handshake: %q %v", status, err))
		return
	}
	for {
		h, err := br.ReadString('\n')
		if err != nil {
			it.set("cut", "handshake headers: "+err.Error())
			return
		}
		if strings.TrimSpace(h) == "" {
			break
		}
	}
	l1, err := br.ReadString('\n')
	if err != nil || strings.TrimSpace(l1) != "ack" {
		it.set("cut", fmt.Sprintf("before ack: %q %v", l1, err))
		return
	}
	l2, err := br.ReadString('\n')
	if err == nil && strings.TrimSpace(l2) == "done" {
		it.set("completed", "")
		return
	}
	it.set("cut", fmt.Sprintf("%q %v", l2, err))
}

// dialPP connects to addr and, for a listener that expects the PROXY protocol, sends a PROXY v1 header first.
func dialPP(addr string, pp bool) (net.Conn, error) {
	c, err := net.DialTimeout("tcp", addr, 2*time.Second)
	if err != nil {
		return nil, err
	}
	if pp {
		if _, err := io.WriteString(c, "PROXY TCP4 192.0.2.7 127.0.0.1 51234 443\r\n"); err != nil {
			c.Close()
			return nil, err
		}
	}
	return c, nil
}

func startWS(kind, addr string, pp bool, it *item) {
	go func() {
		c, err := dialPP(addr, pp)
		if err == nil && (kind == "inetaf" || kind == "https") {
			tc := tls.Client(c, &tls.Config{ServerName: sniHTTPSName, InsecureSkipVerify: true})
			if err = tc.Handshake(); err != nil {
				c.Close()
			}
			c = tc
		}
		if err != nil {
			it.set("cut", "dial: "+err.Error())
			return
		}
		wsClient(it, c, addr)
	}()
}

func startWork(kind string, https bool, addr string, pp bool, it *item) {
	if kind == "https" {
		https = true
	}
	switch {
	case kind == "http" || kind == "https" || (kind == "inetaf" && https):
		go func() {
			tr := &http.Transport{DisableKeepAlives: true}
			tr.DialContext = func(ctx context.Context, network, a string) (net.Conn, error) { return dialPP(a, pp) }
			scheme := "http"
			if https {
				scheme = "https"
				tr.TLSClientConfig = &tls.Config{ServerName: sniHTTPSName, InsecureSkipVerify: true}
			}
			defer tr.CloseIdleConnections()
			resp, err := (&http.Client{Transport: tr}).Get(scheme + "://" + addr + "/hold/" + it.id)
			if err != nil {
				it.set("cut", err.Error())
				return
			}
			b, err := io.ReadAll(resp.Body)
			resp.Body.Close()
			if err == nil && resp.StatusCode == 200 && string(b) == "done" {
				it.set("completed", "")
			} else {
				it.set("cut", fmt.Sprintf("status %d body %q err %v", resp.StatusCode, b, err))
			}
		}()
	case kind == "tcp":
		go func() {
			c, err := dialPP(addr, pp)
			if err != nil {
				it.set("cut", "dial: "+err.Error())
				return
			}
			lineClient(it, c)
		}()
	case kind == "sni" || kind == "inetaf":
		go func() {
			c, err := dialPP(addr, pp)
			if err != nil {
				it.set("cut", "dial: "+err.Error())
				return
			}
			tc := tls.Client(c, &tls.Config{ServerName: sniTCPName, InsecureSkipVerify: true})
			if err := tc.Handshake(); err != nil {
				c.Close()
				it.set("cut", "tls handshake: "+err.Error())
				return
			}
			lineClient(it, tc)
		}()
	case kind == "grpc":
		go func() {
			cc, err := grpc.NewClient("passthrough:///"+addr, grpc.WithTransportCredentials(insecure.NewCredentials()))
			if err != nil {
				it.set("cut", "client: "+err.Error())
				return
			}
			defer cc.Close()
			st, err := cc.NewStream(context.Background(), &grpc.StreamDesc{ServerStreams: true}, "/verif.Hold/Hold")
			if err != nil {
				it.set("cut", "stream: "+err.Error())
				return
			}
			if err := st.SendMsg(&healthpb.HealthCheckRequest{Service: it.id}); err != nil {
				it.set("cut", "send: "+err.Error())
				return
			}
			st.CloseSend()
			var resp healthpb.HealthCheckResponse
			if err := st.RecvMsg(&resp); err != nil {
				it.set("cut", "first recv: "+err.Error())
				return
			}
			err = st.RecvMsg(&resp)
			if err == io.EOF {
				it.set("completed", "")
			} else {
				it.set("cut", fmt.Sprint(err))
			}
		}()
	}
}

// startDial opens a connection whose handler will get stuck dialling the black hole. The client's view: the
// connection stays silent until the proxy closes it.
func startDial(kind, addr string, pp bool, it *item) {
	go func() {
		c, err := dialPP(addr, pp)
		if err != nil {
			it.set("cut", "dial: "+err.Error())
			return
		}
		defer c.Close()
		if kind == "tcp" {
			io.WriteString(c, it.id+"\n")
			_, err = c.Read(make([]byte, 1))
		} else { // the SNI proxies dial after they have read the ClientHello
			err = tls.Client(c, &tls.Config{ServerName: sniTCPName, InsecureSkipVerify: true}).Handshake()
		}
		it.set("cut", fmt.Sprint(err))
	}()
}

type workRef struct {
	it  *item
	end *int
}

func probe(addr string) bool {
	c, err := net.DialTimeout("tcp", addr, 300*time.Millisecond)
	if err != nil {
		return false
	}
	c.Close()
	return true
}

func runOnce(in *ScenarioIn) (*ScenarioOut, error) {
	u, err := getUpstreams()
	if err != nil {
		return nil, err
	}
	scenarioMu.Lock()
	defer scenarioMu.Unlock()
	proxy.Close() // nothing may be left in the registry from an earlier scenario

	out := &ScenarioOut{Attempts: 1, Servers: []SrvOut{}}
	var srvs []*server
	var all []workRef
	perSrv := make([][4][]workRef, len(in.Servers)) // work, hwork, dial, ws
	cleanup := func() {
		for _, w := range all {
			w.it.Release()
		}
		for _, s := range srvs {
			if s != nil && s.free != nil {
				s.free()
			}
		}
		proxy.Close()
		for _, w := range all {
			dropItem(w.it)
		}
	}
	srvs = make([]*server, len(in.Servers))
	for i, si := range in.Servers {
		if si.Pending != 0 || si.Late != 0 {
			continue // started last: just before the shutdown / after it began
		}
		s, err := startServer(si, u, false)
		if err != nil {
			cleanup()
			return nil, err
		}
		srvs[i] = s
	}
	for i, si := range in.Servers {
		for _, e := range si.Work {
			w := workRef{newItem(), e}
			all = append(all, w)
			perSrv[i][0] = append(perSrv[i][0], w)
			startWork(si.Kind, false, srvs[i].addr, si.PP, w.it)
		}
		for _, e := range si.HWork {
			w := workRef{newItem(), e}
			all = append(all, w)
			perSrv[i][1] = append(perSrv[i][1], w)
			startWork(si.Kind, true, srvs[i].addr, si.PP, w.it)
		}
		for _, e := range si.WS {
			w := workRef{newItem(), e}
			all = append(all, w)
			perSrv[i][3] = append(perSrv[i][3], w)
			startWS(si.Kind, srvs[i].addr, si.PP, w.it)
		}
	}
	inflight := time.After(5 * time.Second)
	for _, w := range all {
		select {
		case <-w.it.started:
		case <-inflight:
			cleanup()
			return nil, fmt.Errorf("work %s did not get in flight (%s)", w.it.id, w.it.detail)
		}
	}
	time.Sleep(20 * time.Millisecond) // let the "ack"/first message travel back through the proxy
	// now the connections that get stuck in the upstream dial: from here on the tcp handlers are routed to the
	// black hole; wait until every one of them has looked its target up, i.e. is about to dial
	for i, si := range in.Servers {
		if si.Dial == 0 {
			continue
		}
		if bh, err := blackhole(); err != nil || bh == "" {
			cleanup()
			return nil, fmt.Errorf("black hole: %v", err)
		}
		srvs[i].toBlackhole.Store(true)
		for j := 0; j < si.Dial; j++ {
			w := workRef{newItem(), nil}
			all = append(all, w)
			perSrv[i][2] = append(perSrv[i][2], w)
			startDial(si.Kind, srvs[i].addr, si.PP, w.it)
		}
		until := time.Now().Add(5 * time.Second)
		for int(srvs[i].lookups.Load()) < si.Dial {
			if time.Now().After(until) {
				cleanup()
				return nil, fmt.Errorf("%s: only %d of %d handlers reached their upstream dial", si.Kind, srvs[i].lookups.Load(), si.Dial)
			}
			time.Sleep(5 * time.Millisecond)
		}
	}
	if len(all) > 0 {
		time.Sleep(30 * time.Millisecond)
	}

	// a dynamic listener whose route has just gone: CloseProxy from its own goroutine, shutdown 50 ms later
	anyRemoved := false
	for i, si := range in.Servers {
		if si.Removed {
			anyRemoved = true
			go proxy.CloseProxy(srvs[i].addr)
		}
	}
	if anyRemoved {
		time.Sleep(50 * time.Millisecond)
	}

	// listeners whose start is still in progress when the shutdown begins: the address is taken, ListenAndServe*
	// is called 100 ms before proxy.Shutdown
	anyPending := false
	for i, si := range in.Servers {
		if si.Pending == 0 {
			continue
		}
		s, err := startServer(si, u, true)
		if err != nil {
			cleanup()
			return nil, err
		}
		srvs[i] = s
		anyPending = true
	}
	if anyPending {
		time.Sleep(100 * time.Millisecond)
	}

	wait := time.Duration(in.Wait) * time.Millisecond
	t0 := time.Now()
	var timers []*time.Timer
	var lastFree time.Duration
	for i, si := range in.Servers {
		if si.Pending != 0 {
			d := time.Duration(si.Pending) * time.Millisecond
			timers = append(timers, time.AfterFunc(d, srvs[i].free))
			if d > lastFree {
				lastFree = d
			}
		}
	}
	for _, w := range all {
		if w.end != nil {
			w := w
			timers = append(timers, time.AfterFunc(time.Duration(*w.end)*time.Millisecond, w.it.Release))
		}
	}
	// listeners started after the shutdown began: the address is reserved now, ListenAndServe* is called Late ms on
	anyLate := false
	var lateMu sync.Mutex
	var lateErr error
	for i, si := range in.Servers {
		if si.Late == 0 {
			continue
		}
		anyLate = true
		addr, err := freeAddr()
		if err != nil {
			cleanup()
			return nil, err
		}
		ph := &server{kind: si.Kind, addr: addr, errc: make(chan error, 1)} // stands for the listener in srvs
		srvs[i] = ph
		si := si
		d := time.Duration(si.Late) * time.Millisecond
		if d > lastFree {
			lastFree = d
		}
		timers = append(timers, time.AfterFunc(d, func() {
			s, err := startServerAt(si, u, addr)
			if err != nil {
				lateMu.Lock()
				lateErr = err
				lateMu.Unlock()
				ph.errc <- err
				return
			}
			ph.errc <- <-s.errc
		}))
	}
	done := make(chan time.Duration, 1)
	go func() {
		proxy.Shutdown(wait)
		done <- time.Since(t0)
	}()

	out.Accepted = make([]bool, len(srvs))
	time.Sleep(probeAtMs * time.Millisecond)
	for i, s := range srvs {
		if probe(s.addr) {
			out.Accepted[i] = true
			out.Notes = append(out.Notes, fmt.Sprintf("%s %s accepted a connection %d ms after shutdown began", s.kind, s.addr, time.Since(t0).Milliseconds()))
		}
	}
	var dur time.Duration
	returned := true
	select {
	case dur = <-done:
	case <-time.After(time.Until(t0.Add(wait + blockedCapMs*time.Millisecond))):
		dur = time.Since(t0)
		returned = false
		out.Notes = append(out.Notes, fmt.Sprintf("proxy.Shutdown(%v) still blocked %d ms after it was called", wait, dur.Milliseconds()))
	}
	for i, s := range srvs {
		if probe(s.addr) {
			out.Accepted[i] = true
			out.Notes = append(out.Notes, fmt.Sprintf("%s %s accepted a connection after proxy.Shutdown returned", s.kind, s.addr))
		}
	}
	time.Sleep(settleMs * time.Millisecond)
	out.DurMs = dur.Milliseconds()
	switch {
	case !returned || dur > wait+slackMs*time.Millisecond:
		out.Dur = "over"
	case dur < wait-earlyMs*time.Millisecond:
		out.Dur = "early"
	default:
		out.Dur = "deadline"
	}
	for i := range in.Servers {
		so := SrvOut{Work: []string{}, HWork: []string{}, Dial: []string{}, WS: []string{}}
		for _, w := range perSrv[i][3] {
			so.WS = append(so.WS, w.it.get())
		}
		for _, w := range perSrv[i][2] {
			so.Dial = append(so.Dial, w.it.get())
		}
		for _, w := range perSrv[i][0] {
			so.Work = append(so.Work, w.it.get())
		}
		for _, w := range perSrv[i][1] {
			so.HWork = append(so.HWork, w.it.get())
		}
		out.Servers = append(out.Servers, so)
	}
	for _, w := range all {
		if f := w.it.get(); f == "cut" {
			out.Notes = append(out.Notes, fmt.Sprintf("%s cut after %d ms: %s", w.it.id, w.it.finished.Sub(t0).Milliseconds(), w.it.detail))
		}
	}
	// (the fates above were read at the usual moment, settleMs after Shutdown returned: the watch below must not
	// give long work the time to end by itself)
	// an address that was busy while its listener was being started is watched until well after it became free
	if anyPending || anyLate {
		until := t0.Add(lastFree + pendingWatchMs*time.Millisecond)
		for time.Now().Before(until) {
			for i, s := range srvs {
				if in.Servers[i].Pending != 0 && !out.Accepted[i] && probe(s.addr) {
					out.Accepted[i] = true
					out.Notes = append(out.Notes, fmt.Sprintf("%s %s (start pending when shutdown began, address free %d ms after) accepted a connection %d ms after shutdown began", s.kind, s.addr, in.Servers[i].Pending, time.Since(t0).Milliseconds()))
				}
				if in.Servers[i].Late != 0 && !out.Accepted[i] && probe(s.addr) {
					out.Accepted[i] = true
					out.Notes = append(out.Notes, fmt.Sprintf("%s %s (ListenAndServe called %d ms after shutdown began) accepted a connection %d ms after shutdown began", s.kind, s.addr, in.Servers[i].Late, time.Since(t0).Milliseconds()))
				}
			}
			time.Sleep(40 * time.Millisecond)
		}
		lateMu.Lock()
		if lateErr != nil {
			out.Notes = append(out.Notes, "late start failed: "+lateErr.Error())
		}
		lateMu.Unlock()
		for i, s := range srvs {
			if in.Servers[i].Pending != 0 {
				if s.returned.Load() {
					out.Notes = append(out.Notes, fmt.Sprintf("%s %s: ListenAndServe returned: %v", s.kind, s.addr, s.startErr))
				} else {
					out.Notes = append(out.Notes, fmt.Sprintf("%s %s: ListenAndServe had not returned %d ms after shutdown began", s.kind, s.addr, time.Since(t0).Milliseconds()))
				}
			}
		}
	}
	for _, t := range timers {
		t.Stop()
	}
	cleanup()
	if !returned {
		select { // releasing the work unblocks GracefulStop
		case <-done:
		case <-time.After(5 * time.Second):
			out.Notes = append(out.Notes, "proxy.Shutdown did not return even after all work was released")
		}
	}
	for _, s := range srvs {
		select {
		case <-s.errc:
		case <-time.After(2 * time.Second):
			out.Notes = append(out.Notes, "serve loop of "+s.kind+" did not return")
		}
	}
	return out, nil
}

// suspicious reports whether an observation would fail the specification; such a scenario is measured a second
// time and the second measurement is what gets reported (a scheduling hiccup does not repeat, a defect does).
func suspicious(in *ScenarioIn, out *ScenarioOut) bool {
	if out.Dur == "over" {
		return true
	}
	for i, a := range out.Accepted {
		if a && in.Servers[i].Late == 0 { // a late start is expected to accept: nothing to re-measure
			return true
		}
	}
	for i, s := range in.Servers {
		for j, e := range s.Work {
			if e != nil && *e <= in.Wait && out.Servers[i].Work[j] != "completed" {
				return true
			}
		}
		for j, e := range s.HWork {
			if e != nil && *e <= in.Wait && out.Servers[i].HWork[j] != "completed" {
				return true
			}
		}
		for j, e := range s.WS {
			if e != nil && *e <= in.Wait && out.Servers[i].WS[j] != "completed" {
				return true
			}
		}
	}
	return false
}

func runScenario(in *ScenarioIn) (*ScenarioOut, error) {
	if err := in.validate(); err != nil {
		return nil, err
	}
	out, err := runOnce(in)
	for try := 0; err != nil && try < 3; try++ { // set-up trouble (no ports, slow machine): not an observation
		time.Sleep(3 * time.Second)
		out, err = runOnce(in)
	}
	if err != nil {
		return nil, err
	}
	if suspicious(in, out) {
		first := out
		out, err = runOnce(in)
		if err != nil {
			return nil, err
		}
		out.Attempts = 2
		out.Notes = append(out.Notes, fmt.Sprintf("first measurement: dur=%s (%d ms) %v", first.Dur, first.DurMs, first.Notes))
	}
	return out, nil
}
