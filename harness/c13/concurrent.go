package main

import (
	"encoding/json"
	"fmt"
	"net/http"
	"net/http/httptest"
	"net/url"
	"strings"
	"sync"

	"github.com/fabiolb/fabio/proxy"
	"github.com/fabiolb/fabio/route"
	"verif/harness/hx"
)

// c13.concurrent: G goroutines × L requests, all served by ONE shared `$path` redirect target through
// Table.Lookup + HTTPProxy.ServeHTTP; every goroutine uses paths only it uses and must get them back.
// The check runs this stream with a -race binary: a write to the shared target is reported by the race
// detector (the process then exits with status 66) besides showing up as another request's Location.
type concIn struct {
	tgtIn
	Host string `json:"host"`
	G    int    `json:"g"`
	L    int    `json:"l"`
}

type concPair struct {
	Target   string `json:"target"`
	Status   int    `json:"status"`
	Location string `json:"location"`
}

type concOut struct {
	Err     string     `json:"err,omitempty"`
	T       *tgtOut    `json:"t,omitempty"`
	Total   int        `json:"total"`
	Foreign int        `json:"foreign"` // answers that carry another goroutine's marker
	Panics  int        `json:"panics"`  // requests whose handler panicked (net/http would recover and close the connection)
	Panic   string     `json:"panic,omitempty"`
	Pairs   []concPair `json:"pairs"` // every foreign answer (capped) and the last answer of every goroutine
}

func runConc(in concIn) (interface{}, error) {
	if in.G < 1 {
		in.G = 1
	}
	if in.G > 64 {
		in.G = 64
	}
	if in.L < 1 {
		in.L = 1
	}
	if in.L > 5000 {
		in.L = 5000
	}
	tbl, err := in.table("/")
	if err != nil {
		return concOut{Err: "route"}, nil
	}
	tg := firstTarget(tbl)
	cache := route.NewGlobCache(100)
	p := &proxy.HTTPProxy{
		Transport: http.DefaultTransport,
		Lookup: func(r *http.Request) *route.Target {
			// glob matching disabled: the (unsynchronised) glob cache is the subject of C06, not of this stream
			return tbl.Lookup(r, "", route.Picker["rr"], route.Matcher["prefix"], cache, true)
		},
	}
	out := concOut{T: dumpTarget(tg)}
	var mu sync.Mutex
	var wg sync.WaitGroup
	start := make(chan struct{})
	for g := 0; g < in.G; g++ {
		wg.Add(1)
		go func(g int) {
			defer wg.Done()
			<-start
			marker := fmt.Sprintf("/g%dx", g)
			var last concPair
			for l := 0; l < in.L; l++ {
				mu.Lock()
				enough := out.Foreign+out.Panics >= 20 // the failure is established: do not flood the race log
				mu.Unlock()
				if enough {
					break
				}
				target := fmt.Sprintf("%s/%d%%2F?g=%d", marker, l, g)
				u, err := url.ParseRequestURI(target)
				if err != nil {
					return
				}
				req := &http.Request{Method: "GET", URL: u, Host: in.Host, Header: http.Header{}, RequestURI: target, RemoteAddr: "127.0.0.1:1"}
				rec := httptest.NewRecorder()
				if msg := serveRecover(p, rec, req); msg != "" {
					mu.Lock()
					out.Panics++
					out.Panic = msg
					mu.Unlock()
					continue
				}
				last = concPair{target, rec.Code, rec.Header().Get("Location")}
				if !strings.Contains(last.Location, marker+"/") && strings.Contains(last.Location, "/g") {
					mu.Lock()
					out.Foreign++
					if len(out.Pairs) < 4 {
						out.Pairs = append(out.Pairs, last)
					}
					mu.Unlock()
				}
			}
			mu.Lock()
			out.Total += in.L
			out.Pairs = append(out.Pairs, last)
			mu.Unlock()
		}(g)
	}
	close(start)
	wg.Wait()
	return out, nil
}

func serveRecover(p http.Handler, w http.ResponseWriter, r *http.Request) (msg string) {
	defer func() {
		if x := recover(); x != nil {
			msg = fmt.Sprint(x)
		}
	}()
	p.ServeHTTP(w, r)
	return ""
}

func init() {
	hx.Register(&hx.Stream{
		Name: "c13.concurrent",
		Corpus: []interface{}{
			concIn{tgtIn{Tmpl: "https://x.com$path", Redirect: "301"}, "a.com", 8, 2000},
			concIn{tgtIn{Tmpl: "https://$host/$path", Redirect: "302"}, "a.com", 8, 2000},
		},
		Gen: func(r *hx.Rand, i int) interface{} {
			in := concIn{Host: r.Pick([]string{"a.com", "a.com:80", "example.com"}), G: 2 + r.Intn(15), L: 200 + r.Intn(1500)}
			in.Tmpl = r.Pick([]string{"https://x.com$path", "https://$host$path", "https://$host/$path", "https://x.com/p/$path", "https://x.com/p$path", "http://$host:8080/$path?x=1"})
			if r.Chance(1, 3) {
				in.Prepend = "/pre"
			}
			if r.Chance(1, 4) {
				in.Strip = "/g1x"
			}
			in.Redirect = r.Pick([]string{"301", "302", "307", "308"})
			return in
		},
		Run: func(raw json.RawMessage) (interface{}, error) {
			var in concIn
			if err := json.Unmarshal(raw, &in); err != nil {
				return nil, err
			}
			return runConc(in)
		},
	})
}
