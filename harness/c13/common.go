package main

import (
	"encoding/hex"
	"io"
	"log"
	"net/http"
	"net/http/httptest"
	"net/url"
	"strconv"
	"strings"
	"unicode/utf8"

	"github.com/fabiolb/fabio/route"
	"verif/harness/hx"
)

func init() { log.SetOutput(io.Discard) }

// tgtIn is one redirect (or plain) target as the route commands would define it.
type tgtIn struct {
	Tmpl     string `json:"tmpl"`
	Strip    string `json:"strip,omitempty"`
	Prepend  string `json:"prepend,omitempty"`
	Redirect string `json:"redirect,omitempty"`
	Allow    string `json:"allow,omitempty"` // access rules of the target (the gate in front of the redirect branch)
	Deny     string `json:"deny,omitempty"`
}

func (t tgtIn) opts() map[string]string {
	o := map[string]string{}
	if t.Strip != "" {
		o["strip"] = t.Strip
	}
	if t.Prepend != "" {
		o["prepend"] = t.Prepend
	}
	if t.Redirect != "" {
		o["redirect"] = t.Redirect
	}
	if t.Allow != "" {
		o["allow"] = t.Allow
	}
	if t.Deny != "" {
		o["deny"] = t.Deny
	}
	return o
}

// target builds the route.Target through the real NewTableCustom/addRoute/addTarget.
func (t tgtIn) table(src string) (route.Table, error) {
	defs := []route.RouteDef{{Cmd: route.RouteAddCmd, Service: "svc", Src: src, Dst: t.Tmpl, Opts: t.opts()}}
	return route.NewTableCustom(&defs)
}

func firstTarget(tbl route.Table) *route.Target {
	for _, rs := range tbl {
		for _, r := range rs {
			if len(r.Targets) > 0 {
				return r.Targets[0]
			}
		}
	}
	return nil
}

// tgtOut is what the model needs to know about a target: the template URL as net/url parsed it and the
// option-derived fields.
type tgtOut struct {
	Scheme     string `json:"scheme"`
	Host       string `json:"host"`
	HostHex    string `json:"hosthex,omitempty"` // set when the host is not valid UTF-8 (a template host with an escaped byte such as %e9): JSON strings cannot carry it
	PathHex    string `json:"pathhex"`
	RawPathHex string `json:"rawpathhex"`
	RawQuery   string `json:"rawquery"`
	Strip      string `json:"strip"`
	Prepend    string `json:"prepend"`
	Code       int    `json:"code"`
	Odd        bool   `json:"odd,omitempty"` // user info, opaque, fragment: outside the modelled URL shapes
}

func dumpTarget(t *route.Target) *tgtOut {
	if t == nil {
		return nil
	}
	hh := ""
	if !utf8.ValidString(t.URL.Host) {
		hh = hex.EncodeToString([]byte(t.URL.Host))
	}
	return &tgtOut{Scheme: t.URL.Scheme, Host: t.URL.Host, HostHex: hh, PathHex: hex.EncodeToString([]byte(t.URL.Path)),
		RawPathHex: hex.EncodeToString([]byte(t.URL.RawPath)), RawQuery: t.URL.RawQuery, Strip: t.StripPath, Prepend: t.PrependPath, Code: t.RedirectCode,
		Odd: t.URL.User != nil || t.URL.Opaque != "" || t.URL.Scheme == ""}
}

type urlOut struct {
	Scheme     string `json:"scheme"`
	Host       string `json:"host"`
	HostHex    string `json:"hosthex,omitempty"`
	PathHex    string `json:"pathhex"`
	RawPathHex string `json:"rawpathhex"`
	RawQuery   string `json:"rawquery"`
}

func dumpURL(u *url.URL) *urlOut {
	if u == nil {
		return nil
	}
	hh := ""
	if !utf8.ValidString(u.Host) {
		hh = hex.EncodeToString([]byte(u.Host))
	}
	return &urlOut{u.Scheme, u.Host, hh, hex.EncodeToString([]byte(u.Path)), hex.EncodeToString([]byte(u.RawPath)), u.RawQuery}
}

// redirectHeader is what http.Redirect makes of the URL string (the exact call ServeHTTP issues).
func redirectHeader(u *url.URL, loc string, code int) (status int, location string) {
	rec := httptest.NewRecorder()
	r := &http.Request{Method: "GET", URL: u, Header: http.Header{}}
	http.Redirect(rec, r, loc, code)
	return rec.Code, rec.Header().Get("Location")
}

// ---- generator universes ----

var tmplHosts = []string{"bar.com", "$host", "www.foo.com", "bar.com:8443", "$host:8443", "sub.$host"}

// every template form the documentation and the tests show, plus variations
func genTmpl(r *hx.Rand) string {
	scheme := r.Pick([]string{"https", "https", "http"})
	switch r.Intn(16) {
	case 0, 1: // host$path (the documented form)
		return scheme + "://" + r.Pick([]string{"bar.com", "$host", "www.foo.com", "sub.$host"}) + "$path"
	case 2, 3: // host/$path
		return scheme + "://" + r.Pick(tmplHosts) + "/$path"
	case 4: // prefix/$path
		return scheme + "://" + r.Pick(tmplHosts) + r.Pick([]string{"/bbb", "/a/b", "/pre-fix", "/p.q_r~s"}) + "/$path"
	case 5: // prefix$path
		return scheme + "://" + r.Pick(tmplHosts) + r.Pick([]string{"/bbb", "/a/b"}) + "$path"
	case 6: // fixed
		return scheme + "://" + r.Pick(tmplHosts) + r.Pick([]string{"/", "/fixed", "/a/b/c", ""})
	case 7: // fixed with own query
		return scheme + "://" + r.Pick(tmplHosts) + r.Pick([]string{"/fixed?x=1", "/?x=1&y=2", "?x=1"})
	case 8: // $path with own query
		return scheme + "://" + r.Pick(tmplHosts) + r.Pick([]string{"/$path?x=1", "/bbb/$path?x=1&y=2"})
	case 9: // $path in the middle / twice / odd positions
		return scheme + "://" + r.Pick(tmplHosts) + r.Pick([]string{"/$path/tail", "/$path/$path", "/a$pathb", "/$pathology", "/$host/$path"})
	case 10: // empty path
		return scheme + "://" + r.Pick([]string{"bar.com", "$host", "bar.com:8443"})
	case 11: // host$path with own query
		return scheme + "://" + r.Pick([]string{"bar.com", "$host"}) + "$path?x=1"
	case 12: // $host twice, upper-case scheme, other schemes
		return r.Pick([]string{"HTTPS://$host/$path", "https://$host.$host/$path", "ftp://bar.com/$path", "https://$HOST/$path", "https://bar.com/$PATH"})
	default:
		return scheme + "://" + r.Pick([]string{"bar.com", "$host"}) + r.Pick([]string{"$path", "/$path"})
	}
}

// templates of the recorded-finding classes (kept out of the main share): an escaped prefix in the template
func genTmplOdd(r *hx.Rand) string {
	return "https://bar.com" + r.Pick([]string{"/a%2Fb/$path", "/a%20b/$path", "/é/$path", "/a%2Fb$path"})
}

// genTmplParse: template texts that exercise url.Parse itself (the model parses the text: Model/C13Parse.lean) —
// scheme spellings, ports, IP literals, host escapes, user info, opaque and scheme-less forms, fragments, control
// bytes, malformed escapes; about half of them are rejected by url.Parse.
func genTmplParse(r *hx.Rand) string {
	scheme := r.Pick([]string{"https", "http", "HTTPS", "Http", "h2c", "a+b-c.d", "1http", "+x", "", "ht tp", "https", "https"})
	sep := r.Pick([]string{"://", "://", "://", "://", ":/", ":", "//", ":///", ""})
	host := r.Pick([]string{"bar.com", "$host", "bar.com:8443", "bar.com:", "bar.com:80a", "bar.com:-1", "[::1]", "[::1]:8443", "[::1]:x", "[::1", "::1]", "[fe80::1%25en0]:80",
		"user@bar.com", "user:pw@bar.com", "u@v@bar.com", "b%C3%A9r.com", "b%e9r.com", "b%41r.com", "b%25r.com", "b%zzr.com", "b%2", "bar .com", "bar<>\".com", "bücher.example",
		"a:b:c", "$host:$path", "", "BAR.com", "bar.com$path", "sub.$host$path", "b\\r.com", "b^r.com", "b|r", "b{r}", "b`r"})
	path := r.Pick([]string{"", "", "/", "/$path", "$path", "/a/b", "/a%2Fb/$path", "/a%zz", "/a%2", "/a b", "/é", "/a\x7fb", "/a\tb", "//x", "/*", "*", "/a:b", "a:b", "/[x]", "/%41"})
	query := r.Pick([]string{"", "", "", "?", "?x=1", "?x=1?y=2", "??", "?x=%zz", "?é"})
	frag := r.Pick([]string{"", "", "", "", "#", "#frag", "#%zz", "#a#b", "#%41"})
	return scheme + sep + host + path + query + frag
}

var pathPieces = []string{"a", "b", "abc", "foo", "stripme", "%2F", "%2f", "%20", "%3F", "%25", "%23", "%41", "%C3%A9", "é", "日本", "!", "[x]", "a+b", ";p=1", ":", "@", "$path", "$host", "*", "%FF", "~", "%7E", "\"", "<", "."}

func genReqPath(r *hx.Rand, strip string) string {
	var b strings.Builder
	if strip != "" && r.Chance(3, 4) {
		b.WriteString(strip)
	}
	n := r.Intn(4)
	for i := 0; i < n; i++ {
		switch r.Intn(8) {
		case 0:
			b.WriteString("//")
		default:
			b.WriteString("/")
		}
		k := 1 + r.Intn(2)
		for j := 0; j < k; j++ {
			b.WriteString(r.Pick(pathPieces))
		}
	}
	if r.Chance(1, 3) || b.Len() == 0 {
		b.WriteString("/")
	}
	s := b.String()
	if !strings.HasPrefix(s, "/") {
		s = "/" + s
	}
	return s
}

func genQuery(r *hx.Rand) string {
	return r.Pick([]string{"", "", "?", "?aaa=1", "?a=1&b=2", "?q=%2F%20", "?x=é", "?a=b?c", "?$path", "?a=1#frag"})
}

var reqHosts = []string{"foo.com", "foo.com:80", "foo.com:8080", "FOO.com", "example.com", "example.com:443", "[::1]:80", "127.0.0.1", "a.b.example.com", "xn--bcher-kva.example", "bücher.example", "h$path", "$host"}

func genStrip(r *hx.Rand) string {
	if r.Chance(1, 2) {
		return ""
	}
	return r.Pick([]string{"/stripme", "/foo", "/a", "/a/b", "/", "stripme", "/foo/"})
}

func genStripOdd(r *hx.Rand) string { return r.Pick([]string{"/a b", "/é", "/a%2Fb", "/%41"}) }

func genPrepend(r *hx.Rand) string {
	if r.Chance(2, 3) {
		return ""
	}
	return r.Pick([]string{"/prefix", "/p", "/p/q", "pre", "/prefix/"})
}

func genPrependOdd(r *hx.Rand) string {
	return r.Pick([]string{"/pre fix", "/é", "/a%2Fb", "/100%", "/q?"})
}

func genCode(r *hx.Rand) string {
	switch r.Intn(10) {
	case 0, 1, 2, 3, 4:
		return r.Pick([]string{"301", "302", "303", "307", "308"})
	case 5, 6: // the whole documented range 300..399, and its neighbours
		return strconv.Itoa(290 + r.Intn(120))
	case 7: // spellings strconv.Atoi accepts or rejects
		n := strconv.Itoa(295 + r.Intn(110))
		return r.Pick([]string{"+", "-", "0", "00", " ", "", ""}) + n + r.Pick([]string{"", "", "", " ", "0", ".0", "e0", "_"})
	}
	return r.Pick([]string{"", "300", "399", "299", "400", "200", "0", "abc", "-301", "+301", "0301", "3 01", "301 ", "3e2",
		"99999999999999999999", "-99999999999999999999", "9223372036854775807", "9223372036854775808", "١٢٣", "30١", "304", "350"})
}

// genAccess: access rules for a target. The client of c13.http is 127.0.0.1, so the first two deny it.
func genAccess(r *hx.Rand, t *tgtIn) {
	switch r.Intn(4) {
	case 0:
		t.Deny = "ip:127.0.0.1"
	case 1:
		t.Allow = "ip:10.0.0.0/8"
	case 2:
		t.Allow = "ip:127.0.0.0/8"
	default:
		t.Deny = "ip:10.0.0.0/8"
	}
}
