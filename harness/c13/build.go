package main

import (
	"encoding/hex"
	"encoding/json"
	"fmt"
	"net/url"

	"verif/harness/hx"
)

// c13.build: one redirect target (built by the real route code from a template and options) and one
// request → (RedirectCode, redirect URL, Location header) exactly as Lookup + ServeHTTP compute them.
type buildIn struct {
	tgtIn
	Host   string `json:"host"`
	Target string `json:"target"` // request-target (origin form) as it appears in the request line
}

type buildOut struct {
	Err      string  `json:"err,omitempty"` // "route": the route command is rejected; "request": the request-target does not parse
	T        *tgtOut `json:"t,omitempty"`
	Req      *urlOut `json:"req,omitempty"`
	U        *urlOut `json:"u,omitempty"`
	Status   int     `json:"status"`
	Location string  `json:"location"`
	Panic    string  `json:"panic,omitempty"` // text of a panic of BuildRedirectURL / http.Redirect
}

func runBuild(in buildIn) (interface{}, error) {
	tbl, err := in.table("/")
	if err != nil {
		return buildOut{Err: "route"}, nil
	}
	tg := firstTarget(tbl)
	out := buildOut{T: dumpTarget(tg)}
	u, err := url.ParseRequestURI(in.Target)
	if err != nil {
		out.Err = "request"
		return out, nil
	}
	u.Host = in.Host // Lookup: req.URL.Host = req.Host
	out.Req = dumpURL(u)
	if tg.RedirectCode == 0 {
		return out, nil
	}
	func() {
		defer func() {
			if p := recover(); p != nil {
				out.Panic = fmt.Sprint(p)
			}
		}()
		tg.BuildRedirectURL(u)
		if tg.RedirectURL == nil {
			return
		}
		out.U = dumpURL(tg.RedirectURL)
		out.Status, out.Location = redirectHeader(u, tg.RedirectURL.String(), tg.RedirectCode)
	}()
	return out, nil
}

func init() {
	b := func(tmpl, strip, prepend, code, host, target string) buildIn {
		return buildIn{tgtIn{Tmpl: tmpl, Strip: strip, Prepend: prepend, Redirect: code}, host, target}
	}
	hx.Register(&hx.Stream{
		Name: "c13.build",
		Corpus: []interface{}{
			b("https://$host$path", "", "", "301", "x.com", "/a%2Fb?q=1"), // D17
			b("https://www.foo.com$path", "", "", "303", "x.com", "/a%2Fb"),
			b("https://$host/$path", "", "", "301", "x.com", "/a%2Fb?q=1"),
			b("http://bar.com/bbb$path", "/stripme", "", "302", "foo.com", "/stripme/abc/?aaa=1"),
			b("http://bar.com/$path", "/stripme", "/prefix", "308", "foo.com:80", "/stripme/%20/a%2f/"),
			b("http://bar.com/a/b/c?foo=bar", "", "", "301", "foo.com", "/?aaa=1"),
			b("http://bar.com", "", "", "307", "foo.com", "/x"),
			b("https://bar.com/$path", "", "", "99999999999999999999", "foo.com", "/x"), // D27
			b("https://bar.com/$path", "", "", "200", "foo.com", "/x"),
			b("https://bar.com/$path", "", "", "abc", "foo.com", "/x"),
			b("https://bar.com/$path", "", "", "399", "foo.com", "/x"), // the documented upper bound is a configured status
			b("https://bar.com/$path", "", "", "350", "foo.com", "/x"), // a 3xx code without a name in net/http
			b("https://bar.com/$path", "", "", "+308", "foo.com", "/x"),
			b("https://bar.com/$path", "", "", "-301", "foo.com", "/x"),
			b("https://bar.com$path", "/foo", "", "301", "foo.com", "/foo"),
			b("https://bar.com$path", "/a", "", "301", "foo.com", "/ab"),
			b("https://$host/$path", "", "", "301", "bücher.example", "/é/%C3%A9?x=é"),
			// url.Parse of the template text
			b("HTTPS://Bar.com:8443/$path?x=1#frag", "", "", "301", "foo.com", "/x"),
			b("https://[::1]:8443$path", "", "", "301", "foo.com", "/x"),
			b("https://b%C3%A9r.com/$path", "", "", "301", "foo.com", "/x"),
			b("https://b%41r.com/$path", "", "", "301", "foo.com", "/x"),  // rejected: only %25 and non-ASCII may be escaped in a host
			b("https://bar.com:80a/$path", "", "", "301", "foo.com", "/x"), // rejected: invalid port
			b("https://bar .com/$path", "", "", "301", "foo.com", "/x"),    // rejected: invalid host character
			b("https://bar.com/a%zz$path", "", "", "301", "foo.com", "/x"), // rejected: malformed escape
			b("https://bar.com/$path#%zz", "", "", "301", "foo.com", "/x"), // rejected: malformed escape in the fragment
			b("https://bar.com/\x7f$path", "", "", "301", "foo.com", "/x"), // rejected: control byte
			b("://bar.com/$path", "", "", "301", "foo.com", "/x"),          // rejected: missing protocol scheme
			b("https:/$path", "", "", "301", "foo.com", "/x"),
			b("https://bar.com?", "", "", "301", "foo.com", "/x?q=1"),
		},
		Gen: func(r *hx.Rand, i int) interface{} {
			in := buildIn{}
			in.Tmpl = genTmpl(r)
			in.Strip = genStrip(r)
			in.Prepend = genPrepend(r)
			// recorded-finding classes get a small, separately tagged share
			switch r.Intn(40) {
			case 0:
				in.Tmpl = genTmplOdd(r)
			case 1:
				in.Strip = genStripOdd(r)
			case 2:
				in.Prepend = genPrependOdd(r)
			case 3, 4, 5, 6, 7: // the template text as url.Parse sees it: spellings, malformed and unmodelled shapes
				in.Tmpl = genTmplParse(r)
			}
			in.Redirect = genCode(r)
			in.Host = r.Pick(reqHosts)
			in.Target = genReqPath(r, in.Strip) + genQuery(r)
			return in
		},
		Run: func(raw json.RawMessage) (interface{}, error) {
			var in buildIn
			if err := json.Unmarshal(raw, &in); err != nil {
				return nil, err
			}
			return runBuild(in)
		},
	})

	// c13.url: the net/url fragment of the model against net/url itself.
	type urlIn struct {
		Target  string `json:"target"` // request-target, parsed with ParseRequestURI
		Host    string `json:"host"`
		Path    string `json:"path"` // an arbitrary (Path, RawPath) pair for EscapedPath/String
		RawPath string `json:"rawpath"`
	}
	type urlRes struct {
		OK       bool    `json:"ok"`
		Req      *urlOut `json:"req,omitempty"`
		Escaped  string  `json:"escaped"`
		Str      string  `json:"str"`
		Escaped2 string  `json:"escaped2"`
		Str2     string  `json:"str2"`
		UnescOK  bool    `json:"unesc_ok"`
		UnescHex string  `json:"unesc_hex"`
	}
	hx.Register(&hx.Stream{
		Name: "c13.url",
		Corpus: []interface{}{
			urlIn{"/a%2Fb?q=1", "x.com", "/a/b", "/a%2Fb"}, urlIn{"/a%2", "x", "a:b", ""}, urlIn{"/%zz", "", "", "%"},
			urlIn{"/a[b]!*'()", "h<>\"", "/a[b", "/a[b"}, urlIn{"/é", "bücher", "/é", "/é"}, urlIn{"/?", "", "*", ""},
		},
		Gen: func(r *hx.Rand, i int) interface{} {
			in := urlIn{Target: genReqPath(r, "") + genQuery(r), Host: r.Pick(reqHosts)}
			if r.Chance(1, 8) { // malformed escapes
				in.Target += r.Pick([]string{"%", "%2", "%zz", "%2g", "%%"})
			}
			p := genReqPath(r, "")
			switch r.Intn(4) {
			case 0:
				in.Path, in.RawPath = p, ""
			case 1:
				if u, err := url.PathUnescape(p); err == nil {
					in.Path, in.RawPath = u, p
				} else {
					in.Path, in.RawPath = p, p
				}
			case 2:
				in.Path, in.RawPath = p, genReqPath(r, "")
			default:
				in.Path, in.RawPath = r.Pick([]string{"", "*", "a:b/c", "a/b:c", "x"}), r.Pick([]string{"", "x", "*"})
				if r.Chance(1, 2) {
					in.Host = ""
				}
			}
			return in
		},
		Run: func(raw json.RawMessage) (interface{}, error) {
			var in urlIn
			if err := json.Unmarshal(raw, &in); err != nil {
				return nil, err
			}
			var out urlRes
			if u, err := url.ParseRequestURI(in.Target); err == nil {
				out.OK = true
				u.Host = in.Host
				out.Req = dumpURL(u)
				out.Escaped = u.EscapedPath()
				v := &url.URL{Scheme: "https", Host: in.Host, Path: u.Path, RawPath: u.RawPath, RawQuery: u.RawQuery}
				out.Str = v.String()
			}
			w := &url.URL{Host: in.Host, Path: in.Path, RawPath: in.RawPath}
			out.Escaped2 = w.EscapedPath()
			out.Str2 = w.String()
			if s, err := url.PathUnescape(in.RawPath); err == nil {
				out.UnescOK = true
				out.UnescHex = hex.EncodeToString([]byte(s))
			}
			return out, nil
		},
	})
}
