package main

import (
	"encoding/json"
	"net/http"
	"net/http/httptest"
	"net/url"

	"github.com/fabiolb/fabio/proxy"
	"github.com/fabiolb/fabio/route"
	gkm "github.com/go-kit/kit/metrics"
	"verif/harness/hx"
)

// c13.sequence: ONE shared redirect target (any template form: $host only, $path only, both, fixed URL),
// consecutive requests that differ in Host (port, case), path, raw path, query and X-Forwarded-Proto, all
// through Table.Lookup + HTTPProxy.ServeHTTP. Answer k must be the pure function of request k: anything the
// target remembers from an earlier request (a cached URL, a cached host) shows up here without concurrency.
type seqReq struct {
	Host   string `json:"host"`
	Target string `json:"target"`
	XFP    string `json:"xfp,omitempty"`
}

type seqIn struct {
	tgtIn
	Reqs []seqReq `json:"reqs"`
}

type seqAns struct {
	Err      string `json:"err,omitempty"` // "request": the request-target does not parse
	Status   int    `json:"status"`
	Location string `json:"location"`
	HasLoc   bool   `json:"hasloc"`
	Panic    string `json:"panic,omitempty"`
	// what the request added to the redirect counter (proxy.Stats.RedirectCounter, set as main.go sets it)
	Counted   int    `json:"counted"`
	CountCode string `json:"countcode,omitempty"`
}

// redirCounter is a go-kit counter that remembers its increments and the last "code" label.
type redirCounter struct {
	n    *int
	code *string
	lbl  string
}

func newRedirCounter() *redirCounter { return &redirCounter{n: new(int), code: new(string)} }

func (c *redirCounter) With(labelValues ...string) gkm.Counter {
	d := *c
	for i := 0; i+1 < len(labelValues); i += 2 {
		if labelValues[i] == "code" {
			d.lbl = labelValues[i+1]
		}
	}
	return &d
}

func (c *redirCounter) Add(delta float64) {
	*c.n += int(delta)
	*c.code = c.lbl
}

type seqOut struct {
	Err  string   `json:"err,omitempty"`
	T    *tgtOut  `json:"t,omitempty"`
	Answ []seqAns `json:"answers"`
}

func runSeq(in seqIn) (interface{}, error) {
	if len(in.Reqs) > 64 {
		in.Reqs = in.Reqs[:64]
	}
	tbl, err := in.table("/")
	if err != nil {
		return seqOut{Err: "route"}, nil
	}
	cache := route.NewGlobCache(100)
	cnt := newRedirCounter()
	p := &proxy.HTTPProxy{
		Transport: http.DefaultTransport,
		Lookup: func(r *http.Request) *route.Target {
			return tbl.Lookup(r, "", route.Picker["rr"], route.Matcher["prefix"], cache, true)
		},
		Stats: proxy.HttpStatsHandler{RedirectCounter: cnt},
	}
	out := seqOut{T: dumpTarget(firstTarget(tbl)), Answ: []seqAns{}}
	for _, rq := range in.Reqs {
		u, err := url.ParseRequestURI(rq.Target)
		if err != nil {
			out.Answ = append(out.Answ, seqAns{Err: "request"})
			continue
		}
		req := &http.Request{Method: "GET", URL: u, Host: rq.Host, Header: http.Header{}, RequestURI: rq.Target, RemoteAddr: "127.0.0.1:1"}
		if rq.XFP != "" {
			req.Header.Set("X-Forwarded-Proto", rq.XFP)
		}
		rec := httptest.NewRecorder()
		a := seqAns{}
		before := *cnt.n
		*cnt.code = ""
		msg := serveRecover(p, rec, req)
		a.Counted, a.CountCode = *cnt.n-before, *cnt.code
		if msg != "" {
			a.Panic = msg
		} else {
			a.Status = rec.Code
			if l, ok := rec.Header()["Location"]; ok && len(l) > 0 {
				a.Location, a.HasLoc = l[0], true
			}
		}
		out.Answ = append(out.Answ, a)
	}
	return out, nil
}

var seqHosts = []string{"foo.com", "foo.com:80", "foo.com:8080", "FOO.com", "bar.org", "example.com", "example.com:443", "a.b.example.com", "127.0.0.1", "[::1]:80"}

func genSeqTmpl(r *hx.Rand) string {
	scheme := r.Pick([]string{"https", "https", "http"})
	switch r.Intn(8) {
	case 0, 1: // $host only
		return scheme + "://" + r.Pick([]string{"$host", "$host:8443", "sub.$host"}) + r.Pick([]string{"/", "", "/fixed", "/a/b?x=1"})
	case 2: // $path only
		return scheme + "://bar.com" + r.Pick([]string{"$path", "/$path", "/bbb/$path", "/bbb$path", "/$path?x=1"})
	case 3, 4: // both
		return scheme + "://" + r.Pick([]string{"$host", "sub.$host", "$host:8443"}) + r.Pick([]string{"$path", "/$path", "/bbb/$path"})
	case 5: // fixed
		return scheme + "://bar.com" + r.Pick([]string{"/", "", "/fixed", "/a/b/c?foo=bar"})
	default:
		return genTmpl(r)
	}
}

func init() {
	hostOnly := func(tmpl string) seqIn {
		return seqIn{tgtIn{Tmpl: tmpl, Redirect: "301"}, []seqReq{{"first.com", "/", ""}, {"second.com:8080", "/x?q=1", ""}, {"FIRST.com", "/a%2Fb", "https"}, {"first.com", "/", ""}}}
	}
	hx.Register(&hx.Stream{
		Name: "c13.sequence",
		Corpus: []interface{}{
			hostOnly("https://$host/"), hostOnly("https://$host"), hostOnly("https://$host/fixed?x=1"), hostOnly("https://$host$path"),
			hostOnly("https://bar.com/$path"), hostOnly("https://bar.com/fixed"), hostOnly("http://sub.$host:8443/"),
		},
		Gen: func(r *hx.Rand, i int) interface{} {
			in := seqIn{}
			in.Tmpl = genSeqTmpl(r)
			if r.Chance(1, 3) {
				in.Strip = genStrip(r)
			}
			if r.Chance(1, 4) {
				in.Prepend = genPrepend(r)
			}
			in.Redirect = r.Pick([]string{"301", "302", "307", "308", "303"})
			n := 2 + r.Intn(7)
			hosts := []string{r.Pick(seqHosts), r.Pick(seqHosts), r.Pick(seqHosts)}
			for k := 0; k < n; k++ {
				rq := seqReq{Host: r.Pick(hosts), Target: genReqPath(r, in.Strip) + genQuery(r)}
				if r.Chance(1, 4) {
					rq.XFP = r.Pick([]string{"https", "http"})
				}
				if k > 0 && r.Chance(1, 5) { // an exact repetition of an earlier request
					rq = in.Reqs[r.Intn(k)]
				}
				in.Reqs = append(in.Reqs, rq)
			}
			return in
		},
		Run: func(raw json.RawMessage) (interface{}, error) {
			var in seqIn
			if err := json.Unmarshal(raw, &in); err != nil {
				return nil, err
			}
			return runSeq(in)
		},
	})
}
