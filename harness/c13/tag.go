package main

import (
	"bytes"
	"encoding/json"
	"net"
	"net/http"
	"net/http/httptest"
	"net/url"
	"sort"
	"strconv"
	"strings"

	"github.com/fabiolb/fabio/proxy"
	"github.com/fabiolb/fabio/registry/consul"
	"github.com/fabiolb/fabio/route"
	"github.com/hashicorp/consul/api"
	"verif/harness/hx"
)

// c13.tag: the documented way to configure a redirect from a Consul registration — a tag
// 'urlprefix-host/path redirect=<code>,<url> strip=… prepend=…' — end to end through the real code:
// routecmd.build (registry/consul) → route.Parse / route.NewTable (parseOpts, addTarget) → Table.Lookup →
// HTTPProxy.ServeHTTP. The options stand before, after and around the redirect= field.
type tagIn struct {
	Src     string `json:"src"`  // host/path of the tag (what follows the prefix)
	Opts    string `json:"opts"` // option text of the tag
	Host    string `json:"host"`
	Target  string `json:"target"`
	XFP     string `json:"xfp,omitempty"`
	Upgrade string `json:"upgrade,omitempty"`
	Accept  string `json:"accept,omitempty"`
}

type tagOut struct {
	Err    string   `json:"err,omitempty"` // "dropped": build emitted no command; "parse"/"table": fabio's own parser or table rejects it
	Addr   string   `json:"addr"`          // host:port of the service (net.JoinHostPort: C14's subject)
	NCmd   int      `json:"ncmd"`
	Dst    string   `json:"dst"`
	Opts   []string `json:"opts"` // key=value of the parsed command, sorted
	T      *tgtOut  `json:"t,omitempty"`
	Answer *seqAns  `json:"answer,omitempty"`
}

const (
	tagPrefix  = "urlprefix-"
	tagSvcIP   = "127.0.0.1" // nothing listens on port 1: an upstream that is contacted by mistake fails at once
	tagSvcPort = 1
)

// errTransport refuses every round trip: no stream case needs a working upstream.
type errTransport struct{}

func (errTransport) RoundTrip(*http.Request) (*http.Response, error) {
	return nil, &net.OpError{Op: "dial", Err: net.UnknownNetworkError("verif: no upstream")}
}

func runTag(in tagIn) (interface{}, error) {
	out := tagOut{Addr: net.JoinHostPort(tagSvcIP, strconv.Itoa(tagSvcPort)), Opts: []string{}}
	tag := tagPrefix + in.Src
	if in.Opts != "" {
		tag += " " + in.Opts
	}
	svc := &api.CatalogService{ServiceName: "svc", ServiceAddress: tagSvcIP, ServicePort: tagSvcPort, ServiceTags: []string{tag}}
	cmds := consul.VerifC13Build(svc, tagPrefix)
	out.NCmd = len(cmds)
	if len(cmds) == 0 {
		out.Err = "dropped"
		return out, nil
	}
	text := strings.Join(cmds, "\n")
	defs, err := route.Parse(bytes.NewBufferString(text))
	if err != nil || len(defs) == 0 {
		out.Err = "parse"
		return out, nil
	}
	out.Dst = defs[0].Dst
	for k, v := range defs[0].Opts {
		out.Opts = append(out.Opts, k+"="+v)
	}
	sort.Strings(out.Opts)
	tbl, err := route.NewTable(bytes.NewBufferString(text))
	if err != nil {
		out.Err = "table"
		return out, nil
	}
	out.T = dumpTarget(firstTarget(tbl))
	u, err := url.ParseRequestURI(in.Target)
	if err != nil {
		out.Answer = &seqAns{Err: "request"}
		return out, nil
	}
	cache := route.NewGlobCache(10)
	cnt := newRedirCounter()
	p := &proxy.HTTPProxy{
		Transport: errTransport{},
		Lookup: func(r *http.Request) *route.Target {
			return tbl.Lookup(r, "", route.Picker["rr"], route.Matcher["prefix"], cache, true)
		},
		Stats: proxy.HttpStatsHandler{RedirectCounter: cnt},
	}
	req := &http.Request{Method: "GET", URL: u, Host: in.Host, Header: http.Header{}, RequestURI: in.Target, RemoteAddr: "127.0.0.1:1"}
	if in.XFP != "" {
		req.Header.Set("X-Forwarded-Proto", in.XFP)
	}
	if in.Upgrade != "" {
		req.Header.Set("Upgrade", in.Upgrade)
		req.Header.Set("Connection", "Upgrade")
	}
	if in.Accept != "" {
		req.Header.Set("Accept", in.Accept)
	}
	rec := httptest.NewRecorder()
	a := seqAns{}
	msg := serveRecover(p, rec, req)
	a.Counted, a.CountCode = *cnt.n, *cnt.code
	if msg != "" {
		a.Panic = msg
	} else {
		a.Status = rec.Code
		if l, ok := rec.Header()["Location"]; ok && len(l) > 0 {
			a.Location, a.HasLoc = l[0], true
		}
	}
	out.Answer = &a
	return out, nil
}

var tagSrcs = []string{"foo.com/old", "foo.com/", "/old", "/", "FOO.com/old", "foo.com/a/b", "foo.com:80/old"}

func genTagOpt(r *hx.Rand) string {
	switch r.Intn(10) {
	case 0, 1, 2:
		// (strip=/ is the class of the recorded finding D18d: kept out here, replayed from the c13.http corpus)
		return "strip=" + r.Pick([]string{"/old", "/a", "/a/b", "/foo"})
	case 3, 4:
		return "prepend=" + r.Pick([]string{"/p", "/prefix", "/p/q", "pre"})
	case 5:
		return r.Pick([]string{"host=dst", "tlsskipverify=true", "register=foo", "flag", "x=y=z"})
	case 6:
		return r.Pick([]string{"proto=https", "proto=tcp", "proto=grpc", "proto=http", "weight=0.5"})
	case 7: // a second strip/prepend: the last one wins
		return r.Pick([]string{"strip=/x", "prepend=/y"})
	default:
		return "strip=" + r.Pick([]string{"/old", "/a"})
	}
}

func genTagRedirect(r *hx.Rand) string {
	code := genCode(r)
	if r.Chance(3, 4) {
		code = r.Pick([]string{"301", "302", "303", "307", "308", strconv.Itoa(300 + r.Intn(100))})
	}
	code = strings.Join(strings.Fields(code), "") // a field holds no white space
	u := genTmpl(r)
	switch r.Intn(16) {
	case 0: // malformed: no URL, or a comma too many
		return "redirect=" + code
	case 1:
		return "redirect=" + code + "," + u + ",x"
	case 2:
		return "redirect=," + u
	}
	return "redirect=" + code + "," + u
}

func genTag(r *hx.Rand) tagIn {
	in := tagIn{Src: r.Pick(tagSrcs)}
	var fs []string
	nBefore, nAfter := r.Intn(3), r.Intn(3)
	for i := 0; i < nBefore; i++ {
		fs = append(fs, genTagOpt(r))
	}
	if r.Chance(9, 10) {
		fs = append(fs, genTagRedirect(r))
	}
	for i := 0; i < nAfter; i++ {
		fs = append(fs, genTagOpt(r))
	}
	if r.Chance(1, 12) { // a second redirect field
		fs = append(fs, genTagRedirect(r))
	}
	sep := " "
	if r.Chance(1, 8) {
		sep = r.Pick([]string{"  ", "\t", " \t "})
	}
	in.Opts = strings.Join(fs, sep)
	// the request: mostly one the route matches
	src := strings.ToLower(in.Src)
	host, path := src, "/"
	if i := strings.Index(src, "/"); i >= 0 {
		host, path = src[:i], src[i:]
	}
	if host == "" {
		host = r.Pick([]string{"foo.com", "example.com", "bar.com:8443"})
	}
	in.Host = host
	if r.Chance(1, 8) {
		in.Host = r.Pick(reqHosts)
	}
	rest := genReqPath(r, "")
	if path == "/" {
		in.Target = rest
	} else if r.Chance(7, 8) {
		in.Target = path + rest
	} else {
		in.Target = rest
	}
	in.Target += genQuery(r)
	if r.Chance(1, 4) {
		in.XFP = r.Pick([]string{"https", "http"})
	}
	switch r.Intn(10) {
	case 0:
		in.Upgrade = r.Pick([]string{"websocket", "WebSocket"})
	case 1:
		in.Accept = "text/event-stream"
	}
	return in
}

func init() {
	hx.Register(&hx.Stream{
		Name: "c13.tag",
		Corpus: []interface{}{
			// the documentation's tag
			tagIn{Src: "/path", Opts: "redirect=301,https://www.example.com$path", Host: "foo.com", Target: "/path/a%2Fb?q=1"},
			// options before, after and around redirect=
			tagIn{Src: "/old", Opts: "strip=/old redirect=301,https://new.example.com$path", Host: "foo.com", Target: "/old/a/b?x=1"},
			tagIn{Src: "/old", Opts: "redirect=301,https://new.example.com$path strip=/old", Host: "foo.com", Target: "/old/a/b?x=1"},
			tagIn{Src: "foo.com/old", Opts: "prepend=/p redirect=302,https://$host/$path strip=/old", Host: "foo.com", Target: "/old/a%2Fb"},
			tagIn{Src: "foo.com/", Opts: "redirect=399,https://$host$path", Host: "foo.com", Target: "/x", XFP: "http"},
			tagIn{Src: "foo.com/", Opts: "redirect=301,https://$host$path", Host: "foo.com", Target: "/ws", Upgrade: "websocket"},
			tagIn{Src: "foo.com/", Opts: "strip=/a redirect=301", Host: "foo.com", Target: "/a/x"},
			tagIn{Src: "foo.com/", Opts: "redirect=301,https://a.com/$path redirect=302,https://b.com/$path", Host: "foo.com", Target: "/x"},
			// the excluded point of tag_target_meets_spec_partial: a bare `redirect` field switches the redirect off again
			tagIn{Src: "foo.com/", Opts: "redirect=301,https://a.com/$path redirect", Host: "foo.com", Target: "/x"},
		},
		Gen: func(r *hx.Rand, i int) interface{} { return genTag(r) },
		Run: func(raw json.RawMessage) (interface{}, error) {
			var in tagIn
			if err := json.Unmarshal(raw, &in); err != nil {
				return nil, err
			}
			if len(in.Opts) > 4096 || strings.ContainsAny(in.Src+in.Opts, "\"\n\r\x00") {
				return tagOut{Err: "harness-input", Opts: []string{}}, nil
			}
			return runTag(in)
		},
	})
}
