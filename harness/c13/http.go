package main

import (
	"bufio"
	"crypto/tls"
	"encoding/hex"
	"encoding/json"
	"fmt"
	"io"
	"net"
	"net/http"
	"net/http/httptest"
	"net/url"
	"sort"
	"strings"
	"sync"
	"sync/atomic"
	"time"

	"github.com/fabiolb/fabio/proxy"
	"github.com/fabiolb/fabio/route"
	"verif/harness/hx"
)

// c13.http: a small table served by a real proxy.HTTPProxy behind a plain and a TLS listener; one request
// written byte for byte on a real connection; status, Location and the hit counter of the upstream.

type routeIn struct {
	Src   string `json:"src"` // host/path prefix
	tgtIn        // Tmpl "UPSTREAM" stands for the instrumented upstream
}

type httpIn struct {
	Routes []routeIn `json:"routes"`
	Host   string    `json:"host"`
	Target string    `json:"target"`
	TLS    bool      `json:"tls"`
	XFP    string    `json:"xfp,omitempty"`
	XFP2   string    `json:"xfp2,omitempty"` // a second X-Forwarded-Proto line (Header.Get reads the first)
	Method string    `json:"method,omitempty"` // empty: GET
	NoGlob bool      `json:"noglob,omitempty"`
	// the headers by which ServeHTTP chooses the upstream handler (websocket, SSE, plain)
	Upgrade string `json:"upgrade,omitempty"`
	Accept  string `json:"accept,omitempty"`
}

type httpOut struct {
	Err      string    `json:"err,omitempty"`
	Status   int       `json:"status"`
	Location string    `json:"location"`
	HasLoc   bool      `json:"hasloc"`
	Hits     int64     `json:"hits"`   // all instrumented upstreams together
	HitsBy   []int64   `json:"hitsby"` // per instrumented upstream
	Table    []keyOut  `json:"table"`  // the real route.Table after NewTableCustom: what the model's Lookup runs on
	Hosts    []string  `json:"hosts"`  // hook: the host list of the real matchingHosts / matchingHostNoGlob (compared with the model's)
	Cands    []*tgtOut `json:"cands"`  // hook: what the real lookup yields per host (compared with the model's)
}

// keyOut is one host key of the table with its routes in the table's own order.
type keyOut struct {
	Key    string     `json:"key"`
	Routes []routeOut `json:"routes"`
}

type routeOut struct {
	PathHex string  `json:"pathhex"`
	T       *tgtOut `json:"t"`
	Up      int     `json:"up"`     // which instrumented upstream the target is, -1: none
	Denied  bool    `json:"denied"` // verdict of the real AccessDeniedHTTP for this client (oracle; C12's subject)
	Targets int     `json:"targets"`
}

const nUpstreams = 4

type fronts struct {
	plain, tls *httptest.Server
	upstream   [nUpstreams]*httptest.Server // route i of a case proxies to upstream i mod 4: the answer tells which route served it
	hits       [nUpstreams]int64
	tbl        atomic.Value // route.Table
	noglob     atomic.Value // bool
	cache      *route.GlobCache
	conns      [2]*persist // kept-alive client connections (plain, TLS): one socket per listener instead of one per case
}

// persist is a client connection that is reused for consecutive cases (HTTP/1.1 keep-alive).
type persist struct {
	c  net.Conn
	br *bufio.Reader
}

func (f *fronts) dial(useTLS bool) (*persist, error) {
	var c net.Conn
	var err error
	if useTLS {
		c, err = tls.Dial("tcp", f.tls.Listener.Addr().String(), &tls.Config{InsecureSkipVerify: true})
	} else {
		c, err = net.Dial("tcp", f.plain.Listener.Addr().String())
	}
	if err != nil {
		return nil, err
	}
	return &persist{c: c, br: bufio.NewReader(c)}, nil
}

// exchange writes the request bytes and reads one response. A connection that was kept from an earlier case and
// turns out to be dead is replaced once; oneShot requests (protocol upgrades: the connection is hijacked) get a
// connection of their own. status -1: the server closed the connection without a response (handler panic).
func (f *fronts) exchange(useTLS bool, method, msg string, oneShot bool) (status int, loc string, hasLoc bool, err error) {
	k := 0
	if useTLS {
		k = 1
	}
	for attempt := 0; attempt < 2; attempt++ {
		pc := f.conns[k]
		kept := pc != nil && !oneShot
		if !kept {
			if pc, err = f.dial(useTLS); err != nil {
				return 0, "", false, err
			}
			if !oneShot {
				f.conns[k] = pc
			}
		}
		drop := func() {
			pc.c.Close()
			if f.conns[k] == pc {
				f.conns[k] = nil
			}
		}
		pc.c.SetDeadline(time.Now().Add(10 * time.Second))
		if _, werr := pc.c.Write([]byte(msg)); werr != nil {
			drop()
			if kept {
				continue
			}
			return -1, "", false, nil
		}
		resp, rerr := http.ReadResponse(pc.br, &http.Request{Method: method})
		if rerr != nil {
			drop()
			if kept && pc.br.Buffered() == 0 {
				continue // a kept connection the server had closed meanwhile: not an answer to this request
			}
			return -1, "", false, nil
		}
		status = resp.StatusCode
		if l, ok := resp.Header["Location"]; ok && len(l) > 0 {
			loc, hasLoc = l[0], true
		}
		_, cerr := io.Copy(io.Discard, resp.Body)
		resp.Body.Close()
		if oneShot || resp.Close || cerr != nil {
			drop()
		}
		return status, loc, hasLoc, nil
	}
	return -1, "", false, nil
}

var (
	frontOnce sync.Once
	front     *fronts
)

func getFronts() *fronts {
	frontOnce.Do(func() {
		f := &fronts{cache: route.NewGlobCache(1000)}
		for i := range f.upstream {
			i := i
			f.upstream[i] = httptest.NewServer(http.HandlerFunc(func(w http.ResponseWriter, r *http.Request) {
				atomic.AddInt64(&f.hits[i], 1)
				w.WriteHeader(200)
				fmt.Fprint(w, "upstream")
			}))
		}
		f.tbl.Store(route.Table{})
		f.noglob.Store(false)
		p := &proxy.HTTPProxy{
			Transport: http.DefaultTransport,
			Lookup: func(r *http.Request) *route.Target {
				return f.tbl.Load().(route.Table).Lookup(r, "", route.Picker["rr"], route.Matcher["prefix"], f.cache, f.noglob.Load().(bool))
			},
		}
		f.plain = httptest.NewServer(p)
		f.tls = httptest.NewTLSServer(p)
		front = f
	})
	return front
}

func (in *httpIn) table(ups []string) (route.Table, error) {
	var defs []route.RouteDef
	seen := map[string]bool{}
	for i, r := range in.Routes {
		// one target per route, so that the picker has no choice to make
		if k := strings.ToLower(r.Src); seen[k] {
			continue
		} else {
			seen[k] = true
		}
		dst := r.Tmpl
		if dst == "UPSTREAM" {
			dst = ups[i%len(ups)]
		}
		defs = append(defs, route.RouteDef{Cmd: route.RouteAddCmd, Service: "svc", Src: r.Src, Dst: dst, Opts: r.opts()})
	}
	return route.NewTableCustom(&defs)
}

func runHTTP(in httpIn) (interface{}, error) {
	f := getFronts()
	var ups []string
	for _, u := range f.upstream {
		ups = append(ups, u.URL+"/")
	}
	upIndex := func(t *route.Target) int {
		for i, u := range ups {
			if t != nil && t.URL.String() == u {
				return i
			}
		}
		return -1
	}
	tbl, err := in.table(ups)
	if err != nil {
		return httpOut{Err: "route"}, nil
	}
	method := in.Method
	if method == "" {
		method = "GET"
	}
	okMethod := false
	for _, m := range httpMethods {
		okMethod = okMethod || m == method
	}
	if !okMethod || strings.ContainsAny(in.Target, " \r\n\x00") || strings.ContainsAny(in.Host, " \r\n\x00") || strings.ContainsAny(in.XFP+in.XFP2+in.Upgrade+in.Accept, "\r\n\x00") || (in.XFP == "" && in.XFP2 != "") {
		return httpOut{Err: "request"}, nil
	}
	f.tbl.Store(tbl)
	f.noglob.Store(in.NoGlob)
	for i := range f.hits {
		atomic.StoreInt64(&f.hits[i], 0)
	}

	var b strings.Builder
	fmt.Fprintf(&b, "%s %s HTTP/1.1\r\nHost: %s\r\n", method, in.Target, in.Host)
	if in.XFP != "" {
		fmt.Fprintf(&b, "X-Forwarded-Proto: %s\r\n", in.XFP)
	}
	if in.XFP2 != "" {
		fmt.Fprintf(&b, "X-Forwarded-Proto: %s\r\n", in.XFP2)
	}
	if method == "POST" || method == "PUT" {
		b.WriteString("Content-Length: 0\r\n")
	}
	if in.Accept != "" {
		fmt.Fprintf(&b, "Accept: %s\r\n", in.Accept)
	}
	if in.Upgrade != "" {
		fmt.Fprintf(&b, "Upgrade: %s\r\nConnection: Upgrade\r\n", in.Upgrade)
	}
	b.WriteString("\r\n")
	out := httpOut{}
	out.Status, out.Location, out.HasLoc, err = f.exchange(in.TLS, method, b.String(), in.Upgrade != "")
	if err != nil {
		return nil, err
	}
	for i := range f.hits {
		h := atomic.LoadInt64(&f.hits[i])
		out.HitsBy = append(out.HitsBy, h)
		out.Hits += h
	}
	// the upstream's own address is an artefact of the run: blank it in the dumps
	dump := func(t *route.Target) *tgtOut {
		d := dumpTarget(t)
		if d != nil && upIndex(t) >= 0 {
			d.Host = "UPSTREAM"
		}
		return d
	}
	if out.Status != 400 {
		u, err := url.ParseRequestURI(in.Target)
		if err == nil {
			req := &http.Request{Method: "GET", URL: u, Host: in.Host, Header: http.Header{}, RemoteAddr: "127.0.0.1:1"}
			if in.TLS {
				req.TLS = &tls.ConnectionState{}
			}
			// the table Lookup ran on (keys sorted: Go's map order is not part of the case)
			var keys []string
			for k := range tbl {
				keys = append(keys, k)
			}
			sort.Strings(keys)
			for _, k := range keys {
				ko := keyOut{Key: k}
				for _, rt := range tbl[k] {
					ro := routeOut{PathHex: hex.EncodeToString([]byte(rt.Path)), Up: -1, Targets: len(rt.Targets)}
					if len(rt.Targets) > 0 {
						t := rt.Targets[0]
						ro.T, ro.Up, ro.Denied = dump(t), upIndex(t), t.AccessDeniedHTTP(req)
					}
					ko.Routes = append(ko.Routes, ro)
				}
				out.Table = append(out.Table, ko)
			}
			// what the real host matching and per-host lookup give (same functions, same request shape)
			hosts, cands := route.VerifC13Candidates(tbl, req, route.Picker["rr"], route.Matcher["prefix"], f.cache, in.NoGlob)
			out.Hosts = hosts
			for _, c := range cands {
				out.Cands = append(out.Cands, dump(c))
			}
		}
	}
	return out, nil
}

// the redirect branch does not look at the method
var httpMethods = []string{"GET", "HEAD", "POST", "PUT", "DELETE", "OPTIONS", "PATCH"}

// genReqExtras: method and header spellings a redirect must not depend on
func genReqExtras(r *hx.Rand, in *httpIn) {
	if r.Chance(1, 4) {
		in.Method = r.Pick(httpMethods)
	}
	if in.XFP != "" && r.Chance(1, 8) {
		in.XFP2 = r.Pick([]string{"https", "http"})
	}
	if r.Chance(1, 16) {
		in.XFP = r.Pick([]string{"https, http", "https,http", "http, https", " https", "Https"})
	}
}

var httpReqHosts = []string{"example.com", "example.com:80", "example.com:443", "EXAMPLE.com", "www.example.com", "x.com", "x.com:8080", "other.org"}
var httpSrcHosts = []string{"example.com", "example.com:80", "example.com:443", "*.example.com", "", "x.com", "x.com:8080", "www.example.com"}

// genNextHost: the situation of the property's last sentence — several host keys match one request (the name
// with and without the default port of the connection, in upper case, a wildcard, the host-less routes), the
// more specific ones mostly redirect to the request's own scheme and host, the others are plain routes on
// distinguishable upstreams or redirects elsewhere.
func genNextHost(r *hx.Rand) httpIn {
	name := r.Pick([]string{"example.com", "www.example.com", "x.com", "a.b.example.com"})
	in := httpIn{TLS: r.Chance(1, 2), NoGlob: r.Chance(1, 2)}
	port := ":80"
	if in.TLS {
		port = ":443"
	}
	in.Host = name + r.Pick([]string{"", "", port, port, ":8080"})
	if r.Chance(1, 8) {
		in.Host = strings.ToUpper(in.Host[:1]) + in.Host[1:]
	}
	own := "http"
	if in.TLS {
		own = "https"
	}
	switch r.Intn(4) {
	case 0: // TLS terminated in front of fabio (issue 448)
		in.XFP = r.Pick([]string{"https", "http"})
		own = in.XFP
	case 1:
		in.XFP = r.Pick([]string{"HTTPS", "ws", "https"})
	}
	path := genReqPath(r, "")
	in.Target = strings.NewReplacer(" ", "%20", "\"", "%22", "<", "%3C", "#", "%23").Replace(path + genQuery(r))
	// keys that can match this request (the name with and without the default port, wildcards, the host-less routes) …
	good := []string{name, name + port, "*." + strings.SplitN(name, ".", 2)[1], "*" + name[1:], "*" + port, ""}
	// … and keys that cannot (another port, another name, the other scheme's default port)
	other := []string{name + ":8080", "other.org", strings.ToUpper(name) + ":8443", "*.org"}
	var keys []string
	for len(keys) < 4 {
		pool := &good
		if r.Chance(1, 5) {
			pool = &other
		}
		if len(*pool) == 0 {
			continue
		}
		j := r.Intn(len(*pool))
		keys = append(keys, (*pool)[j])
		*pool = append((*pool)[:j:j], (*pool)[j+1:]...)
	}
	n := 2 + r.Intn(3)
	for i := 0; i < n; i++ {
		ri := routeIn{Src: keys[i] + r.Pick([]string{"/", "/", "/", "/", "/", "/foo", "/a"})}
		switch r.Intn(8) {
		case 0, 1, 2: // a redirect to the request's own scheme: a self-redirect when host and path come out the same
			ri.Tmpl = own + "://" + r.Pick([]string{"$host", "$host", in.Host, name}) + r.Pick([]string{"$path", "$path", "/$path", "/"})
			ri.Redirect = r.Pick([]string{"301", "302", "308"})
		case 3: // the documented http -> https redirect
			ri.Tmpl = "https://" + r.Pick([]string{"$host", name}) + "$path"
			ri.Redirect = "301"
		case 4:
			ri.Tmpl = genTmpl(r)
			ri.Redirect = genCode(r)
		default:
			ri.Tmpl = "UPSTREAM"
		}
		if r.Chance(1, 12) {
			genAccess(r, &ri.tgtIn)
		}
		in.Routes = append(in.Routes, ri)
	}
	genReqExtras(r, &in)
	return in
}

func genHTTP(r *hx.Rand) httpIn {
	if r.Chance(1, 3) {
		return genNextHost(r)
	}
	in := httpIn{Host: r.Pick(httpReqHosts), TLS: r.Chance(1, 2), NoGlob: r.Chance(1, 3)}
	if r.Chance(1, 2) {
		in.XFP = r.Pick([]string{"https", "http", "https", "HTTPS", "ws"})
	}
	// the headers ServeHTTP reads after the redirect branch to pick the upstream handler
	switch r.Intn(8) {
	case 0:
		in.Upgrade = r.Pick([]string{"websocket", "WebSocket", "WEBSOCKET", "h2c", "websocket2"})
	case 1:
		in.Accept = r.Pick([]string{"text/event-stream", "text/event-stream", "text/html", "Text/Event-Stream"})
	case 2:
		in.Upgrade, in.Accept = "websocket", "text/event-stream"
	}
	hostOnly := strings.Split(in.Host, ":")[0]
	path := genReqPath(r, "")
	in.Target = path + genQuery(r)
	in.Target = strings.NewReplacer(" ", "%20", "\"", "%22", "<", "%3C").Replace(in.Target)
	if i := strings.Index(in.Target, "#"); i >= 0 {
		in.Target = in.Target[:i]
	}
	n := 1 + r.Intn(4)
	for i := 0; i < n; i++ {
		ri := routeIn{}
		h := r.Pick(httpSrcHosts)
		if r.Chance(3, 4) {
			h = r.Pick([]string{in.Host, hostOnly, strings.ToLower(hostOnly), ""})
		}
		ri.Src = h + r.Pick([]string{"/", "/", "/", "/", "/foo", "/a"})
		switch r.Intn(10) {
		case 0, 1, 2: // plain upstream route
			ri.Tmpl = "UPSTREAM"
		case 3, 4, 5: // a redirect that may point at the request itself
			sch := r.Pick([]string{"https", "http"})
			ri.Tmpl = sch + "://" + r.Pick([]string{in.Host, hostOnly, "$host", "example.com"}) + r.Pick([]string{"$path", "/$path", "/", path})
			ri.Redirect = r.Pick([]string{"301", "302", "308"})
		default:
			ri.Tmpl = genTmpl(r)
			ri.Strip = genStrip(r)
			ri.Prepend = genPrepend(r)
			ri.Redirect = genCode(r)
		}
		if r.Chance(1, 8) {
			genAccess(r, &ri.tgtIn)
		}
		in.Routes = append(in.Routes, ri)
	}
	genReqExtras(r, &in)
	return in
}

func init() {
	self := func(tls bool, xfp string) httpIn {
		return httpIn{Routes: []routeIn{{"example.com/", tgtIn{Tmpl: "https://example.com/", Redirect: "301"}}, {"/", tgtIn{Tmpl: "UPSTREAM"}}},
			Host: "example.com", Target: "/", TLS: tls, XFP: xfp}
	}
	selfHTTP := func(tls bool, xfp string) httpIn {
		in := self(tls, xfp)
		in.Routes[0].Tmpl = "http://example.com$path"
		in.Target = "/x/y?q=1"
		return in
	}
	nextHost := func(noglob bool, xfp string) httpIn {
		return httpIn{Routes: []routeIn{{"example.com:80/", tgtIn{Tmpl: "https://example.com$path", Redirect: "301"}},
			{"example.com/", tgtIn{Tmpl: "UPSTREAM"}}, {"/", tgtIn{Tmpl: "UPSTREAM"}}},
			Host: "example.com", Target: "/app?x=1", XFP: xfp, NoGlob: noglob}
	}
	hx.Register(&hx.Stream{
		Name: "c13.http",
		Corpus: []interface{}{
			self(true, ""), self(true, "https"), self(false, ""), self(false, "https"), self(false, "http"), // D18
			selfHTTP(false, ""), selfHTTP(true, ""), selfHTTP(true, "http"),
			httpIn{Routes: []routeIn{{"*:80", tgtIn{Tmpl: "https://$host$path", Redirect: "301"}}}, Host: "c.com:80", Target: "/a%2Fb?q=1"},
			httpIn{Routes: []routeIn{{"/", tgtIn{Tmpl: "https://$host/$path", Redirect: "302"}}}, Host: "c.com", Target: "/x", XFP: "https"},
			// the documented http -> https redirect on the key with the default port next to the plain route of the
			// bare name, TLS terminated in front of fabio (X-Forwarded-Proto: https): the redirect is skipped and the
			// next matching host answers — with and without host globs
			nextHost(false, "https"), nextHost(true, "https"), nextHost(true, ""), nextHost(false, ""),
			// requests that would select the websocket / SSE handler, sent to a redirect route
			httpIn{Routes: []routeIn{{"/", tgtIn{Tmpl: "https://$host$path", Redirect: "301"}}}, Host: "c.com", Target: "/ws", Upgrade: "websocket"},
			httpIn{Routes: []routeIn{{"/", tgtIn{Tmpl: "https://$host$path", Redirect: "301"}}}, Host: "c.com", Target: "/events", Accept: "text/event-stream"},
			httpIn{Routes: []routeIn{{"/", tgtIn{Tmpl: "UPSTREAM"}}}, Host: "c.com", Target: "/ws", Upgrade: "websocket"},
			httpIn{Routes: []routeIn{{"/", tgtIn{Tmpl: "UPSTREAM"}}}, Host: "c.com", Target: "/events", Accept: "text/event-stream"},
			// the redirect does not depend on the method; Header.Get reads the first X-Forwarded-Proto line
			httpIn{Routes: []routeIn{{"/", tgtIn{Tmpl: "https://$host$path", Redirect: "308"}}}, Host: "c.com", Target: "/submit?x=1", Method: "POST"},
			httpIn{Routes: []routeIn{{"/", tgtIn{Tmpl: "https://$host$path", Redirect: "301"}}}, Host: "c.com", Target: "/x", Method: "HEAD"},
			httpIn{Routes: []routeIn{{"/", tgtIn{Tmpl: "https://$host$path", Redirect: "301"}}, {"c.com/", tgtIn{Tmpl: "UPSTREAM"}}}, Host: "c.com", Target: "/x", XFP: "https", XFP2: "http"},
			httpIn{Routes: []routeIn{{"/", tgtIn{Tmpl: "https://$host$path", Redirect: "301"}}}, Host: "c.com", Target: "/x", XFP: "http", XFP2: "https"},
			// the access gate stands in front of the redirect branch
			httpIn{Routes: []routeIn{{"/", tgtIn{Tmpl: "https://$host$path", Redirect: "301", Deny: "ip:127.0.0.1"}}}, Host: "c.com", Target: "/x"},
			httpIn{Routes: []routeIn{{"/", tgtIn{Tmpl: "https://$host$path", Redirect: "301", Allow: "ip:127.0.0.0/8"}}}, Host: "c.com", Target: "/x"},
		},
		Gen: func(r *hx.Rand, i int) interface{} { return genHTTP(r) },
		Run: func(raw json.RawMessage) (interface{}, error) {
			var in httpIn
			if err := json.Unmarshal(raw, &in); err != nil {
				return nil, err
			}
			return runHTTP(in)
		},
	})
}
