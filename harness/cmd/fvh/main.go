// fvh — fabio verification harness.  Runs the real implementation (built with -tags verif against the
// current /repo tree) on generated or replayed inputs and writes one protocol line per case.
//
//	fvh list
//	fvh gen    -stream S -n N -seed K        corpus cases first, then N generated cases
//	fvh replay -stream S < inputs.jsonl      one JSON input per line
package main

import (
	"bufio"
	"encoding/json"
	"flag"
	"fmt"
	"os"

	"verif/harness/hx"
	_ "verif/harness/streams"
)

func main() {
	if len(os.Args) < 2 {
		hx.Fatal("usage: fvh list|gen|replay ...")
	}
	cmd := os.Args[1]
	fs := flag.NewFlagSet(cmd, flag.ExitOnError)
	stream := fs.String("stream", "", "stream name")
	n := fs.Int("n", 1000, "generated cases")
	seed := fs.Uint64("seed", 1, "seed")
	nocorpus := fs.Bool("nocorpus", false, "skip the built-in corpus")
	offset := fs.Int("offset", 0, "index of the first generated case (for sharding)")
	corpus := fs.String("corpus", "", "file with one JSON input per line, run before generation")
	fs.Parse(os.Args[2:])

	switch cmd {
	case "list":
		for _, s := range hx.Names() {
			fmt.Println(s)
		}
	case "gen":
		s := hx.Get(*stream)
		if s == nil {
			hx.Fatal("unknown stream %q", *stream)
		}
		w := hx.NewWriter(os.Stdout)
		defer w.Flush()
		if !*nocorpus {
			for _, in := range s.Corpus {
				if err := hx.EmitOne(w, s, in); err != nil {
					hx.Fatal("emit: %v", err)
				}
			}
		}
		if !*nocorpus && *corpus != "" {
			if f, err := os.Open(*corpus); err == nil {
				sc := bufio.NewScanner(f)
				sc.Buffer(make([]byte, 1<<20), 1<<28)
				for sc.Scan() {
					line := sc.Bytes()
					if len(line) == 0 || line[0] == '#' {
						continue
					}
					var in json.RawMessage = append([]byte(nil), line...)
					if err := hx.EmitOne(w, s, in); err != nil {
						hx.Fatal("emit: %v", err)
					}
				}
				f.Close()
			}
		}
		base := hx.NewRand(*seed, s.Name)
		for i := *offset; i < *offset+*n; i++ {
			in := s.Gen(base.Split(i), i)
			if err := hx.EmitOne(w, s, in); err != nil {
				hx.Fatal("emit: %v", err)
			}
		}
	case "replay":
		s := hx.Get(*stream)
		if s == nil {
			hx.Fatal("unknown stream %q", *stream)
		}
		w := hx.NewWriter(os.Stdout)
		defer w.Flush()
		sc := bufio.NewScanner(os.Stdin)
		sc.Buffer(make([]byte, 1<<20), 1<<28)
		for sc.Scan() {
			line := sc.Bytes()
			if len(line) == 0 {
				continue
			}
			var in json.RawMessage = append([]byte(nil), line...)
			if err := hx.EmitOne(w, s, in); err != nil {
				hx.Fatal("emit: %v", err)
			}
		}
	default:
		hx.Fatal("unknown command %q", cmd)
	}
}
