package main

import (
	"bytes"
	"encoding/json"
	"errors"
	"fmt"
	"strings"

	"github.com/fabiolb/fabio/config"
	"verif/harness/hx"
)

// c07.body: methods × request bodies (0 B – 2 MiB, Content-Length or chunked) × upstream replies (status,
// end-to-end headers, body, chunked or not) through the real proxy over real sockets. Bodies are derived from
// a seed on the Go side only; the case carries lengths and hashes of what was sent and of what arrived.

type bodyIn struct {
	Method   string      `json:"method"`
	ReqLen   int         `json:"reqlen"`
	ReqSeed  uint64      `json:"reqseed"`
	Chunks   []int       `json:"chunks"` // non-empty: send the body chunked with these chunk sizes (cycled)
	RStatus  int         `json:"rstatus"`
	RHdr     [][2]string `json:"rhdr"`
	RLen     int         `json:"rlen"`
	RSeed    uint64      `json:"rseed"`
	RChunked bool        `json:"rchunked"`
	Strip    bool        `json:"strip"` // route with strip/prepend/host options: must not matter for bodies
}

type bodyOut struct {
	Hits     int    `json:"hits"`
	UpMethod string `json:"up_method"`
	SentLen  int    `json:"sent_len"`
	SentSHA  string `json:"sent_sha"`
	UpLen    int    `json:"up_len"`
	UpSHA    string `json:"up_sha"`
	Status   int    `json:"status"`
	RepLen   int    `json:"rep_len"` // what the upstream wrote
	RepSHA   string `json:"rep_sha"`
	GotLen   int    `json:"got_len"` // what the client read
	GotSHA   string `json:"got_sha"`
	RepHdr   []kv   `json:"rep_hdr"` // end-to-end headers the upstream set
	GotHdr   []kv   `json:"got_hdr"` // end-to-end headers the client saw
}

func seeded(seed uint64, n int) []byte {
	return hx.NewRand(seed, "c07.body").Bytes(n)
}

var respHop = map[string]bool{"Connection": true, "Proxy-Connection": true, "Keep-Alive": true, "Proxy-Authenticate": true,
	"Proxy-Authorization": true, "Te": true, "Trailer": true, "Transfer-Encoding": true, "Upgrade": true, "Content-Length": true}

func e2e(h []kv) []kv {
	out := []kv{}
	for _, x := range h {
		if !respHop[x.K] {
			out = append(out, x)
		}
	}
	return out
}

func noBody(method string, status int) bool {
	return method == "HEAD" || status == 204 || status == 304
}

func runBody(raw json.RawMessage) (interface{}, error) {
	var in bodyIn
	if err := json.Unmarshal(raw, &in); err != nil {
		return nil, err
	}
	if !validToken(in.Method) || in.Method == "CONNECT" {
		return nil, errors.New("method cannot be sent")
	}
	if in.ReqLen < 0 || in.ReqLen > 4<<20 || in.RLen < 0 || in.RLen > 4<<20 {
		return nil, errors.New("length out of range")
	}
	if in.RStatus < 200 || in.RStatus > 999 {
		return nil, errors.New("status is not a final status")
	}
	for _, c := range in.Chunks {
		if c <= 0 || c > 1<<20 {
			return nil, errors.New("chunk size out of range")
		}
	}
	rh := [][2]string{{"Date", "Mon, 02 Jan 2006 15:04:05 GMT"}}
	for _, h := range in.RHdr {
		if !validToken(h[0]) || !validValue(h[1]) {
			return nil, errors.New("response header cannot be sent")
		}
		switch strings.ToLower(h[0]) {
		case "content-length", "transfer-encoding", "date", "content-encoding", "trailer", "upgrade", "connection":
			return nil, errors.New("framing header is set by the harness")
		}
		rh = append(rh, h)
	}
	hasCT := false
	for _, h := range rh {
		hasCT = hasCT || strings.EqualFold(h[0], "content-type")
	}
	if !hasCT { // otherwise the upstream's own server would sniff one
		rh = append(rh, [2]string{"Content-Type", "application/x-verif"})
	}
	if in.RStatus == 304 { // net/http's server (our upstream) never sends a Content-Type with 304
		keep := rh[:0]
		for _, h := range rh {
			if !strings.EqualFold(h[0], "content-type") {
				keep = append(keep, h)
			}
		}
		rh = keep
	}
	body := seeded(in.ReqSeed, in.ReqLen)
	rbody := seeded(in.RSeed, in.RLen)
	if noBody(in.Method, in.RStatus) {
		rbody = nil
	}
	var b bytes.Buffer
	fmt.Fprintf(&b, "%s /b/x HTTP/1.1\r\nHost: example.com\r\nContent-Type: application/octet-stream\r\n", in.Method)
	if len(in.Chunks) > 0 {
		b.WriteString("Transfer-Encoding: chunked\r\n\r\n")
		rest := body
		for i := 0; len(rest) > 0; i++ {
			n := in.Chunks[i%len(in.Chunks)]
			if n > len(rest) {
				n = len(rest)
			}
			fmt.Fprintf(&b, "%x\r\n", n)
			b.Write(rest[:n])
			b.WriteString("\r\n")
			rest = rest[n:]
		}
		b.WriteString("0\r\n\r\n")
	} else {
		if len(body) > 0 || (in.Method != "GET" && in.Method != "HEAD") {
			fmt.Fprintf(&b, "Content-Length: %d\r\n", len(body))
		}
		b.WriteString("\r\n")
		b.Write(body)
	}
	e := getEnv()
	cmd := "route add svc /b http://" + upstreamName + "/"
	if in.Strip {
		cmd += ` opts "strip=/b prepend=/q host=dst"`
	}
	rep := &upReply{Status: in.RStatus, Hdr: rh, Body: rbody, Flush: in.RChunked, NoWrite: noBody(in.Method, in.RStatus)}
	// A transfer that breaks off (seen rarely, only with many harness processes running side by side) is
	// tried again; an error that persists is reported.
	var resp *clientResp
	var err error
	for attempt := 0; attempt < 3; attempt++ {
		if err = e.install(config.Proxy{}, cmd, rep); err != nil {
			return nil, err
		}
		if resp, err = e.roundTrip(in.Method, b.Bytes(), false); err == nil {
			break
		}
	}
	if err != nil {
		return nil, err
	}
	hits, up := e.seen()
	out := bodyOut{Hits: hits, SentLen: len(body), SentSHA: sha(body), Status: resp.Status, RepLen: len(rbody), RepSHA: sha(rbody),
		GotLen: resp.BodyLen, GotSHA: resp.BodySHA, GotHdr: e2e(resp.Hdr)}
	var want []kv
	for _, h := range rh {
		k := canonical(h[0])
		found := false
		for i := range want {
			if want[i].K == k {
				want[i].V = append(want[i].V, h[1])
				found = true
			}
		}
		if !found {
			want = append(want, kv{k, []string{h[1]}})
		}
	}
	sortKV(want)
	out.RepHdr = e2e(want)
	if up != nil {
		out.UpMethod, out.UpLen, out.UpSHA = up.Method, up.BodyLen, up.BodySHA
	}
	return out, nil
}

func init() {
	methods := []string{"GET", "POST", "POST", "PUT", "PATCH", "DELETE", "HEAD", "OPTIONS", "FOO"}
	statuses := []int{200, 200, 200, 201, 202, 204, 206, 301, 302, 304, 400, 401, 403, 404, 418, 429, 500, 502, 503, 599, 299, 999}
	hn := []string{"X-Custom", "Content-Type", "Set-Cookie", "Set-Cookie", "Cache-Control", "Etag", "Location", "X-A", "Vary", "Server", "Www-Authenticate"}
	hv := []string{"1", "text/plain", "a=b; Path=/", "c=d", "no-store", "W/\"x\"", "http://UPSTREAM/x", "/rel", "Accept-Encoding", "up/1", ""}
	sizes := []int{0, 0, 1, 2, 100, 4095, 4096, 4097, 32 << 10, 65535, 65536, 65537, 1 << 20, 2 << 20}
	hx.Register(&hx.Stream{
		Name: "c07.body",
		Corpus: []interface{}{
			bodyIn{Method: "GET", RStatus: 200, RLen: 2},
			bodyIn{Method: "POST", ReqLen: 2 << 20, ReqSeed: 1, RStatus: 200, RLen: 2 << 20, RSeed: 2},
			bodyIn{Method: "POST", ReqLen: 2 << 20, ReqSeed: 1, Chunks: []int{1, 4096, 70000}, RStatus: 201, RLen: 2 << 20, RSeed: 2, RChunked: true},
			bodyIn{Method: "PUT", ReqLen: 5, Chunks: []int{1}, RStatus: 204},
			bodyIn{Method: "HEAD", RStatus: 200, RLen: 10},
			bodyIn{Method: "GET", RStatus: 304, RLen: 10, RHdr: [][2]string{{"Etag", "W/\"x\""}}},
			bodyIn{Method: "DELETE", ReqLen: 3, RStatus: 999, RLen: 3, Strip: true},
			bodyIn{Method: "GET", RStatus: 200, RLen: 100, RHdr: [][2]string{{"Set-Cookie", "a=b"}, {"Set-Cookie", "c=d"}, {"X-Custom", ""}}},
		},
		Gen: func(r *hx.Rand, i int) interface{} {
			in := bodyIn{Method: r.Pick(methods), ReqSeed: r.U64() % 1000, RSeed: r.U64() % 1000, RHdr: [][2]string{}, Chunks: []int{}}
			pick := func() int {
				if r.Chance(2, 3) {
					return r.Intn(300)
				}
				n := sizes[r.Intn(len(sizes))]
				if n > 100 && r.Chance(1, 2) {
					n = r.Intn(n)
				}
				return n
			}
			if in.Method != "GET" && in.Method != "HEAD" || r.Chance(1, 8) {
				in.ReqLen = pick()
				if r.Chance(1, 2) {
					for k := r.Range(1, 3); k > 0; k-- {
						in.Chunks = append(in.Chunks, []int{1, 2, 7, 100, 4096, 65536, 70000}[r.Intn(7)])
					}
				}
			}
			in.RStatus = statuses[r.Intn(len(statuses))]
			in.RLen = pick()
			in.RChunked = r.Chance(1, 3)
			in.Strip = r.Chance(1, 3)
			for k := r.Intn(4); k > 0; k-- {
				in.RHdr = append(in.RHdr, [2]string{r.Pick(hn), r.Pick(hv)})
			}
			return in
		},
		Run: runBody,
	})
}
