package main

import (
	"bytes"
	"compress/gzip"
	"encoding/json"
	"errors"
	"fmt"
	"io"
	"regexp"
	"strings"

	"github.com/fabiolb/fabio/config"
	"verif/harness/hx"
)

// c07.body: methods × request bodies (0 B – 2 MiB, Content-Length or chunked) × upstream replies (status,
// end-to-end headers, body, chunked or not) through the real proxy over real sockets. Bodies are derived from
// a seed on the Go side only; the case carries lengths and hashes of what was sent and of what arrived.

type bodyIn struct {
	Method   string      `json:"method"`
	ReqLen   int         `json:"reqlen"`
	ReqSeed  uint64      `json:"reqseed"`
	Chunks   []int       `json:"chunks"` // non-empty: send the body chunked with these chunk sizes (cycled)
	RStatus  int         `json:"rstatus"`
	RHdr     [][2]string `json:"rhdr"`
	RLen     int         `json:"rlen"`
	RSeed    uint64      `json:"rseed"`
	RChunked bool        `json:"rchunked"`
	Strip    bool        `json:"strip"`   // route with strip/prepend/host options: must not matter for bodies
	Interim  []interim   `json:"interim"` // informational responses the upstream sends before the final one
	Expect   bool        `json:"expect"`  // the client announces its body with "Expect: 100-continue"
	Gzip     bool        `json:"gzip"`    // proxy.gzip.contenttype configured (^text/): the gzip handler sits in the chain
	AE       string      `json:"ae"`      // the client's Accept-Encoding ("" = none)
	Accept   string      `json:"accept"`  // the client's Accept ("" = none): text/event-stream selects the SSE flush interval and keeps the gzip layer out
	CType    string      `json:"ctype"`   // the request's Content-Type ("" = application/octet-stream)
	RCE      []string    `json:"rce"`     // the Content-Encoding lines the upstream puts on its reply (none = not encoded): already encoded content
	Cfg      pcfg        `json:"cfg"`     // proxy configuration beside the route: must not matter
	// trailer fields of the reply (end-to-end header fields that travel behind the body; the reply then goes out
	// chunked). Request trailers are not generated: httputil.ReverseProxy itself forwards their names without the
	// values (Request.Clone copies the Trailer map before the body has been read), see design/C07.md.
	RTrailer [][2]string `json:"rtrailer"`
}

type bodyOut struct {
	Hits     int    `json:"hits"`
	UpMethod string `json:"up_method"`
	SentLen  int    `json:"sent_len"`
	SentSHA  string `json:"sent_sha"`
	UpLen    int    `json:"up_len"`
	UpSHA    string `json:"up_sha"`
	Status   int    `json:"status"`
	RepLen   int    `json:"rep_len"` // what the upstream wrote
	RepSHA   string `json:"rep_sha"`
	GotLen   int    `json:"got_len"` // what the client read
	GotSHA   string `json:"got_sha"`
	RepHdr   []kv   `json:"rep_hdr"` // end-to-end headers the upstream set
	GotHdr   []kv   `json:"got_hdr"` // end-to-end headers the client saw
	// informational responses (100 Continue left out: each hop produces its own): what the upstream sent and
	// what the client saw, codes and end-to-end headers
	SentInterim []interimOut `json:"sent_interim"`
	GotInterim  []interimOut `json:"got_interim"`
	// when the reply arrived with "Content-Encoding: gzip" and is a gzip stream: what it decodes to. Whether that
	// coding is fabio's own (to be undone before comparing) or the upstream's (to be left alone) is decided in Lean.
	RepTrailer []kv   `json:"rep_trailer"` // trailer fields the upstream sent
	GotTrailer []kv   `json:"got_trailer"` // … the client received
	Attempts   int    `json:"attempts"`    // measurements needed (see exchange)
	DecOK      bool   `json:"dec_ok"`
	DecLen     int    `json:"dec_len"`
	DecSHA     string `json:"dec_sha"`
}

type interimOut struct {
	Code int  `json:"code"`
	Hdr  []kv `json:"hdr"`
}

var gzipTypes = regexp.MustCompile("^text/")

func groupHdr(hs [][2]string) []kv {
	var want []kv
	for _, h := range hs {
		k := canonical(h[0])
		found := false
		for i := range want {
			if want[i].K == k {
				want[i].V = append(want[i].V, h[1])
				found = true
			}
		}
		if !found {
			want = append(want, kv{k, []string{h[1]}})
		}
	}
	sortKV(want)
	return want
}

func orEmpty(h []kv) []kv {
	if h == nil {
		return []kv{}
	}
	return h
}

func seeded(seed uint64, n int) []byte {
	return hx.NewRand(seed, "c07.body").Bytes(n)
}

var respHop = map[string]bool{"Connection": true, "Proxy-Connection": true, "Keep-Alive": true, "Proxy-Authenticate": true,
	"Proxy-Authorization": true, "Te": true, "Trailer": true, "Transfer-Encoding": true, "Upgrade": true, "Content-Length": true}

func e2e(h []kv) []kv {
	out := []kv{}
	for _, x := range h {
		if !respHop[x.K] {
			out = append(out, x)
		}
	}
	return out
}

func noBody(method string, status int) bool {
	return method == "HEAD" || status == 204 || status == 304
}

func runBody(raw json.RawMessage) (interface{}, error) {
	var in bodyIn
	if err := json.Unmarshal(raw, &in); err != nil {
		return nil, err
	}
	if !validToken(in.Method) || in.Method == "CONNECT" {
		return nil, errors.New("method cannot be sent")
	}
	if in.ReqLen < 0 || in.ReqLen > 4<<20 || in.RLen < 0 || in.RLen > 4<<20 {
		return nil, errors.New("length out of range")
	}
	if in.RStatus < 200 || in.RStatus > 999 {
		return nil, errors.New("status is not a final status")
	}
	for _, c := range in.Chunks {
		if c <= 0 || c > 1<<20 {
			return nil, errors.New("chunk size out of range")
		}
	}
	rh := [][2]string{{"Date", "Mon, 02 Jan 2006 15:04:05 GMT"}}
	for _, h := range in.RHdr {
		if !validToken(h[0]) || !validValue(h[1]) {
			return nil, errors.New("response header cannot be sent")
		}
		switch strings.ToLower(h[0]) {
		case "content-length", "transfer-encoding", "date", "content-encoding", "trailer", "upgrade", "connection":
			return nil, errors.New("framing header is set by the harness")
		}
		rh = append(rh, h)
	}
	hasCT := false
	for _, h := range rh {
		hasCT = hasCT || strings.EqualFold(h[0], "content-type")
	}
	if !hasCT { // otherwise the upstream's own server would sniff one
		rh = append(rh, [2]string{"Content-Type", "application/x-verif"})
	}
	if in.RStatus == 304 { // net/http's server (our upstream) never sends a Content-Type with 304
		keep := rh[:0]
		for _, h := range rh {
			if !strings.EqualFold(h[0], "content-type") {
				keep = append(keep, h)
			}
		}
		rh = keep
	}
	if len(in.Interim) > 4 {
		return nil, errors.New("too many informational responses")
	}
	for _, im := range in.Interim {
		if im.Code < 102 || im.Code > 199 {
			return nil, errors.New("not an informational status the upstream handler can send") // 100: net/http's own; 101: switches protocols
		}
		for _, h := range im.Hdr {
			if !validToken(h[0]) || !validValue(h[1]) || respHop[canonical(h[0])] || strings.EqualFold(h[0], "date") || strings.EqualFold(h[0], "vary") {
				return nil, errors.New("interim header cannot be sent")
			}
		}
	}
	if in.AE != "" && (!validValue(in.AE) || strings.ContainsAny(in.AE, "\r\n")) {
		return nil, errors.New("accept-encoding cannot be sent")
	}
	if in.Accept != "" && !validValue(in.Accept) {
		return nil, errors.New("accept cannot be sent")
	}
	if in.CType != "" && !validValue(in.CType) {
		return nil, errors.New("content-type cannot be sent")
	}
	if len(in.RCE) > 3 {
		return nil, errors.New("too many content-encoding lines")
	}
	for _, ce := range in.RCE {
		if !validValue(ce) || strings.ContainsAny(ce, "\r\n") {
			return nil, errors.New("content-encoding cannot be sent")
		}
	}
	if len(in.RCE) > 0 && strings.EqualFold(in.RCE[0], "gzip") && in.AE == "" {
		// Go's transport asks for gzip on its own hop when the client named no coding and then decodes the reply
		// itself: the upstream's (seeded, not really gzip) body would not survive that. Kept out (assumption).
		return nil, errors.New("gzip-labelled reply to a client that named no coding")
	}
	if err := in.Cfg.check(); err != nil {
		return nil, err
	}
	for _, tr := range in.RTrailer {
		// net/http refuses framing and routing fields as trailers; the harness keeps to application fields
		if !validToken(tr[0]) || !validValue(tr[1]) || !strings.HasPrefix(strings.ToLower(tr[0]), "x-") {
			return nil, errors.New("trailer field cannot be sent")
		}
	}
	if len(in.RTrailer) > 3 {
		return nil, errors.New("too many trailer fields")
	}
	if len(in.RTrailer) > 0 && noBody(in.Method, in.RStatus) {
		return nil, errors.New("no trailers on a reply without body")
	}
	for _, ce := range in.RCE {
		rh = append(rh, [2]string{"Content-Encoding", ce})
	}
	body := seeded(in.ReqSeed, in.ReqLen)
	rbody := seeded(in.RSeed, in.RLen)
	if noBody(in.Method, in.RStatus) {
		rbody = nil
	}
	var b bytes.Buffer
	ctype := in.CType
	if ctype == "" {
		ctype = "application/octet-stream"
	}
	fmt.Fprintf(&b, "%s /b/x HTTP/1.1\r\nHost: example.com\r\nContent-Type: %s\r\n", in.Method, ctype)
	if in.AE != "" {
		fmt.Fprintf(&b, "Accept-Encoding: %s\r\n", in.AE)
	}
	if in.Accept != "" {
		fmt.Fprintf(&b, "Accept: %s\r\n", in.Accept)
	}
	if in.Expect && len(body) > 0 {
		b.WriteString("Expect: 100-continue\r\n") // the body follows without waiting, as a client may
	}
	if len(in.Chunks) > 0 {
		b.WriteString("Transfer-Encoding: chunked\r\n\r\n")
		rest := body
		for i := 0; len(rest) > 0; i++ {
			n := in.Chunks[i%len(in.Chunks)]
			if n > len(rest) {
				n = len(rest)
			}
			fmt.Fprintf(&b, "%x\r\n", n)
			b.Write(rest[:n])
			b.WriteString("\r\n")
			rest = rest[n:]
		}
		b.WriteString("0\r\n\r\n")
	} else {
		if len(body) > 0 || (in.Method != "GET" && in.Method != "HEAD") {
			fmt.Fprintf(&b, "Content-Length: %d\r\n", len(body))
		}
		b.WriteString("\r\n")
		b.Write(body)
	}
	e := getEnv()
	cmd := "route add svc /b http://" + upstreamName + "/"
	if in.Strip {
		cmd += ` opts "strip=/b prepend=/q host=dst"`
	}
	rep := &upReply{Interim: in.Interim, Status: in.RStatus, Hdr: rh, Body: rbody, Flush: in.RChunked, NoWrite: noBody(in.Method, in.RStatus), Trailer: in.RTrailer}
	cfg := config.Proxy{}
	if in.Gzip {
		cfg.GZIPContentTypes = gzipTypes
	}
	resp, hits, up, attempts, err := e.exchange(cfg, in.Cfg, cmd, rep, nil, in.Method, b.Bytes(), false)
	if err != nil {
		return nil, err
	}
	got := resp.Raw
	gotHdr := e2e(resp.Hdr)
	wantHdr := e2e(groupHdr(rh))
	out := bodyOut{Hits: hits, SentLen: len(body), SentSHA: sha(body), Status: resp.Status, RepLen: len(rbody), RepSHA: sha(rbody),
		GotLen: len(got), GotSHA: sha(got), GotHdr: gotHdr, RepHdr: wantHdr,
		SentInterim: []interimOut{}, GotInterim: []interimOut{},
		RepTrailer: orEmpty(groupHdr(in.RTrailer)), GotTrailer: orEmpty(resp.Trailer), Attempts: attempts}
	for _, x := range resp.Hdr {
		if x.K == "Content-Encoding" && len(x.V) == 1 && x.V[0] == "gzip" && len(got) > 0 {
			if zr, err := gzip.NewReader(bytes.NewReader(got)); err == nil {
				if dec, err := io.ReadAll(zr); err == nil {
					out.DecOK, out.DecLen, out.DecSHA = true, len(dec), sha(dec)
				}
			}
		}
	}
	for _, im := range in.Interim {
		out.SentInterim = append(out.SentInterim, interimOut{im.Code, e2e(groupHdr(im.Hdr))})
	}
	for i, code := range resp.Interim {
		if code == 100 {
			continue
		}
		h := e2e(resp.IHdr[i])
		out.GotInterim = append(out.GotInterim, interimOut{code, h})
	}
	if up != nil {
		out.UpMethod, out.UpLen, out.UpSHA = up.Method, up.BodyLen, up.BodySHA
	}
	return out, nil
}

// genAcceptEncoding composes an Accept-Encoding value from the grammar of RFC 9110 §12.5.3: one to four elements, each
// a coding (gzip in several spellings, the wildcard, other codings, an empty element) with or without parameters (weights
// zero and non-zero in the spellings the qvalue grammar allows, a second q, another parameter in front, blanks), in
// any order — so that which element decides and what counts as a refusal are both exercised.
func genAcceptEncoding(r *hx.Rand) string {
	codings := []string{"gzip", "gzip", "gzip", "*", "*", "br", "identity", "deflate", "x-gzip", "GZIP", " gzip", "gzip ", "", "zstd"}
	params := []string{"", "", "", ";q=0", ";q=0", ";q=0.0", ";q=0.000", ";q=1", ";q=1.0", ";q=0.5", ";q=0.001", "; q=0", ";q= 0", ";Q=0",
		";q=1;q=0", ";q=0;q=1", ";x=1;q=0", ";x=0", ";q=", ";q=0e0", ";q=00", ";q=-0", ";q=.0", ";q"}
	n := r.Range(1, 4)
	var el []string
	for i := 0; i < n; i++ {
		el = append(el, r.Pick(codings)+r.Pick(params))
	}
	return strings.TrimSpace(strings.Join(el, r.Pick([]string{",", ", ", " , "})))
}

func init() {
	methods := []string{"GET", "POST", "POST", "PUT", "PATCH", "DELETE", "HEAD", "OPTIONS", "FOO"}
	statuses := []int{200, 200, 201, 202, 204, 206, 301, 302, 304, 400, 401, 403, 404, 404, 418, 429, 500, 502, 503, 503, 599, 299, 999}
	hn := []string{"X-Custom", "Content-Type", "Set-Cookie", "Set-Cookie", "Cache-Control", "Etag", "Location", "X-A", "Vary", "Server", "Www-Authenticate"}
	hv := []string{"1", "text/plain", "a=b; Path=/", "c=d", "no-store", "W/\"x\"", "http://UPSTREAM/x", "/rel", "Accept-Encoding", "up/1", ""}
	codings := []string{"br", "br", "deflate", "identity", "zstd", "gzip", "x-gzip", "GZIP", "compress", "deflate, br"}
	ctypes := []string{"application/x-www-form-urlencoded", "application/x-www-form-urlencoded", "application/x-www-form-urlencoded; charset=UTF-8",
		"multipart/form-data; boundary=b", "application/json", "text/plain"}
	sizes := []int{0, 0, 1, 2, 100, 4095, 4096, 4097, 32 << 10, 65535, 65536, 65537, 1 << 20, 2 << 20}
	hx.Register(&hx.Stream{
		Name: "c07.body",
		Corpus: []interface{}{
			bodyIn{Method: "GET", RStatus: 200, RLen: 2},
			bodyIn{Method: "POST", ReqLen: 2 << 20, ReqSeed: 1, RStatus: 200, RLen: 2 << 20, RSeed: 2},
			bodyIn{Method: "POST", ReqLen: 2 << 20, ReqSeed: 1, Chunks: []int{1, 4096, 70000}, RStatus: 201, RLen: 2 << 20, RSeed: 2, RChunked: true},
			bodyIn{Method: "PUT", ReqLen: 5, Chunks: []int{1}, RStatus: 204},
			bodyIn{Method: "HEAD", RStatus: 200, RLen: 10},
			bodyIn{Method: "GET", RStatus: 304, RLen: 10, RHdr: [][2]string{{"Etag", "W/\"x\""}}},
			bodyIn{Method: "DELETE", ReqLen: 3, RStatus: 999, RLen: 3, Strip: true},
			bodyIn{Method: "GET", RStatus: 200, RLen: 100, RHdr: [][2]string{{"Set-Cookie", "a=b"}, {"Set-Cookie", "c=d"}, {"X-Custom", ""}}},
			// informational responses before the final status (the final status must reach the client whatever came before)
			bodyIn{Method: "GET", RStatus: 404, RLen: 7, Interim: []interim{{Code: 103, Hdr: [][2]string{{"Link", "</style.css>; rel=preload; as=style"}}}}},
			bodyIn{Method: "GET", RStatus: 503, RLen: 7, Interim: []interim{{Code: 103, Hdr: [][2]string{{"Link", "</style.css>; rel=preload; as=style"}}}, {Code: 102}, {Code: 103, Hdr: [][2]string{{"Link", "</style.css>; rel=preload; as=style"}}}}},
			bodyIn{Method: "POST", ReqLen: 10, RStatus: 201, RLen: 0, Interim: []interim{{Code: 102}}, Expect: true},
			bodyIn{Method: "GET", RStatus: 204, Interim: []interim{{Code: 103, Hdr: [][2]string{{"Link", "</style.css>; rel=preload; as=style"}}}}},
			bodyIn{Method: "GET", RStatus: 304, Interim: []interim{{Code: 103, Hdr: [][2]string{{"Link", "</style.css>; rel=preload; as=style"}}}}},
			bodyIn{Method: "HEAD", RStatus: 500, RLen: 5, Interim: []interim{{Code: 103, Hdr: [][2]string{{"Link", "</style.css>; rel=preload; as=style"}}}}},
			bodyIn{Method: "GET", RStatus: 301, RLen: 20, RHdr: [][2]string{{"Location", "/rel"}}, Interim: []interim{{Code: 199}}},
			bodyIn{Method: "GET", RStatus: 200, RLen: 2000, Interim: []interim{{Code: 103, Hdr: [][2]string{{"Link", "</style.css>; rel=preload; as=style"}}}}, Gzip: true, AE: "gzip", RHdr: [][2]string{{"Content-Type", "text/plain"}}},
			bodyIn{Method: "GET", RStatus: 400, RLen: 2000, Interim: []interim{{Code: 103, Hdr: [][2]string{{"Link", "</style.css>; rel=preload; as=style"}}}}, Gzip: true, RHdr: [][2]string{{"Content-Type", "text/plain"}}},
			bodyIn{Method: "GET", RStatus: 404, RLen: 2000, Gzip: true, AE: "gzip", RHdr: [][2]string{{"Content-Type", "text/html"}}},
			// content the upstream encoded itself goes through as it is, gzip handler or not
			bodyIn{Method: "GET", RStatus: 200, RLen: 300, Gzip: true, AE: "gzip, br", RCE: []string{"br"}, RHdr: [][2]string{{"Content-Type", "text/plain"}}},
			bodyIn{Method: "GET", RStatus: 200, RLen: 300, Gzip: true, AE: "gzip, deflate", RCE: []string{"deflate"}, RHdr: [][2]string{{"Content-Type", "text/html; charset=utf-8"}}},
			bodyIn{Method: "GET", RStatus: 200, RLen: 300, Gzip: true, AE: "gzip", RCE: []string{"identity"}, RHdr: [][2]string{{"Content-Type", "text/plain"}}},
			bodyIn{Method: "GET", RStatus: 200, RLen: 300, Gzip: true, AE: "gzip", RCE: []string{"gzip"}, RHdr: [][2]string{{"Content-Type", "text/plain"}}},
			bodyIn{Method: "GET", RStatus: 200, RLen: 300, AE: "br", RCE: []string{"br"}},
			bodyIn{Method: "GET", RStatus: 200, RLen: 300, Gzip: true, AE: "gzip, br", RCE: []string{"deflate", "br"}, RHdr: [][2]string{{"Content-Type", "text/plain"}}},
			// recorded finding (content-encoding-first-line-empty): the gzip layer looks at the first Content-Encoding line only
			bodyIn{Method: "GET", RStatus: 200, RLen: 300, Gzip: true, AE: "gzip, br", RCE: []string{"", "br"}, RHdr: [][2]string{{"Content-Type", "text/plain"}}},
			// which Accept-Encoding element decides: a wildcard beside an explicit refusal of gzip is a refusal
			bodyIn{Method: "GET", RStatus: 200, RLen: 3000, Gzip: true, AE: "*, gzip;q=0", RHdr: [][2]string{{"Content-Type", "text/plain"}}},
			bodyIn{Method: "GET", RStatus: 200, RLen: 3000, Gzip: true, AE: "br;q=1.0, *;q=0.5, gzip;q=0", RHdr: [][2]string{{"Content-Type", "text/plain"}}},
			bodyIn{Method: "GET", RStatus: 200, RLen: 3000, Gzip: true, AE: "gzip;q=0, *", RHdr: [][2]string{{"Content-Type", "text/plain"}}},
			bodyIn{Method: "GET", RStatus: 200, RLen: 3000, Gzip: true, AE: "*", RHdr: [][2]string{{"Content-Type", "text/plain"}}},
			bodyIn{Method: "GET", RStatus: 200, RLen: 3000, Gzip: true, AE: "identity, gzip;x=1;q=0.5", RHdr: [][2]string{{"Content-Type", "text/plain"}}},
			bodyIn{Method: "GET", RStatus: 200, RLen: 3000, Gzip: true, AE: "gzip;q=1;q=0, br", RHdr: [][2]string{{"Content-Type", "text/plain"}}},
			// a client that asks for an event stream: the SSE branch of the handler choice, and the gzip layer stays out
			bodyIn{Method: "GET", RStatus: 200, RLen: 3000, RChunked: true, Gzip: true, AE: "gzip", Accept: "text/event-stream", RHdr: [][2]string{{"Content-Type", "text/event-stream"}}, Cfg: pcfg{Flush: 5}},
			bodyIn{Method: "GET", RStatus: 200, RLen: 3000, Gzip: true, AE: "gzip", Accept: "text/html, text/event-stream;q=0.9", RHdr: [][2]string{{"Content-Type", "text/html"}}},
			// trailer fields of the reply, with and without the gzip layer
			bodyIn{Method: "POST", ReqLen: 10, ReqSeed: 6, Chunks: []int{4}, RStatus: 200, RLen: 300, RTrailer: [][2]string{{"X-T", "1"}, {"X-T", "2"}}},
			bodyIn{Method: "GET", RStatus: 200, RLen: 300, RChunked: true, RTrailer: [][2]string{{"X-T", "1"}}, Gzip: true, AE: "gzip", RHdr: [][2]string{{"Content-Type", "text/plain"}}},
			// a form body with every optional stage of ServeHTTP switched on
			bodyIn{Method: "POST", ReqLen: 40, ReqSeed: 3, CType: "application/x-www-form-urlencoded", RStatus: 200, RLen: 2,
				Cfg: pcfg{Span: "{{.Method}} {{.Path}}", ReqID: "X-Request-Id", Log: true, Stats: true, Flush: 5}},
			bodyIn{Method: "PUT", ReqLen: 300, ReqSeed: 4, Chunks: []int{7}, CType: "application/x-www-form-urlencoded", RStatus: 201, RLen: 2, Cfg: pcfg{Span: "static"}},
			bodyIn{Method: "PATCH", ReqLen: 10, ReqSeed: 5, CType: "multipart/form-data; boundary=b", RStatus: 200, RLen: 2, Gzip: true, Cfg: pcfg{Span: "{{.RawQuery}}", Log: true}},
			bodyIn{Method: "PUT", ReqLen: 70000, Chunks: []int{4096}, RStatus: 500, RLen: 70000, RChunked: true, Expect: true, Interim: []interim{{Code: 103, Hdr: [][2]string{{"Link", "</style.css>; rel=preload; as=style"}}}}},
		},
		Gen: func(r *hx.Rand, i int) interface{} {
			in := bodyIn{Method: r.Pick(methods), ReqSeed: r.U64() % 1000, RSeed: r.U64() % 1000, RHdr: [][2]string{}, Chunks: []int{}, RCE: []string{}}
			pick := func() int {
				if r.Chance(2, 3) {
					return r.Intn(300)
				}
				n := sizes[r.Intn(len(sizes))]
				if n > 100 && r.Chance(1, 2) {
					n = r.Intn(n)
				}
				return n
			}
			if in.Method != "GET" && in.Method != "HEAD" || r.Chance(1, 8) {
				in.ReqLen = pick()
				if r.Chance(1, 2) {
					for k := r.Range(1, 3); k > 0; k-- {
						in.Chunks = append(in.Chunks, []int{1, 2, 7, 100, 4096, 65536, 70000}[r.Intn(7)])
					}
				}
			}
			in.RStatus = statuses[r.Intn(len(statuses))]
			in.RLen = pick()
			in.RChunked = r.Chance(1, 3)
			in.Strip = r.Chance(1, 3)
			for k := r.Intn(4); k > 0; k-- {
				in.RHdr = append(in.RHdr, [2]string{r.Pick(hn), r.Pick(hv)})
			}
			in.Interim = []interim{}
			if r.Chance(2, 5) {
				for k := r.Range(1, 3); k > 0; k-- {
					im := interim{Code: []int{103, 103, 102, 110, 199}[r.Intn(5)], Hdr: [][2]string{}}
					if im.Code == 103 || r.Chance(1, 4) {
						im.Hdr = append(im.Hdr, [2]string{"Link", r.Pick([]string{"</style.css>; rel=preload; as=style", "</a.js>; rel=preload"})})
						if r.Chance(1, 3) {
							im.Hdr = append(im.Hdr, [2]string{r.Pick([]string{"Link", "X-Hint"}), "</b.js>; rel=preload"})
						}
					}
					in.Interim = append(in.Interim, im)
				}
			}
			in.Expect = in.ReqLen > 0 && r.Chance(1, 4)
			in.Gzip = r.Chance(1, 3)
			in.AE = r.Pick([]string{"", "", "gzip", "gzip", "identity", "br, gzip;q=0.5", "gzip;q=0"})
			if r.Chance(1, 3) || (in.Gzip && r.Chance(1, 3)) {
				in.AE = genAcceptEncoding(r)
			}
			if in.Gzip && r.Chance(1, 2) {
				in.RHdr = append(in.RHdr, [2]string{"Content-Type", r.Pick([]string{"text/plain", "text/html; charset=utf-8"})})
			}
			// content the upstream has already encoded: whatever the proxy is configured to do, it is not fabio's to touch
			if r.Chance(1, 4) {
				in.RCE = []string{r.Pick(codings)}
				if r.Chance(1, 8) {
					in.RCE = append(in.RCE, r.Pick(codings)) // two codings, one per line
				}
				if strings.EqualFold(in.RCE[0], "gzip") && in.AE == "" {
					in.AE = "gzip"
				}
				if r.Chance(1, 2) {
					in.RHdr = append(in.RHdr, [2]string{"Content-Type", r.Pick([]string{"text/plain", "text/css"})})
				}
			}
			if in.ReqLen > 0 && r.Chance(1, 3) {
				in.CType = r.Pick(ctypes)
			}
			if r.Chance(1, 5) {
				in.Accept = r.Pick([]string{"text/event-stream", "text/event-stream", "text/html, text/event-stream;q=0.9", "*/*", "text/html", "TEXT/EVENT-STREAM"})
			}
			in.Cfg = genCfg(r)
			in.RTrailer = [][2]string{}
			tn := []string{"X-T", "X-Checksum", "x-t"}
			tv := []string{"1", "sha256=abc", "", "a, b"}
			if !noBody(in.Method, in.RStatus) && r.Chance(1, 5) {
				for k := r.Range(1, 2); k > 0; k-- {
					in.RTrailer = append(in.RTrailer, [2]string{r.Pick(tn), r.Pick(tv)})
				}
			}
			return in
		},
		Run: runBody,
	})
}
