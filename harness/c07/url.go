package main

import (
	"bytes"
	"encoding/json"
	"errors"
	"fmt"
	"strings"

	"github.com/fabiolb/fabio/config"
	"verif/harness/hx"
)

// c07.url: (route options × request line × headers) through a real proxy.HTTPProxy; the observable is the
// request the upstream recorded.

type urlIn struct {
	Strip   string      `json:"strip"`   // route option strip= ("" = absent)
	Prepend string      `json:"prepend"` // route option prepend=
	HostOpt string      `json:"hostopt"` // route option host= ("" | "dst" | name)
	TQ      string      `json:"tq"`      // raw query of the route's target URL
	Method  string      `json:"method"`
	Path    string      `json:"path"` // path part of the request-target, the bytes put on the wire (latin-1 carried)
	HasQ    bool        `json:"hasq"` // a '?' follows the path
	Query   string      `json:"query"`
	Host    string      `json:"host"`
	Hdr     [][2]string `json:"hdr"`
	WS      bool        `json:"ws"`      // send "Upgrade: websocket" (fabio's websocket path)
	Upg     string      `json:"upg"`     // spelling of the Upgrade value when ws ("" = "websocket"); it is compared case-insensitively
	TLSSkip bool        `json:"tlsskip"` // route option tlsskipverify=true: the proxy's second transport is used
	Body    string      `json:"body"`
	Cfg     pcfg        `json:"cfg"`  // proxy configuration beside the route: must not matter (request-id header apart)
	Gzip    bool        `json:"gzip"` // proxy.gzip.contenttype configured: the gzip handler wraps the chosen handler
}

type urlOut struct {
	Status   int    `json:"status"`
	Hits     int    `json:"hits"`
	Up       *upRec `json:"up"`
	SentLen  int    `json:"sent_blen"`
	SentSHA  string `json:"sent_bsha"`
	Attempts int    `json:"attempts"` // measurements needed (see exchange)
}

// optBytes decodes a latin-1 carried option value and rejects what a route command cannot carry.
func optBytes(s string) (string, error) {
	b, err := fromL1(s)
	if err != nil {
		return "", err
	}
	for _, c := range b {
		if c <= 0x20 || c == 0x7f || c == '"' || c == '#' {
			return "", errors.New("route option cannot be written in a route command")
		}
	}
	return string(b), nil
}

func (in *urlIn) routes() (string, error) {
	strip, e1 := optBytes(in.Strip)
	prepend, e2 := optBytes(in.Prepend)
	hostopt, e3 := optBytes(in.HostOpt)
	tq, e4 := optBytes(in.TQ)
	if e1 != nil || e2 != nil || e3 != nil || e4 != nil || !validValue(hostopt) || strings.Contains(tq, "?") {
		return "", errors.New("route option cannot be written in a route command")
	}
	var opts []string
	if strip != "" {
		opts = append(opts, "strip="+strip)
	}
	if prepend != "" {
		opts = append(opts, "prepend="+prepend)
	}
	if hostopt != "" {
		opts = append(opts, "host="+hostopt)
	}
	if in.TLSSkip {
		opts = append(opts, "tlsskipverify=true")
	}
	dst := "http://" + upstreamName + "/"
	if tq != "" {
		dst += "?" + tq
	}
	cmd := "route add svc / " + dst
	if len(opts) > 0 {
		cmd += ` opts "` + strings.Join(opts, " ") + `"`
	}
	return cmd, nil
}

// wire renders the request exactly as generated.
func (in *urlIn) wire() ([]byte, error) {
	p, err := fromL1(in.Path)
	if err != nil {
		return nil, err
	}
	q, err := fromL1(in.Query)
	if err != nil {
		return nil, err
	}
	body, err := fromL1(in.Body)
	if err != nil {
		return nil, err
	}
	bad := func(b []byte, extra string) bool {
		for _, c := range b {
			if c <= 0x20 || c == 0x7f || strings.IndexByte(extra, c) >= 0 {
				return true
			}
		}
		return false
	}
	if len(p) == 0 || p[0] != '/' || bad(p, "?#") || bad(q, "#") {
		return nil, errors.New("request-target cannot be sent as one request line")
	}
	if !validToken(in.Method) || in.Method == "CONNECT" {
		return nil, errors.New("method cannot be sent")
	}
	if in.Host == "" || !validValue(in.Host) || strings.ContainsAny(in.Host, " /") {
		return nil, errors.New("host cannot be sent")
	}
	var b bytes.Buffer
	b.WriteString(in.Method + " ")
	b.Write(p)
	if in.HasQ || len(q) > 0 {
		b.WriteByte('?')
		b.Write(q)
	}
	b.WriteString(" HTTP/1.1\r\nHost: " + in.Host + "\r\n")
	for _, h := range in.Hdr {
		if !validToken(h[0]) || !validValue(h[1]) {
			return nil, errors.New("header line cannot be sent")
		}
		switch strings.ToLower(h[0]) {
		case "host", "content-length", "transfer-encoding", "upgrade", "expect", "trailer":
			return nil, errors.New("framing header is set by the harness")
		}
		fmt.Fprintf(&b, "%s: %s\r\n", h[0], h[1])
	}
	if in.WS {
		upg := in.Upg
		if upg == "" {
			upg = "websocket"
		}
		if !strings.EqualFold(upg, "websocket") {
			return nil, errors.New("not a websocket upgrade")
		}
		b.WriteString("Upgrade: " + upg + "\r\nConnection: Upgrade\r\n")
		if len(body) > 0 {
			return nil, errors.New("no body on a websocket handshake")
		}
	}
	if len(body) > 0 {
		fmt.Fprintf(&b, "Content-Length: %d\r\n", len(body))
	}
	b.WriteString("\r\n")
	b.Write(body)
	return b.Bytes(), nil
}

func runURL(raw json.RawMessage) (interface{}, error) {
	var in urlIn
	if err := json.Unmarshal(raw, &in); err != nil {
		return nil, err
	}
	cmd, err := in.routes()
	if err != nil {
		return nil, err
	}
	req, err := in.wire()
	if err != nil {
		return nil, err
	}
	if err := in.Cfg.check(); err != nil {
		return nil, err
	}
	cfg := config.Proxy{}
	if in.Gzip {
		cfg.GZIPContentTypes = gzipTypes
	}
	e := getEnv()
	resp, hits, up, attempts, err := e.exchange(cfg, in.Cfg, cmd, nil, nil, in.Method, req, false)
	if err != nil {
		return nil, err
	}
	body, _ := fromL1(in.Body)
	return urlOut{Status: resp.Status, Hits: hits, Up: up, SentLen: len(body), SentSHA: sha(body), Attempts: attempts}, nil
}

var (
	uStrips   = []string{"", "", "/s", "/s", "/s/", "/s/a", "/", "/st", "/a%b", "s"}
	uPrepends = []string{"", "", "", "/p", "/p/", "p", "/p%20q", "/p!q", "/\u00e9"}
	uHostOpts = []string{"", "", "", "dst", "other.example", "other.example:8080"}
	uTQs      = []string{"", "", "", "t=1", "t=1&u=2", "a%20b", "&", "t"}
	uQueries  = []string{"", "", "x=1", "x=1&y=2", "a%20b=%2F", "a+b", "&", "x=%zz", "?x", "x=\u00e9", "b=2;c=3&a=1", "a=1&a=0&%41=2", "b=100%&a=1", ";", "z&y=&=x"}
	uMethods  = []string{"GET", "GET", "GET", "POST", "PUT", "DELETE", "HEAD", "PATCH", "OPTIONS", "FOO", "get"}
	uHosts    = []string{"example.com", "example.com", "example.com:8080", "EXAMPLE.com", "a.b", "127.0.0.1", "[::1]:80"}
	uSegs     = []string{"a", "b", "s", "st", "a%2Fb", "a%2fb", "%41", "a%20b", "a!b", "(x)", "a+b", "a;b=c", "a:b", "@", "a,b", "a=b",
		"%e2%82%ac", "%E9", "%25", "%2525", "%3F", "%23", "a%b", "~", "-._", "*", "a'b", "[x]", "$", "&", ".", ".."}
	uHdrNames = []string{"X-Custom", "x-custom", "Accept", "Accept-Encoding", "User-Agent", "Cookie", "Cookie", "Authorization", "Content-Type",
		"X-A", "X-B", "Cache-Control", "Range", "If-None-Match", "Referer", "TE", "Keep-Alive", "Connection", "Proxy-Connection", "Proxy-Authorization", "Via", "X_Under"}
	uHdrVals = []string{"1", "a, b", "x=y; z=w", "text/html", "gzip", "identity", "", "trailers", "close", "X-A", "x-b, keep-alive", "bytes=0-1", "W/\"x\"", "Basic dTpw", "ua/1.0",
		"text/event-stream", "application/x-www-form-urlencoded", "multipart/form-data; boundary=b"}
	// span-name templates: every documented field, a static name, one that fails to execute, one that fails to parse
	uSpans  = []string{"{{.Method}} {{.Path}}", "{{.Proto}} {{.Scheme}}://{{.Host}}{{.Path}}?{{.RawQuery}}", "static", "{{.Nope}}", "{{"}
	uReqIDs = []string{"X-Request-Id", "X-Request-Id", "x-a"}
)

// genCfg: most cases run with the zero configuration, the rest switch on one or several of the optional stages.
func genCfg(r *hx.Rand) pcfg {
	var c pcfg
	if r.Chance(1, 2) {
		return c
	}
	if r.Chance(1, 2) {
		c.Span = r.Pick(uSpans)
	}
	if r.Chance(1, 3) {
		c.ReqID = r.Pick(uReqIDs)
	}
	c.Log = r.Chance(1, 3)
	c.Stats = r.Chance(1, 3)
	if r.Chance(1, 4) {
		c.Flush = r.Range(1, 50)
	}
	return c
}

func genPath(r *hx.Rand) string {
	var b strings.Builder
	// most paths start with the strip candidate so that the option applies
	switch r.Intn(8) {
	case 0, 1, 2, 3:
		b.WriteString("/s")
	case 4:
		b.WriteString("/%73") // the strip prefix, itself percent-encoded
	case 5:
		b.WriteString("/s%2F")
	default:
	}
	n := r.Intn(4)
	for i := 0; i < n; i++ {
		if r.Chance(1, 12) {
			b.WriteString("%2F")
		} else {
			b.WriteString("/")
		}
		if r.Chance(1, 10) {
			continue // empty segment
		}
		b.WriteString(r.Pick(uSegs))
	}
	if r.Chance(1, 5) {
		b.WriteString("/")
	}
	s := b.String()
	if s == "" || s[0] != '/' {
		s = "/" + s
	}
	return s
}

func genURL(r *hx.Rand, i int) interface{} {
	in := urlIn{
		Strip:   r.Pick(uStrips),
		Prepend: r.Pick(uPrepends),
		HostOpt: r.Pick(uHostOpts),
		TQ:      r.Pick(uTQs),
		Method:  r.Pick(uMethods),
		Path:    genPath(r),
		Query:   r.Pick(uQueries),
		Host:    r.Pick(uHosts),
		Hdr:     [][2]string{},
	}
	in.HasQ = in.Query != "" || r.Chance(1, 10)
	for n := r.Intn(5); n > 0; n-- {
		in.Hdr = append(in.Hdr, [2]string{r.Pick(uHdrNames), r.Pick(uHdrVals)})
	}
	in.Cfg = genCfg(r)
	in.Gzip = r.Chance(1, 4)
	in.TLSSkip = r.Chance(1, 8)
	if r.Chance(1, 6) {
		in.WS = true
		in.Method = "GET"
		in.Upg = r.Pick([]string{"", "", "websocket", "WebSocket", "WEBSOCKET", "webSocket"})
	} else if in.Method != "GET" && in.Method != "HEAD" && r.Chance(2, 3) {
		in.Body = toL1(r.Bytes(r.Intn(40)))
	}
	return in
}

func init() {
	hx.Register(&hx.Stream{
		Name: "c07.url",
		Corpus: []interface{}{
			urlIn{Method: "GET", Path: "/plain/a%2Fb", HasQ: true, Query: "x=1", Host: "example.com"},
			// D11: strip applies and the client's path carries an encoded slash
			urlIn{Strip: "/strip", Method: "GET", Path: "/strip/a%2Fb", HasQ: true, Query: "x=1", Host: "example.com"},
			urlIn{Prepend: "/p", Method: "GET", Path: "/a%2Fb", Host: "example.com"},
			urlIn{Strip: "/strip", Method: "GET", Path: "/strip/a!b", Host: "example.com"},
			urlIn{Method: "GET", Path: "/ws/a%2Fb", Host: "example.com", WS: true},
			urlIn{Strip: "/ws", Method: "GET", Path: "/ws/a%2Fb", Host: "example.com", WS: true},
			urlIn{Strip: "/ws", Method: "GET", Path: "/ws/a%2Fb", Host: "example.com", WS: true, Upg: "WebSocket", TLSSkip: true},
			urlIn{Strip: "/strip", Method: "GET", Path: "/%73trip/a%2Fb", Host: "example.com"},
			urlIn{Strip: "/strip", Method: "GET", Path: "/strip%2Fa%2Fb", Host: "example.com"},
			urlIn{Strip: "/strip", Prepend: "/p", Method: "GET", Path: "/strip%2Fa%2Fb", Host: "example.com"},
			urlIn{Strip: "/strip", Method: "GET", Path: "/strip", Host: "example.com"},
			urlIn{Strip: "/strip", Prepend: "p", TQ: "t=1", HostOpt: "dst", Method: "POST", Path: "/stripx", HasQ: true, Query: "x=1", Host: "example.com", Body: "hello"},
			// recorded finding (path-raw-invalid-byte): bytes net/url does not accept unescaped in a path
			urlIn{Method: "GET", Path: "/a\"b%2Fc", Host: "example.com"},
			urlIn{Method: "GET", Path: "/a\"b", Host: "example.com"},
			urlIn{Strip: "/s", Method: "GET", Path: "/s/\u00e9/a%2Fb", Host: "example.com"},
			urlIn{Method: "GET", Path: "/a|b/{x}/a^b/a`b/a<b>/a\\b", Host: "example.com"},
			urlIn{Method: "GET", Path: "/a", HasQ: true, Host: "example.com"},
			urlIn{Method: "GET", Path: "/a", HasQ: true, Host: "example.com", WS: true},
			urlIn{Method: "GET", Path: "/a", Host: "example.com", Hdr: [][2]string{{"Connection", "X-A"}, {"X-A", "1"}, {"X-B", "2"}}},
			urlIn{Method: "GET", Path: "/a%zz", Host: "example.com"},
			// optional stages of ServeHTTP switched on: a query net/url's form parser would reject or rewrite, a form body
			urlIn{Method: "GET", Path: "/a", HasQ: true, Query: "b=2;c=3&a=1", Host: "example.com", Cfg: pcfg{Span: "{{.Method}} {{.Path}}"}},
			urlIn{Method: "GET", Path: "/a", HasQ: true, Query: "b=100%&a=1", Host: "example.com", Cfg: pcfg{Span: "static", Log: true, Stats: true}},
			urlIn{Method: "POST", Path: "/a", Host: "example.com", Hdr: [][2]string{{"Content-Type", "application/x-www-form-urlencoded"}}, Body: "a=1&b=2",
				Cfg: pcfg{Span: "{{.Proto}} {{.Scheme}}://{{.Host}}{{.Path}}?{{.RawQuery}}", ReqID: "X-Request-Id", Log: true}},
			urlIn{Method: "GET", Path: "/a", Host: "example.com", Hdr: [][2]string{{"X-A", "mine"}}, Cfg: pcfg{ReqID: "x-a"}},
			urlIn{Method: "GET", Path: "/ws/a", Host: "example.com", WS: true, Gzip: true, Hdr: [][2]string{{"Accept-Encoding", "gzip"}}, Cfg: pcfg{Span: "{{", ReqID: "X-Request-Id", Log: true, Stats: true, Flush: 5}},
			urlIn{Method: "GET", Path: "/sse", Host: "example.com", Gzip: true, Hdr: [][2]string{{"Accept", "text/event-stream"}, {"Accept-Encoding", "gzip"}}, Cfg: pcfg{Flush: 5}},
		},
		Gen: genURL,
		Run: runURL,
	})
}
