package main

import (
	"encoding/json"
	"errors"
	"fmt"
	"sync"

	"github.com/fabiolb/fabio/config"
	"github.com/fabiolb/fabio/noroute"
	"verif/harness/hx"
)

// c07.noroute: a request no route matches gets the configured status and page and no upstream is contacted.
// The table does hold a route (to the recording upstream) for another host and another path, so "no upstream
// contacted" is observable as the hit counter staying at 0.

type norouteIn struct {
	Status int    `json:"status"` // proxy.noroutestatus as configured
	HTML   string `json:"html"`   // the no-route page (noroute.SetHTML)
	Method string `json:"method"`
	Path   string `json:"path"`
	Host   string `json:"host"`
	Match  bool   `json:"match"` // control: send a request the route does match
	// pages set before this one (noroute.SetHTML, in order): what is served is the last one set, whatever came before
	Prev []string `json:"prev"`
}

type norouteOut struct {
	Status  int    `json:"status"`
	Interim []int  `json:"interim"`
	Body    string `json:"body"`
	Hits    int    `json:"hits"`
}

var norouteMu sync.Mutex

func runNoroute(raw json.RawMessage) (interface{}, error) {
	var in norouteIn
	if err := json.Unmarshal(raw, &in); err != nil {
		return nil, err
	}
	if !validToken(in.Method) || in.Method == "CONNECT" {
		return nil, errors.New("method cannot be sent")
	}
	p, err := fromL1(in.Path)
	if err != nil || len(p) == 0 || p[0] != '/' {
		return nil, errors.New("path cannot be sent")
	}
	for _, c := range p {
		if c <= 0x20 || c == 0x7f || c == '#' {
			return nil, errors.New("path cannot be sent")
		}
	}
	if in.Host == "" || !validValue(in.Host) || in.Host == "routed.example" {
		return nil, errors.New("host cannot be sent")
	}
	page, err := fromL1(in.HTML)
	if err != nil || len(page) > 4096 {
		return nil, errors.New("page not representable")
	}
	norouteMu.Lock()
	defer norouteMu.Unlock()
	e := getEnv()
	routes := "route add svc routed.example/routed http://" + upstreamName + "/"
	for _, pv := range in.Prev {
		b, err := fromL1(pv)
		if err != nil || len(b) > 4096 {
			return nil, errors.New("page not representable")
		}
		noroute.SetHTML(string(b))
	}
	noroute.SetHTML(string(page))
	host, path := in.Host, string(p)
	if in.Match {
		host, path = "routed.example", "/routed"+path
	}
	req := fmt.Sprintf("%s %s HTTP/1.1\r\nHost: %s\r\n\r\n", in.Method, path, host)
	resp, hits, _, _, err := e.exchange(config.Proxy{NoRouteStatus: in.Status}, pcfg{}, routes, nil, nil, in.Method, []byte(req), true)
	if err != nil {
		return nil, err
	}
	return norouteOut{Status: resp.Status, Interim: resp.Interim, Body: resp.Body, Hits: hits}, nil
}

func init() {
	pages := []string{"", "", "<html>no route</html>", "not found\n", "\u00ff\u0000bin", "<h1>404</h1>"}
	hx.Register(&hx.Stream{
		Name: "c07.noroute",
		Corpus: []interface{}{
			norouteIn{Status: 404, Method: "GET", Path: "/", Host: "example.com"},
			norouteIn{Status: 999, Method: "GET", Path: "/", Host: "example.com", HTML: "<html>no route</html>"},
			norouteIn{Status: 200, Method: "GET", Path: "/x", Host: "example.com", HTML: "page"},
			norouteIn{Status: 99, Method: "GET", Path: "/", Host: "example.com", HTML: "page"},
			norouteIn{Status: 1000, Method: "POST", Path: "/", Host: "example.com", HTML: "page"},
			norouteIn{Status: 0, Method: "GET", Path: "/", Host: "example.com"},
			norouteIn{Status: -5, Method: "GET", Path: "/", Host: "example.com"},
			norouteIn{Status: 100, Method: "GET", Path: "/", Host: "example.com", HTML: "page"},
			norouteIn{Status: 101, Method: "GET", Path: "/", Host: "example.com", HTML: "page"},
			norouteIn{Status: 150, Method: "GET", Path: "/", Host: "example.com", HTML: "page"},
			norouteIn{Status: 204, Method: "GET", Path: "/", Host: "example.com", HTML: "page"},
			norouteIn{Status: 304, Method: "GET", Path: "/", Host: "example.com", HTML: "page"},
			norouteIn{Status: 503, Method: "HEAD", Path: "/", Host: "example.com", HTML: "page"},
			norouteIn{Status: 503, Method: "GET", Path: "/x", Host: "example.com", HTML: "page", Match: true},
			// the operator removes the page: the empty page replaces the old one
			norouteIn{Status: 404, Method: "GET", Path: "/", Host: "example.com", HTML: "", Prev: []string{"<h1>old</h1>"}},
			norouteIn{Status: 404, Method: "GET", Path: "/", Host: "example.com", HTML: "new", Prev: []string{"old", "", "old"}},
		},
		Gen: func(r *hx.Rand, i int) interface{} {
			in := norouteIn{
				Method: r.Pick([]string{"GET", "GET", "POST", "PUT", "DELETE", "HEAD", "OPTIONS", "FOO"}),
				Path:   r.Pick([]string{"/", "/x", "/routed", "/a%2Fb", "/x/y?z=1", "/routed/x"}),
				Host:   r.Pick([]string{"example.com", "other.example", "routed.example:81", "x"}),
				HTML:   r.Pick(pages),
				Match:  r.Chance(1, 10),
				Prev:   []string{},
			}
			for k := r.Intn(3); k > 0; k-- {
				in.Prev = append(in.Prev, r.Pick(pages))
			}
			switch r.Intn(10) {
			case 0:
				in.Status = r.Range(-3, 99)
			case 1:
				in.Status = r.Range(1000, 1100)
			case 2:
				edge := []int{99, 100, 199, 200, 999, 1000, 0, -1, 1 << 31, -(1 << 31)}
				in.Status = edge[r.Intn(len(edge))]
			case 3:
				in.Status = r.Range(100, 199)
			default:
				in.Status = r.Range(200, 999)
			}
			return in
		},
		Run: runNoroute,
	})
}
