package main

import (
	"encoding/json"
	"errors"
	"strings"

	"github.com/fabiolb/fabio/proxy"
	"verif/harness/hx"
)

// c07.esclen: proxy.escapedLen itself — the real function, the Lean function the translator (tools/factgen/xlate.go)
// regenerates from its source on every run, and the model's dropEscaped — on escaped paths of every kind (valid
// escapes, a '%' with fewer than two bytes behind it, at the very end, counts beyond the decoded length, zero and
// negative counts).

type escLenIn struct {
	S string `json:"s"` // latin-1 carried bytes
	N int    `json:"n"`
}

type escLenOut struct {
	R int `json:"r"`
}

func runEscLen(raw json.RawMessage) (interface{}, error) {
	var in escLenIn
	if err := json.Unmarshal(raw, &in); err != nil {
		return nil, err
	}
	s, err := fromL1(in.S)
	if err != nil {
		return nil, errors.New("not a byte string")
	}
	if len(s) > 1<<16 {
		return nil, errors.New("too long")
	}
	return escLenOut{R: proxy.VerifC07EscapedLen(string(s), in.N)}, nil
}

func init() {
	atoms := []string{"/", "/", "a", "b", "st", "%", "%2", "%2F", "%2f", "%41", "%zz", "%%", "%e9", "\xe9", "%25", "%73", "~", "%7", "%%2F"}
	hx.Register(&hx.Stream{
		Name: "c07.esclen",
		Corpus: []interface{}{
			escLenIn{S: "/%73trip/a%2Fb", N: 6}, escLenIn{S: "", N: 3}, escLenIn{S: "/a", N: 0}, escLenIn{S: "/a", N: -1},
			escLenIn{S: "/a%", N: 3}, escLenIn{S: "/a%2", N: 3}, escLenIn{S: "%", N: 1}, escLenIn{S: "/a%2Fb", N: 100},
			escLenIn{S: "%%%", N: 1}, escLenIn{S: "%%%%", N: 2},
		},
		Gen: func(r *hx.Rand, i int) interface{} {
			var sb strings.Builder
			for k := r.Intn(9); k > 0; k-- {
				if r.Chance(1, 10) {
					sb.WriteByte(byte(r.Intn(256)))
				} else {
					sb.WriteString(r.Pick(atoms))
				}
			}
			if r.Chance(1, 50) {
				sb.WriteString(strings.Repeat(r.Pick(atoms), 200+r.Intn(300)))
			}
			s := sb.String()
			n := r.Intn(len(s)/2 + 2)
			if r.Chance(1, 12) {
				n = []int{-1, -5, 0, 1 << 40, len(s) * 3}[r.Intn(5)]
			}
			return escLenIn{S: toL1([]byte(s)), N: n}
		},
		Run: runEscLen,
	})
}
