package main

import (
	"encoding/json"
	"errors"
	"net/textproto"
	"net/url"
	"sort"
	"strings"

	"verif/harness/hx"
)

func canonical(k string) string { return textproto.CanonicalMIMEHeaderKey(k) }
func sortKV(x []kv)             { sort.Slice(x, func(i, j int) bool { return x[i].K < x[j].K }) }

// c07.escape: the model's fragment of net/url against net/url itself.
//   mode "parse": url.ParseRequestURI(a) → Path, RawPath, EscapedPath(), RequestURI()
//   mode "esc":   (&url.URL{Path: a, RawPath: b, RawQuery: q, ForceQuery: f}) → EscapedPath(), RequestURI()

type escapeIn struct {
	Mode string `json:"mode"`
	A    string `json:"a"`
	B    string `json:"b"`
	Q    string `json:"q"`
	F    bool   `json:"f"`
}

type escapeOut struct {
	OK      bool   `json:"ok"`
	Path    string `json:"path"`
	RawPath string `json:"rawpath"`
	Esc     string `json:"esc"`
	URI     string `json:"uri"`
}

func runEscape(raw json.RawMessage) (interface{}, error) {
	var in escapeIn
	if err := json.Unmarshal(raw, &in); err != nil {
		return nil, err
	}
	a, e1 := fromL1(in.A)
	b, e2 := fromL1(in.B)
	q, e3 := fromL1(in.Q)
	if e1 != nil || e2 != nil || e3 != nil {
		return nil, errors.New("not byte strings")
	}
	switch in.Mode {
	case "parse":
		if len(a) == 0 || a[0] != '/' || strings.ContainsAny(string(a), "?#") {
			return nil, errors.New("not an origin-form path")
		}
		for _, c := range a {
			if c < 0x20 || c == 0x7f {
				return nil, errors.New("control byte") // ParseRequestURI rejects these before looking at the path
			}
		}
		u, err := url.ParseRequestURI(string(a))
		if err != nil {
			return escapeOut{}, nil
		}
		return escapeOut{OK: true, Path: toL1([]byte(u.Path)), RawPath: toL1([]byte(u.RawPath)), Esc: toL1([]byte(u.EscapedPath())), URI: toL1([]byte(u.RequestURI()))}, nil
	case "esc":
		u := &url.URL{Path: string(a), RawPath: string(b), RawQuery: string(q), ForceQuery: in.F}
		return escapeOut{OK: true, Path: in.A, RawPath: in.B, Esc: toL1([]byte(u.EscapedPath())), URI: toL1([]byte(u.RequestURI()))}, nil
	}
	return nil, errors.New("unknown mode")
}

func init() {
	atoms := []string{"/", "/", "a", "b", "%", "%2", "%2F", "%2f", "%41", "%zz", "%e9", "\xe9", " ", "!", "\"", "$", "&", "'", "(", ")", "*", "+", ",", "-", ".", ":", ";",
		"<", "=", ">", "@", "[", "\\", "]", "^", "_", "`", "{", "|", "}", "~", "%25", "%3F", "%23", "%20", "%00", "\x80", "\xff", "0", "Z"}
	word := func(r *hx.Rand, n int) string {
		var sb strings.Builder
		for ; n > 0; n-- {
			if r.Chance(1, 10) {
				c := byte(0x20 + r.Intn(0xe0))
				if c == 0x7f {
					c = 'x'
				}
				sb.WriteByte(c)
			} else {
				sb.WriteString(r.Pick(atoms))
			}
		}
		return sb.String()
	}
	clean := func(s string) string {
		s = strings.NewReplacer("?", "", "#", "").Replace(s)
		return s
	}
	hx.Register(&hx.Stream{
		Name: "c07.escape",
		Corpus: []interface{}{
			escapeIn{Mode: "parse", A: "/a%2Fb"}, escapeIn{Mode: "parse", A: "/a%2"}, escapeIn{Mode: "parse", A: "/a b"}, escapeIn{Mode: "parse", A: "/a!b"},
			escapeIn{Mode: "parse", A: "/a\"b"}, escapeIn{Mode: "parse", A: "/*"}, escapeIn{Mode: "parse", A: "//a"}, escapeIn{Mode: "parse", A: "/\u00e9"},
			escapeIn{Mode: "esc", A: "*"}, escapeIn{Mode: "esc", A: "", Q: "x"}, escapeIn{Mode: "esc", A: "", F: true}, escapeIn{Mode: "esc", A: "/a/b", B: "/a%2Fb"},
			escapeIn{Mode: "esc", A: "/a/b", B: "/a%2fb"}, escapeIn{Mode: "esc", A: "/a/c", B: "/a%2Fb"}, escapeIn{Mode: "esc", A: "/a b", B: "/a b"},
			escapeIn{Mode: "esc", A: "/a?b", B: "/a?b"}, escapeIn{Mode: "esc", A: "a/b", B: ""}, escapeIn{Mode: "esc", A: "*", B: "%2A"},
		},
		Gen: func(r *hx.Rand, i int) interface{} {
			if r.Chance(1, 2) {
				return escapeIn{Mode: "parse", A: toL1([]byte("/" + clean(word(r, r.Intn(6)))))}
			}
			a := word(r, r.Intn(5))
			in := escapeIn{Mode: "esc", A: toL1([]byte(a)), Q: r.Pick([]string{"", "", "x=1", "a%20b", "?"}), F: r.Chance(1, 5)}
			switch r.Intn(4) {
			case 0: // no raw path
			case 1: // a raw path that decodes to the path: re-encode some bytes
				var sb strings.Builder
				for _, c := range []byte(a) {
					if r.Chance(1, 3) || c == '%' {
						hexd := "0123456789ABCDEF"
						if r.Chance(1, 3) {
							hexd = "0123456789abcdef"
						}
						sb.WriteString("%" + string(hexd[c>>4]) + string(hexd[c&15]))
					} else {
						sb.WriteByte(c)
					}
				}
				in.B = toL1([]byte(sb.String()))
			default:
				in.B = toL1([]byte(word(r, r.Intn(5))))
			}
			return in
		},
		Run: runEscape,
	})
}
