package main

import (
	"encoding/base64"
	"encoding/json"
	"errors"
	"fmt"
	"io"
	"log"
	"net/url"
	"os"
	"strings"
	"sync"

	"github.com/fabiolb/fabio/auth"
	"github.com/fabiolb/fabio/config"
	"github.com/fabiolb/fabio/noroute"
	"verif/harness/hx"
)

// c07.serve: whole requests through the real HTTPProxy + real route.Table against the unified model
// (Model/ServeHTTP.lean): a small table whose routes carry strip/prepend/host, allow/deny, auth and redirect
// options; observed are the outcome class (no-route / 403 / 401 / redirect / 500 / forward), the status, the
// Location of a redirect and, for a forwarded request, the request line, Host and the forwarding headers the
// upstream received.

type serveURL struct {
	Scheme  string `json:"scheme"`
	Host    string `json:"host"`
	Path    string `json:"path"`
	RawPath string `json:"rawpath"`
	Query   string `json:"query"`
}

type serveRoute struct {
	Host string      `json:"host"`
	Path string      `json:"path"`
	Dst  string      `json:"dst"`
	U    serveURL    `json:"u"` // url.Parse(dst), the oracle the model uses for the target URL
	Opts [][2]string `json:"opts"`
}

type serveIn struct {
	Routes  []serveRoute `json:"routes"`
	NoRoute int          `json:"noroute"`
	HTML    string       `json:"html"`
	Secrets [][2]string  `json:"secrets"` // the registered scheme "basic"
	Method  string       `json:"method"`
	Host    string       `json:"host"`
	Path    string       `json:"path"`
	HasQ    bool         `json:"hasq"`
	Query   string       `json:"query"`
	Hdr     [][2]string  `json:"hdr"`
	WS      bool         `json:"ws"`
	Cred    []string     `json:"cred"` // user, password of an Authorization: Basic header; empty = none
	// the Authorization line the credentials make (base64 is not modelled: the value travels with the case and Run
	// checks that it is the encoding of Cred)
	Authz string `json:"authz"`
}

func authzOf(cred []string) string {
	if len(cred) != 2 {
		return ""
	}
	return "Basic " + base64.StdEncoding.EncodeToString([]byte(cred[0]+":"+cred[1]))
}

type serveOut struct {
	Status   int               `json:"status"`
	Hits     int               `json:"hits"`
	Location string            `json:"location"`
	Body     string            `json:"body"`
	Up       *upRec            `json:"up"`
	Fwd      map[string]string `json:"fwd"` // first value of the forwarding headers at the upstream
}

// realBasic builds the scheme auth.LoadAuthSchemes gives for `proxy.auth = name=basic;type=basic;file=…` — the real
// auth/basic.go on an htpasswd file holding the secrets in plain form (go-htpasswd's last parser accepts them) — so
// that what the gate does to the request on its way to the upstream is the code's, not a stand-in's. One scheme per
// set of secrets and harness process; the file exists only while the scheme is being loaded.
var (
	basicMu    sync.Mutex
	basicCache = map[string]map[string]auth.AuthScheme{}
)

func realBasic(secrets [][2]string) (map[string]auth.AuthScheme, error) {
	var file strings.Builder
	seen := map[string]bool{}
	for _, s := range secrets {
		u, p := s[0], s[1]
		if u == "" || p == "" || strings.ContainsAny(u, ":\r\n#") || strings.ContainsAny(p, ":\r\n") || !validValue(u) || !validValue(p) ||
			strings.HasPrefix(p, "$") || strings.HasPrefix(p, "{") || seen[u] {
			return nil, errors.New("secret cannot be written as a plain htpasswd line")
		}
		seen[u] = true
		file.WriteString(u + ":" + p + "\n")
	}
	basicMu.Lock()
	defer basicMu.Unlock()
	if sch, ok := basicCache[file.String()]; ok {
		return sch, nil
	}
	f, err := os.CreateTemp("", "fvh-c07-htpasswd-")
	if err != nil {
		return nil, err
	}
	path := f.Name()
	_, werr := f.WriteString(file.String())
	f.Close()
	defer os.Remove(path) // read once by LoadAuthSchemes (no refresh interval): nothing is left behind
	if werr != nil {
		return nil, werr
	}
	sch, err := auth.LoadAuthSchemes(map[string]config.AuthScheme{
		"basic": {Name: "basic", Type: "basic", Basic: config.BasicAuth{Realm: "verif", File: path}}})
	if err != nil {
		return nil, err
	}
	basicCache[file.String()] = sch
	return sch, nil
}

var fwdNames = []string{"Forwarded", "X-Forwarded-Host", "X-Forwarded-Port", "X-Forwarded-Prefix", "X-Forwarded-Proto", "X-Real-Ip"}

var serveMu sync.Mutex

func parseDst(dst string) (serveURL, error) {
	u, err := url.Parse(dst)
	if err != nil {
		return serveURL{}, err
	}
	return serveURL{toL1([]byte(u.Scheme)), toL1([]byte(u.Host)), toL1([]byte(u.Path)), toL1([]byte(u.RawPath)), toL1([]byte(u.RawQuery))}, nil
}

func runServe(raw json.RawMessage) (interface{}, error) {
	var in serveIn
	if err := json.Unmarshal(raw, &in); err != nil {
		return nil, err
	}
	if len(in.Routes) == 0 || len(in.Routes) > 8 {
		return nil, errors.New("route count")
	}
	var cmds []string
	for i, rt := range in.Routes {
		ok := func(s string) bool {
			return s == strings.TrimSpace(s) && !strings.ContainsAny(s, " \t\r\n\"#") && validValue(s)
		}
		if !ok(rt.Host) || !ok(rt.Path) || !strings.HasPrefix(rt.Path, "/") || !ok(rt.Dst) || rt.Dst == "" {
			return nil, errors.New("route cannot be written as a command")
		}
		// the oracle must be what url.Parse says (a shrunk input may have lost the tie)
		u, err := parseDst(rt.Dst)
		if err != nil || u != rt.U {
			return nil, errors.New("target URL oracle does not match url.Parse")
		}
		var opts []string
		for _, o := range rt.Opts {
			if !validToken(o[0]) || !ok(o[1]) || o[1] == "" {
				return nil, errors.New("option cannot be written")
			}
			opts = append(opts, o[0]+"="+o[1])
		}
		cmd := fmt.Sprintf("route add svc%d %s%s %s", i, rt.Host, rt.Path, rt.Dst)
		if len(opts) > 0 {
			cmd += ` opts "` + strings.Join(opts, " ") + `"`
		}
		cmds = append(cmds, cmd)
	}
	u := urlIn{Method: in.Method, Path: in.Path, HasQ: in.HasQ, Query: in.Query, Host: in.Host, Hdr: in.Hdr, WS: in.WS}
	if len(in.Cred) == 2 {
		if strings.Contains(in.Cred[0], ":") || !validValue(in.Cred[0]) || !validValue(in.Cred[1]) {
			return nil, errors.New("credentials cannot be sent")
		}
		u.Hdr = append(append([][2]string{}, in.Hdr...), [2]string{"Authorization", authzOf(in.Cred)})
	} else if len(in.Cred) != 0 {
		return nil, errors.New("cred is user, password")
	}
	if in.Authz != authzOf(in.Cred) {
		return nil, errors.New("authz is not the encoding of cred")
	}
	for _, h := range in.Hdr {
		if strings.EqualFold(h[0], "authorization") {
			return nil, errors.New("authorization is set by the harness")
		}
	}
	req, err := u.wire()
	if err != nil {
		return nil, err
	}
	page, err := fromL1(in.HTML)
	if err != nil || len(page) > 1024 {
		return nil, errors.New("page")
	}
	schemes, err := realBasic(in.Secrets)
	if err != nil {
		return nil, err
	}
	serveMu.Lock()
	defer serveMu.Unlock()
	norouteMu.Lock()
	defer norouteMu.Unlock()
	e := getEnv()
	noroute.SetHTML(string(page))
	defer noroute.SetHTML("")
	resp, hits, up, _, err := e.exchange(config.Proxy{NoRouteStatus: in.NoRoute}, pcfg{}, strings.Join(cmds, "\n"), nil,
		schemes, in.Method, req, true)
	if err != nil {
		return nil, err
	}
	out := serveOut{Status: resp.Status, Hits: hits, Up: up, Body: resp.Body, Fwd: map[string]string{}}
	for _, h := range resp.Hdr {
		if h.K == "Location" && len(h.V) > 0 {
			out.Location = toL1([]byte(h.V[0]))
		}
	}
	if up != nil {
		for _, h := range up.Hdr {
			for _, n := range fwdNames {
				if h.K == n && len(h.V) > 0 {
					out.Fwd[n] = h.V[0]
				}
			}
		}
	}
	return out, nil
}

func genServe(r *hx.Rand, i int) interface{} {
	hosts := []string{"", "", "a.example", "a.example", "b.example"}
	paths := []string{"/", "/", "/s", "/s/a", "/deny", "/auth", "/go"}
	in := serveIn{NoRoute: []int{404, 404, 503, 999, 1000, 42}[r.Intn(6)], HTML: r.Pick([]string{"", "<html>no route</html>"}),
		Secrets: [][2]string{{"u", "p"}, {"v", "q"}}, Method: r.Pick([]string{"GET", "GET", "POST"}), Hdr: [][2]string{}, Cred: []string{}}
	seen := map[string]bool{}
	for n := r.Range(1, 4); n > 0; n-- {
		rt := serveRoute{Host: r.Pick(hosts), Path: r.Pick(paths), Opts: [][2]string{}}
		if seen[rt.Host+rt.Path] {
			continue
		}
		seen[rt.Host+rt.Path] = true
		add := func(k string, vs []string) {
			if v := r.Pick(vs); v != "" {
				rt.Opts = append(rt.Opts, [2]string{k, v})
			}
		}
		rt.Dst = r.Pick([]string{"http://UPSTREAM/", "http://UPSTREAM/", "http://UPSTREAM/?t=1", "http://UPSTREAM/base%2Fx?t=1&u", "HTTP://UPSTREAM"})
		switch r.Intn(6) {
		case 0: // redirect route (one of them points back at requests for a.example)
			rt.Dst = r.Pick([]string{"https://r.example/$path", "http://a.example/$path", "http://r.example/fixed?k=v", "https://$host/$path"})
			add("redirect", []string{"301", "302", "308", "999", "x"})
			add("strip", []string{"", "/s", "/go"})
		case 1, 2: // gates
			add("allow", []string{"", "ip:127.0.0.0/8", "ip:10.0.0.0/8", "ip:10.0.0.0/8,ip:127.0.0.1/32", "ip:bogus"})
			if len(rt.Opts) == 0 || r.Chance(1, 8) {
				add("deny", []string{"", "ip:127.0.0.1/32", "ip:10.0.0.0/8", "ip:192.168.0.0/16"})
			}
			add("auth", []string{"", "", "basic", "basic", "nope"})
		}
		add("strip", []string{"", "", "/s", "/s/"})
		add("prepend", []string{"", "", "/p", "p"})
		add("host", []string{"", "", "dst", "o.example"})
		// an option may be named once
		uniq := map[string]bool{}
		keep := rt.Opts[:0]
		for _, o := range rt.Opts {
			if !uniq[o[0]] {
				uniq[o[0]] = true
				keep = append(keep, o)
			}
		}
		rt.Opts = keep
		// a redirect option the code rejects leaves an ordinary target: keep it pointing at the recording upstream
		for _, o := range rt.Opts {
			if o[0] == "redirect" && (o[1] == "999" || o[1] == "x") {
				rt.Dst = "http://UPSTREAM/"
			}
		}
		rt.U, _ = parseDst(rt.Dst)
		in.Routes = append(in.Routes, rt)
	}
	in.Host = r.Pick([]string{"a.example", "a.example", "A.EXAMPLE:80", "b.example", "c.example", "a.example:8080"})
	in.Path = r.Pick([]string{"/", "/s", "/s/a%2Fb", "/s/a/x", "/deny/x", "/auth", "/go/there", "/go%2Fx", "/x", "/%73/y"})
	// most requests are aimed at one of the routes (host in a spelling that still matches, path below the route's)
	if len(in.Routes) > 0 && r.Chance(2, 3) {
		rt := in.Routes[r.Intn(len(in.Routes))]
		if rt.Host != "" {
			in.Host = r.Pick([]string{rt.Host, rt.Host, strings.ToUpper(rt.Host), rt.Host + ":80"})
		}
		in.Path = strings.TrimSuffix(rt.Path, "/") + r.Pick([]string{"", "/", "/a%2Fb", "/x/y", "%2Fx", "/%73"})
		if !strings.HasPrefix(in.Path, "/") {
			in.Path = "/" + in.Path
		}
	}
	in.Query = r.Pick([]string{"", "", "x=1", "&"})
	in.HasQ = in.Query != ""
	if r.Chance(1, 3) {
		in.Hdr = append(in.Hdr, [2]string{"X-Forwarded-For", r.Pick([]string{"10.0.0.1", "192.168.0.1", "127.0.0.1, 10.9.9.9", "bogus"})})
	}
	if r.Chance(1, 6) {
		in.Hdr = append(in.Hdr, [2]string{"X-Forwarded-Proto", r.Pick([]string{"https", "http"})})
	}
	if r.Chance(1, 2) {
		in.Cred = [][]string{{"u", "p"}, {"u", "p"}, {"u", "wrong"}, {"v", "q"}, {"w", "p"}, {"u", "P"}}[r.Intn(6)]
	}
	in.Authz = authzOf(in.Cred)
	// end-to-end headers of the client's own: they must arrive whatever gates the route carries
	for k := r.Intn(3); k > 0; k-- {
		in.Hdr = append(in.Hdr, [2]string{r.Pick([]string{"X-A", "Cookie", "Accept", "User-Agent", "x-a", "Accept-Encoding", "Proxy-Authorization", "Connection", "Www-Authenticate", "X-Auth-Token"}),
			r.Pick([]string{"1", "a=b", "", "x-a", "text/html", "close, X-A", "Basic dTpw"})})
	}
	if r.Chance(1, 8) {
		in.WS, in.Method = true, "GET"
	}
	return in
}

func mkRoute(host, path, dst string, opts ...[2]string) serveRoute {
	u, _ := parseDst(dst)
	if opts == nil {
		opts = [][2]string{}
	}
	return serveRoute{Host: host, Path: path, Dst: dst, U: u, Opts: opts}
}

func init() {
	log.SetOutput(io.Discard) // fabio logs every access decision and skipped redirect
	base := func(rs ...serveRoute) serveIn {
		return serveIn{Routes: rs, NoRoute: 404, HTML: "<html>no route</html>", Secrets: [][2]string{{"u", "p"}}, Method: "GET", Host: "a.example", Path: "/", Hdr: [][2]string{}, Cred: []string{}}
	}
	with := func(in serveIn, f func(*serveIn)) serveIn { f(&in); in.Authz = authzOf(in.Cred); return in }
	up := "http://UPSTREAM/"
	hx.Register(&hx.Stream{
		Name: "c07.serve",
		Corpus: []interface{}{
			base(mkRoute("", "/", up)),
			with(base(mkRoute("b.example", "/", up)), func(in *serveIn) { in.NoRoute = 1000 }),
			base(mkRoute("a.example", "/", up, [2]string{"allow", "ip:10.0.0.0/8"})),
			base(mkRoute("a.example", "/", up, [2]string{"allow", "ip:127.0.0.0/8"})),
			with(base(mkRoute("a.example", "/", up, [2]string{"allow", "ip:127.0.0.0/8"})), func(in *serveIn) { in.Hdr = [][2]string{{"X-Forwarded-For", "127.0.0.1, 10.9.9.9"}} }),
			base(mkRoute("a.example", "/", up, [2]string{"auth", "basic"})),
			with(base(mkRoute("a.example", "/", up, [2]string{"auth", "basic"})), func(in *serveIn) { in.Cred = []string{"u", "p"} }),
			with(base(mkRoute("a.example", "/", up, [2]string{"auth", "nope"})), func(in *serveIn) { in.Cred = []string{"u", "p"} }),
			with(base(mkRoute("a.example", "/go", "https://r.example/$path", [2]string{"redirect", "301"})), func(in *serveIn) { in.Path, in.HasQ, in.Query = "/go/a%2Fb", true, "x=1" }),
			// a redirect that points back at the request is skipped; the host-less route answers
			with(base(mkRoute("a.example", "/", "http://a.example/$path", [2]string{"redirect", "302"}), mkRoute("", "/", up)), func(in *serveIn) { in.Path = "/x" }),
			with(base(mkRoute("a.example", "/", "http://a.example/$path", [2]string{"redirect", "302"})), func(in *serveIn) { in.Path = "/x" }),
			// denied and a redirect route: 403 wins; unauthorized and redirect: 401 wins
			base(mkRoute("a.example", "/", "https://r.example/", [2]string{"redirect", "301"}, [2]string{"deny", "ip:127.0.0.1/32"})),
			base(mkRoute("a.example", "/", "https://r.example/", [2]string{"redirect", "301"}, [2]string{"auth", "basic"})),
			with(base(mkRoute("a.example", "/s", "http://UPSTREAM/?t=1", [2]string{"strip", "/s"}, [2]string{"prepend", "/p"}, [2]string{"host", "dst"})), func(in *serveIn) { in.Path, in.HasQ, in.Query = "/s/a%2Fb", true, "x=1" }),
			with(base(mkRoute("a.example", "/", up, [2]string{"host", "o.example"})), func(in *serveIn) { in.WS = true }),
		},
		Gen: genServe,
		Run: runServe,
	})
}
