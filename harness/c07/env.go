package main

import (
	"bufio"
	"bytes"
	"crypto/sha256"
	"crypto/tls"
	"encoding/hex"
	"errors"
	"fmt"
	"io"
	"net"
	"net/http"
	"net/http/httptest"
	"net/url"
	"os"
	"sort"
	"strings"
	"sync"
	"time"

	"github.com/fabiolb/fabio/auth"
	"github.com/fabiolb/fabio/config"
	"github.com/fabiolb/fabio/logger"
	"github.com/fabiolb/fabio/proxy"
	"github.com/fabiolb/fabio/route"
	"github.com/fabiolb/fabio/transport"
	"github.com/go-kit/kit/metrics/discard"
)

// The environment shared by the C07 streams: one recording upstream and one front listener per harness
// process. The front serves whatever *proxy.HTTPProxy the current case installed; cases run one at a time.
// The client side is a raw TCP socket, so the bytes of the request line (percent-encoding included) and of
// the header block are exactly what the generator chose, not what net/http's client would make of them.

// upstreamName replaces the upstream's real host:port wherever it is observed, so that cases are stable.
const upstreamName = "UPSTREAM"

type kv struct {
	K string   `json:"k"`
	V []string `json:"v"`
}

// upRec is what the upstream saw of one request.
type upRec struct {
	Method  string `json:"method"`
	URI     string `json:"uri"` // RequestURI, verbatim bytes of the request-target (latin-1 carried)
	Host    string `json:"host"`
	Hdr     []kv   `json:"hdr"` // canonical names sorted, values in arrival order
	BodyLen int    `json:"blen"`
	BodySHA string `json:"bsha"`
	TE      string `json:"te"` // "chunked" when the upstream received a chunked body
}

type interim struct {
	Code int         `json:"code"`
	Hdr  [][2]string `json:"hdr"`
}

type upReply struct {
	Interim []interim // informational responses sent before the final one
	Status  int
	Hdr     [][2]string
	Body    []byte
	Flush   bool // flush after the header and half of the body: the reply goes out chunked
	NoWrite bool
	Trailer [][2]string // trailer fields: announced in front of the status line, sent behind the body
}

type c07env struct {
	up     *httptest.Server
	front  *httptest.Server
	upURL  *url.URL
	upAddr string

	mu    sync.Mutex
	cur   http.Handler
	hits  int
	last  *upRec
	reply *upReply
	// handlers of the front listener and of the upstream that are running right now; a case (and every new attempt
	// of a case) starts only when there is none, so that nothing left over from an abandoned exchange is counted
	// in its window
	busy int
	idle *sync.Cond
}

func (e *c07env) enter() {
	e.mu.Lock()
	e.busy++
	e.mu.Unlock()
}

func (e *c07env) leave() {
	e.mu.Lock()
	e.busy--
	if e.busy == 0 {
		e.idle.Broadcast()
	}
	e.mu.Unlock()
}

// quiesce waits (on the handlers' own exit, not on a timer) until neither listener is serving anything.
func (e *c07env) quiesce() error {
	expired := false
	t := time.AfterFunc(30*time.Second, func() {
		e.mu.Lock()
		expired = true
		e.idle.Broadcast()
		e.mu.Unlock()
	})
	defer t.Stop()
	e.mu.Lock()
	defer e.mu.Unlock()
	for e.busy > 0 && !expired {
		e.idle.Wait()
	}
	if e.busy > 0 {
		return errors.New("a handler of an earlier exchange is still running")
	}
	return nil
}

var (
	envOnce sync.Once
	theEnv  *c07env
)

func sha(b []byte) string {
	s := sha256.Sum256(b)
	return hex.EncodeToString(s[:8])
}

// toL1 carries arbitrary bytes through JSON as the code points U+0000..U+00FF.
func toL1(b []byte) string {
	r := make([]rune, len(b))
	for i, c := range b {
		r[i] = rune(c)
	}
	return string(r)
}

func fromL1(s string) ([]byte, error) {
	b := make([]byte, 0, len(s))
	for _, r := range s {
		if r > 0xff {
			return nil, errors.New("not a latin-1 carried byte string")
		}
		b = append(b, byte(r))
	}
	return b, nil
}

func hdrList(h http.Header, host string) []kv {
	var out []kv
	for k, v := range h {
		vs := make([]string, len(v))
		for i, x := range v {
			vs[i] = strings.ReplaceAll(x, host, upstreamName)
		}
		out = append(out, kv{k, vs})
	}
	sort.Slice(out, func(i, j int) bool { return out[i].K < out[j].K })
	return out
}

func getEnv() *c07env {
	envOnce.Do(func() {
		e := &c07env{}
		e.idle = sync.NewCond(&e.mu)
		e.up = httptest.NewServer(http.HandlerFunc(func(w http.ResponseWriter, r *http.Request) {
			e.enter()
			defer e.leave()
			body, _ := io.ReadAll(r.Body)
			rec := &upRec{
				Method:  r.Method,
				URI:     toL1([]byte(r.RequestURI)),
				Host:    strings.ReplaceAll(r.Host, e.upAddr, upstreamName),
				Hdr:     hdrList(r.Header, e.upAddr),
				BodyLen: len(body),
				BodySHA: sha(body),
				TE:      strings.Join(r.TransferEncoding, ","),
			}
			e.mu.Lock()
			e.hits++
			e.last = rec
			rep := e.reply
			e.mu.Unlock()
			if strings.EqualFold(r.Header.Get("Upgrade"), "websocket") {
				if hj, ok := w.(http.Hijacker); ok {
					if c, _, err := hj.Hijack(); err == nil {
						c.Write([]byte("HTTP/1.1 101 Switching Protocols\r\nUpgrade: websocket\r\nConnection: Upgrade\r\n\r\n"))
						// let the proxy close first (it does once the client is gone)
						c.SetReadDeadline(time.Now().Add(5 * time.Second))
						io.Copy(io.Discard, c)
						c.Close()
					}
					return
				}
			}
			if rep == nil {
				w.Write([]byte("ok"))
				return
			}
			for _, im := range rep.Interim {
				for _, h := range im.Hdr {
					w.Header().Add(h[0], h[1])
				}
				w.WriteHeader(im.Code)
				for _, h := range im.Hdr { // net/http keeps them for the final response otherwise
					w.Header().Del(h[0])
				}
			}
			for _, h := range rep.Hdr {
				w.Header().Add(h[0], h[1])
			}
			announced := map[string]bool{}
			for _, tr := range rep.Trailer {
				if k := http.CanonicalHeaderKey(tr[0]); !announced[k] {
					announced[k] = true
					w.Header().Add("Trailer", k)
				}
			}
			w.WriteHeader(rep.Status)
			if rep.NoWrite {
				return
			}
			if rep.Flush {
				if f, ok := w.(http.Flusher); ok {
					f.Flush()
				}
				half := len(rep.Body) / 2
				w.Write(rep.Body[:half])
				if f, ok := w.(http.Flusher); ok {
					f.Flush()
				}
				w.Write(rep.Body[half:])
			} else {
				w.Write(rep.Body)
			}
			for _, tr := range rep.Trailer {
				w.Header().Add(tr[0], tr[1])
			}
		}))
		e.upURL, _ = url.Parse(e.up.URL)
		e.upAddr = e.upURL.Host
		e.front = httptest.NewServer(http.HandlerFunc(func(w http.ResponseWriter, r *http.Request) {
			e.enter()
			defer e.leave()
			e.mu.Lock()
			h := e.cur
			e.mu.Unlock()
			h.ServeHTTP(w, r)
		}))
		theEnv = e
	})
	return theEnv
}

var globCache = route.NewGlobCache(100)

// the transports main.newHTTPProxy gives the proxy (fact main_wiring), built once so that connections to the
// upstream are reused across cases
var (
	upTransport       = transport.NewTransport(nil)
	insecureTransport = transport.NewTransport(&tls.Config{InsecureSkipVerify: true})
)

// pcfg is the part of the proxy's configuration — other than the route options — that puts code of fabio on the
// path of every request: the span-name template (trace.CreateSpan runs it before the lookup, whether or not a
// tracer is installed), the request-id header, the access logger, the metrics hooks, the flush intervals.
// None of it may change what the upstream receives or what the client gets back (the request-id header apart).
type pcfg struct {
	Span  string `json:"span"`  // tracing.spanname ("" = not configured)
	ReqID string `json:"reqid"` // proxy.header.requestid ("" = not configured)
	Log   bool   `json:"log"`   // an access logger is installed (combined format)
	Stats bool   `json:"stats"` // the metrics hooks are installed
	Flush int    `json:"flush"` // proxy.flushinterval and proxy.globalflushinterval in ms (0 = not configured)
}

func (c pcfg) any() bool { return c != pcfg{} }

func (c pcfg) check() error {
	if len(c.Span) > 120 {
		return errors.New("span name template too long")
	}
	if c.ReqID != "" && (!validToken(c.ReqID) || len(c.ReqID) < 3 || !strings.EqualFold(c.ReqID[:2], "x-")) {
		return errors.New("request-id header is drawn from the X- names")
	}
	if c.Flush < 0 || c.Flush > 1000 {
		return errors.New("flush interval out of range")
	}
	return nil
}

// the access logger reads the request, the request URL saved before the rewrite and the target URL after the handler ran
var accessLog, _ = logger.New(io.Discard, logger.CombinedFormat+` $request_url $request_args $upstream_request_url $header.X-A`)

// apply puts the configuration on a proxy under construction.
func (c pcfg) apply(p *proxy.HTTPProxy) {
	p.TracerCfg = config.Tracing{ServiceName: "fabio", SpanName: c.Span}
	p.UUID = func() string { return "verif-request-id" }
	p.Config.RequestID = c.ReqID
	if c.Flush > 0 {
		p.Config.FlushInterval = time.Duration(c.Flush) * time.Millisecond
		p.Config.GlobalFlushInterval = time.Duration(c.Flush) * time.Millisecond
	}
	if c.Log {
		p.Logger = accessLog
	}
	if c.Stats {
		p.Stats = proxy.HttpStatsHandler{Requests: discard.NewHistogram(), Noroute: discard.NewCounter(), WSConn: discard.NewGauge(),
			StatusTimer: discard.NewHistogram(), RedirectCounter: discard.NewCounter()}
	}
}

// install builds a real proxy.HTTPProxy whose Lookup consults a table parsed by the real route.NewTable from
// the given route commands ("UPSTREAM" in them is replaced by the upstream's address), and resets the recorder.
func (e *c07env) install(cfg config.Proxy, routes string, rep *upReply) error {
	return e.installCfg(cfg, pcfg{}, routes, rep, nil)
}

func (e *c07env) installWith(cfg config.Proxy, routes string, rep *upReply, schemes map[string]auth.AuthScheme) error {
	return e.installCfg(cfg, pcfg{}, routes, rep, schemes)
}

func (e *c07env) installCfg(cfg config.Proxy, pc pcfg, routes string, rep *upReply, schemes map[string]auth.AuthScheme) error {
	routes = strings.ReplaceAll(routes, upstreamName, e.upAddr)
	tbl, err := route.NewTable(bytes.NewBufferString(routes))
	if err != nil {
		return fmt.Errorf("route table: %v", err)
	}
	p := &proxy.HTTPProxy{
		Config:            cfg,
		Transport:         upTransport,
		InsecureTransport: insecureTransport,
		AuthSchemes:       schemes,
		Lookup: func(r *http.Request) *route.Target {
			return tbl.Lookup(r, "", route.Picker["rr"], route.Matcher["prefix"], globCache, false)
		},
	}
	pc.apply(p)
	if err := e.quiesce(); err != nil {
		return err
	}
	e.mu.Lock()
	e.cur = p
	e.hits = 0
	e.last = nil
	e.reply = rep
	e.mu.Unlock()
	return nil
}

// exchange runs one case: install, one round trip, read the recorder. A round trip that breaks off is tried again
// (the websocket handler gives the upstream one second for the handshake, which a loaded machine can miss; a large
// transfer is occasionally cut off when many harness processes run side by side), and so is a measurement that
// cannot be the answer to ONE client request whatever the code does: the upstream counted more than one request
// (Go's transport re-sends a request on a fresh connection when a pooled one has died — sockets get scarce on a
// loaded machine). Only what persists over five measurements with growing pauses (7.6 s in all) is reported and
// judged; `attempts` says how many were needed.
// a measurement is taken up to maxAttempts times, with these pauses in between
const maxAttempts = 5

// cases of this process whose measurement failed through all attempts (cases run one at a time)
var persistent int

var backoff = []time.Duration{100 * time.Millisecond, 500 * time.Millisecond, 2 * time.Second, 5 * time.Second}

func (e *c07env) exchange(cfg config.Proxy, pc pcfg, routes string, rep *upReply, schemes map[string]auth.AuthScheme,
	method string, raw []byte, keepBody bool) (resp *clientResp, hits int, up *upRec, attempts int, err error) {
	limit := maxAttempts
	if persistent >= 10 {
		// ten cases of this process have failed through all their measurements already: that is not an overloaded
		// machine but the code under test; the remaining cases are measured twice and without pauses
		limit = 2
	}
	defer func() {
		if err != nil {
			persistent++
		}
	}()
	for attempts = 1; attempts <= limit; attempts++ {
		if attempts > 1 && limit == maxAttempts {
			// a machine that is overloaded right now (the websocket handler's one-second handshake deadline missed,
			// a connection reset) is given time to recover: what is judged is what persists over growing pauses
			time.Sleep(backoff[attempts-2])
		}
		if err = e.installCfg(cfg, pc, routes, rep, schemes); err != nil {
			return nil, 0, nil, attempts, err
		}
		if resp, err = e.roundTrip(method, raw, keepBody); err != nil {
			if os.Getenv("C07_DEBUG") != "" {
				fmt.Fprintf(os.Stderr, "c07: attempt %d: %v\n", attempts, err)
			}
			continue
		}
		if err = e.quiesce(); err != nil { // the recorder is read when both sides are done with the exchange
			return nil, 0, nil, attempts, err
		}
		if hits, up = e.seen(); hits <= 1 {
			break
		}
		if os.Getenv("C07_DEBUG") != "" {
			fmt.Fprintf(os.Stderr, "c07: attempt %d: upstream counted %d requests\n", attempts, hits)
		}
	}
	if attempts > limit {
		attempts = limit
	}
	return resp, hits, up, attempts, err
}

func (e *c07env) seen() (int, *upRec) {
	e.mu.Lock()
	defer e.mu.Unlock()
	return e.hits, e.last
}

// clientResp is what the raw client read back.
type clientResp struct {
	Status  int      `json:"status"`
	Interim []int    `json:"interim"` // 1xx responses seen before the final one
	Hdr     []kv     `json:"hdr"`
	BodyLen int      `json:"blen"`
	BodySHA string   `json:"bsha"`
	Body    string   `json:"body,omitempty"` // only when short (no-route page)
	TE      []string `json:"-"`
	IHdr    [][]kv   `json:"-"` // headers of the interim responses
	Trailer []kv     `json:"-"` // trailer fields behind the body
	Raw     []byte   `json:"-"` // the body as read
}

// roundTrip writes raw request bytes to the front listener and reads one final response.
func (e *c07env) roundTrip(method string, raw []byte, keepBody bool) (*clientResp, error) {
	var c net.Conn
	var err error
	for attempt := 0; attempt < 20; attempt++ { // ephemeral ports can run short when many harness processes run
		if c, err = net.DialTimeout("tcp", e.front.Listener.Addr().String(), 5*time.Second); err == nil {
			break
		}
		time.Sleep(250 * time.Millisecond)
	}
	if err != nil {
		return nil, err
	}
	// close with RST once the exchange is over: no TIME_WAIT, so long runs do not exhaust the port range
	defer func() {
		if tc, ok := c.(*net.TCPConn); ok {
			tc.SetLinger(0)
		}
		c.Close()
	}()
	c.SetDeadline(time.Now().Add(20 * time.Second))
	werr := make(chan error, 1)
	go func() {
		_, err := c.Write(raw)
		werr <- err
	}()
	br := bufio.NewReader(c)
	out := &clientResp{Interim: []int{}}
	for {
		resp, err := http.ReadResponse(br, &http.Request{Method: method})
		if err != nil {
			return nil, fmt.Errorf("read response: %v", err)
		}
		if resp.StatusCode >= 100 && resp.StatusCode < 200 && resp.StatusCode != 101 && len(out.Interim) < 16 {
			out.Interim = append(out.Interim, resp.StatusCode)
			out.IHdr = append(out.IHdr, hdrList(resp.Header, e.upAddr))
			continue
		}
		var body []byte
		if resp.StatusCode != 101 {
			body, err = io.ReadAll(resp.Body)
			if err != nil {
				if os.Getenv("C07_DEBUG") != "" {
					fmt.Fprintf(os.Stderr, "c07: cut reply: status %d read %d bytes, CL %d, TE %v, close %v, hdr %v\n", resp.StatusCode, len(body), resp.ContentLength, resp.TransferEncoding, resp.Close, resp.Header)
				}
				return nil, fmt.Errorf("read body: %v", err)
			}
		}
		out.Status = resp.StatusCode
		out.Hdr = hdrList(resp.Header, e.upAddr)
		out.BodyLen = len(body)
		out.BodySHA = sha(body)
		out.TE = resp.TransferEncoding
		out.Trailer = hdrList(resp.Trailer, e.upAddr)
		out.Raw = body
		if keepBody && len(body) <= 4096 {
			out.Body = toL1(body)
		}
		break
	}
	select {
	case <-werr:
	case <-time.After(5 * time.Second):
	}
	return out, nil
}

// validToken / validValue: what can be put on the wire as a header line without changing the framing.
func validToken(s string) bool {
	if s == "" {
		return false
	}
	for _, c := range []byte(s) {
		if !(c >= 'a' && c <= 'z' || c >= 'A' && c <= 'Z' || c >= '0' && c <= '9' || c == '-' || c == '_') {
			return false
		}
	}
	return true
}

func validValue(s string) bool {
	for _, c := range []byte(s) {
		if c < 0x20 || c >= 0x7f {
			return false
		}
	}
	return strings.TrimSpace(s) == s
}
