package main

// c01.pipeline: a generated history of registry changes is played against the fake Consul API; the REAL
// consul backend watchers (consul.NewBackend → WatchServices / WatchManual) feed the REAL main.watchBackend
// loop in a child process built from /repo with -tags verif (verif_c01_main.go); at quiescence the canonical
// dump of route.GetTable() is shipped together with the final registry state.
//
// c01.join: ServiceMonitor.makeConfig (the real one, talking to the fake catalog through the real
// api.Client) on generated passing-check lists and catalogs with colliding dotted names.

import (
	"bufio"
	"encoding/json"
	"errors"
	"fmt"
	"hash/fnv"
	"net/http"
	"net/http/httptest"
	"os"
	"os/exec"
	"path/filepath"
	"strconv"
	"strings"
	"sync"
	"sync/atomic"
	"syscall"
	"time"

	"github.com/fabiolb/fabio/config"
	"github.com/fabiolb/fabio/registry/consul"
	"github.com/fabiolb/fabio/route"
	"github.com/hashicorp/consul/api"
	"verif/harness/hx"
	"verif/harness/rt"
)

type pipeCfg struct {
	Prefix   string   `json:"prefix"`
	Status   []string `json:"status"`
	Strict   bool     `json:"strict"`
	PollMS   int      `json:"poll_ms"`
	Monitors int      `json:"monitors"`
	// registry.consul.register.addr of the child; aliases (routes with a register=<name> option) are
	// registered through it: "" and "localhost" make every alias registration fail, "127.0.0.1:9998" works
	SvcAddr string `json:"svcaddr,omitempty"`
}

type pipeIn struct {
	Cfg pipeCfg `json:"cfg"`
	Ops []Op    `json:"ops"`
}

type pipeObs struct {
	Table    interface{}            `json:"table"`
	Registry Snapshot               `json:"registry"`
	Oracle   map[string]interface{} `json:"oracle"`
}

type pipeOut struct {
	Table    interface{}            `json:"table"`
	Registry Snapshot               `json:"registry"`
	Oracle   map[string]interface{} `json:"oracle"`
	Obs      []pipeObs              `json:"obs"`    // table + registry state at every sync point
	Faults   int                    `json:"faults"` // injected 500 answers
	Jumps    int                    `json:"jumps"`  // backwards index jumps
	Holds    int                    `json:"holds"`  // how often the gate kept the table loop busy while the watchers moved on
}

var (
	fabioOnce sync.Once
	fabioBin  string
	fabioErr  error
)

func verifRoot() string {
	if v := os.Getenv("VERIF_ROOT"); v != "" {
		return v
	}
	if exe, err := os.Executable(); err == nil {
		return filepath.Dir(filepath.Dir(exe))
	}
	return "/verif"
}

// buildFabio builds /repo's main package with the verif tag from the current working tree (incremental;
// serialised between the shards of a run by a file lock).
func buildFabio() (string, error) {
	fabioOnce.Do(func() {
		repo := os.Getenv("VERIF_REPO")
		if repo == "" {
			repo = "/repo"
		}
		root := verifRoot()
		os.MkdirAll(filepath.Join(root, ".work"), 0o755)
		os.MkdirAll(filepath.Join(root, "bin"), 0o755)
		// one binary (and one lock) per repository tree: runs against scratch worktrees (VERIF_REPO) at the same
		// time as a run against /repo must not overwrite each other's child binary
		fabioBin = filepath.Join(root, "bin", "fabio-verif-c01")
		lock := "c01-fabio.lock"
		if repo != "/repo" {
			h := fnv.New32a()
			h.Write([]byte(repo))
			suffix := fmt.Sprintf("%08x", h.Sum32())
			fabioBin = filepath.Join(root, ".work", "c01-fabio-"+suffix)
			lock = "c01-fabio-" + suffix + ".lock"
		}
		lf, err := os.OpenFile(filepath.Join(root, ".work", lock), os.O_CREATE|os.O_RDWR, 0o644)
		if err != nil {
			fabioErr = err
			return
		}
		defer lf.Close()
		syscall.Flock(int(lf.Fd()), syscall.LOCK_EX)
		defer syscall.Flock(int(lf.Fd()), syscall.LOCK_UN)
		cmd := exec.Command("go", "build", "-tags", "verif", "-o", fabioBin, ".")
		cmd.Dir = repo
		cmd.Env = append(os.Environ(), "GOFLAGS=-mod=mod", "GOPROXY=off")
		if out, err := cmd.CombinedOutput(); err != nil {
			fabioErr = fmt.Errorf("go build /repo (verif): %v: %s", err, out)
		}
	})
	return fabioBin, fabioErr
}

const kvPath = "/fabio/config"

// oracleFor evaluates the route model's external parameters (url.Parse+String, glob.Compile) on every
// string a service route or an operator command of the final state can hand to them. It goes through
// rt.Oracle so that it follows whatever the shared route model needs.
func oracleFor(s Snapshot, prefix string) map[string]interface{} {
	defs := append([]rt.Def{}, s.KV...)
	for _, i := range s.Catalog {
		a := i.SAddr
		if a == "" {
			a = i.Addr
		}
		hp := a + ":" + strconv.Itoa(i.Port)
		for _, t := range i.Tags {
			f := strings.Fields(t)
			if len(f) == 0 {
				continue
			}
			k := strings.Index(f[0], "-")
			if k < 0 {
				continue
			}
			src := f[0][k+1:]
			dsts := []string{"http://" + hp + "/", "tcp://" + hp, "https://" + hp, "grpc://" + hp, "grpcs://" + hp}
			for _, o := range f[1:] {
				if strings.HasPrefix(o, "redirect=") {
					if p := strings.Split(o[len("redirect="):], ","); len(p) == 2 {
						dsts = append(dsts, p[1])
					}
				}
			}
			for _, d := range dsts {
				defs = append(defs, rt.Def{Cmd: "add", Src: src, Dst: d}, rt.Def{Cmd: "add", Src: strings.ToLower(src), Dst: d})
			}
		}
	}
	o := rt.Oracle(defs)
	// the composed Lean pipeline (C14 build + Parse + Route) also calls strconv.ParseFloat and evaluates
	// url.Parse / glob.Compile on every token it can meet: the routes as parseURLPrefixTag returns them, the
	// destinations, and every token of the manual text
	urls, globs := o["url"].(map[string]interface{}), o["glob"].(map[string]interface{})
	pf := map[string]interface{}{}
	add := func(tok string) {
		if f, err := strconv.ParseFloat(tok, 64); err == nil {
			pf[tok] = route.VerifRat(f)
		} else {
			pf[tok] = nil
		}
		if _, ok := urls[tok]; !ok {
			if n, ok := route.VerifNormURL(tok); ok {
				urls[tok] = n
			} else {
				urls[tok] = nil
			}
		}
		h, p := route.VerifHostpath(tok)
		h = strings.ToLower(h)
		globs[p] = route.VerifGlobOK(p)
		globs[h] = route.VerifGlobOK(h)
	}
	for _, d := range defs {
		add(d.Src)
		add(d.Dst)
	}
	for _, i := range s.Catalog {
		for _, t := range i.Tags {
			if r, opts, ok := consul.VerifC14ParseTag(t, prefix, map[string]string{"DC": "dc1"}); ok {
				add(r)
				for _, f := range strings.Fields(opts) {
					if strings.HasPrefix(f, "weight=") {
						add(f[len("weight="):])
					}
				}
			}
		}
	}
	for _, tok := range strings.Fields(s.KVText) {
		add(tok)
	}
	o["pf"] = pf
	return o
}

// runPipeline plays the history in a fresh child. Anything that keeps the harness from producing an observation -
// the child did not start or died, its stdout closed early, an event-based wait ran into its ceiling on an
// overloaded machine - is not a verdict about fabio: the history is played once more from scratch (new fake, new
// child), and only if that fails too an error is returned (hx reports it as {"harness_error": …}; the driver
// classes it `harness-error`, never as a disagreement or a specification failure; if it persists over many cases
// the stream falls below its non-trivial floor and the run is broken).
func runPipeline(raw json.RawMessage) (interface{}, error) {
	out, err := runPipelineOnce(raw)
	if err == nil {
		return out, nil
	}
	if _, bad := err.(*inputError); bad {
		return nil, err
	}
	out, err2 := runPipelineOnce(raw)
	if err2 == nil {
		return out, nil
	}
	return nil, fmt.Errorf("twice: %v; then: %v", err, err2)
}

// inputError: the input itself cannot be played (nonsense from the shrinker); retrying is pointless
type inputError struct{ error }

func runPipelineOnce(raw json.RawMessage) (interface{}, error) {
	var in pipeIn
	if err := json.Unmarshal(raw, &in); err != nil {
		return nil, &inputError{err}
	}
	if len(in.Ops) > 200 {
		return nil, &inputError{errors.New("history too long")}
	}
	bin, err := buildFabio()
	if err != nil {
		return nil, err
	}
	reg := newRegistry(kvPath)
	srv := reg.serve()
	defer srv.Close()
	defer reg.close()

	vc := map[string]interface{}{
		"addr": strings.TrimPrefix(srv.URL, "http://"), "prefix": in.Cfg.Prefix, "status": in.Cfg.Status,
		"strict": in.Cfg.Strict, "kvpath": kvPath, "poll_ms": in.Cfg.PollMS, "monitors": in.Cfg.Monitors,
		"debug": os.Getenv("VERIF_C01_DEBUG") != "", "svcaddr": in.Cfg.SvcAddr,
	}
	vcj, _ := json.Marshal(vc)
	cmd := exec.Command(bin)
	cmd.Env = append(os.Environ(), "FABIO_VERIF_DRIVER=c01", "FABIO_VERIF_C01="+string(vcj))
	cmd.Stderr = os.Stderr
	stdin, err := cmd.StdinPipe()
	if err != nil {
		return nil, err
	}
	stdout, err := cmd.StdoutPipe()
	if err != nil {
		return nil, err
	}
	if err := cmd.Start(); err != nil {
		return nil, err
	}
	defer func() {
		stdin.Close()
		cmd.Process.Kill()
		cmd.Wait()
	}()
	rd := bufio.NewReaderSize(stdout, 1<<20)
	if l, err := rd.ReadString('\n'); err != nil || strings.TrimSpace(l) != "ready" {
		return nil, fmt.Errorf("fabio child did not start: %q %v", l, err)
	}
	// ceilings of the event-based waits below; running into one is a harness error, never a verdict
	const patience = 30 * time.Second
	ask := func(cmd string) ([]byte, error) {
		if _, err := stdin.Write([]byte(cmd + "\n")); err != nil {
			return nil, err
		}
		line, err := rd.ReadBytes('\n')
		if err != nil {
			return nil, fmt.Errorf("%s: %v", cmd, err)
		}
		return line, nil
	}
	// awaitIdle returns once the goroutine of the real watchBackend is parked in its select, i.e. the table
	// loop has finished processing every event it has received so far.
	awaitIdle := func() error {
		deadline := time.Now().Add(patience)
		pause := 50 * time.Microsecond
		for {
			line, err := ask("idle")
			if err != nil {
				return err
			}
			switch strings.TrimSpace(string(line)) {
			case "true":
				return nil
			case "false":
			default:
				return fmt.Errorf("fabio child does not answer 'idle' (%q): /repo lacks the hook of commit 4a841d0", line)
			}
			if time.Now().After(deadline) {
				return errors.New("table loop did not become idle")
			}
			time.Sleep(pause)
			if pause < 5*time.Millisecond {
				pause *= 2
			}
		}
	}
	// settle: both watchers have handed over what they computed from the current registry state (reg.quiesce)
	// and the table loop has processed it (awaitIdle). The table read after settle is the table of a
	// well-defined point of the history.
	settle := func(what string) error {
		if !reg.quiesce(patience) {
			return errors.New("watchers did not pick up " + what)
		}
		return awaitIdle()
	}
	dump := func() (interface{}, error) {
		line, err := ask("dump")
		if err != nil {
			return nil, err
		}
		var table interface{}
		if err := json.Unmarshal(line, &table); err != nil {
			return nil, err
		}
		return table, nil
	}
	// ---- a busy table loop (history ops "hold" / "release") ----
	// "hold" arms a gate in front of the real backend's Register in the child: the next event that changes the
	// configuration text keeps the real watchBackend inside that iteration (between taking the event and
	// building the table) until "release". The registry changes applied meanwhile are observed by the watchers
	// while the table loop is NOT waiting in its select - the situation of two changes in quick succession or of
	// a slow table build / alias registration. All waits are event based: the loop is held (child), each watcher
	// has either come back for more or is blocked handing over what it computed from the current state.
	type loopState struct {
		Loop    string `json:"loop"`
		Sending int    `json:"sending"`
	}
	state := func() (loopState, error) {
		var st loopState
		line, err := ask("state")
		if err != nil {
			return st, err
		}
		if err := json.Unmarshal(line, &st); err != nil || st.Loop == "" {
			return st, fmt.Errorf("fabio child does not answer 'state' (%q): /repo lacks the gate hook of verif_c01_main.go", line)
		}
		return st, nil
	}
	poll := func(what string, done func() (bool, error)) error {
		deadline := time.Now().Add(patience)
		pause := 50 * time.Microsecond
		for {
			ok, err := done()
			if err != nil || ok {
				return err
			}
			if time.Now().After(deadline) {
				return errors.New(what)
			}
			time.Sleep(pause)
			if pause < 5*time.Millisecond {
				pause *= 2
			}
		}
	}
	armed, engage, holds := false, false, 0
	// after the first registry change behind an armed gate: wait until the gate has caught the table loop, or
	// until the change has gone through without a new text (then the gate stays armed for the next change)
	awaitEngaged := func() error {
		return poll("table loop neither held nor idle after a change behind the gate", func() (bool, error) {
			settled := reg.quiescedNow()
			st, err := state()
			if err != nil {
				return false, err
			}
			return st.Loop == "held" || (settled && st.Loop == "idle"), nil
		})
	}
	release := func() error {
		if !armed {
			return nil
		}
		armed, engage = false, false
		wasHeld := false
		err := poll("watchers neither came back nor block on the held table loop", func() (bool, error) {
			st, err := state()
			if err != nil {
				return false, err
			}
			if st.Loop != "held" {
				return true, nil // the gate caught nothing: nothing to wait for
			}
			wasHeld = true
			return st.Sending >= reg.pendingWatchers(), nil
		})
		if err != nil {
			return err
		}
		if wasHeld {
			holds++
		}
		_, err = ask("release")
		return err
	}
	// observations: at every sync point the watchers have seen the current registry state and the table loop
	// has processed what they sent; the table installed then is shipped with that state (soundness is demanded
	// of every one of them, faults or not)
	obs := []pipeObs{}
	for _, o := range in.Ops {
		if o.Op == "hold" {
			if !armed {
				if _, err := ask("hold"); err != nil {
					return nil, err
				}
				armed, engage = true, true
			}
			continue
		}
		if o.Op == "release" {
			if err := release(); err != nil {
				return nil, err
			}
			continue
		}
		if o.Op == "sync" {
			if err := release(); err != nil {
				return nil, err
			}
			if err := settle("the state (sync)"); err != nil {
				return nil, err
			}
			if len(obs) < 8 {
				table, err := dump()
				if err != nil {
					return nil, err
				}
				snap := reg.snapshot()
				obs = append(obs, pipeObs{Table: table, Registry: snap, Oracle: oracleFor(snap, in.Cfg.Prefix)})
			}
			continue
		}
		reg.apply(o)
		if engage && changesRegistry(o.Op) {
			engage = false
			if err := awaitEngaged(); err != nil {
				return nil, err
			}
		}
	}
	if err := release(); err != nil {
		return nil, err
	}
	// the faults stop; the final state is delivered; if the configuration delivered last was built while a
	// catalog lookup failed, one more health change (index only) makes the monitor look again
	reg.stopFaults()
	if err := settle("the final state"); err != nil {
		return nil, err
	}
	if !reg.lastRoundClean() {
		table, err := dump()
		if err != nil {
			return nil, err
		}
		snap := reg.snapshot()
		if len(obs) < 9 {
			obs = append(obs, pipeObs{Table: table, Registry: snap, Oracle: oracleFor(snap, in.Cfg.Prefix)})
		}
		reg.touchHealth()
		if err := settle("the final state after the faults stopped"); err != nil {
			return nil, err
		}
	} else if err := awaitIdle(); err != nil {
		// "clean" is learnt when the monitor comes back after handing over a text built without a failing lookup:
		// the table loop has taken that text but may still be building its table (in polling mode, or after a
		// blocking query timed out, this happens at any moment) - wait until it is parked again before looking
		return nil, err
	}
	table, err := dump()
	if err != nil {
		return nil, err
	}
	snap := reg.snapshot()
	reg.mu.Lock()
	faults, jumps := reg.faultsSeen, reg.hJumps+reg.kvJumps
	reg.mu.Unlock()
	return pipeOut{Table: table, Registry: snap, Oracle: oracleFor(snap, in.Cfg.Prefix), Obs: obs, Faults: faults, Jumps: jumps, Holds: holds}, nil
}

func changesRegistry(op string) bool {
	switch op {
	case "reg", "dereg", "status", "serf", "nodemaint", "svcmaint", "kv":
		return true
	}
	return false
}

// ---- generators ----

var (
	uNodes    = []string{"n1", "n1", "n1.x", "n1.x", "n2"}
	uIDs      = []string{"y", "x.y", "a", "x.a", "y"}
	uNames    = []string{"s", "s", "t"}
	uRouteTag = []string{"/a", "/b", "/a/b", "foo.com/", "Foo.com/x", ":1234 proto=tcp", "/s strip=/s", "bar.com/ proto=https",
		"/r register=alias1", "old.com/ redirect=301,https://new.com/", "/g proto=grpc register=alias2"}
	// registry.consul.register.addr of the child: the default (its outcome depends on the machine), a usable
	// one, and two with which every alias registration fails
	uSvcAddr  = []string{":9998", "127.0.0.1:9998", "localhost", ""}
	uPlainTag = []string{"v1", "blue"}
	uStatus   = []string{"passing", "passing", "passing", "warning", "critical", "maintenance"}
	uAccept   = [][]string{{"passing"}, {"passing"}, {"passing", "warning"}, {"passing", "unknown"}}
)

func genCfg(r *hx.Rand) pipeCfg {
	c := pipeCfg{Prefix: "urlprefix-", Status: uAccept[r.Intn(len(uAccept))], Strict: r.Chance(1, 2), Monitors: r.Intn(3)}
	if r.Chance(1, 6) {
		c.PollMS = 2
	}
	if r.Chance(1, 8) {
		c.Prefix = "fab-"
	}
	c.SvcAddr = r.Pick(uSvcAddr)
	return c
}

func genTags(r *hx.Rand, prefix string) []string {
	var ts []string
	if r.Chance(5, 6) {
		ts = append(ts, prefix+r.Pick(uRouteTag))
		for r.Chance(1, 3) && len(ts) < 4 {
			ts = append(ts, prefix+r.Pick(uRouteTag))
		}
	}
	for r.Chance(1, 3) {
		ts = append(ts, r.Pick(uPlainTag))
	}
	return ts
}

func genReg(r *hx.Rand, prefix string) Op {
	o := Op{Op: "reg", Node: r.Pick(uNodes), ID: r.Pick(uIDs), Name: r.Pick(uNames), Port: 8000 + r.Intn(3), Tags: genTags(r, prefix)}
	if r.Chance(1, 3) {
		o.SAddr = "10.1.0." + strconv.Itoa(1+r.Intn(3))
	}
	n := 1
	if r.Chance(1, 3) {
		n = 2
	}
	if r.Chance(1, 12) {
		n = 0
	}
	for k := 0; k < n; k++ {
		o.Checks = append(o.Checks, chk{ID: "service:" + o.ID + ":" + strconv.Itoa(k+1), Status: r.Pick(uStatus)})
	}
	return o
}

func genKV(r *hx.Rand, have []Op) Op {
	o := Op{Op: "kv", Key: r.Pick([]string{"a", "b"})}
	if r.Chance(1, 2) {
		o.Pad = r.Intn(len(kvPre) * len(kvPost))
	}
	if r.Chance(1, 6) {
		return o // delete the key
	}
	n := 1 + r.Intn(2)
	for k := 0; k < n; k++ {
		var d rt.Def
		switch r.Intn(6) {
		case 0, 1, 2:
			d = rt.Def{Cmd: "add", Service: r.Pick([]string{"static", "s", "t"}), Src: r.Pick([]string{"/a", "/static", "foo.com/", "/a/b"}),
				Dst: r.Pick([]string{"http://10.9.9.9:80/", "http://10.9.9.8:81/"}), WText: r.Pick([]string{"", "", "0.25"})}
		case 3:
			d = rt.Def{Cmd: "del", Service: r.Pick(uNames)}
		case 4:
			d = rt.Def{Cmd: "del", Service: r.Pick(uNames), Src: r.Pick([]string{"/a", "/b", "foo.com/"})}
		default:
			d = rt.Def{Cmd: "del", Tags: []string{r.Pick(uPlainTag)}}
		}
		d.Fill()
		o.Defs = append(o.Defs, d)
	}
	return o
}

// faultBlock: two healthy tagged instances of one service, the watchers catch up, then the catalog lookup of
// that service fails while one of them turns unhealthy, and the state is observed again.
func faultBlock(r *hx.Rand, prefix string) []Op {
	name := r.Pick(uNames)
	a := Op{Op: "reg", Node: "n1", ID: r.Pick([]string{"a", "y"}), Name: name, Port: 8000, Tags: []string{prefix + r.Pick([]string{"/a", "/b", "foo.com/"})},
		Checks: []chk{{ID: "service:1", Status: "passing"}}}
	b := Op{Op: "reg", Node: "n2", ID: r.Pick([]string{"a", "x.y"}), Name: name, Port: 8001, Tags: a.Tags,
		Checks: []chk{{ID: "service:1", Status: "passing"}}}
	ops := []Op{a, b, {Op: "sync"}, {Op: "catfail", Name: name, N: 1 + r.Intn(2)}}
	switch r.Intn(4) {
	case 0:
		ops = append(ops, Op{Op: "status", Node: b.Node, ID: b.ID, Check: "service:1", Status: "critical"})
	case 1:
		ops = append(ops, Op{Op: "serf", Node: b.Node, Status: "critical"})
	case 2:
		ops = append(ops, Op{Op: "svcmaint", Node: b.Node, ID: b.ID, On: true})
	default:
		ops = append(ops, Op{Op: "nodemaint", Node: b.Node, On: true})
	}
	return append(ops, Op{Op: "sync"})
}

// kvJumpBlock: an operator override is applied, the KV index goes backwards, the override is edited again.
func kvJumpBlock(r *hx.Rand) []Op {
	mk := func(dst string) []rt.Def {
		d := rt.Def{Cmd: "add", Service: "static", Src: r.Pick([]string{"/static", "/a"}), Dst: dst}
		d.Fill()
		return []rt.Def{d}
	}
	ops := []Op{{Op: "kv", Key: "a", Defs: mk("http://10.9.9.9:80/")}}
	if r.Chance(2, 3) {
		ops = append(ops, Op{Op: "sync"})
	}
	ops = append(ops, Op{Op: "kvjump"})
	if r.Chance(1, 3) {
		ops = append(ops, Op{Op: "sync"})
	}
	if r.Chance(1, 4) {
		ops = append(ops, Op{Op: "kv", Key: "a"}) // the override is deleted
	} else {
		ops = append(ops, Op{Op: "kv", Key: "a", Defs: mk("http://10.9.9.8:81/")})
	}
	return ops
}

// busyBlock: two healthy tagged instances, the watchers catch up; then the table loop is kept busy inside the
// iteration of a change that alters the text (an operator edit or a new instance) while one of the two turns
// unhealthy - the monitor observes that state while the table loop is not waiting in its select - and is let go.
func busyBlock(r *hx.Rand, prefix string) []Op {
	name := r.Pick(uNames)
	a := Op{Op: "reg", Node: "n1", ID: r.Pick([]string{"a", "y"}), Name: name, Port: 8000, Tags: []string{prefix + r.Pick([]string{"/a", "/b", "foo.com/"})},
		Checks: []chk{{ID: "service:1", Status: "passing"}}}
	b := Op{Op: "reg", Node: "n2", ID: r.Pick([]string{"a", "x.y"}), Name: name, Port: 8001, Tags: a.Tags,
		Checks: []chk{{ID: "service:1", Status: "passing"}}}
	ops := []Op{a, b, {Op: "sync"}, {Op: "hold"}}
	if r.Chance(1, 2) {
		d := rt.Def{Cmd: "add", Service: "busy", Src: "/busy", Dst: r.Pick([]string{"http://10.9.9.7:82/", "http://10.9.9.6:83/"})}
		d.Fill()
		ops = append(ops, Op{Op: "kv", Key: "b", Defs: []rt.Def{d}})
	} else {
		ops = append(ops, Op{Op: "reg", Node: "n1.x", ID: "busy", Name: "t", Port: 8002, Tags: []string{prefix + "/busy"},
			Checks: []chk{{ID: "service:1", Status: "passing"}}})
	}
	switch r.Intn(4) {
	case 0:
		ops = append(ops, Op{Op: "status", Node: b.Node, ID: b.ID, Check: "service:1", Status: "critical"})
	case 1:
		ops = append(ops, Op{Op: "serf", Node: b.Node, Status: "critical"})
	case 2:
		ops = append(ops, Op{Op: "svcmaint", Node: b.Node, ID: b.ID, On: true})
	default:
		ops = append(ops, Op{Op: "nodemaint", Node: b.Node, On: true})
	}
	if r.Chance(1, 3) {
		ops = append(ops, Op{Op: "release"})
	}
	return append(ops, Op{Op: "sync"})
}

func genHistory(r *hx.Rand, i int) interface{} {
	in := pipeIn{Cfg: genCfg(r)}
	var regs []Op
	n := 3 + r.Intn(10)
	faulty := r.Chance(1, 3) // histories with scripted faults and index anomalies
	blockAt := -1
	if faulty {
		blockAt = r.Intn(n)
	}
	busyAt := -1 // histories in which a change is observed while the table loop is busy
	if r.Chance(1, 4) {
		busyAt = r.Intn(n)
	}
	for k := 0; k < n; k++ {
		if k == busyAt {
			blk := busyBlock(r, in.Cfg.Prefix)
			for _, o := range blk {
				if o.Op == "reg" {
					regs = append(regs, o)
				}
			}
			in.Ops = append(in.Ops, blk...)
			if k != blockAt {
				continue
			}
		}
		if k == blockAt {
			var blk []Op
			if r.Chance(1, 2) {
				blk = faultBlock(r, in.Cfg.Prefix)
			} else {
				blk = kvJumpBlock(r)
			}
			for _, o := range blk {
				if o.Op == "reg" {
					regs = append(regs, o)
				}
			}
			in.Ops = append(in.Ops, blk...)
			continue
		}
		var o Op
		x := r.Intn(20)
		if faulty && r.Chance(1, 6) {
			x = 20 + r.Intn(8)
		}
		pick := func() (Op, bool) {
			if len(regs) == 0 {
				return Op{}, false
			}
			return regs[r.Intn(len(regs))], true
		}
		switch {
		case x >= 20 && x < 24:
			o = Op{Op: "catfail", Name: r.Pick(uNames), N: 1 + r.Intn(3)}
		case x == 24:
			o = Op{Op: "healthfail"}
		case x == 25 || x == 26:
			o = Op{Op: "kvjump"}
		case x == 27:
			o = Op{Op: "hjump"}
		case x < 8 || len(regs) == 0:
			o = genReg(r, in.Cfg.Prefix)
			regs = append(regs, o)
		case x < 11:
			h, _ := pick()
			o = Op{Op: "status", Node: h.Node, ID: h.ID, Status: r.Pick(uStatus)}
			if len(h.Checks) > 0 {
				o.Check = h.Checks[r.Intn(len(h.Checks))].ID
			}
		case x < 13:
			o = Op{Op: "serf", Node: r.Pick(uNodes), Status: r.Pick([]string{"critical", "critical", "passing"})}
		case x < 14:
			o = Op{Op: "nodemaint", Node: r.Pick(uNodes), On: r.Chance(2, 3), Status: r.Pick([]string{"critical", "critical", "passing"})}
		case x < 16:
			h, _ := pick()
			o = Op{Op: "svcmaint", Node: h.Node, ID: h.ID, On: r.Chance(2, 3)}
		case x < 17:
			h, _ := pick()
			o = Op{Op: "dereg", Node: h.Node, ID: h.ID}
		case x < 19:
			o = genKV(r, regs)
		default:
			o = Op{Op: "sync"}
		}
		if r.Chance(1, 12) {
			in.Ops = append(in.Ops, Op{Op: "hold"}) // the change that follows keeps the table loop busy
		}
		in.Ops = append(in.Ops, o)
		if r.Chance(1, 12) {
			in.Ops = append(in.Ops, Op{Op: "release"})
		}
		if r.Chance(1, 5) {
			in.Ops = append(in.Ops, Op{Op: "sync"})
		}
	}
	return in
}

// the failing input of D01 (DESIGN.md §8): the critical instance (n1.x, y) shares the dotted key of the
// passing instance (n1, x.y)
var d01History = pipeIn{
	Cfg: pipeCfg{Prefix: "urlprefix-", Status: []string{"passing"}},
	Ops: []Op{
		{Op: "reg", Node: "n1", ID: "x.y", Name: "s", Port: 8000, Tags: []string{"urlprefix-/a"}, Checks: []chk{{ID: "service:x.y", Status: "passing"}}},
		{Op: "reg", Node: "n1.x", ID: "y", Name: "s", Port: 8001, Tags: []string{"urlprefix-/a"}, Checks: []chk{{ID: "service:y", Status: "critical"}}},
	},
}

// ---- c01.join ----

type joinIn struct {
	Cfg     pipeCfg  `json:"cfg"`
	Passing []CheckJ `json:"passing"`
	Catalog []InstJ  `json:"catalog"`
}

// One fake Consul server and one HTTP client with keep-alive connections per harness process: the cases of
// c01.join reuse a handful of connections instead of costing a listener and an ephemeral port each (200 000 cases
// in the thorough tier, next to whatever else the machine runs).
var (
	joinOnce sync.Once
	joinSrv  *httptest.Server
	joinCur  atomic.Value // *registryState of the case being run
	joinHC   *http.Client
)

func joinServer() (*httptest.Server, *http.Client) {
	joinOnce.Do(func() {
		joinSrv = httptest.NewServer(http.HandlerFunc(func(w http.ResponseWriter, req *http.Request) {
			if reg, ok := joinCur.Load().(*registryState); ok && reg != nil {
				reg.ServeHTTP(w, req)
				return
			}
			http.Error(w, "no case", http.StatusServiceUnavailable)
		}))
		joinHC = &http.Client{Transport: &http.Transport{MaxIdleConns: 64, MaxIdleConnsPerHost: 32, IdleConnTimeout: 5 * time.Minute}}
	})
	return joinSrv, joinHC
}

func runJoin(raw json.RawMessage) (interface{}, error) {
	var in joinIn
	if err := json.Unmarshal(raw, &in); err != nil {
		return nil, err
	}
	// the catalog lookups this case needs: makeConfig asks once per distinct non-empty service name of the passing
	// checks. A lookup that does not reach the harness's own server (connect error, no ephemeral port, a reset
	// under load) makes serviceConfig log the error and return nothing - correct behaviour of fabio for a failing
	// Consul, and no observation of the join. Such a case is run again after a pause; if the server is still not
	// reached it is reported as a harness error, never judged. (A Consul that *answers* an error is a scenario of
	// c01.pipeline's fault classes, not of this stream.)
	names := map[string]bool{}
	for _, c := range in.Passing {
		if c.Name != "" {
			names[c.Name] = true
		}
	}
	var lastServed int
	for attempt, pause := 0, 50*time.Millisecond; attempt < 5; attempt, pause = attempt+1, pause*4 {
		if attempt > 0 {
			time.Sleep(pause)
		}
		out, served, err := runJoinOnce(in)
		if err != nil {
			return nil, err
		}
		if served >= len(names) {
			return out, nil
		}
		lastServed = served
	}
	return nil, fmt.Errorf("environment: the fake Consul served %d of the %d catalog lookups this case needs (transport failure between the real client and the harness's server)", lastServed, len(names))
}

func runJoinOnce(in joinIn) (interface{}, int, error) {
	reg := newRegistry(kvPath)
	for _, c := range in.Catalog {
		n := reg.node(c.Node)
		if c.Addr != "" {
			n.Addr = c.Addr
		}
		reg.insts = append(reg.insts, &inst{Node: c.Node, ID: c.SID, Name: c.Name, SAddr: c.SAddr, Port: c.Port, Tags: c.Tags})
	}
	srv, hc := joinServer()
	joinCur.Store(reg)
	defer reg.close()
	cc := &config.Consul{Addr: strings.TrimPrefix(srv.URL, "http://"), Scheme: "http", TagPrefix: in.Cfg.Prefix, ServiceMonitors: in.Cfg.Monitors}
	var passing []*api.HealthCheck
	for _, c := range in.Passing {
		passing = append(passing, &api.HealthCheck{Node: c.Node, CheckID: c.ID, ServiceID: c.SID, ServiceName: c.Name, Status: c.Status, ServiceTags: c.Tags})
	}
	text, err := consul.VerifMakeConfigClient(cc, "dc1", passing, hc)
	if err != nil {
		return nil, 0, err
	}
	lines := []string{}
	if text != "" {
		lines = strings.Split(text, "\n")
	}
	snap := reg.snapshot()
	reg.mu.Lock()
	served := reg.catServed
	reg.mu.Unlock()
	return map[string]interface{}{"lines": lines, "catalog": snap.Catalog}, served, nil
}

func genJoin(r *hx.Rand, i int) interface{} {
	in := joinIn{Cfg: pipeCfg{Prefix: "urlprefix-", Monitors: r.Intn(3)}}
	seen := map[string]bool{}
	n := 1 + r.Intn(6)
	for k := 0; k < n; k++ {
		c := InstJ{Node: r.Pick(uNodes), SID: r.Pick(uIDs), Name: r.Pick(uNames), Port: 8000 + r.Intn(3), Tags: genTags(r, in.Cfg.Prefix)}
		if seen[c.Node+"\x00"+c.SID] {
			continue
		}
		seen[c.Node+"\x00"+c.SID] = true
		in.Catalog = append(in.Catalog, c)
		if r.Chance(3, 5) {
			in.Passing = append(in.Passing, CheckJ{Node: c.Node, ID: "service:" + c.SID, SID: c.SID, Name: c.Name, Status: "passing", Tags: c.Tags})
		}
	}
	if r.Chance(1, 4) { // a passing check whose instance is not in the catalog (any more)
		in.Passing = append(in.Passing, CheckJ{Node: r.Pick(uNodes), ID: "service:z", SID: r.Pick(uIDs), Name: r.Pick(uNames), Status: "passing"})
	}
	return in
}

// a health flip whose catalog lookup fails: the unhealthy instance must be gone from the table observed next
var catalogFaultHistory = pipeIn{
	Cfg: pipeCfg{Prefix: "urlprefix-", Status: []string{"passing"}},
	Ops: []Op{
		{Op: "reg", Node: "n1", ID: "web-1", Name: "web", Port: 8001, Tags: []string{"urlprefix-/web"}, Checks: []chk{{ID: "service:web-1", Status: "passing"}}},
		{Op: "reg", Node: "n2", ID: "web-2", Name: "web", Port: 8002, Tags: []string{"urlprefix-/web"}, Checks: []chk{{ID: "service:web-2", Status: "passing"}}},
		{Op: "sync"},
		{Op: "catfail", Name: "web", N: 1},
		{Op: "status", Node: "n2", ID: "web-2", Check: "service:web-2", Status: "critical"},
		{Op: "sync"},
	},
}

// the KV index goes backwards (snapshot restore) between two edits of an operator override
var kvIndexBackHistory = pipeIn{
	Cfg: pipeCfg{Prefix: "urlprefix-", Status: []string{"passing"}},
	Ops: []Op{
		{Op: "reg", Node: "n1", ID: "web-1", Name: "web", Port: 8001, Tags: []string{"urlprefix-/web"}, Checks: []chk{{ID: "service:web-1", Status: "passing"}}},
		{Op: "kv", Key: "a", Defs: []rt.Def{{Cmd: "del", Service: "web"}}},
		{Op: "sync"},
		{Op: "kvjump"},
		{Op: "kv", Key: "a", Defs: []rt.Def{{Cmd: "add", Service: "static", Src: "/static", Dst: "http://10.9.9.9:80/"}}},
	},
}

// the health index goes backwards, a health query fails once, then an instance turns critical
var healthAnomalyHistory = pipeIn{
	Cfg: pipeCfg{Prefix: "urlprefix-", Status: []string{"passing"}, Strict: true},
	Ops: []Op{
		{Op: "reg", Node: "n1", ID: "web-1", Name: "web", Port: 8001, Tags: []string{"urlprefix-/web"}, Checks: []chk{{ID: "service:web-1", Status: "passing"}}},
		{Op: "sync"},
		{Op: "hjump"},
		{Op: "healthfail"},
		{Op: "status", Node: "n1", ID: "web-1", Check: "service:web-1", Status: "critical"},
	},
}

// an instance turns critical while the table loop is busy with an operator edit (the state is observed while
// watchBackend is not waiting in its select); it must be gone from the table observed next
var busyLoopHistory = pipeIn{
	Cfg: pipeCfg{Prefix: "urlprefix-", Status: []string{"passing"}, SvcAddr: "127.0.0.1:9998"},
	Ops: []Op{
		{Op: "reg", Node: "n1", ID: "web-1", Name: "web", Port: 8001, Tags: []string{"urlprefix-/web"}, Checks: []chk{{ID: "service:web-1", Status: "passing"}}},
		{Op: "reg", Node: "n2", ID: "web-2", Name: "web", Port: 8002, Tags: []string{"urlprefix-/web"}, Checks: []chk{{ID: "service:web-2", Status: "passing"}}},
		{Op: "sync"},
		{Op: "hold"},
		{Op: "kv", Key: "a", Defs: []rt.Def{{Cmd: "add", Service: "static", Src: "/static", Dst: "http://10.9.9.9:80/"}}},
		{Op: "status", Node: "n2", ID: "web-2", Check: "service:web-2", Status: "critical"},
		{Op: "release"},
		{Op: "sync"},
	},
}

// a route asks for an alias (register=www) that cannot be registered (register.addr without a port); the table
// must follow the registry all the same: the operator route appears, the critical instance disappears
var aliasFailsHistory = pipeIn{
	Cfg: pipeCfg{Prefix: "urlprefix-", Status: []string{"passing"}, SvcAddr: "localhost"},
	Ops: []Op{
		{Op: "reg", Node: "n1", ID: "web-1", Name: "web", Port: 8001, Tags: []string{"urlprefix-/web"}, Checks: []chk{{ID: "service:web-1", Status: "passing"}}},
		{Op: "reg", Node: "n2", ID: "web-2", Name: "web", Port: 8002, Tags: []string{"urlprefix-/web"}, Checks: []chk{{ID: "service:web-2", Status: "passing"}}},
		{Op: "sync"},
		{Op: "kv", Key: "a", Defs: []rt.Def{{Cmd: "add", Service: "www", Src: "www.example.com/", Dst: "http://10.0.0.9:80/", Opts: [][]string{{"register", "www"}}}}},
		{Op: "sync"},
		{Op: "status", Node: "n2", ID: "web-2", Check: "service:web-2", Status: "critical"},
		{Op: "sync"},
	},
}

// one instance, two routing tags, the first with an option that changes the destination: every tag gets the
// destination of its own options
var tagOrderHistory = pipeIn{
	Cfg: pipeCfg{Prefix: "urlprefix-", Status: []string{"passing"}},
	Ops: []Op{
		{Op: "reg", Node: "n1", ID: "web-1", Name: "web", Port: 8001, Tags: []string{"urlprefix-old.com/ redirect=301,https://new.com/", "urlprefix-new.com/"}, Checks: []chk{{ID: "service:web-1", Status: "passing"}}},
		{Op: "reg", Node: "n2", ID: "web-2", Name: "web", Port: 8002, Tags: []string{"urlprefix-:1234 proto=tcp", "urlprefix-/web", "urlprefix-/g proto=grpc"}, Checks: []chk{{ID: "service:web-2", Status: "passing"}}},
	},
}

func init() {
	hx.Register(&hx.Stream{
		Name:   "c01.pipeline",
		Corpus: []interface{}{d01History, catalogFaultHistory, kvIndexBackHistory, healthAnomalyHistory, busyLoopHistory, aliasFailsHistory, tagOrderHistory},
		Gen:    genHistory,
		Run:    runPipeline,
	})
	hx.Register(&hx.Stream{
		Name: "c01.join",
		Corpus: []interface{}{joinIn{Cfg: pipeCfg{Prefix: "urlprefix-"},
			Passing: []CheckJ{{Node: "n1", ID: "service:x.y", SID: "x.y", Name: "s", Status: "passing"}},
			Catalog: []InstJ{{Node: "n1", SID: "x.y", Name: "s", Port: 8000, Tags: []string{"urlprefix-/a"}}, {Node: "n1.x", SID: "y", Name: "s", Port: 8001, Tags: []string{"urlprefix-/a"}}}}},
		Gen: genJoin,
		Run: runJoin,
	})
}
