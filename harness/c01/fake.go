package main

// A fake of the part of Consul's HTTP API that fabio's consul backend uses, with blocking-query semantics:
// a request carrying index=N is held until the index of the resource differs from N or a short wait elapses.
// The registry behind it is a small state machine driven by the history of a test case. The fake never
// answers with an error (a failing query is a fault sequence outside property C01).

import (
	"encoding/base64"
	"encoding/json"
	"net/http"
	"net/http/httptest"
	"sort"
	"strconv"
	"strings"
	"sync"
	"time"

	"verif/harness/rt"
)

type chk struct {
	ID     string `json:"id"`
	Status string `json:"status"`
}

type inst struct {
	Node   string   `json:"node"`
	ID     string   `json:"sid"`
	Name   string   `json:"name"`
	SAddr  string   `json:"saddr"`
	Port   int      `json:"port"`
	Tags   []string `json:"tags"`
	Checks []chk    `json:"checks"`
	Maint  bool     `json:"maint"`
}

type node struct {
	Name  string
	Addr  string
	Serf  string // status of the serfHealth check; "" = the node has no serfHealth check
	Maint string // status of the _node_maintenance check; "" = none
}

// Op is one step of a registry history.
type Op struct {
	Op     string   `json:"op"` // reg dereg status serf nodemaint svcmaint kv sync | faults: catfail healthfail kvjump hjump | busy table loop: hold release
	Node   string   `json:"node,omitempty"`
	ID     string   `json:"sid,omitempty"`
	Name   string   `json:"name,omitempty"`
	SAddr  string   `json:"saddr,omitempty"`
	Port   int      `json:"port,omitempty"`
	Tags   []string `json:"tags,omitempty"`
	Checks []chk    `json:"checks,omitempty"`
	Check  string   `json:"check,omitempty"`
	Status string   `json:"status,omitempty"`
	On     bool     `json:"on,omitempty"`
	Key    string   `json:"key,omitempty"`
	Defs   []rt.Def `json:"defs,omitempty"`
	N      int      `json:"n,omitempty"`   // catfail: number of failing lookups
	Pad    int      `json:"pad,omitempty"` // kv: white space / comment lines around the commands of the value (kvPads)
}

// white space, empty lines, comment lines and CRs an operator's KV value may carry around its commands
var (
	kvPre  = []string{"", "\n", "  ", "# note\n", "\n\n\t", "// x\n  "}
	kvPost = []string{"", "\n", " \n\n", "\r\n", "\n# end", "\t"}
)

func kvRawValue(ds []rt.Def, pad int) string {
	if pad < 0 {
		pad = -pad
	}
	return kvPre[pad%len(kvPre)] + rt.Text(ds) + kvPost[(pad/len(kvPre))%len(kvPost)]
}

// CheckJ / InstJ are the canonical forms shipped to the Lean side.
type CheckJ struct {
	Node   string   `json:"node"`
	ID     string   `json:"id"`
	SID    string   `json:"sid"`
	Name   string   `json:"name"`
	Status string   `json:"status"`
	Tags   []string `json:"tags"`
}

type InstJ struct {
	Node  string   `json:"node"`
	Addr  string   `json:"addr"`
	SID   string   `json:"sid"`
	Name  string   `json:"name"`
	SAddr string   `json:"saddr"`
	Port  int      `json:"port"`
	Tags  []string `json:"tags"`
}

type registryState struct {
	mu    sync.Mutex
	cond  *sync.Cond
	nodes []*node
	insts []*inst
	kv    map[string][]rt.Def
	kvRaw map[string]string // the value as stored (commands of kv[k] with padding around them)

	hIndex, kvIndex         uint64 // current index of the health/catalog state and of the KV tree
	hServed, kvServed       uint64 // index of the snapshot in the last answer to the watcher
	hDelivered, kvDelivered uint64 // hServed/kvServed at the moment the watcher came back for more
	kvPath                  string
	wait                    time.Duration
	closed                  bool

	// scripted faults and index anomalies
	catFail        map[string]int // service name -> number of catalog lookups that still answer 500
	healthFail     int            // number of health queries that still answer 500
	hJumps         int            // how often the health index went backwards
	kvJumps        int
	failSinceServe bool // a catalog lookup failed since the last health answer was served
	roundClean     bool // the configuration the service watcher delivered last was built without a failed lookup
	faultsSeen     int  // number of injected 500 answers so far
	catServed      int  // catalog lookups answered (200) so far
}

func newRegistry(kvPath string) *registryState {
	// indexes start high so that a backwards jump ("snapshot restore") has room below them
	r := &registryState{kv: map[string][]rt.Def{}, kvRaw: map[string]string{}, catFail: map[string]int{}, hIndex: 1000, kvIndex: 1000, kvPath: strings.Trim(kvPath, "/"), wait: 100 * time.Millisecond, roundClean: true}
	r.cond = sync.NewCond(&r.mu)
	return r
}

func (r *registryState) node(name string) *node {
	for _, n := range r.nodes {
		if n.Name == name {
			return n
		}
	}
	n := &node{Name: name, Addr: "10.0.0." + strconv.Itoa(len(r.nodes)+1), Serf: "passing"}
	r.nodes = append(r.nodes, n)
	return n
}

func (r *registryState) inst(nodeName, id string) *inst {
	for _, i := range r.insts {
		if i.Node == nodeName && i.ID == id {
			return i
		}
	}
	return nil
}

// apply performs one registry change (anything but "sync"); unknown or ill-formed ops are ignored.
func (r *registryState) apply(o Op) {
	r.mu.Lock()
	defer r.mu.Unlock()
	switch o.Op {
	case "reg":
		if o.Node == "" {
			return
		}
		r.node(o.Node)
		i := r.inst(o.Node, o.ID)
		if i == nil {
			i = &inst{Node: o.Node, ID: o.ID}
			r.insts = append(r.insts, i)
		}
		i.Name, i.SAddr, i.Port, i.Maint = o.Name, o.SAddr, o.Port, false
		i.Tags = append([]string{}, o.Tags...)
		i.Checks = append([]chk{}, o.Checks...)
		r.hIndex++
	case "dereg":
		for k, i := range r.insts {
			if i.Node == o.Node && i.ID == o.ID {
				r.insts = append(r.insts[:k:k], r.insts[k+1:]...)
				r.hIndex++
				break
			}
		}
	case "status":
		if i := r.inst(o.Node, o.ID); i != nil {
			for k := range i.Checks {
				if i.Checks[k].ID == o.Check {
					i.Checks[k].Status = o.Status
				}
			}
			r.hIndex++
		}
	case "serf":
		if o.Node == "" {
			return
		}
		r.node(o.Node).Serf = o.Status
		r.hIndex++
	case "nodemaint":
		if o.Node == "" {
			return
		}
		n := r.node(o.Node)
		if o.On {
			n.Maint = o.Status
			if n.Maint == "" {
				n.Maint = "critical"
			}
		} else {
			n.Maint = ""
		}
		r.hIndex++
	case "svcmaint":
		if i := r.inst(o.Node, o.ID); i != nil {
			i.Maint = o.On
			r.hIndex++
		}
	case "kv":
		if o.Key == "" {
			return
		}
		if len(o.Defs) == 0 {
			delete(r.kv, o.Key)
			delete(r.kvRaw, o.Key)
		} else {
			ds := append([]rt.Def{}, o.Defs...)
			for k := range ds {
				ds[k].Fill()
			}
			r.kv[o.Key] = ds
			r.kvRaw[o.Key] = kvRawValue(ds, o.Pad)
		}
		r.kvIndex++
	case "catfail":
		if o.Name == "" {
			return
		}
		n := o.N
		if n <= 0 {
			n = 1
		}
		if n > 5 {
			n = 5
		}
		r.catFail[o.Name] += n
	case "healthfail":
		if r.healthFail < 2 {
			r.healthFail++
		}
	case "kvjump":
		// the index of the KV tree goes backwards (snapshot restore) to a region never used before, then continues
		if r.kvJumps < 8 {
			r.kvJumps++
			r.kvIndex = uint64(100 * r.kvJumps)
		}
	case "hjump":
		if r.hJumps < 8 {
			r.hJumps++
			r.hIndex = uint64(100 * r.hJumps)
		}
	}
	r.cond.Broadcast()
}

// stopFaults ends the scripted catalog faults: from now on every catalog lookup is answered. (A scripted
// health-query failure that has not happened yet still happens once; the monitor retries after its pause.)
func (r *registryState) stopFaults() {
	r.mu.Lock()
	r.catFail = map[string]int{}
	r.mu.Unlock()
}

// touchHealth is a health change without content (the index moves, the state does not).
func (r *registryState) touchHealth() {
	r.mu.Lock()
	r.hIndex++
	r.cond.Broadcast()
	r.mu.Unlock()
}

// lastRoundClean (asked after stopFaults, when no further lookup can fail): the configuration the monitor handed
// over last was built without a failed lookup, and the round in flight - whose text may reach the table loop at
// any moment, in polling mode or after a blocking query timed out - has not had one either.
func (r *registryState) lastRoundClean() bool {
	r.mu.Lock()
	defer r.mu.Unlock()
	return r.roundClean && !r.failSinceServe
}

// checksLocked renders the health checks of the whole registry in the order /v1/health/state/any lists them.
func (r *registryState) checksLocked() []CheckJ {
	out := []CheckJ{}
	for _, n := range r.nodes {
		if n.Serf != "" {
			out = append(out, CheckJ{Node: n.Name, ID: "serfHealth", Status: n.Serf, Tags: []string{}})
		}
		if n.Maint != "" {
			out = append(out, CheckJ{Node: n.Name, ID: "_node_maintenance", Status: n.Maint, Tags: []string{}})
		}
		for _, i := range r.insts {
			if i.Node != n.Name {
				continue
			}
			tags := append([]string{}, i.Tags...)
			if i.Maint {
				out = append(out, CheckJ{Node: n.Name, ID: "_service_maintenance:" + i.ID, SID: i.ID, Name: i.Name, Status: "critical", Tags: tags})
			}
			for _, c := range i.Checks {
				out = append(out, CheckJ{Node: n.Name, ID: c.ID, SID: i.ID, Name: i.Name, Status: c.Status, Tags: tags})
			}
		}
	}
	return out
}

func (r *registryState) catalogLocked(name string, all bool) []InstJ {
	out := []InstJ{}
	for _, i := range r.insts {
		if all || i.Name == name {
			out = append(out, InstJ{Node: i.Node, Addr: r.node(i.Node).Addr, SID: i.ID, Name: i.Name, SAddr: i.SAddr, Port: i.Port, Tags: append([]string{}, i.Tags...)})
		}
	}
	return out
}

func (r *registryState) kvKeysLocked() []string {
	var ks []string
	for k := range r.kv {
		ks = append(ks, k)
	}
	sort.Strings(ks)
	return ks
}

// kvDefsLocked is the operator's command list in the order watchKV concatenates the keys.
func (r *registryState) kvDefsLocked() []rt.Def {
	out := []rt.Def{}
	for _, k := range r.kvKeysLocked() {
		out = append(out, r.kv[k]...)
	}
	return out
}

// kvTextLocked is the manual configuration text as watchKV/listKV assemble it from the KV pairs: per key a
// comment line naming the key and the trimmed value, the keys joined by an empty line.
func (r *registryState) kvTextLocked() string {
	var parts []string
	for _, k := range r.kvKeysLocked() {
		parts = append(parts, "# --- "+r.kvPath+"/"+k+"\n"+strings.TrimSpace(r.kvRaw[k]))
	}
	return strings.Join(parts, "\n\n")
}

// Snapshot is the final registry state shipped to the Lean side.
type Snapshot struct {
	Checks  []CheckJ `json:"checks"`
	Catalog []InstJ  `json:"catalog"`
	KV      []rt.Def `json:"kv"`
	KVText  string   `json:"kvtext"`
	// the KV pairs below the path as Consul lists them (sorted by key): full key, stored value
	KVPairs [][]string `json:"kvpairs"`
}

func (r *registryState) snapshot() Snapshot {
	r.mu.Lock()
	defer r.mu.Unlock()
	pairs := [][]string{}
	for _, k := range r.kvKeysLocked() {
		pairs = append(pairs, []string{r.kvPath + "/" + k, r.kvRaw[k]})
	}
	return Snapshot{Checks: r.checksLocked(), Catalog: r.catalogLocked("", true), KV: r.kvDefsLocked(), KVText: r.kvTextLocked(), KVPairs: pairs}
}

// ---- HTTP ----

func (r *registryState) header(w http.ResponseWriter, idx uint64) {
	w.Header().Set("Content-Type", "application/json")
	w.Header().Set("X-Consul-Index", strconv.FormatUint(idx, 10))
	w.Header().Set("X-Consul-LastContact", "0")
	w.Header().Set("X-Consul-KnownLeader", "true")
}

// block holds the request while *cur == the index the client has already seen.
func (r *registryState) blockLocked(req *http.Request, cur *uint64) {
	seen, err := strconv.ParseUint(req.URL.Query().Get("index"), 10, 64)
	if err != nil || seen == 0 {
		return
	}
	deadline := time.Now().Add(r.wait)
	timer := time.AfterFunc(r.wait, func() { r.mu.Lock(); r.cond.Broadcast(); r.mu.Unlock() })
	defer timer.Stop()
	for *cur == seen && !r.closed && time.Now().Before(deadline) {
		r.cond.Wait()
	}
}

func (r *registryState) ServeHTTP(w http.ResponseWriter, req *http.Request) {
	p := req.URL.Path
	switch {
	case p == "/v1/agent/self":
		w.Header().Set("Content-Type", "application/json")
		w.Write([]byte(`{"Config":{"Datacenter":"dc1","NodeName":"fake"}}`))
	case p == "/v1/health/state/any":
		r.mu.Lock()
		r.hDelivered = r.hServed
		r.roundClean = !r.failSinceServe
		r.cond.Broadcast()
		r.blockLocked(req, &r.hIndex)
		if r.healthFail > 0 {
			r.healthFail--
			r.faultsSeen++
			r.mu.Unlock()
			http.Error(w, "rpc error: No cluster leader", http.StatusInternalServerError)
			return
		}
		type hc struct {
			Node, CheckID, Name, Status, Notes, Output, ServiceID, ServiceName string
			ServiceTags                                                        []string
		}
		out := []hc{}
		for _, c := range r.checksLocked() {
			out = append(out, hc{Node: c.Node, CheckID: c.ID, Name: c.ID, Status: c.Status, ServiceID: c.SID, ServiceName: c.Name, ServiceTags: c.Tags})
		}
		idx := r.hIndex
		r.hServed = idx
		r.failSinceServe = false
		r.mu.Unlock()
		r.header(w, idx)
		json.NewEncoder(w).Encode(out)
	case strings.HasPrefix(p, "/v1/catalog/service/"):
		name := strings.TrimPrefix(p, "/v1/catalog/service/")
		r.mu.Lock()
		if r.catFail[name] > 0 {
			r.catFail[name]--
			r.failSinceServe = true
			r.faultsSeen++
			r.mu.Unlock()
			http.Error(w, "rpc error: No cluster leader", http.StatusInternalServerError)
			return
		}
		type cs struct {
			Node, Address, ServiceID, ServiceName, ServiceAddress string
			ServicePort                                           int
			ServiceTags                                           []string
		}
		out := []cs{}
		for _, i := range r.catalogLocked(name, false) {
			out = append(out, cs{Node: i.Node, Address: i.Addr, ServiceID: i.SID, ServiceName: i.Name, ServiceAddress: i.SAddr, ServicePort: i.Port, ServiceTags: i.Tags})
		}
		idx := r.hIndex
		r.catServed++
		r.mu.Unlock()
		r.header(w, idx)
		json.NewEncoder(w).Encode(out)
	case strings.HasPrefix(p, "/v1/kv/"):
		prefix := strings.TrimPrefix(p, "/v1/kv/")
		mine := strings.HasPrefix(prefix, r.kvPath)
		r.mu.Lock()
		if mine {
			r.kvDelivered = r.kvServed
			r.cond.Broadcast()
		}
		r.blockLocked(req, &r.kvIndex)
		type kvp struct {
			Key                      string
			CreateIndex, ModifyIndex uint64
			Flags                    uint64
			Value                    string
		}
		out := []kvp{}
		if mine {
			for _, k := range r.kvKeysLocked() {
				out = append(out, kvp{Key: r.kvPath + "/" + k, CreateIndex: 1, ModifyIndex: r.kvIndex, Value: base64.StdEncoding.EncodeToString([]byte(r.kvRaw[k]))})
			}
		}
		idx := r.kvIndex
		if mine {
			r.kvServed = idx
		}
		r.mu.Unlock()
		r.header(w, idx)
		if len(out) == 0 {
			w.WriteHeader(http.StatusNotFound)
			return
		}
		json.NewEncoder(w).Encode(out)
	default:
		// registration and anything else the backend may try: accept and ignore
		w.Header().Set("Content-Type", "application/json")
		w.Write([]byte("null"))
	}
}

func (r *registryState) serve() *httptest.Server { return httptest.NewServer(r) }

func (r *registryState) close() {
	r.mu.Lock()
	r.closed = true
	r.cond.Broadcast()
	r.mu.Unlock()
}

// waitFor waits until pred (evaluated under the lock) holds; false on timeout.
func (r *registryState) waitFor(pred func() bool, d time.Duration) bool {
	deadline := time.Now().Add(d)
	timer := time.AfterFunc(d, func() { r.mu.Lock(); r.cond.Broadcast(); r.mu.Unlock() })
	defer timer.Stop()
	r.mu.Lock()
	defer r.mu.Unlock()
	for !pred() {
		if time.Now().After(deadline) {
			return false
		}
		r.cond.Wait()
	}
	return true
}

// quiesce waits until both watchers have delivered what they computed from the current registry state: each
// is a sequential loop "query; (send on an unbuffered channel;) query again", so a query that arrives after the
// answer with the current index was served means that answer has been handed to - and taken by - the table
// loop. Whether the table loop has also finished processing it is asked of the child process itself (command
// `idle`: the goroutine of main.watchBackend is parked in its select), see awaitIdle in pipeline.go. Nothing is
// sent through the loop for the sake of the observation.
// quiescedNow is quiesce without waiting.
func (r *registryState) quiescedNow() bool {
	r.mu.Lock()
	defer r.mu.Unlock()
	return r.hDelivered == r.hIndex && r.kvDelivered == r.kvIndex
}

// pendingWatchers counts the watchers that have not come back for more since the registry reached its current
// state: each of them is on its way to the fake, computing its text, or blocked handing a text (of this or of an
// earlier state) to the table loop.
func (r *registryState) pendingWatchers() int {
	r.mu.Lock()
	defer r.mu.Unlock()
	n := 0
	if r.hDelivered != r.hIndex {
		n++
	}
	if r.kvDelivered != r.kvIndex {
		n++
	}
	return n
}

func (r *registryState) quiesce(d time.Duration) bool {
	return r.waitFor(func() bool { return r.hDelivered == r.hIndex && r.kvDelivered == r.kvIndex }, d)
}
