package main

// c01.passing: generated check lists × both modes × status lists through the real checksWithTagPrefix and
// passingServices; the observable is the list of indices (into the input) of the returned checks.

import (
	"encoding/json"
	"errors"
	"io"
	"log"
	"strings"

	"github.com/fabiolb/fabio/registry/consul"
	"github.com/hashicorp/consul/api"
	"verif/harness/hx"
)

type passIn struct {
	Prefix string   `json:"prefix"`
	Status []string `json:"status"`
	Strict bool     `json:"strict"`
	Checks []CheckJ `json:"checks"`
}

func indices(all []*api.HealthCheck, sub []*api.HealthCheck) []int {
	pos := map[*api.HealthCheck]int{}
	for i, c := range all {
		pos[c] = i
	}
	out := []int{}
	for _, c := range sub {
		if i, ok := pos[c]; ok {
			out = append(out, i)
		} else {
			out = append(out, -1)
		}
	}
	return out
}

func runPassing(raw json.RawMessage) (interface{}, error) {
	var in passIn
	if err := json.Unmarshal(raw, &in); err != nil {
		return nil, err
	}
	if len(in.Checks) > 400 {
		return nil, errors.New("too many checks")
	}
	var all []*api.HealthCheck
	for _, c := range in.Checks {
		all = append(all, &api.HealthCheck{Node: c.Node, CheckID: c.ID, ServiceID: c.SID, ServiceName: c.Name, Status: c.Status, ServiceTags: c.Tags})
	}
	filtered := consul.VerifChecksWithTagPrefix(in.Prefix, all)
	return map[string]interface{}{
		"filter":  indices(all, filtered),
		"passing": indices(all, consul.VerifPassingServices(all, in.Status, in.Strict)),
		"watch":   indices(all, consul.VerifPassingServices(filtered, in.Status, in.Strict)),
	}, nil
}

var (
	pNodes  = []string{"n1", "n1.x", "n2", "n3"}
	pSIDs   = []string{"a", "b", "x.y", "y", "c"}
	pStatus = []string{"passing", "passing", "passing", "warning", "critical", "maintenance", "unknown", ""}
	pAccept = [][]string{{"passing"}, {"passing"}, {"passing", "warning"}, {"passing", "unknown"}, {}, {"critical"}, {""}, {"passing", "warning", "critical"}}
)

func genPassing(r *hx.Rand, i int) interface{} {
	in := passIn{Prefix: "urlprefix-", Status: pAccept[r.Intn(len(pAccept))], Strict: r.Chance(1, 2)}
	if r.Chance(1, 6) {
		in.Prefix = "fab-"
	}
	nn := 1 + r.Intn(len(pNodes))
	ns := 1 + r.Intn(len(pSIDs))
	n := 1 + r.Intn(40)
	if r.Chance(1, 2) {
		n = 1 + r.Intn(8)
	}
	// tags are a function of (node, sid) most of the time, as in a Consul registry
	tagOf := map[string][]string{}
	special := r.Chance(4, 5)
	for k := 0; k < n; k++ {
		c := CheckJ{Node: pNodes[r.Intn(nn)], Status: r.Pick(pStatus), Tags: []string{}}
		x := r.Intn(20)
		switch {
		case special && x < 2:
			c.ID = "serfHealth"
			if r.Chance(1, 2) {
				c.Status = r.Pick([]string{"critical", "passing"})
			}
		case special && x < 3:
			c.ID = "_node_maintenance"
		case special && x < 5:
			c.SID = pSIDs[r.Intn(ns)]
			c.ID = "_service_maintenance:" + c.SID
			if r.Chance(1, 5) {
				c.ID = "_service_maintenance:" + r.Pick(pSIDs) // a maintenance check of another id
			}
			if r.Chance(2, 3) {
				c.Status = "critical"
			}
		case x < 6 && r.Chance(1, 3):
			c.ID = r.Pick([]string{"_service_maintenance", "_service_maintenanceX", "serfHealth2", "_node_maintenance:"})
			c.SID = pSIDs[r.Intn(ns)]
		default:
			c.SID = pSIDs[r.Intn(ns)]
			if r.Chance(1, 15) {
				c.SID = "" // a node-level check
			}
			c.ID = "service:" + c.SID
			if r.Chance(1, 3) {
				c.ID += ":" + r.Pick([]string{"1", "2"}) // duplicated check ids are frequent
			}
		}
		if c.SID != "" {
			c.Name = "svc-" + c.SID
			key := c.Node + "\x00" + c.SID
			if _, ok := tagOf[key]; !ok {
				switch r.Intn(8) {
				case 0:
					tagOf[key] = []string{}
				case 1:
					tagOf[key] = []string{"v1"}
				case 2:
					// look-alikes and spellings of a routing tag: white space around it (routecmd.build trims a tag
					// before it looks for the prefix), the prefix inside the tag, upper case, the bare prefix, a
					// proper prefix of the prefix
					tagOf[key] = []string{r.Pick([]string{" " + in.Prefix + "/" + c.SID, "\t" + in.Prefix + "/" + c.SID + " ", "x" + in.Prefix + "/" + c.SID,
						strings.ToUpper(in.Prefix) + "/" + c.SID, in.Prefix, in.Prefix[:len(in.Prefix)-1], "\u00a0" + in.Prefix + "/" + c.SID})}
				default:
					tagOf[key] = []string{"v1", in.Prefix + "/" + c.SID}
				}
			}
			c.Tags = tagOf[key]
			if r.Chance(1, 25) {
				c.Tags = []string{in.Prefix + "/odd"} // tags differing between the checks of one instance
			}
		}
		in.Checks = append(in.Checks, c)
	}
	return in
}

func init() {
	log.SetOutput(io.Discard) // the code under test logs every skipped service
	hx.Register(&hx.Stream{
		Name: "c01.passing",
		Corpus: []interface{}{
			passIn{Prefix: "urlprefix-", Status: []string{"passing"}, Checks: []CheckJ{}},
			passIn{Prefix: "urlprefix-", Status: []string{"passing"}, Checks: []CheckJ{
				{Node: "n1", ID: "service:a", SID: "a", Name: "a", Status: "passing", Tags: []string{"urlprefix-/a"}},
				{Node: "n1", ID: "serfHealth", Status: "critical", Tags: []string{}}}},
			passIn{Prefix: "urlprefix-", Status: []string{"passing"}, Strict: true, Checks: []CheckJ{
				{Node: "n1", ID: "service:a", SID: "a", Name: "a", Status: "passing", Tags: []string{"urlprefix-/a"}},
				{Node: "n1", ID: "service:a:2", SID: "a", Name: "a", Status: "warning", Tags: []string{"urlprefix-/a"}},
				{Node: "n1", ID: "_node_maintenance", Status: "passing", Tags: []string{}}}},
		},
		Gen: genPassing,
		Run: runPassing,
	})
}
