package main

import (
	"bytes"
	"encoding/json"
	"fmt"
	"net"
	"net/http"
	"sort"
	"strings"
	"sync"
	"sync/atomic"
	"time"

	"github.com/fabiolb/fabio/proxy"
	"github.com/fabiolb/fabio/route"
	"verif/harness/hx"
)

// c12.grpc — the real gRPC proxy path (interceptor + director + transparent handler, wired as in main.go) in
// front of a counting gRPC upstream. The route carries allow=/deny=/auth= options; the property demands that a
// peer the rules do not admit (or a call without credentials on a route with auth=) never reaches the upstream.

type grpcIn struct {
	Allow      string     `json:"allow"`
	Deny       string     `json:"deny"`
	Scheme     string     `json:"scheme"`
	Registered []string   `json:"registered"`
	Secrets    [][]string `json:"secrets"`
	Cred       credIn     `json:"cred"`
}

var (
	grpcOnce   sync.Once
	grpcErr    error
	grpcHits   atomic.Int64
	grpcUp     string
	grpcMu     sync.Mutex
	grpcFronts = map[string]string{} // one proxy listener per set of registered schemes + secrets
)

// grpcFront answers the address of a gRPC proxy (wired as in main.go) which knows exactly the given schemes.
func grpcFront(registered []string, secrets [][]string) (string, error) {
	schemes, err := loadSchemes(registered, secrets)
	if err != nil {
		return "", err
	}
	ns := append([]string(nil), registered...)
	sort.Strings(ns)
	key := fmt.Sprintf("%q %q", ns, secrets)
	grpcMu.Lock()
	defer grpcMu.Unlock()
	if a, ok := grpcFronts[key]; ok {
		return a, nil
	}
	if len(grpcFronts) >= 64 {
		return "", fmt.Errorf("too many distinct scheme sets in one run")
	}
	a, err := proxy.VerifC12GRPCProxy(schemes)
	if err != nil {
		return "", err
	}
	grpcFronts[key] = a
	return a, nil
}

func runGRPC(raw json.RawMessage) (interface{}, error) {
	var in grpcIn
	if err := json.Unmarshal(raw, &in); err != nil {
		return nil, err
	}
	for _, s := range []string{in.Allow, in.Deny, in.Scheme} {
		if strings.ContainsAny(s, " \t\r\n\"=") {
			return nil, fmt.Errorf("option value %q cannot be written in a route command", s)
		}
	}
	if in.Cred.Mode == "basic" && strings.Contains(in.Cred.User, ":") {
		return nil, fmt.Errorf("user name with a colon cannot be sent with basic auth")
	}
	grpcOnce.Do(func() { grpcUp, grpcErr = proxy.VerifC12GRPCUpstream(&grpcHits) })
	if grpcErr != nil {
		return nil, grpcErr
	}
	front, err := grpcFront(in.Registered, in.Secrets)
	if err != nil {
		return nil, err
	}
	// gRPC clients send their credentials in the authorization metadata
	var md map[string]string
	h := http.Header{}
	in.Cred.apply(h)
	if v := h.Get("Authorization"); v != "" {
		for _, c := range v {
			if c < 0x20 || c > 0x7e {
				return nil, fmt.Errorf("metadata value %q is not printable ASCII", v)
			}
		}
		md = map[string]string{"authorization": v}
	}
	opts := []string{"proto=grpc"}
	if in.Allow != "" {
		opts = append(opts, "allow="+in.Allow)
	}
	if in.Deny != "" {
		opts = append(opts, "deny="+in.Deny)
	}
	if in.Scheme != "" {
		opts = append(opts, "auth="+in.Scheme)
	}
	cmd := fmt.Sprintf("route add svc /grpc.health.v1.Health grpc://%s opts \"%s\"", grpcUp, strings.Join(opts, " "))
	tbl, err := route.NewTable(bytes.NewBufferString(cmd))
	if err != nil {
		return nil, fmt.Errorf("route table: %v", err)
	}
	route.SetTable(tbl)
	time.Sleep(time.Millisecond)
	before := grpcHits.Load()
	code, peer, err := proxy.VerifC12GRPCCall(front, md)
	if err != nil {
		return nil, err
	}
	hits := grpcHits.Load() - before
	if hits > 1 {
		hits = 1
	}
	host, _, _ := net.SplitHostPort(peer)
	return map[string]interface{}{
		"code": code,
		"hits": hits,
		"peer": peer,
		"ref":  refEval(in.Allow, in.Deny, peer, nil, net.ParseIP(host), true),
	}, nil
}

func init() {
	hx.Register(&hx.Stream{
		Name: "c12.grpc",
		Corpus: []interface{}{
			grpcIn{Secrets: defaultSecrets, Registered: []string{"basic"}},
			grpcIn{Allow: "ip:127.0.0.0/8", Secrets: defaultSecrets, Registered: []string{"basic"}},
			grpcIn{Allow: "ip:10.0.0.0/8", Secrets: defaultSecrets, Registered: []string{"basic"}},
			grpcIn{Deny: "ip:127.0.0.1", Secrets: defaultSecrets, Registered: []string{"basic"}},
			// D31 (auth half, repaired): a route with auth= was served without credentials
			grpcIn{Scheme: "basic", Secrets: defaultSecrets, Registered: []string{"basic"}, Cred: credIn{Mode: "none"}},
			grpcIn{Scheme: "nope", Secrets: defaultSecrets, Registered: []string{"basic"}, Cred: credIn{"basic", "alice", "secret"}},
			grpcIn{Scheme: "basic", Secrets: defaultSecrets, Registered: []string{}, Cred: credIn{"basic", "alice", "secret"}},
			grpcIn{Scheme: "basic", Secrets: defaultSecrets, Registered: []string{"basic"}, Cred: credIn{"basic", "alice", "secret"}},
			grpcIn{Scheme: "basic", Secrets: defaultSecrets, Registered: []string{"basic"}, Cred: credIn{"basic", "alice", "hunter2"}},
			grpcIn{Scheme: "basic", Secrets: defaultSecrets, Registered: []string{"basic"}, Cred: credIn{Mode: "garbage", User: "Bearer abc"}},
			grpcIn{Allow: "ip:10.0.0.0/8", Scheme: "basic", Secrets: defaultSecrets, Registered: []string{"basic"}, Cred: credIn{"basic", "alice", "secret"}},
			grpcIn{Allow: "ip:127.0.0.0/8", Scheme: "basic", Secrets: defaultSecrets, Registered: []string{"basic"}, Cred: credIn{"basic", "bob", "hunter2"}},
		},
		Gen: func(r *hx.Rand, i int) interface{} {
			in := grpcIn{Secrets: defaultSecrets, Registered: []string{}, Cred: credIn{Mode: "none"}}
			for _, n := range []string{"basic", "admins"} {
				if r.Chance(2, 3) {
					in.Registered = append(in.Registered, n)
				}
			}
			// option values of a route command cannot hold blanks: items are joined without spaces
			rule := func(bad bool) string {
				n := 1 + r.Intn(3)
				items := make([]string, n)
				for i := range items {
					items[i] = r.Pick([]string{"ip", "IP", "Ip"}) + ":" + r.Pick(append([]string{"127.0.0.0/8", "127.0.0.1", "::1", "127.0.0.2", "::ffff:127.0.0.0/104"}, goodBlocks...))
				}
				if bad {
					items[r.Intn(n)] = r.Pick([]string{"ip:127.0.0.1/33", "foo:127.0.0.1", "ip:bad", "127.0.0.1", "ip:", "ip:fe80::1%eth0"})
				}
				return strings.Join(items, ",")
			}
			switch r.Intn(6) {
			case 0:
			case 1:
				in.Allow = rule(true)
				if r.Chance(1, 3) {
					in.Allow, in.Deny = "", in.Allow
				}
			case 2, 3:
				in.Allow = rule(false)
			default:
				in.Deny = rule(false)
			}
			if r.Chance(3, 5) {
				in.Scheme = r.Pick([]string{"basic", "basic", "admins", "nope", "Basic"})
				in.Cred = genCred(r)
			} else if r.Chance(1, 3) {
				in.Cred = genCred(r) // credentials on a route that asks for none
			}
			return in
		},
		Run: runGRPC,
	})
}
