package main

import (
	"bytes"
	"encoding/json"
	"fmt"
	"net"
	"strings"
	"sync"
	"sync/atomic"
	"time"

	"github.com/fabiolb/fabio/proxy"
	"github.com/fabiolb/fabio/route"
	"verif/harness/hx"
)

// c12.grpc — the real gRPC proxy path (interceptor + director + transparent handler, wired as in main.go) in
// front of a counting gRPC upstream. The route carries allow=/deny=/auth= options; the property demands that a
// peer the rules do not admit (or a call without credentials on a route with auth=) never reaches the upstream.

type grpcIn struct {
	Allow  string `json:"allow"`
	Deny   string `json:"deny"`
	Scheme string `json:"scheme"`
}

var (
	grpcOnce  sync.Once
	grpcErr   error
	grpcHits  atomic.Int64
	grpcUp    string
	grpcFront string
)

func runGRPC(raw json.RawMessage) (interface{}, error) {
	var in grpcIn
	if err := json.Unmarshal(raw, &in); err != nil {
		return nil, err
	}
	for _, s := range []string{in.Allow, in.Deny, in.Scheme} {
		if strings.ContainsAny(s, " \t\r\n\"=") {
			return nil, fmt.Errorf("option value %q cannot be written in a route command", s)
		}
	}
	grpcOnce.Do(func() {
		if grpcUp, grpcErr = proxy.VerifC12GRPCUpstream(&grpcHits); grpcErr != nil {
			return
		}
		grpcFront, grpcErr = proxy.VerifC12GRPCProxy()
	})
	if grpcErr != nil {
		return nil, grpcErr
	}
	opts := []string{"proto=grpc"}
	if in.Allow != "" {
		opts = append(opts, "allow="+in.Allow)
	}
	if in.Deny != "" {
		opts = append(opts, "deny="+in.Deny)
	}
	if in.Scheme != "" {
		opts = append(opts, "auth="+in.Scheme)
	}
	cmd := fmt.Sprintf("route add svc /grpc.health.v1.Health grpc://%s opts \"%s\"", grpcUp, strings.Join(opts, " "))
	tbl, err := route.NewTable(bytes.NewBufferString(cmd))
	if err != nil {
		return nil, fmt.Errorf("route table: %v", err)
	}
	route.SetTable(tbl)
	time.Sleep(time.Millisecond)
	before := grpcHits.Load()
	code, peer, err := proxy.VerifC12GRPCCall(grpcFront, nil)
	if err != nil {
		return nil, err
	}
	hits := grpcHits.Load() - before
	if hits > 1 {
		hits = 1
	}
	host, _, _ := net.SplitHostPort(peer)
	return map[string]interface{}{
		"code": code,
		"hits": hits,
		"peer": peer,
		"ref":  refEval(in.Allow, in.Deny, peer, nil, net.ParseIP(host), true),
	}, nil
}

func init() {
	hx.Register(&hx.Stream{
		Name: "c12.grpc",
		Corpus: []interface{}{
			grpcIn{},
			grpcIn{Allow: "ip:127.0.0.0/8"},
			grpcIn{Allow: "ip:10.0.0.0/8"},
			grpcIn{Deny: "ip:127.0.0.1"},
			grpcIn{Scheme: "basic"},
		},
		Gen: func(r *hx.Rand, i int) interface{} {
			in := grpcIn{}
			// option values of a route command cannot hold blanks: items are joined without spaces
			rule := func(bad bool) string {
				n := 1 + r.Intn(3)
				items := make([]string, n)
				for i := range items {
					items[i] = r.Pick([]string{"ip", "IP", "Ip"}) + ":" + r.Pick(append([]string{"127.0.0.0/8", "127.0.0.1", "::1", "127.0.0.2", "::ffff:127.0.0.0/104"}, goodBlocks...))
				}
				if bad {
					items[r.Intn(n)] = r.Pick([]string{"ip:127.0.0.1/33", "foo:127.0.0.1", "ip:bad", "127.0.0.1", "ip:", "ip:fe80::1%eth0"})
				}
				return strings.Join(items, ",")
			}
			switch r.Intn(6) {
			case 0:
			case 1:
				in.Allow = rule(true)
				if r.Chance(1, 3) {
					in.Allow, in.Deny = "", in.Allow
				}
			case 2, 3:
				in.Allow = rule(false)
			default:
				in.Deny = rule(false)
			}
			if r.Chance(1, 4) {
				in.Scheme = r.Pick([]string{"basic", "nope"})
			}
			return in
		},
		Run: runGRPC,
	})
}
