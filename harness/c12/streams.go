package main

import (
	"crypto/sha1"
	"encoding/base64"
	"encoding/hex"
	"encoding/json"
	"fmt"
	"io"
	"log"
	"net"
	"net/http"
	"net/http/httptest"
	"os"
	"path/filepath"
	"sort"
	"strings"
	"sync"
	"time"

	"github.com/fabiolb/fabio/auth"
	"github.com/fabiolb/fabio/config"
	"github.com/fabiolb/fabio/route"
	htpasswd "github.com/tg123/go-htpasswd"
	"verif/harness/hx"
)

func init() { log.SetOutput(io.Discard) }

// ---------------------------------------------------------------------------------------------------------
// universes
// ---------------------------------------------------------------------------------------------------------

var (
	goodBlocks = []string{
		"10.0.0.0/8", "10.1.0.0/16", "192.168.0.0/24", "1.2.3.4", "1.2.3.4/32", "0.0.0.0/0", "127.0.0.0/8",
		"10.1.2.3/8", "1.2.3.4/08", "9.9.9.9/31", "10.0.0.0/24", "10.0.0.0/16", "192.168.0.0/16", "192.168.0.0",
		"2001:db8::/64", "fe80::/64",
		"fe80::/10", "::1", "2001:db8::/32", "::/0", "2001:db8::1/128", "2001:DB8::5", "2001::/16",
		"::ffff:1.2.3.0/120", "::ffff:10.0.0.0/104", "::ffff:0:0/96", "::ffff:1.2.3.4", "::ffff:0:0/90",
		"::ffff:9.9.9.9/128", "1:2:3:4:5:6:1.2.3.4/128", "::1.2.3.4",
	}
	badBlocks = []string{
		"10.0.0.0/33", "fe80::/129", "10.0.0.0/-1", "10.0.0.0/", "/8", "10.0.0/8", "10/8", "bad", "", "1.2.3.256",
		"01.2.3.4", "fe80::1%eth0", "fe80::%eth0/10", "1.2.3.4/8/8", "1.2.3.4 /8", "1.2.3.4/ 8", "1.2.3.4/0x8",
		"10.0.0.0/255", ":::1", "1::2::3", "1:2:3:4:5:6:7:8:9", "12345::", "1.2.3.4.5", "::ffff:1.2.3.4/129",
		"1.2.3.4/99999999999999999999",
	}
	typesGood = []string{"ip", "ip", "ip", "IP", "Ip", " ip", "ip ", " iP "}
	typesBad  = []string{"foo", "", "i p", "ipx", "ip6", "allow", "cidr"}

	addrs = []string{
		"10.1.2.3", "10.200.0.1", "192.168.0.7", "192.168.1.7", "1.2.3.4", "1.2.3.5", "9.9.9.9", "9.9.9.8",
		"127.0.0.1", "0.0.0.0", "255.255.255.255",
		"::1", "fe80::1", "2001:db8::5", "2001:db8::1", "2001::1", "2001:db8:1::1", "10.0.1.1", "10.0.0.9", "::", "febf::1", "fec0::1",
		"::ffff:10.1.2.3", "::ffff:1.2.3.4", "::ffff:9.9.9.9", "::1.2.3.4", "1:2:3:4:5:6:102:304",
	}
	zoned   = []string{"fe80::1%eth0", "2001::1%eth0", "2001:db8::5%1", "::1%lo", "fe80::1%25eth0"}
	garbage = []string{"unknown", "", "_hidden", "1.2.3.4:80", "[::1]", "10.1.2", "localhost", "1.2.3.4 5.6.7.8", "%eth0", "0x7f.1"}
)

func genItem(r *hx.Rand, bad bool) string {
	ty := r.Pick(typesGood)
	data := r.Pick(goodBlocks)
	if bad {
		switch r.Intn(4) {
		case 0:
			ty = r.Pick(typesBad)
		case 1:
			return r.Pick([]string{"1.2.3.4", "ip", "", " ", "ip=1.2.3.4", "10.0.0.0/8"}) // no colon
		default:
			data = r.Pick(badBlocks)
		}
	}
	if r.Chance(1, 5) {
		data = " " + data
	}
	if r.Chance(1, 6) {
		data += r.Pick([]string{" ", "\t", "  "})
	}
	return ty + ":" + data
}

// genRule builds one option value; malformed with probability badNum/badDen.
func genRule(r *hx.Rand, badNum, badDen int) string {
	n := 1 + r.Intn(4)
	badAt := -1
	if r.Chance(badNum, badDen) {
		badAt = r.Intn(n)
	}
	items := make([]string, n)
	for i := range items {
		items[i] = genItem(r, i == badAt)
	}
	s := strings.Join(items, ",")
	if badAt < 0 && r.Chance(1, 40) {
		s += "," // trailing comma: an empty item
	}
	return s
}

func genOpts(r *hx.Rand) (allow, deny string) {
	switch r.Intn(20) {
	case 0:
		return "", ""
	case 1:
		return genRule(r, 1, 4), genRule(r, 1, 4) // both
	}
	if r.Chance(1, 2) {
		return genRule(r, 1, 4), ""
	}
	return "", genRule(r, 1, 4)
}

func hostport(a string, r *hx.Rand) string {
	port := r.Pick([]string{"1", "80", "54321", "65535"})
	if strings.Contains(a, ":") {
		return "[" + a + "]:" + port
	}
	return a + ":" + port
}

func genRemote(r *hx.Rand) string {
	switch r.Intn(12) {
	case 0:
		return hostport(r.Pick(zoned), r)
	case 1:
		return r.Pick([]string{"10.1.2.3", "", "[::1]", "::1:80", "10.1.2.3:80:90", "host:80", "@", ":80", "[10.1.2.3]:80",
			"[fe80::1%eth0]", "[::1:80", "::1]:80", "10.1.2.3:", "[1.2.3.4:80"})
	default:
		return hostport(r.Pick(addrs), r)
	}
}

func genXFF(r *hx.Rand, remote string) []string {
	lines := []string{}
	nl := []int{0, 0, 1, 1, 1, 2, 3}[r.Intn(7)]
	host, _, _ := net.SplitHostPort(remote)
	for i := 0; i < nl; i++ {
		n := 1 + r.Intn(4)
		if r.Chance(1, 10) {
			n = 8 + r.Intn(40)
		}
		els := make([]string, n)
		for j := range els {
			switch r.Intn(10) {
			case 0:
				els[j] = host
			case 1:
				els[j] = r.Pick(garbage)
			case 2:
				els[j] = r.Pick(zoned)
			default:
				els[j] = r.Pick(addrs)
			}
			if r.Chance(1, 3) {
				els[j] = " " + els[j]
			}
			if r.Chance(1, 8) {
				els[j] += " "
			}
		}
		lines = append(lines, strings.Join(els, ","))
	}
	return lines
}

type tcpPeerIn struct {
	Kind string `json:"kind"` // "tcp" | "nontcp"
	IP   string `json:"ip"`   // hex of addr.IP (4 or 16 bytes; "" = nil)
}

func genTCPPeer(r *hx.Rand) tcpPeerIn {
	switch r.Intn(15) {
	case 0:
		return tcpPeerIn{Kind: "nontcp"}
	case 1:
		return tcpPeerIn{Kind: "tcp"}
	}
	ip := net.ParseIP(r.Pick(addrs))
	if v4 := ip.To4(); v4 != nil && r.Chance(1, 2) {
		ip = v4
	}
	return tcpPeerIn{Kind: "tcp", IP: hex.EncodeToString(ip)}
}

// ---------------------------------------------------------------------------------------------------------
// c12.parse
// ---------------------------------------------------------------------------------------------------------

type parseIn struct {
	Kind string `json:"kind"`
	S    string `json:"s"`
}

func mutate(r *hx.Rand, s string) string {
	if s == "" || r.Chance(1, 2) {
		return s
	}
	b := []byte(s)
	i := r.Intn(len(b))
	switch r.Intn(4) {
	case 0:
		b = append(b[:i], b[i+1:]...)
	case 1:
		b[i] = "0123456789abcdefABCDEF:./%[] g"[r.Intn(30)]
	case 2:
		b = append(b[:i], append([]byte{":./0f"[r.Intn(5)]}, b[i:]...)...)
	default:
		b = append(b, ":./1"[r.Intn(4)])
	}
	return string(b)
}

// randAddr builds a random IPv4 or IPv6 literal (random groups, optional "::", optional embedded IPv4).
func randAddr(r *hx.Rand) string {
	v4 := func() string {
		return fmt.Sprintf("%d.%d.%d.%d", r.Intn(300), r.Intn(256), r.Intn(256), r.Intn(256))
	}
	if r.Chance(1, 4) {
		return v4()
	}
	n := 1 + r.Intn(8)
	gs := make([]string, n)
	for i := range gs {
		gs[i] = fmt.Sprintf([]string{"%x", "%X", "%04x", "%x"}[r.Intn(4)], r.Intn(1<<uint(1+r.Intn(17))))
	}
	if r.Chance(1, 5) {
		gs[n-1] = v4()
	}
	if n < 8 || r.Chance(1, 10) {
		k := r.Intn(n + 1)
		s := strings.Join(gs[:k], ":") + "::" + strings.Join(gs[k:], ":")
		return s
	}
	return strings.Join(gs, ":")
}

func blockOf(n *net.IPNet) route.VerifC12Block {
	return route.VerifC12Block{IP: hex.EncodeToString(n.IP), Mask: hex.EncodeToString(n.Mask)}
}

// ---------------------------------------------------------------------------------------------------------
// c12.decide
// ---------------------------------------------------------------------------------------------------------

type decideIn struct {
	Allow  string    `json:"allow"`
	Deny   string    `json:"deny"`
	Remote string    `json:"remote"`
	XFF    []string  `json:"xff"`
}

type tcpIn struct {
	Allow string    `json:"allow"`
	Deny  string    `json:"deny"`
	TCP   tcpPeerIn `json:"tcp"`
}

type fakeAddr struct{}

func (fakeAddr) Network() string { return "unix" }
func (fakeAddr) String() string  { return "@c12" }

type fakeConn struct {
	net.Conn
	remote net.Addr
}

func (c fakeConn) RemoteAddr() net.Addr { return c.remote }

func errKind(err error) string {
	if err == nil {
		return ""
	}
	m := err.Error()
	switch {
	case strings.HasPrefix(m, "specifying allow and deny"):
		return "both"
	case strings.HasPrefix(m, "invalid access item"):
		return "nocolon"
	case strings.HasPrefix(m, "failed to parse IP"):
		return "badip"
	case strings.HasPrefix(m, "failed to parse CIDR"):
		return "badcidr"
	case strings.HasPrefix(m, "unknown access item type"):
		return "unknowntype"
	}
	return "other:" + m
}

func mkOpts(allow, deny string) map[string]string {
	opts := map[string]string{}
	if allow != "" {
		opts["allow"] = allow
	}
	if deny != "" {
		opts["deny"] = deny
	}
	return opts
}

func runDecide(raw json.RawMessage) (interface{}, error) {
	var in decideIn
	if err := json.Unmarshal(raw, &in); err != nil {
		return nil, err
	}
	// the production path: Route.addTarget -> ProcessAccessRules (error only logged)
	t := route.VerifC12AddTarget("http://127.0.0.1:1/", mkOpts(in.Allow, in.Deny))
	// the error class, from a second target processed directly
	t2 := &route.Target{Opts: mkOpts(in.Allow, in.Deny)}
	perr := t2.ProcessAccessRules()

	req := &http.Request{Method: "GET", RemoteAddr: in.Remote, Header: http.Header{}}
	for _, l := range in.XFF {
		req.Header.Add("X-Forwarded-For", l)
	}
	return map[string]interface{}{
		"rules": t.VerifC12Rules(),
		"err":   errKind(perr),
		"http":  t.AccessDeniedHTTP(req),
		"ref":   refEval(in.Allow, in.Deny, in.Remote, in.XFF, nil, false),
	}, nil
}

func runTCP(raw json.RawMessage) (interface{}, error) {
	var in tcpIn
	if err := json.Unmarshal(raw, &in); err != nil {
		return nil, err
	}
	t := route.VerifC12AddTarget("tcp://127.0.0.1:1", mkOpts(in.Allow, in.Deny))
	var conn net.Conn
	var tcpIP net.IP
	isTCP := in.TCP.Kind == "tcp"
	if isTCP {
		b, err := hex.DecodeString(in.TCP.IP)
		if err != nil || (len(b) != 0 && len(b) != 4 && len(b) != 16) {
			return nil, fmt.Errorf("bad tcp ip %q", in.TCP.IP)
		}
		if len(b) > 0 {
			tcpIP = net.IP(b)
		}
		conn = fakeConn{remote: &net.TCPAddr{IP: tcpIP, Port: 4711}}
	} else {
		conn = fakeConn{remote: fakeAddr{}}
	}
	return map[string]interface{}{
		"tcp": t.AccessDeniedTCP(conn),
		"ref": refEval(in.Allow, in.Deny, "", nil, tcpIP, isTCP),
	}, nil
}

// ---------------------------------------------------------------------------------------------------------
// c12.auth
// ---------------------------------------------------------------------------------------------------------

type credIn struct {
	Mode string `json:"mode"` // "none" | "basic" | "garbage"
	User string `json:"user"`
	Pass string `json:"pass"`
}

type authIn struct {
	Scheme     string     `json:"scheme"`
	Registered []string   `json:"registered"`
	Secrets    [][]string `json:"secrets"`
	Cred       credIn     `json:"cred"`
	Req        reqExtra   `json:"req"`
	Htpasswd   string     `json:"htpasswd"` // non-empty: the text of the htpasswd file (instead of one line user:password per secret)
}

// reqExtra is the rest of the request: the gate has to judge a request by its peer, its X-Forwarded-For lines and
// the credentials of its first Authorization line - whatever the method and whatever else it carries.
type reqExtra struct {
	Method string     `json:"method"` // "" = GET
	Auth   string     `json:"auth"`   // non-empty: the Authorization line as sent instead of the canonical encoding of cred
	Hdrs   [][]string `json:"hdrs"`   // further header lines [name, value], sent in this order after X-Forwarded-For and Authorization
}

func b64(user, pass string) string { return base64.StdEncoding.EncodeToString([]byte(user + ":" + pass)) }

// authLine is the Authorization line of a request ("" = none).
func (c credIn) authLine(x reqExtra) string {
	if x.Auth != "" {
		return x.Auth
	}
	h := http.Header{}
	c.apply(h)
	return h.Get("Authorization")
}

// headerLines lists every header line of the request in the order it is sent.
func headerLines(xff []string, c credIn, x reqExtra) ([][2]string, error) {
	var ls [][2]string
	for _, l := range xff {
		ls = append(ls, [2]string{"X-Forwarded-For", l})
	}
	if a := c.authLine(x); a != "" {
		ls = append(ls, [2]string{"Authorization", a})
	}
	for _, h := range x.Hdrs {
		if len(h) != 2 || h[0] == "" {
			return nil, fmt.Errorf("header line %q is not [name, value]", h)
		}
		ls = append(ls, [2]string{h[0], h[1]})
	}
	return ls, nil
}

// libBasicAuth is what net/http itself reads out of these lines (server side: every name canonicalised, lines of
// one name kept in order): the oracle for the model's parseBasicAuth, and the pair the specification asks about.
func libBasicAuth(lines [][2]string) map[string]interface{} {
	h := http.Header{}
	for _, l := range lines {
		h.Add(l[0], l[1])
	}
	u, p, ok := (&http.Request{Header: h}).BasicAuth()
	return map[string]interface{}{"ok": ok, "u": hex.EncodeToString([]byte(u)), "p": hex.EncodeToString([]byte(p))}
}

// allXFF: the X-Forwarded-For lines of a request, whatever the spelling of the name.
func allXFF(lines [][2]string) []string {
	out := []string{}
	for _, l := range lines {
		if strings.EqualFold(l[0], "X-Forwarded-For") {
			out = append(out, l[1])
		}
	}
	return out
}

var (
	reqMethods = []string{"GET", "GET", "POST", "PUT", "DELETE", "HEAD", "OPTIONS", "OPTIONS", "PATCH", "PROPFIND"}
	// request shapes clients really send: a CORS preflight, the XHR that follows it, a form post, a health probe,
	// a request through another proxy, a client that puts its credentials where they do not belong
	reqProfiles = []reqExtra{
		{Method: "OPTIONS", Hdrs: [][]string{{"Origin", "https://app.example"}, {"Access-Control-Request-Method", "PUT"}}},
		{Method: "OPTIONS", Hdrs: [][]string{{"Origin", "null"}, {"Access-Control-Request-Method", "GET"}, {"Access-Control-Request-Headers", "authorization"}}},
		{Method: "OPTIONS", Hdrs: [][]string{{"origin", "https://app.example"}, {"access-control-request-method", "DELETE"}}},
		{Method: "PUT", Hdrs: [][]string{{"Origin", "https://app.example"}, {"X-Requested-With", "XMLHttpRequest"}, {"Content-Type", "application/json"}}},
		{Method: "POST", Hdrs: [][]string{{"Content-Type", "application/x-www-form-urlencoded"}, {"Cookie", "session=alice"}}},
		{Method: "HEAD", Hdrs: [][]string{{"User-Agent", "kube-probe/1.27"}}},
		{Method: "GET", Hdrs: [][]string{{"Via", "1.1 edge"}, {"Forwarded", "for=10.1.2.3;proto=https"}, {"X-Real-Ip", "10.1.2.3"}, {"X-Forwarded-Proto", "https"}}},
		{Method: "GET", Hdrs: [][]string{{"Proxy-Authorization", "Basic " + b64("alice", "secret")}}},
		{Method: "GET", Hdrs: [][]string{{"X-Authorization", "Basic " + b64("alice", "secret")}, {"X-Forwarded-User", "alice"}, {"X-Remote-User", "alice"}}},
		{Method: "OPTIONS", Hdrs: [][]string{}},
		{Method: "TRACE", Hdrs: [][]string{{"Max-Forwards", "0"}}},
	}
	reqHdrs = [][]string{
		{"Origin", "https://app.example"}, {"Access-Control-Request-Method", "POST"}, {"Access-Control-Request-Headers", "x-token"},
		{"Cookie", "user=alice; auth=secret"}, {"X-Requested-With", "XMLHttpRequest"}, {"Content-Type", "application/json"},
		{"Accept", "*/*"}, {"User-Agent", "c12"}, {"X-Forwarded-Proto", "https"}, {"X-Forwarded-Host", "intranet"},
		{"Forwarded", "for=127.0.0.1"}, {"X-Real-Ip", "127.0.0.1"}, {"X-Forwarded-User", "alice"},
		{"Proxy-Authorization", "Basic " + b64("bob", "hunter2")}, {"X-Authorization", "Basic " + b64("bob", "hunter2")},
		// further lines of the names the gate does read, in other spellings: a second Authorization line never counts,
		// an X-Forwarded-For line always does
		{"Authorization", "Basic " + b64("alice", "secret")}, {"authorization", "Basic " + b64("bob", "hunter2")},
		{"AUTHORIZATION", "Basic " + b64("mallory", "x")}, {"Authorization", "Bearer abc"},
		{"x-forwarded-for", "9.9.9.9"}, {"X-FORWARDED-FOR", "127.0.0.1, ::1"}, {"X-Forwarded-For", "10.1.2.3"}, {"X-forwarded-for", "fe80::1%eth0, 127.0.0.1"},
	}
)

// authSpellings: other ways to write the Authorization line of a pair - some of which net/http reads back as the
// pair (scheme word in any case, non-zero trailing bits), some not (padding missing, two blanks, URL alphabet, …).
func authSpellings(r *hx.Rand, user, pass string) string {
	e := b64(user, pass)
	switch r.Intn(12) {
	case 0:
		return "basic " + e
	case 1:
		return "BASIC " + e
	case 2:
		return "bAsIc " + e
	case 3:
		return "Basic " + strings.TrimRight(e, "=") // padding dropped
	case 4:
		return "Basic  " + e // two blanks
	case 5:
		return "Basic\t" + e
	case 6:
		return "Basic " + e + "="
	case 7:
		return "Basic " + e + " "
	case 8: // the bits of the last character that do not belong to a byte
		if strings.HasSuffix(e, "==") {
			i := len(e) - 3
			return "Basic " + e[:i] + string(b64alpha[(strings.IndexByte(b64alpha, e[i])&^15)|r.Intn(16)]) + "=="
		}
		if strings.HasSuffix(e, "=") {
			i := len(e) - 2
			return "Basic " + e[:i] + string(b64alpha[(strings.IndexByte(b64alpha, e[i])&^3)|r.Intn(4)]) + "="
		}
		return "Basic " + e
	case 9:
		return "Basic " + strings.NewReplacer("+", "-", "/", "_").Replace(b64(user+"~~~", pass+"???")) // URL alphabet
	case 10:
		return "Basic " + base64.StdEncoding.EncodeToString([]byte(user+pass)) // no colon
	default:
		return "Basic" + e
	}
}

const b64alpha = "ABCDEFGHIJKLMNOPQRSTUVWXYZabcdefghijklmnopqrstuvwxyz0123456789+/"

func genReqExtra(r *hx.Rand, c credIn) reqExtra {
	var x reqExtra
	switch r.Intn(4) {
	case 0:
		return x // a plain GET
	case 1:
		p := reqProfiles[r.Intn(len(reqProfiles))]
		x = reqExtra{Method: p.Method, Hdrs: append([][]string{}, p.Hdrs...)}
	default:
		x.Method = r.Pick(reqMethods)
	}
	for n := r.Intn(4); n > 0; n-- {
		x.Hdrs = append(x.Hdrs, reqHdrs[r.Intn(len(reqHdrs))])
	}
	if c.Mode == "basic" && !strings.Contains(c.User, ":") && r.Chance(1, 4) {
		x.Auth = authSpellings(r, c.User, c.Pass)
	}
	if x.Hdrs == nil {
		x.Hdrs = [][]string{}
	}
	return x
}

var (
	defaultSecrets = [][]string{{"alice", "secret"}, {"bob", "hunter2"}, {"carol", "pa55"}}
	schemeNames    = []string{"basic", "admins", "Basic", "other"}
	authMu         sync.Mutex
	authCache      = map[string]map[string]auth.AuthScheme{}
	authDir        string
)

// loadSchemes registers every name as a basic-auth scheme over an htpasswd file holding the secrets, through
// the real auth.LoadAuthSchemes.
func loadSchemes(names []string, secrets [][]string) (map[string]auth.AuthScheme, error) {
	var sb strings.Builder
	for _, s := range secrets {
		if len(s) != 2 || s[0] == "" || strings.ContainsAny(s[0], ":\n\r") || strings.ContainsAny(s[1], "\n\r") || s[1] == "" {
			return nil, fmt.Errorf("unusable secret %q", s)
		}
		if strings.TrimSpace(s[0]+":"+s[1]) != s[0]+":"+s[1] || htHashed(s[1]) {
			return nil, fmt.Errorf("secret %q is not stored as written", s)
		}
		sb.WriteString(s[0] + ":" + s[1] + "\n")
	}
	return loadSchemesText(names, sb.String(), true)
}

// loadSchemesText: the same over the given text of the htpasswd file.
func loadSchemesText(names []string, text string, cache bool) (map[string]auth.AuthScheme, error) {
	ns := append([]string(nil), names...)
	sort.Strings(ns)
	key := strings.Join(ns, "\x00") + "\x01" + text
	authMu.Lock()
	defer authMu.Unlock()
	if m, ok := authCache[key]; ok && cache {
		return m, nil
	}
	if authDir == "" {
		d, err := os.MkdirTemp("", "c12-htpasswd")
		if err != nil {
			return nil, err
		}
		authDir = d
	}
	file := filepath.Join(authDir, fmt.Sprintf("htpasswd-%d", len(authCache)))
	if !cache {
		file = filepath.Join(authDir, "htpasswd-text") // read once by htpasswd.New, then overwritten by the next case
	}
	if err := os.WriteFile(file, []byte(text), 0o600); err != nil {
		return nil, err
	}
	cfg := map[string]config.AuthScheme{}
	for _, n := range ns {
		cfg[n] = config.AuthScheme{Name: n, Type: "basic", Basic: config.BasicAuth{File: file, Realm: "c12"}}
	}
	m, err := auth.LoadAuthSchemes(cfg)
	if err != nil {
		return nil, err
	}
	if cache {
		authCache[key] = m
	}
	return m, nil
}

var htPrefixes = []string{"$apr1$", "$1$", "{SHA}", "$2y$", "$2a$", "$2b$", "$2x$", "{SSHA}", "$5$", "$6$"}

func htHashed(enc string) bool {
	for _, p := range htPrefixes {
		if strings.HasPrefix(enc, p) {
			return true
		}
	}
	return false
}

// hashedOracle: what the library's hash parsers (all of DefaultSystems but the plain-text one) make of the hashed
// encodings of the file, and whether the resulting matcher accepts pw. The hash functions are not modelled; this is
// the parameter H of the model.
func hashedOracle(text, pw string) []map[string]interface{} {
	out := []map[string]interface{}{}
	seen := map[string]bool{}
	for _, line := range strings.Split(text, "\n") {
		line = strings.TrimSpace(line)
		i := strings.IndexByte(line, ':')
		if i < 0 {
			continue
		}
		enc := line[i+1:]
		if !htHashed(enc) || seen[enc] {
			continue
		}
		seen[enc] = true
		e := map[string]interface{}{"enc": enc, "ok": false, "match": false}
		for _, p := range htpasswd.DefaultSystems[:len(htpasswd.DefaultSystems)-1] {
			m, err := p(enc)
			if err != nil {
				break
			}
			if m != nil {
				e["ok"] = true
				func() {
					// a matcher the library built from a malformed encoding may panic (crypt-SHA with a rounds
					// component that is no number): it then matches nothing
					defer func() { recover() }()
					e["match"] = m.MatchesPassword(pw)
				}()
				break
			}
		}
		out = append(out, e)
	}
	return out
}

func shaEnc(pw string) string {
	h := sha1.Sum([]byte(pw))
	return "{SHA}" + base64.StdEncoding.EncodeToString(h[:])
}

var (
	htUsers  = []string{"alice", "bob", "carol", "a", "user name", "", "#alice", "Alice"}
	htPws    = []string{"secret", "hunter2", "pa55", "x", "a:b", "{PLAIN}secret", "se cret", ":"}
	htJunk   = []string{"", "  ", "nocolon", "# htpasswd of the intranet", "\t", "alice", ":", "alice:", " : "}
	htBroken = []string{"{SHA}!!", "{SHA}", "{SHA}c2hvcnQ=", "$2y$", "$2y$05$tooshort", "$apr1$", "$apr1$salt", "$1$", "$5$", "$6$rounds=x$", "{SSHA}", "{SSHA}!!"}
)

// genHtpasswd writes an htpasswd text the way such files look in the wild: several lines for one user (the last
// one counts), blanks around lines, CR LF, comment and junk lines, {PLAIN} and {SHA} entries, hashed entries the
// library rejects. It returns the text and a (user, password) pair worth trying.
func genHtpasswd(r *hx.Rand) (string, string, string) {
	n := 1 + r.Intn(6)
	var lines []string
	type up struct{ u, p string }
	var cands []up
	for i := 0; i < n; i++ {
		u, p := r.Pick(htUsers), r.Pick(htPws)
		if i > 0 && r.Chance(1, 3) {
			u = cands[r.Intn(len(cands))].u // another line for a user the file has already
		}
		enc := p
		switch r.Intn(10) {
		case 0:
			enc = "{PLAIN}" + p
		case 1, 2:
			enc = shaEnc(p)
		case 3:
			enc = r.Pick(htBroken)
		}
		line := u + ":" + enc
		switch r.Intn(8) {
		case 0:
			line = "  " + line
		case 1:
			line += " "
		case 2:
			line += "\r"
		case 3:
			line = "\t" + line + " \t"
		}
		lines = append(lines, line)
		cands = append(cands, up{u, p})
		if r.Chance(1, 4) {
			lines = append(lines, r.Pick(htJunk))
		}
	}
	text := strings.Join(lines, "\n")
	if r.Chance(3, 4) {
		text += "\n"
	}
	c := cands[r.Intn(len(cands))]
	switch r.Intn(6) {
	case 0:
		c.p = r.Pick(htPws)
	case 1:
		c.p = "{PLAIN}" + c.p
	case 2:
		c.p = strings.TrimPrefix(c.p, "{PLAIN}")
	}
	return text, c.u, c.p
}

func (c credIn) apply(h http.Header) {
	switch c.Mode {
	case "basic":
		h.Set("Authorization", "Basic "+base64.StdEncoding.EncodeToString([]byte(c.User+":"+c.Pass)))
	case "garbage":
		h.Set("Authorization", c.User)
	}
}

func genCred(r *hx.Rand) credIn {
	switch r.Intn(8) {
	case 0:
		return credIn{Mode: "none"}
	case 1:
		return credIn{Mode: "garbage", User: r.Pick([]string{"Basic !!!", "Bearer abc", "Basic", "Basic YWxpY2U=", "Digest YWxpY2U6c2VjcmV0",
			"Basic YWxpY2U6c2VjcmV0=", "Basic  YWxpY2U6c2VjcmV0", "BasicYWxpY2U6c2VjcmV0", "YWxpY2U6c2VjcmV0", "Basic Ym9iOmh1bnRlcjI", "Basic Ym9iOmh1bnRlcjI==",
			"Basic Ym9i=mh1bnRlcjI=", "Basic YWxpY2U6c2VjcmV0 YWxpY2U6c2VjcmV0", "Basic alice:secret", "Negotiate YWxpY2U6c2VjcmV0", "Basic =", "Basic ====", "Basic Y"})}
	case 2, 3:
		return credIn{Mode: "basic", User: r.Pick([]string{"alice", "bob", "mallory", "", "Alice"}), Pass: r.Pick([]string{"secret", "hunter2", "", "x", "Secret"})}
	default:
		s := defaultSecrets[r.Intn(2)]
		return credIn{Mode: "basic", User: s[0], Pass: s[1]}
	}
}

func genAuth(r *hx.Rand) authIn {
	in := authIn{Secrets: defaultSecrets, Cred: genCred(r), Registered: []string{}}
	for _, n := range schemeNames {
		if r.Chance(1, 2) {
			in.Registered = append(in.Registered, n)
		}
	}
	switch r.Intn(6) {
	case 0:
		in.Scheme = ""
	case 1:
		in.Scheme = r.Pick([]string{"nope", "BASIC", "basic ", "x"})
	default:
		in.Scheme = r.Pick(schemeNames)
	}
	if r.Chance(1, 4) {
		// the htpasswd file as a text
		text, u, p := genHtpasswd(r)
		in.Htpasswd, in.Secrets = text, [][]string{}
		if !strings.Contains(u, ":") && r.Chance(5, 6) {
			in.Cred = credIn{Mode: "basic", User: u, Pass: p}
		}
		if r.Chance(2, 3) {
			in.Registered, in.Scheme = []string{"basic"}, "basic"
		}
	}
	in.Req = genReqExtra(r, in.Cred)
	return in
}

func runAuth(raw json.RawMessage) (interface{}, error) {
	var in authIn
	if err := json.Unmarshal(raw, &in); err != nil {
		return nil, err
	}
	if in.Cred.Mode == "basic" && strings.Contains(in.Cred.User, ":") {
		return nil, fmt.Errorf("user name with a colon cannot be sent with basic auth")
	}
	var schemes map[string]auth.AuthScheme
	var err error
	if in.Htpasswd != "" {
		for _, c := range in.Htpasswd {
			if c > 0x7e || c < 0x20 && c != '\n' && c != '\r' && c != '\t' {
				return nil, fmt.Errorf("htpasswd text outside printable ASCII")
			}
		}
		schemes, err = loadSchemesText(in.Registered, in.Htpasswd, false)
	} else {
		schemes, err = loadSchemes(in.Registered, in.Secrets)
	}
	if err != nil {
		return nil, err
	}
	t := &route.Target{AuthScheme: in.Scheme}
	lines, err := headerLines(nil, in.Cred, in.Req)
	if err != nil {
		return nil, err
	}
	method := in.Req.Method
	if method == "" {
		method = "GET"
	}
	req := httptest.NewRequest("GET", "http://c12.test/", nil)
	req.Method = method
	for _, l := range lines {
		req.Header.Add(l[0], l[1])
	}
	ba := libBasicAuth(lines)
	_, pw, _ := req.BasicAuth()
	rec := httptest.NewRecorder()
	ok := t.Authorized(req, rec, schemes)
	return map[string]interface{}{"ok": ok, "ba": ba, "hashed": hashedOracle(in.Htpasswd, pw),
		"challenge": rec.Header().Get("WWW-Authenticate") != ""}, nil
}

// ---------------------------------------------------------------------------------------------------------
// c12.basicauth - the Authorization line -> (user, password): net/http's Request.BasicAuth against the model
// ---------------------------------------------------------------------------------------------------------

type basicAuthIn struct {
	H    string   `json:"h"`    // the Authorization line (ASCII)
	Pair []string `json:"pair"` // set when h is "Basic " (any case) + StdEncoding of user:password, user without colon: hex user, hex password
}

var (
	baUsers  = []string{"alice", "bob", "a", "", "Aladdin", "user name", "\xe4lice", "u\x00", "ab", "abc"}
	baPasses = []string{"secret", "hunter2", "", "x", ":", "a:b", "open sesame", "p\xff\xfe", "::", "c", "bc", "\r\n"}
)

func genBasicAuth(r *hx.Rand) basicAuthIn {
	u, p := r.Pick(baUsers), r.Pick(baPasses)
	if r.Chance(1, 2) {
		u = strings.ReplaceAll(string(r.Bytes(r.Intn(7))), ":", "")
		p = string(r.Bytes(r.Intn(7)))
	}
	pair := []string{hex.EncodeToString([]byte(u)), hex.EncodeToString([]byte(p))}
	switch r.Intn(5) {
	case 0:
		return basicAuthIn{H: "Basic " + b64(u, p), Pair: pair}
	case 1:
		return basicAuthIn{H: r.Pick([]string{"basic ", "BASIC ", "bASIC ", "BaSiC "}) + b64(u, p), Pair: pair}
	case 2:
		return basicAuthIn{H: authSpellings(r, u, p)}
	}
	// a correct line with one to three edits
	b := []byte("Basic " + b64(u, p))
	for k := 1 + r.Intn(3); k > 0; k-- {
		i := r.Intn(len(b) + 1)
		const edits = "ABab01+/=-_ \r\n\t:.~Zz9"
		c := edits[r.Intn(len(edits))]
		switch {
		case i == len(b) || r.Chance(1, 3):
			b = append(b[:i], append([]byte{c}, b[i:]...)...)
		case r.Chance(1, 2):
			b = append(b[:i], b[i+1:]...)
		default:
			b[i] = c
		}
		if len(b) == 0 {
			break
		}
	}
	return basicAuthIn{H: string(b)}
}

func runBasicAuth(raw json.RawMessage) (interface{}, error) {
	var in basicAuthIn
	if err := json.Unmarshal(raw, &in); err != nil {
		return nil, err
	}
	for _, c := range in.H {
		if c > 0x7e {
			return nil, fmt.Errorf("line not ASCII")
		}
	}
	u, p, ok := (&http.Request{Header: http.Header{"Authorization": {in.H}}}).BasicAuth()
	return map[string]interface{}{"ok": ok, "u": hex.EncodeToString([]byte(u)), "p": hex.EncodeToString([]byte(p))}, nil
}

// ---------------------------------------------------------------------------------------------------------

func init() {
	hx.Register(&hx.Stream{
		Name: "c12.basicauth",
		Corpus: []interface{}{
			basicAuthIn{H: "Basic YWxpY2U6c2VjcmV0", Pair: []string{"616c696365", "736563726574"}},
			basicAuthIn{H: "basic YTo=", Pair: []string{"61", ""}},
			basicAuthIn{H: "Basic Og==", Pair: []string{"", ""}},
			basicAuthIn{H: "Basic YTp="}, basicAuthIn{H: "Basic YT\r\npi"}, basicAuthIn{H: "Basic YTo"}, basicAuthIn{H: "Basic YTo=="},
			basicAuthIn{H: "Basic YTo=\n"}, basicAuthIn{H: "Basic YTo\n="}, basicAuthIn{H: "Basic Y=o="}, basicAuthIn{H: "Basic YQ=\r="}, basicAuthIn{H: "Basic YQ=:"},
			basicAuthIn{H: "Basic  YTo="}, basicAuthIn{H: "Basic"}, basicAuthIn{H: "Basic "}, basicAuthIn{H: ""}, basicAuthIn{H: "Basi"},
			basicAuthIn{H: "Bearer YTo="}, basicAuthIn{H: "Basic YWxpY2U="}, basicAuthIn{H: "Basic YTo=YTo="}, basicAuthIn{H: "Basic YTpi-_8="},
		},
		Gen: func(r *hx.Rand, i int) interface{} { return genBasicAuth(r) },
		Run: runBasicAuth,
	})

	hx.Register(&hx.Stream{
		Name: "c12.parse",
		Corpus: []interface{}{
			parseIn{"ip", "1.2.3.4"}, parseIn{"ip", "::ffff:1.2.3.4"}, parseIn{"ip", "fe80::1%eth0"}, parseIn{"ip", "1:2:3:4:5:6:7::"},
			parseIn{"ip", "::1:2:3:4:5:6:7:8"}, parseIn{"ip", "1:2:3:4:5:6:7:1.2.3.4"}, parseIn{"ip", "00.1.2.3"}, parseIn{"ip", "0.0.0.0"},
			parseIn{"cidr", "10.0.0.0/33"}, parseIn{"cidr", "1.2.3.4/08"}, parseIn{"cidr", "::ffff:1.2.3.4/100"}, parseIn{"cidr", "::/0"},
			parseIn{"hostport", "[fe80::1%eth0]:80"}, parseIn{"hostport", "[::1]"}, parseIn{"hostport", ":80"}, parseIn{"hostport", "a]:b:1"},
		},
		Gen: func(r *hx.Rand, i int) interface{} {
			switch r.Intn(4) {
			case 3:
				s := randAddr(r)
				if r.Chance(1, 2) {
					return parseIn{"ip", mutate(r, s)}
				}
				return parseIn{"cidr", mutate(r, s+"/"+fmt.Sprint(r.Intn(140)))}
			case 0:
				s := r.Pick(append(append(append([]string{}, addrs...), zoned...), garbage...))
				return parseIn{"ip", mutate(r, mutate(r, s))}
			case 1:
				s := r.Pick(append(append([]string{}, goodBlocks...), badBlocks...))
				if !strings.Contains(s, "/") && r.Chance(1, 2) {
					s += "/" + r.Pick([]string{"0", "8", "32", "33", "96", "128", "129", "007"})
				}
				return parseIn{"cidr", mutate(r, s)}
			default:
				return parseIn{"hostport", mutate(r, genRemote(r))}
			}
		},
		Run: func(raw json.RawMessage) (interface{}, error) {
			var in parseIn
			if err := json.Unmarshal(raw, &in); err != nil {
				return nil, err
			}
			switch in.Kind {
			case "ip":
				ip := net.ParseIP(in.S)
				if ip == nil {
					return nil, nil
				}
				return hex.EncodeToString(ip), nil
			case "cidr":
				_, n, err := net.ParseCIDR(in.S)
				if err != nil {
					return nil, nil
				}
				return blockOf(n), nil
			default:
				h, _, err := net.SplitHostPort(in.S)
				if err != nil {
					return nil, nil
				}
				return h, nil
			}
		},
	})

	hx.Register(&hx.Stream{
		Name: "c12.decide",
		Corpus: []interface{}{
			// D16: options that do not parse
			decideIn{Allow: "ip:10.0.0.0/33", Remote: "9.9.9.9:1", XFF: []string{}},
			decideIn{Allow: "foo:1.2.3.4", Remote: "9.9.9.9:1", XFF: []string{}},
			decideIn{Deny: "ip:bad,ip:1.2.3.4", Remote: "1.2.3.4:1", XFF: []string{}},
			decideIn{Allow: "ip:10.0.0.0/8", Deny: "ip:1.2.3.4", Remote: "1.2.3.4:1", XFF: []string{}},
			decideIn{Allow: "ip:10.0.0.0/8,1.2.3.4", Remote: "9.9.9.9:1", XFF: []string{}},
			// D16b: peers that cannot be parsed
			decideIn{Allow: "ip:fe80::/10", Remote: "[2001::1%eth0]:1", XFF: []string{}},
			decideIn{Allow: "ip:10.0.0.0/8", Remote: "9.9.9.9", XFF: []string{}},
			decideIn{Allow: "ip:10.0.0.0/8", Remote: "host:80", XFF: []string{}},
			decideIn{Deny: "ip:fe80::/10", Remote: "[fe80::1%eth0]:1", XFF: []string{}},
			// X-Forwarded-For
			decideIn{Allow: "ip:10.0.0.0/8", Remote: "10.1.2.3:1", XFF: []string{"10.2.2.2, 9.9.9.9"}},
			decideIn{Allow: "ip:10.0.0.0/8", Remote: "10.1.2.3:1", XFF: []string{"10.2.2.2", "9.9.9.9"}},
			decideIn{Deny: "ip:2001::/16", Remote: "10.1.2.3:1", XFF: []string{"2001::1%eth0"}},
			decideIn{Allow: "ip:10.0.0.0/8", Remote: "10.1.2.3:1", XFF: []string{" 10.1.2.3 ,garbage,, 10.9.9.9"}},
			// families
			decideIn{Allow: "ip:::/0", Remote: "1.2.3.4:1", XFF: []string{}},
			decideIn{Deny: "ip:::ffff:1.2.3.0/120", Remote: "[::ffff:1.2.3.4]:1", XFF: []string{}},
			decideIn{Allow: " IP : 1.2.3.4 ,ip:::1", Remote: "[::1]:1", XFF: []string{}},
			decideIn{Remote: "1.2.3.4:1", XFF: []string{"9.9.9.9"}},
		},
		Gen: func(r *hx.Rand, i int) interface{} {
			allow, deny := genOpts(r)
			remote := genRemote(r)
			return decideIn{Allow: allow, Deny: deny, Remote: remote, XFF: genXFF(r, remote)}
		},
		Run: runDecide,
	})

	hx.Register(&hx.Stream{
		Name: "c12.tcp",
		Corpus: []interface{}{
			tcpIn{Allow: "ip:10.0.0.0/33", TCP: tcpPeerIn{"tcp", "09090909"}},
			tcpIn{Deny: "ip:bad,ip:1.2.3.4", TCP: tcpPeerIn{"tcp", "01020304"}},
			tcpIn{Allow: "ip:10.0.0.0/8", Deny: "ip:1.2.3.4", TCP: tcpPeerIn{"tcp", "01020304"}},
			tcpIn{Allow: "ip:10.0.0.0/8", TCP: tcpPeerIn{"nontcp", ""}},
			tcpIn{Allow: "ip:10.0.0.0/8", TCP: tcpPeerIn{"tcp", ""}},
			tcpIn{Allow: "ip:10.0.0.0/8", TCP: tcpPeerIn{"tcp", "00000000000000000000ffff0a010203"}},
			tcpIn{Allow: "ip:10.0.0.0/8", TCP: tcpPeerIn{"tcp", "0a010203"}},
			tcpIn{Allow: "ip:::/0", TCP: tcpPeerIn{"tcp", "01020304"}},
			tcpIn{Deny: "ip:::ffff:1.2.3.0/120", TCP: tcpPeerIn{"tcp", "01020304"}},
			tcpIn{Deny: "ip:fe80::/10", TCP: tcpPeerIn{"tcp", "fe800000000000000000000000000001"}},
			tcpIn{TCP: tcpPeerIn{"nontcp", ""}},
		},
		Gen: func(r *hx.Rand, i int) interface{} {
			allow, deny := genOpts(r)
			return tcpIn{Allow: allow, Deny: deny, TCP: genTCPPeer(r)}
		},
		Run: runTCP,
	})

	hx.Register(&hx.Stream{
		Name: "c12.auth",
		Corpus: []interface{}{
			authIn{Scheme: "", Registered: []string{}, Secrets: defaultSecrets, Cred: credIn{Mode: "none"}},
			authIn{Scheme: "nope", Registered: []string{"basic"}, Secrets: defaultSecrets, Cred: credIn{"basic", "alice", "secret"}},
			authIn{Scheme: "basic", Registered: []string{"basic"}, Secrets: defaultSecrets, Cred: credIn{"basic", "alice", "secret"}},
			authIn{Scheme: "basic", Registered: []string{"basic"}, Secrets: defaultSecrets, Cred: credIn{"basic", "alice", "hunter2"}},
			authIn{Scheme: "basic", Registered: []string{"basic"}, Secrets: defaultSecrets, Cred: credIn{Mode: "none"}},
			authIn{Scheme: "basic", Registered: []string{}, Secrets: defaultSecrets, Cred: credIn{"basic", "alice", "secret"}},
		},
		Gen: func(r *hx.Rand, i int) interface{} { return genAuth(r) },
		Run: runAuth,
	})
}

var _ = time.Second
