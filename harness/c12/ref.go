package main

import (
	"net"
	"net/netip"
	"strings"
)

// Independent evaluation of the access options with net/netip. Nothing here calls into
// github.com/fabiolb/fabio; it is the reference the Lean specification predicate is evaluated against
// ("admitted ⇒ inside an allow block / outside every deny block, for the peer and every X-Forwarded-For
// element; options that do not parse admit nobody; an unparsable peer is not admitted when rules exist").

type refAddr struct {
	OK   bool `json:"ok"`   // the text is an address (an IPv6 zone is allowed and ignored)
	In   bool `json:"in"`   // inside one of the listed blocks
	Same bool `json:"same"` // X-Forwarded-For element textually equal to the peer host
}

type refOut struct {
	HasRules  bool      `json:"hasRules"`
	Malformed bool      `json:"malformed"`
	Mode      string    `json:"mode"`
	Peer      refAddr   `json:"peer"`
	XFF       []refAddr `json:"xff"`
	TCPPeer   refAddr   `json:"tcpPeer"`
}

func allDigits(s string) bool {
	if s == "" {
		return false
	}
	for _, c := range s {
		if c < '0' || c > '9' {
			return false
		}
	}
	return true
}

// refBlocks reads "ip:<addr>[/<len>]" items. IPv4-mapped blocks of length >= 96 are IPv4 blocks; IPv4 and
// IPv6 are otherwise distinct families.
func refBlocks(opt string) ([]netip.Prefix, bool) {
	var ps []netip.Prefix
	for _, item := range strings.Split(opt, ",") {
		i := strings.IndexByte(item, ':')
		if i < 0 || strings.ToLower(strings.TrimSpace(item[:i])) != "ip" {
			return nil, false
		}
		data := strings.TrimSpace(item[i+1:])
		var a netip.Addr
		var err error
		bits := -1
		if j := strings.IndexByte(data, '/'); j >= 0 {
			a, err = netip.ParseAddr(data[:j])
			m := data[j+1:]
			if err != nil || a.Zone() != "" || !allDigits(m) || len(m) > 6 {
				return nil, false
			}
			bits = 0
			for _, c := range m {
				bits = bits*10 + int(c-'0')
			}
			if bits > a.BitLen() {
				return nil, false
			}
		} else {
			a, err = netip.ParseAddr(data)
			if err != nil || a.Zone() != "" {
				return nil, false
			}
			a = a.Unmap()
			bits = a.BitLen()
		}
		if a.Is4In6() && bits >= 96 {
			a, bits = a.Unmap(), bits-96
		}
		ps = append(ps, netip.PrefixFrom(a, bits).Masked())
	}
	return ps, true
}

func refCheck(ps []netip.Prefix, text string) refAddr {
	if i := strings.IndexByte(text, '%'); i >= 0 {
		text = text[:i] // an IPv6 zone is ignored
	}
	a, err := netip.ParseAddr(text)
	if err != nil {
		return refAddr{}
	}
	a = a.Unmap()
	for _, p := range ps {
		if p.Contains(a) {
			return refAddr{OK: true, In: true}
		}
	}
	return refAddr{OK: true}
}

func refEval(allow, deny, remote string, xff []string, tcpIP net.IP, tcpIsTCP bool) refOut {
	out := refOut{HasRules: allow != "" || deny != "", Mode: "none", XFF: []refAddr{}}
	var ps []netip.Prefix
	ok := true
	switch {
	case allow != "" && deny != "":
		ok = false
	case allow != "":
		out.Mode = "allow"
		ps, ok = refBlocks(allow)
	case deny != "":
		out.Mode = "deny"
		ps, ok = refBlocks(deny)
	}
	out.Malformed = !ok
	host, _, err := net.SplitHostPort(remote)
	if err == nil {
		out.Peer = refCheck(ps, host)
	}
	for _, line := range xff {
		for _, el := range strings.Split(line, ",") {
			el = strings.TrimSpace(el)
			r := refCheck(ps, el)
			r.Same = err == nil && el == host
			out.XFF = append(out.XFF, r)
		}
	}
	if tcpIsTCP {
		if a, ok := netip.AddrFromSlice(tcpIP); ok {
			out.TCPPeer = refCheck(ps, a.String())
		}
	}
	return out
}
