package main

import (
	"bufio"
	"crypto/tls"
	"encoding/json"
	"fmt"
	"io"
	"net"
	"net/http"
	"net/http/httptest"
	"net/url"
	"strconv"
	"strings"
	"sync"
	"sync/atomic"
	"time"

	"github.com/fabiolb/fabio/auth"
	"github.com/fabiolb/fabio/config"
	"github.com/fabiolb/fabio/proxy"
	"github.com/fabiolb/fabio/proxy/tcp"
	"github.com/fabiolb/fabio/route"
	"verif/harness/hx"
)

// c12.gate — the real HTTPProxy, tcp.Proxy, tcp.SNIProxy and tcp.DynamicProxy in front of upstreams that count
// every connection and request. A refused request/connection must leave the counters untouched.

type gateIn struct {
	Proto      string     `json:"proto"` // http | tcp | sni | dyn
	Via        string     `json:"via"`   // v4 | v6 | ll (link-local with zone, when the host has one)
	Allow      string     `json:"allow"`
	Deny       string     `json:"deny"`
	Scheme     string     `json:"scheme"`
	Registered []string   `json:"registered"`
	Secrets    [][]string `json:"secrets"`
	Cred       credIn     `json:"cred"`
	XFF        []string   `json:"xff"`
	NoRoute    bool       `json:"noroute"`
	Redirect   string     `json:"redirect"` // redirect= option ("" = none); a 3xx value makes fabio answer itself
	Strip      string     `json:"strip"`
	HostOpt    string     `json:"host"`
	Kind       string     `json:"kind"` // http only: "" | "ws" (Upgrade: websocket) | "sse" (Accept: text/event-stream)
	Req        reqExtra   `json:"req"`  // http only: method, spelling of the Authorization line, further header lines
}

type gateEnv struct {
	hits atomic.Int64 // connections accepted + requests handled by any upstream

	httpUp  *httptest.Server // plain HTTP upstream
	tlsUp   *httptest.Server // TLS upstream (behind the SNI proxy)
	echoUp  net.Listener     // TCP echo upstream
	ports   map[string]string
	llAddr  string // "fe80::…%eth0" or ""
	mu      sync.Mutex
	target  *route.Target
	schemes map[string]auth.AuthScheme
}

var (
	genv     *gateEnv
	genvOnce sync.Once
	genvErr  error
)

func (e *gateEnv) lookup() *route.Target {
	e.mu.Lock()
	defer e.mu.Unlock()
	return e.target
}

func serveLoop(l net.Listener, h tcp.Handler) {
	for {
		c, err := l.Accept()
		if err != nil {
			return
		}
		go h.ServeTCP(c)
	}
}

func listenAny() (net.Listener, string, error) {
	l, err := net.Listen("tcp", ":0") // dual stack
	if err != nil {
		return nil, "", err
	}
	_, port, _ := net.SplitHostPort(l.Addr().String())
	return l, port, nil
}

func setupGate() (*gateEnv, error) {
	e := &gateEnv{ports: map[string]string{}}
	count := func(c net.Conn, s http.ConnState) {
		if s == http.StateNew {
			e.hits.Add(1)
		}
	}
	h := http.HandlerFunc(func(w http.ResponseWriter, r *http.Request) {
		e.hits.Add(1)
		io.WriteString(w, "OK")
	})
	e.httpUp = httptest.NewUnstartedServer(h)
	e.httpUp.Config.ConnState = count
	e.httpUp.Start()
	e.tlsUp = httptest.NewUnstartedServer(h)
	e.tlsUp.Config.ConnState = count
	e.tlsUp.StartTLS()
	var err error
	if e.echoUp, err = net.Listen("tcp", "127.0.0.1:0"); err != nil {
		return nil, err
	}
	go func() {
		for {
			c, err := e.echoUp.Accept()
			if err != nil {
				return
			}
			e.hits.Add(1)
			go func() {
				defer c.Close()
				line, err := bufio.NewReader(c).ReadString('\n')
				if err == nil {
					io.WriteString(c, "pong:"+line)
				}
			}()
		}
	}()

	// the proxies under test
	hp := &proxy.HTTPProxy{
		Config:    config.Proxy{},
		Transport: &http.Transport{DisableKeepAlives: true},
		Lookup: func(r *http.Request) *route.Target {
			t := e.lookup()
			if t != nil && t.RedirectCode != 0 {
				// as route.Table.Lookup does for a redirect route
				r.URL.Host = r.Host
				cp := *t
				cp.BuildRedirectURL(r.URL)
				t = &cp
			}
			return t
		},
	}
	front := http.HandlerFunc(func(w http.ResponseWriter, r *http.Request) {
		e.mu.Lock()
		hp.AuthSchemes = e.schemes
		e.mu.Unlock()
		hp.ServeHTTP(w, r)
	})
	l, port, err := listenAny()
	if err != nil {
		return nil, err
	}
	e.ports["http"] = port
	go http.Serve(l, front)

	lk := func(string) *route.Target { return e.lookup() }
	for name, hd := range map[string]tcp.Handler{
		"tcp": &tcp.Proxy{Lookup: lk, DialTimeout: 10 * time.Second},
		"sni": &tcp.SNIProxy{Lookup: lk, DialTimeout: 10 * time.Second},
		"dyn": &tcp.DynamicProxy{Lookup: lk, DialTimeout: 10 * time.Second},
	} {
		l, port, err := listenAny()
		if err != nil {
			return nil, err
		}
		e.ports[name] = port
		go serveLoop(l, hd)
	}

	// a link-local address with a zone, if the host has one and it is reachable
	if ifs, err := net.Interfaces(); err == nil {
		for _, ifc := range ifs {
			as, _ := ifc.Addrs()
			for _, a := range as {
				if n, ok := a.(*net.IPNet); ok && n.IP.To4() == nil && n.IP.IsLinkLocalUnicast() && e.llAddr == "" {
					cand := n.IP.String() + "%" + ifc.Name
					c, err := net.DialTimeout("tcp", net.JoinHostPort(cand, e.ports["tcp"]), 500*time.Millisecond)
					if err == nil {
						c.Close()
						e.llAddr = cand
					}
				}
			}
		}
	}
	time.Sleep(50 * time.Millisecond) // let the probe connection (no route yet) drain
	return e, nil
}

// dialClient connects the harness' own client to one of the local listeners. The connect carries no meaning for the
// property; on a loaded machine a SYN may wait for the accept loop, so a timeout is retried with a longer one.
func dialClient(addr string) (net.Conn, error) {
	var c net.Conn
	var err error
	for _, to := range []time.Duration{2 * time.Second, 5 * time.Second, 15 * time.Second} {
		if c, err = net.DialTimeout("tcp", addr, to); err == nil {
			return c, nil
		}
		if ne, ok := err.(net.Error); !ok || !ne.Timeout() {
			return nil, err
		}
	}
	return nil, err
}

func (e *gateEnv) dialAddr(via, proto string) string {
	host := "127.0.0.1"
	switch via {
	case "v6":
		host = "::1"
	case "ll":
		if e.llAddr != "" {
			host = e.llAddr
		} else {
			host = "::1"
		}
	}
	return net.JoinHostPort(host, e.ports[proto])
}

func runGate(raw json.RawMessage) (interface{}, error) {
	var in gateIn
	if err := json.Unmarshal(raw, &in); err != nil {
		return nil, err
	}
	genvOnce.Do(func() { genv, genvErr = setupGate() })
	if genvErr != nil {
		return nil, genvErr
	}
	e := genv
	if _, ok := e.ports[in.Proto]; !ok {
		return nil, fmt.Errorf("unknown proto %q", in.Proto)
	}
	if in.Cred.Mode == "basic" && strings.Contains(in.Cred.User, ":") {
		return nil, fmt.Errorf("user name with a colon cannot be sent with basic auth")
	}
	for _, l := range in.XFF {
		if strings.ContainsAny(l, "\r\n\x00") {
			return nil, fmt.Errorf("header value not sendable")
		}
	}
	schemes, err := loadSchemes(in.Registered, in.Secrets)
	if err != nil {
		return nil, err
	}
	var up string
	switch in.Proto {
	case "http":
		up = e.httpUp.URL + "/"
	case "sni":
		up = "tcp://" + e.tlsUp.Listener.Addr().String()
	default:
		up = "tcp://" + e.echoUp.Addr().String()
	}
	opts := mkOpts(in.Allow, in.Deny)
	if in.Scheme != "" {
		opts["auth"] = in.Scheme
	}
	if in.Proto == "http" {
		for k, v := range map[string]string{"redirect": in.Redirect, "strip": in.Strip, "host": in.HostOpt} {
			if v != "" {
				opts[k] = v
			}
		}
	}
	var tgt *route.Target
	if !in.NoRoute {
		tgt = route.VerifC12AddTarget(up, opts) // the route table's own path
	}
	e.mu.Lock()
	e.target, e.schemes = tgt, schemes
	e.mu.Unlock()

	before := e.hits.Load()
	addr := e.dialAddr(in.Via, in.Proto)
	c, err := dialClient(addr)
	if err != nil {
		return nil, fmt.Errorf("dial proxy %s: %v", addr, err)
	}
	defer c.Close()
	c.SetDeadline(time.Now().Add(20 * time.Second))
	peer := c.LocalAddr().String()
	var extra http.Header
	switch in.Kind {
	case "ws":
		extra = http.Header{"Upgrade": {"websocket"}, "Connection": {"Upgrade"}}
	case "sse":
		extra = http.Header{"Accept": {"text/event-stream"}}
	}
	var outcome string
	var lines [][2]string
	if in.Proto == "http" {
		if lines, err = headerLines(in.XFF, in.Cred, in.Req); err != nil {
			return nil, err
		}
		for k, vs := range extra {
			for _, v := range vs {
				lines = append(lines, [2]string{k, v})
			}
		}
		outcome, err = exchangeHTTP(c, in.Req.Method, lines)
	} else {
		outcome, err = exchange(c, in.Proto, in.XFF, in.Cred, extra)
	}
	if err != nil {
		return nil, err
	}
	// a refused client has seen EOF/its status only after ServeTCP/ServeHTTP decided; give a wrongly started
	// dial a moment to land before reading the counter
	if outcome != "200" && outcome != "echo" {
		// (also for 3xx: a redirect route must not touch the upstream at all)
		time.Sleep(2 * time.Millisecond)
	}
	hits := e.hits.Load() - before
	if hits > 1 {
		hits = 1
	}
	host, _, _ := net.SplitHostPort(peer)
	var tcpIP net.IP
	if i := strings.IndexByte(host, '%'); i >= 0 {
		tcpIP = net.ParseIP(host[:i])
	} else {
		tcpIP = net.ParseIP(host)
	}
	out := map[string]interface{}{
		"peer":    peer,
		"outcome": outcome,
		"hits":    hits,
		"ref":     refEval(in.Allow, in.Deny, peer, in.XFF, tcpIP, true),
	}
	if in.Proto == "http" {
		// every X-Forwarded-For line of the request counts, however its name is spelled; the credentials are what
		// net/http reads out of the first Authorization line
		out["ref"] = refEval(in.Allow, in.Deny, peer, allXFF(lines), tcpIP, true)
		out["ba"] = libBasicAuth(wireLines(lines))
	}
	return out, nil
}

// wireLines: a header value arrives without the blanks and tabs around it.
func wireLines(lines [][2]string) [][2]string {
	out := make([][2]string, len(lines))
	for i, l := range lines {
		out[i] = [2]string{l[0], strings.Trim(l[1], " \t")}
	}
	return out
}

func validToken(s string) bool {
	if s == "" {
		return false
	}
	for _, c := range s {
		if !(c >= 'a' && c <= 'z' || c >= 'A' && c <= 'Z' || c >= '0' && c <= '9' || strings.ContainsRune("!#$%&'*+-.^_`|~", c)) {
			return false
		}
	}
	return true
}

// exchangeHTTP writes the request byte by byte - the method as given, the header lines in the given order and
// spelling - and names the status of the answer.
func exchangeHTTP(c net.Conn, method string, lines [][2]string) (string, error) {
	if method == "" {
		method = "GET"
	}
	if !validToken(method) {
		return "", fmt.Errorf("method %q is not a token", method)
	}
	var b strings.Builder
	fmt.Fprintf(&b, "%s /p/x HTTP/1.1\r\nHost: c12.test\r\nUser-Agent: c12\r\nConnection: close\r\n", method)
	if method == "POST" || method == "PUT" || method == "PATCH" {
		b.WriteString("Content-Length: 0\r\n")
	}
	for _, l := range lines {
		if !validToken(l[0]) {
			return "", fmt.Errorf("header name %q is not a token", l[0])
		}
		for _, ch := range l[1] {
			if ch < 0x20 && ch != '\t' || ch > 0x7e {
				return "", fmt.Errorf("header value %q cannot be sent", l[1])
			}
		}
		switch strings.ToLower(l[0]) {
		case "host", "content-length", "transfer-encoding", "expect", "te", "trailer":
			return "", fmt.Errorf("header %q would change the framing of the request", l[0])
		}
		b.WriteString(l[0] + ": " + l[1] + "\r\n")
	}
	b.WriteString("\r\n")
	if _, err := io.WriteString(c, b.String()); err != nil {
		return "", err
	}
	resp, err := http.ReadResponse(bufio.NewReader(c), &http.Request{Method: method})
	if err != nil {
		return "error:" + err.Error(), nil
	}
	io.Copy(io.Discard, resp.Body)
	resp.Body.Close()
	return strconv.Itoa(resp.StatusCode), nil
}

// exchange plays the client's part over an established connection to one of the proxies and names what it saw:
// the HTTP status, "echo" (the upstream answered), "closed" (the proxy closed the connection), or "garbled:…".
func exchange(c net.Conn, proto string, xff []string, cred credIn, extra http.Header) (string, error) {
	outcome := ""
	switch proto {
	case "http":
		req, _ := http.NewRequest("GET", "http://c12.test/p/x", nil)
		for _, l := range xff {
			req.Header.Add("X-Forwarded-For", l)
		}
		cred.apply(req.Header)
		for k, vs := range extra {
			req.Header[k] = vs
		}
		req.Close = true
		if err := req.Write(c); err != nil {
			return "", err
		}
		resp, err := http.ReadResponse(bufio.NewReader(c), req)
		if err != nil {
			outcome = "error:" + err.Error()
		} else {
			io.Copy(io.Discard, resp.Body)
			resp.Body.Close()
			outcome = strconv.Itoa(resp.StatusCode)
		}
	case "sni":
		tc := tls.Client(c, &tls.Config{ServerName: "c12.test", InsecureSkipVerify: true})
		if err := tc.Handshake(); err != nil {
			outcome = "closed"
		} else {
			io.WriteString(tc, "GET / HTTP/1.0\r\n\r\n")
			b, _ := io.ReadAll(tc)
			if strings.HasPrefix(string(b), "HTTP/1.0 200") {
				outcome = "echo"
			} else {
				outcome = "garbled:" + string(b)
			}
		}
	default:
		io.WriteString(c, "ping\n")
		line, err := bufio.NewReader(c).ReadString('\n')
		switch {
		case err == nil && line == "pong:ping\n":
			outcome = "echo"
		case err != nil && line == "":
			outcome = "closed"
		default:
			outcome = "garbled:" + line
		}
	}
	return outcome, nil
}

var (
	gateAllow = []string{"ip:127.0.0.0/8", "ip:127.0.0.0/8,ip:::1,ip:fe80::/10", "ip:::1", "ip:10.0.0.0/8", "ip:fe80::/10", "ip:0.0.0.0/0",
		"ip:::/0", "ip:127.0.0.1", "ip:127.0.0.2", " IP : 127.0.0.1 ,ip:::1,ip:fe80::/10"}
	gateDeny = []string{"ip:127.0.0.1", "ip:::1", "ip:9.9.9.9", "ip:127.0.0.0/8,ip:::/0", "ip:10.0.0.0/8", "ip:fe80::/10", "ip:0.0.0.0/0"}
	gateBad  = []string{"ip:127.0.0.1/33", "foo:127.0.0.1", "ip:bad,ip:127.0.0.1", "127.0.0.1", "ip:127.0.0.0/8,ip:::1,ip:fe80::/10,ip:"}
	gateXFF  = [][]string{{}, {}, {"127.0.0.1"}, {"9.9.9.9"}, {"10.1.2.3, 9.9.9.9"}, {"10.1.2.3", "9.9.9.9"}, {"127.0.0.1, ::1"},
		{"garbage, 127.0.0.1"}, {"fe80::1%eth0"}, {" 127.0.0.1 "}, {"127.0.0.1", "::1, fe80::1"}}
)

func genGate(r *hx.Rand) gateIn {
	in := gateIn{Proto: r.Pick([]string{"http", "http", "http", "tcp", "sni", "dyn"}), Via: r.Pick([]string{"v4", "v4", "v6", "ll"}),
		Secrets: defaultSecrets, Registered: []string{}, XFF: []string{}, Cred: credIn{Mode: "none"}}
	switch r.Intn(10) {
	case 0:
	case 1, 2:
		in.Allow = r.Pick(gateBad)
		if r.Chance(1, 3) {
			in.Allow, in.Deny = "", in.Allow
		}
	case 3:
		in.Allow, in.Deny = r.Pick(gateAllow), r.Pick(gateDeny)
	case 4, 5, 6:
		in.Allow = r.Pick(gateAllow)
	default:
		in.Deny = r.Pick(gateDeny)
	}
	if in.Proto == "http" {
		in.XFF = gateXFF[r.Intn(len(gateXFF))]
		a := genAuth(r)
		if r.Chance(1, 2) {
			a.Scheme = ""
		}
		in.Scheme, in.Registered, in.Cred = a.Scheme, a.Registered, a.Cred
		if r.Chance(1, 3) {
			in.Redirect = r.Pick([]string{"301", "302", "307", "308", "301", "399", "200", "abc", "+301", "-301", "0302", "300", "400", "299", " 301", "308 ", "3_01", "0x12d", "3e2", "+", "99999999999999999999"})
		}
		if r.Chance(1, 4) {
			in.Strip = "/p"
		}
		if r.Chance(1, 4) {
			in.HostOpt = r.Pick([]string{"dst", "h.c12.test"})
		}
		// the other two ways ServeHTTP reaches an upstream: the websocket handler (hijack, raw dial) and the
		// flushing reverse proxy of server-sent events - behind the same gates
		in.Kind = r.Pick([]string{"", "", "", "ws", "sse"})
		if in.Kind == "" {
			in.Req = genReqExtra(r, in.Cred)
		}
		if r.Chance(1, 12) {
			// a chain longer than any bound one might put on the number of elements examined; the offending address
			// anywhere in it
			n := 10 + r.Intn(40)
			els := make([]string, n)
			for i := range els {
				els[i] = r.Pick([]string{"127.0.0.1", "127.0.0.1", "::1", "127.0.0.2", "10.1.2.3"})
			}
			if r.Chance(2, 3) {
				els[r.Intn(n)] = r.Pick([]string{"9.9.9.9", "10.1.2.3", "fe80::1%eth0", "2001:db8::5"})
			}
			in.XFF = []string{strings.Join(els, r.Pick([]string{",", ", "}))}
		}
	}
	if in.Req.Hdrs == nil {
		in.Req.Hdrs = [][]string{}
	}
	in.NoRoute = r.Chance(1, 25)
	return in
}

func init() {
	none := credIn{Mode: "none"}
	hx.Register(&hx.Stream{
		Name: "c12.gate",
		Corpus: []interface{}{
			gateIn{Proto: "http", Via: "v4", Allow: "ip:10.0.0.0/8", Secrets: defaultSecrets, Registered: []string{}, XFF: []string{}, Cred: none},
			gateIn{Proto: "http", Via: "v4", Allow: "ip:127.0.0.1/33", Secrets: defaultSecrets, Registered: []string{}, XFF: []string{}, Cred: none},
			gateIn{Proto: "http", Via: "ll", Allow: "ip:10.0.0.0/8", Secrets: defaultSecrets, Registered: []string{}, XFF: []string{}, Cred: none},
			gateIn{Proto: "http", Via: "v4", Allow: "ip:127.0.0.0/8", Secrets: defaultSecrets, Registered: []string{}, XFF: []string{"127.0.0.1", "9.9.9.9"}, Cred: none},
			gateIn{Proto: "http", Via: "v4", Scheme: "nope", Secrets: defaultSecrets, Registered: []string{"basic"}, XFF: []string{}, Cred: credIn{"basic", "alice", "secret"}},
			gateIn{Proto: "http", Via: "v4", Scheme: "basic", Secrets: defaultSecrets, Registered: []string{"basic"}, XFF: []string{}, Cred: credIn{"basic", "alice", "secret"}},
			gateIn{Proto: "http", Via: "v4", Scheme: "basic", Secrets: defaultSecrets, Registered: []string{"basic"}, XFF: []string{}, Cred: credIn{"basic", "alice", "wrong"}},
			gateIn{Proto: "http", Via: "v4", Allow: "ip:10.0.0.0/8", Redirect: "301", Secrets: defaultSecrets, Registered: []string{}, XFF: []string{}, Cred: none},
			gateIn{Proto: "http", Via: "v4", Allow: "ip:127.0.0.0/8", Redirect: "302", Strip: "/p", Secrets: defaultSecrets, Registered: []string{}, XFF: []string{"9.9.9.9"}, Cred: none},
			gateIn{Proto: "http", Via: "v4", Scheme: "basic", Redirect: "301", HostOpt: "dst", Secrets: defaultSecrets, Registered: []string{"basic"}, XFF: []string{}, Cred: none},
			gateIn{Proto: "http", Via: "v4", Scheme: "nope", Redirect: "308", Secrets: defaultSecrets, Registered: []string{}, XFF: []string{}, Cred: credIn{"basic", "alice", "secret"}},
			gateIn{Proto: "http", Via: "v4", Allow: "ip:127.0.0.0/8", Scheme: "basic", Redirect: "301", Secrets: defaultSecrets, Registered: []string{"basic"}, XFF: []string{}, Cred: credIn{"basic", "alice", "secret"}},
			gateIn{Proto: "http", Via: "v4", Deny: "ip:bad", Redirect: "301", Secrets: defaultSecrets, Registered: []string{}, XFF: []string{}, Cred: none},
			gateIn{Proto: "http", Kind: "ws", Via: "v4", Scheme: "basic", Secrets: defaultSecrets, Registered: []string{"basic"}, XFF: []string{}, Cred: none},
			gateIn{Proto: "http", Kind: "ws", Via: "v4", Scheme: "basic", Secrets: defaultSecrets, Registered: []string{"basic"}, XFF: []string{}, Cred: credIn{"basic", "alice", "secret"}},
			gateIn{Proto: "http", Kind: "ws", Via: "v4", Deny: "ip:127.0.0.1", Redirect: "301", Secrets: defaultSecrets, Registered: []string{}, XFF: []string{}, Cred: none},
			gateIn{Proto: "http", Kind: "sse", Via: "v6", Allow: "ip:::1", Scheme: "nope", Secrets: defaultSecrets, Registered: []string{"basic"}, XFF: []string{}, Cred: credIn{"basic", "alice", "secret"}},
			gateIn{Proto: "tcp", Via: "v4", Deny: "ip:127.0.0.1", Secrets: defaultSecrets, Registered: []string{}, XFF: []string{}, Cred: none},
			gateIn{Proto: "tcp", Via: "v4", Deny: "ip:bad,ip:127.0.0.1", Secrets: defaultSecrets, Registered: []string{}, XFF: []string{}, Cred: none},
			gateIn{Proto: "sni", Via: "v6", Allow: "ip:127.0.0.0/8", Secrets: defaultSecrets, Registered: []string{}, XFF: []string{}, Cred: none},
			gateIn{Proto: "sni", Via: "v4", Allow: "ip:127.0.0.0/8", Secrets: defaultSecrets, Registered: []string{}, XFF: []string{}, Cred: none},
			gateIn{Proto: "dyn", Via: "v4", Allow: "foo:1", Secrets: defaultSecrets, Registered: []string{}, XFF: []string{}, Cred: none},
			gateIn{Proto: "dyn", Via: "v6", Allow: "ip:::1", Secrets: defaultSecrets, Registered: []string{}, XFF: []string{}, Cred: none},
		},
		Gen: func(r *hx.Rand, i int) interface{} { return genGate(r) },
		Run: runGate,
	})
}

var _ = url.Parse
