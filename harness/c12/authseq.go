package main

import (
	"encoding/json"
	"fmt"
	"net/http/httptest"
	"os"
	"path/filepath"
	"strings"
	"sync"
	"time"

	"github.com/fabiolb/fabio/auth"
	"github.com/fabiolb/fabio/config"
	"github.com/fabiolb/fabio/route"
	"verif/harness/hx"
)

// c12.authseq — SEQUENCES of credential attempts against ONE long-lived basic-auth scheme instance built by the
// real auth.LoadAuthSchemes over an htpasswd file with refresh enabled: valid logins interleaved with wrong
// pairs (in particular pairs whose user+password concatenation equals that of a valid pair), repeats, requests
// without credentials, and reloads of the file in between. The instance lives as long as the process: every
// case starts by reloading the file with its own contents.

type seqOp struct {
	Op      string     `json:"op"` // "try" | "reload" | "remove" (the htpasswd file disappears: the credentials are cleared)
	Mode    string     `json:"mode,omitempty"`
	User    string     `json:"user,omitempty"`
	Pass    string     `json:"pass,omitempty"`
	Secrets [][]string `json:"secrets,omitempty"`
}

type seqIn struct {
	Secrets [][]string `json:"secrets"`
	Ops     []seqOp    `json:"ops"`
}

const seqSentinel = "reload-sentinel"

var (
	seqOnce    sync.Once
	seqErr     error
	seqFile    string
	seqSchemes map[string]auth.AuthScheme
	seqGen     int
)

func seqTry(c credIn) bool {
	t := &route.Target{AuthScheme: "basic"}
	req := httptest.NewRequest("GET", "http://c12.test/", nil)
	c.apply(req.Header)
	return t.Authorized(req, httptest.NewRecorder(), seqSchemes)
}

func checkSecrets(secrets [][]string) error {
	seen := map[string]bool{}
	for _, s := range secrets {
		if len(s) != 2 || s[0] == "" || s[1] == "" || strings.ContainsAny(s[0], ":\n\r") || strings.ContainsAny(s[1], "\n\r") ||
			strings.HasPrefix(s[1], "$") || strings.HasPrefix(s[1], "{") || s[0] == seqSentinel ||
			strings.TrimSpace(s[0]) != s[0] || strings.TrimSpace(s[1]) != s[1] || strings.HasPrefix(s[0], "#") {
			return fmt.Errorf("unusable htpasswd entry %q", s)
		}
		seen[s[0]] = true
	}
	return nil
}

// seqReload rewrites the htpasswd file and waits until the scheme's refresh goroutine has picked it up (a
// sentinel user whose password changes with every generation becomes valid).
func seqReload(secrets [][]string) error {
	if err := checkSecrets(secrets); err != nil {
		return err
	}
	seqGen++
	var sb strings.Builder
	for _, s := range secrets {
		sb.WriteString(s[0] + ":" + s[1] + "\n")
	}
	pw := fmt.Sprintf("generation-%d", seqGen)
	sb.WriteString(seqSentinel + ":" + pw + "\n")
	tmp := seqFile + ".tmp"
	if err := os.WriteFile(tmp, []byte(sb.String()), 0o600); err != nil {
		return err
	}
	mt := time.Unix(1_000_000_000+int64(seqGen), 0) // strictly increasing modification time
	if err := os.Chtimes(tmp, mt, mt); err != nil {
		return err
	}
	if err := os.Rename(tmp, seqFile); err != nil {
		return err
	}
	deadline := time.Now().Add(5 * time.Second)
	for !seqTry(credIn{Mode: "basic", User: seqSentinel, Pass: pw}) {
		if time.Now().After(deadline) {
			return fmt.Errorf("htpasswd reload %d not picked up within 5s", seqGen)
		}
		time.Sleep(500 * time.Microsecond)
	}
	return nil
}

// seqRemove deletes the htpasswd file and waits until the refresh goroutine has noticed (the sentinel of the
// current generation stops being accepted): from then on the scheme knows no user at all.
func seqRemove() error {
	pw := fmt.Sprintf("generation-%d", seqGen)
	if err := os.Remove(seqFile); err != nil && !os.IsNotExist(err) {
		return err
	}
	deadline := time.Now().Add(5 * time.Second)
	for seqTry(credIn{Mode: "basic", User: seqSentinel, Pass: pw}) {
		if time.Now().After(deadline) {
			return fmt.Errorf("removal of the htpasswd file not noticed within 5s")
		}
		time.Sleep(500 * time.Microsecond)
	}
	return nil
}

func runAuthSeq(raw json.RawMessage) (interface{}, error) {
	var in seqIn
	if err := json.Unmarshal(raw, &in); err != nil {
		return nil, err
	}
	for _, op := range in.Ops {
		switch op.Op {
		case "try":
			if op.Mode == "basic" && strings.ContainsAny(op.User, ":") {
				return nil, fmt.Errorf("user name with a colon cannot be sent with basic auth")
			}
		case "reload":
			if err := checkSecrets(op.Secrets); err != nil {
				return nil, err
			}
		case "remove":
		default:
			return nil, fmt.Errorf("unknown op %q", op.Op)
		}
	}
	if err := checkSecrets(in.Secrets); err != nil {
		return nil, err
	}
	seqOnce.Do(func() {
		var d string
		if d, seqErr = os.MkdirTemp("", "c12-authseq"); seqErr != nil {
			return
		}
		seqFile = filepath.Join(d, "htpasswd")
		if seqErr = os.WriteFile(seqFile, []byte(seqSentinel+":generation-0\n"), 0o600); seqErr != nil {
			return
		}
		seqSchemes, seqErr = auth.LoadAuthSchemes(map[string]config.AuthScheme{
			"basic": {Name: "basic", Type: "basic", Basic: config.BasicAuth{File: seqFile, Realm: "c12", Refresh: 2 * time.Millisecond}},
		})
	})
	if seqErr != nil {
		return nil, seqErr
	}
	if err := seqReload(in.Secrets); err != nil {
		return nil, err
	}
	verdicts := []bool{}
	for _, op := range in.Ops {
		if op.Op == "reload" {
			if err := seqReload(op.Secrets); err != nil {
				return nil, err
			}
			continue
		}
		if op.Op == "remove" {
			if err := seqRemove(); err != nil {
				return nil, err
			}
			continue
		}
		verdicts = append(verdicts, seqTry(credIn{Mode: op.Mode, User: op.User, Pass: op.Pass}))
	}
	return map[string]interface{}{"verdicts": verdicts}, nil
}

var (
	seqUsers  = []string{"a", "ab", "abc", "b", "alice", "bob", "x", "al"}
	seqPasses = []string{"bc", "c", "b", "abc", "secret", "c:d", "hunter2", "a", "ice", ":"}
)

func genSecrets(r *hx.Rand) [][]string {
	n := 1 + r.Intn(3)
	used := map[string]bool{}
	var out [][]string
	for len(out) < n {
		u := r.Pick(seqUsers)
		if used[u] {
			continue
		}
		used[u] = true
		out = append(out, []string{u, r.Pick(seqPasses)})
	}
	if r.Chance(1, 5) {
		// a user listed twice: the later line counts
		extra := []string{out[r.Intn(len(out))][0], r.Pick(seqPasses)}
		if r.Chance(1, 2) {
			out = append(out, extra)
		} else {
			out = append([][]string{extra}, out...)
		}
	}
	return out
}

func genSeq(r *hx.Rand) seqIn {
	in := seqIn{Secrets: genSecrets(r)}
	cur := in.Secrets
	n := 2 + r.Intn(8)
	var last *seqOp
	for i := 0; i < n; i++ {
		var op seqOp
		valid := cur[r.Intn(len(cur))]
		switch k := r.Intn(20); {
		case k < 7:
			op = seqOp{Op: "try", Mode: "basic", User: valid[0], Pass: valid[1]}
		case k < 14: // the same text, boundary between user and password moved
			s := valid[0] + valid[1]
			j := r.Intn(len(s) + 1)
			op = seqOp{Op: "try", Mode: "basic", User: s[:j], Pass: s[j:]}
			if strings.Contains(op.User, ":") {
				op.User, op.Pass = valid[0], valid[1]+r.Pick([]string{"", "x"})
			}
		case k < 16:
			op = seqOp{Op: "try", Mode: "basic", User: r.Pick(append([]string{"", "mallory"}, seqUsers...)), Pass: r.Pick(append([]string{""}, seqPasses...))}
		case k == 16:
			op = seqOp{Op: "try", Mode: "none"}
		case k == 17 && last != nil:
			op = *last
		case k == 18 && i+1 < n:
			// the file disappears: nobody is known any more (attempts keep drawing on the pairs that were valid)
			op = seqOp{Op: "remove"}
		default:
			cur = genSecrets(r)
			op = seqOp{Op: "reload", Secrets: cur}
		}
		in.Ops = append(in.Ops, op)
		if op.Op == "try" {
			c := op
			last = &c
		}
	}
	return in
}

func init() {
	try := func(u, p string) seqOp { return seqOp{Op: "try", Mode: "basic", User: u, Pass: p} }
	hx.Register(&hx.Stream{
		Name: "c12.authseq",
		Corpus: []interface{}{
			seqIn{Secrets: [][]string{{"a", "bc"}}, Ops: []seqOp{try("a", "bc"), try("ab", "c"), try("abc", ""), try("", "abc"), try("a", "bc")}},
			seqIn{Secrets: [][]string{{"a", "bc"}}, Ops: []seqOp{try("ab", "c"), try("a", "bc"), try("ab", "c")}},
			seqIn{Secrets: [][]string{{"alice", "secret"}, {"al", "ice"}}, Ops: []seqOp{try("alice", "secret"), try("al", "icesecret"), try("alices", "ecret"), {Op: "try", Mode: "none"}, try("al", "ice"), try("alice", "")}},
			seqIn{Secrets: [][]string{{"a", "bc"}}, Ops: []seqOp{try("a", "bc"), {Op: "reload", Secrets: [][]string{{"ab", "c"}}}, try("a", "bc"), try("ab", "c"), try("abc", "")}},
			seqIn{Secrets: [][]string{{"a", "bc"}}, Ops: []seqOp{try("a", "bc"), {Op: "remove"}, try("a", "bc"), try("ab", "c"), {Op: "reload", Secrets: [][]string{{"a", "bc"}}}, try("a", "bc")}},
			seqIn{Secrets: [][]string{{"x", "c:d"}}, Ops: []seqOp{try("x", "c:d"), try("xc", ":d"), try("x", "c"), try("x", "c:d")}},
		},
		Gen: func(r *hx.Rand, i int) interface{} { return genSeq(r) },
		Run: runAuthSeq,
	})
}
